/-
  Scc.Fun.SafetyClosed — scoping consequences of the typing of checked terms (`ATyped`), in the
  vocabulary of the fun2core simulation (Scc/Fun2Core/SemRel.lean `fv`): the free names of a typed
  term are bound in its context, hence the body of every definition of an accepted program mentions
  only its parameters; the checker's output is `annotated` (a second proof of `C15_annotated`, from
  `ATyped`).  These are the conditions "the checker guarantees" that `Fun2Core.Sem.defFrag` /
  `fragOk` assume as decidable checks.
-/
import Scc.Fun.SafetyLemmas
import Scc.Fun2Core.SemCorePure2
import Scc.Fun.CheckSound2

namespace Scc.Fun.Safety
open Scc.Fun Scc.Fun.Typing Scc.Fun2Core.Sem

theorem bindNames_vars {ns : List String} {sig : Ctx} (h : ns.length = sig.length) :
    (bindNames ns sig).map (·.var) = ns := by
  induction ns generalizing sig with
  | nil => cases sig <;> simp [bindNames]
  | cons n r ih =>
    cases sig with
    | nil => simp at h
    | cons b bs =>
      rw [bindNames_cons]
      simp only [List.map_cons, List.cons.injEq, true_and]
      exact ih (by simpa using h)

mutual
  /-- the free names of a typed term are bound in its context -/
  theorem ATyped.fv_sub {p : Program} : ∀ {Γ : Ctx} {t : Term} {τ : Ty}, ATyped p Γ t τ →
      ∀ x ∈ fv t, x ∈ Γ.map (·.var)
    | _, _, _, .var b hl _ _ _, x, hx => by
      simp only [fv, List.mem_singleton] at hx
      subst hx
      exact lookupCtx_name_mem hl
    | _, _, _, .lit, x, hx => by simp [fv] at hx
    | _, _, _, .op a b, x, hx => by
      simp only [fv, List.mem_append] at hx
      rcases hx with h | h
      · exact a.fv_sub x h
      · exact b.fv_sub x h
    | _, _, _, .ifc a b t e, x, hx => by
      simp only [fv, List.mem_append] at hx
      rcases hx with ((h | h) | h) | h
      · exact a.fv_sub x h
      · exact b.fv_sub x h
      · exact t.fv_sub x h
      · exact e.fv_sub x h
    | _, _, _, .ifz a t e, x, hx => by
      simp only [fv, List.mem_append] at hx
      rcases hx with (h | h) | h
      · exact a.fv_sub x h
      · exact t.fv_sub x h
      · exact e.fv_sub x h
    | _, _, _, .print a n, x, hx => by
      simp only [fv, List.mem_append] at hx
      rcases hx with h | h
      · exact a.fv_sub x h
      · exact n.fv_sub x h
    | _, _, _, .letIn _ b i, x, hx => by
      simp only [fv, List.mem_append, List.mem_filter, decide_eq_true_eq] at hx
      rcases hx with h | ⟨h, hne⟩
      · exact b.fv_sub x h
      · have := i.fv_sub x h
        simp only [List.map_append, List.map_cons, List.map_nil, List.mem_append,
          List.mem_singleton] at this
        rcases this with h' | h'
        · exact h'
        · exact absurd h' hne
    | _, _, _, .call _ _ _ as, x, hx => as.fv_sub x (by simpa [fv] using hx)
    | _, _, _, .ctor _ _ _ _ _ as, x, hx => as.fv_sub x (by simpa [fv] using hx)
    | _, _, _, .dtor _ _ _ _ _ sc as _, x, hx => by
      simp only [fv, List.mem_append] at hx
      rcases hx with h | h
      · exact sc.fv_sub x h
      · exact as.fv_sub x h
    | _, _, _, .case _ _ _ _ _ sc cl, x, hx => by
      simp only [fv, List.mem_append] at hx
      rcases hx with h | h
      · exact sc.fv_sub x h
      · exact cl.fv_sub x h
    | _, _, _, .new _ _ _ _ _ cl, x, hx => cl.fv_sub x (by simpa [fv] using hx)
    | _, _, _, .label b, x, hx => by
      simp only [fv, List.mem_filter, decide_eq_true_eq] at hx
      obtain ⟨h, hne⟩ := hx
      have := b.fv_sub x h
      simp only [List.map_append, List.map_cons, List.map_nil, List.mem_append,
        List.mem_singleton] at this
      rcases this with h' | h'
      · exact h'
      · exact absurd h' hne
    | _, _, _, .goto b hl _ _ a, x, hx => by
      simp only [fv, List.mem_cons] at hx
      rcases hx with rfl | h
      · exact lookupCtx_name_mem hl
      · exact a.fv_sub x h
    | _, _, _, .exit a, x, hx => a.fv_sub x (by simpa [fv] using hx)
    | _, _, _, .paren t, x, hx => t.fv_sub x (by simpa [fv] using hx)
  theorem AArgs.fv_sub {p : Program} : ∀ {Γ : Ctx} {ts : Terms} {bs : Ctx}, AArgs p Γ ts bs →
      ∀ x ∈ fvArgs ts, x ∈ Γ.map (·.var)
    | _, _, _, .nil, x, hx => by simp [fvArgs] at hx
    | _, _, _, .prd _ _ t r, x, hx => by
      simp only [fvArgs, List.mem_append] at hx
      rcases hx with h | h
      · exact t.fv_sub x h
      · exact r.fv_sub x h
    | _, _, _, .cns _ _ hl _ _ _ r, x, hx => by
      simp only [fvArgs, fv, List.mem_append, List.mem_singleton] at hx
      rcases hx with rfl | h
      · exact lookupCtx_name_mem hl
      · exact r.fv_sub x h
  theorem AClauses.fv_sub {p : Program} : ∀ {Γ : Ctx} {sigs : List (String × Ctx × Ty)}
      {cs : Clauses}, AClauses p Γ sigs cs → ∀ x ∈ fvClauses cs, x ∈ Γ.map (·.var)
    | _, _, _, .nil, x, hx => by simp [fvClauses] at hx
    | _, _, _, .cons _ _ _ _ hl b r, x, hx => by
      simp only [fvClauses, List.mem_append, List.mem_filter, Bool.not_eq_true',
        List.contains_eq_mem, decide_eq_false_iff_not] at hx
      rcases hx with ⟨h, hn⟩ | h
      · have := b.fv_sub x h
        simp only [List.map_append, bindNames_vars hl, List.mem_append] at this
        rcases this with h' | h'
        · exact h'
        · exact absurd h' hn
      · exact r.fv_sub x h
end

/-- definitions of an accepted program are closed: the body mentions only the parameters -/
theorem AWT.closed {p : Program} {p' : CheckedProgram} (W : AWT p p') {d : Def} (hd : d ∈ p'.defs) :
    (fv d.body).all (fun x => (d.ctx.map (·.var)).contains x) = true := by
  simp only [List.all_eq_true, List.contains_eq_mem, decide_eq_true_eq]
  exact (W.defs_typed d hd).2.2.2.fv_sub

mutual
  theorem ATyped.annotated {p : Program} : ∀ {Γ : Ctx} {t : Term} {τ : Ty}, ATyped p Γ t τ →
      Typing.annotated t = true
    | _, _, _, .var .. => rfl
    | _, _, _, .lit => rfl
    | _, _, _, .op a b => by simp [Typing.annotated, a.annotated, b.annotated]
    | _, _, _, .ifc a b t e => by
      simp [Typing.annotated, a.annotated, b.annotated, t.annotated, e.annotated]
    | _, _, _, .ifz a t e => by simp [Typing.annotated, a.annotated, t.annotated, e.annotated]
    | _, _, _, .print a n => by simp [Typing.annotated, a.annotated, n.annotated]
    | _, _, _, .letIn _ b i => by simp [Typing.annotated, b.annotated, i.annotated]
    | _, _, _, .call _ _ _ as => by simp [Typing.annotated, as.annotated]
    | _, _, _, .ctor _ _ _ _ _ as => by simp [Typing.annotated, as.annotated]
    | _, _, _, .dtor _ _ _ _ _ sc as _ => by simp [Typing.annotated, sc.annotated, as.annotated]
    | _, _, _, .case _ _ _ _ _ sc cl => by simp [Typing.annotated, sc.annotated, cl.annotated]
    | _, _, _, .new _ _ _ _ _ cl => by simp [Typing.annotated, cl.annotated]
    | _, _, _, .label b => by simp [Typing.annotated, b.annotated]
    | _, _, _, .goto _ _ _ _ a => by simp [Typing.annotated, a.annotated]
    | _, _, _, .exit a => by simp [Typing.annotated, a.annotated]
    | _, _, _, .paren t => by simp [Typing.annotated, t.annotated]
  theorem AArgs.annotated {p : Program} : ∀ {Γ : Ctx} {ts : Terms} {bs : Ctx}, AArgs p Γ ts bs →
      Typing.annotatedArgs ts = true
    | _, _, _, .nil => rfl
    | _, _, _, .prd _ _ t r => by simp [Typing.annotatedArgs, t.annotated, r.annotated]
    | _, _, _, .cns _ _ _ _ _ _ r => by simp [Typing.annotatedArgs, Typing.annotated, r.annotated]
  theorem AClauses.annotated {p : Program} : ∀ {Γ : Ctx} {sigs : List (String × Ctx × Ty)}
      {cs : Clauses}, AClauses p Γ sigs cs → Typing.annotatedClauses cs = true
    | _, _, _, .nil => rfl
    | _, _, _, .cons _ _ _ _ hl b r => by
      simp [Typing.annotatedClauses, bindNames_vars hl, b.annotated, r.annotated]
end

/-- a PURE term of a codata type is (up to parentheses) a variable or a `new` — `pureS` of
Scc/Fun2Core/SemCorePure2.lean: on `Sequenced` programs the by-name positions hold values, no thunk
is created -/
theorem ATyped.pureS_of_codata {p : Program} (ok : DeclsOk p) {Γ : Ctx} {d : Codata} {targs : Tys}
    (hd : d ∈ codatas p) : ∀ (t : Term), ATyped p Γ t (.decl d.name targs) → pureTerm t = true →
    pureS t = true
  | .var .., _, _ => rfl
  | .new .., _, _ => rfl
  | .paren t, h, hp => by
    cases h with
    | paren h' => exact ATyped.pureS_of_codata ok hd t h' (by simpa [pureTerm] using hp)
  | .lit _, h, _ => by
    generalize hτ : Ty.decl d.name targs = τ at h
    cases h; cases hτ
  | .op .., h, _ => by
    generalize hτ : Ty.decl d.name targs = τ at h
    cases h; cases hτ
  | .ctor .., h, _ => by
    generalize hτ : Ty.decl d.name targs = τ at h
    cases h with
    | ctor d' c hd' _ _ _ =>
      injection hτ with hn _
      exact absurd hn.symm (Check.data_codata_disjoint ok hd' hd)
  | .ifc .., _, hp => by simp [pureTerm] at hp
  | .ifz .., _, hp => by simp [pureTerm] at hp
  | .print .., _, hp => by simp [pureTerm] at hp
  | .letIn .., _, hp => by simp [pureTerm] at hp
  | .call .., _, hp => by simp [pureTerm] at hp
  | .dtor .., _, hp => by simp [pureTerm] at hp
  | .case .., _, hp => by simp [pureTerm] at hp
  | .label .., _, hp => by simp [pureTerm] at hp
  | .goto .., _, hp => by simp [pureTerm] at hp
  | .exit .., _, hp => by simp [pureTerm] at hp

end Scc.Fun.Safety
