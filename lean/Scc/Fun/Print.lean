/-
  Scc.Fun.Print — model of the Fun pretty-printer (the formatter `scc fmt`).

  Sources: the `Print` impls of /repo/lang/fun/src/syntax/** (terms/*.rs, declarations/*.rs,
  arguments.rs, context.rs, types.rs, program.rs), /repo/lang/printer/src/{types,util,tokens,theme}.rs
  and the layout engine of the `pretty` crate 0.11.3 (src/render.rs: `best`, `fitting`; src/lib.rs:
  `line`, `line_`, `group`, `nest`, `align`).

  * `Doc` mirrors the `pretty::Doc` constructors the printer uses (annotations dropped: `IoWrite`
    ignores them; `line` = `FlatAlt(Hardline, " ")`, `line_` = `FlatAlt(Hardline, Nil)`,
    `align d` = `column(|c| nesting(|n| d.nest(c - n)))`).  The smart-constructor shortcuts of the
    crate (`Nil` absorbed by `append`, `group` of a text, `nest(0)`) do not change the layout and
    are not modelled.
  * `programDoc cfg` / `termDoc cfg` transcribe the `Print` impls one to one (with
    `allow_linebreaks = true`, `latex = false`, `omit_decl_sep = false`: the formatter's config).
  * `pieces : Doc → List Piece` forgets grouping, nesting and alignment (they only choose the amount
    of white space); `print cfg p = pieces (programDoc cfg p)`.
  * `renderWith choice` renders a piece stream for an ARBITRARY layout choice; `Renders` is the same
    as a relation.  `renderPretty width` is the `pretty` crate's choice (`best`).
  * `tokens` is the token sequence the printer emits (defined on the tree; the tie to `print`
    is theorem C16-T1 and the harness differential).

  Everything works on `List Char`.  Core imports only; executable.
-/
import Scc.Fun.Parse

namespace Scc.Fun.Print
open Scc.Fun.Lex Scc.Fun.Parse

/-! ## documents -/

inductive Doc where
  | nil
  | text (s : List Char)       -- `alloc.text(..)`, `keyword`, `ctor`, `dtor`, `typ`
  | space                      -- `alloc.space()` = `text(" ")`
  | hardline
  | line                       -- `alloc.line()`
  | line_                      -- `alloc.line_()`
  | cat (a b : Doc)            -- `a.append(b)`
  | group (d : Doc)
  | nest (off : Int) (d : Doc)
  | align (d : Doc)
  deriving Repr, Inhabited

instance : Append Doc := ⟨Doc.cat⟩

/-- printer/src/types.rs: struct PrintCfg (fields `allow_linebreaks = true`, `latex = false`,
`omit_decl_sep = false` fixed) -/
structure PrintCfg where
  width : Nat
  indent : Int

namespace Doc

/-- `d.enclose(l, r)` -/
def enclose (l r : List Char) (d : Doc) : Doc := .text l ++ d ++ .text r
def parens (d : Doc) : Doc := enclose ['('] [')'] d
def brackets (d : Doc) : Doc := enclose ['['] [']'] d
/-- printer/src/util.rs: fn braces_anno -/
def bracesAnno (d : Doc) : Doc := enclose ['{'] ['}'] d

/-- `alloc.intersperse(docs, sep)` -/
def intersperse (sep : Doc) : List Doc → Doc
  | [] => .nil
  | [d] => d
  | d :: ds => d ++ sep ++ intersperse sep ds

def size : Doc → Nat
  | .cat a b => a.size + b.size + 1
  | .group d => d.size + 1
  | .nest _ d => d.size + 1
  | .align d => d.size + 1
  | _ => 1

end Doc

/-! ## tokens.rs -/

def kwDoc (k : Kw) : Doc := .text k.chars
def COMMA : Doc := .text [',']
def COLON : Doc := .text [':']
def DOT : Doc := .text ['.']
def EQ : Doc := .text ['=']
def SEMI : Doc := .text [';']
def FAT_ARROW : Doc := .text ['=', '>']
def ZERO : Doc := .text ['0']
def CNS : Doc := .text ['c', 'n', 's']

/-- decimal digits of a natural number (`format!("{}", n)`) -/
def natDigits (n : Nat) : List Char := (Nat.toDigits 10 n)

/-- `format!("{}", lit)` for an `i64` -/
def intChars (n : Int) : List Char :=
  match n with
  | .ofNat k => natDigits k
  | .negSucc k => '-' :: natDigits (k + 1)

/-! ## the `Print` impls -/

/-- printer/src/types.rs: fn print_comma_separated (allow_linebreaks) on already printed entries:
each entry is grouped -/
def commaSep (ds : List Doc) : Doc :=
  Doc.intersperse (COMMA ++ .line) (ds.map .group)

/-- the common shape `sep.append(X).nest(indent).append(sep)` with `sep = line_` -/
def softBlock (cfg : PrintCfg) (d : Doc) : Doc := .nest cfg.indent (.line_ ++ d) ++ .line_

mutual
  /-- types.rs: impl Print for Ty -/
  def tyDoc (cfg : PrintCfg) : Ty → Doc
    | .i64 => kwDoc .i64
    | .decl n as => .text n.toList ++ tyArgsDoc cfg as
  /-- types.rs: impl Print for TypeArgs -/
  def tyArgsDoc (cfg : PrintCfg) : Tys → Doc
    | .nil => .nil
    | .cons t r => .group (Doc.brackets (softBlock cfg (commaSep (tyDoc cfg t :: tysDocs cfg r))))
  def tysDocs (cfg : PrintCfg) : Tys → List Doc
    | .nil => []
    | .cons t r => tyDoc cfg t :: tysDocs cfg r
end

/-- context.rs: impl Print for ContextBinding (with Chirality) -/
def bindingDoc (cfg : PrintCfg) (b : Binding) : Doc :=
  .text b.var.toList ++ COLON
    ++ (match b.chi with | .prd => Doc.nil | .cns => .space ++ CNS)
    ++ .space ++ tyDoc cfg b.ty

/-- context.rs: impl Print for TypingContext -/
def ctxDoc (cfg : PrintCfg) (c : Ctx) : Doc :=
  match c with
  | [] => .nil
  | _ => softBlock cfg (commaSep (c.map (bindingDoc cfg)))

/-- context.rs: impl Print for NameContext -/
def namesDoc (cfg : PrintCfg) (ns : List String) : Doc :=
  match ns with
  | [] => .nil
  | _ => .group (Doc.parens (softBlock cfg (commaSep (ns.map fun n => .text n.toList))))

/-- context.rs: impl Print for TypeContext -/
def tyParamsDoc (cfg : PrintCfg) (ns : List String) : Doc :=
  match ns with
  | [] => .nil
  | _ => .group (Doc.brackets (softBlock cfg (commaSep (ns.map fun n => .text n.toList))))

def binOpDoc : BinOp → Doc
  | .div => .text ['/'] | .prod => .text ['*'] | .rem => .text ['%'] | .sum => .text ['+']
  | .sub => .text ['-']

/-- ifc.rs: impl Print for IfSort -/
def sortDoc (s : IfSort) : Doc := .text (sortChars s)

/-- the shape `line.append(X.group()).nest(indent).append(line).braces_anno()` -/
def bracedBlock (cfg : PrintCfg) (d : Doc) : Doc :=
  Doc.bracesAnno (.nest cfg.indent (.line ++ .group d) ++ .line)

/-- the shape `line_.append(X.group()).nest(indent).append(line_).parens()` -/
def parenBlock (cfg : PrintCfg) (d : Doc) : Doc :=
  Doc.parens (.nest cfg.indent (.line_ ++ .group d) ++ .line_)

/-- destructor.rs: the test
`(scrutinee is XVar || scrutinee is Call with no arguments) && scrutinee.print_to_string(cfg).len() <= cfg.indent.cast_unsigned()`
(the printed scrutinee is `x` resp. `f()`; a negative indent casts to a huge unsigned number) -/
def dtorShort (cfg : PrintCfg) : Term → Bool
  | .var x _ _ => decide (cfg.indent < 0) || decide ((x.toList.length : Int) ≤ cfg.indent)
  | .call f .nil _ => decide (cfg.indent < 0) || decide ((f.toList.length + 2 : Int) ≤ cfg.indent)
  | _ => false

def isDtor : Term → Bool
  | .dtor .. => true
  | _ => false

mutual
  /-- terms/mod.rs: impl Print for Term, and the impls of the individual term structs -/
  def termDoc (cfg : PrintCfg) : Term → Doc
    -- var.rs
    | .var x _ _ => .text x.toList
    -- literal.rs
    | .lit n => .text (intChars n)
    -- op.rs
    | .op a o b => .group (termDoc cfg a) ++ .space ++ binOpDoc o ++ .space ++ .group (termDoc cfg b)
    -- ifc.rs (snd = Some)
    | .ifc s a b t e _ =>
      kwDoc .if_ ++ .space ++ termDoc cfg a ++ .space ++ sortDoc s ++ .space ++ termDoc cfg b ++ .space
        ++ bracedBlock cfg (termDoc cfg t) ++ .space ++ kwDoc .else_ ++ .space
        ++ bracedBlock cfg (termDoc cfg e)
    -- ifc.rs (snd = None: `alloc.text(ZERO)`)
    | .ifz s a t e _ =>
      kwDoc .if_ ++ .space ++ termDoc cfg a ++ .space ++ sortDoc s ++ .space ++ ZERO ++ .space
        ++ bracedBlock cfg (termDoc cfg t) ++ .space ++ kwDoc .else_ ++ .space
        ++ bracedBlock cfg (termDoc cfg e)
    -- print.rs
    | .print nl a n _ =>
      kwDoc (if nl then .printlnI64 else .printI64) ++ .group (parenBlock cfg (termDoc cfg a)) ++ SEMI
        ++ .hardline ++ .group (termDoc cfg n)
    -- let.rs
    | .letIn x ty b i _ =>
      kwDoc .let_ ++ .space ++ .text x.toList ++ COLON ++ .space ++ tyDoc cfg ty ++ .space ++ EQ
        ++ .space ++ .group (termDoc cfg b) ++ SEMI ++ .hardline ++ .group (termDoc cfg i)
    -- call.rs
    | .call f as _ => .text f.toList ++ .group (Doc.parens (argsDoc cfg as))
    -- constructor.rs
    | .ctor k as _ =>
      .text k.toList ++ .group (match as with
        | .nil => Doc.nil
        | _ => Doc.parens (argsDoc cfg as))
    -- destructor.rs
    | .dtor s d tas as _ =>
      let args := Doc.group (match as with
        | .nil => Doc.nil
        | _ => Doc.parens (argsDoc cfg as))
      if dtorShort cfg s then
        termDoc cfg s ++ DOT ++ .text d.toList ++ tyArgsDoc cfg tas ++ args
      else
        .align (.nest cfg.indent
          (termDoc cfg s ++ .line_ ++ DOT ++ .text d.toList ++ tyArgsDoc cfg tas ++ args))
    -- case.rs
    | .case s tas cs _ =>
      if isDtor s then
        .align (.nest cfg.indent
          (termDoc cfg s ++ .line_ ++ DOT ++ kwDoc .case_ ++ tyArgsDoc cfg tas ++ .space
            ++ clausesBlockDoc cfg cs))
      else
        termDoc cfg s ++ DOT ++ kwDoc .case_ ++ tyArgsDoc cfg tas ++ .space ++ clausesBlockDoc cfg cs
    -- new.rs
    | .new cs _ => kwDoc .new_ ++ .space ++ clausesBlockDoc cfg cs
    -- label.rs
    | .label a t _ =>
      kwDoc .label ++ .space ++ .text a.toList ++ .space ++ .group (bracedBlock cfg (termDoc cfg t))
    -- goto.rs
    | .goto a t _ =>
      kwDoc .goto ++ .space ++ .text a.toList ++ .space ++ .group (parenBlock cfg (termDoc cfg t))
    -- exit.rs
    | .exit t _ => kwDoc .exit ++ .space ++ termDoc cfg t
    -- paren.rs
    | .paren t => parenBlock cfg (termDoc cfg t)

  /-- arguments.rs: impl Print for Arguments (without the caller's parentheses) -/
  def argsDoc (cfg : PrintCfg) : Terms → Doc
    | .nil => .nil
    | .cons t r => softBlock cfg (commaSep (termDoc cfg t :: termsDocs cfg r))

  def termsDocs (cfg : PrintCfg) : Terms → List Doc
    | .nil => []
    | .cons t r => termDoc cfg t :: termsDocs cfg r

  /-- clause.rs: fn print_clauses -/
  def clausesBlockDoc (cfg : PrintCfg) : Clauses → Doc
    | .nil => .group (Doc.bracesAnno .space)
    | .cons _ x ns _ b .nil =>
      .group (Doc.bracesAnno
        (.nest cfg.indent (.line ++ .group (clauseDoc cfg x ns (termDoc cfg b))) ++ .line))
    | .cons _ x ns _ b (.cons p2 x2 ns2 c2 b2 r) =>
      Doc.bracesAnno
        (.nest cfg.indent (.hardline ++ Doc.intersperse (COMMA ++ .hardline)
            ((Doc.group (clauseDoc cfg x ns (termDoc cfg b)))
              :: clausesDocs cfg (.cons p2 x2 ns2 c2 b2 r)))
          ++ .hardline)

  /-- the grouped clause documents of a clause list -/
  def clausesDocs (cfg : PrintCfg) : Clauses → List Doc
    | .nil => []
    | .cons _ x ns _ b r => .group (clauseDoc cfg x ns (termDoc cfg b)) :: clausesDocs cfg r

  /-- clause.rs: impl Print for Clause (the body already printed) -/
  def clauseDoc (cfg : PrintCfg) (x : String) (ns : List String) (body : Doc) : Doc :=
    .nest cfg.indent
      (.align (.text x.toList ++ namesDoc cfg ns ++ .space ++ FAT_ARROW) ++ .line ++ .group body)
end

/-- data.rs: impl Print for CtorSig -/
def ctorSigDoc (cfg : PrintCfg) (c : CtorSig) : Doc :=
  .text c.name.toList ++ .group (match c.args with
    | [] => ctxDoc cfg c.args
    | _ => Doc.parens (ctxDoc cfg c.args))

/-- codata.rs: impl Print for DtorSig -/
def dtorSigDoc (cfg : PrintCfg) (d : DtorSig) : Doc :=
  .text d.name.toList ++ .group (match d.args with
    | [] => ctxDoc cfg d.args
    | _ => Doc.parens (ctxDoc cfg d.args)) ++ COLON ++ .space ++ tyDoc cfg d.contTy

/-- the body of `data`/`codata` declarations -/
def sigBlock (cfg : PrintCfg) (sigs : List Doc) : Doc :=
  .group (Doc.bracesAnno (match sigs with
    | [] => Doc.space
    | _ => .nest cfg.indent (.line ++ Doc.intersperse (COMMA ++ .line) sigs) ++ .line))

/-- data.rs: impl Print for Data -/
def dataDoc (cfg : PrintCfg) (d : Data) : Doc :=
  kwDoc .data ++ .space ++ .text d.name.toList ++ tyParamsDoc cfg d.typeParams ++ .space
    ++ sigBlock cfg (d.ctors.map (ctorSigDoc cfg))

/-- codata.rs: impl Print for Codata -/
def codataDoc (cfg : PrintCfg) (d : Codata) : Doc :=
  kwDoc .codata ++ .space ++ .text d.name.toList ++ tyParamsDoc cfg d.typeParams ++ .space
    ++ sigBlock cfg (d.dtors.map (dtorSigDoc cfg))

/-- def.rs: impl Print for Def -/
def defDoc (cfg : PrintCfg) (d : Def) : Doc :=
  .group (kwDoc .def_ ++ .space ++ .text d.name.toList ++ Doc.parens (ctxDoc cfg d.ctx) ++ COLON
      ++ .space ++ tyDoc cfg d.retTy ++ .space)
    ++ Doc.bracesAnno (.nest cfg.indent (.hardline ++ .group (termDoc cfg d.body)) ++ .hardline)

/-- declarations/mod.rs: impl Print for Declaration -/
def declDoc (cfg : PrintCfg) : Decl → Doc
  | .data d => dataDoc cfg d
  | .codata d => codataDoc cfg d
  | .defn d => defDoc cfg d

/-- program.rs: impl Print for Program -/
def programDoc (cfg : PrintCfg) (p : Program) : Doc :=
  Doc.intersperse (.line ++ .line) (p.decls.map (declDoc cfg))

/-! ## piece streams -/

inductive Piece where
  | text (s : List Char)
  | space
  | line
  | line_
  | hardline
  deriving DecidableEq, Repr, Inhabited

/-- forget grouping, nesting and alignment -/
def pieces : Doc → List Piece
  | .nil => []
  | .text s => [.text s]
  | .space => [.space]
  | .hardline => [.hardline]
  | .line => [.line]
  | .line_ => [.line_]
  | .cat a b => pieces a ++ pieces b
  | .group d => pieces d
  | .nest _ d => pieces d
  | .align d => pieces d

def printTerm (cfg : PrintCfg) (t : Term) : List Piece := pieces (termDoc cfg t)

/-- the piece stream of a program (the `cfg` influences only the `line_` pieces of destructors) -/
def print (cfg : PrintCfg) (p : Program) : List Piece := pieces (programDoc cfg p)

/-- newline followed by `k` spaces -/
def newline (k : Nat) : List Char := '\n' :: List.replicate k ' '

/-- Rendering for an arbitrary layout choice: `choice i` for the `i`-th piece is `none` (flat: `line`
is one space, `line_` nothing) or `some k` (line break followed by `k` spaces of indentation); a
`hardline` is always a line break (indentation `k`, 0 for `none`). -/
def renderFrom (choice : Nat → Option Nat) : Nat → List Piece → List Char
  | _, [] => []
  | i, .text s :: r => s ++ renderFrom choice (i + 1) r
  | i, .space :: r => ' ' :: renderFrom choice (i + 1) r
  | i, .line :: r =>
    (match choice i with | none => [' '] | some k => newline k) ++ renderFrom choice (i + 1) r
  | i, .line_ :: r =>
    (match choice i with | none => [] | some k => newline k) ++ renderFrom choice (i + 1) r
  | i, .hardline :: r => newline ((choice i).getD 0) ++ renderFrom choice (i + 1) r

def renderWith (choice : Nat → Option Nat) (ps : List Piece) : List Char := renderFrom choice 0 ps

/-- the same as a relation: `Renders ps s` iff `s` is a rendering of `ps` for some layout choice -/
inductive Renders : List Piece → List Char → Prop where
  | nil : Renders [] []
  | text {r o} (s : List Char) : Renders r o → Renders (.text s :: r) (s ++ o)
  | space {r o} : Renders r o → Renders (.space :: r) (' ' :: o)
  | lineFlat {r o} : Renders r o → Renders (.line :: r) (' ' :: o)
  | lineBreak {r o} (k : Nat) : Renders r o → Renders (.line :: r) (newline k ++ o)
  | lineFlat_ {r o} : Renders r o → Renders (.line_ :: r) o
  | lineBreak_ {r o} (k : Nat) : Renders r o → Renders (.line_ :: r) (newline k ++ o)
  | hardline {r o} (k : Nat) : Renders r o → Renders (.hardline :: r) (newline k ++ o)

/-! ## the layout of the `pretty` crate -/

inductive Mode where
  | brk | flat
  deriving DecidableEq, Repr

/-- pretty render.rs: `Best::fitting`.  `fcmds` are the documents of the group under test (laid out
in mode `mode`, initially flat), `bcmds` the pending commands of `best` (top of the stack first),
which are examined in break mode.  Fuel: number of document nodes. -/
def fitting (width : Nat) : Nat → List Doc → List Doc → Mode → Nat → Bool
  | 0, _, _, _, _ => false
  | _ + 1, [], [], _, _ => true
  | fuel + 1, [], b :: bs, _, pos => fitting width fuel [b] bs .brk pos
  | fuel + 1, d :: fs, bs, mode, pos =>
    match d with
    | .nil => fitting width fuel fs bs mode pos
    | .cat a b => fitting width fuel (a :: b :: fs) bs mode pos
    | .hardline => mode == .brk
    | .text s => if pos + s.length > width then false else fitting width fuel fs bs mode (pos + s.length)
    | .space => if pos + 1 > width then false else fitting width fuel fs bs mode (pos + 1)
    | .line =>
      match mode with
      | .brk => true
      | .flat => if pos + 1 > width then false else fitting width fuel fs bs mode (pos + 1)
    | .line_ =>
      match mode with
      | .brk => true
      | .flat => fitting width fuel fs bs mode pos
    | .group d | .nest _ d | .align d => fitting width fuel (d :: fs) bs mode pos

/-- `ind.saturating_add(off)` / `ind.saturating_sub(|off|)` -/
def nestInd (ind : Nat) (off : Int) : Nat :=
  if off ≥ 0 then ind + off.toNat else ind - off.natAbs

/-- pretty render.rs: `Best::best` (output accumulated in reverse).  Fuel: number of document nodes. -/
def best (width : Nat) : Nat → List (Nat × Mode × Doc) → Nat → List Char → List Char
  | 0, _, _, acc => acc
  | _ + 1, [], _, acc => acc
  | fuel + 1, (ind, mode, d) :: cs, pos, acc =>
    match d with
    | .nil => best width fuel cs pos acc
    | .cat a b => best width fuel ((ind, mode, a) :: (ind, mode, b) :: cs) pos acc
    | .group d =>
      let mode' := match mode with
        | .flat => Mode.flat
        | .brk => if fitting width (fuel + 1) [d] (cs.map fun c => c.2.2) .flat pos then .flat else .brk
      best width fuel ((ind, mode', d) :: cs) pos acc
    | .nest off d => best width fuel ((nestInd ind off, mode, d) :: cs) pos acc
    | .align d => best width fuel ((pos, mode, d) :: cs) pos acc
    | .hardline => best width fuel cs ind ((newline ind).reverse ++ acc)
    | .text s => best width fuel cs (pos + s.length) (s.reverse ++ acc)
    | .space => best width fuel cs (pos + 1) (' ' :: acc)
    | .line =>
      match mode with
      | .brk => best width fuel cs ind ((newline ind).reverse ++ acc)
      | .flat => best width fuel cs (pos + 1) (' ' :: acc)
    | .line_ =>
      match mode with
      | .brk => best width fuel cs ind ((newline ind).reverse ++ acc)
      | .flat => best width fuel cs pos acc

/-- pretty: `doc.render(width, out)` -/
def renderDoc (width : Nat) (d : Doc) : List Char :=
  (best width (2 * d.size + 2) [(0, .brk, d)] 0 []).reverse

/-- printer/src/types.rs: fn print_to_string(Some(cfg)) on a program -/
def renderPretty (cfg : PrintCfg) (p : Program) : List Char := renderDoc cfg.width (programDoc cfg p)

/-! ## the token sequence of a program -/

def litToks (n : Int) : List Token :=
  match n with
  | .ofNat k => [.num (natDigits k)]
  | .negSucc k => [.minus, .num (natDigits (k + 1))]

/-- `sep`-separated concatenation -/
def joinToks (sep : List Token) : List (List Token) → List Token
  | [] => []
  | [x] => x
  | x :: xs => x ++ sep ++ joinToks sep xs

mutual
  def tyToks : Ty → List Token
    | .i64 => [.kw .i64]
    | .decl n as => .upper n.toList :: tyArgToks as
  def tyArgToks : Tys → List Token
    | .nil => []
    | .cons t r => .lbrack :: (tyToks t ++ tysRestToks r) ++ [.rbrack]
  /-- `, T` for every further type argument -/
  def tysRestToks : Tys → List Token
    | .nil => []
    | .cons t r => .comma :: tyToks t ++ tysRestToks r
end

def bindingToks (b : Binding) : List Token :=
  .lower b.var.toList :: (match b.chi with | .prd => Token.colon | .cns => Token.colonCns) :: tyToks b.ty

def ctxToks (c : Ctx) : List Token := joinToks [.comma] (c.map bindingToks)

/-- a non-empty name list in parentheses, nothing for the empty list -/
def namesToks (ns : List String) : List Token :=
  match ns with
  | [] => []
  | _ => .lparen :: joinToks [.comma] (ns.map fun n => [.lower n.toList]) ++ [.rparen]

def tyParamsToks (ns : List String) : List Token :=
  match ns with
  | [] => []
  | _ => .lbrack :: joinToks [.comma] (ns.map fun n => [.upper n.toList]) ++ [.rbrack]

def binOpTok : BinOp → Token
  | .div => .slash | .prod => .star | .rem => .percent | .sum => .plus | .sub => .minus

def xtorTok (p : Polarity) (x : String) : Token :=
  match p with
  | .data => .upper x.toList
  | .codata => .lower x.toList

mutual
  def termToks : Term → List Token
    | .var x _ _ => [.lower x.toList]
    | .lit n => litToks n
    | .op a o b => termToks a ++ binOpTok o :: termToks b
    | .ifc s a b t e _ =>
      .kw .if_ :: termToks a ++ .cmp s :: termToks b ++ .lbrace :: termToks t
        ++ .rbrace :: .kw .else_ :: .lbrace :: termToks e ++ [.rbrace]
    | .ifz s a t e _ =>
      .kw .if_ :: termToks a ++ .zcmpL s :: .lbrace :: termToks t
        ++ .rbrace :: .kw .else_ :: .lbrace :: termToks e ++ [.rbrace]
    | .print nl a n _ =>
      .kw (if nl then .printlnI64 else .printI64) :: .lparen :: termToks a ++ .rparen :: .semi :: termToks n
    | .letIn x ty b i _ =>
      .kw .let_ :: .lower x.toList :: .colon :: tyToks ty ++ .assign :: termToks b ++ .semi :: termToks i
    | .call f as _ => .lower f.toList :: .lparen :: termsToks as ++ [.rparen]
    | .ctor k as _ =>
      .upper k.toList :: (match as with
        | .nil => []
        | _ => .lparen :: termsToks as ++ [.rparen])
    | .dtor s d tas as _ =>
      termToks s ++ .dot :: .lower d.toList :: tyArgToks tas ++ (match as with
        | .nil => []
        | _ => .lparen :: termsToks as ++ [.rparen])
    | .case s tas cs _ =>
      termToks s ++ .dot :: .kw .case_ :: tyArgToks tas ++ .lbrace :: clausesToks cs ++ [.rbrace]
    | .new cs _ => .kw .new_ :: .lbrace :: clausesToks cs ++ [.rbrace]
    | .label a t _ => .kw .label :: .lower a.toList :: .lbrace :: termToks t ++ [.rbrace]
    | .goto a t _ => .kw .goto :: .lower a.toList :: .lparen :: termToks t ++ [.rparen]
    | .exit t _ => .kw .exit :: termToks t
    | .paren t => .lparen :: termToks t ++ [.rparen]
  /-- comma-separated arguments -/
  def termsToks : Terms → List Token
    | .nil => []
    | .cons t .nil => termToks t
    | .cons t r => termToks t ++ .comma :: termsToks r
  /-- comma-separated clauses -/
  def clausesToks : Clauses → List Token
    | .nil => []
    | .cons p x ns _ b .nil => xtorTok p x :: namesToks ns ++ .fatArrow :: termToks b
    | .cons p x ns _ b r => xtorTok p x :: namesToks ns ++ .fatArrow :: termToks b ++ .comma :: clausesToks r
end

def ctorSigToks (c : CtorSig) : List Token :=
  .upper c.name.toList :: (match c.args with
    | [] => []
    | _ => .lparen :: ctxToks c.args ++ [.rparen])

def dtorSigToks (d : DtorSig) : List Token :=
  .lower d.name.toList :: (match d.args with
    | [] => []
    | _ => .lparen :: ctxToks d.args ++ [.rparen]) ++ .colon :: tyToks d.contTy

def declToks : Decl → List Token
  | .data d =>
    .kw .data :: .upper d.name.toList :: tyParamsToks d.typeParams
      ++ .lbrace :: joinToks [.comma] (d.ctors.map ctorSigToks) ++ [.rbrace]
  | .codata d =>
    .kw .codata :: .upper d.name.toList :: tyParamsToks d.typeParams
      ++ .lbrace :: joinToks [.comma] (d.dtors.map dtorSigToks) ++ [.rbrace]
  | .defn d =>
    .kw .def_ :: .lower d.name.toList :: .lparen :: ctxToks d.ctx
      ++ .rparen :: .colon :: tyToks d.retTy ++ .lbrace :: termToks d.body ++ [.rbrace]

/-- the token sequence the printer emits for a program -/
def tokens (p : Program) : List Token := (p.decls.map declToks).flatten

/-! ## driver entries -/

def allFlat : Nat → Option Nat := fun _ => none
def allBreak : Nat → Option Nat := fun i => some (i % 7)

def showToks (ts : List Token) : String := " ".intercalate (ts.map Token.show)

def firstDiff : Nat → List Token → List Token → Option (Nat × String × String)
  | _, [], [] => none
  | i, a :: as, b :: bs => if a = b then firstDiff (i + 1) as bs else some (i, a.show, b.show)
  | i, a :: _, [] => some (i, a.show, "<end>")
  | i, [], b :: _ => some (i, "<end>", b.show)

def readDump (dump : String) : Option Program :=
  match Sexp.parse dump with
  | none => none
  | some sx => readProgram (dump.length + 10) sx

/-- `dumpS0`: the S0 dump of a program; `realText`: the text the real formatter printed for it.
`SAME` iff the real text, the model's all-flat rendering and the model's all-break rendering all
lex to `tokens p`. -/
def runLineFmtTokens (dumpS0 : String) (realText : String) : String :=
  match readDump dumpS0 with
  | none => "ERR read"
  | some p =>
    let cfg : PrintCfg := ⟨80, 4⟩
    let want := tokens p
    let real := lexStream realText.toList
    let flat := lexStream (renderWith allFlat (print cfg p))
    let brk := lexStream (renderWith allBreak (print cfg p))
    match firstDiff 0 real want with
    | some (i, a, b) => s!"DIFF at {i}: real {a} model-tokens {b}"
    | none =>
      match firstDiff 0 flat want with
      | some (i, a, b) => s!"DIFF at {i}: model-flat {a} model-tokens {b}"
      | none =>
        match firstDiff 0 brk want with
        | some (i, a, b) => s!"DIFF at {i}: model-break {a} model-tokens {b}"
        | none => "SAME"

/-- the model's `fmt` text for the program of the dump -/
def runLineFmt (dumpS0 : String) (width : Nat) (indent : Int) : String :=
  match readDump dumpS0 with
  | none => "ERR read"
  | some p => "OK " ++ String.ofList (renderPretty ⟨width, indent⟩ p)

end Scc.Fun.Print
