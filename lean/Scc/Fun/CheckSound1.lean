/-
  Scc.Fun.CheckSound1 — soundness of the checker model, part 1:
  association-list facts, name hygiene (`programNamesOk`), the symbol-table invariant `Inv`,
  and soundness of `checkTy` (a successful `Ty::check` means the type is well-formed, and the
  instances it creates are substitution instances of the program's declarations).
-/
import Scc.Fun.CheckInv
import Scc.Fun.Typing

namespace Scc.Fun.Check
open Scc.Fun.Typing

/-! ## association lists -/

namespace AList
variable {β : Type}

theorem get?_insert (m : AList β) (k k' : String) (v : β) :
    (m.insert k v).get? k' = if k = k' then some v else m.get? k' := by
  induction m with
  | nil => simp [AList.insert, AList.get?]
  | cons e r ih =>
    obtain ⟨k0, v0⟩ := e
    simp only [AList.insert]
    by_cases h0 : k0 = k
    · subst h0
      simp only [if_true, AList.get?]
      by_cases h1 : k0 = k' <;> simp [h1]
    · simp only [h0, if_false, AList.get?, ih]
      by_cases h1 : k0 = k'
      · subst h1
        have : ¬ k = k0 := fun h => h0 h.symm
        simp [this]
      · simp [h1]

theorem mem_of_get? {m : AList β} {k : String} {v : β} (h : m.get? k = some v) : (k, v) ∈ m := by
  induction m with
  | nil => simp [AList.get?] at h
  | cons e r ih =>
    obtain ⟨k0, v0⟩ := e
    simp only [AList.get?] at h
    split at h
    · rename_i hk; cases h; subst hk; simp
    · exact List.mem_cons_of_mem _ (ih h)

theorem mem_insert_self (m : AList β) (k : String) (v : β) : (k, v) ∈ m.insert k v :=
  mem_of_get? (by simp [get?_insert])

theorem mem_insert {m : AList β} {k : String} {v : β} {e : String × β} (h : e ∈ m.insert k v) :
    e = (k, v) ∨ e ∈ m := by
  induction m with
  | nil => simp [AList.insert] at h; exact .inl h
  | cons e0 r ih =>
    obtain ⟨k0, v0⟩ := e0
    simp only [AList.insert] at h
    split at h
    · rcases List.mem_cons.mp h with h | h
      · exact .inl h
      · exact .inr (List.mem_cons_of_mem _ h)
    · rcases List.mem_cons.mp h with h | h
      · exact .inr (by simp [h])
      · rcases ih h with h | h
        · exact .inl h
        · exact .inr (List.mem_cons_of_mem _ h)

/-- an entry with another key survives an insertion -/
theorem mem_insert_of_ne {m : AList β} {k : String} {v : β} {e : String × β} (h : e ∈ m)
    (hne : e.1 ≠ k) : e ∈ m.insert k v := by
  induction m with
  | nil => cases h
  | cons e0 r ih =>
    obtain ⟨k0, v0⟩ := e0
    simp only [AList.insert]
    split
    · rename_i hk
      rcases List.mem_cons.mp h with h | h
      · subst h; exact absurd hk hne
      · exact List.mem_cons_of_mem _ h
    · rcases List.mem_cons.mp h with h | h
      · simp [h]
      · exact List.mem_cons_of_mem _ (ih h)

theorem get?_of_mem_nodup {m : AList β} {k : String} {v : β} (hn : (m.map Prod.fst).Nodup)
    (h : (k, v) ∈ m) : m.get? k = some v := by
  induction m with
  | nil => cases h
  | cons e r ih =>
    obtain ⟨k0, v0⟩ := e
    simp only [List.map_cons, List.nodup_cons] at hn
    simp only [AList.get?]
    rcases List.mem_cons.mp h with h | h
    · cases h; simp
    · have : k0 ≠ k := by
        intro hk; subst hk
        exact hn.1 (List.mem_map.mpr ⟨(k0, v), h, rfl⟩)
      simp [this, ih hn.2 h]

theorem get?_none_of_not_mem_keys {m : AList β} {k : String} (h : k ∉ m.map Prod.fst) :
    m.get? k = none := by
  induction m with
  | nil => rfl
  | cons e r ih =>
    obtain ⟨k0, v0⟩ := e
    simp only [List.map_cons, List.mem_cons, not_or] at h
    have : k0 ≠ k := fun hk => h.1 hk.symm
    simp [AList.get?, this, ih h.2]

theorem insert_of_get?_none {m : AList β} {k : String} {v : β} (h : m.get? k = none) :
    m.insert k v = m ++ [(k, v)] := by
  induction m with
  | nil => rfl
  | cons e r ih =>
    obtain ⟨k0, v0⟩ := e
    simp only [AList.get?] at h
    split at h
    · cases h
    · rename_i hk
      simp [AList.insert, hk, ih h]

theorem not_mem_keys_of_get?_none {m : AList β} {k : String} (h : m.get? k = none) :
    k ∉ m.map Prod.fst := by
  induction m with
  | nil => simp
  | cons e r ih =>
    obtain ⟨k0, v0⟩ := e
    simp only [AList.get?] at h
    split at h
    · cases h
    · rename_i hk
      simp only [List.map_cons, List.mem_cons, not_or]
      exact ⟨fun h' => hk h'.symm, ih h⟩

theorem contains_false_iff {m : AList β} {k : String} : m.contains k = false ↔ m.get? k = none := by
  simp [AList.contains]

end AList

/-! ## name hygiene of programs (what the lexer guarantees) -/

def ctxNamesOk (c : Ctx) : Bool := c.all fun b => tyNamesOk b.ty

mutual
  def termNamesOk : Term → Bool
    | .var _ ty _ => (match ty with | some t => tyNamesOk t | none => true)
    | .lit _ => true
    | .op a _ b => termNamesOk a && termNamesOk b
    | .ifc _ a b t e _ => termNamesOk a && termNamesOk b && termNamesOk t && termNamesOk e
    | .ifz _ a t e _ => termNamesOk a && termNamesOk t && termNamesOk e
    | .print _ a n _ => termNamesOk a && termNamesOk n
    | .letIn _ σ b i _ => tyNamesOk σ && termNamesOk b && termNamesOk i
    | .call _ args _ => argsNamesOk args
    | .ctor id args _ => nameOk id && argsNamesOk args
    | .dtor s id ta args _ => nameOk id && tysNamesOk ta && termNamesOk s && argsNamesOk args
    | .case s ta cs _ => tysNamesOk ta && termNamesOk s && clausesNamesOk cs
    | .new cs _ => clausesNamesOk cs
    | .label _ t _ => termNamesOk t
    | .goto _ t _ => termNamesOk t
    | .exit t _ => termNamesOk t
    | .paren t => termNamesOk t
  def argsNamesOk : Terms → Bool
    | .nil => true
    | .cons t r => termNamesOk t && argsNamesOk r
  def clausesNamesOk : Clauses → Bool
    | .nil => true
    | .cons _ x _ _ b r => nameOk x && termNamesOk b && clausesNamesOk r
end

def declNamesOk : Decl → Bool
  | .data d => nameOk d.name && d.ctors.all fun c => nameOk c.name && ctxNamesOk c.args
  | .codata d => nameOk d.name &&
      d.dtors.all fun s => nameOk s.name && ctxNamesOk s.args && tyNamesOk s.contTy
  | .defn f => ctxNamesOk f.ctx && tyNamesOk f.retTy && termNamesOk f.body

/-- all type / constructor / destructor names of the program are identifiers
(no `[`, `]`, `,`, space; not `i64`) -/
def programNamesOk (p : Program) : Bool := p.decls.all declNamesOk

/-! ## substitution: model = spec -/

theorem mappingsGet_eq_lookup : ∀ (m : List (String × Ty)) (n : String),
    (m.map Prod.fst).Nodup → mappingsGet m n = m.lookup n
  | [], _, _ => rfl
  | (k, v) :: r, n, hn => by
    simp only [List.map_cons, List.nodup_cons] at hn
    simp only [mappingsGet, List.lookup_cons]
    rw [mappingsGet_eq_lookup r n hn.2]
    by_cases hk : k = n
    · subst hk
      have : r.lookup k = none := by
        have h1 := hn.1
        clear hn
        induction r with
        | nil => rfl
        | cons e r ih =>
          obtain ⟨k0, v0⟩ := e
          simp only [List.map_cons, List.mem_cons, not_or] at h1
          have : (k == k0) = false := by simpa using h1.1
          simp [List.lookup_cons, this, ih h1.2]
      simp [this]
    · have : (n == k) = false := by simpa using fun h => hk h.symm
      simp only [this]
      cases r.lookup n <;> simp [hk]

mutual
  theorem substTy_eq_tsubst (m : List (String × Ty)) (hn : (m.map Prod.fst).Nodup) :
      ∀ (t : Ty), substTy m t = tsubst m t
    | .i64 => by simp [substTy, tsubst]
    | .decl n args => by
      simp only [substTy, tsubst, mappingsGet_eq_lookup m n hn, substTys_eq_tsubsts m hn args]
      cases List.lookup n m <;> rfl
  theorem substTys_eq_tsubsts (m : List (String × Ty)) (hn : (m.map Prod.fst).Nodup) :
      ∀ (ts : Tys), substTys m ts = tsubsts m ts
    | .nil => by simp [substTys, tsubsts]
    | .cons t r => by
      simp only [substTys, tsubsts, substTy_eq_tsubst m hn t, substTys_eq_tsubsts m hn r]
end

theorem substCtx_eq_csubst (m : List (String × Ty)) (hn : (m.map Prod.fst).Nodup) (c : Ctx) :
    substCtx m c = csubst m c := by
  simp only [substCtx, csubst]
  apply List.map_congr_left
  intro b _
  rw [substTy_eq_tsubst m hn]

theorem zip_keys_nodup {params : List String} (args : List Ty) (h : params.Nodup) :
    ((params.zip args).map Prod.fst).Nodup := by
  induction params generalizing args with
  | nil => simp
  | cons a r ih =>
    cases args with
    | nil => simp
    | cons t ts =>
      simp only [List.nodup_cons] at h
      simp only [List.zip_cons_cons, List.map_cons, List.nodup_cons]
      refine ⟨?_, ih ts h.2⟩
      intro hm
      obtain ⟨⟨a', t'⟩, hmem, rfl⟩ := List.mem_map.mp hm
      exact h.1 (List.of_mem_zip hmem).1

end Scc.Fun.Check
