/-
  Scc.Fun.CheckSound5 — soundness of the checker model, part 5: the main induction over terms.
-/
import Scc.Fun.CheckSound4

namespace Scc.Fun.Check
open Scc.Fun.Typing

/-- result property of checking a term `t` -/
def TermQ (p : Program) (t : Term) : Ctx → Ty → Term → Prop :=
  fun Γ τ t' => HasType p Γ t τ ∧ Erases t' t

def ClauseQ (p : Program) (c : Clause) : Ctx → Ty → Term → Prop := TermQ p c.body

/-! ## from the loop result to the declarative clause judgement -/

theorem clausesTyped_of_forall {p : Program} {Γ : Ctx} {sigs : List (String × Ctx × Ty)} :
    ∀ (cs : Clauses),
    (∀ c ∈ cs.toList, ∃ sig bodyTy, (c.xtor, sig, bodyTy) ∈ sigs ∧ c.names.Nodup ∧
      c.names.length = sig.length ∧ HasType p (Γ ++ bindNames c.names sig) c.body bodyTy) →
    ClausesTyped p Γ sigs cs
  | .nil, _ => .nil
  | .cons pol x ns c b r, h => by
    obtain ⟨sig, bodyTy, h1, h2, h3, h4⟩ := h ⟨pol, x, ns, c, b⟩ (by simp [Clauses.toList])
    exact .cons sig bodyTy h1 h2 h3 h4
      (clausesTyped_of_forall r (fun c hc => h c (by simp [Clauses.toList, hc])))

theorem clausesErase_of_picked : ∀ (picked : List (ClauseK × Clause)) (l : List Clause),
    (picked.map (fun ko => ko.1.src)).Perm l →
    (∀ ko ∈ picked, ko.2.pol = ko.1.src.pol ∧ ko.2.xtor = ko.1.src.xtor ∧
      ko.2.names = ko.1.src.names ∧ Erases ko.2.body ko.1.src.body) →
    ClausesErase (Clauses.ofList (picked.map Prod.snd)) (Clauses.ofList l)
  | [], l, hperm, _ => by
    have : l = [] := by simpa using hperm.symm.eq_nil
    subst this
    exact .nil
  | (k, o) :: r, l, hperm, h => by
    have hmem : k.src ∈ l := hperm.subset (by simp)
    obtain ⟨pre, post, rfl⟩ := List.append_of_mem hmem
    have hperm' : (r.map (fun ko => ko.1.src)).Perm (pre ++ post) := by
      have := hperm.trans List.perm_middle
      simpa using this.cons_inv
    have ih := clausesErase_of_picked r (pre ++ post) hperm' (fun ko hko => h ko (by simp [hko]))
    obtain ⟨h1, h2, h3, h4⟩ := h (k, o) (by simp)
    simp only [List.map_cons, Clauses.ofList] at *
    rw [h1, h2, h3]
    exact .cons (c := k.src.ctx) pre post (by rw [toList_ofList_clauses]) h4 ih

theorem clauses_post {p : Program} {Γ : Ctx} {tyArgs : Tys}
    {sigOf : SymbolTable → String → Option (Ctx × Ty)} {checkRet : Bool} {st2 : SymbolTable}
    {cs : Clauses}
    {xtors : List String} {sigs : List (String × Ctx × Ty)} {picked : List (ClauseK × Clause)}
    (hsrc : (clauseCheckers cs).map (·.src) = cs.toList)
    (hperm : (picked.map Prod.fst).Perm (clauseCheckers cs))
    (hx : picked.map (fun ko => ko.1.src.xtor) = xtors)
    (hp : ∀ ko ∈ picked, PickedOk p (ClauseQ p) sigOf checkRet tyArgs Γ st2 ko.1 ko.2)
    (hres : ∀ st1 x sig bodyTy, Inv p st1 → Ext st2 st1 → x ∈ xtors →
      sigOf st1 (instName x tyArgs) = some (sig, bodyTy) → (x, sig, bodyTy) ∈ sigs) :
    (clauseXtors cs).Perm xtors ∧ ClausesTyped p Γ sigs cs ∧
      ClausesErase (Clauses.ofList (picked.map Prod.snd)) cs := by
  have hpermsrc : (picked.map (fun ko => ko.1.src)).Perm cs.toList := by
    have := hperm.map (·.src)
    rw [hsrc, List.map_map] at this
    exact this
  refine ⟨?_, ?_, ?_⟩
  · have := hpermsrc.map (·.xtor)
    rw [List.map_map] at this
    rw [← hx]
    exact this.symm
  · apply clausesTyped_of_forall
    intro c hc
    have hc' : c ∈ picked.map (fun ko => ko.1.src) := hpermsrc.symm.subset hc
    obtain ⟨⟨k, o⟩, hko, rfl⟩ := List.mem_map.mp hc'
    obtain ⟨_, _, _, st1, sig, bodyTy, inv1, ext1, hs, _, hnd, hlen, hctx, hQ⟩ := hp _ hko
    have hxm : k.src.xtor ∈ xtors := by
      rw [← hx]; exact List.mem_map.mpr ⟨(k, o), hko, rfl⟩
    refine ⟨sig, bodyTy, hres st1 _ sig bodyTy inv1 ext1 hxm hs, hnd, hlen, ?_⟩
    simp only at hctx hQ
    rw [hctx] at hQ
    exact hQ.1
  · have := clausesErase_of_picked picked cs.toList hpermsrc (fun ko hko => by
      obtain ⟨h1, h2, h3, _, _, _, _, _, _, _, _, _, _, hQ⟩ := hp ko hko
      exact ⟨h1, h2, h3, hQ.2⟩)
    rwa [ofList_toList_clauses] at this

/-! ## the main induction -/

theorem tyNamesOk_i64 : tyNamesOk .i64 = true := by simp [tyNamesOk]

theorem ctxNamesOk_single {x : String} {chi : Chi} {σ : Ty} (h : tyNamesOk σ = true) :
    ctxNamesOk [⟨x, chi, σ⟩] = true := by simp [ctxNamesOk, h]

theorem length_eq_of_not_bne {a b : Nat} (h : ¬ (a != b) = true) : a = b := by
  simpa [bne] using h

mutual
  theorem checkTerm_sound {p : Program} (ok : DeclsOk p) (hp : programNamesOk p = true) :
      ∀ (t : Term), termNamesOk t = true → SoundK p (TermQ p t) (checkTerm t)
    | .var x ty chi, hn => by
      intro st Γ τ t' st' inv hΓ hτ h
      obtain ⟨hchi, found, st1, hl, ha, he, rfl⟩ := checkTerm_var_ok h
      obtain ⟨b, hb1, hb2, hb3, hb4⟩ := lookupVar_ok hl
      obtain ⟨inv1, ext1, hann⟩ := checkAnnot_sound ok hp inv
        (by intro t ht; subst ht; simpa [termNamesOk] using hn) ha
      obtain ⟨inv2, ext2, heq, wf, _⟩ := checkEquality_sound ok hp inv1 hτ he
      subst heq
      exact ⟨inv2, ext1.trans ext2, .var b hb1 hb2 hb3 wf (not_beq_some_cns hchi) hann, .var⟩
    | .lit n, _ => by
      intro st Γ τ t' st' inv hΓ hτ h
      obtain ⟨he, rfl⟩ := checkTerm_lit_ok h
      obtain ⟨inv1, ext1, heq, _, _⟩ := checkEquality_sound ok hp inv hτ he
      subst heq
      exact ⟨inv1, ext1, .lit, .lit⟩
    | .op a o b, hn => by
      intro st Γ τ t' st' inv hΓ hτ h
      simp only [termNamesOk, Bool.and_eq_true] at hn
      obtain ⟨st1, a', st2, b', he, ha, hb, rfl⟩ := checkTerm_op_ok h
      obtain ⟨inv1, ext1, heq, _, _⟩ := checkEquality_sound ok hp inv tyNamesOk_i64 he
      subst heq
      obtain ⟨inv2, ext2, hta, era⟩ := checkTerm_sound ok hp a hn.1 st1 Γ .i64 a' st2 inv1 hΓ hτ ha
      obtain ⟨inv3, ext3, htb, erb⟩ := checkTerm_sound ok hp b hn.2 st2 Γ .i64 b' st' inv2 hΓ hτ hb
      exact ⟨inv3, (ext1.trans ext2).trans ext3, .op hta htb, .op era erb⟩
    | .ifc s a b t e an, hn => by
      intro st Γ τ t' st' inv hΓ hτ h
      simp only [termNamesOk, Bool.and_eq_true] at hn
      obtain ⟨a', st1, b', st2, th', st3, e', ha, hb, ht, he, rfl⟩ := checkTerm_ifc_ok h
      obtain ⟨inv1, ext1, hta, era⟩ :=
        checkTerm_sound ok hp a hn.1.1.1 st Γ .i64 a' st1 inv hΓ tyNamesOk_i64 ha
      obtain ⟨inv2, ext2, htb, erb⟩ :=
        checkTerm_sound ok hp b hn.1.1.2 st1 Γ .i64 b' st2 inv1 hΓ tyNamesOk_i64 hb
      obtain ⟨inv3, ext3, htt, ert⟩ := checkTerm_sound ok hp t hn.1.2 st2 Γ τ th' st3 inv2 hΓ hτ ht
      obtain ⟨inv4, ext4, hte, ere⟩ := checkTerm_sound ok hp e hn.2 st3 Γ τ e' st' inv3 hΓ hτ he
      exact ⟨inv4, ((ext1.trans ext2).trans ext3).trans ext4, .ifc hta htb htt hte,
        .ifc era erb ert ere⟩
    | .ifz s a t e an, hn => by
      intro st Γ τ t' st' inv hΓ hτ h
      simp only [termNamesOk, Bool.and_eq_true] at hn
      obtain ⟨a', st1, th', st3, e', ha, ht, he, rfl⟩ := checkTerm_ifz_ok h
      obtain ⟨inv1, ext1, hta, era⟩ :=
        checkTerm_sound ok hp a hn.1.1 st Γ .i64 a' st1 inv hΓ tyNamesOk_i64 ha
      obtain ⟨inv3, ext3, htt, ert⟩ := checkTerm_sound ok hp t hn.1.2 st1 Γ τ th' st3 inv1 hΓ hτ ht
      obtain ⟨inv4, ext4, hte, ere⟩ := checkTerm_sound ok hp e hn.2 st3 Γ τ e' st' inv3 hΓ hτ he
      exact ⟨inv4, (ext1.trans ext3).trans ext4, .ifz hta htt hte, .ifz era ert ere⟩
    | .print nl a n an, hn => by
      intro st Γ τ t' st' inv hΓ hτ h
      simp only [termNamesOk, Bool.and_eq_true] at hn
      obtain ⟨a', st1, n', ha, hnx, rfl⟩ := checkTerm_print_ok h
      obtain ⟨inv1, ext1, hta, era⟩ :=
        checkTerm_sound ok hp a hn.1 st Γ .i64 a' st1 inv hΓ tyNamesOk_i64 ha
      obtain ⟨inv2, ext2, htn, ern⟩ := checkTerm_sound ok hp n hn.2 st1 Γ τ n' st' inv1 hΓ hτ hnx
      exact ⟨inv2, ext1.trans ext2, .print hta htn, .print era ern⟩
    | .letIn x σ bound body an, hn => by
      intro st Γ τ t' st' inv hΓ hτ h
      simp only [termNamesOk, Bool.and_eq_true] at hn
      obtain ⟨st1, bound', st2, body', hσ, hb, hi, rfl⟩ := checkTerm_letIn_ok h
      obtain ⟨inv1, ext1, wfσ, _⟩ := checkTy_sound ok hp σ st st1 inv hn.1.1 hσ
      obtain ⟨inv2, ext2, htb, erb⟩ :=
        checkTerm_sound ok hp bound hn.1.2 st1 Γ σ bound' st2 inv1 hΓ hn.1.1 hb
      obtain ⟨inv3, ext3, hti, eri⟩ := checkTerm_sound ok hp body hn.2 st2 _ τ body' st' inv2
        (ctxNamesOk_append hΓ (ctxNamesOk_single hn.1.1)) hτ hi
      exact ⟨inv3, (ext1.trans ext2).trans ext3, .letIn wfσ htb hti, .letIn erb eri⟩
    | .call f args an, hn => by
      intro st Γ τ t' st' inv hΓ hτ h
      simp only [termNamesOk] at hn
      obtain ⟨types, retTy, st1, args', hget, he, hlen, ha, rfl⟩ := checkTerm_call_ok h
      obtain ⟨d, hd, rfl, rfl, rfl⟩ := inv.defs _ _ _ hget
      obtain ⟨inv1, ext1, heq, wf, _⟩ := checkEquality_sound ok hp inv hτ he
      subst heq
      obtain ⟨inv2, ext2, hargs, era⟩ := checkArgs_sound ok hp args d.ctx st1 Γ args' st' hn inv1 hΓ
        (def_namesOk hp hd).1 (length_eq_of_not_bne hlen) ha
      exact ⟨inv2, ext1.trans ext2, .call d hd wf hargs, .call era⟩
    | .ctor id args an, hn => by
      intro st Γ τ t' st' inv hΓ hτ h
      simp only [termNamesOk, Bool.and_eq_true] at hn
      obtain ⟨name, tyArgs, types, ty, xs, args', st1, rfl, hget, hlk, hlen, ha, he, rfl⟩ :=
        checkTerm_ctor_ok h
      obtain ⟨key, ta, xs', x, hm, hx, hxe, hr⟩ := lookupTyForXtor_ok _ _ _ hlk
      cases hr
      obtain ⟨g1, g2, g3⟩ := inv.types _ _ _ _ hm
      rcases g3 with ⟨_, d, hd, rfl, rfl, hlen', hcs⟩ | ⟨hpol, _⟩
      · obtain ⟨c, hc, rfl⟩ := List.mem_map.mp hx
        rw [removeAll_instName _ (data_namesOk hp hd).1] at he
        obtain ⟨inv1, ext1, hargs, era⟩ := checkArgs_sound ok hp args types st Γ args' st1 hn.2 inv hΓ
          (inv.ctorsOk _ _ hget) (length_eq_of_not_bne hlen) ha
        obtain ⟨inv2, ext2, heq, wf, _⟩ := checkEquality_sound ok hp inv1 hτ he
        obtain ⟨hname, hta⟩ := Ty.decl.inj heq
        subst hname; subst hta
        have hcid : c.name = id := instName_left_inj hxe
        subst hcid
        have htypes : types = substCtx (instMap d.typeParams tyArgs) c.args := by
          have := hcs c hc
          rw [hget] at this
          exact (Option.some.inj this)
        subst htypes
        rw [substCtx_eq_csubst _ (zip_keys_nodup _ (ok.dataParams d hd).1)] at hargs
        exact ⟨inv2, ext1.trans ext2, .ctor d c hd hc wf hargs, .ctor era⟩
      · cases hpol
    | .dtor scrut id tyArgs args an, hn => by
      intro st Γ τ t' st' inv hΓ hτ h
      simp only [termNamesOk, Bool.and_eq_true] at hn
      obtain ⟨ty, xs, st1, scrut', st2, types, retTy, args', st3, hres, hs, hget, hlen, ha, he, rfl⟩ :=
        checkTerm_dtor_ok h
      obtain ⟨inv1, ext1, d, hd, s, hsd, rfl, rfl, rfl, wfty, hentry⟩ :=
        resolveXtorTy_codata_sound ok hp inv hn.1.1.1 hn.1.1.2 hres
      have hgood : tyNamesOk (.decl d.name tyArgs) = true := by
        simp [tyNamesOk, (codata_namesOk hp hd).1, hn.1.1.2]
      obtain ⟨inv2, ext2, hts, ers⟩ :=
        checkTerm_sound ok hp scrut hn.1.2 st1 Γ _ scrut' st2 inv1 hΓ hgood hs
      obtain ⟨_, _, g3⟩ := inv2.types _ _ _ _ (ext2.types _ hentry)
      rcases g3 with ⟨hpol, _⟩ | ⟨_, d', hd', hk, _, _, hcs⟩
      · cases hpol
      · have hdd : d = d' := codata_unique ok hd hd' (instName_left_inj hk)
        subst hdd
        have hv := hcs s hsd
        rw [hget] at hv
        cases hv
        obtain ⟨inv3, ext3, hargs, era⟩ := checkArgs_sound ok hp args _ st2 Γ args' st3 hn.2 inv2 hΓ
          (inv2.dtorsOk _ _ _ hget).1 (length_eq_of_not_bne hlen) ha
        obtain ⟨inv4, ext4, heq, wf, _⟩ := checkEquality_sound ok hp inv3 hτ he
        subst heq
        have hnd := zip_keys_nodup tyArgs.toList (ok.codataParams d hd).1
        rw [substCtx_eq_csubst _ hnd] at hargs
        rw [substTy_eq_tsubst _ hnd] at wf ⊢
        exact ⟨inv4, ((ext1.trans ext2).trans ext3).trans ext4,
          .dtor d s hd hsd wfty hts hargs wf, .dtor ers era⟩
    | .case scrut tyArgs cs an, hn => by
      intro st Γ τ t' st' inv hΓ hτ h
      simp only [termNamesOk, Bool.and_eq_true] at hn
      obtain ⟨hsrc, hks⟩ := clauseCheckers_sound ok hp cs hn.2
      obtain ⟨pol0, xtor0, ns0, c0, b0, r0, ty, expectedCtors, st1, scrut', st2, newClauses, hcs, hres,
        hs, hl, rfl⟩ := checkTerm_case_ok h
      have hx0 : nameOk xtor0 = true := by
        have := hn.2; rw [hcs] at this
        simp only [clausesNamesOk, Bool.and_eq_true] at this
        exact this.1.1
      obtain ⟨inv1, ext1, d, hd, s, hsd, _, rfl, rfl, wfty, hentry⟩ :=
        resolveXtorTy_data_sound ok hp inv hx0 hn.1.1 hres
      have hgood : tyNamesOk (.decl d.name tyArgs) = true := by
        simp [tyNamesOk, (data_namesOk hp hd).1, hn.1.1]
      obtain ⟨inv2, ext2, hts, ers⟩ :=
        checkTerm_sound ok hp scrut hn.1.2 st1 Γ _ scrut' st2 inv1 hΓ hgood hs
      have hentry2 := ext2.types _ hentry
      obtain ⟨inv3, ext3, picked, hout, hperm, hx, hpk⟩ := clauseLoop_spec ok hp (Q := ClauseQ p) hΓ
        (by
          intro st n sig bodyTy inv' hs'
          cases hg : st.ctors.get? n with
          | none => simp [hg] at hs'
          | some sig0 =>
            simp only [hg, Option.map_some, Option.some.injEq, Prod.mk.injEq] at hs'
            obtain ⟨rfl, rfl⟩ := hs'
            exact ⟨inv'.ctorsOk _ _ hg, hτ⟩)
        _ _ _ _ _ _ _ hks inv2 hl
      simp only [List.reverse_nil, List.nil_append] at hout
      simp only [List.append_nil] at hperm
      subst hout
      have hnd := zip_keys_nodup tyArgs.toList (ok.dataParams d hd).1
      obtain ⟨hpx, hct, hce⟩ := clauses_post (p := p)
        (sigs := d.ctors.map fun c => (c.name, csubst (instSubst d.typeParams tyArgs) c.args, τ))
        hsrc hperm hx hpk (by
          intro st1' x sig bodyTy inv1' ext1' hxm hs'
          obtain ⟨c, hc, rfl⟩ := List.mem_map.mp hxm
          obtain ⟨_, _, g3⟩ := inv1'.types _ _ _ _ (ext1'.types _ hentry2)
          rcases g3 with ⟨_, d', hd', hk, _, _, hcs'⟩ | ⟨hpol, _⟩
          · have hdd : d = d' := data_unique ok hd hd' (instName_left_inj hk)
            subst hdd
            rw [hcs' c hc] at hs'
            simp only [Option.map_some, Option.some.injEq, Prod.mk.injEq] at hs'
            obtain ⟨rfl, rfl⟩ := hs'
            refine List.mem_map.mpr ⟨c, hc, ?_⟩
            rw [substCtx_eq_csubst _ hnd]
            rfl
          · cases hpol)
      refine ⟨inv3, ((ext1.trans ext2).trans ext3), ?_, .case ers hce⟩
      exact .case d hd (by rw [hcs]; exact fun h => Clauses.noConfusion h) hpx wfty hts hct
    | .new cs an, hn => by
      intro st Γ τ t' st' inv hΓ hτ h
      simp only [termNamesOk] at hn
      obtain ⟨hsrc, hks⟩ := clauseCheckers_sound ok hp cs hn
      obtain ⟨name, tyArgs, ta, expectedDtors, newClauses, rfl, hget, hl, rfl⟩ := checkTerm_new_ok h
      have hm := AList.mem_of_get? hget
      simp only [tyNamesOk, Bool.and_eq_true] at hτ
      obtain ⟨g1, g2, g3⟩ := inv.types _ _ _ _ hm
      rcases g3 with ⟨hpol, _⟩ | ⟨_, d, hd, hk, rfl, hlen, _⟩
      · cases hpol
      · obtain ⟨hname, hta⟩ := instName_inj hτ.1 (codata_namesOk hp hd).1 hτ.2 g1 hk
        subst hname; subst hta
        have wf : WfTy p (.decl d.name tyArgs) := .codata d _ hd hlen g2
        obtain ⟨inv3, ext3, picked, hout, hperm, hx, hpk⟩ := clauseLoop_spec ok hp (Q := ClauseQ p) hΓ
          (by
            intro st n sig bodyTy inv' hs'
            exact inv'.dtorsOk _ _ _ hs')
          _ _ _ _ _ _ _ hks inv hl
        simp only [List.reverse_nil, List.nil_append] at hout
        simp only [List.append_nil] at hperm
        subst hout
        have hnd := zip_keys_nodup tyArgs.toList (ok.codataParams d hd).1
        obtain ⟨hpx, hct, hce⟩ := clauses_post (p := p)
          (sigs := d.dtors.map fun s => (s.name, csubst (instSubst d.typeParams tyArgs) s.args,
            tsubst (instSubst d.typeParams tyArgs) s.contTy))
          hsrc hperm hx hpk (by
            intro st1' x sig bodyTy inv1' ext1' hxm hs'
            obtain ⟨c, hc, rfl⟩ := List.mem_map.mp hxm
            obtain ⟨_, _, g3⟩ := inv1'.types _ _ _ _ (ext1'.types _ hm)
            rcases g3 with ⟨hpol, _⟩ | ⟨_, d', hd', hk', _, _, hcs'⟩
            · cases hpol
            · have hdd : d = d' := codata_unique ok hd hd' (instName_left_inj hk')
              subst hdd
              rw [hcs' c hc] at hs'
              simp only [Option.some.injEq, Prod.mk.injEq] at hs'
              obtain ⟨rfl, rfl⟩ := hs'
              refine List.mem_map.mpr ⟨c, hc, ?_⟩
              rw [substCtx_eq_csubst _ hnd, substTy_eq_tsubst _ hnd]
              rfl)
        have hrets : ∀ s ∈ d.dtors, WfTy p (tsubst (instSubst d.typeParams tyArgs) s.contTy) := by
          intro s hs
          have hsx : s.name ∈ picked.map (fun ko => ko.1.src.xtor) := by
            rw [hx]; exact List.mem_map.mpr ⟨s, hs, rfl⟩
          obtain ⟨⟨k, o⟩, hko, hkx⟩ := List.mem_map.mp hsx
          obtain ⟨_, _, _, st1', sig, bodyTy, inv1', ext1', hs', hwf, _⟩ := hpk _ hko
          simp only at hkx
          rw [hkx] at hs'
          obtain ⟨_, _, g3⟩ := inv1'.types _ _ _ _ (ext1'.types _ hm)
          rcases g3 with ⟨hpol, _⟩ | ⟨_, d', hd', hk', _, _, hcs'⟩
          · cases hpol
          · have hdd : d = d' := codata_unique ok hd hd' (instName_left_inj hk')
            subst hdd
            rw [hcs' s hs] at hs'
            simp only [Option.some.injEq, Prod.mk.injEq] at hs'
            obtain ⟨_, rfl⟩ := hs'
            have := hwf rfl
            rw [substTy_eq_tsubst _ hnd] at this
            exact this
        exact ⟨inv3, ext3, .new d hd hpx wf hrets hct, .new hce⟩
    | .label a body an, hn => by
      intro st Γ τ t' st' inv hΓ hτ h
      simp only [termNamesOk] at hn
      obtain ⟨body', hb, rfl⟩ := checkTerm_label_ok h
      obtain ⟨inv1, ext1, htb, erb⟩ := checkTerm_sound ok hp body hn st _ τ body' st' inv
        (ctxNamesOk_append hΓ (ctxNamesOk_single hτ)) hτ hb
      exact ⟨inv1, ext1, .label htb, .label erb⟩
    | .goto a arg an, hn => by
      intro st Γ τ t' st' inv hΓ hτ h
      simp only [termNamesOk] at hn
      obtain ⟨contTy, st0, arg', hl, hc, ha, rfl⟩ := checkTerm_goto_ok h
      obtain ⟨b, hb1, hb2, hb3, hb4⟩ := lookupCovar_ok hl
      subst hb3
      obtain ⟨inv0, ext0, wfb, _⟩ := checkTy_sound ok hp b.ty st st0 inv (ctxNamesOk_mem hΓ hb4) hc
      obtain ⟨inv1, ext1, hta, era⟩ := checkTerm_sound ok hp arg hn st0 Γ _ arg' st' inv0 hΓ
        (ctxNamesOk_mem hΓ hb4) ha
      exact ⟨inv1, ext0.trans ext1, .goto b hb1 hb2 wfb hta, .goto era⟩
    | .exit arg an, hn => by
      intro st Γ τ t' st' inv hΓ hτ h
      simp only [termNamesOk] at hn
      obtain ⟨arg', ha, rfl⟩ := checkTerm_exit_ok h
      obtain ⟨inv1, ext1, hta, era⟩ :=
        checkTerm_sound ok hp arg hn st Γ .i64 arg' st' inv hΓ tyNamesOk_i64 ha
      exact ⟨inv1, ext1, .exit hta, .exit era⟩
    | .paren inner, hn => by
      intro st Γ τ t' st' inv hΓ hτ h
      simp only [termNamesOk] at hn
      obtain ⟨inner', ha, rfl⟩ := checkTerm_paren_ok h
      obtain ⟨inv1, ext1, hta, era⟩ := checkTerm_sound ok hp inner hn st Γ τ inner' st' inv hΓ hτ ha
      exact ⟨inv1, ext1, .paren hta, .paren era⟩
  theorem checkArgs_sound {p : Program} (ok : DeclsOk p) (hp : programNamesOk p = true) :
      ∀ (ts : Terms) (bs : List Binding) (st : SymbolTable) (Γ : Ctx) (ts' : Terms)
        (st' : SymbolTable), argsNamesOk ts = true → Inv p st → ctxNamesOk Γ = true →
        ctxNamesOk bs = true → bs.length = termsLength ts → checkArgs ts bs st Γ = .ok (ts', st') →
        Inv p st' ∧ Ext st st' ∧ ArgsTyped p Γ ts bs ∧ ArgsErase ts' ts
    | .nil, bs, st, Γ, ts', st', _, inv, _, _, hlen, h => by
      obtain ⟨rfl, rfl⟩ := checkArgs_nil_ok h
      have : bs = [] := by
        simpa [termsLength, Terms.toList] using hlen
      subst this
      exact ⟨inv, Ext.refl _, .nil, .nil⟩
    | .cons t ts, [], st, Γ, ts', st', _, _, _, _, hlen, _ => by
      simp [termsLength, Terms.toList] at hlen
    | .cons t ts, b :: bs, st, Γ, ts', st', hn, inv, hΓ, hbs, hlen, h => by
      simp only [argsNamesOk, Bool.and_eq_true] at hn
      have hbty : tyNamesOk b.ty = true := ctxNamesOk_mem hbs (by simp)
      have hbs' : ctxNamesOk bs = true := by
        simp only [ctxNamesOk, List.all_cons, Bool.and_eq_true] at hbs
        exact hbs.2
      have hlen' : bs.length = termsLength ts := by
        simp only [termsLength, Terms.toList, List.length_cons] at hlen ⊢
        omega
      cases hb : b.chi with
      | prd =>
        obtain ⟨st1, t', st2, rest', hty, ht, hr, rfl⟩ := checkArgs_cons_prd_ok hb h
        obtain ⟨inv1, ext1, wf, _⟩ := checkTy_sound ok hp b.ty st st1 inv hbty hty
        obtain ⟨inv2, ext2, htt, ert⟩ := checkTerm_sound ok hp t hn.1 st1 Γ b.ty t' st2 inv1 hΓ hbty ht
        obtain ⟨inv3, ext3, htr, err⟩ :=
          checkArgs_sound ok hp ts bs st2 Γ rest' st' hn.2 inv2 hΓ hbs' hlen' hr
        exact ⟨inv3, (ext1.trans ext2).trans ext3, .prd hb wf htt htr, .cons ert err⟩
      | cns =>
        obtain ⟨x, ty, chi, t', st2, rest', rfl, hc, hr, rfl⟩ := checkArgs_cons_cns_ok hb h
        obtain ⟨hchi, found, st1, hl, ha, he, rfl⟩ := checkCovarArg_ok hc
        obtain ⟨b', hb1, hb2, hb3, hb4⟩ := lookupCovar_ok hl
        obtain ⟨inv1, ext1, hann⟩ := checkAnnot_sound ok hp inv
          (by intro t ht; subst ht; simpa [termNamesOk] using hn.1) ha
        obtain ⟨inv2, ext2, heq, wf, _⟩ := checkEquality_sound ok hp inv1 hbty he
        obtain ⟨inv3, ext3, htr, err⟩ :=
          checkArgs_sound ok hp ts bs st2 Γ rest' st' hn.2 inv2 hΓ hbs' hlen' hr
        refine ⟨inv3, (ext1.trans ext2).trans ext3, ?_, .cons .var err⟩
        exact .cns b' hb hb1 hb2 (hb3.trans heq.symm) wf (not_beq_some_prd hchi)
          (by intro t ht; rw [heq]; exact hann t ht) htr
  theorem clauseCheckers_sound {p : Program} (ok : DeclsOk p) (hp : programNamesOk p = true) :
      ∀ (cs : Clauses), clausesNamesOk cs = true →
      (clauseCheckers cs).map (·.src) = cs.toList ∧
      ∀ k ∈ clauseCheckers cs, SoundK p (ClauseQ p k.src) k.body
    | .nil, _ => by simp [clauseCheckers, Clauses.toList]
    | .cons pol x ns c b r, hn => by
      simp only [clausesNamesOk, Bool.and_eq_true] at hn
      obtain ⟨ih1, ih2⟩ := clauseCheckers_sound ok hp r hn.2
      refine ⟨by simp [clauseCheckers, Clauses.toList, ih1], ?_⟩
      intro k hk
      simp only [clauseCheckers, List.mem_cons] at hk
      rcases hk with rfl | hk
      · exact checkTerm_sound ok hp b hn.1.2
      · exact ih2 k hk
end

end Scc.Fun.Check
