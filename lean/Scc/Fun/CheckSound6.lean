/-
  Scc.Fun.CheckSound6 — soundness of the checker model, part 6: programs.
  `build_symbol_table` yields tables that are images of the declaration lists (hence `DeclsOk` and the
  initial invariant); `check_with_table` checks every definition.
-/
import Scc.Fun.CheckSound5

namespace Scc.Fun.Check
open Scc.Fun.Typing

/-! ## the tables after `build_symbol_table` -/

def defEntry : Decl → Option (String × (Ctx × Ty))
  | .defn f => some (f.name, (f.ctx, f.retTy))
  | _ => none

def tmplEntry : Decl → Option (String × (Polarity × List String × List String))
  | .data d => some (d.name, (.data, d.typeParams, d.ctors.map (·.name)))
  | .codata d => some (d.name, (.codata, d.typeParams, d.dtors.map (·.name)))
  | .defn _ => none

def ctorEntries : Decl → List (String × Ctx)
  | .data d => d.ctors.map fun c => (c.name, c.args)
  | _ => []

def dtorEntries : Decl → List (String × (Ctx × Ty))
  | .codata d => d.dtors.map fun s => (s.name, (s.args, s.contTy))
  | _ => []

abbrev keysNodup {β : Type} (m : AList β) : Prop := (m.map Prod.fst).Nodup

theorem keysNodup_append_single {β : Type} {m : AList β} {k : String} {v : β}
    (h : keysNodup m) (hk : m.get? k = none) : keysNodup (m ++ [(k, v)]) := by
  simp only [keysNodup, List.map_append, List.map_cons, List.map_nil]
  rw [List.nodup_append]
  refine ⟨h, by simp, ?_⟩
  intro a ha b hb
  simp only [List.mem_singleton] at hb
  subst hb
  intro hab; subst hab
  exact AList.not_mem_keys_of_get?_none hk ha

theorem buildCtors_ok : ∀ (cs : List CtorSig) (st st' : SymbolTable),
    keysNodup st.ctorTemplates → buildCtors cs st = .ok st' →
    st'.ctorTemplates = st.ctorTemplates ++ cs.map (fun c => (c.name, c.args)) ∧
    keysNodup st'.ctorTemplates ∧ st'.defs = st.defs ∧ st'.typeTemplates = st.typeTemplates ∧
    st'.dtorTemplates = st.dtorTemplates ∧ st'.ctors = st.ctors ∧ st'.dtors = st.dtors ∧
    st'.types = st.types
  | [], st, st', hn, h => by
    simp only [buildCtors] at h; cases h; simp [hn]
  | c :: r, st, st', hn, h => by
    simp only [buildCtors] at h
    split at h
    · cases h
    · rename_i hc
      have hget : st.ctorTemplates.get? c.name = none := by
        simpa [AList.contains] using hc
      rw [AList.insert_of_get?_none hget] at h
      obtain ⟨h1, h2, h3, h4, h5, h6, h7, h8⟩ :=
        buildCtors_ok r _ st' (keysNodup_append_single hn hget) h
      exact ⟨by simp [h1], h2, h3, h4, h5, h6, h7, h8⟩

theorem buildDtors_ok : ∀ (cs : List DtorSig) (st st' : SymbolTable),
    keysNodup st.dtorTemplates → buildDtors cs st = .ok st' →
    st'.dtorTemplates = st.dtorTemplates ++ cs.map (fun s => (s.name, (s.args, s.contTy))) ∧
    keysNodup st'.dtorTemplates ∧ st'.defs = st.defs ∧ st'.typeTemplates = st.typeTemplates ∧
    st'.ctorTemplates = st.ctorTemplates ∧ st'.ctors = st.ctors ∧ st'.dtors = st.dtors ∧
    st'.types = st.types
  | [], st, st', hn, h => by
    simp only [buildDtors] at h; cases h; simp [hn]
  | c :: r, st, st', hn, h => by
    simp only [buildDtors] at h
    split at h
    · cases h
    · rename_i hc
      have hget : st.dtorTemplates.get? c.name = none := by
        simpa [AList.contains] using hc
      rw [AList.insert_of_get?_none hget] at h
      obtain ⟨h1, h2, h3, h4, h5, h6, h7, h8⟩ :=
        buildDtors_ok r _ st' (keysNodup_append_single hn hget) h
      exact ⟨by simp [h1], h2, h3, h4, h5, h6, h7, h8⟩

/-- the state of the four declaration tables, relative to a list of declarations already processed -/
structure Built (st : SymbolTable) (ds : List Decl) : Prop where
  defs : st.defs = ds.filterMap defEntry
  tmpl : st.typeTemplates = ds.filterMap tmplEntry
  ctors : st.ctorTemplates = ds.flatMap ctorEntries
  dtors : st.dtorTemplates = ds.flatMap dtorEntries
  defsN : keysNodup st.defs
  tmplN : keysNodup st.typeTemplates
  ctorsN : keysNodup st.ctorTemplates
  dtorsN : keysNodup st.dtorTemplates
  noCtors : st.ctors = []
  noDtors : st.dtors = []
  noTypes : st.types = []

theorem buildDecl_ok {d : Decl} {st st' : SymbolTable} {ds : List Decl} (b : Built st ds)
    (h : buildDecl d st = .ok st') : Built st' (ds ++ [d]) := by
  cases d with
  | defn f =>
    simp only [buildDecl] at h
    split at h
    · cases h
    · rename_i hc
      have hget : st.defs.get? f.name = none := by simpa [AList.contains] using hc
      cases h
      rw [AList.insert_of_get?_none hget]
      exact ⟨by simp [b.defs, defEntry], by simp [b.tmpl, tmplEntry],
        by simp [b.ctors, ctorEntries], by simp [b.dtors, dtorEntries],
        keysNodup_append_single b.defsN hget, b.tmplN, b.ctorsN, b.dtorsN, b.noCtors, b.noDtors,
        b.noTypes⟩
  | data d =>
    simp only [buildDecl] at h
    split at h
    · cases h
    · rename_i hc
      have hget : st.typeTemplates.get? d.name = none := by simpa [AList.contains] using hc
      rw [AList.insert_of_get?_none hget] at h
      obtain ⟨h1, h2, h3, h4, h5, h6, h7, h8⟩ := buildCtors_ok d.ctors _ st' (by exact b.ctorsN) h
      simp only at h1 h3 h4 h5 h6 h7 h8
      exact ⟨by simp [h3, b.defs, defEntry], by simp [h4, b.tmpl, tmplEntry],
        by simp [h1, b.ctors, ctorEntries], by simp [h5, b.dtors, dtorEntries],
        by rw [h3]; exact b.defsN, by rw [h4]; exact keysNodup_append_single b.tmplN hget, h2,
        by rw [h5]; exact b.dtorsN, by rw [h6]; exact b.noCtors, by rw [h7]; exact b.noDtors,
        by rw [h8]; exact b.noTypes⟩
  | codata d =>
    simp only [buildDecl] at h
    split at h
    · cases h
    · rename_i hc
      have hget : st.typeTemplates.get? d.name = none := by simpa [AList.contains] using hc
      rw [AList.insert_of_get?_none hget] at h
      obtain ⟨h1, h2, h3, h4, h5, h6, h7, h8⟩ := buildDtors_ok d.dtors _ st' (by exact b.dtorsN) h
      simp only at h1 h3 h4 h5 h6 h7 h8
      exact ⟨by simp [h3, b.defs, defEntry], by simp [h4, b.tmpl, tmplEntry],
        by simp [h5, b.ctors, ctorEntries], by simp [h1, b.dtors, dtorEntries],
        by rw [h3]; exact b.defsN, by rw [h4]; exact keysNodup_append_single b.tmplN hget,
        by rw [h5]; exact b.ctorsN, h2, by rw [h6]; exact b.noCtors, by rw [h7]; exact b.noDtors,
        by rw [h8]; exact b.noTypes⟩

theorem buildDecls_ok : ∀ (ds done : List Decl) (st st' : SymbolTable), Built st done →
    buildDecls ds st = .ok st' → Built st' (done ++ ds)
  | [], done, st, st', b, h => by
    simp only [buildDecls] at h; cases h; simpa using b
  | d :: r, done, st, st', b, h => by
    simp only [buildDecls] at h
    split at h
    · cases h
    · rename_i st1 h1
      have := buildDecls_ok r (done ++ [d]) st1 st' (buildDecl_ok b h1) h
      simpa using this

theorem built_empty : Built {} [] :=
  ⟨rfl, rfl, rfl, rfl, by simp [keysNodup], by simp [keysNodup], by simp [keysNodup],
    by simp [keysNodup], rfl, rfl, rfl⟩

/-! ## the tables versus the declaration lists of the specification -/

theorem defEntry_keys : ∀ (ds : List Decl), (ds.filterMap defEntry).map Prod.fst =
    (ds.filterMap fun | .defn d => some d | _ => none).map (·.name)
  | [] => rfl
  | d :: r => by
    cases d <;> simp [List.filterMap_cons, defEntry, defEntry_keys r]

theorem tmplEntry_keys : ∀ (ds : List Decl), (ds.filterMap tmplEntry).map Prod.fst =
    ds.filterMap fun | .data d => some d.name | .codata d => some d.name | .defn _ => none
  | [] => rfl
  | d :: r => by
    cases d <;> simp [List.filterMap_cons, tmplEntry, tmplEntry_keys r]

theorem ctorEntries_keys : ∀ (ds : List Decl), (ds.flatMap ctorEntries).map Prod.fst =
    (ds.filterMap fun | .data d => some d | _ => none).flatMap fun d => d.ctors.map (·.name)
  | [] => rfl
  | d :: r => by
    cases d <;> simp [List.flatMap_cons, ctorEntries, ctorEntries_keys r,
      List.map_map, Function.comp_def]

theorem dtorEntries_keys : ∀ (ds : List Decl), (ds.flatMap dtorEntries).map Prod.fst =
    (ds.filterMap fun | .codata d => some d | _ => none).flatMap fun d => d.dtors.map (·.name)
  | [] => rfl
  | d :: r => by
    cases d <;> simp [List.flatMap_cons, dtorEntries, dtorEntries_keys r,
      List.map_map, Function.comp_def]

/-- the name-uniqueness part of `DeclsOk` -/
theorem built_names {p : Program} {st : SymbolTable} (b : Built st p.decls) :
    ((defs p).map (·.name)).Nodup ∧ (typeNames p).Nodup ∧
    ((datas p).flatMap fun d => d.ctors.map (·.name)).Nodup ∧
    ((codatas p).flatMap fun d => d.dtors.map (·.name)).Nodup := by
  refine ⟨?_, ?_, ?_, ?_⟩
  · have := b.defsN; rw [keysNodup, b.defs, defEntry_keys] at this; exact this
  · have := b.tmplN; rw [keysNodup, b.tmpl, tmplEntry_keys] at this; exact this
  · have := b.ctorsN; rw [keysNodup, b.ctors, ctorEntries_keys] at this; exact this
  · have := b.dtorsN; rw [keysNodup, b.dtors, dtorEntries_keys] at this; exact this

theorem mem_typeNames_iff {p : Program} {st : SymbolTable} (b : Built st p.decls) (n : String) :
    n ∈ typeNames p ↔ n ∈ st.typeTemplates.map Prod.fst := by
  rw [b.tmpl, tmplEntry_keys]; rfl

/-- the initial invariant -/
theorem built_inv {p : Program} {st : SymbolTable} (b : Built st p.decls) : Inv p st := by
  refine ⟨?_, ?_, ?_, ?_, ?_, ?_, ?_, ?_, ?_, ?_⟩
  · intro f c r h
    have hm := AList.mem_of_get? h
    rw [b.defs] at hm
    obtain ⟨d, hd, he⟩ := List.mem_filterMap.mp hm
    cases d <;> simp only [defEntry] at he <;> try cases he
    rename_i f'
    exact ⟨f', mem_defs.mpr hd, rfl, rfl, rfl⟩
  · intro n pol params xs hm
    rw [b.tmpl] at hm
    obtain ⟨d, hd, he⟩ := List.mem_filterMap.mp hm
    cases d <;> simp only [tmplEntry] at he <;> try cases he
    · rename_i d'
      exact .inl ⟨rfl, d', mem_datas.mpr hd, rfl, rfl, rfl⟩
    · rename_i d'
      exact .inr ⟨rfl, d', mem_codatas.mpr hd, rfl, rfl, rfl⟩
  · intro d hd
    apply AList.get?_of_mem_nodup b.defsN
    rw [b.defs]
    exact List.mem_filterMap.mpr ⟨.defn d, mem_defs.mp hd, rfl⟩
  · intro d hd
    apply AList.get?_of_mem_nodup b.tmplN
    rw [b.tmpl]
    exact List.mem_filterMap.mpr ⟨.data d, mem_datas.mp hd, rfl⟩
  · intro d hd
    apply AList.get?_of_mem_nodup b.tmplN
    rw [b.tmpl]
    exact List.mem_filterMap.mpr ⟨.codata d, mem_codatas.mp hd, rfl⟩
  · intro d hd c hc
    apply AList.get?_of_mem_nodup b.ctorsN
    rw [b.ctors]
    exact List.mem_flatMap.mpr ⟨.data d, mem_datas.mp hd, List.mem_map.mpr ⟨c, hc, rfl⟩⟩
  · intro d hd c hc
    apply AList.get?_of_mem_nodup b.dtorsN
    rw [b.dtors]
    exact List.mem_flatMap.mpr ⟨.codata d, mem_codatas.mp hd, List.mem_map.mpr ⟨c, hc, rfl⟩⟩
  · intro k sig h; rw [b.noCtors] at h; simp [AList.get?] at h
  · intro k sig ret h; rw [b.noDtors] at h; simp [AList.get?] at h
  · intro key pol ta xs h; rw [b.noTypes] at h; cases h

/-! ## `check_type_params` -/

theorem paramsNotTemplates_ok {T : AList (Polarity × List String × List String)} :
    ∀ (ps : List String), paramsNotTemplates T ps = .ok () → ∀ a ∈ ps, a ∉ T.map Prod.fst
  | [], _, a, ha => by cases ha
  | x :: r, h, a, ha => by
    simp only [paramsNotTemplates] at h
    split at h
    · cases h
    · rename_i hc
      rcases List.mem_cons.mp ha with rfl | ha
      · exact AList.not_mem_keys_of_get?_none (by simpa [AList.contains] using hc)
      · exact paramsNotTemplates_ok r h a ha

theorem checkTypeParams_ok {T : AList (Polarity × List String × List String)} :
    ∀ (l : AList (Polarity × List String × List String)), checkTypeParams T l = .ok () →
    ∀ n pol params xs, (n, (pol, params, xs)) ∈ l →
      params.Nodup ∧ ∀ a ∈ params, a ∉ T.map Prod.fst
  | [], _, n, pol, params, xs, hm => by cases hm
  | (n0, (pol0, params0, xs0)) :: r, h, n, pol, params, xs, hm => by
    simp only [checkTypeParams] at h
    split at h
    · cases h
    · rename_i h1
      split at h
      · cases h
      · rename_i h2
        rcases List.mem_cons.mp hm with he | hm
        · cases he
          exact ⟨(namesNoDups_ok _ _ h1).1, paramsNotTemplates_ok _ h2⟩
        · exact checkTypeParams_ok r h n pol params xs hm

/-! ## `Data::check` / `Codata::check` -/

theorem checkTyTemplate_ok {p : Program} {st : SymbolTable} (b : Built st p.decls)
    {t : Ty} {ps : List String} (h : checkTyTemplate t st ps = .ok ()) : TyScoped p ps t := by
  cases t with
  | i64 => trivial
  | decl n args =>
    simp only [checkTyTemplate] at h
    simp only [TyScoped]
    split at h
    · rename_i v hv
      left
      rw [mem_typeNames_iff b]
      exact List.mem_map.mpr ⟨(n, v), AList.mem_of_get? hv, rfl⟩
    · split at h
      · rename_i hc
        right
        exact List.contains_iff_mem.mp hc
      · cases h

theorem ctxCheckTemplate_ok {p : Program} {st : SymbolTable} (b : Built st p.decls)
    {ps : List String} : ∀ (c : Ctx), ctxCheckTemplate c st ps = .ok () →
    ∀ x ∈ c, TyScoped p ps x.ty
  | [], _, x, hx => by cases hx
  | y :: r, h, x, hx => by
    simp only [ctxCheckTemplate] at h
    split at h
    · cases h
    · rename_i h1
      rcases List.mem_cons.mp hx with rfl | hx
      · exact checkTyTemplate_ok b h1
      · exact ctxCheckTemplate_ok b r h x hx

theorem checkCtorSigs_ok {p : Program} {st : SymbolTable} (b : Built st p.decls)
    {ps : List String} : ∀ (cs : List CtorSig), checkCtorSigs st ps cs = .ok () →
    ∀ c ∈ cs, ∀ x ∈ c.args, TyScoped p ps x.ty
  | [], _, c, hc => by cases hc
  | c0 :: r, h, c, hc => by
    simp only [checkCtorSigs] at h
    split at h
    · cases h
    · rename_i h1
      rcases List.mem_cons.mp hc with rfl | hc
      · exact ctxCheckTemplate_ok b _ h1
      · exact checkCtorSigs_ok b r h c hc

theorem checkDtorSigs_ok {p : Program} {st : SymbolTable} (b : Built st p.decls)
    {ps : List String} : ∀ (cs : List DtorSig), checkDtorSigs st ps cs = .ok () →
    ∀ c ∈ cs, (∀ x ∈ c.args, TyScoped p ps x.ty) ∧ TyScoped p ps c.contTy
  | [], _, c, hc => by cases hc
  | c0 :: r, h, c, hc => by
    simp only [checkDtorSigs] at h
    split at h
    · cases h
    · rename_i h1
      split at h
      · cases h
      · rename_i h2
        rcases List.mem_cons.mp hc with rfl | hc
        · exact ⟨ctxCheckTemplate_ok b _ h1, checkTyTemplate_ok b h2⟩
        · exact checkDtorSigs_ok b r h c hc

/-- program.rs: the first loop of `check_with_table` returns the definitions and has checked all
type declarations -/
theorem checkTypeDecls_ok {p : Program} {st : SymbolTable} (b : Built st p.decls) :
    ∀ (ds : List Decl) (fs : List Def), checkTypeDecls ds st = .ok fs →
    fs = (ds.filterMap fun | .defn d => some d | _ => none) ∧
    (∀ d, Decl.data d ∈ ds → ∀ c ∈ d.ctors, ∀ x ∈ c.args, TyScoped p d.typeParams x.ty) ∧
    (∀ d, Decl.codata d ∈ ds → ∀ c ∈ d.dtors,
      (∀ x ∈ c.args, TyScoped p d.typeParams x.ty) ∧ TyScoped p d.typeParams c.contTy)
  | [], fs, h => by
    simp only [checkTypeDecls] at h; cases h
    exact ⟨rfl, fun d hd => (by cases hd), fun d hd => (by cases hd)⟩
  | .data d :: r, fs, h => by
    simp only [checkTypeDecls] at h
    split at h
    · cases h
    · rename_i h1
      obtain ⟨g1, g2, g3⟩ := checkTypeDecls_ok b r fs h
      refine ⟨by simp [g1], ?_, ?_⟩
      · intro d' hd'
        rcases List.mem_cons.mp hd' with he | hd'
        · cases he; exact checkCtorSigs_ok b _ h1
        · exact g2 d' hd'
      · intro d' hd'
        rcases List.mem_cons.mp hd' with he | hd'
        · cases he
        · exact g3 d' hd'
  | .codata d :: r, fs, h => by
    simp only [checkTypeDecls] at h
    split at h
    · cases h
    · rename_i h1
      obtain ⟨g1, g2, g3⟩ := checkTypeDecls_ok b r fs h
      refine ⟨by simp [g1], ?_, ?_⟩
      · intro d' hd'
        rcases List.mem_cons.mp hd' with he | hd'
        · cases he
        · exact g2 d' hd'
      · intro d' hd'
        rcases List.mem_cons.mp hd' with he | hd'
        · cases he; exact checkDtorSigs_ok b _ h1
        · exact g3 d' hd'
  | .defn f :: r, fs, h => by
    simp only [checkTypeDecls] at h
    split at h
    · cases h
    · rename_i fs' h1
      cases h
      obtain ⟨g1, g2, g3⟩ := checkTypeDecls_ok b r fs' h1
      refine ⟨by simp [g1], ?_, ?_⟩
      · intro d' hd'
        rcases List.mem_cons.mp hd' with he | hd'
        · cases he
        · exact g2 d' hd'
      · intro d' hd'
        rcases List.mem_cons.mp hd' with he | hd'
        · cases he
        · exact g3 d' hd'

/-- everything the checker establishes about the declarations -/
theorem declsOk_of_checks {p : Program} {st : SymbolTable} {fs : List Def}
    (b : Built st p.decls) (h1 : checkTypeParams st.typeTemplates st.typeTemplates = .ok ())
    (h2 : checkTypeDecls p.decls st = .ok fs) : DeclsOk p ∧ fs = defs p := by
  obtain ⟨n1, n2, n3, n4⟩ := built_names b
  obtain ⟨g1, g2, g3⟩ := checkTypeDecls_ok b p.decls fs h2
  have hparams : ∀ n pol params xs, (n, (pol, params, xs)) ∈ st.typeTemplates →
      params.Nodup ∧ ∀ a ∈ params, a ∉ typeNames p := by
    intro n pol params xs hm
    obtain ⟨q1, q2⟩ := checkTypeParams_ok _ h1 n pol params xs hm
    exact ⟨q1, fun a ha hn => q2 a ha ((mem_typeNames_iff b a).mp hn)⟩
  refine ⟨⟨n1, n2, n3, n4, ?_, ?_, ?_, ?_⟩, g1⟩
  · intro d hd
    apply hparams d.name .data d.typeParams (d.ctors.map (·.name))
    rw [b.tmpl]
    exact List.mem_filterMap.mpr ⟨.data d, mem_datas.mp hd, rfl⟩
  · intro d hd
    apply hparams d.name .codata d.typeParams (d.dtors.map (·.name))
    rw [b.tmpl]
    exact List.mem_filterMap.mpr ⟨.codata d, mem_codatas.mp hd, rfl⟩
  · intro d hd
    exact g2 d (mem_datas.mp hd)
  · intro d hd
    exact g3 d (mem_codatas.mp hd)

/-! ## definitions -/

theorem ctxNoDups_ok : ∀ (c : Ctx) (seen : List String), ctxNoDups c seen = .ok () →
    (c.map (·.var)).Nodup ∧ ∀ x ∈ c.map (·.var), x ∉ seen
  | [], _, _ => by simp
  | b :: r, seen, h => by
    simp only [ctxNoDups] at h
    split at h
    · split at h <;> cases h
    · rename_i hb
      obtain ⟨h1, h2⟩ := ctxNoDups_ok r (b.var :: seen) h
      have hb' : b.var ∉ seen := by simpa using hb
      simp only [List.map_cons]
      refine ⟨List.nodup_cons.mpr ⟨fun hm => (h2 _ hm) (by simp), h1⟩, ?_⟩
      intro x hx
      rcases List.mem_cons.mp hx with rfl | hx
      · exact hb'
      · exact fun hs => h2 x hx (by simp [hs])

theorem ctxCheck_sound {p : Program} (ok : DeclsOk p) (hp : programNamesOk p = true) :
    ∀ (c : Ctx) (st st' : SymbolTable), Inv p st → ctxNamesOk c = true → ctxCheck c st = .ok st' →
    Inv p st' ∧ Ext st st' ∧ ∀ b ∈ c, WfTy p b.ty
  | [], st, st', inv, _, h => by
    simp only [ctxCheck] at h; cases h
    exact ⟨inv, Ext.refl _, by simp⟩
  | b :: r, st, st', inv, hn, h => by
    simp only [ctxCheck] at h
    split at h
    · cases h
    · rename_i st1 h1
      have hb : tyNamesOk b.ty = true := ctxNamesOk_mem hn (by simp)
      have hr : ctxNamesOk r = true := by
        simp only [ctxNamesOk, List.all_cons, Bool.and_eq_true] at hn; exact hn.2
      obtain ⟨inv1, ext1, wf, _⟩ := checkTy_sound ok hp b.ty st st1 inv hb h1
      obtain ⟨inv2, ext2, wfr⟩ := ctxCheck_sound ok hp r st1 st' inv1 hr h
      refine ⟨inv2, ext1.trans ext2, ?_⟩
      intro x hx
      rcases List.mem_cons.mp hx with rfl | hx
      · exact wf
      · exact wfr x hx

theorem checkDef_sound {p : Program} (ok : DeclsOk p) (hp : programNamesOk p = true)
    {f f' : Def} {st st' : SymbolTable} (hf : f ∈ defs p) (inv : Inv p st)
    (h : checkDef f st = .ok (f', st')) :
    Inv p st' ∧ Ext st st' ∧ DefOk p f ∧ f'.name = f.name ∧ f'.ctx = f.ctx ∧ f'.retTy = f.retTy ∧
      Erases f'.body f.body ∧ annotated f'.body = true := by
  obtain ⟨g1, g2, g3⟩ := def_namesOk hp hf
  simp only [checkDef] at h
  split at h
  · cases h
  · rename_i h1
    split at h
    · cases h
    · rename_i st1 h2
      split at h
      · cases h
      · rename_i st2 h3
        split at h
        · cases h
        · rename_i body' st3 h4
          cases h
          obtain ⟨inv1, ext1, wfc⟩ := ctxCheck_sound ok hp f.ctx st st1 inv g1 h2
          obtain ⟨inv2, ext2, wfr, _⟩ := checkTy_sound ok hp f.retTy st1 st2 inv1 g2 h3
          obtain ⟨inv3, ext3, hty, her⟩ :=
            checkTerm_sound ok hp f.body g3 st2 f.ctx f.retTy body' st' inv2 g1 g2 h4
          exact ⟨inv3, (ext1.trans ext2).trans ext3, ⟨(ctxNoDups_ok _ _ h1).1, wfc, wfr, hty⟩,
            rfl, rfl, rfl, her, checkTerm_annotated f.body _ _ _ _ _ h4⟩

theorem checkDefs_sound {p : Program} (ok : DeclsOk p) (hp : programNamesOk p = true) :
    ∀ (fs fs' : List Def) (st st' : SymbolTable), (∀ f ∈ fs, f ∈ defs p) → Inv p st →
    checkDefs fs st = .ok (fs', st') →
    Inv p st' ∧ Ext st st' ∧ (∀ f ∈ fs, DefOk p f) ∧ DefsErase fs' fs ∧
      ∀ f' ∈ fs', annotated f'.body = true
  | [], fs', st, st', _, inv, h => by
    simp only [checkDefs] at h; cases h
    exact ⟨inv, Ext.refl _, by simp, .nil, by simp⟩
  | f :: r, fs', st, st', hsub, inv, h => by
    simp only [checkDefs] at h
    split at h
    · cases h
    · rename_i f1 st1 h1
      split at h
      · cases h
      · rename_i r1 st2 h2
        cases h
        obtain ⟨inv1, ext1, dok, e1, e2, e3, e4, e5⟩ :=
          checkDef_sound ok hp (hsub f (by simp)) inv h1
        obtain ⟨inv2, ext2, doks, ers, anns⟩ := checkDefs_sound ok hp r r1 st1 st'
          (fun x hx => hsub x (by simp [hx])) inv1 h2
        refine ⟨inv2, ext1.trans ext2, ?_, .cons e1 e2 e3 e4 ers, ?_⟩
        · intro x hx
          rcases List.mem_cons.mp hx with rfl | hx
          · exact dok
          · exact doks x hx
        · intro x hx
          rcases List.mem_cons.mp hx with rfl | hx
          · exact e5
          · exact anns x hx

/-! ## collecting the instances -/

theorem collectCtors_ok {st : SymbolTable} {ta : Tys} {g : CtorSig → Ctx} :
    ∀ (cs : List CtorSig) (l : List CtorSig),
    (∀ c ∈ cs, st.ctors.get? (instName c.name ta) = some (g c)) →
    collectCtors st ta (cs.map (·.name)) = .ok l → l = cs.map fun c => ⟨c.name, g c⟩
  | [], l, _, h => by simp only [List.map_nil, collectCtors] at h; cases h; rfl
  | c :: r, l, hg, h => by
    simp only [List.map_cons, collectCtors, hg c (by simp)] at h
    split at h
    · cases h
    · rename_i l' h1
      cases h
      rw [collectCtors_ok r l' (fun x hx => hg x (by simp [hx])) h1]
      rfl

theorem collectDtors_ok {st : SymbolTable} {ta : Tys} {g : DtorSig → Ctx × Ty} :
    ∀ (cs : List DtorSig) (l : List DtorSig),
    (∀ c ∈ cs, st.dtors.get? (instName c.name ta) = some (g c)) →
    collectDtors st ta (cs.map (·.name)) = .ok l → l = cs.map fun c => ⟨c.name, (g c).1, (g c).2⟩
  | [], l, _, h => by simp only [List.map_nil, collectDtors] at h; cases h; rfl
  | c :: r, l, hg, h => by
    simp only [List.map_cons, collectDtors, hg c (by simp)] at h
    split at h
    · cases h
    · rename_i l' h1
      cases h
      rw [collectDtors_ok r l' (fun x hx => hg x (by simp [hx])) h1]
      rfl

theorem collectTypes_ok {st : SymbolTable} :
    ∀ (types : AList (Polarity × Tys × List String)) (ds : List Data) (cs : List Codata),
    collectTypes st types = .ok (ds, cs) →
    (∀ d' ∈ ds, ∃ ta xs, (d'.name, (Polarity.data, ta, xs)) ∈ types ∧ d'.typeParams = [] ∧
      collectCtors st ta xs = .ok d'.ctors) ∧
    (∀ d' ∈ cs, ∃ ta xs, (d'.name, (Polarity.codata, ta, xs)) ∈ types ∧ d'.typeParams = [] ∧
      collectDtors st ta xs = .ok d'.dtors)
  | [], ds, cs, h => by
    simp only [collectTypes] at h; cases h; simp
  | (name, (.data, ta, xs)) :: r, ds, cs, h => by
    simp only [collectTypes] at h
    split at h
    · cases h
    · rename_i ctors h1
      split at h
      · cases h
      · rename_i ds' cs' h2
        cases h
        obtain ⟨g1, g2⟩ := collectTypes_ok r ds' cs h2
        refine ⟨?_, ?_⟩
        · intro d' hd'
          rcases List.mem_cons.mp hd' with rfl | hd'
          · exact ⟨ta, xs, by simp, rfl, h1⟩
          · obtain ⟨ta', xs', hm, q1, q2⟩ := g1 d' hd'
            exact ⟨ta', xs', by simp [hm], q1, q2⟩
        · intro d' hd'
          obtain ⟨ta', xs', hm, q1, q2⟩ := g2 d' hd'
          exact ⟨ta', xs', by simp [hm], q1, q2⟩
  | (name, (.codata, ta, xs)) :: r, ds, cs, h => by
    simp only [collectTypes] at h
    split at h
    · cases h
    · rename_i dtors h1
      split at h
      · cases h
      · rename_i ds' cs' h2
        cases h
        obtain ⟨g1, g2⟩ := collectTypes_ok r ds cs' h2
        refine ⟨?_, ?_⟩
        · intro d' hd'
          obtain ⟨ta', xs', hm, q1, q2⟩ := g1 d' hd'
          exact ⟨ta', xs', by simp [hm], q1, q2⟩
        · intro d' hd'
          rcases List.mem_cons.mp hd' with rfl | hd'
          · exact ⟨ta, xs, by simp, rfl, h1⟩
          · obtain ⟨ta', xs', hm, q1, q2⟩ := g2 d' hd'
            exact ⟨ta', xs', by simp [hm], q1, q2⟩

theorem mem_insertBy {α : Type} (key : α → String) (x y : α) :
    ∀ (l : List α), y ∈ insertBy key x l ↔ y = x ∨ y ∈ l
  | [] => by simp [insertBy]
  | z :: r => by
    simp only [insertBy]
    split
    · simp
    · simp only [List.mem_cons, mem_insertBy key x y r]
      constructor
      · rintro (h | h | h)
        · exact .inr (.inl h)
        · exact .inl h
        · exact .inr (.inr h)
      · rintro (h | h | h)
        · exact .inr (.inl h)
        · exact .inl h
        · exact .inr (.inr h)

theorem mem_sortBy {α : Type} (key : α → String) (y : α) : ∀ (l : List α), y ∈ sortBy key l ↔ y ∈ l
  | [] => by simp [sortBy]
  | x :: r => by simp [sortBy, mem_insertBy, mem_sortBy key y r]

/-! ## the whole program -/

theorem checkProgramR_sound {p : Program} {p' : CheckedProgram} (hp : programNamesOk p = true)
    (h : checkProgramR p = .ok p') :
    WT p ∧ DefsErase p'.defs (defs p) ∧ InstancesOf printTyArgs p p' ∧ annotatedProgram p' = true := by
  simp only [checkProgramR] at h
  split at h
  · cases h
  · rename_i st0 hb
    simp only [buildSymbolTable] at hb
    split at hb
    · cases hb
    · rename_i st0' hbuild
      split at hb
      · cases hb
      · rename_i hparams
        cases hb
        have b : Built st0 p.decls := by
          simpa using buildDecls_ok p.decls [] {} st0 built_empty hbuild
        simp only [checkWithTable] at h
        split at h
        · cases h
        · rename_i fs hdecls
          split at h
          · cases h
          · rename_i fs' st1 hdefs
            split at h
            · cases h
            · rename_i ds cs hcollect
              cases h
              obtain ⟨ok, rfl⟩ := declsOk_of_checks b hparams hdecls
              obtain ⟨inv1, _, doks, ers, anns⟩ := checkDefs_sound ok hp (defs p) fs' st0 st1
                (fun f hf => hf) (built_inv b) hdefs
              obtain ⟨c1, c2⟩ := collectTypes_ok _ _ _ hcollect
              refine ⟨⟨ok, doks⟩, ers, ⟨?_, ?_⟩, ?_⟩
              · intro d' hd'
                simp only [mem_sortBy] at hd'
                obtain ⟨ta, xs, hm, q1, q2⟩ := c1 d' hd'
                obtain ⟨_, g2, g3⟩ := inv1.types _ _ _ _ hm
                rcases g3 with ⟨_, d, hd, hk, rfl, hlen, hcs⟩ | ⟨hpol, _⟩
                · have hnd := zip_keys_nodup ta.toList (ok.dataParams d hd).1
                  refine ⟨d, hd, ta, g2, hlen, hk, q1, ?_⟩
                  rw [collectCtors_ok d.ctors d'.ctors hcs q2]
                  apply List.map_congr_left
                  intro c _
                  rw [substCtx_eq_csubst _ hnd]
                  rfl
                · cases hpol
              · intro d' hd'
                simp only [mem_sortBy] at hd'
                obtain ⟨ta, xs, hm, q1, q2⟩ := c2 d' hd'
                obtain ⟨_, g2, g3⟩ := inv1.types _ _ _ _ hm
                rcases g3 with ⟨hpol, _⟩ | ⟨_, d, hd, hk, rfl, hlen, hcs⟩
                · cases hpol
                · have hnd := zip_keys_nodup ta.toList (ok.codataParams d hd).1
                  refine ⟨d, hd, ta, g2, hlen, hk, q1, ?_⟩
                  rw [collectDtors_ok d.dtors d'.dtors hcs q2]
                  apply List.map_congr_left
                  intro c _
                  simp only [substCtx_eq_csubst _ hnd, substTy_eq_tsubst _ hnd]
                  rfl
              · simp only [annotatedProgram, List.all_eq_true]
                exact anns

end Scc.Fun.Check
