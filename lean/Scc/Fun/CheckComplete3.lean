/-
  Scc.Fun.CheckComplete3 — completeness of the checker model, part 3: terms.
  `HasType p Γ t τ` (+ consistent table, identifier-like names, the instance of τ exists) implies that
  `checkTerm t st Γ τ` succeeds.
-/
import Scc.Fun.CheckComplete2

namespace Scc.Fun.Check
open Scc.Fun.Typing

/-! ## helpers -/

theorem lookupVarRev_complete : ∀ (l : List Binding) (x : String) (b : Binding),
    l.find? (fun b => b.var = x) = some b → b.chi = .prd → lookupVarRev l x = .ok b.ty
  | [], _, _, h, _ => by simp at h
  | c :: r, x, b, h, hb => by
    simp only [List.find?, lookupVarRev] at h ⊢
    by_cases hx : c.var = x
    · simp only [hx, decide_true] at h
      cases h
      have : (Chi.prd == Chi.cns) = false := by decide
      simp [hx, hb, this]
    · simp only [hx, decide_false] at h
      simp only [hx, if_false]
      exact lookupVarRev_complete r x b h hb

theorem lookupVar_complete {Γ : Ctx} {x : String} {b : Binding} (h : lookupCtx Γ x = some b)
    (hb : b.chi = .prd) : lookupVar Γ x = .ok b.ty :=
  lookupVarRev_complete _ _ _ h hb

theorem lookupCovarRev_complete : ∀ (l : List Binding) (x : String) (b : Binding),
    l.find? (fun b => b.var = x) = some b → b.chi = .cns → lookupCovarRev l x = .ok b.ty
  | [], _, _, h, _ => by simp at h
  | c :: r, x, b, h, hb => by
    simp only [List.find?, lookupCovarRev] at h ⊢
    by_cases hx : c.var = x
    · simp only [hx, decide_true] at h
      cases h
      have : (Chi.cns == Chi.prd) = false := by decide
      simp [hx, hb, this]
    · simp only [hx, decide_false] at h
      simp only [hx, if_false]
      exact lookupCovarRev_complete r x b h hb

theorem lookupCovar_complete {Γ : Ctx} {x : String} {b : Binding} (h : lookupCtx Γ x = some b)
    (hb : b.chi = .cns) : lookupCovar Γ x = .ok b.ty :=
  lookupCovarRev_complete _ _ _ h hb

theorem beq_some_cns_false {chi : Option Chi} (h : chi ≠ some .cns) : (chi == some Chi.cns) = false := by
  cases chi with
  | none => rfl
  | some c => cases c <;> first | rfl | exact absurd rfl h

theorem beq_some_prd_false {chi : Option Chi} (h : chi ≠ some .prd) : (chi == some Chi.prd) = false := by
  cases chi with
  | none => rfl
  | some c => cases c <;> first | rfl | exact absurd rfl h

theorem AList.get?_of_mem {β : Type} {m : AList β} {k : String} {v : β} (h : (k, v) ∈ m) :
    ∃ v', m.get? k = some v' := by
  induction m with
  | nil => cases h
  | cons e r ih =>
    obtain ⟨k0, v0⟩ := e
    simp only [AList.get?]
    by_cases hk : k0 = k
    · simp [hk]
    · simp only [hk, if_false]
      rcases List.mem_cons.mp h with h | h
      · cases h; exact absurd rfl hk
      · exact ih h

theorem clauses_ne_nil {cs : Clauses} (h : cs ≠ .nil) :
    ∃ pol x ns c b r, cs = .cons pol x ns c b r := by
  cases cs with
  | nil => exact absurd rfl h
  | cons pol x ns c b r => exact ⟨pol, x, ns, c, b, r, rfl⟩

theorem InstIn_i64 (st : SymbolTable) : InstIn st .i64 := trivial

/-- the data instance the expected type of a constructor denotes -/
theorem instIn_data {p : Program} (ok : DeclsOk p) {st : SymbolTable}
    (inv : Inv p st) {d : Data} (hd : d ∈ datas p) {targs : Tys}
    (hin : InstIn st (.decl d.name targs)) :
    (instName d.name targs, (Polarity.data, targs, d.ctors.map (·.name))) ∈ st.types ∧
    ∀ c ∈ d.ctors, st.ctors.get? (instName c.name targs) =
      some (substCtx (instMap d.typeParams targs) c.args) := by
  obtain ⟨pol, xs, hm⟩ := hin
  obtain ⟨_, _, g3⟩ := inv.types _ _ _ _ hm
  rcases g3 with ⟨rfl, d', hd', hk, rfl, _, hcs⟩ | ⟨rfl, d', hd', hk, _, _, _⟩
  · have := data_unique ok hd hd' (instName_left_inj hk)
    subst this
    exact ⟨hm, hcs⟩
  · exact absurd (instName_left_inj hk) (data_codata_disjoint ok hd hd')

theorem instIn_codata {p : Program} (ok : DeclsOk p)
    {st : SymbolTable} (inv : Inv p st) {d : Codata} (hd : d ∈ codatas p) {targs : Tys}
    (hin : InstIn st (.decl d.name targs)) :
    (instName d.name targs, (Polarity.codata, targs, d.dtors.map (·.name))) ∈ st.types ∧
    ∀ s ∈ d.dtors, st.dtors.get? (instName s.name targs) =
      some (substCtx (instMap d.typeParams targs) s.args, substTy (instMap d.typeParams targs) s.contTy) := by
  obtain ⟨pol, xs, hm⟩ := hin
  obtain ⟨_, _, g3⟩ := inv.types _ _ _ _ hm
  rcases g3 with ⟨rfl, d', hd', hk, _, _, _⟩ | ⟨rfl, d', hd', hk, rfl, _, hcs⟩
  · exact absurd (instName_left_inj hk).symm (data_codata_disjoint ok hd' hd)
  · have := codata_unique ok hd hd' (instName_left_inj hk)
    subst this
    exact ⟨hm, hcs⟩

theorem ex_pair {α β : Type} {x : R (α × β)} (h : ∃ r, x = .ok r) : ∃ a b, x = .ok (a, b) := by
  obtain ⟨⟨a, b⟩, h⟩ := h
  exact ⟨a, b, h⟩

theorem not_bne_of_eq {a b : Nat} (h : a = b) : ¬ (a != b) = true := by simp [h]

theorem substCtx_inst {params : List String} (args : Tys) (h : params.Nodup) (c : Ctx) :
    substCtx (instMap params args) c = csubst (instSubst params args) c :=
  substCtx_eq_csubst (params.zip args.toList) (zip_keys_nodup _ h) c

theorem substTy_inst {params : List String} (args : Tys) (h : params.Nodup) (t : Ty) :
    substTy (instMap params args) t = tsubst (instSubst params args) t :=
  substTy_eq_tsubst (params.zip args.toList) (zip_keys_nodup _ h) t

/-! ## the main induction -/

mutual
  theorem checkTerm_complete {p : Program} (ok : DeclsOk p) (hp : programNamesOk p = true) :
      ∀ (t : Term), termNamesOk t = true → CompleteK p t (checkTerm t)
    | .var x ty chi, hn => by
      intro Γ τ h st inv hΓ hτ hin
      cases h with
      | var b hl hchi hty wf hne hann =>
        subst hty
        have hlv := lookupVar_complete hl hchi
        obtain ⟨st1, h1⟩ := checkAnnot_complete ok hp inv hτ wf hann
        obtain ⟨inv1, _, _⟩ := checkAnnot_sound ok hp inv
          (by intro t ht; subst ht; simpa [termNamesOk] using hn) h1
        obtain ⟨st2, h2⟩ := checkEquality_complete ok hp inv1 hτ wf
        apply ex_pair
        simp only [checkTerm, beq_some_cns_false hne, Bool.false_eq_true, if_false, hlv, h1, h2]
        exact ⟨_, rfl⟩
    | .lit n, _ => by
      intro Γ τ h st inv hΓ hτ hin
      cases h with
      | lit =>
        obtain ⟨st1, h1⟩ := checkEquality_complete ok hp inv hτ .i64
        apply ex_pair
        simp only [checkTerm, h1]
        exact ⟨_, rfl⟩
    | .op a o b, hn => by
      intro Γ τ h st inv hΓ hτ hin
      simp only [termNamesOk, Bool.and_eq_true] at hn
      cases h with
      | op ha hb =>
        obtain ⟨st1, h1⟩ := checkEquality_complete ok hp inv hτ .i64
        obtain ⟨inv1, _, _⟩ := checkEquality_sound ok hp inv hτ h1
        obtain ⟨a', st2, h2⟩ := checkTerm_complete ok hp a hn.1 Γ .i64 ha st1 inv1 hΓ hτ trivial
        obtain ⟨inv2, _, _⟩ := checkTerm_sound ok hp a hn.1 st1 Γ .i64 a' st2 inv1 hΓ hτ h2
        obtain ⟨b', st3, h3⟩ := checkTerm_complete ok hp b hn.2 Γ .i64 hb st2 inv2 hΓ hτ trivial
        apply ex_pair
        simp only [checkTerm, h1, h2, h3]
        exact ⟨_, rfl⟩
    | .ifc s a b t e an, hn => by
      intro Γ τ h st inv hΓ hτ hin
      simp only [termNamesOk, Bool.and_eq_true] at hn
      cases h with
      | ifc ha hb ht he =>
        obtain ⟨a', st1, h1⟩ :=
          checkTerm_complete ok hp a hn.1.1.1 Γ .i64 ha st inv hΓ tyNamesOk_i64 trivial
        obtain ⟨inv1, ext1, _⟩ :=
          checkTerm_sound ok hp a hn.1.1.1 st Γ .i64 a' st1 inv hΓ tyNamesOk_i64 h1
        obtain ⟨b', st2, h2⟩ :=
          checkTerm_complete ok hp b hn.1.1.2 Γ .i64 hb st1 inv1 hΓ tyNamesOk_i64 trivial
        obtain ⟨inv2, ext2, _⟩ :=
          checkTerm_sound ok hp b hn.1.1.2 st1 Γ .i64 b' st2 inv1 hΓ tyNamesOk_i64 h2
        obtain ⟨t', st3, h3⟩ := checkTerm_complete ok hp t hn.1.2 Γ τ ht st2 inv2 hΓ hτ
          (hin.ext (ext1.trans ext2))
        obtain ⟨inv3, ext3, _⟩ := checkTerm_sound ok hp t hn.1.2 st2 Γ τ t' st3 inv2 hΓ hτ h3
        obtain ⟨e', st4, h4⟩ := checkTerm_complete ok hp e hn.2 Γ τ he st3 inv3 hΓ hτ
          (hin.ext ((ext1.trans ext2).trans ext3))
        apply ex_pair
        simp only [checkTerm, h1, h2, h3, h4]
        exact ⟨_, rfl⟩
    | .ifz s a t e an, hn => by
      intro Γ τ h st inv hΓ hτ hin
      simp only [termNamesOk, Bool.and_eq_true] at hn
      cases h with
      | ifz ha ht he =>
        obtain ⟨a', st1, h1⟩ :=
          checkTerm_complete ok hp a hn.1.1 Γ .i64 ha st inv hΓ tyNamesOk_i64 trivial
        obtain ⟨inv1, ext1, _⟩ :=
          checkTerm_sound ok hp a hn.1.1 st Γ .i64 a' st1 inv hΓ tyNamesOk_i64 h1
        obtain ⟨t', st3, h3⟩ := checkTerm_complete ok hp t hn.1.2 Γ τ ht st1 inv1 hΓ hτ
          (hin.ext ext1)
        obtain ⟨inv3, ext3, _⟩ := checkTerm_sound ok hp t hn.1.2 st1 Γ τ t' st3 inv1 hΓ hτ h3
        obtain ⟨e', st4, h4⟩ := checkTerm_complete ok hp e hn.2 Γ τ he st3 inv3 hΓ hτ
          (hin.ext (ext1.trans ext3))
        apply ex_pair
        simp only [checkTerm, h1, h3, h4]
        exact ⟨_, rfl⟩
    | .print nl a n an, hn => by
      intro Γ τ h st inv hΓ hτ hin
      simp only [termNamesOk, Bool.and_eq_true] at hn
      cases h with
      | print ha hnx =>
        obtain ⟨a', st1, h1⟩ :=
          checkTerm_complete ok hp a hn.1 Γ .i64 ha st inv hΓ tyNamesOk_i64 trivial
        obtain ⟨inv1, ext1, _⟩ :=
          checkTerm_sound ok hp a hn.1 st Γ .i64 a' st1 inv hΓ tyNamesOk_i64 h1
        obtain ⟨n', st2, h2⟩ := checkTerm_complete ok hp n hn.2 Γ τ hnx st1 inv1 hΓ hτ
          (hin.ext ext1)
        apply ex_pair
        simp only [checkTerm, h1, h2]
        exact ⟨_, rfl⟩
    | .letIn x σ bound body an, hn => by
      intro Γ τ h st inv hΓ hτ hin
      simp only [termNamesOk, Bool.and_eq_true] at hn
      cases h with
      | letIn wfσ hb hi =>
        obtain ⟨st1, h1⟩ := checkTy_complete ok hp σ st inv hn.1.1 wfσ
        obtain ⟨inv1, ext1, _, in1⟩ := checkTy_sound ok hp σ st st1 inv hn.1.1 h1
        obtain ⟨b', st2, h2⟩ :=
          checkTerm_complete ok hp bound hn.1.2 Γ σ hb st1 inv1 hΓ hn.1.1 in1
        obtain ⟨inv2, ext2, _⟩ :=
          checkTerm_sound ok hp bound hn.1.2 st1 Γ σ b' st2 inv1 hΓ hn.1.1 h2
        obtain ⟨i', st3, h3⟩ := checkTerm_complete ok hp body hn.2 _ τ hi st2 inv2
          (ctxNamesOk_append hΓ (ctxNamesOk_single hn.1.1)) hτ (hin.ext (ext1.trans ext2))
        apply ex_pair
        simp only [checkTerm, h1, h2, h3]
        exact ⟨_, rfl⟩
    | .call f args an, hn => by
      intro Γ τ h st inv hΓ hτ hin
      simp only [termNamesOk] at hn
      cases h with
      | call d hd wf ha =>
        obtain ⟨st1, h1⟩ := checkEquality_complete ok hp inv hτ wf
        obtain ⟨inv1, _, _⟩ := checkEquality_sound ok hp inv hτ h1
        obtain ⟨args', st2, h2⟩ := checkArgs_complete ok hp args d.ctx Γ ha st1 hn inv1 hΓ
          (def_namesOk hp hd).1
        have hlen : ¬ (d.ctx.length != termsLength args) = true :=
          not_bne_of_eq (by simp [termsLength, argsTyped_length _ _ _ ha])
        apply ex_pair
        simp only [checkTerm, inv.defsC d hd, h1, hlen, h2]
        exact ⟨_, rfl⟩
    | .ctor id args an, hn => by
      intro Γ τ h st inv hΓ hτ hin
      simp only [termNamesOk, Bool.and_eq_true] at hn
      cases h with
      | ctor d c hd hc wf ha =>
        rename_i targs
        simp only [tyNamesOk, Bool.and_eq_true] at hτ
        obtain ⟨hm, hcs⟩ := instIn_data ok inv hd hin
        have hget := hcs c hc
        obtain ⟨r, hlk⟩ := lookupTyForXtor_some (pol := .data) _ _ _ _ c.name hm
          (List.mem_map.mpr ⟨c, hc, rfl⟩)
        -- the lookup returns the expected type
        have hr : r.1 = .decl d.name targs := by
          obtain ⟨key, ta, xs', x, hm', hx, hxe, hr⟩ := lookupTyForXtor_ok _ _ _ hlk
          obtain ⟨g1, _, g3⟩ := inv.types _ _ _ _ hm'
          rcases g3 with ⟨_, d', hd', rfl, rfl, _, _⟩ | ⟨hpol, _⟩
          · obtain ⟨c', hc', rfl⟩ := List.mem_map.mp hx
            obtain ⟨hn1, hn2⟩ := instName_inj ((data_namesOk hp hd').2 c' hc').1 hn.1 g1 hτ.2 hxe
            obtain ⟨rfl, _⟩ := ctor_unique ok hd' hc' hd hc hn1
            subst hn2
            rw [hr, removeAll_instName _ (data_namesOk hp hd').1]
          · cases hpol
        have hnd := (ok.dataParams d hd).1
        rw [← substCtx_inst targs hnd] at ha
        have hgoodτ : tyNamesOk (.decl d.name targs) = true := by
          simp [tyNamesOk, hτ.1, hτ.2]
        obtain ⟨args', st1, h1⟩ := checkArgs_complete ok hp args _ Γ ha st hn.2 inv hΓ
          (inv.ctorsOk _ _ hget)
        obtain ⟨inv1, _, _, _⟩ := checkArgs_sound ok hp args _ st Γ args' st1 hn.2 inv hΓ
          (inv.ctorsOk _ _ hget) (by simp [termsLength, argsTyped_length _ _ _ ha]) h1
        obtain ⟨st2, h2⟩ := checkEquality_complete ok hp inv1 hgoodτ wf
        have hlen : ¬ ((substCtx (instMap d.typeParams targs) c.args).length != termsLength args)
            = true := not_bne_of_eq (by simp [termsLength, argsTyped_length _ _ _ ha])
        obtain ⟨ty, xs⟩ := r
        simp only at hr
        subst hr
        apply ex_pair
        simp only [checkTerm, hget, hlk, hlen, h1, h2]
        exact ⟨_, rfl⟩
    | .dtor scrut id tyArgs args an, hn => by
      intro Γ τ h st inv hΓ hτ hin
      simp only [termNamesOk, Bool.and_eq_true] at hn
      cases h with
      | dtor d s hd hs wfty hscrut ha wfτ =>
        obtain ⟨r, st1, h1⟩ := resolveXtorTy_codata_complete ok hp inv hd hs hn.1.1.2 wfty
        obtain ⟨ty, xs⟩ := r
        obtain ⟨inv1, ext1, d', hd', s', hs', hn', rfl, rfl, _, hentry⟩ :=
          resolveXtorTy_codata_sound ok hp inv hn.1.1.1 hn.1.1.2 h1
        obtain ⟨rfl, rfl⟩ := dtor_unique ok hd' hs' hd hs hn'
        have hgood : tyNamesOk (.decl d'.name tyArgs) = true := by
          simp [tyNamesOk, (codata_namesOk hp hd).1, hn.1.1.2]
        obtain ⟨scrut', st2, h2⟩ := checkTerm_complete ok hp scrut hn.1.2 Γ _ hscrut st1 inv1 hΓ
          hgood ⟨_, _, hentry⟩
        obtain ⟨inv2, ext2, _⟩ :=
          checkTerm_sound ok hp scrut hn.1.2 st1 Γ _ scrut' st2 inv1 hΓ hgood h2
        obtain ⟨_, hcs⟩ := instIn_codata ok inv2 hd ⟨_, _, ext2.types _ hentry⟩
        have hget := hcs s' hs
        have hnd := (ok.codataParams d' hd).1
        rw [← substCtx_inst tyArgs hnd] at ha
        rw [← substTy_inst tyArgs hnd] at wfτ hτ ⊢
        obtain ⟨args', st3, h3⟩ := checkArgs_complete ok hp args _ Γ ha st2 hn.2 inv2 hΓ
          (inv2.dtorsOk _ _ _ hget).1
        obtain ⟨inv3, _, _, _⟩ := checkArgs_sound ok hp args _ st2 Γ args' st3 hn.2 inv2 hΓ
          (inv2.dtorsOk _ _ _ hget).1 (by simp [termsLength, argsTyped_length _ _ _ ha]) h3
        obtain ⟨st4, h4⟩ := checkEquality_complete ok hp inv3 hτ wfτ
        have hlen : ¬ ((substCtx (instMap d'.typeParams tyArgs) s'.args).length != termsLength args)
            = true := not_bne_of_eq (by simp [termsLength, argsTyped_length _ _ _ ha])
        apply ex_pair
        simp only [checkTerm, h1, h2, hget, hlen, h3, h4]
        exact ⟨_, rfl⟩
    | .case scrut tyArgs cs an, hn => by
      intro Γ τ h st inv hΓ hτ hin
      simp only [termNamesOk, Bool.and_eq_true] at hn
      have hcompl := clauseCheckers_complete ok hp cs hn.2
      obtain ⟨hsrc, hsound⟩ := clauseCheckers_sound ok hp cs hn.2
      cases h with
      | case d hd hne hperm wfty hscrut hct =>
        obtain ⟨pol0, x0, ns0, c0, b0, r0, hcs⟩ := clauses_ne_nil hne
        have hx0 : x0 ∈ d.ctors.map (·.name) := by
          apply hperm.subset
          simp [clauseXtors, hcs, Clauses.toList]
        obtain ⟨k0, hk0, hk0n⟩ := List.mem_map.mp hx0
        obtain ⟨r, st1, h1⟩ := resolveXtorTy_data_complete ok hp inv hd hk0 hn.1.1 wfty
        rw [hk0n] at h1
        obtain ⟨ty, xs⟩ := r
        have hx0ok : nameOk x0 = true := by
          rw [← hk0n]; exact ((data_namesOk hp hd).2 k0 hk0).1
        obtain ⟨inv1, ext1, d', hd', s', hs', hn', rfl, rfl, _, hentry⟩ :=
          resolveXtorTy_data_sound ok hp inv hx0ok hn.1.1 h1
        obtain ⟨rfl, _⟩ := ctor_unique ok hd' hs' hd hk0 (hn'.trans hk0n.symm)
        have hgood : tyNamesOk (.decl d'.name tyArgs) = true := by
          simp [tyNamesOk, (data_namesOk hp hd).1, hn.1.1]
        obtain ⟨scrut', st2, h2⟩ := checkTerm_complete ok hp scrut hn.1.2 Γ _ hscrut st1 inv1 hΓ
          hgood ⟨_, _, hentry⟩
        obtain ⟨inv2, ext2, _⟩ :=
          checkTerm_sound ok hp scrut hn.1.2 st1 Γ _ scrut' st2 inv1 hΓ hgood h2
        have hnd := (ok.dataParams d' hd).1
        have hpermk : ((clauseCheckers cs).map (fun k => k.src.xtor)).Perm
            (d'.ctors.map (·.name)) := by
          have : (clauseCheckers cs).map (fun k => k.src.xtor) = clauseXtors cs := by
            rw [clauseXtors, ← hsrc, List.map_map]; rfl
          rw [this]; exact hperm
        obtain ⟨out, st3, h3⟩ := clauseLoop_complete (missing := "T-015") (checkRet := false)
          (sigOf := fun s n => (s.ctors.get? n).map fun sig => (sig, τ)) (tyArgs := tyArgs)
          ok hp hΓ st2 _ (clauseCheckers cs) [] st2 hpermk hsound hcompl inv2 (Ext.refl _) (by
            intro k hk st1' inv1' ext1'
            have hkc : k.src ∈ cs.toList := by
              rw [← hsrc]; exact List.mem_map.mpr ⟨k, hk, rfl⟩
            obtain ⟨sig, bodyTy, hm, hnodup, hlen, hty⟩ := clausesTyped_mem _ _ _ _ hct hkc
            obtain ⟨c, hc, he⟩ := List.mem_map.mp hm
            simp only [Prod.mk.injEq] at he
            obtain ⟨hcn, hsig, hbt⟩ := he
            obtain ⟨_, hcs'⟩ := instIn_data ok inv1' hd
              ⟨_, _, ext1'.types _ (ext2.types _ hentry)⟩
            have hg := hcs' c hc
            rw [hcn] at hg
            refine ⟨sig, bodyTy, ?_, ?_, ?_, ?_, hnodup, hlen, hty⟩
            · simp only [hg, Option.map_some, ← hsig, ← hbt, substCtx_inst tyArgs hnd]
            · rw [← hsig, ← substCtx_inst tyArgs hnd]; exact inv1'.ctorsOk _ _ hg
            · rw [← hbt]; exact hτ
            · simp only [Bool.false_eq_true, if_false]
              rw [← hbt]
              exact hin.ext (((ext1.trans ext2)).trans ext1'))
        apply ex_pair
        simp only [checkTerm]
        rw [hcs] at h3 ⊢
        simp only [h1, h2, h3, List.isEmpty_nil, Bool.not_true, Bool.false_eq_true, if_false]
        exact ⟨_, rfl⟩
    | .new cs an, hn => by
      intro Γ τ h st inv hΓ hτ hin
      simp only [termNamesOk] at hn
      have hcompl := clauseCheckers_complete ok hp cs hn
      obtain ⟨hsrc, hsound⟩ := clauseCheckers_sound ok hp cs hn
      cases h with
      | new d hd hperm wfty hrets hct =>
        rename_i targs
        simp only [tyNamesOk, Bool.and_eq_true] at hτ
        obtain ⟨hm, _⟩ := instIn_codata ok inv hd hin
        obtain ⟨v, hget⟩ := AList.get?_of_mem hm
        have hv : v = (Polarity.codata, targs, d.dtors.map (·.name)) := by
          obtain ⟨pol', ta', xs'⟩ := v
          obtain ⟨g1, _, g3⟩ := inv.types _ _ _ _ (AList.mem_of_get? hget)
          rcases g3 with ⟨rfl, d', hd', hk, _, _, _⟩ | ⟨rfl, d', hd', hk, rfl, _, _⟩
          · obtain ⟨hn1, _⟩ := instName_inj hτ.1 (data_namesOk hp hd').1 hτ.2 g1 hk
            exact absurd hn1.symm (data_codata_disjoint ok hd' hd)
          · obtain ⟨hn1, hn2⟩ := instName_inj hτ.1 (codata_namesOk hp hd').1 hτ.2 g1 hk
            cases codata_unique ok hd hd' hn1
            subst hn2
            rfl
        subst hv
        have hnd := (ok.codataParams d hd).1
        have hpermk : ((clauseCheckers cs).map (fun k => k.src.xtor)).Perm
            (d.dtors.map (·.name)) := by
          have : (clauseCheckers cs).map (fun k => k.src.xtor) = clauseXtors cs := by
            rw [clauseXtors, ← hsrc, List.map_map]; rfl
          rw [this]; exact hperm
        obtain ⟨out, st3, h3⟩ := clauseLoop_complete (missing := "T-010") (checkRet := true)
          (sigOf := fun s n => s.dtors.get? n) (tyArgs := targs)
          ok hp hΓ st _ (clauseCheckers cs) [] st hpermk hsound hcompl inv (Ext.refl _) (by
            intro k hk st1' inv1' ext1'
            have hkc : k.src ∈ cs.toList := by
              rw [← hsrc]; exact List.mem_map.mpr ⟨k, hk, rfl⟩
            obtain ⟨sig, bodyTy, hm', hnodup, hlen, hty⟩ := clausesTyped_mem _ _ _ _ hct hkc
            obtain ⟨c, hc, he⟩ := List.mem_map.mp hm'
            simp only [Prod.mk.injEq] at he
            obtain ⟨hcn, hsig, hbt⟩ := he
            obtain ⟨_, hcs'⟩ := instIn_codata ok inv1' hd ⟨_, _, ext1'.types _ hm⟩
            have hg := hcs' c hc
            rw [hcn] at hg
            have hok := inv1'.dtorsOk _ _ _ hg
            refine ⟨sig, bodyTy, ?_, ?_, ?_, ?_, hnodup, hlen, hty⟩
            · simp only [hg, ← hsig, ← hbt, substCtx_inst targs hnd, substTy_inst targs hnd]
            · rw [← hsig, ← substCtx_inst targs hnd]; exact hok.1
            · rw [← hbt, ← substTy_inst targs hnd]; exact hok.2
            · simp only [if_true]
              rw [← hbt]
              exact hrets c hc)
        apply ex_pair
        simp only [checkTerm, hget, h3, List.isEmpty_nil, Bool.not_true, Bool.false_eq_true, if_false]
        exact ⟨_, rfl⟩
    | .label a body an, hn => by
      intro Γ τ h st inv hΓ hτ hin
      simp only [termNamesOk] at hn
      cases h with
      | label hb =>
        obtain ⟨b', st1, h1⟩ := checkTerm_complete ok hp body hn _ τ hb st inv
          (ctxNamesOk_append hΓ (ctxNamesOk_single hτ)) hτ hin
        apply ex_pair
        simp only [checkTerm, h1]
        exact ⟨_, rfl⟩
    | .goto a arg an, hn => by
      intro Γ τ h st inv hΓ hτ hin
      simp only [termNamesOk] at hn
      cases h with
      | goto b hl hc wfb harg =>
        have hlc := lookupCovar_complete hl hc
        have hbgood : tyNamesOk b.ty = true := ctxNamesOk_mem hΓ (lookupCtx_some hl).1
        obtain ⟨st0, h0⟩ := checkTy_complete ok hp b.ty st inv hbgood wfb
        obtain ⟨inv0, _, _, in0⟩ := checkTy_sound ok hp b.ty st st0 inv hbgood h0
        obtain ⟨arg', st1, h1⟩ := checkTerm_complete ok hp arg hn Γ b.ty harg st0 inv0 hΓ hbgood in0
        apply ex_pair
        simp only [checkTerm, hlc, h0, h1]
        exact ⟨_, rfl⟩
    | .exit arg an, hn => by
      intro Γ τ h st inv hΓ hτ hin
      simp only [termNamesOk] at hn
      cases h with
      | exit ha =>
        obtain ⟨arg', st1, h1⟩ :=
          checkTerm_complete ok hp arg hn Γ .i64 ha st inv hΓ tyNamesOk_i64 trivial
        apply ex_pair
        simp only [checkTerm, h1]
        exact ⟨_, rfl⟩
    | .paren inner, hn => by
      intro Γ τ h st inv hΓ hτ hin
      simp only [termNamesOk] at hn
      cases h with
      | paren ha =>
        obtain ⟨i', st1, h1⟩ := checkTerm_complete ok hp inner hn Γ τ ha st inv hΓ hτ hin
        apply ex_pair
        simp only [checkTerm, h1]
        exact ⟨_, rfl⟩
  theorem checkArgs_complete {p : Program} (ok : DeclsOk p) (hp : programNamesOk p = true) :
      ∀ (ts : Terms) (bs : Ctx) (Γ : Ctx), ArgsTyped p Γ ts bs → ∀ (st : SymbolTable),
      argsNamesOk ts = true → Inv p st → ctxNamesOk Γ = true → ctxNamesOk bs = true →
      ∃ ts' st', checkArgs ts bs st Γ = .ok (ts', st')
    | .nil, bs, Γ, h, st, _, _, _, _ => by
      cases h
      exact ⟨.nil, st, by simp [checkArgs]⟩
    | .cons t r, bs, Γ, h, st, hn, inv, hΓ, hbs => by
      simp only [argsNamesOk, Bool.and_eq_true] at hn
      cases h with
      | prd hchi wf ht hr =>
        rename_i b bs'
        have hbty : tyNamesOk b.ty = true := ctxNamesOk_mem hbs (by simp)
        have hbs' : ctxNamesOk bs' = true := by
          simp only [ctxNamesOk, List.all_cons, Bool.and_eq_true] at hbs; exact hbs.2
        obtain ⟨st1, h1⟩ := checkTy_complete ok hp b.ty st inv hbty wf
        obtain ⟨inv1, _, _, in1⟩ := checkTy_sound ok hp b.ty st st1 inv hbty h1
        obtain ⟨t', st2, h2⟩ := checkTerm_complete ok hp t hn.1 Γ b.ty ht st1 inv1 hΓ hbty in1
        obtain ⟨inv2, _, _⟩ := checkTerm_sound ok hp t hn.1 st1 Γ b.ty t' st2 inv1 hΓ hbty h2
        obtain ⟨r', st3, h3⟩ := checkArgs_complete ok hp r bs' Γ hr st2 hn.2 inv2 hΓ hbs'
        have hc : (Chi.prd == Chi.cns) = false := by decide
        apply ex_pair
        simp only [checkArgs, hchi, hc, Bool.false_eq_true, if_false, h1, h2, h3]
        exact ⟨_, rfl⟩
      | cns b' hchi hl hc' hty wf hne hann hr =>
        rename_i x ty chi b bs'
        have hbty : tyNamesOk b.ty = true := ctxNamesOk_mem hbs (by simp)
        have hbs' : ctxNamesOk bs' = true := by
          simp only [ctxNamesOk, List.all_cons, Bool.and_eq_true] at hbs; exact hbs.2
        have hlc := lookupCovar_complete hl hc'
        rw [hty] at hlc
        obtain ⟨st1, h1⟩ := checkAnnot_complete ok hp inv hbty wf hann
        obtain ⟨inv1, _, _⟩ := checkAnnot_sound ok hp inv
          (by intro t' ht'; subst ht'; simpa [termNamesOk] using hn.1) h1
        obtain ⟨st2, h2⟩ := checkEquality_complete ok hp inv1 hbty wf
        obtain ⟨inv2, _, _⟩ := checkEquality_sound ok hp inv1 hbty h2
        obtain ⟨r', st3, h3⟩ := checkArgs_complete ok hp r bs' Γ hr st2 hn.2 inv2 hΓ hbs'
        have hc : (Chi.cns == Chi.cns) = true := by decide
        apply ex_pair
        simp only [checkArgs, hchi, hc, if_true, checkCovarArg, beq_some_prd_false hne,
          Bool.false_eq_true, if_false, hlc, h1, h2, h3]
        exact ⟨_, rfl⟩
  theorem clauseCheckers_complete {p : Program} (ok : DeclsOk p) (hp : programNamesOk p = true) :
      ∀ (cs : Clauses), clausesNamesOk cs = true →
      ∀ k ∈ clauseCheckers cs, CompleteK p k.src.body k.body
    | .nil, _ => by simp [clauseCheckers]
    | .cons pol x ns c b r, hn => by
      simp only [clausesNamesOk, Bool.and_eq_true] at hn
      intro k hk
      simp only [clauseCheckers, List.mem_cons] at hk
      rcases hk with rfl | hk
      · exact checkTerm_complete ok hp b hn.1.2
      · exact clauseCheckers_complete ok hp r hn.2 k hk
end

end Scc.Fun.Check
