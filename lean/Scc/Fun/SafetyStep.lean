/-
  Scc.Fun.SafetyStep — type safety of the Fun abstract machine, one step: from a well-typed state
  (`ST`) of a checked program (`AWT`) the machine either makes a transition to a well-typed state, or
  stops with a result, or stops with one of the two arithmetic faults (`step_safe`).  Preservation
  and progress are the two halves of this statement.
-/
import Scc.Fun.SafetyLemmas

namespace Scc.Fun.Safety
open Scc.Fun Scc.Fun.Typing Scc.Fun.Check

/-- the outcome of a step from a well-typed state -/
inductive SafeStep (p : Program) : StepResult → Prop
  | next {s' o} : ST p s' → SafeStep p (.next s' o)
  | done {a} : SafeStep p (.done a)
  | divByZero : SafeStep p (.stuck .divByZero)
  | overflow : SafeStep p (.stuck .overflow)

theorem arith_error {o : BinOp} {a b : Word} {w : Why} (h : arith o a b = .error w) :
    w = .divByZero ∨ w = .overflow := by
  unfold arith at h
  cases o <;> simp only at h
  · split at h
    · cases h; exact .inl rfl
    · split at h
      · cases h; exact .inr rfl
      · cases h
  · cases h
  · split at h
    · cases h; exact .inl rfl
    · split at h
      · cases h; exact .inr rfl
      · cases h
  · cases h
  · cases h

/-- a codata-typed term in binding / argument position gives a typed value -/
theorem suspend_typed {p : Program} {ρ : Env} {Γ : Ctx} {τ : Ty} {d : Codata} {targs : Tys}
    (he : EnvT p ρ Γ) (hd : d ∈ codatas p) (hτ : τ = .decl d.name targs) :
    ∀ (t : Term), ATyped p Γ t τ → ∃ v, suspend t ρ = .ok v ∧ VT p v τ
  | .paren t, ht => by
    cases ht with
    | paren h =>
      obtain ⟨v, h1, h2⟩ := suspend_typed he hd hτ t h
      exact ⟨v, by simpa [suspend] using h1, h2⟩
  | .var x ty chi, ht => by
    cases ht with
    | var b hl hc hty _ =>
      obtain ⟨v, hv, hb⟩ := he.lookup _ _ hl
      exact ⟨v, by simp [suspend, hv], hty ▸ hb.prd_inv hc⟩
  | .new cs an, ht => ⟨_, rfl, .obj Γ an he ht⟩
  | .lit n, ht => ⟨_, rfl, .thunk Γ d hd hτ he ht⟩
  | .op a o b, ht => ⟨_, rfl, .thunk Γ d hd hτ he ht⟩
  | .ifc s a b t e an, ht => ⟨_, rfl, .thunk Γ d hd hτ he ht⟩
  | .ifz s a t e an, ht => ⟨_, rfl, .thunk Γ d hd hτ he ht⟩
  | .print nl a n an, ht => ⟨_, rfl, .thunk Γ d hd hτ he ht⟩
  | .letIn x σ b i an, ht => ⟨_, rfl, .thunk Γ d hd hτ he ht⟩
  | .call f as an, ht => ⟨_, rfl, .thunk Γ d hd hτ he ht⟩
  | .ctor k as an, ht => ⟨_, rfl, .thunk Γ d hd hτ he ht⟩
  | .dtor s k ta as an, ht => ⟨_, rfl, .thunk Γ d hd hτ he ht⟩
  | .case s ta cs an, ht => ⟨_, rfl, .thunk Γ d hd hτ he ht⟩
  | .label a b an, ht => ⟨_, rfl, .thunk Γ d hd hτ he ht⟩
  | .goto a b an, ht => ⟨_, rfl, .thunk Γ d hd hτ he ht⟩
  | .exit a an, ht => ⟨_, rfl, .thunk Γ d hd hτ he ht⟩

/-- `argsStep` on an argument that is not annotated as a covariable -/
theorem argsStep_cons_prd (p' : CheckedProgram) (h : ArgHead) (done : List Value) (t : Term)
    (rest : Terms) (ρ : Env) (k : Stack) (hnc : ∀ x ty, t ≠ .var x ty (some .cns)) :
    argsStep p' h done (.cons t rest) ρ k =
      (match t.getType with
        | none => .stuck .untyped
        | some ty =>
          if isCodataTy p' ty then
            match suspend t ρ with
            | .ok v => .next (.args h (done ++ [v]) rest ρ k) none
            | .error w => .stuck w
          else .next (.eval t ρ (.arg h done rest ρ :: k)) none) := by
  cases t with
  | var x ty chi =>
    cases chi with
    | none => rfl
    | some c =>
      cases c with
      | prd => rfl
      | cns => exact absurd rfl (hnc x ty)
  | _ => rfl

theorem ATyped.not_cov {p : Program} {Γ : Ctx} {t : Term} {τ : Ty} (h : ATyped p Γ t τ) :
    ∀ x ty, t ≠ .var x ty (some .cns) := by
  intro x ty e
  subst e
  cases h

/-! ## evaluation steps -/

theorem evalStep_safe {p : Program} {p' : CheckedProgram} (W : AWT p p') {ρ : Env} {k : Stack}
    {Γ : Ctx} {τ : Ty} (he : EnvT p ρ Γ) (hk : KT p k τ) :
    ∀ (t : Term), ATyped p Γ t τ → SafeStep p (evalStep p' t ρ k)
  | .var x ty chi, ht => by
    cases ht with
    | var b hl hc hty _ =>
      obtain ⟨v, hv, hb⟩ := he.lookup _ _ hl
      simp only [evalStep, hv]
      exact .next (.ret τ (hty ▸ hb.prd_inv hc) hk)
  | .lit n, ht => by
    cases ht
    exact .next (.ret .i64 .int hk)
  | .op a o b, ht => by
    cases ht with
    | op ha hb => exact .next (.eval Γ .i64 he ha (.cons (.opL Γ he hb) hk))
  | .ifc s a b t e an, ht => by
    cases ht with
    | ifc ha hb h1 h2 => exact .next (.eval Γ .i64 he ha (.cons (.ifL Γ he hb h1 h2) hk))
  | .ifz s a t e an, ht => by
    cases ht with
    | ifz ha h1 h2 => exact .next (.eval Γ .i64 he ha (.cons (.ifZ Γ he h1 h2) hk))
  | .print nl a n an, ht => by
    cases ht with
    | print ha hn => exact .next (.eval Γ .i64 he ha (.cons (.print Γ he hn) hk))
  | .letIn x σ bound body an, ht => by
    cases ht with
    | letIn hw hb hi =>
      simp only [evalStep]
      by_cases hcd : isCodataTy p' σ = true
      · obtain ⟨d, hd, targs, hσ⟩ := W.codata_sound σ hw hcd
        obtain ⟨v, hv, hvt⟩ := suspend_typed he hd hσ bound hb
        simp only [hcd, if_true, hv]
        exact .next (.eval _ τ (.cons ⟨x, .prd, σ⟩ he (.prd rfl hvt)) hi hk)
      · simp only [hcd, Bool.false_eq_true, if_false]
        exact .next (.eval Γ σ he hb (.cons (.letF Γ he hi) hk))
  | .call f as an, ht => by
    cases ht with
    | call d hd _ has =>
      exact .next (.args Γ [] d.ctx d.retTy (.call d hd rfl rfl rfl) .nil he has hk)
  | .ctor c as an, ht => by
    cases ht with
    | ctor d c hd hc hw has =>
      exact .next (.args Γ [] _ _ (.ctor d c hd hc hw rfl rfl rfl) .nil he has hk)
  | .dtor s nm ta as an, ht => by
    cases ht with
    | dtor d sg hd hs _ hsc has _ =>
      exact .next (.eval Γ _ he hsc (.cons (.dtorScrut Γ d sg hd hs rfl rfl rfl he has) hk))
  | .case s ta cs an, ht => by
    cases ht with
    | case d hd _ hp _ hsc hcl =>
      exact .next (.eval Γ _ he hsc (.cons (.caseF Γ d hd rfl hp he hcl) hk))
  | .new cs an, ht => .next (.ret τ (.obj Γ an he ht) hk)
  | .label a body an, ht => by
    cases ht with
    | label hb => exact .next (.eval _ τ (.cons ⟨a, .cns, τ⟩ he (.cns rfl hk)) hb hk)
  | .goto a u an, ht => by
    cases ht with
    | goto b hl hc _ ha =>
      obtain ⟨v, hv, hb⟩ := he.lookup _ _ hl
      obtain ⟨k', rfl, hk'⟩ := hb.cns_inv hc
      simp only [evalStep, hv]
      exact .next (.eval Γ b.ty he ha hk')
  | .exit u an, ht => by
    cases ht with
    | exit ha => exact .next (.eval Γ .i64 he ha .exit)
  | .paren u, ht => by
    cases ht with
    | paren h => exact .next (.eval Γ τ he h hk)

/-! ## returning a value to a frame -/

/-- select the clause of a typed clause list for an xtor of the type and bind its parameters -/
theorem clause_select {p : Program} {Γ : Ctx} {ρ : Env} {cs : Clauses} {x : String}
    {sigs : List (String × Ctx × Ty)} {xs : List String} {vs : List Value} {sig : Ctx} {τ : Ty}
    (he : EnvT p ρ Γ) (hp : (clauseXtors cs).Perm xs) (hx : x ∈ xs) (hcl : AClauses p Γ sigs cs)
    (huniq : ∀ sig' τ', (x, sig', τ') ∈ sigs → sig' = sig ∧ τ' = τ) (hvs : VTs p vs sig) :
    ∃ cl ρ' Γ', findClause x cs = some cl ∧ bindAll cl.names vs ρ = some ρ' ∧ EnvT p ρ' Γ' ∧
      ATyped p Γ' cl.body τ := by
  obtain ⟨cl, hf⟩ := findClause_of_mem cs x (hp.mem_iff.mpr hx)
  obtain ⟨sig', τ', hm, hl, hb⟩ := hcl.find cs hf
  obtain ⟨rfl, rfl⟩ := huniq _ _ hm
  obtain ⟨ρ', h1, h2⟩ := bindAll_typed cl.names vs sig' ρ Γ hvs hl he
  exact ⟨cl, ρ', _, hf, h1, h2, hb⟩

theorem retFrame_safe {p : Program} {p' : CheckedProgram} (W : AWT p p') {v : Value} {f : Frame}
    {k : Stack} {σ τ : Ty} (hv : VT p v σ) (hf : FT p f σ τ) (hk : KT p k τ) :
    SafeStep p (retFrame v f k) := by
  cases hf with
  | opL Γ he hs =>
    obtain ⟨n, rfl⟩ := hv.int_inv
    exact .next (.eval Γ .i64 he hs (.cons .opR hk))
  | opR =>
    obtain ⟨n, rfl⟩ := hv.int_inv
    rename_i o a
    simp only [retFrame]
    cases har : arith o a n with
    | ok r => exact .next (.ret .i64 .int hk)
    | error w =>
      rcases arith_error har with rfl | rfl
      · exact .divByZero
      · exact .overflow
  | ifL Γ he hs h1 h2 =>
    obtain ⟨n, rfl⟩ := hv.int_inv
    exact .next (.eval Γ .i64 he hs (.cons (.ifR Γ he h1 h2) hk))
  | ifR Γ he h1 h2 =>
    obtain ⟨n, rfl⟩ := hv.int_inv
    simp only [retFrame]
    split
    · exact .next (.eval Γ τ he h1 hk)
    · exact .next (.eval Γ τ he h2 hk)
  | ifZ Γ he h1 h2 =>
    obtain ⟨n, rfl⟩ := hv.int_inv
    simp only [retFrame]
    split
    · exact .next (.eval Γ τ he h1 hk)
    · exact .next (.eval Γ τ he h2 hk)
  | print Γ he hn =>
    obtain ⟨n, rfl⟩ := hv.int_inv
    exact .next (.eval Γ τ he hn hk)
  | letF Γ he hb =>
    rename_i x body ρ
    exact .next (.eval _ τ (.cons ⟨x, .prd, σ⟩ he (.prd rfl hv)) hb hk)
  | arg Γ bsDone b bsTodo hh hdone hc hty he has =>
    refine .next (.args Γ (bsDone ++ [b]) bsTodo τ (by simpa using hh)
      (hdone.snoc (.prd hc (hty ▸ hv)) _ _) he has hk)
  | caseF Γ d hd hσ hp he hcl =>
    subst hσ
    obtain ⟨c, hc, vs, rfl, hvs⟩ := hv.data_inv W.decls hd
    obtain ⟨cl, ρ', Γ', h1, h2, h3, h4⟩ := clause_select (x := c.name) (τ := τ) he hp
      (List.mem_map.mpr ⟨c, hc, rfl⟩) hcl (by
        intro sig' τ' hm
        obtain ⟨c', hc', he'⟩ := List.mem_map.mp hm
        simp only [Prod.mk.injEq] at he'
        obtain ⟨hn, rfl, rfl⟩ := he'
        obtain ⟨_, rfl⟩ := ctor_data_unique W.decls hd hc' hd hc hn
        exact ⟨rfl, rfl⟩) hvs
    simp only [retFrame, h1, h2]
    exact .next (.eval Γ' τ h3 h4 hk)
  | dtorScrut Γ d s hd hs hnm hσ hτ he has =>
    subst hσ
    exact .next (.args Γ [] _ τ (.dtor d s hd hs hv hnm rfl hτ) .nil he has hk)
  | dtorApply d s hd hs hnm hσ hτ hvs =>
    subst hσ; subst hnm
    rcases hv.codata_inv W.decls hd with ⟨cs, ρ, Γ, an, rfl, he, hnew⟩ | ⟨t, ρ, Γ, rfl, he, ht⟩
    · obtain ⟨d', hd', targs', heq, hp, hcl⟩ := hnew.new_inv
      injection heq with hn hta
      have := codata_unique W.decls hd hd' hn
      subst this; subst hta
      obtain ⟨cl, ρ', Γ', h1, h2, h3, h4⟩ := clause_select (x := s.name) (τ := τ) he hp
        (List.mem_map.mpr ⟨s, hs, rfl⟩) hcl (by
          intro sig' τ' hm
          obtain ⟨s', hs', he'⟩ := List.mem_map.mp hm
          simp only [Prod.mk.injEq] at he'
          obtain ⟨hn', rfl, rfl⟩ := he'
          obtain ⟨_, rfl⟩ := dtor_codata_unique W.decls hd hs' hd hs hn'
          exact ⟨rfl, hτ.symm⟩) hvs
      simp only [retFrame, h1, h2]
      exact .next (.eval Γ' τ h3 h4 hk)
    · exact .next (.eval Γ _ he ht (.cons (.dtorApply d s hd hs rfl rfl hτ hvs) hk))

/-! ## argument lists -/

theorem applyHead_safe {p : Program} {p' : CheckedProgram} (W : AWT p p') {h : ArgHead}
    {done : List Value} {k : Stack} {bs : Ctx} {τ : Ty} (hh : HT p h bs τ) (hdone : VTs p done bs)
    (hk : KT p k τ) : SafeStep p (applyHead p' h done k) := by
  cases hh with
  | call d hd hf hbs hτ =>
    subst hf; subst hbs; subst hτ
    obtain ⟨d', hfd, hctx, _, hbody⟩ := W.defs d hd
    obtain ⟨ρ', h1, h2⟩ := bindAll_typed (d.ctx.map (·.var)) done d.ctx [] [] hdone (by simp) .nil
    rw [bindNames_self] at h2
    simp only [applyHead, hfd, hctx, h1]
    exact .next (.eval _ d.retTy h2 hbody hk)
  | ctor d c hd hc hw hK hbs hτ =>
    subst hbs
    exact .next (.ret τ (.con d c hd hc hw hK hτ hdone) hk)
  | dtor d s hd hs hv hnm hbs hτ =>
    subst hbs
    exact .next (.ret _ hv (.cons (.dtorApply d s hd hs hnm rfl hτ hdone) hk))

theorem argsStep_safe {p : Program} {p' : CheckedProgram} (W : AWT p p') {h : ArgHead}
    {done : List Value} {todo : Terms} {ρ : Env} {k : Stack} {Γ bsDone bsTodo : Ctx} {τ : Ty}
    (hh : HT p h (bsDone ++ bsTodo) τ) (hdone : VTs p done bsDone) (he : EnvT p ρ Γ)
    (has : AArgs p Γ todo bsTodo) (hk : KT p k τ) : SafeStep p (argsStep p' h done todo ρ k) := by
  cases has with
  | nil =>
    simp only [argsStep]
    exact applyHead_safe W (by simpa using hh) hdone hk
  | @prd _ t ts b bs hc hw ht hr =>
    rw [argsStep_cons_prd _ _ _ _ _ _ _ ht.not_cov, ht.getType]
    simp only
    by_cases hcd : isCodataTy p' b.ty = true
    · obtain ⟨d, hd, targs, hσ⟩ := W.codata_sound _ hw hcd
      obtain ⟨v, hv, hvt⟩ := suspend_typed he hd hσ t ht
      simp only [hcd, if_true, hv]
      exact .next (.args Γ (bsDone ++ [b]) bs τ (by simpa using hh)
        (hdone.snoc (.prd hc hvt) _ _) he hr hk)
    · simp only [hcd, Bool.false_eq_true, if_false]
      exact .next (.eval Γ b.ty he ht (.cons (.arg Γ bsDone b bs hh hdone hc rfl he hr) hk))
  | @cns _ x ts b bs b' hc hl hc' hty _ hr =>
    obtain ⟨v, hv, hb⟩ := he.lookup _ _ hl
    obtain ⟨c, rfl, hkc⟩ := hb.cns_inv hc'
    simp only [argsStep, hv]
    exact .next (.args Γ (bsDone ++ [b]) bs τ (by simpa using hh)
      (hdone.snoc (.cns hc (hty ▸ hkc)) _ _) he hr hk)

/-! ## one step -/

/-- TYPE SAFETY, one step: a well-typed state of a checked program steps to a well-typed state,
or the run ends with a result or an arithmetic fault -/
theorem step_safe {p : Program} {p' : CheckedProgram} (W : AWT p p') {s : State} (hs : ST p s) :
    SafeStep p (step p' s) := by
  cases hs with
  | eval Γ τ he ht hk => exact evalStep_safe W he hk _ ht
  | args Γ bsDone bsTodo τ hh hdone he has hk => exact argsStep_safe W hh hdone he has hk
  | @ret v k τ hv hk =>
    cases hk with
    | nil =>
      obtain ⟨n, rfl⟩ := hv.int_inv
      exact .done
    | exit =>
      obtain ⟨n, rfl⟩ := hv.int_inv
      exact .done
    | cons hf hk' => exact retFrame_safe W hv hf hk'

end Scc.Fun.Safety
