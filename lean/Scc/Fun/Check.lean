/-
  Scc.Fun.Check — executable model of the Fun type checker of /repo/lang/fun:
    typing/check.rs, typing/symbol_table.rs, typing/errors.rs (codes only),
    syntax/program.rs (`check`, `check_with_table`), syntax/types.rs (`Ty::check`, `create_instance`,
    `is_instance`, `subst_ty`, printing), syntax/context.rs (`no_dups`, `lookup_var`, `lookup_covar`,
    `add_types`, `check`, `check_template`), syntax/declarations/{data,codata,def}.rs,
    syntax/terms/*.rs (the `Check` impls).
  Core imports only; executable; structural recursion only (no fuel).

  Modelling decisions
  * The seven `HashMap`s of `SymbolTable` are association lists keyed by the same `String` keys the
    Rust uses (printed names such as `List[i64]`, `Cons[i64]`).  `insert` replaces in place or
    appends.  Places where the Rust ITERATES a map:
      - `lookup_ty_for_ctor/dtor`, `lookup_ty_template_for_ctor/dtor`: at most one entry matches
        (xtor names are unique per polarity after `build_symbol_table`, printed names are injective,
        `Props/C15.lean`), so the order is irrelevant; the model scans in insertion order.
      - `check_type_params`: the FIRST failing template decides between T-020 and T-001 if two
        templates are faulty in different ways; the model scans in declaration order.
      - `check_with_table`, collecting `symbol_table.types`: arbitrary in Rust (finding D4); the model
        returns `dataTypes`/`codataTypes` sorted by printed name.
  * Spans are dropped; a diagnostic is its code `T-0xx`.
  * The two `unwrap_or_else(|| panic!(..))` of `check_with_table` are `Err.panic`.
  * Clause bodies are turned into closures (`ClauseK.body = checkTerm body`) before the
    `position`/`swap_remove` loop runs over them; this keeps the recursion structural while the loop
    order (declaration order of the xtors, state threaded through) is the Rust one.
-/
import Scc.Fun.Syntax

namespace Scc.Fun.Check

/-- failure of the checker: a diagnostic (code of typing/errors.rs) or a Rust panic site -/
inductive Err where
  | diag (code : String)
  | panic (site : String)
  deriving Repr, BEq, Inhabited

abbrev R (α : Type) := Except Err α

/-! ## association lists (`HashMap<Name, _>`) -/

abbrev AList (β : Type) := List (String × β)

def AList.get? {β : Type} : AList β → String → Option β
  | [], _ => none
  | (k', v) :: r, k => if k' = k then some v else AList.get? r k

def AList.contains {β : Type} (m : AList β) (k : String) : Bool := (m.get? k).isSome

/-- `HashMap::insert`: replace the value of an existing key, else add. -/
def AList.insert {β : Type} : AList β → String → β → AList β
  | [], k, v => [(k, v)]
  | (k', v') :: r, k, v => if k' = k then (k, v) :: r else (k', v') :: AList.insert r k v

/-! ## printing of types (`print_to_string(None)`: no line breaks, `, ` between arguments) -/

mutual
  /-- types.rs: impl Print for Ty -/
  def printTyC : Ty → List Char
    | .i64 => ['i', '6', '4']
    | .decl n args => n.toList ++ printTyArgsC args
  /-- types.rs: impl Print for TypeArgs (`[` .. `]`, nothing if empty) -/
  def printTyArgsC : Tys → List Char
    | .nil => []
    | .cons t r => '[' :: (printTyC t ++ printTysTailC r)
  /-- printer/types.rs: print_comma_separated, after the first element, plus the closing bracket -/
  def printTysTailC : Tys → List Char
    | .nil => [']']
    | .cons t r => ',' :: ' ' :: (printTyC t ++ printTysTailC r)
end

def printTy (t : Ty) : String := String.ofList (printTyC t)
def printTyArgs (a : Tys) : String := String.ofList (printTyArgsC a)

/-- `xtor.clone() + &type_args.print_to_string(None)` / `name.clone() + &type_args.print_to_string(None)` -/
def instName (base : String) (args : Tys) : String := base ++ printTyArgs args

/-- `str::replace(pat, "")` on character lists: remove all non-overlapping occurrences of `pat`,
scanning left to right (for the empty pattern Rust inserts the replacement `""` everywhere:
identity). -/
def dropPrefix? : List Char → List Char → Option (List Char)
  | s, [] => some s
  | [], _ :: _ => none
  | c :: s, p :: ps => if c = p then dropPrefix? s ps else none

def removeAllFuel : Nat → List Char → List Char → List Char
  | 0, s, _ => s
  | _ + 1, [], _ => []
  | fuel + 1, c :: s, pat =>
    match dropPrefix? (c :: s) pat with
    | some rest => removeAllFuel fuel rest pat
    | none => c :: removeAllFuel fuel s pat

def removeAll (s pat : String) : String :=
  if pat.toList.isEmpty then s else String.ofList (removeAllFuel s.toList.length s.toList pat.toList)

/-! ## symbol table (typing/symbol_table.rs) -/

structure SymbolTable where
  defs : AList (Ctx × Ty) := []
  ctors : AList Ctx := []
  dtors : AList (Ctx × Ty) := []
  types : AList (Polarity × Tys × List String) := []
  ctorTemplates : AList Ctx := []
  dtorTemplates : AList (Ctx × Ty) := []
  typeTemplates : AList (Polarity × List String × List String) := []
  deriving Inhabited

def tysLength (a : Tys) : Nat := a.toList.length
def termsLength (a : Terms) : Nat := a.toList.length

/-- symbol_table.rs: SymbolTable::lookup_ty_for_ctor / lookup_ty_for_dtor (`pol` selects) -/
def lookupTyForXtor (pol : Polarity) : AList (Polarity × Tys × List String) → String →
    Option (Ty × List String)
  | [], _ => none
  | (name, (p, tyArgs, xtors)) :: rest, xtor =>
    if p == pol && xtors.any (fun x => instName x tyArgs = xtor) then
      some (.decl (removeAll name (printTyArgs tyArgs)) tyArgs, xtors)
    else lookupTyForXtor pol rest xtor

/-- the scan part of symbol_table.rs: lookup_ty_template_for_ctor / _dtor -/
def findTemplateForXtor (pol : Polarity) : AList (Polarity × List String × List String) → String →
    Option (String × List String)
  | [], _ => none
  | (name, (p, _, xtors)) :: rest, xtor =>
    if p == pol && xtors.contains xtor then some (name, xtors)
    else findTemplateForXtor pol rest xtor

/-! ## substitution (types.rs: subst_ty, context.rs: subst_ty) -/

/-- `HashMap<Name, Ty>` collected from `zip`: a later duplicate key wins -/
def mappingsGet : List (String × Ty) → String → Option Ty
  | [], _ => none
  | (k, v) :: r, n =>
    match mappingsGet r n with
    | some t => some t
    | none => if k = n then some v else none

mutual
  /-- types.rs: Ty::subst_ty -/
  def substTy (m : List (String × Ty)) : Ty → Ty
    | .i64 => .i64
    | .decl n args =>
      match mappingsGet m n with
      | some t => t
      | none => .decl n (substTys m args)
  def substTys (m : List (String × Ty)) : Tys → Tys
    | .nil => .nil
    | .cons t r => .cons (substTy m t) (substTys m r)
end

/-- context.rs: TypingContext::subst_ty -/
def substCtx (m : List (String × Ty)) (c : Ctx) : Ctx :=
  c.map fun b => { b with ty := substTy m b.ty }

/-! ## type well-formedness and instantiation (types.rs) -/

/-- types.rs: create_instance, the part after `is_instance` (data) -/
def insertCtorInstances (m : List (String × Ty)) (tyArgs : Tys) :
    List String → SymbolTable → R SymbolTable
  | [], st => .ok st
  | base :: rest, st =>
    match st.ctorTemplates.get? base with
    | none => .error (.diag "T-002")
    | some tmpl =>
      insertCtorInstances m tyArgs rest
        { st with ctors := st.ctors.insert (instName base tyArgs) (substCtx m tmpl) }

/-- types.rs: create_instance, the part after `is_instance` (codata) -/
def insertDtorInstances (m : List (String × Ty)) (tyArgs : Tys) :
    List String → SymbolTable → R SymbolTable
  | [], st => .ok st
  | base :: rest, st =>
    match st.dtorTemplates.get? base with
    | none => .error (.diag "T-002")
    | some (tmpl, cont) =>
      insertDtorInstances m tyArgs rest
        { st with dtors := st.dtors.insert (instName base tyArgs) (substCtx m tmpl, substTy m cont) }

/-- types.rs: create_instance after `type_args.is_instance(..)?` -/
def createInstanceRest (instanceName : String) (tyArgs : Tys) (pol : Polarity)
    (params : List String) (xtors : List String) (st : SymbolTable) : R SymbolTable :=
  let mappings := params.zip tyArgs.toList
  match (match pol with
    | .data => insertCtorInstances mappings tyArgs xtors st
    | .codata => insertDtorInstances mappings tyArgs xtors st) with
  | .error e => .error e
  | .ok st' => .ok { st' with types := st'.types.insert instanceName (pol, tyArgs, xtors) }

mutual
  /-- types.rs: Ty::check (+ create_instance, TypeArgs::is_instance) -/
  def checkTy : Ty → SymbolTable → R SymbolTable
    | .i64, st => .ok st
    | .decl name args, st =>
      let instanceName := instName name args
      match st.types.get? instanceName with
      | some _ => .ok st
      | none =>
        match st.typeTemplates.get? name with
        | none => .error (.diag "T-002")
        | some (pol, params, xtors) =>
          -- TypeArgs::is_instance
          if tysLength args != params.length then .error (.diag "T-022")
          else
            match checkTys args st with
            | .error e => .error e
            | .ok st1 => createInstanceRest instanceName args pol params xtors st1
  /-- the loop of TypeArgs::is_instance -/
  def checkTys : Tys → SymbolTable → R SymbolTable
    | .nil, st => .ok st
    | .cons t r, st =>
      match checkTy t st with
      | .error e => .error e
      | .ok st1 => checkTys r st1
end

/-- types.rs: Ty::check_template -/
def checkTyTemplate (t : Ty) (st : SymbolTable) (typeParams : List String) : R Unit :=
  match t with
  | .i64 => .ok ()
  | .decl name _ =>
    match st.typeTemplates.get? name with
    | some _ => .ok ()
    | none => if typeParams.contains name then .ok () else .error (.diag "T-002")

/-- context.rs: TypingContext::check_template -/
def ctxCheckTemplate : Ctx → SymbolTable → List String → R Unit
  | [], _, _ => .ok ()
  | b :: r, st, ps =>
    match checkTyTemplate b.ty st ps with
    | .error e => .error e
    | .ok () => ctxCheckTemplate r st ps

/-- context.rs: TypingContext::check -/
def ctxCheck : Ctx → SymbolTable → R SymbolTable
  | [], st => .ok st
  | b :: r, st =>
    match checkTy b.ty st with
    | .error e => .error e
    | .ok st1 => ctxCheck r st1

/-- context.rs: TypingContext::no_dups (T-018 for a repeated variable, T-019 for a covariable) -/
def ctxNoDups : Ctx → List String → R Unit
  | [], _ => .ok ()
  | b :: r, seen =>
    if seen.contains b.var then
      (if b.chi == .prd then .error (.diag "T-018") else .error (.diag "T-019"))
    else ctxNoDups r (b.var :: seen)

/-- context.rs: NameContext::no_dups and TypeContext::no_dups (both report T-020) -/
def namesNoDups : List String → List String → R Unit
  | [], _ => .ok ()
  | b :: r, seen => if seen.contains b then .error (.diag "T-020") else namesNoDups r (b :: seen)

/-- context.rs: TypingContext::lookup_var -/
def lookupVarRev : List Binding → String → R Ty
  | [], _ => .error (.diag "T-004")
  | b :: r, x =>
    if b.var = x then (if b.chi == .cns then .error (.diag "T-007") else .ok b.ty)
    else lookupVarRev r x

def lookupVar (ctx : Ctx) (x : String) : R Ty := lookupVarRev ctx.reverse x

/-- context.rs: TypingContext::lookup_covar -/
def lookupCovarRev : List Binding → String → R Ty
  | [], _ => .error (.diag "T-005")
  | b :: r, x =>
    if b.var = x then (if b.chi == .prd then .error (.diag "T-008") else .ok b.ty)
    else lookupCovarRev r x

def lookupCovar (ctx : Ctx) (x : String) : R Ty := lookupCovarRev ctx.reverse x

/-- context.rs: NameContext::add_types -/
def addTypes (names : List String) (expected : Ctx) : R Ctx :=
  if names.length != expected.length then .error (.diag "T-013")
  else .ok ((names.zip expected).map fun (n, b) => { b with var := n })

/-- check.rs: check_equality -/
def checkEquality (st : SymbolTable) (expected got : Ty) : R SymbolTable :=
  match checkTy expected st with
  | .error e => .error e
  | .ok st1 =>
    match checkTy got st1 with
    | .error e => .error e
    | .ok st2 => if expected != got then .error (.diag "T-003") else .ok st2

/-- var.rs / check.rs: `if let Some(ty) = variable.ty { check_equality(.., &ty, &found_ty)?; }` -/
def checkAnnot (st : SymbolTable) (ty : Option Ty) (found : Ty) : R SymbolTable :=
  match ty with
  | some ty => checkEquality st ty found
  | none => .ok st

/-! ## `Vec::swap_remove`, `Iterator::position` -/

/-- `Vec::swap_remove(i)` for `i < len`: element `i` is replaced by the last element -/
def swapRemove {α : Type} (l : List α) (i : Nat) : List α :=
  match l.getLast? with
  | none => l
  | some last => l.dropLast.set i last

/-! ## terms -/

abbrev Checker := SymbolTable → Ctx → Ty → R (Term × SymbolTable)

/-- a clause together with the checking function of its body (`body = checkTerm src.body`; the loop
below only uses `src.pol`, `src.xtor`, `src.names` and `body`) -/
structure ClauseK where
  src : Clause
  body : Checker

/-- symbol_table.rs: lookup_ty_template_for_ctor / _dtor; the failure code is T-023 -/
def lookupTyTemplateForXtor (pol : Polarity) (st : SymbolTable) (xtor : String) (tyArgs : Tys) :
    R ((Ty × List String) × SymbolTable) :=
  match findTemplateForXtor pol st.typeTemplates xtor with
  | none => .error (.diag "T-023")
  | some (name, xtors) =>
    let ty := Ty.decl name tyArgs
    match checkTy ty st with
    | .error e => .error e
    | .ok st1 => .ok ((ty, xtors), st1)

/-- destructor.rs / case.rs: `match lookup_ty_for_xtor(..) { Ok(ty) => ty, Err(_) =>
lookup_ty_template_for_xtor(..)? }` -/
def resolveXtorTy (pol : Polarity) (st : SymbolTable) (xtor : String) (tyArgs : Tys) :
    R ((Ty × List String) × SymbolTable) :=
  match lookupTyForXtor pol st.types (instName xtor tyArgs) with
  | some r => .ok (r, st)
  | none => lookupTyTemplateForXtor pol st xtor tyArgs

/-- The loop `for xtor in expected_xtors { position / swap_remove / check clause }` shared by
case.rs: Case::check and new.rs: New::check.  `sigOf st fullName` is the lookup in `ctors` (together
with the type expected for the body, `expected` for a case) resp. `dtors`; `missing` is T-015 resp.
T-010; `checkRet` is true for `new`, where the destructor's return type is checked (and its instance
created on demand) before the binders are looked at.  Returns the checked clauses in declaration
order and the clauses left over. -/
def clauseLoop (sigOf : SymbolTable → String → Option (Ctx × Ty)) (missing : String)
    (checkRet : Bool) (tyArgs : Tys) (ctx : Ctx) :
    List String → List ClauseK → List Clause → SymbolTable →
      R (List Clause × List ClauseK × SymbolTable)
  | [], ks, acc, st => .ok (acc.reverse, ks, st)
  | xtor :: rest, ks, acc, st =>
    let fullName := instName xtor tyArgs
    match ks.findIdx? (fun k => k.src.xtor = xtor) with
    | none => .error (.diag missing)
    | some pos =>
      match ks[pos]? with
      | none => .error (.panic "swap_remove index out of bounds")  -- unreachable (findIdx?)
      | some k =>
        let ks' := swapRemove ks pos
        match sigOf st fullName with
        | none => .error (.diag "T-002")
        | some (sig, bodyTy) =>
          -- new.rs: `dtor_ret_ty.check(&Some(self.span), symbol_table)?`
          match (if checkRet then checkTy bodyTy st else .ok st) with
          | .error e => .error e
          | .ok st0 =>
            match namesNoDups k.src.names [] with
            | .error e => .error e
            | .ok () =>
              match addTypes k.src.names sig with
              | .error e => .error e
              | .ok ctxClause =>
                match k.body st0 (ctx ++ ctxClause) bodyTy with
                | .error e => .error e
                | .ok (body', st1) =>
                  clauseLoop sigOf missing checkRet tyArgs ctx rest ks'
                    (⟨k.src.pol, k.src.xtor, k.src.names, ctxClause, body'⟩ :: acc) st1

/-- check.rs: check_args, covariable case on an `XVar` argument -/
def checkCovarArg (st : SymbolTable) (ctx : Ctx) (x : String) (ty : Option Ty) (chi : Option Chi)
    (bindingTy : Ty) : R (Term × SymbolTable) :=
  if chi == some .prd then .error (.diag "T-008")
  else
    match lookupCovar ctx x with
    | .error e => .error e
    | .ok foundTy =>
      match checkAnnot st ty foundTy with
      | .error e => .error e
      | .ok st1 =>
        match checkEquality st1 bindingTy foundTy with
        | .error e => .error e
        | .ok st2 => .ok (.var x (some foundTy) (some .cns), st2)

mutual
  /-- terms/*.rs: impl Check for XVar, Lit, Op, IfC, PrintI64, Let, Call, Constructor, Destructor,
  Case, New, Label, Goto, Exit, Paren (terms/mod.rs: impl Check for Term dispatches) -/
  def checkTerm : Term → Checker
    -- var.rs
    | .var x ty chi => fun st ctx expected =>
      if chi == some .cns then .error (.diag "T-007")
      else
        match lookupVar ctx x with
        | .error e => .error e
        | .ok foundTy =>
          match checkAnnot st ty foundTy with
          | .error e => .error e
          | .ok st1 =>
            match checkEquality st1 expected foundTy with
            | .error e => .error e
            | .ok st2 => .ok (.var x (some expected) (some .prd), st2)
    -- literal.rs
    | .lit n => fun st _ expected =>
      match checkEquality st expected .i64 with
      | .error e => .error e
      | .ok st1 => .ok (.lit n, st1)
    -- op.rs
    | .op a o b => fun st ctx expected =>
      match checkEquality st .i64 expected with
      | .error e => .error e
      | .ok st1 =>
        match checkTerm a st1 ctx .i64 with
        | .error e => .error e
        | .ok (a', st2) =>
          match checkTerm b st2 ctx .i64 with
          | .error e => .error e
          | .ok (b', st3) => .ok (.op a' o b', st3)
    -- ifc.rs (snd = Some)
    | .ifc s a b t e _ => fun st ctx expected =>
      match checkTerm a st ctx .i64 with
      | .error e => .error e
      | .ok (a', st1) =>
        match checkTerm b st1 ctx .i64 with
        | .error e => .error e
        | .ok (b', st2) =>
          match checkTerm t st2 ctx expected with
          | .error e => .error e
          | .ok (t', st3) =>
            match checkTerm e st3 ctx expected with
            | .error e => .error e
            | .ok (e', st4) => .ok (.ifc s a' b' t' e' (some expected), st4)
    -- ifc.rs (snd = None)
    | .ifz s a t e _ => fun st ctx expected =>
      match checkTerm a st ctx .i64 with
      | .error e => .error e
      | .ok (a', st1) =>
        match checkTerm t st1 ctx expected with
        | .error e => .error e
        | .ok (t', st3) =>
          match checkTerm e st3 ctx expected with
          | .error e => .error e
          | .ok (e', st4) => .ok (.ifz s a' t' e' (some expected), st4)
    -- print.rs
    | .print nl a n _ => fun st ctx expected =>
      match checkTerm a st ctx .i64 with
      | .error e => .error e
      | .ok (a', st1) =>
        match checkTerm n st1 ctx expected with
        | .error e => .error e
        | .ok (n', st2) => .ok (.print nl a' n' (some expected), st2)
    -- let.rs
    | .letIn x varTy bound body _ => fun st ctx expected =>
      match checkTy varTy st with
      | .error e => .error e
      | .ok st1 =>
        match checkTerm bound st1 ctx varTy with
        | .error e => .error e
        | .ok (bound', st2) =>
          match checkTerm body st2 (ctx ++ [⟨x, .prd, varTy⟩]) expected with
          | .error e => .error e
          | .ok (body', st3) => .ok (.letIn x varTy bound' body' (some expected), st3)
    -- call.rs
    | .call name args _ => fun st ctx expected =>
      match st.defs.get? name with
      | none => .error (.diag "T-002")
      | some (types, retTy) =>
        match checkEquality st expected retTy with
        | .error e => .error e
        | .ok st1 =>
          if types.length != termsLength args then .error (.diag "T-006")
          else
            match checkArgs args types st1 ctx with
            | .error e => .error e
            | .ok (args', st2) => .ok (.call name args' (some expected), st2)
    -- constructor.rs
    | .ctor id args _ => fun st ctx expected =>
      match expected with
      | .i64 => .error (.diag "T-021")
      | .decl _ tyArgs =>
        let name := instName id tyArgs
        match st.ctors.get? name with
        | none => .error (.diag "T-002")
        | some types =>
          match lookupTyForXtor .data st.types name with
          | none => .error (.diag "T-002")
          | some (ty, _) =>
            if types.length != termsLength args then .error (.diag "T-006")
            else
              match checkArgs args types st ctx with
              | .error e => .error e
              | .ok (args', st1) =>
                match checkEquality st1 expected ty with
                | .error e => .error e
                | .ok st2 => .ok (.ctor id args' (some expected), st2)
    -- destructor.rs
    | .dtor scrut id tyArgs args _ => fun st ctx expected =>
      let dtorName := instName id tyArgs
      match resolveXtorTy .codata st id tyArgs with
      | .error e => .error e
      | .ok ((ty, _), st1) =>
        match checkTerm scrut st1 ctx ty with
        | .error e => .error e
        | .ok (scrut', st2) =>
          match st2.dtors.get? dtorName with
          | none => .error (.diag "T-002")
          | some (types, retTy) =>
            if types.length != termsLength args then .error (.diag "T-006")
            else
              match checkArgs args types st2 ctx with
              | .error e => .error e
              | .ok (args', st3) =>
                match checkEquality st3 expected retTy with
                | .error e => .error e
                | .ok st4 => .ok (.dtor scrut' id tyArgs args' (some expected), st4)
    -- case.rs
    | .case scrut tyArgs cs _ => fun st ctx expected =>
      match cs with
      | .nil => .error (.diag "T-009")
      | .cons _ xtor0 _ _ _ _ =>
        match resolveXtorTy .data st xtor0 tyArgs with
        | .error e => .error e
        | .ok ((ty, expectedCtors), st1) =>
          match checkTerm scrut st1 ctx ty with
          | .error e => .error e
          | .ok (scrut', st2) =>
            match clauseLoop (fun s n => (s.ctors.get? n).map fun sig => (sig, expected))
                "T-015" false tyArgs ctx expectedCtors (clauseCheckers cs) [] st2 with
            | .error e => .error e
            | .ok (newClauses, left, st3) =>
              if !left.isEmpty then .error (.diag "T-016")
              else .ok (.case scrut' tyArgs (Clauses.ofList newClauses) (some expected), st3)
    -- new.rs
    | .new cs _ => fun st ctx expected =>
      match expected with
      | .i64 => .error (.diag "T-011")
      | .decl name tyArgs =>
        let typeName := instName name tyArgs
        match st.types.get? typeName with
        | none => .error (.diag "T-002")
        | some (.data, _, _) => .error (.diag "T-012")
        | some (.codata, _, expectedDtors) =>
          match clauseLoop (fun s n => s.dtors.get? n) "T-010" true tyArgs ctx expectedDtors
              (clauseCheckers cs) [] st with
          | .error e => .error e
          | .ok (newClauses, left, st1) =>
            if !left.isEmpty then .error (.diag "T-017")
            else .ok (.new (Clauses.ofList newClauses) (some expected), st1)
    -- label.rs
    | .label a body _ => fun st ctx expected =>
      match checkTerm body st (ctx ++ [⟨a, .cns, expected⟩]) expected with
      | .error e => .error e
      | .ok (body', st1) => .ok (.label a body' (some expected), st1)
    -- goto.rs
    | .goto a arg _ => fun st ctx expected =>
      match lookupCovar ctx a with
      | .error e => .error e
      | .ok contTy =>
        -- the instance of the type of the covariable might not have been created yet
        match checkTy contTy st with
        | .error e => .error e
        | .ok st0 =>
          match checkTerm arg st0 ctx contTy with
          | .error e => .error e
          | .ok (arg', st1) => .ok (.goto a arg' (some expected), st1)
    -- exit.rs
    | .exit arg _ => fun st ctx expected =>
      match checkTerm arg st ctx .i64 with
      | .error e => .error e
      | .ok (arg', st1) => .ok (.exit arg' (some expected), st1)
    -- paren.rs
    | .paren inner => fun st ctx expected =>
      match checkTerm inner st ctx expected with
      | .error e => .error e
      | .ok (inner', st1) => .ok (.paren inner', st1)
  /-- check.rs: check_args, the loop over `args.zip(types)` (the length test is done by the callers
  above, directly before, as in `check_args`) -/
  def checkArgs : Terms → List Binding → SymbolTable → Ctx → R (Terms × SymbolTable)
    | .nil, _, st, _ => .ok (.nil, st)
    | .cons _ _, [], st, _ => .ok (.nil, st)   -- zip stops (unreachable: equal lengths)
    | .cons arg rest, binding :: bs, st, ctx =>
      match (if binding.chi == .cns then
          (match arg with
            | .var x ty chi => checkCovarArg st ctx x ty chi binding.ty
            | _ => .error (.diag "T-008"))
        else
          (match checkTy binding.ty st with
            | .error e => .error e
            | .ok st1 => checkTerm arg st1 ctx binding.ty) : R (Term × SymbolTable)) with
      | .error e => .error e
      | .ok (arg', st2) =>
        match checkArgs rest bs st2 ctx with
        | .error e => .error e
        | .ok (rest', st3) => .ok (.cons arg' rest', st3)
  /-- the clauses of a `case`/`new` with their bodies as checking functions -/
  def clauseCheckers : Clauses → List ClauseK
    | .nil => []
    | .cons p x ns c b r => ⟨⟨p, x, ns, c, b⟩, checkTerm b⟩ :: clauseCheckers r
end

/-! ## declarations and programs -/

/-- symbol_table.rs: impl BuildSymbolTable for CtorSig, iterated -/
def buildCtors : List CtorSig → SymbolTable → R SymbolTable
  | [], st => .ok st
  | c :: r, st =>
    if st.ctorTemplates.contains c.name then .error (.diag "T-001")
    else buildCtors r { st with ctorTemplates := st.ctorTemplates.insert c.name c.args }

/-- symbol_table.rs: impl BuildSymbolTable for DtorSig, iterated -/
def buildDtors : List DtorSig → SymbolTable → R SymbolTable
  | [], st => .ok st
  | d :: r, st =>
    if st.dtorTemplates.contains d.name then .error (.diag "T-001")
    else buildDtors r { st with dtorTemplates := st.dtorTemplates.insert d.name (d.args, d.contTy) }

/-- symbol_table.rs: impl BuildSymbolTable for Declaration / Def / Data / Codata -/
def buildDecl (d : Decl) (st : SymbolTable) : R SymbolTable :=
  match d with
  | .defn f =>
    if st.defs.contains f.name then .error (.diag "T-001")
    else .ok { st with defs := st.defs.insert f.name (f.ctx, f.retTy) }
  | .data d =>
    if st.typeTemplates.contains d.name then .error (.diag "T-001")
    else
      buildCtors d.ctors
        { st with typeTemplates :=
            st.typeTemplates.insert d.name (.data, d.typeParams, d.ctors.map (·.name)) }
  | .codata d =>
    if st.typeTemplates.contains d.name then .error (.diag "T-001")
    else
      buildDtors d.dtors
        { st with typeTemplates :=
            st.typeTemplates.insert d.name (.codata, d.typeParams, d.dtors.map (·.name)) }

/-- symbol_table.rs: impl BuildSymbolTable for Program -/
def buildDecls : List Decl → SymbolTable → R SymbolTable
  | [], st => .ok st
  | d :: r, st =>
    match buildDecl d st with
    | .error e => .error e
    | .ok st1 => buildDecls r st1

/-- inner loop of check_type_params -/
def paramsNotTemplates (templates : AList (Polarity × List String × List String)) :
    List String → R Unit
  | [] => .ok ()
  | p :: r => if templates.contains p then .error (.diag "T-001") else paramsNotTemplates templates r

/-- symbol_table.rs: SymbolTable::check_type_params (declaration order, see header) -/
def checkTypeParams (templates : AList (Polarity × List String × List String)) :
    AList (Polarity × List String × List String) → R Unit
  | [] => .ok ()
  | (_, (_, params, _)) :: r =>
    match namesNoDups params [] with
    | .error e => .error e
    | .ok () =>
      match paramsNotTemplates templates params with
      | .error e => .error e
      | .ok () => checkTypeParams templates r

/-- symbol_table.rs: build_symbol_table -/
def buildSymbolTable (p : Program) : R SymbolTable :=
  match buildDecls p.decls {} with
  | .error e => .error e
  | .ok st =>
    match checkTypeParams st.typeTemplates st.typeTemplates with
    | .error e => .error e
    | .ok () => .ok st

/-- data.rs: Data::check / CtorSig::check -/
def checkCtorSigs (st : SymbolTable) (typeParams : List String) : List CtorSig → R Unit
  | [] => .ok ()
  | c :: r =>
    match ctxCheckTemplate c.args st typeParams with
    | .error e => .error e
    | .ok () => checkCtorSigs st typeParams r

def checkDataDecl (d : Data) (st : SymbolTable) : R Unit := checkCtorSigs st d.typeParams d.ctors

/-- codata.rs: Codata::check / DtorSig::check -/
def checkDtorSigs (st : SymbolTable) (typeParams : List String) : List DtorSig → R Unit
  | [] => .ok ()
  | c :: r =>
    match ctxCheckTemplate c.args st typeParams with
    | .error e => .error e
    | .ok () =>
      match checkTyTemplate c.contTy st typeParams with
      | .error e => .error e
      | .ok () => checkDtorSigs st typeParams r

def checkCodataDecl (d : Codata) (st : SymbolTable) : R Unit := checkDtorSigs st d.typeParams d.dtors

/-- program.rs: check_with_table, first loop (type declarations are checked, defs collected) -/
def checkTypeDecls : List Decl → SymbolTable → R (List Def)
  | [], _ => .ok []
  | .data d :: r, st =>
    match checkDataDecl d st with
    | .error e => .error e
    | .ok () => checkTypeDecls r st
  | .codata d :: r, st =>
    match checkCodataDecl d st with
    | .error e => .error e
    | .ok () => checkTypeDecls r st
  | .defn f :: r, st =>
    match checkTypeDecls r st with
    | .error e => .error e
    | .ok fs => .ok (f :: fs)

/-- def.rs: Def::check -/
def checkDef (f : Def) (st : SymbolTable) : R (Def × SymbolTable) :=
  match ctxNoDups f.ctx [] with
  | .error e => .error e
  | .ok () =>
    match ctxCheck f.ctx st with
    | .error e => .error e
    | .ok st1 =>
      match checkTy f.retTy st1 with
      | .error e => .error e
      | .ok st2 =>
        match checkTerm f.body st2 f.ctx f.retTy with
        | .error e => .error e
        | .ok (body', st3) => .ok ({ f with body := body' }, st3)

/-- program.rs: check_with_table, `defs.into_iter().map(|def| def.check(..)).collect()` -/
def checkDefs : List Def → SymbolTable → R (List Def × SymbolTable)
  | [], st => .ok ([], st)
  | f :: r, st =>
    match checkDef f st with
    | .error e => .error e
    | .ok (f', st1) =>
      match checkDefs r st1 with
      | .error e => .error e
      | .ok (r', st2) => .ok (f' :: r', st2)

/-- program.rs: check_with_table, the `.map(|base_name| ..)` over the constructors of an instance -/
def collectCtors (st : SymbolTable) (tyArgs : Tys) : List String → R (List CtorSig)
  | [] => .ok []
  | base :: r =>
    match st.ctors.get? (instName base tyArgs) with
    | none => .error (.panic "check_with_table: Couldn't find constructor in symbol_table")
    | some args =>
      match collectCtors st tyArgs r with
      | .error e => .error e
      | .ok cs => .ok (⟨base, args⟩ :: cs)

def collectDtors (st : SymbolTable) (tyArgs : Tys) : List String → R (List DtorSig)
  | [] => .ok []
  | base :: r =>
    match st.dtors.get? (instName base tyArgs) with
    | none => .error (.panic "check_with_table: Couldn't find destructor in symbol_table")
    | some (args, cont) =>
      match collectDtors st tyArgs r with
      | .error e => .error e
      | .ok cs => .ok (⟨base, args, cont⟩ :: cs)

/-- program.rs: check_with_table, the loop over `symbol_table.types` -/
def collectTypes (st : SymbolTable) :
    AList (Polarity × Tys × List String) → R (List Data × List Codata)
  | [] => .ok ([], [])
  | (name, (.data, tyArgs, xtors)) :: r =>
    match collectCtors st tyArgs xtors with
    | .error e => .error e
    | .ok ctors =>
      match collectTypes st r with
      | .error e => .error e
      | .ok (ds, cs) => .ok (⟨name, [], ctors⟩ :: ds, cs)
  | (name, (.codata, tyArgs, xtors)) :: r =>
    match collectDtors st tyArgs xtors with
    | .error e => .error e
    | .ok dtors =>
      match collectTypes st r with
      | .error e => .error e
      | .ok (ds, cs) => .ok (ds, ⟨name, [], dtors⟩ :: cs)

/-- insertion sort by name (stands for "some HashMap order"; both sides are compared sorted) -/
def insertBy {α : Type} (key : α → String) (x : α) : List α → List α
  | [] => [x]
  | y :: r => if key x < key y then x :: y :: r else y :: insertBy key x r

def sortBy {α : Type} (key : α → String) : List α → List α
  | [] => []
  | x :: r => insertBy key x (sortBy key r)

/-- program.rs: Program::check_with_table -/
def checkWithTable (p : Program) (st : SymbolTable) : R CheckedProgram :=
  match checkTypeDecls p.decls st with
  | .error e => .error e
  | .ok defs =>
    match checkDefs defs st with
    | .error e => .error e
    | .ok (defs', st1) =>
      match collectTypes st1 st1.types with
      | .error e => .error e
      | .ok (ds, cs) => .ok ⟨sortBy (·.name) ds, sortBy (·.name) cs, defs'⟩

inductive Outcome where
  | ok (p : CheckedProgram)
  | diag (code : String)
  | panic (site : String)

def Outcome.isOk : Outcome → Bool
  | .ok _ => true
  | _ => false

/-- program.rs: Program::check -/
def checkProgramR (p : Program) : R CheckedProgram :=
  match buildSymbolTable p with
  | .error e => .error e
  | .ok st => checkWithTable p st

def checkProgram (p : Program) : Outcome :=
  match checkProgramR p with
  | .ok p' => .ok p'
  | .error (.diag c) => .diag c
  | .error (.panic s) => .panic s

/-- the run-time oracle: does the (model) checker accept? -/
def wtCheck (p : Program) : Bool := (checkProgram p).isOk

/-- driver entry: S0 dump text ↦ `OK <S1 dump>` | `DIAG T-0xx` | `PANIC site` | `ERR ..` -/
def runLineCheck (dumpS0 : String) : String :=
  match Sexp.parse dumpS0 with
  | none => "ERR sexp"
  | some sx =>
    match readProgram (dumpS0.length + 10) sx with
    | none => "ERR read"
    | some p =>
      match checkProgram p with
      | .ok p' => "OK " ++ p'.toSexp.render
      | .diag c => "DIAG " ++ c
      | .panic s => "PANIC " ++ s

end Scc.Fun.Check
