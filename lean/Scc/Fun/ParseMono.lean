/-
  Scc.Fun.ParseMono — fuel monotonicity of the parser model (Scc.Fun.Parse): if a parser function
  answers anything else than `diag .fuel`, it gives the same answer with more fuel.  Proof file.
-/
import Scc.Fun.Parse

namespace Scc.Fun.Parse
open Scc.Fun.Lex

/-- `Le o o'`: `o'` is `o`, or `o` ran out of fuel -/
def Le {α : Type} (o o' : Outcome α) : Prop := o = .diag .fuel ∨ o = o'

theorem Le.refl {α : Type} (o : Outcome α) : Le o o := .inr rfl

theorem Le.trans {α : Type} {a b c : Outcome α} (h1 : Le a b) (h2 : Le b c) : Le a c := by
  rcases h1 with h | h
  · exact .inl h
  · subst h; exact h2

theorem Le.bind {α β : Type} {o o' : Outcome α} {f f' : α → Outcome β} (h : Le o o')
    (hf : ∀ a, Le (f a) (f' a)) : Le (o.bind f) (o'.bind f') := by
  rcases h with h | h
  · subst h; exact .inl rfl
  · subst h
    cases o with
    | ok a => exact hf a
    | diag c => exact .inr rfl
    | panic s => exact .inr rfl

/-- a successful answer is kept -/
theorem Le.ok {α : Type} {o o' : Outcome α} {a : α} (h : Le o o') (ho : o = .ok a) : o' = .ok a := by
  rcases h with h | h
  · rw [h] at ho; cases ho
  · rw [← h, ho]

/-- one `bind` step: `$h` proves `Le` for the first computation -/
macro "le_bind_with" h:term : tactic => `(tactic| (
  refine Le.bind $h ?_
  first | (intro ⟨_, _⟩) | intro _
  try simp only []))

theorem le_ty : ∀ fuel ts,
    Le (parseTy fuel ts) (parseTy (fuel + 1) ts) ∧ Le (parseTys fuel ts) (parseTys (fuel + 1) ts) := by
  intro fuel
  induction fuel with
  | zero => intro ts; constructor <;> (left; simp [parseTy, parseTys])
  | succ n ih =>
    intro ts
    constructor
    · unfold parseTy
      repeat' (first | exact Le.refl _ | le_bind_with (ih _).2 | split)
    · unfold parseTys
      repeat' (first | exact Le.refl _ | le_bind_with (ih _).1 | le_bind_with (ih _).2 | split)

theorem le_parseTy (fuel : Nat) (ts : List Token) : Le (parseTy fuel ts) (parseTy (fuel + 1) ts) :=
  (le_ty fuel ts).1
theorem le_parseTys (fuel : Nat) (ts : List Token) : Le (parseTys fuel ts) (parseTys (fuel + 1) ts) :=
  (le_ty fuel ts).2

theorem le_parseOptTyArgs (fuel : Nat) (ts : List Token) :
    Le (parseOptTyArgs fuel ts) (parseOptTyArgs (fuel + 1) ts) := by
  unfold parseOptTyArgs
  split
  · exact le_parseTys _ _
  · exact Le.refl _

theorem le_parseNames : ∀ fuel ts, Le (parseNames fuel ts) (parseNames (fuel + 1) ts) := by
  intro fuel
  induction fuel with
  | zero => intro ts; left; simp [parseNames]
  | succ n ih =>
    intro ts
    unfold parseNames
    repeat' (first | exact Le.refl _ | le_bind_with (ih _) | split)

theorem le_parseOptNames (fuel : Nat) (ts : List Token) :
    Le (parseOptNames fuel ts) (parseOptNames (fuel + 1) ts) := by
  unfold parseOptNames
  split
  · exact le_parseNames _ _
  · exact Le.refl _

theorem le_parseTyNames : ∀ fuel ts, Le (parseTyNames fuel ts) (parseTyNames (fuel + 1) ts) := by
  intro fuel
  induction fuel with
  | zero => intro ts; left; simp [parseTyNames]
  | succ n ih =>
    intro ts
    unfold parseTyNames
    repeat' (first | exact Le.refl _ | le_bind_with (ih _) | split)

theorem le_parseOptTyNames (fuel : Nat) (ts : List Token) :
    Le (parseOptTyNames fuel ts) (parseOptTyNames (fuel + 1) ts) := by
  unfold parseOptTyNames
  split
  · exact le_parseTyNames _ _
  · exact Le.refl _

theorem le_parseBinding (fuel : Nat) (ts : List Token) :
    Le (parseBinding fuel ts) (parseBinding (fuel + 1) ts) := by
  unfold parseBinding
  repeat' (first | exact Le.refl _ | le_bind_with (le_parseTy _ _) | split)

theorem le_parseBindings : ∀ fuel ts, Le (parseBindings fuel ts) (parseBindings (fuel + 1) ts) := by
  intro fuel
  induction fuel with
  | zero => intro ts; left; simp [parseBindings]
  | succ n ih =>
    intro ts
    unfold parseBindings
    repeat' (first | exact Le.refl _ | le_bind_with (le_parseBinding _ _) | le_bind_with (ih _) | split)

theorem le_parseOptCtx (fuel : Nat) (ts : List Token) :
    Le (parseOptCtx fuel ts) (parseOptCtx (fuel + 1) ts) := by
  unfold parseOptCtx
  split
  · exact le_parseBindings _ _
  · exact Le.refl _

/-- the induction hypothesis for the mutual block of term parsers -/
structure LeIH (mode : LiteralMode) (n : Nat) : Prop where
  t1 : ∀ ts, Le (parseTerm1 mode n ts) (parseTerm1 mode (n + 1) ts)
  args : ∀ ts, Le (parseArgs mode n ts) (parseArgs mode (n + 1) ts)
  cls : ∀ pol ts, Le (parseClauses mode pol n ts) (parseClauses mode pol (n + 1) ts)
  post : ∀ t ts, Le (parsePostfix mode n t ts) (parsePostfix mode (n + 1) t ts)
  braced : ∀ ts, Le (parseBraced mode n ts) (parseBraced mode (n + 1) ts)
  thenElse : ∀ ts, Le (parseThenElse mode n ts) (parseThenElse mode (n + 1) ts)
  term : ∀ b ts, Le (parseTerm mode n b ts) (parseTerm mode (n + 1) b ts)

macro "le_go" ih:ident : tactic => `(tactic| repeat' (first
  | exact Le.refl _
  | exact ($ih).post _ _
  | le_bind_with (Le.refl _)
  | le_bind_with (($ih).t1 _)
  | le_bind_with (($ih).args _)
  | le_bind_with (($ih).cls _ _)
  | le_bind_with (($ih).braced _)
  | le_bind_with (($ih).thenElse _)
  | le_bind_with (($ih).term _ _)
  | le_bind_with (le_parseTy _ _)
  | le_bind_with (le_parseOptTyArgs _ _)
  | le_bind_with (le_parseOptNames _ _)
  | split))

set_option maxHeartbeats 400000 in
theorem le_terms (mode : LiteralMode) : ∀ n, LeIH mode n := by
  intro n
  induction n with
  | zero =>
    constructor <;> intros <;> left <;> first
      | (unfold parseTerm1; rfl) | (unfold parseArgs; rfl) | (unfold parseClauses; rfl)
      | (unfold parsePostfix; rfl) | (unfold parseBraced; rfl) | (unfold parseThenElse; rfl)
      | (unfold parseTerm; rfl)
  | succ n ih =>
    constructor
    · intro ts; unfold parseTerm1; le_go ih
    · intro ts; unfold parseArgs; le_go ih
    · intro pol ts; unfold parseClauses; le_go ih
    · intro t ts; unfold parsePostfix; le_go ih
    · intro ts; unfold parseBraced; le_go ih
    · intro ts; unfold parseThenElse; le_go ih
    · intro b ts; unfold parseTerm; le_go ih

end Scc.Fun.Parse
