/-
  Scc.Fun.ZeroEdge — executable decision of the zero-edge side condition of C16 (`ZeroEdgeOkProg`,
  Scc/Fun/ParseInRange.lean): no comparison whose first operand ENDS with the literal `0` or whose
  second operand STARTS with it.  The check uses it as the SHAPE KEY of the known finding D3: a
  formatting failure on a program that satisfies the condition contradicts theorem `C16_fmt` and is a
  new violation; one on a program that violates it is the recorded finding.
-/
import Scc.Fun.ParseInRange

namespace Scc.Fun.Parse
open Scc.Fun Scc.Fun.Print

mutual
  def zeroEdgeOkB : Term → Bool
    | .var .. => true
    | .lit _ => true
    | .op a _ b => zeroEdgeOkB a && zeroEdgeOkB b
    | .ifc _ a b t e _ =>
      zeroEdgeOkB a && zeroEdgeOkB b && zeroEdgeOkB t && zeroEdgeOkB e && !(endsZero a) && !(startsZero b)
    | .ifz _ a t e _ => zeroEdgeOkB a && zeroEdgeOkB t && zeroEdgeOkB e && !(endsZero a)
    | .print _ a n _ => zeroEdgeOkB a && zeroEdgeOkB n
    | .letIn _ _ b i _ => zeroEdgeOkB b && zeroEdgeOkB i
    | .call _ as _ => zeroEdgeOkBs as
    | .ctor _ as _ => zeroEdgeOkBs as
    | .dtor s _ _ as _ => zeroEdgeOkB s && zeroEdgeOkBs as
    | .case s _ cs _ => zeroEdgeOkB s && zeroEdgeOkBCs cs
    | .new cs _ => zeroEdgeOkBCs cs
    | .label _ t _ => zeroEdgeOkB t
    | .goto _ t _ => zeroEdgeOkB t
    | .exit t _ => zeroEdgeOkB t
    | .paren t => zeroEdgeOkB t
  def zeroEdgeOkBs : Terms → Bool
    | .nil => true
    | .cons t r => zeroEdgeOkB t && zeroEdgeOkBs r
  def zeroEdgeOkBCs : Clauses → Bool
    | .nil => true
    | .cons _ _ _ _ b r => zeroEdgeOkB b && zeroEdgeOkBCs r
end

mutual
  theorem zeroEdgeOkB_sound : (t : Term) → zeroEdgeOkB t = true → ZeroEdgeOk t
    | .var .., _ => trivial
    | .lit _, _ => trivial
    | .op a _ b, h => by
      simp only [zeroEdgeOkB, Bool.and_eq_true] at h
      exact ⟨zeroEdgeOkB_sound a h.1, zeroEdgeOkB_sound b h.2⟩
    | .ifc _ a b t e _, h => by
      simp only [zeroEdgeOkB, Bool.and_eq_true, Bool.not_eq_eq_eq_not, Bool.not_true] at h
      obtain ⟨⟨⟨⟨⟨ha, hb⟩, ht⟩, he⟩, h1⟩, h2⟩ := h
      exact ⟨zeroEdgeOkB_sound a ha, zeroEdgeOkB_sound b hb, zeroEdgeOkB_sound t ht, zeroEdgeOkB_sound e he, h1, h2⟩
    | .ifz _ a t e _, h => by
      simp only [zeroEdgeOkB, Bool.and_eq_true, Bool.not_eq_eq_eq_not, Bool.not_true] at h
      obtain ⟨⟨⟨ha, ht⟩, he⟩, h1⟩ := h
      exact ⟨zeroEdgeOkB_sound a ha, zeroEdgeOkB_sound t ht, zeroEdgeOkB_sound e he, h1⟩
    | .print _ a n _, h => by
      simp only [zeroEdgeOkB, Bool.and_eq_true] at h
      exact ⟨zeroEdgeOkB_sound a h.1, zeroEdgeOkB_sound n h.2⟩
    | .letIn _ _ b i _, h => by
      simp only [zeroEdgeOkB, Bool.and_eq_true] at h
      exact ⟨zeroEdgeOkB_sound b h.1, zeroEdgeOkB_sound i h.2⟩
    | .call _ as _, h => by
      simp only [zeroEdgeOkB] at h
      exact zeroEdgeOkBs_sound as h
    | .ctor _ as _, h => by
      simp only [zeroEdgeOkB] at h
      exact zeroEdgeOkBs_sound as h
    | .dtor s _ _ as _, h => by
      simp only [zeroEdgeOkB, Bool.and_eq_true] at h
      exact ⟨zeroEdgeOkB_sound s h.1, zeroEdgeOkBs_sound as h.2⟩
    | .case s _ cs _, h => by
      simp only [zeroEdgeOkB, Bool.and_eq_true] at h
      exact ⟨zeroEdgeOkB_sound s h.1, zeroEdgeOkBCs_sound cs h.2⟩
    | .new cs _, h => by
      simp only [zeroEdgeOkB] at h
      exact zeroEdgeOkBCs_sound cs h
    | .label _ t _, h => by
      simp only [zeroEdgeOkB] at h
      exact zeroEdgeOkB_sound t h
    | .goto _ t _, h => by
      simp only [zeroEdgeOkB] at h
      exact zeroEdgeOkB_sound t h
    | .exit t _, h => by
      simp only [zeroEdgeOkB] at h
      exact zeroEdgeOkB_sound t h
    | .paren t, h => by
      simp only [zeroEdgeOkB] at h
      exact zeroEdgeOkB_sound t h
  theorem zeroEdgeOkBs_sound : (ts : Terms) → zeroEdgeOkBs ts = true → ZeroEdgeOks ts
    | .nil, _ => trivial
    | .cons t r, h => by
      simp only [zeroEdgeOkBs, Bool.and_eq_true] at h
      exact ⟨zeroEdgeOkB_sound t h.1, zeroEdgeOkBs_sound r h.2⟩
  theorem zeroEdgeOkBCs_sound : (cs : Clauses) → zeroEdgeOkBCs cs = true → ZeroEdgeOkCs cs
    | .nil, _ => trivial
    | .cons _ _ _ _ b r, h => by
      simp only [zeroEdgeOkBCs, Bool.and_eq_true] at h
      exact ⟨zeroEdgeOkB_sound b h.1, zeroEdgeOkBCs_sound r h.2⟩
end

/-- program level: every definition body satisfies the condition -/
def zeroEdgeOkProgB (p : Program) : Bool :=
  p.decls.all fun
    | .defn d => zeroEdgeOkB d.body
    | _ => true

theorem zeroEdgeOkProgB_sound (p : Program) (h : zeroEdgeOkProgB p = true) : ZeroEdgeOkProg p := by
  intro d hd
  have := (List.all_eq_true.mp h) d hd
  cases d with
  | data _ => trivial
  | codata _ => trivial
  | defn d => exact zeroEdgeOkB_sound d.body this

/-- line interface: S0 dump text ↦ `OK true` / `OK false` -/
def zeroEdgeLine (dumpS0 : String) : String :=
  match Sexp.parse dumpS0 with
  | none => "ERR sexp"
  | some sx =>
    match readProgram (dumpS0.length + 10) sx with
    | none => "ERR read"
    | some p => "OK " ++ toString (zeroEdgeOkProgB p)

end Scc.Fun.Parse
