/-
  Scc.Fun.LexProofs — lemmas about the lexer model (Scc.Fun.Lex): the one-step behaviour of
  `lexStep` on the text of each token (`lexStep_tokText`), and the main lemma `lexStream_spells`: a
  string that is a sequence of token texts separated by (possibly empty) white space lexes to exactly
  those tokens, provided every token is followed by something that cannot extend it (`okAfter`).
  `okAfter` is where the delicate tokens show: `0` followed (after white space) by a comparison
  symbol, a comparison symbol followed by `0`, `:` followed by `cns`.  Proof file.
-/
import Scc.Fun.Lex

namespace Scc.Fun.Lex

/-! ## white space -/

/-- a (possibly empty) run of white space -/
def Gap (g : List Char) : Prop := ∀ c ∈ g, isWs c = true

theorem Gap.nil : Gap [] := by intro c h; cases h

theorem Gap.cons {c : Char} {g : List Char} (hc : isWs c = true) (hg : Gap g) : Gap (c :: g) := by
  intro d hd
  cases hd with
  | head => exact hc
  | tail _ h => exact hg d h

theorem Gap.append {g h : List Char} (hg : Gap g) (hh : Gap h) : Gap (g ++ h) := by
  intro c hc
  rcases List.mem_append.mp hc with h1 | h1
  · exact hg c h1
  · exact hh c h1

theorem Gap.tail {c : Char} {g : List Char} (h : Gap (c :: g)) : Gap g :=
  fun d hd => h d (List.mem_cons_of_mem _ hd)

theorem Gap.head {c : Char} {g : List Char} (h : Gap (c :: g)) : isWs c = true :=
  h c (List.mem_cons_self)

theorem gap_space : Gap [' '] := Gap.cons (by decide) Gap.nil

theorem gap_replicate (k : Nat) : Gap (List.replicate k ' ') := by
  intro c hc
  have := List.eq_of_mem_replicate hc
  subst this; decide

theorem gap_newline (k : Nat) : Gap ('\n' :: List.replicate k ' ') :=
  Gap.cons (by decide) (gap_replicate k)

/-- the list is empty or its first character does not satisfy `p` -/
def notHead (p : Char → Bool) : List Char → Bool
  | [] => true
  | c :: _ => !p c

theorem dropWhile_all {p : Char → Bool} {a b : List Char} (ha : ∀ c ∈ a, p c = true)
    (hb : notHead p b = true) : (a ++ b).dropWhile p = b := by
  induction a with
  | nil =>
    cases b with
    | nil => rfl
    | cons c b => simp [notHead] at hb; simp [hb]
  | cons c a ih =>
    have hc := ha c List.mem_cons_self
    simp only [List.cons_append, List.dropWhile_cons, hc, if_true]
    exact ih (fun d hd => ha d (List.mem_cons_of_mem _ hd))

theorem takeWhile_all {p : Char → Bool} {a b : List Char} (ha : ∀ c ∈ a, p c = true)
    (hb : notHead p b = true) : (a ++ b).takeWhile p = a := by
  induction a with
  | nil =>
    cases b with
    | nil => rfl
    | cons c b => simp [notHead] at hb; simp [hb]
  | cons c a ih =>
    have hc := ha c List.mem_cons_self
    simp only [List.cons_append, List.takeWhile_cons, hc, if_true]
    rw [ih (fun d hd => ha d (List.mem_cons_of_mem _ hd))]

theorem dropWhile_gap {g r : List Char} (hg : Gap g) (hr : notHead isWs r = true) :
    (g ++ r).dropWhile isWs = r := dropWhile_all hg hr

/-! ## what may follow a token -/

/-- `== …`, `!= …`, `< …`, `> …` -/
def startsCmp : List Char → Bool
  | '=' :: '=' :: _ => true
  | '!' :: '=' :: _ => true
  | '<' :: _ => true
  | '>' :: _ => true
  | _ => false

def startsCns : List Char → Bool
  | 'c' :: 'n' :: 's' :: _ => true
  | _ => false

/-- `okAfter t rest`: the text of `t` followed by `rest` is lexed as `t` and then `rest`. -/
def okAfter : Token → List Char → Bool
  | .lower _, r => notHead isIdC r
  | .upper _, r => notHead isIdC r
  | .kw _, r => notHead isIdC r
  | .num ds, r => notHead isDigitC r && (ds != ['0'] || !startsCmp (r.dropWhile isWs))
  | .cmp .lt, r => notHead (· == '=') r && notHead (· == '0') (r.dropWhile isWs)
  | .cmp .gt, r => notHead (· == '=') r && notHead (· == '0') (r.dropWhile isWs)
  | .cmp _, r => notHead (· == '0') (r.dropWhile isWs)
  | .colon, r => !startsCns (r.dropWhile isWs)
  | .assign, r => notHead (fun c => c == '=' || c == '>') r
  | .slash, r => notHead (· == '/') r
  | .zcmpR _, _ => false
  | .bad, _ => false
  | _, _ => true

/-- `TokText t txt`: `txt` is a spelling of the token `t` (the printer never emits the mirrored
zero comparisons `zcmpR`, they have no spelling here). -/
inductive TokText : Token → List Char → Prop where
  | lparen : TokText .lparen ['(']
  | rparen : TokText .rparen [')']
  | lbrace : TokText .lbrace ['{']
  | rbrace : TokText .rbrace ['}']
  | lbrack : TokText .lbrack ['[']
  | rbrack : TokText .rbrack [']']
  | semi : TokText .semi [';']
  | fatArrow : TokText .fatArrow ['=', '>']
  | comma : TokText .comma [',']
  | colon : TokText .colon [':']
  | dot : TokText .dot ['.']
  | assign : TokText .assign ['=']
  | plus : TokText .plus ['+']
  | star : TokText .star ['*']
  | minus : TokText .minus ['-']
  | slash : TokText .slash ['/']
  | percent : TokText .percent ['%']
  | cmp (c : IfSort) : TokText (.cmp c) (sortChars c)
  | kw (k : Kw) : TokText (.kw k) k.chars
  | lower (c : Char) (w : List Char) : isLowerC c = true → (∀ d ∈ w, isIdC d = true) →
      kwOf (c :: w) = none → TokText (.lower (c :: w)) (c :: w)
  | upper (c : Char) (w : List Char) : isUpperC c = true → (∀ d ∈ w, isIdC d = true) →
      TokText (.upper (c :: w)) (c :: w)
  | zero : TokText (.num ['0']) ['0']
  | num (c : Char) (w : List Char) : isDigitC c = true → c ≠ '0' → (∀ d ∈ w, isDigitC d = true) →
      TokText (.num (c :: w)) (c :: w)
  | zcmpL (c : IfSort) (g : List Char) : Gap g → TokText (.zcmpL c) (sortChars c ++ g ++ ['0'])
  | colonCns (g : List Char) : Gap g → TokText .colonCns (':' :: g ++ ['c', 'n', 's'])

/-! ## character class facts -/

theorem lower_not_ws {c : Char} (h : isLowerC c = true) : isWs c = false := by
  simp only [isLowerC, isWs, Bool.and_eq_true, decide_eq_true_eq] at *
  simp only [Bool.or_eq_false_iff, Bool.and_eq_false_iff, decide_eq_false_iff_not, beq_eq_false_iff_ne]
  omega

theorem upper_not_ws {c : Char} (h : isUpperC c = true) : isWs c = false := by
  simp only [isUpperC, isWs, Bool.and_eq_true, decide_eq_true_eq] at *
  simp only [Bool.or_eq_false_iff, Bool.and_eq_false_iff, decide_eq_false_iff_not, beq_eq_false_iff_ne]
  omega

theorem upper_not_lower {c : Char} (h : isUpperC c = true) : isLowerC c = false := by
  simp only [isUpperC, isLowerC, Bool.and_eq_true, decide_eq_true_eq] at *
  simp only [Bool.and_eq_false_iff, decide_eq_false_iff_not]
  omega

theorem digit_not_ws {c : Char} (h : isDigitC c = true) : isWs c = false := by
  simp only [isDigitC, isWs, Bool.and_eq_true, decide_eq_true_eq] at *
  simp only [Bool.or_eq_false_iff, Bool.and_eq_false_iff, decide_eq_false_iff_not, beq_eq_false_iff_ne]
  omega

theorem digit_not_lower {c : Char} (h : isDigitC c = true) : isLowerC c = false := by
  simp only [isDigitC, isLowerC, Bool.and_eq_true, decide_eq_true_eq] at *
  simp only [Bool.and_eq_false_iff, decide_eq_false_iff_not]
  omega

theorem digit_not_upper {c : Char} (h : isDigitC c = true) : isUpperC c = false := by
  simp only [isDigitC, isUpperC, Bool.and_eq_true, decide_eq_true_eq] at *
  simp only [Bool.and_eq_false_iff, decide_eq_false_iff_not]
  omega


/-! ## one step on the text of a token -/

/-- evaluate `lexStep` on an input whose first characters are known -/
macro "lex_eval" : tactic => `(tactic| (
  unfold lexStep
  simp (config := {decide := true}) only [List.cons_append, List.nil_append, if_false, if_true]))

theorem step_slash {rest : List Char} (ok : okAfter .slash rest = true) :
    lexStep ('/' :: rest) = .tok .slash rest := by
  cases rest with
  | nil => lex_eval
  | cons c r =>
    simp [okAfter, notHead] at ok
    lex_eval
    split
    · rename_i h; cases h; exact absurd rfl ok
    · rfl

theorem step_assign {rest : List Char} (ok : okAfter .assign rest = true) :
    lexStep ('=' :: rest) = .tok .assign rest := by
  cases rest with
  | nil => lex_eval
  | cons c r =>
    simp [okAfter, notHead] at ok
    lex_eval
    split
    · rename_i h; cases h; exact absurd rfl ok.1
    · rename_i h; cases h; exact absurd rfl ok.2
    · rfl

theorem step_colon {rest : List Char} (ok : okAfter .colon rest = true) :
    lexStep (':' :: rest) = .tok .colon rest := by
  simp [okAfter] at ok
  lex_eval
  split
  · rename_i h; rw [h] at ok; simp [startsCns] at ok
  · rfl

theorem afterCmp_plain {c : IfSort} {rest : List Char}
    (ok : notHead (· == '0') (rest.dropWhile isWs) = true) : afterCmp c rest = .tok (.cmp c) rest := by
  unfold afterCmp
  split
  · rename_i h; rw [h] at ok; simp [notHead] at ok
  · rfl

theorem step_cmp {c : IfSort} {rest : List Char} (ok : okAfter (.cmp c) rest = true) :
    lexStep (sortChars c ++ rest) = .tok (.cmp c) rest := by
  cases c
  all_goals simp only [okAfter, Bool.and_eq_true] at ok
  · -- eq
    simp only [sortChars]; lex_eval; exact afterCmp_plain ok
  · simp only [sortChars]; lex_eval; exact afterCmp_plain ok
  · -- lt
    simp only [sortChars]; lex_eval
    cases rest with
    | nil => exact afterCmp_plain ok.2
    | cons d r =>
      have h1 := ok.1
      simp [notHead] at h1
      split
      · rename_i h; cases h; exact absurd rfl h1
      · exact afterCmp_plain ok.2
  · simp only [sortChars]; lex_eval; exact afterCmp_plain ok
  · simp only [sortChars]; lex_eval
    cases rest with
    | nil => exact afterCmp_plain ok.2
    | cons d r =>
      have h1 := ok.1
      simp [notHead] at h1
      split
      · rename_i h; cases h; exact absurd rfl h1
      · exact afterCmp_plain ok.2
  · simp only [sortChars]; lex_eval; exact afterCmp_plain ok

theorem step_lowerword {c : Char} {w rest : List Char} (hc : isLowerC c = true)
    (hw : ∀ d ∈ w, isIdC d = true) (hr : notHead isIdC rest = true) :
    lexStep (c :: w ++ rest) = match kwOf (c :: w) with
      | some k => .tok (.kw k) rest
      | none => .tok (.lower (c :: w)) rest := by
  unfold lexStep
  simp only [List.cons_append, lower_not_ws hc, hc, if_true, Bool.false_eq_true, if_false,
    takeWhile_all hw hr, dropWhile_all hw hr]
  rfl

theorem step_kw {k : Kw} {rest : List Char} (ok : okAfter (.kw k) rest = true) :
    lexStep (k.chars ++ rest) = .tok (.kw k) rest := by
  simp only [okAfter] at ok
  cases k
  all_goals
    simp only [Kw.chars]
    rw [step_lowerword (by decide) (by decide) ok]
    rfl

theorem step_lower {c : Char} {w rest : List Char} (hc : isLowerC c = true)
    (hw : ∀ d ∈ w, isIdC d = true) (hk : kwOf (c :: w) = none)
    (ok : okAfter (.lower (c :: w)) rest = true) :
    lexStep (c :: w ++ rest) = .tok (.lower (c :: w)) rest := by
  simp only [okAfter] at ok
  rw [step_lowerword hc hw ok, hk]

theorem step_upper {c : Char} {w rest : List Char} (hc : isUpperC c = true)
    (hw : ∀ d ∈ w, isIdC d = true)
    (ok : okAfter (.upper (c :: w)) rest = true) :
    lexStep (c :: w ++ rest) = .tok (.upper (c :: w)) rest := by
  simp only [okAfter] at ok
  unfold lexStep
  simp only [List.cons_append, upper_not_ws hc, upper_not_lower hc, hc, if_true, Bool.false_eq_true,
    if_false, takeWhile_all hw ok, dropWhile_all hw ok]

theorem step_zero {rest : List Char} (ok : okAfter (.num ['0']) rest = true) :
    lexStep ('0' :: rest) = .tok (.num ['0']) rest := by
  simp [okAfter] at ok
  lex_eval
  unfold afterZero
  have h := ok.2
  generalize rest.dropWhile isWs = d at h
  split <;> simp [startsCmp] at h
  rfl

theorem step_num {c : Char} {w rest : List Char} (hc : isDigitC c = true) (h0 : c ≠ '0')
    (hw : ∀ d ∈ w, isDigitC d = true) (ok : okAfter (.num (c :: w)) rest = true) :
    lexStep (c :: w ++ rest) = .tok (.num (c :: w)) rest := by
  simp only [okAfter, Bool.and_eq_true] at ok
  unfold lexStep
  have h0' : (c == '0') = false := by simp [h0]
  simp only [List.cons_append, digit_not_ws hc, digit_not_lower hc, digit_not_upper hc, hc, h0', if_true,
    Bool.false_eq_true, if_false, takeWhile_all hw ok.1, dropWhile_all hw ok.1]

theorem afterCmp_zero {c : IfSort} {g rest : List Char} (hg : Gap g) :
    afterCmp c (g ++ '0' :: rest) = .tok (.zcmpL c) rest := by
  unfold afterCmp
  rw [dropWhile_gap hg (by simp [notHead]; decide)]
  all_goals rfl

theorem step_zcmpL {c : IfSort} {g rest : List Char} (hg : Gap g) :
    lexStep (sortChars c ++ g ++ ['0'] ++ rest) = .tok (.zcmpL c) rest := by
  cases c
  all_goals
    simp only [sortChars, List.append_assoc, List.cons_append, List.nil_append]
    lex_eval
  · exact afterCmp_zero hg
  · exact afterCmp_zero hg
  · -- lt: the character after `<` is white space or `0`, not `=`
    cases g with
    | nil => exact afterCmp_zero (g := []) Gap.nil
    | cons d g =>
      have hd := hg.head
      split
      · rename_i h; cases h; exact absurd hd (by decide)
      · exact afterCmp_zero hg
  · exact afterCmp_zero hg
  · cases g with
    | nil => exact afterCmp_zero (g := []) Gap.nil
    | cons d g =>
      have hd := hg.head
      split
      · rename_i h; cases h; exact absurd hd (by decide)
      · exact afterCmp_zero hg
  · exact afterCmp_zero hg

theorem step_colonCns {g rest : List Char} (hg : Gap g) :
    lexStep (':' :: g ++ ['c', 'n', 's'] ++ rest) = .tok .colonCns rest := by
  simp only [List.append_assoc, List.cons_append, List.nil_append]
  lex_eval
  rw [dropWhile_gap hg (by simp [notHead]; decide)]
  all_goals rfl


theorem tokText_head {t : Token} {txt : List Char} (h : TokText t txt) :
    ∃ c r, txt = c :: r ∧ isWs c = false := by
  cases h with
  | cmp c => cases c <;> exact ⟨_, _, rfl, by decide⟩
  | kw k => cases k <;> exact ⟨_, _, rfl, by decide⟩
  | lower c w hc _ _ => exact ⟨c, w, rfl, lower_not_ws hc⟩
  | upper c w hc _ => exact ⟨c, w, rfl, upper_not_ws hc⟩
  | num c w hc _ _ => exact ⟨c, w, rfl, digit_not_ws hc⟩
  | zcmpL c g _ => cases c <;> exact ⟨_, _, rfl, by decide⟩
  | colonCns g _ => exact ⟨_, _, rfl, by decide⟩
  | _ => exact ⟨_, _, rfl, by decide⟩

/-- The text of a token followed by an admissible rest is lexed as that token. -/
theorem lexStep_tokText {t : Token} {txt rest : List Char} (h : TokText t txt)
    (ok : okAfter t rest = true) : lexStep (txt ++ rest) = .tok t rest := by
  cases h with
  | lparen => lex_eval
  | rparen => lex_eval
  | lbrace => lex_eval
  | rbrace => lex_eval
  | lbrack => lex_eval
  | rbrack => lex_eval
  | semi => lex_eval
  | fatArrow => lex_eval
  | comma => lex_eval
  | colon => exact step_colon ok
  | dot => lex_eval
  | assign => exact step_assign ok
  | plus => lex_eval
  | star => lex_eval
  | minus => lex_eval
  | slash => exact step_slash ok
  | percent => lex_eval
  | cmp c => exact step_cmp ok
  | kw k => exact step_kw ok
  | lower c w hc hw hk => exact step_lower hc hw hk ok
  | upper c w hc hw => exact step_upper hc hw ok
  | zero => exact step_zero ok
  | num c w hc h0 hw => exact step_num hc h0 hw ok
  | zcmpL c g hg => exact step_zcmpL hg
  | colonCns g hg => exact step_colonCns hg

theorem lexStep_ws {d : Char} {cs : List Char} (hd : isWs d = true) :
    lexStep (d :: cs) = .skip (cs.dropWhile isWs) := by
  unfold lexStep
  simp only [hd, if_true]

/-! ## spelled token sequences -/

/-- `Spells ts s`: `s` consists of spellings of the tokens `ts`, each preceded by a (possibly empty)
gap of white space and followed by something that cannot extend it, plus a final gap. -/
inductive Spells : List Token → List Char → Prop where
  | nil {g : List Char} : Gap g → Spells [] g
  | tok {g : List Char} {t : Token} {txt : List Char} {ts : List Token} {rest : List Char} :
      Gap g → TokText t txt → okAfter t rest = true → Spells ts rest →
      Spells (t :: ts) (g ++ (txt ++ rest))

theorem lexLoop_gap {g : List Char} (hg : Gap g) : ∀ f, g.length ≤ f → lexLoop f g = [] := by
  intro f hf
  cases g with
  | nil => cases f <;> rfl
  | cons d g =>
    cases f with
    | zero => simp at hf
    | succ f =>
      have h1 : (g.dropWhile isWs) = [] := by
        have := dropWhile_gap (g := g) (r := []) hg.tail rfl
        simpa using this
      simp only [lexLoop, lexStep_ws hg.head, h1]

theorem lexLoop_tokText {t : Token} {txt rest : List Char} (h : TokText t txt)
    (ok : okAfter t rest = true) : ∀ f, (txt ++ rest).length ≤ f →
    ∃ f', rest.length ≤ f' ∧ lexLoop f (txt ++ rest) = t :: lexLoop f' rest := by
  intro f hf
  obtain ⟨c, r, rfl, _⟩ := tokText_head h
  cases f with
  | zero => simp at hf
  | succ f =>
    refine ⟨f, by simp at hf; omega, ?_⟩
    have hs := lexStep_tokText h ok
    simp only [List.cons_append] at hs ⊢
    simp only [lexLoop, hs]

/-- Main lemma: a spelled token sequence is lexed to exactly these tokens (any sufficient fuel). -/
theorem lexLoop_spells {ts : List Token} {s : List Char} (h : Spells ts s) :
    ∀ f, s.length ≤ f → lexLoop f s = ts := by
  induction h with
  | nil hg => exact lexLoop_gap hg
  | @tok g t txt ts rest hg ht ok _ ih =>
    intro f hf
    cases g with
    | nil =>
      obtain ⟨f', hf', he⟩ := lexLoop_tokText ht ok f (by simpa using hf)
      simp only [List.nil_append]
      rw [he, ih f' hf']
    | cons d g =>
      cases f with
      | zero => simp at hf
      | succ f =>
        obtain ⟨c, r, hc, hws⟩ := tokText_head ht
        have h1 : (g ++ (txt ++ rest)).dropWhile isWs = txt ++ rest := by
          apply dropWhile_gap hg.tail
          subst hc
          simp [notHead, hws]
        have hlen : (txt ++ rest).length ≤ f := by simp at hf ⊢; omega
        obtain ⟨f', hf', he⟩ := lexLoop_tokText ht ok f hlen
        simp only [List.cons_append, lexLoop, lexStep_ws hg.head, h1]
        rw [he, ih f' hf']

theorem lexStream_spells {ts : List Token} {s : List Char} (h : Spells ts s) : lexStream s = ts :=
  lexLoop_spells h _ (Nat.le_refl _)

theorem tokText_ne_bad {t : Token} {txt : List Char} (h : TokText t txt) : t ≠ .bad := by
  cases h <;> simp

theorem spells_no_bad {ts : List Token} {s : List Char} (h : Spells ts s) : Token.bad ∉ ts := by
  induction h with
  | nil => simp
  | tok _ ht _ _ ih =>
    intro hm
    cases hm with
    | head => exact tokText_ne_bad ht rfl
    | tail _ h => exact ih h

theorem lexChars_spells {ts : List Token} {s : List Char} (h : Spells ts s) : lexChars s = .ok ts := by
  unfold lexChars
  simp only [lexStream_spells h]
  have := spells_no_bad h
  simp [this]

/-- prepend white space -/
theorem Spells.gap {ts : List Token} {s g : List Char} (hg : Gap g) (h : Spells ts s) :
    Spells ts (g ++ s) := by
  cases h with
  | nil hg' => exact .nil (hg.append hg')
  | @tok g' t txt ts rest hg' ht ok hs =>
    rw [← List.append_assoc]
    exact .tok (hg.append hg') ht ok hs

/-- prepend a token text -/
theorem Spells.text {t : Token} {txt : List Char} {ts : List Token} {rest : List Char}
    (ht : TokText t txt) (ok : okAfter t rest = true) (h : Spells ts rest) :
    Spells (t :: ts) (txt ++ rest) := by
  have := Spells.tok Gap.nil ht ok h
  simpa using this

end Scc.Fun.Lex
