/-
  Scc.Fun.SafetyTyping — the judgements of the type-safety proof of the Fun abstract machine
  (`Scc.Fun.step`, Scc/Fun/Sem.lean).  Proof file (no executable model code).

  1. `ATyped p Γ t τ` — typing of a CHECKED term (the output of the checker; `p` is the source
     program, it supplies the type declarations and the signatures of the definitions): the rules
     of `Typing.HasType` and, in addition, every annotation the machine READS is the right one:
       * `ty` of every node is `some τ` for the type τ the node is checked against
         (`Term.getType` is the type of the term: `ATyped.getType`),
       * `chi` of a variable in term position is `some prd`, of a covariable argument `some cns`,
       * the context of a clause is `bindNames names sig`.
     `ATyped.hasType`: forgetting the annotations gives `HasType`.  The checker produces `ATyped`
     terms (Scc/Fun/SafetyCheck.lean).
  2. typing of machine states against the declarations of `p`:
       `VT v τ`       value `v` has type τ: integers at `i64`, constructor values at instances of
                      data types (arguments typed by the instantiated signature), closures and
                      thunks at instances of codata types,
       `BT v b`       value for a binding: a `VT` value for a producer binding, a continuation
                      `cont k` with `KT k b.ty` for a consumer binding,
       `VTs`, `EnvT`  value lists against parameter lists, environments against contexts
                      (`(x, v) :: ρ` against `Γ ++ [x : ..]`),
       `FT f σ τ`     the frame `f` takes a value of type σ and passes a value of type τ on,
       `KT k τ`       the stack `k` takes a value of type τ (the answer type is `i64`),
       `HT h bs τ`    the argument head `h` takes the parameters `bs` and yields a τ,
       `ST s`         the state `s` is well-typed.
-/
import Scc.Fun.Sem
import Scc.Fun.Typing
import Scc.Fun.TypingLemmas

namespace Scc.Fun.Safety
open Scc.Fun Scc.Fun.Typing

/-! ## typing of checked terms -/

mutual
  inductive ATyped (p : Program) : Ctx → Term → Ty → Prop
    | var {Γ x τ} (b : Binding) : lookupCtx Γ x = some b → b.chi = .prd → b.ty = τ → WfTy p τ →
        ATyped p Γ (.var x (some τ) (some .prd)) τ
    | lit {Γ n} : ATyped p Γ (.lit n) .i64
    | op {Γ a o b} : ATyped p Γ a .i64 → ATyped p Γ b .i64 → ATyped p Γ (.op a o b) .i64
    | ifc {Γ s a b t e τ} : ATyped p Γ a .i64 → ATyped p Γ b .i64 →
        ATyped p Γ t τ → ATyped p Γ e τ → ATyped p Γ (.ifc s a b t e (some τ)) τ
    | ifz {Γ s a t e τ} : ATyped p Γ a .i64 →
        ATyped p Γ t τ → ATyped p Γ e τ → ATyped p Γ (.ifz s a t e (some τ)) τ
    | print {Γ nl a n τ} : ATyped p Γ a .i64 → ATyped p Γ n τ →
        ATyped p Γ (.print nl a n (some τ)) τ
    | letIn {Γ x σ bound body τ} : WfTy p σ → ATyped p Γ bound σ →
        ATyped p (Γ ++ [⟨x, .prd, σ⟩]) body τ → ATyped p Γ (.letIn x σ bound body (some τ)) τ
    | call {Γ args} (d : Def) : d ∈ defs p → WfTy p d.retTy →
        AArgs p Γ args d.ctx → ATyped p Γ (.call d.name args (some d.retTy)) d.retTy
    | ctor {Γ args targs} (d : Data) (c : CtorSig) : d ∈ datas p → c ∈ d.ctors →
        WfTy p (.decl d.name targs) →
        AArgs p Γ args (csubst (instSubst d.typeParams targs) c.args) →
        ATyped p Γ (.ctor c.name args (some (.decl d.name targs))) (.decl d.name targs)
    | dtor {Γ scrut targs args} (d : Codata) (s : DtorSig) : d ∈ codatas p → s ∈ d.dtors →
        WfTy p (.decl d.name targs) → ATyped p Γ scrut (.decl d.name targs) →
        AArgs p Γ args (csubst (instSubst d.typeParams targs) s.args) →
        WfTy p (tsubst (instSubst d.typeParams targs) s.contTy) →
        ATyped p Γ (.dtor scrut s.name targs args
          (some (tsubst (instSubst d.typeParams targs) s.contTy)))
          (tsubst (instSubst d.typeParams targs) s.contTy)
    | case {Γ scrut targs cs τ} (d : Data) : d ∈ datas p → cs ≠ .nil →
        (clauseXtors cs).Perm (d.ctors.map (·.name)) →
        WfTy p (.decl d.name targs) → ATyped p Γ scrut (.decl d.name targs) →
        AClauses p Γ
          (d.ctors.map fun c => (c.name, csubst (instSubst d.typeParams targs) c.args, τ)) cs →
        ATyped p Γ (.case scrut targs cs (some τ)) τ
    | new {Γ cs targs} (d : Codata) : d ∈ codatas p →
        (clauseXtors cs).Perm (d.dtors.map (·.name)) →
        WfTy p (.decl d.name targs) →
        (∀ s ∈ d.dtors, WfTy p (tsubst (instSubst d.typeParams targs) s.contTy)) →
        AClauses p Γ
          (d.dtors.map fun s => (s.name, csubst (instSubst d.typeParams targs) s.args,
            tsubst (instSubst d.typeParams targs) s.contTy)) cs →
        ATyped p Γ (.new cs (some (.decl d.name targs))) (.decl d.name targs)
    | label {Γ a body τ} : ATyped p (Γ ++ [⟨a, .cns, τ⟩]) body τ →
        ATyped p Γ (.label a body (some τ)) τ
    | goto {Γ a arg τ} (b : Binding) : lookupCtx Γ a = some b → b.chi = .cns → WfTy p b.ty →
        ATyped p Γ arg b.ty → ATyped p Γ (.goto a arg (some τ)) τ
    | exit {Γ arg τ} : ATyped p Γ arg .i64 → ATyped p Γ (.exit arg (some τ)) τ
    | paren {Γ t τ} : ATyped p Γ t τ → ATyped p Γ (.paren t) τ
  inductive AArgs (p : Program) : Ctx → Terms → Ctx → Prop
    | nil {Γ} : AArgs p Γ .nil []
    | prd {Γ t ts} {b : Binding} {bs : Ctx} : b.chi = .prd → WfTy p b.ty → ATyped p Γ t b.ty →
        AArgs p Γ ts bs → AArgs p Γ (.cons t ts) (b :: bs)
    | cns {Γ x ts} {b : Binding} {bs : Ctx} (b' : Binding) : b.chi = .cns →
        lookupCtx Γ x = some b' → b'.chi = .cns → b'.ty = b.ty → WfTy p b.ty →
        AArgs p Γ ts bs → AArgs p Γ (.cons (.var x (some b.ty) (some .cns)) ts) (b :: bs)
  inductive AClauses (p : Program) : Ctx → List (String × Ctx × Ty) → Clauses → Prop
    | nil {Γ sigs} : AClauses p Γ sigs .nil
    | cons {Γ sigs pol x ns body rest} (sig : Ctx) (bodyTy : Ty) : (x, sig, bodyTy) ∈ sigs →
        ns.Nodup → ns.length = sig.length → ATyped p (Γ ++ bindNames ns sig) body bodyTy →
        AClauses p Γ sigs rest → AClauses p Γ sigs (.cons pol x ns (bindNames ns sig) body rest)
end

/-! ### forgetting the annotations; the annotations are the types -/

mutual
  theorem ATyped.hasType {p : Program} : ∀ {Γ : Ctx} {t : Term} {τ : Ty},
      ATyped p Γ t τ → HasType p Γ t τ
    | _, _, _, .var b h1 h2 h3 h4 =>
      .var b h1 h2 h3 h4 (by simp) (by intro t ht; cases ht; rfl)
    | _, _, _, .lit => .lit
    | _, _, _, .op a b => .op a.hasType b.hasType
    | _, _, _, .ifc a b t e => .ifc a.hasType b.hasType t.hasType e.hasType
    | _, _, _, .ifz a t e => .ifz a.hasType t.hasType e.hasType
    | _, _, _, .print a n => .print a.hasType n.hasType
    | _, _, _, .letIn w b i => .letIn w b.hasType i.hasType
    | _, _, _, .call d hd w as => .call d hd w as.argsTyped
    | _, _, _, .ctor d c hd hc w as => .ctor d c hd hc w as.argsTyped
    | _, _, _, .dtor d s hd hs w sc as w' => .dtor d s hd hs w sc.hasType as.argsTyped w'
    | _, _, _, .case d hd hne hp w sc cl => .case d hd hne hp w sc.hasType cl.clausesTyped
    | _, _, _, .new d hd hp w hr cl => .new d hd hp w hr cl.clausesTyped
    | _, _, _, .label b => .label b.hasType
    | _, _, _, .goto b h1 h2 h3 a => .goto b h1 h2 h3 a.hasType
    | _, _, _, .exit a => .exit a.hasType
    | _, _, _, .paren t => .paren t.hasType
  theorem AArgs.argsTyped {p : Program} : ∀ {Γ : Ctx} {ts : Terms} {bs : Ctx},
      AArgs p Γ ts bs → ArgsTyped p Γ ts bs
    | _, _, _, .nil => .nil
    | _, _, _, .prd h1 h2 t r => .prd h1 h2 t.hasType r.argsTyped
    | _, _, _, .cns b' h1 h2 h3 h4 h5 r =>
      .cns b' h1 h2 h3 h4 h5 (by simp) (by intro t ht; cases ht; rfl) r.argsTyped
  theorem AClauses.clausesTyped {p : Program} : ∀ {Γ : Ctx} {sigs : List (String × Ctx × Ty)}
      {cs : Clauses}, AClauses p Γ sigs cs → ClausesTyped p Γ sigs cs
    | _, _, _, .nil => .nil
    | _, _, _, .cons sig bt h1 h2 h3 b r => .cons sig bt h1 h2 h3 b.hasType r.clausesTyped
end

/-- the annotation of a checked term is its type -/
theorem ATyped.getType {p : Program} : ∀ {Γ : Ctx} {t : Term} {τ : Ty},
    ATyped p Γ t τ → t.getType = some τ
  | _, _, _, .var .. => rfl
  | _, _, _, .lit => rfl
  | _, _, _, .op .. => rfl
  | _, _, _, .ifc .. => rfl
  | _, _, _, .ifz .. => rfl
  | _, _, _, .print .. => rfl
  | _, _, _, .letIn .. => rfl
  | _, _, _, .call .. => rfl
  | _, _, _, .ctor .. => rfl
  | _, _, _, .dtor .. => rfl
  | _, _, _, .case .. => rfl
  | _, _, _, .new .. => rfl
  | _, _, _, .label .. => rfl
  | _, _, _, .goto .. => rfl
  | _, _, _, .exit .. => rfl
  | _, _, _, .paren t => by simpa [Term.getType] using t.getType

theorem AArgs.length {p : Program} : ∀ {Γ : Ctx} {ts : Terms} {bs : Ctx},
    AArgs p Γ ts bs → ts.toList.length = bs.length
  | _, _, _, .nil => rfl
  | _, _, _, .prd _ _ _ r => by simp [Terms.toList, r.length]
  | _, _, _, .cns _ _ _ _ _ _ r => by simp [Terms.toList, r.length]

/-! ## typing of machine states -/

mutual
  /-- `VT p v τ`: the value `v` has type τ -/
  inductive VT (p : Program) : Value → Ty → Prop
    | int {n} : VT p (.int n) .i64
    | con {K vs τ targs} (d : Data) (c : CtorSig) : d ∈ datas p → c ∈ d.ctors →
        WfTy p (.decl d.name targs) → K = c.name → τ = .decl d.name targs →
        VTs p vs (csubst (instSubst d.typeParams targs) c.args) → VT p (.con K vs) τ
    | obj {cs ρ τ} (Γ : Ctx) (an : Option Ty) : EnvT p ρ Γ → ATyped p Γ (.new cs an) τ →
        VT p (.obj cs ρ) τ
    | thunk {t ρ τ targs} (Γ : Ctx) (d : Codata) : d ∈ codatas p → τ = .decl d.name targs →
        EnvT p ρ Γ → ATyped p Γ t τ → VT p (.thunk t ρ) τ
  /-- a value for a binding: a typed value for a producer, a typed continuation for a consumer -/
  inductive BT (p : Program) : Value → Binding → Prop
    | prd {v b} : b.chi = .prd → VT p v b.ty → BT p v b
    | cns {k b} : b.chi = .cns → KT p k b.ty → BT p (.cont k) b
  inductive VTs (p : Program) : List Value → Ctx → Prop
    | nil : VTs p [] []
    | cons {v vs b bs} : BT p v b → VTs p vs bs → VTs p (v :: vs) (b :: bs)
  /-- environments grow at the head, contexts at the end -/
  inductive EnvT (p : Program) : Env → Ctx → Prop
    | nil : EnvT p [] []
    | cons {ρ Γ v} (b : Binding) : EnvT p ρ Γ → BT p v b → EnvT p ((b.var, v) :: ρ) (Γ ++ [b])
  /-- `HT p h bs τ`: with arguments for the parameters `bs` the head `h` yields a τ -/
  inductive HT (p : Program) : ArgHead → Ctx → Ty → Prop
    | call {f bs τ} (d : Def) : d ∈ defs p → f = d.name → bs = d.ctx → τ = d.retTy →
        HT p (.call f) bs τ
    | ctor {K bs τ targs} (d : Data) (c : CtorSig) : d ∈ datas p → c ∈ d.ctors →
        WfTy p (.decl d.name targs) → K = c.name →
        bs = csubst (instSubst d.typeParams targs) c.args → τ = .decl d.name targs →
        HT p (.ctor K) bs τ
    | dtor {v nm bs τ targs} (d : Codata) (s : DtorSig) : d ∈ codatas p → s ∈ d.dtors →
        VT p v (.decl d.name targs) → nm = s.name →
        bs = csubst (instSubst d.typeParams targs) s.args →
        τ = tsubst (instSubst d.typeParams targs) s.contTy → HT p (.dtor v nm) bs τ
  /-- `FT p f σ τ`: the frame `f` takes a σ and passes a τ on -/
  inductive FT (p : Program) : Frame → Ty → Ty → Prop
    | opL {o snd ρ} (Γ : Ctx) : EnvT p ρ Γ → ATyped p Γ snd .i64 → FT p (.opL o snd ρ) .i64 .i64
    | opR {o a} : FT p (.opR o a) .i64 .i64
    | ifL {s snd t e ρ τ} (Γ : Ctx) : EnvT p ρ Γ → ATyped p Γ snd .i64 → ATyped p Γ t τ →
        ATyped p Γ e τ → FT p (.ifL s snd t e ρ) .i64 τ
    | ifR {s a t e ρ τ} (Γ : Ctx) : EnvT p ρ Γ → ATyped p Γ t τ → ATyped p Γ e τ →
        FT p (.ifR s a t e ρ) .i64 τ
    | ifZ {s t e ρ τ} (Γ : Ctx) : EnvT p ρ Γ → ATyped p Γ t τ → ATyped p Γ e τ →
        FT p (.ifZ s t e ρ) .i64 τ
    | print {nl next ρ τ} (Γ : Ctx) : EnvT p ρ Γ → ATyped p Γ next τ →
        FT p (.print nl next ρ) .i64 τ
    | letF {x body ρ σ τ} (Γ : Ctx) : EnvT p ρ Γ → ATyped p (Γ ++ [⟨x, .prd, σ⟩]) body τ →
        FT p (.letF x body ρ) σ τ
    | arg {h done todo ρ σ τ} (Γ : Ctx) (bsDone : Ctx) (b : Binding) (bsTodo : Ctx) :
        HT p h (bsDone ++ b :: bsTodo) τ → VTs p done bsDone → b.chi = .prd → b.ty = σ →
        EnvT p ρ Γ → AArgs p Γ todo bsTodo → FT p (.arg h done todo ρ) σ τ
    | caseF {cs ρ σ τ targs} (Γ : Ctx) (d : Data) : d ∈ datas p → σ = .decl d.name targs →
        (clauseXtors cs).Perm (d.ctors.map (·.name)) → EnvT p ρ Γ →
        AClauses p Γ
          (d.ctors.map fun c => (c.name, csubst (instSubst d.typeParams targs) c.args, τ)) cs →
        FT p (.caseF cs ρ) σ τ
    | dtorScrut {nm args ρ σ τ targs} (Γ : Ctx) (d : Codata) (s : DtorSig) : d ∈ codatas p →
        s ∈ d.dtors → nm = s.name → σ = .decl d.name targs →
        τ = tsubst (instSubst d.typeParams targs) s.contTy → EnvT p ρ Γ →
        AArgs p Γ args (csubst (instSubst d.typeParams targs) s.args) →
        FT p (.dtorScrut nm args ρ) σ τ
    | dtorApply {nm vs σ τ targs} (d : Codata) (s : DtorSig) : d ∈ codatas p →
        s ∈ d.dtors → nm = s.name → σ = .decl d.name targs →
        τ = tsubst (instSubst d.typeParams targs) s.contTy →
        VTs p vs (csubst (instSubst d.typeParams targs) s.args) → FT p (.dtorApply nm vs) σ τ
  /-- `KT p k τ`: the stack `k` takes a τ; the program's answer is an integer -/
  inductive KT (p : Program) : Stack → Ty → Prop
    | nil : KT p [] .i64
    | exit {k} : KT p (.exitF :: k) .i64
    | cons {f k σ τ} : FT p f σ τ → KT p k τ → KT p (f :: k) σ
end

/-- well-typed machine states -/
inductive ST (p : Program) : State → Prop
  | eval {t ρ k} (Γ : Ctx) (τ : Ty) : EnvT p ρ Γ → ATyped p Γ t τ → KT p k τ → ST p (.eval t ρ k)
  | ret {v k} (τ : Ty) : VT p v τ → KT p k τ → ST p (.ret v k)
  | args {h done todo ρ k} (Γ : Ctx) (bsDone bsTodo : Ctx) (τ : Ty) :
      HT p h (bsDone ++ bsTodo) τ → VTs p done bsDone → EnvT p ρ Γ → AArgs p Γ todo bsTodo →
      KT p k τ → ST p (.args h done todo ρ k)

end Scc.Fun.Safety
