/-
  Scc.Fun.CheckNoPanic — the checker model never reaches one of its `panic` outcomes
  (`swap_remove` index, `unwrap_or_else(|| panic!(..))` in `check_with_table`) on programs whose
  names are identifiers: every rejection is a diagnostic.
-/
import Scc.Fun.CheckComplete4

namespace Scc.Fun.Check
open Scc.Fun.Typing

/-- finish a branch: either the hypothesis is absurd by constructors, or the error was propagated
from a call that cannot panic (the lemma is found by unification with a hypothesis) -/
macro "np_leaf" h:ident : tactic =>
  `(tactic| first
    | (cases $h:ident; done)
    | (cases $h:ident; assumption)
    | skip)

theorem insertCtorInstances_noPanic (m : List (String × Ty)) (tyArgs : Tys) :
    ∀ (xs : List String) (st : SymbolTable) (s : String),
    insertCtorInstances m tyArgs xs st ≠ .error (.panic s)
  | [], st, s => by simp [insertCtorInstances]
  | x :: r, st, s => by
    intro h
    simp only [insertCtorInstances] at h
    split at h
    · cases h
    · exact insertCtorInstances_noPanic m tyArgs r _ s h

theorem insertDtorInstances_noPanic (m : List (String × Ty)) (tyArgs : Tys) :
    ∀ (xs : List String) (st : SymbolTable) (s : String),
    insertDtorInstances m tyArgs xs st ≠ .error (.panic s)
  | [], st, s => by simp [insertDtorInstances]
  | x :: r, st, s => by
    intro h
    simp only [insertDtorInstances] at h
    split at h
    · cases h
    · exact insertDtorInstances_noPanic m tyArgs r _ s h

theorem createInstanceRest_noPanic (k : String) (ta : Tys) (pol : Polarity) (ps xs : List String)
    (st : SymbolTable) (s : String) : createInstanceRest k ta pol ps xs st ≠ .error (.panic s) := by
  intro h
  simp only [createInstanceRest] at h
  split at h
  · rename_i e he
    cases h
    cases pol
    · exact insertCtorInstances_noPanic _ _ _ _ s he
    · exact insertDtorInstances_noPanic _ _ _ _ s he
  · cases h

mutual
  theorem checkTy_noPanic : ∀ (τ : Ty) (st : SymbolTable) (s : String),
      checkTy τ st ≠ .error (.panic s)
    | .i64, st, s => by simp [checkTy]
    | .decl n args, st, s => by
      intro h
      simp only [checkTy] at h
      split at h
      · cases h
      · split at h
        · cases h
        · split at h
          · cases h
          · split at h
            · rename_i e he
              cases h
              exact checkTys_noPanic args st s he
            · exact createInstanceRest_noPanic _ _ _ _ _ _ s h
  theorem checkTys_noPanic : ∀ (ts : Tys) (st : SymbolTable) (s : String),
      checkTys ts st ≠ .error (.panic s)
    | .nil, st, s => by simp [checkTys]
    | .cons t r, st, s => by
      intro h
      simp only [checkTys] at h
      split at h
      · rename_i e he
        cases h
        exact checkTy_noPanic t st s he
      · exact checkTys_noPanic r _ s h
end

theorem checkEquality_noPanic (st : SymbolTable) (a b : Ty) (s : String) :
    checkEquality st a b ≠ .error (.panic s) := by
  intro h
  simp only [checkEquality] at h
  split at h
  · rename_i e he; cases h; exact checkTy_noPanic _ _ s he
  · split at h
    · rename_i e he; cases h; exact checkTy_noPanic _ _ s he
    · split at h <;> cases h

theorem checkAnnot_noPanic (st : SymbolTable) (ty : Option Ty) (b : Ty) (s : String) :
    checkAnnot st ty b ≠ .error (.panic s) := by
  intro h
  cases ty with
  | none => cases h
  | some t => exact checkEquality_noPanic _ _ _ s h

theorem lookupVarRev_noPanic : ∀ (l : List Binding) (x s : String),
    lookupVarRev l x ≠ .error (.panic s)
  | [], x, s => by simp [lookupVarRev]
  | b :: r, x, s => by
    intro h
    simp only [lookupVarRev] at h
    split at h
    · split at h <;> cases h
    · exact lookupVarRev_noPanic r x s h

theorem lookupCovarRev_noPanic : ∀ (l : List Binding) (x s : String),
    lookupCovarRev l x ≠ .error (.panic s)
  | [], x, s => by simp [lookupCovarRev]
  | b :: r, x, s => by
    intro h
    simp only [lookupCovarRev] at h
    split at h
    · split at h <;> cases h
    · exact lookupCovarRev_noPanic r x s h

theorem checkCovarArg_noPanic (st : SymbolTable) (Γ : Ctx) (x : String) (ty : Option Ty)
    (chi : Option Chi) (b : Ty) (s : String) :
    checkCovarArg st Γ x ty chi b ≠ .error (.panic s) := by
  intro h
  simp only [checkCovarArg] at h
  split at h
  · cases h
  · split at h
    · rename_i e he; cases h; exact lookupCovarRev_noPanic _ _ s he
    · split at h
      · rename_i e he; cases h; exact checkAnnot_noPanic _ _ _ s he
      · split at h
        · rename_i e he; cases h; exact checkEquality_noPanic _ _ _ s he
        · cases h

theorem resolveXtorTy_noPanic (pol : Polarity) (st : SymbolTable) (x : String) (ta : Tys)
    (s : String) : resolveXtorTy pol st x ta ≠ .error (.panic s) := by
  intro h
  simp only [resolveXtorTy] at h
  split at h
  · cases h
  · simp only [lookupTyTemplateForXtor] at h
    split at h
    · cases h
    · split at h
      · rename_i e he; cases h; exact checkTy_noPanic _ _ s he
      · cases h

theorem namesNoDups_noPanic : ∀ (l seen : List String) (s : String),
    namesNoDups l seen ≠ .error (.panic s)
  | [], _, s => by simp [namesNoDups]
  | b :: r, seen, s => by
    intro h
    simp only [namesNoDups] at h
    split at h
    · cases h
    · exact namesNoDups_noPanic r _ s h

theorem addTypes_noPanic (ns : List String) (c : Ctx) (s : String) :
    addTypes ns c ≠ .error (.panic s) := by
  intro h
  simp only [addTypes] at h
  split at h <;> cases h

/-- a checking closure that does not panic -/
def NoPanicK (k : Checker) : Prop := ∀ st Γ τ s, k st Γ τ ≠ .error (.panic s)

theorem clauseLoop_noPanic {sigOf : SymbolTable → String → Option (Ctx × Ty)} {missing : String}
    {checkRet : Bool} {tyArgs : Tys} {Γ : Ctx} :
    ∀ (xtors : List String) (ks : List ClauseK) (acc : List Clause) (st : SymbolTable) (s : String),
    (∀ k ∈ ks, NoPanicK k.body) →
    clauseLoop sigOf missing checkRet tyArgs Γ xtors ks acc st ≠ .error (.panic s)
  | [], ks, acc, st, s, _ => by simp [clauseLoop]
  | x :: rest, ks, acc, st, s, hks => by
    intro h
    simp only [clauseLoop] at h
    split at h
    · cases h
    · rename_i pos hpos
      split at h
      · -- the swap_remove index is in range
        rename_i hnone
        obtain ⟨hlt, _⟩ := List.findIdx?_eq_some_iff_getElem.mp hpos
        rw [List.getElem?_eq_getElem hlt] at hnone
        cases hnone
      · rename_i k hk
        split at h
        · cases h
        · split at h
          · rename_i e he
            cases h
            cases checkRet
            · simp at he
            · exact checkTy_noPanic _ _ s (by simpa using he)
          · split at h
            · rename_i e he; cases h; exact namesNoDups_noPanic _ _ s he
            · split at h
              · rename_i e he; cases h; exact addTypes_noPanic _ _ s he
              · split at h
                · rename_i e he
                  cases h
                  exact hks k (List.mem_of_getElem? hk) _ _ _ s he
                · exact clauseLoop_noPanic rest _ _ _ s
                    (fun k' hk' => hks k' (mem_of_mem_swapRemove hk')) h

macro "np_close" s:ident : tactic => `(tactic| first
  | (exact checkEquality_noPanic _ _ _ $s (by assumption))
  | (exact checkTy_noPanic _ _ $s (by assumption))
  | (exact checkAnnot_noPanic _ _ _ $s (by assumption))
  | (exact lookupVarRev_noPanic _ _ $s (by assumption))
  | (exact lookupCovarRev_noPanic _ _ $s (by assumption))
  | (exact resolveXtorTy_noPanic _ _ _ _ $s (by assumption))
  | (exact checkCovarArg_noPanic _ _ _ _ _ _ $s (by assumption)))

mutual
  theorem checkTerm_noPanic : ∀ (t : Term), NoPanicK (checkTerm t)
    | .var x ty chi => by
      intro st Γ τ s h
      simp only [checkTerm] at h
      repeat' split at h
      all_goals first
        | (cases h; done)
        | (cases h; np_close s)
    | .lit n => by
      intro st Γ τ s h
      simp only [checkTerm] at h
      repeat' split at h
      all_goals first
        | (cases h; done)
        | (cases h; np_close s)
    | .op a o b => by
      intro st Γ τ s h
      simp only [checkTerm] at h
      repeat' split at h
      all_goals first
        | (cases h; done)
        | (cases h; np_close s)
        | (cases h; exact checkTerm_noPanic a _ _ _ s (by assumption))
        | (cases h; exact checkTerm_noPanic b _ _ _ s (by assumption))
    | .ifc sr a b t e an => by
      intro st Γ τ s h
      simp only [checkTerm] at h
      repeat' split at h
      all_goals first
        | (cases h; done)
        | (cases h; exact checkTerm_noPanic a _ _ _ s (by assumption))
        | (cases h; exact checkTerm_noPanic b _ _ _ s (by assumption))
        | (cases h; exact checkTerm_noPanic t _ _ _ s (by assumption))
        | (cases h; exact checkTerm_noPanic e _ _ _ s (by assumption))
    | .ifz sr a t e an => by
      intro st Γ τ s h
      simp only [checkTerm] at h
      repeat' split at h
      all_goals first
        | (cases h; done)
        | (cases h; exact checkTerm_noPanic a _ _ _ s (by assumption))
        | (cases h; exact checkTerm_noPanic t _ _ _ s (by assumption))
        | (cases h; exact checkTerm_noPanic e _ _ _ s (by assumption))
    | .print nl a n an => by
      intro st Γ τ s h
      simp only [checkTerm] at h
      repeat' split at h
      all_goals first
        | (cases h; done)
        | (cases h; exact checkTerm_noPanic a _ _ _ s (by assumption))
        | (cases h; exact checkTerm_noPanic n _ _ _ s (by assumption))
    | .letIn x σ bound body an => by
      intro st Γ τ s h
      simp only [checkTerm] at h
      repeat' split at h
      all_goals first
        | (cases h; done)
        | (cases h; np_close s)
        | (cases h; exact checkTerm_noPanic bound _ _ _ s (by assumption))
        | (cases h; exact checkTerm_noPanic body _ _ _ s (by assumption))
    | .call f args an => by
      intro st Γ τ s h
      simp only [checkTerm] at h
      repeat' split at h
      all_goals first
        | (cases h; done)
        | (cases h; np_close s)
        | (cases h; exact checkArgs_noPanic args _ _ _ s (by assumption))
    | .ctor id args an => by
      intro st Γ τ s h
      simp only [checkTerm] at h
      repeat' split at h
      all_goals first
        | (cases h; done)
        | (cases h; np_close s)
        | (cases h; exact checkArgs_noPanic args _ _ _ s (by assumption))
    | .dtor scrut id tyArgs args an => by
      intro st Γ τ s h
      simp only [checkTerm] at h
      repeat' split at h
      all_goals first
        | (cases h; done)
        | (cases h; np_close s)
        | (cases h; exact checkTerm_noPanic scrut _ _ _ s (by assumption))
        | (cases h; exact checkArgs_noPanic args _ _ _ s (by assumption))
    | .case scrut tyArgs cs an => by
      intro st Γ τ s h
      have hcs := clauseCheckers_noPanic cs
      simp only [checkTerm] at h
      repeat' split at h
      all_goals first
        | (cases h; done)
        | (cases h; np_close s)
        | (cases h; exact checkTerm_noPanic scrut _ _ _ s (by assumption))
        | (cases h; exact clauseLoop_noPanic _ _ _ _ s hcs (by assumption))
    | .new cs an => by
      intro st Γ τ s h
      have hcs := clauseCheckers_noPanic cs
      simp only [checkTerm] at h
      repeat' split at h
      all_goals first
        | (cases h; done)
        | (cases h; np_close s)
        | (cases h; exact clauseLoop_noPanic _ _ _ _ s hcs (by assumption))
    | .label a body an => by
      intro st Γ τ s h
      simp only [checkTerm] at h
      repeat' split at h
      all_goals first
        | (cases h; done)
        | (cases h; exact checkTerm_noPanic body _ _ _ s (by assumption))
    | .goto a arg an => by
      intro st Γ τ s h
      simp only [checkTerm] at h
      repeat' split at h
      all_goals first
        | (cases h; done)
        | (cases h; np_close s)
        | (cases h; exact checkTerm_noPanic arg _ _ _ s (by assumption))
    | .exit arg an => by
      intro st Γ τ s h
      simp only [checkTerm] at h
      repeat' split at h
      all_goals first
        | (cases h; done)
        | (cases h; exact checkTerm_noPanic arg _ _ _ s (by assumption))
    | .paren inner => by
      intro st Γ τ s h
      simp only [checkTerm] at h
      repeat' split at h
      all_goals first
        | (cases h; done)
        | (cases h; exact checkTerm_noPanic inner _ _ _ s (by assumption))
  theorem checkArgs_noPanic : ∀ (ts : Terms) (bs : List Binding) (st : SymbolTable) (Γ : Ctx)
      (s : String), checkArgs ts bs st Γ ≠ .error (.panic s)
    | .nil, bs, st, Γ, s => by simp [checkArgs]
    | .cons t r, [], st, Γ, s => by simp [checkArgs]
    | .cons t r, b :: bs, st, Γ, s => by
      intro h
      simp only [checkArgs] at h
      split at h
      · rename_i e he
        cases h
        split at he
        · split at he
          · exact checkCovarArg_noPanic _ _ _ _ _ _ s he
          · cases he
        · split at he
          · rename_i e' he'; cases he; exact checkTy_noPanic _ _ s he'
          · exact checkTerm_noPanic t _ _ _ s he
      · split at h
        · rename_i e he; cases h; exact checkArgs_noPanic r bs _ _ s he
        · cases h
  theorem clauseCheckers_noPanic : ∀ (cs : Clauses), ∀ k ∈ clauseCheckers cs, NoPanicK k.body
    | .nil => by simp [clauseCheckers]
    | .cons pol x ns c b r => by
      intro k hk
      simp only [clauseCheckers, List.mem_cons] at hk
      rcases hk with rfl | hk
      · exact checkTerm_noPanic b
      · exact clauseCheckers_noPanic r k hk
end

/-! ## declarations and programs -/

theorem buildCtors_noPanic : ∀ (cs : List CtorSig) (st : SymbolTable) (s : String),
    buildCtors cs st ≠ .error (.panic s)
  | [], st, s => by simp [buildCtors]
  | c :: r, st, s => by
    intro h
    simp only [buildCtors] at h
    split at h
    · cases h
    · exact buildCtors_noPanic r _ s h

theorem buildDtors_noPanic : ∀ (cs : List DtorSig) (st : SymbolTable) (s : String),
    buildDtors cs st ≠ .error (.panic s)
  | [], st, s => by simp [buildDtors]
  | c :: r, st, s => by
    intro h
    simp only [buildDtors] at h
    split at h
    · cases h
    · exact buildDtors_noPanic r _ s h

theorem buildDecl_noPanic (d : Decl) (st : SymbolTable) (s : String) :
    buildDecl d st ≠ .error (.panic s) := by
  intro h
  cases d with
  | defn f => simp only [buildDecl] at h; split at h <;> cases h
  | data d =>
    simp only [buildDecl] at h
    split at h
    · cases h
    · exact buildCtors_noPanic _ _ s h
  | codata d =>
    simp only [buildDecl] at h
    split at h
    · cases h
    · exact buildDtors_noPanic _ _ s h

theorem buildDecls_noPanic : ∀ (ds : List Decl) (st : SymbolTable) (s : String),
    buildDecls ds st ≠ .error (.panic s)
  | [], st, s => by simp [buildDecls]
  | d :: r, st, s => by
    intro h
    simp only [buildDecls] at h
    split at h
    · rename_i e he; cases h; exact buildDecl_noPanic _ _ s he
    · exact buildDecls_noPanic r _ s h

theorem paramsNotTemplates_noPanic {T : AList (Polarity × List String × List String)} :
    ∀ (ps : List String) (s : String), paramsNotTemplates T ps ≠ .error (.panic s)
  | [], s => by simp [paramsNotTemplates]
  | a :: r, s => by
    intro h
    simp only [paramsNotTemplates] at h
    split at h
    · cases h
    · exact paramsNotTemplates_noPanic r s h

theorem checkTypeParams_noPanic {T : AList (Polarity × List String × List String)} :
    ∀ (l : AList (Polarity × List String × List String)) (s : String),
    checkTypeParams T l ≠ .error (.panic s)
  | [], s => by simp [checkTypeParams]
  | (n, (pol, params, xs)) :: r, s => by
    intro h
    simp only [checkTypeParams] at h
    split at h
    · rename_i e he; cases h; exact namesNoDups_noPanic _ _ s he
    · split at h
      · rename_i e he; cases h; exact paramsNotTemplates_noPanic _ s he
      · exact checkTypeParams_noPanic r s h

theorem checkTyTemplate_noPanic (t : Ty) (st : SymbolTable) (ps : List String) (s : String) :
    checkTyTemplate t st ps ≠ .error (.panic s) := by
  intro h
  cases t with
  | i64 => cases h
  | decl n a =>
    simp only [checkTyTemplate] at h
    split at h
    · cases h
    · split at h <;> cases h

theorem ctxCheckTemplate_noPanic : ∀ (c : Ctx) (st : SymbolTable) (ps : List String) (s : String),
    ctxCheckTemplate c st ps ≠ .error (.panic s)
  | [], st, ps, s => by simp [ctxCheckTemplate]
  | b :: r, st, ps, s => by
    intro h
    simp only [ctxCheckTemplate] at h
    split at h
    · rename_i e he; cases h; exact checkTyTemplate_noPanic _ _ _ s he
    · exact ctxCheckTemplate_noPanic r _ _ s h

theorem checkCtorSigs_noPanic (st : SymbolTable) (ps : List String) : ∀ (cs : List CtorSig)
    (s : String), checkCtorSigs st ps cs ≠ .error (.panic s)
  | [], s => by simp [checkCtorSigs]
  | c :: r, s => by
    intro h
    simp only [checkCtorSigs] at h
    split at h
    · rename_i e he; cases h; exact ctxCheckTemplate_noPanic _ _ _ s he
    · exact checkCtorSigs_noPanic st ps r s h

theorem checkDtorSigs_noPanic (st : SymbolTable) (ps : List String) : ∀ (cs : List DtorSig)
    (s : String), checkDtorSigs st ps cs ≠ .error (.panic s)
  | [], s => by simp [checkDtorSigs]
  | c :: r, s => by
    intro h
    simp only [checkDtorSigs] at h
    split at h
    · rename_i e he; cases h; exact ctxCheckTemplate_noPanic _ _ _ s he
    · split at h
      · rename_i e he; cases h; exact checkTyTemplate_noPanic _ _ _ s he
      · exact checkDtorSigs_noPanic st ps r s h

theorem checkTypeDecls_noPanic : ∀ (ds : List Decl) (st : SymbolTable) (s : String),
    checkTypeDecls ds st ≠ .error (.panic s)
  | [], st, s => by simp [checkTypeDecls]
  | .data d :: r, st, s => by
    intro h
    simp only [checkTypeDecls] at h
    split at h
    · rename_i e he; cases h; exact checkCtorSigs_noPanic _ _ _ s he
    · exact checkTypeDecls_noPanic r st s h
  | .codata d :: r, st, s => by
    intro h
    simp only [checkTypeDecls] at h
    split at h
    · rename_i e he; cases h; exact checkDtorSigs_noPanic _ _ _ s he
    · exact checkTypeDecls_noPanic r st s h
  | .defn f :: r, st, s => by
    intro h
    simp only [checkTypeDecls] at h
    split at h
    · rename_i e he; cases h; exact checkTypeDecls_noPanic r st s he
    · cases h

theorem ctxNoDups_noPanic : ∀ (c : Ctx) (seen : List String) (s : String),
    ctxNoDups c seen ≠ .error (.panic s)
  | [], _, s => by simp [ctxNoDups]
  | b :: r, seen, s => by
    intro h
    simp only [ctxNoDups] at h
    split at h
    · split at h <;> cases h
    · exact ctxNoDups_noPanic r _ s h

theorem ctxCheck_noPanic : ∀ (c : Ctx) (st : SymbolTable) (s : String),
    ctxCheck c st ≠ .error (.panic s)
  | [], st, s => by simp [ctxCheck]
  | b :: r, st, s => by
    intro h
    simp only [ctxCheck] at h
    split at h
    · rename_i e he; cases h; exact checkTy_noPanic _ _ s he
    · exact ctxCheck_noPanic r _ s h

theorem checkDef_noPanic (f : Def) (st : SymbolTable) (s : String) :
    checkDef f st ≠ .error (.panic s) := by
  intro h
  simp only [checkDef] at h
  split at h
  · rename_i e he; cases h; exact ctxNoDups_noPanic _ _ s he
  · split at h
    · rename_i e he; cases h; exact ctxCheck_noPanic _ _ s he
    · split at h
      · rename_i e he; cases h; exact checkTy_noPanic _ _ s he
      · split at h
        · rename_i e he; cases h; exact checkTerm_noPanic _ _ _ _ s he
        · cases h

theorem checkDefs_noPanic : ∀ (fs : List Def) (st : SymbolTable) (s : String),
    checkDefs fs st ≠ .error (.panic s)
  | [], st, s => by simp [checkDefs]
  | f :: r, st, s => by
    intro h
    simp only [checkDefs] at h
    split at h
    · rename_i e he; cases h; exact checkDef_noPanic _ _ s he
    · split at h
      · rename_i e he; cases h; exact checkDefs_noPanic r _ s he
      · cases h

/-- on programs with identifier-like names the checker never panics -/
theorem checkProgramR_noPanic {p : Program} (hp : programNamesOk p = true) (s : String) :
    checkProgramR p ≠ .error (.panic s) := by
  intro h
  simp only [checkProgramR] at h
  split at h
  · rename_i e he
    cases h
    simp only [buildSymbolTable] at he
    split at he
    · rename_i e' he'; cases he; exact buildDecls_noPanic _ _ s he'
    · split at he
      · rename_i e' he'; cases he; exact checkTypeParams_noPanic _ s he'
      · cases he
  · rename_i st0 hb
    simp only [buildSymbolTable] at hb
    split at hb
    · cases hb
    · rename_i st0' hbuild
      split at hb
      · cases hb
      · rename_i hparams
        cases hb
        have b : Built st0 p.decls := by
          simpa using buildDecls_ok p.decls [] {} st0 built_empty hbuild
        simp only [checkWithTable] at h
        split at h
        · rename_i e he; cases h; exact checkTypeDecls_noPanic _ _ s he
        · rename_i fs hdecls
          split at h
          · rename_i e he; cases h; exact checkDefs_noPanic _ _ s he
          · rename_i fs' st1 hdefs
            obtain ⟨ok, rfl⟩ := declsOk_of_checks b hparams hdecls
            obtain ⟨inv1, _⟩ := checkDefs_sound ok hp (defs p) fs' st0 st1 (fun f hf => hf)
              (built_inv b) hdefs
            obtain ⟨r, hr⟩ := collectTypes_total inv1 st1.types (fun e he => he)
            rw [hr] at h
            cases h

end Scc.Fun.Check
