/-
  Scc.Fun.ParseRoundtrip — C16-T2 (`parse_tokens`): the parser model maps the token sequence
  `tokens p` of a program in the image of the grammar (`InRange`) back to `p`.  Proof file.
-/
import Scc.Fun.ParseMono
import Scc.Fun.PrintProofs

namespace Scc.Fun.Print
open Scc.Fun.Lex Scc.Fun.Parse

/-! ## the image of the grammar -/

/-- grammar level of a term: 1 = `Term1`, 2 = `Term2`, 3 = `Term3`, 4 = `Term` -/
def level : Term → Nat
  | .lit _ | .var .. | .call .. | .paren _ => 1
  | .new .. | .ctor .. | .dtor .. | .case .. => 2
  | .ifc .. | .ifz .. | .label .. | .goto .. | .exit .. | .op .. | .letIn .. => 3
  | .print .. => 4

mutual
  /-- `InRange t`: `t` is in the image of the grammar: operands of `Op` are `Term1`, scrutinees
  `Term2`, the bound term of `let` is `Term3`, literals are in `[-(2^63-1), 2^63-1]`, annotations are
  empty, clauses have the polarity of their construct and an empty context. -/
  def InRange : Term → Prop
    | .var _ ty chi => ty = none ∧ chi = none
    | .lit n => -(i64Max : Int) ≤ n ∧ n ≤ (i64Max : Int)
    | .op a _ b => InRange a ∧ InRange b ∧ level a ≤ 1 ∧ level b ≤ 1
    | .ifc _ a b t e ty => InRange a ∧ InRange b ∧ InRange t ∧ InRange e ∧ ty = none
    | .ifz _ a t e ty => InRange a ∧ InRange t ∧ InRange e ∧ ty = none
    | .print _ a n ty => InRange a ∧ InRange n ∧ ty = none
    | .letIn _ _ b i ty => InRange b ∧ InRange i ∧ level b ≤ 3 ∧ ty = none
    | .call _ as ty => InRanges as ∧ ty = none
    | .ctor _ as ty => InRanges as ∧ ty = none
    | .dtor s _ _ as ty => InRange s ∧ level s ≤ 2 ∧ InRanges as ∧ ty = none
    | .case s _ cs ty => InRange s ∧ level s ≤ 2 ∧ InRangeCs .data cs ∧ ty = none
    | .new cs ty => InRangeCs .codata cs ∧ ty = none
    | .label _ t ty => InRange t ∧ ty = none
    | .goto _ t ty => InRange t ∧ ty = none
    | .exit t ty => InRange t ∧ ty = none
    | .paren t => InRange t
  def InRanges : Terms → Prop
    | .nil => True
    | .cons t r => InRange t ∧ InRanges r
  def InRangeCs (pol : Polarity) : Clauses → Prop
    | .nil => True
    | .cons p _ _ ctx b r => p = pol ∧ ctx = [] ∧ InRange b ∧ InRangeCs pol r
end

def InRangeDecl : Decl → Prop
  | .defn d => InRange d.body
  | _ => True

def InRangeProg (p : Program) : Prop := ∀ d ∈ p.decls, InRangeDecl d

/-! ## what may follow -/

def NoLbrack (rest : List Token) : Prop := ∀ r, rest ≠ .lbrack :: r
def NoLparen (rest : List Token) : Prop := ∀ r, rest ≠ .lparen :: r

/-- tokens that can follow a `Term2` inside a larger term -/
def postTok : Token → Bool
  | .rparen | .rbrace | .comma | .semi | .lbrace | .dot => true
  | .cmp _ | .zcmpL _ => true
  | _ => false

/-- tokens that can follow a complete term -/
def stopTok : Token → Bool
  | .rparen | .rbrace | .comma | .semi | .lbrace => true
  | .cmp _ | .zcmpL _ => true
  | _ => false

def Head (p : Token → Bool) (rest : List Token) : Prop := ∃ tk r, rest = tk :: r ∧ p tk = true

theorem stop_post {tk : Token} (h : stopTok tk = true) : postTok tk = true := by
  cases tk <;> simp_all [stopTok, postTok]

theorem post_num {tk : Token} (h : postTok tk = true) : numFollow tk = true := by
  cases tk <;> simp_all [postTok, numFollow]

theorem post_not_binop {tk : Token} (h : postTok tk = true) : binOpOf tk = none := by
  cases tk <;> simp_all [postTok, binOpOf]

theorem binop_num (o : BinOp) : numFollow (binOpTok o) = true := by cases o <;> rfl

theorem binOpOf_tok (o : BinOp) : binOpOf (binOpTok o) = some o := by cases o <;> rfl

/-! ## types, names -/

theorem tyToks_head (t : Ty) : ∃ tk r, tyToks t = tk :: r ∧ (tk = .kw .i64 ∨ ∃ n, tk = .upper n) := by
  cases t with
  | i64 => exact ⟨_, _, rfl, .inl rfl⟩
  | decl n as => exact ⟨_, _, rfl, .inr ⟨_, rfl⟩⟩

mutual
  theorem tyP : (t : Ty) → ∀ (f : Nat) (rest : List Token), NoLbrack rest → 2 * (tyToks t).length ≤ f →
      parseTy f (tyToks t ++ rest) = .ok (t, rest)
    | .i64, f, rest, _, hf => by
      cases f with
      | zero => simp [tyToks] at hf
      | succ f => simp [tyToks, parseTy]
    | .decl n .nil, f, rest, hr, hf => by
      cases f with
      | zero => simp [tyToks] at hf
      | succ f =>
        simp only [tyToks, tyArgToks, List.cons_append, List.nil_append]
        unfold parseTy
        split
        · rename_i h; cases h
        · rename_i h; injection h with _ h2; exact absurd h2 (hr _)
        · rename_i h; injection h with h1 h2; cases h1; subst h2; simp [String.ofList_toList]
        · rename_i h1 h2; exact absurd rfl (h2 _ _)
    | .decl n (.cons t r), f, rest, hr, hf => by
      cases f with
      | zero => simp [tyToks] at hf
      | succ f =>
        have ih := tysP (.cons t r) f rest (by
          simp [tyToks, tyArgToks, tysToks] at hf ⊢; omega)
        simp only [tyToks, tyArgToks, List.cons_append, List.append_assoc, List.nil_append]
        unfold parseTy
        simp only [tysToks, List.append_assoc] at ih
        simp [ih, Outcome.bind, String.ofList_toList]
  theorem tysP : (ts : Tys) → ∀ (f : Nat) (rest : List Token), 2 * (tysToks ts).length + 1 ≤ f →
      parseTys f (tysToks ts ++ .rbrack :: rest) = .ok (ts, rest)
    | .nil, f, rest, hf => by
      cases f with
      | zero => simp at hf
      | succ f => simp [tysToks, parseTys]
    | .cons t .nil, f, rest, hf => by
      cases f with
      | zero => simp at hf
      | succ f =>
        have ih := tyP t f (.rbrack :: rest) (fun r h => by cases h) (by
          simp [tysToks, tysRestToks] at hf; omega)
        obtain ⟨tk, r0, h0, htk⟩ := tyToks_head t
        simp only [tysToks, tysRestToks, List.append_nil]
        unfold parseTys
        split
        · rename_i h; rw [h0] at h; injection h with h1 _; subst h1; rcases htk with h | ⟨_, h⟩ <;> cases h
        · simp [ih, Outcome.bind]
    | .cons t (.cons t' r), f, rest, hf => by
      cases f with
      | zero => simp at hf
      | succ f =>
        have hlen : (tysToks (.cons t (.cons t' r))).length =
            (tyToks t).length + 1 + (tysToks (.cons t' r)).length := by
          simp [tysToks, tysRestToks]; omega
        have ih1 := tyP t f (tysRestToks (.cons t' r) ++ .rbrack :: rest) (fun r h => by simp [tysRestToks] at h) (by omega)
        have ih2 := tysP (.cons t' r) f rest (by omega)
        obtain ⟨tk, r0, h0, htk⟩ := tyToks_head t
        simp only [tysToks, tysRestToks, List.cons_append, List.append_assoc] at ih1 ih2 ⊢
        unfold parseTys
        split
        · rename_i h; rw [h0] at h; injection h with h1 _; subst h1; rcases htk with h | ⟨_, h⟩ <;> cases h
        · simp [ih1, Outcome.bind, ih2]
end

/-- `OptTypeArgs` -/
theorem optTyArgsP (tas : Tys) (f : Nat) (rest : List Token) (hr : NoLbrack rest)
    (hf : 2 * (tyArgToks tas).length + 1 ≤ f) : parseOptTyArgs f (tyArgToks tas ++ rest) = .ok (tas, rest) := by
  cases tas with
  | nil =>
    simp only [tyArgToks, List.nil_append]
    unfold parseOptTyArgs
    split
    · rename_i r; exact absurd rfl (hr r)
    · rfl
  | cons t r =>
    have := tysP (.cons t r) f rest (by simp [tyArgToks, tysToks] at hf ⊢; omega)
    simp only [tysToks, List.append_assoc] at this
    simp only [tyArgToks, List.cons_append, List.append_assoc, List.nil_append]
    unfold parseOptTyArgs
    simp only [this]

theorem namesP : (n : String) → (ns : List String) → ∀ (f : Nat) (rest : List Token), ns.length + 1 ≤ f →
    parseNames f (joinToks [.comma] ((n :: ns).map fun n => [Token.lower n.toList]) ++ .rparen :: rest)
      = .ok (n :: ns, rest)
  | n, [], f, rest, hf => by
    cases f with
    | zero => simp at hf
    | succ f => simp [joinToks, parseNames, String.ofList_toList]
  | n, m :: ns, f, rest, hf => by
    cases f with
    | zero => simp at hf
    | succ f =>
      have ih := namesP m ns f rest (by simp at hf ⊢; omega)
      simp only [List.map_cons] at ih
      simp [joinToks, parseNames, ih, Outcome.bind, String.ofList_toList]

/-- `OptNameContext` -/
theorem optNamesP (ns : List String) (f : Nat) (rest : List Token) (hr : NoLparen rest)
    (hf : ns.length + 1 ≤ f) : parseOptNames f (namesToks ns ++ rest) = .ok (ns, rest) := by
  cases ns with
  | nil =>
    simp only [namesToks, List.nil_append]
    unfold parseOptNames
    split
    · rename_i r; exact absurd rfl (hr r)
    · rfl
  | cons n ns =>
    have := namesP n ns f rest (by simp at hf ⊢; omega)
    simp only [List.map_cons] at this
    simp only [namesToks, List.cons_append, List.append_assoc, List.map_cons, List.nil_append]
    unfold parseOptNames
    simp only [this]

theorem namesToks_length (ns : List String) : ns.length ≤ (namesToks ns).length := by
  cases ns with
  | nil => simp
  | cons n r =>
    have : ∀ (m : String) (l : List String),
        (m :: l).length ≤ (joinToks [Token.comma] ((m :: l).map fun n => [Token.lower n.toList])).length := by
      intro m l
      induction l generalizing m with
      | nil => simp [joinToks]
      | cons k l ih => have := ih k; simp [joinToks] at this ⊢; omega
    have := this n r
    simp [namesToks] at this ⊢; omega

/-! ## literals -/

theorem digitsToNat_natDigits (n : Nat) : digitsToNat (natDigits n) = n := by
  have h := Nat.ofDigitChars_ten_toDigits (n := n)
  rw [Nat.ofDigitChars_eq_foldl] at h
  have e0 : '0'.toNat = 48 := by decide
  simpa [digitsToNat, natDigits, digitVal, e0] using h

theorem parseNum_pos {mode : LiteralMode} {n : Nat} {tk : Token} {r : List Token} (hn : n ≤ i64Max)
    (htk : numFollow tk = true) : parseNum mode false (natDigits n) (tk :: r) = .ok (Int.ofNat n) := by
  simp [parseNum, htk, digitsToNat_natDigits, hn]

theorem parseNum_neg {mode : LiteralMode} {n : Nat} {tk : Token} {r : List Token} (hn : n ≤ i64Max)
    (htk : numFollow tk = true) : parseNum mode true (natDigits n) (tk :: r) = .ok (-(Int.ofNat n)) := by
  simp [parseNum, htk, digitsToNat_natDigits, hn]

/-! ## first tokens -/

def t1Start : Token → Bool
  | .lower _ | .num _ | .minus | .lparen => true
  | _ => false

/-- the tokens a term can start with -/
def termStart : Token → Bool
  | .lower _ | .num _ | .minus | .lparen | .upper _ => true
  | .kw .if_ | .kw .printI64 | .kw .printlnI64 | .kw .let_ | .kw .new_ | .kw .label | .kw .goto
  | .kw .exit => true
  | _ => false

theorem termToks_head : (t : Term) → ∃ tk r, termToks t = tk :: r ∧ termStart tk = true ∧
    (level t ≤ 1 → t1Start tk = true)
  | .var .. => ⟨_, _, rfl, rfl, fun _ => rfl⟩
  | .lit (.ofNat _) => ⟨_, _, rfl, rfl, fun _ => rfl⟩
  | .lit (.negSucc _) => ⟨_, _, rfl, rfl, fun _ => rfl⟩
  | .op a _ _ => by
    obtain ⟨tk, r, h, hs, _⟩ := termToks_head a
    simp only [termToks, h, List.cons_append]
    exact ⟨_, _, rfl, hs, fun hl => by simp [level] at hl⟩
  | .ifc .. => ⟨_, _, rfl, rfl, fun hl => by simp [level] at hl⟩
  | .ifz .. => ⟨_, _, rfl, rfl, fun hl => by simp [level] at hl⟩
  | .print true .. => ⟨_, _, rfl, rfl, fun hl => by simp [level] at hl⟩
  | .print false .. => ⟨_, _, rfl, rfl, fun hl => by simp [level] at hl⟩
  | .letIn .. => ⟨_, _, rfl, rfl, fun hl => by simp [level] at hl⟩
  | .call .. => ⟨_, _, rfl, rfl, fun _ => rfl⟩
  | .ctor .. => ⟨_, _, rfl, rfl, fun hl => by simp [level] at hl⟩
  | .dtor s _ _ _ _ => by
    obtain ⟨tk, r, h, hs, _⟩ := termToks_head s
    simp only [termToks, h, List.cons_append]
    exact ⟨_, _, rfl, hs, fun hl => by simp [level] at hl⟩
  | .case s _ _ _ => by
    obtain ⟨tk, r, h, hs, _⟩ := termToks_head s
    simp only [termToks, h, List.cons_append]
    exact ⟨_, _, rfl, hs, fun hl => by simp [level] at hl⟩
  | .new .. => ⟨_, _, rfl, rfl, fun hl => by simp [level] at hl⟩
  | .label .. => ⟨_, _, rfl, rfl, fun hl => by simp [level] at hl⟩
  | .goto .. => ⟨_, _, rfl, rfl, fun hl => by simp [level] at hl⟩
  | .exit .. => ⟨_, _, rfl, rfl, fun hl => by simp [level] at hl⟩
  | .paren _ => ⟨_, _, rfl, rfl, fun _ => rfl⟩

/-- length of the postfix chain at the top of a term -/
def chain : Term → Nat
  | .dtor s _ _ _ _ => chain s + 1
  | .case s _ _ _ => chain s + 1
  | _ => 0

theorem chain_le : (t : Term) → chain t ≤ (termToks t).length
  | .dtor s _ _ _ _ => by have := chain_le s; simp [chain, termToks]; omega
  | .case s _ _ _ => by have := chain_le s; simp [chain, termToks]; omega
  | .var .. | .lit .. | .op .. | .ifc .. | .ifz .. | .print .. | .letIn .. | .call .. | .ctor ..
  | .new .. | .label .. | .goto .. | .exit .. | .paren .. => by simp [chain]

/-- what `parseTerm` does after a `Term1` -/
def afterTerm1 (mode : LiteralMode) (f : Nat) (a : Term) (r : List Token) : Outcome (Term × List Token) :=
  match r with
  | [] => .ok (a, r)
  | t :: r1 =>
    match binOpOf t with
    | some o => (parseTerm1 mode f r1).bind fun (b, r2) => .ok (.op a o b, r2)
    | none => parsePostfix mode f a r

theorem parseTerm_t1 {mode : LiteralMode} {f : Nat} {allow : Bool} {tk : Token} {r : List Token}
    (h : t1Start tk = true) :
    parseTerm mode (f + 1) allow (tk :: r) =
      (parseTerm1 mode f (tk :: r)).bind fun (a, r') => afterTerm1 mode f a r' := by
  cases tk <;> simp [t1Start] at h <;> (unfold parseTerm; rfl)

/-- the postfix loop stops at a token that ends the term -/
theorem parsePostfix_stop {mode : LiteralMode} {f : Nat} {t : Term} {rest : List Token}
    (h : Head stopTok rest) : parsePostfix mode (f + 1) t rest = .ok (t, rest) := by
  obtain ⟨tk, r, rfl, htk⟩ := h
  unfold parsePostfix
  split
  · rename_i h; injection h with h1 _; subst h1; simp [stopTok] at htk
  · rename_i h; injection h with h1 _; subst h1; simp [stopTok] at htk
  · rename_i h; injection h with h1 _; subst h1; simp [stopTok] at htk
  · rfl


/-- what `parseTerm` does after the first operand of an `if` -/
def afterIfFst (mode : LiteralMode) (f : Nat) (a : Term) (r1 : List Token) : Outcome (Term × List Token) :=
  match r1 with
  | .cmp c :: r2 =>
    (parseTerm mode f true r2).bind fun (b, r3) =>
      (parseThenElse mode f r3).bind fun ((th, el), r4) =>
        .ok (.ifc c a b th el none, r4)
  | .zcmpL c :: r2 =>
    (parseThenElse mode f r2).bind fun ((th, el), r3) =>
      .ok (.ifz c a th el none, r3)
  | _ => failAt r1

theorem parseTerm_if {mode : LiteralMode} {f : Nat} {allow : Bool} {tk : Token} {r : List Token}
    (h : termStart tk = true) :
    parseTerm mode (f + 1) allow (.kw .if_ :: tk :: r) =
      (parseTerm mode f true (tk :: r)).bind fun (a, r1) => afterIfFst mode f a r1 := by
  cases tk <;> simp [termStart] at h <;> (conv => lhs; unfold parseTerm) <;> rfl

/-- the statement "the term parser reads back `t`" for a fixed `t` -/
def ReadsTerm (mode : LiteralMode) (t : Term) : Prop :=
  ∀ (allow : Bool), (allow = false → level t ≤ 3) → ∀ (f : Nat) (rest : List Token), Head stopTok rest →
    3 * (termToks t).length + 3 ≤ f → parseTerm mode f allow (termToks t ++ rest) = .ok (t, rest)

theorem bracedP {mode : LiteralMode} {t : Term} (ht : ReadsTerm mode t) (g : Nat) (r : List Token)
    (hg : 3 * (termToks t).length + 3 ≤ g) :
    parseBraced mode (g + 1) (.lbrace :: (termToks t ++ .rbrace :: r)) = .ok (t, r) := by
  have := ht true (fun h => by cases h) g (.rbrace :: r) ⟨_, _, rfl, rfl⟩ hg
  unfold parseBraced
  simp [expect, Outcome.bind, this]

theorem thenElseP {mode : LiteralMode} {t e : Term} (ht : ReadsTerm mode t) (he : ReadsTerm mode e)
    (g : Nat) (r : List Token)
    (hg : 3 * (termToks t).length + 3 ≤ g) (hg' : 3 * (termToks e).length + 3 ≤ g) :
    parseThenElse mode (g + 2)
      (.lbrace :: (termToks t ++ .rbrace :: .kw .else_ :: .lbrace :: (termToks e ++ .rbrace :: r))) =
      .ok ((t, e), r) := by
  unfold parseThenElse
  simp [bracedP ht g _ hg, bracedP he g _ hg', expect, Outcome.bind]

structure TermSpec (mode : LiteralMode) (t : Term) : Prop where
  t1 : level t ≤ 1 → ∀ (f : Nat) (rest : List Token), Head numFollow rest →
    3 * (termToks t).length + 2 ≤ f → parseTerm1 mode f (termToks t ++ rest) = .ok (t, rest)
  ch : level t ≤ 2 → ∀ (allow : Bool) (f : Nat) (rest : List Token), Head postTok rest →
    3 * (termToks t).length + 3 ≤ f →
    parseTerm mode f allow (termToks t ++ rest) = parsePostfix mode (f - 1 - chain t) t rest
  tm : ReadsTerm mode t

theorem chain_zero {t : Term} (h : level t ≤ 1) : chain t = 0 := by
  cases t <;> simp [level] at h <;> rfl

/-- a `Term1` inside `parseTerm` -/
theorem ch_of_t1 {mode : LiteralMode} {t : Term} (hl : level t ≤ 1)
    (h1 : ∀ (f : Nat) (rest : List Token), Head numFollow rest →
      3 * (termToks t).length + 2 ≤ f → parseTerm1 mode f (termToks t ++ rest) = .ok (t, rest))
    (allow : Bool) (f : Nat) (rest : List Token) (hr : Head postTok rest)
    (hf : 3 * (termToks t).length + 3 ≤ f) :
    parseTerm mode f allow (termToks t ++ rest) = parsePostfix mode (f - 1 - chain t) t rest := by
  obtain ⟨tk, r, h0, _, hs⟩ := termToks_head t
  obtain ⟨tk', r', rfl, hp⟩ := hr
  cases f with
  | zero => omega
  | succ f =>
    have := h1 f (tk' :: r') ⟨_, _, rfl, post_num hp⟩ (by omega)
    rw [h0] at this ⊢
    rw [List.cons_append, parseTerm_t1 (hs hl), ← List.cons_append, this]
    simp [Outcome.bind, afterTerm1, post_not_binop hp, chain_zero hl]

/-- a `Term2` as a complete term -/
theorem tm_of_ch {mode : LiteralMode} {t : Term}
    (hc : ∀ (allow : Bool) (f : Nat) (rest : List Token), Head postTok rest →
      3 * (termToks t).length + 3 ≤ f →
      parseTerm mode f allow (termToks t ++ rest) = parsePostfix mode (f - 1 - chain t) t rest) :
    ReadsTerm mode t := by
  intro allow _ f rest hr hf
  obtain ⟨tk', r', rfl, hp⟩ := hr
  rw [hc allow f _ ⟨_, _, rfl, stop_post hp⟩ hf]
  have := chain_le t
  obtain ⟨g, hg⟩ : ∃ g, f - 1 - chain t = g + 1 := ⟨f - 2 - chain t, by omega⟩
  rw [hg]
  exact parsePostfix_stop ⟨_, _, rfl, hp⟩


/-- tokens of the optional argument list of constructors/destructors (as in `termToks`) -/
def optArgToks (as : Terms) : List Token :=
  match as with
  | .nil => []
  | _ => .lparen :: termsToks as ++ [.rparen]

/-- the statement "the argument parser reads back `as`" -/
def ReadsArgs (mode : LiteralMode) (as : Terms) : Prop :=
  ∀ (f : Nat) (rest : List Token), 3 * (termsToks as).length + 4 ≤ f →
    parseArgs mode f (termsToks as ++ .rparen :: rest) = .ok (as, rest)

def ReadsClauses (mode : LiteralMode) (pol : Polarity) (cs : Clauses) : Prop :=
  ∀ (f : Nat) (rest : List Token), 3 * (clausesToks cs).length + 1 ≤ f →
    parseClauses mode pol f (clausesToks cs ++ .rbrace :: rest) = .ok (cs, rest)

/-- one destructor step of the postfix loop -/
theorem postfix_dtor {mode : LiteralMode} (s : Term) (d : String) (tas : Tys) (as : Terms)
    (has : ReadsArgs mode as) (g : Nat) (rest : List Token) (hr : Head postTok rest)
    (hg : 2 * (tyArgToks tas).length + 3 * (termsToks as).length + 4 ≤ g) :
    parsePostfix mode (g + 1) s (.dot :: .lower d.toList :: (tyArgToks tas ++ (optArgToks as ++ rest))) =
      parsePostfix mode g (.dtor s d tas as none) rest := by
  obtain ⟨tk, r, rfl, hp⟩ := hr
  cases as with
  | nil =>
    have h1 := optTyArgsP tas g (tk :: r) (fun r' h => by injection h with h1 _; subst h1; simp [postTok] at hp)
      (by omega)
    conv => lhs; unfold parsePostfix
    simp only [optArgToks, List.nil_append, h1, Outcome.bind, String.ofList_toList]
    cases tk <;> simp [postTok] at hp <;> rfl
  | cons a r' =>
    have h1 := optTyArgsP tas g (.lparen :: (termsToks (.cons a r') ++ .rparen :: tk :: r))
      (fun r' h => by cases h) (by omega)
    have h2 := has g (tk :: r) (by omega)
    conv => lhs; unfold parsePostfix
    simp [optArgToks, h1, h2, Outcome.bind, String.ofList_toList]

/-- one `case` step of the postfix loop -/
theorem postfix_case {mode : LiteralMode} (s : Term) (tas : Tys) (cs : Clauses)
    (hcs : ReadsClauses mode .data cs) (g : Nat) (rest : List Token)
    (hg : 2 * (tyArgToks tas).length + 3 * (clausesToks cs).length + 2 ≤ g) :
    parsePostfix mode (g + 1) s
      (.dot :: .kw .case_ :: (tyArgToks tas ++ .lbrace :: (clausesToks cs ++ .rbrace :: rest))) =
      parsePostfix mode g (.case s tas cs none) rest := by
  have h1 := optTyArgsP tas g (.lbrace :: (clausesToks cs ++ .rbrace :: rest)) (fun r' h => by cases h)
    (by omega)
  have h2 := hcs g rest (by omega)
  conv => lhs; unfold parsePostfix
  simp [h1, h2, Outcome.bind, expect]


theorem head_num_of_stop {rest : List Token} (h : Head stopTok rest) : Head numFollow rest := by
  obtain ⟨tk, r, rfl, hp⟩ := h
  exact ⟨tk, r, rfl, post_num (stop_post hp)⟩

theorem head_post_of_stop {rest : List Token} (h : Head stopTok rest) : Head postTok rest := by
  obtain ⟨tk, r, rfl, hp⟩ := h
  exact ⟨tk, r, rfl, stop_post hp⟩

/-- assemble the specification of a `Term1` from its `parseTerm1` part -/
theorem spec_of_t1 {mode : LiteralMode} {t : Term} (hl : level t ≤ 1)
    (h1 : ∀ (f : Nat) (rest : List Token), Head numFollow rest →
      3 * (termToks t).length + 2 ≤ f → parseTerm1 mode f (termToks t ++ rest) = .ok (t, rest)) :
    TermSpec mode t :=
  ⟨fun _ => h1, fun _ => ch_of_t1 hl h1, tm_of_ch (ch_of_t1 hl h1)⟩

/-- assemble the specification of a proper `Term2` from its chain part -/
theorem spec_of_ch {mode : LiteralMode} {t : Term} (hl : ¬ level t ≤ 1)
    (hc : ∀ (allow : Bool) (f : Nat) (rest : List Token), Head postTok rest →
      3 * (termToks t).length + 3 ≤ f →
      parseTerm mode f allow (termToks t ++ rest) = parsePostfix mode (f - 1 - chain t) t rest) :
    TermSpec mode t :=
  ⟨fun h => absurd h hl, fun _ => hc, tm_of_ch hc⟩

/-- assemble the specification of a `Term3`/`Term` from its complete-term part -/
theorem spec_of_tm {mode : LiteralMode} {t : Term} (hl : ¬ level t ≤ 2) (h : ReadsTerm mode t) :
    TermSpec mode t :=
  ⟨fun h' => absurd (Nat.le_trans h' (by decide)) hl, fun h' => absurd h' hl, h⟩

set_option maxHeartbeats 400000 in
mutual
  theorem specP (mode : LiteralMode) : (t : Term) → InRange t → TermSpec mode t
    | .var x ty chi, h => by
      simp only [InRange] at h
      obtain ⟨rfl, rfl⟩ := h
      refine spec_of_t1 (by simp [level]) ?_
      intro f rest hr hf
      obtain ⟨tk, r, rfl, hp⟩ := hr
      cases f with
      | zero => omega
      | succ f =>
        cases tk <;> simp [numFollow] at hp <;> simp [termToks, parseTerm1, String.ofList_toList]
    | .lit n, h => by
      simp only [InRange] at h
      refine spec_of_t1 (by simp [level]) ?_
      intro f rest hr hf
      obtain ⟨tk, r, rfl, hp⟩ := hr
      cases f with
      | zero => omega
      | succ f =>
        cases n with
        | ofNat k =>
          have hk : k ≤ i64Max := by have := h.2; simp only [Int.ofNat_eq_natCast] at this; omega
          simp [termToks, litToks, parseTerm1, parseNum_pos hk hp, Outcome.bind]
        | negSucc k =>
          have hk : k + 1 ≤ i64Max := by have := h.1; simp only [Int.negSucc_eq] at this; omega
          simp [termToks, litToks, parseTerm1, parseNum_neg hk hp, Outcome.bind]
          omega
    | .call fn as ty, h => by
      simp only [InRange] at h
      obtain ⟨has, rfl⟩ := h
      refine spec_of_t1 (by simp [level]) ?_
      intro f rest hr hf
      cases f with
      | zero => omega
      | succ f =>
        have := argsP mode as has f rest (by simp [termToks] at hf; omega)
        simp [termToks, parseTerm1, this, Outcome.bind, String.ofList_toList]
    | .paren t, h => by
      simp only [InRange] at h
      refine spec_of_t1 (by simp [level]) ?_
      intro f rest hr hf
      cases f with
      | zero => omega
      | succ f =>
        have := (specP mode t h).tm true (fun h => by cases h) f (.rparen :: rest) ⟨_, _, rfl, rfl⟩
          (by simp [termToks] at hf; omega)
        simp [termToks, parseTerm1, this, Outcome.bind, expect]
    | .new cs ty, h => by
      simp only [InRange] at h
      obtain ⟨hcs, rfl⟩ := h
      refine spec_of_ch (by simp [level]) ?_
      intro allow f rest hr hf
      cases f with
      | zero => omega
      | succ f =>
        have := clausesP mode .codata cs hcs f rest (by simp [termToks] at hf; omega)
        conv => lhs; unfold parseTerm
        simp [termToks, this, Outcome.bind, expect, chain]
    | .ctor k as ty, h => by
      simp only [InRange] at h
      obtain ⟨has, rfl⟩ := h
      refine spec_of_ch (by simp [level]) ?_
      intro allow f rest hr hf
      obtain ⟨tk, r, rfl, hp⟩ := hr
      cases f with
      | zero => omega
      | succ f =>
        match as, has with
        | .nil, _ =>
          conv => lhs; unfold parseTerm
          cases tk <;> simp [postTok] at hp <;> simp [termToks, chain, String.ofList_toList]
        | .cons a r', has =>
          have := argsP mode (.cons a r') has f (tk :: r) (by simp [termToks] at hf; omega)
          conv => lhs; unfold parseTerm
          simp [termToks, this, Outcome.bind, chain, String.ofList_toList]
    | .dtor s d tas as ty, h => by
      simp only [InRange] at h
      obtain ⟨hs, hls, has, rfl⟩ := h
      refine spec_of_ch (by simp [level]) ?_
      intro allow f rest hr hf
      have hcs := chain_le s
      have hlen : (termToks (.dtor s d tas as none)).length =
          (termToks s).length + 2 + (tyArgToks tas).length + (optArgToks as).length := by
        cases as <;> simp [termToks, optArgToks] <;> omega
      have hoa : (termsToks as).length ≤ (optArgToks as).length := by
        cases as <;> simp [optArgToks, termsToks] <;> omega
      have e : termToks (.dtor s d tas as none) ++ rest =
          termToks s ++ (.dot :: .lower d.toList :: (tyArgToks tas ++ (optArgToks as ++ rest))) := by
        cases as <;> simp [termToks, optArgToks]
      rw [e, (specP mode s hs).ch hls allow f _ ⟨_, _, rfl, rfl⟩ (by omega)]
      obtain ⟨g, hg⟩ : ∃ g, f - 1 - chain s = g + 1 := ⟨f - 2 - chain s, by omega⟩
      rw [hg, postfix_dtor s d tas as (argsP mode as has) g rest hr (by omega)]
      congr 1
      simp [chain]; omega
    | .case s tas cs ty, h => by
      simp only [InRange] at h
      obtain ⟨hs, hls, hcs, rfl⟩ := h
      refine spec_of_ch (by simp [level]) ?_
      intro allow f rest hr hf
      have hch := chain_le s
      have hlen : (termToks (.case s tas cs none)).length =
          (termToks s).length + 4 + (tyArgToks tas).length + (clausesToks cs).length := by
        simp [termToks]; omega
      have e : termToks (.case s tas cs none) ++ rest =
          termToks s ++ (.dot :: .kw .case_ :: (tyArgToks tas ++ .lbrace :: (clausesToks cs ++ .rbrace :: rest))) := by
        simp [termToks]
      rw [e, (specP mode s hs).ch hls allow f _ ⟨_, _, rfl, rfl⟩ (by omega)]
      obtain ⟨g, hg⟩ : ∃ g, f - 1 - chain s = g + 1 := ⟨f - 2 - chain s, by omega⟩
      rw [hg, postfix_case s tas cs (clausesP mode .data cs hcs) g rest (by omega)]
      congr 1
      simp [chain]; omega
    | .op a o b, h => by
      simp only [InRange] at h
      obtain ⟨ha, hb, hla, hlb⟩ := h
      refine spec_of_tm (by simp [level]) ?_
      intro allow _ f rest hr hf
      obtain ⟨tk, r, h0, _, hs⟩ := termToks_head a
      cases f with
      | zero => omega
      | succ f =>
        have hlen : (termToks (.op a o b)).length = (termToks a).length + 1 + (termToks b).length := by
          simp [termToks]; omega
        have h1 := (specP mode a ha).t1 hla f (binOpTok o :: (termToks b ++ rest)) ⟨_, _, rfl, binop_num o⟩
          (by omega)
        have h2 := (specP mode b hb).t1 hlb f rest (head_num_of_stop hr) (by omega)
        have e : termToks (.op a o b) ++ rest = tk :: (r ++ (binOpTok o :: (termToks b ++ rest))) := by
          simp [termToks, h0]
        rw [h0] at h1
        rw [e, parseTerm_t1 (hs hla), ← List.cons_append, h1]
        simp [Outcome.bind, afterTerm1, binOpOf_tok, h2]
    | .ifc c a b t e ty, h => by
      simp only [InRange] at h
      obtain ⟨ha, hb, ht, he, rfl⟩ := h
      refine spec_of_tm (by simp [level]) ?_
      intro allow _ f rest hr hf
      obtain ⟨tk, r, h0, hst, _⟩ := termToks_head a
      have hlen : (termToks (.ifc c a b t e none)).length =
          (termToks a).length + (termToks b).length + (termToks t).length + (termToks e).length + 7 := by
        simp [termToks]; omega
      obtain ⟨g, rfl⟩ : ∃ g, f = g + 3 := ⟨f - 3, by omega⟩
      have h1 := (specP mode a ha).tm true (fun h => by cases h) (g + 2)
        (.cmp c :: (termToks b ++ .lbrace :: (termToks t ++ .rbrace :: .kw .else_ :: .lbrace :: (termToks e ++ .rbrace :: rest))))
        ⟨_, _, rfl, rfl⟩ (by omega)
      have h2 := (specP mode b hb).tm true (fun h => by cases h) (g + 2)
        (.lbrace :: (termToks t ++ .rbrace :: .kw .else_ :: .lbrace :: (termToks e ++ .rbrace :: rest)))
        ⟨_, _, rfl, rfl⟩ (by omega)
      have h3 := thenElseP (specP mode t ht).tm (specP mode e he).tm g rest (by omega) (by omega)
      have e' : termToks (.ifc c a b t e none) ++ rest = .kw .if_ :: tk :: (r ++
          (.cmp c :: (termToks b ++ .lbrace :: (termToks t ++ .rbrace :: .kw .else_ :: .lbrace :: (termToks e ++ .rbrace :: rest))))) := by
        simp [termToks, h0]
      rw [h0] at h1
      rw [e', parseTerm_if hst, ← List.cons_append, h1]
      simp [Outcome.bind, afterIfFst, h2, h3]
    | .ifz c a t e ty, h => by
      simp only [InRange] at h
      obtain ⟨ha, ht, he, rfl⟩ := h
      refine spec_of_tm (by simp [level]) ?_
      intro allow _ f rest hr hf
      obtain ⟨tk, r, h0, hst, _⟩ := termToks_head a
      have hlen : (termToks (.ifz c a t e none)).length =
          (termToks a).length + (termToks t).length + (termToks e).length + 7 := by
        simp [termToks]; omega
      obtain ⟨g, rfl⟩ : ∃ g, f = g + 3 := ⟨f - 3, by omega⟩
      have h1 := (specP mode a ha).tm true (fun h => by cases h) (g + 2)
        (.zcmpL c :: .lbrace :: (termToks t ++ .rbrace :: .kw .else_ :: .lbrace :: (termToks e ++ .rbrace :: rest)))
        ⟨_, _, rfl, rfl⟩ (by omega)
      have h3 := thenElseP (specP mode t ht).tm (specP mode e he).tm g rest (by omega) (by omega)
      have e' : termToks (.ifz c a t e none) ++ rest = .kw .if_ :: tk :: (r ++
          (.zcmpL c :: .lbrace :: (termToks t ++ .rbrace :: .kw .else_ :: .lbrace :: (termToks e ++ .rbrace :: rest)))) := by
        simp [termToks, h0]
      rw [h0] at h1
      rw [e', parseTerm_if hst, ← List.cons_append, h1]
      simp [Outcome.bind, afterIfFst, h3]
    | .print nl a n ty, h => by
      simp only [InRange] at h
      obtain ⟨ha, hn, rfl⟩ := h
      refine spec_of_tm (by simp [level]) ?_
      intro allow hal f rest hr hf
      have hallow : allow = true := by
        cases allow
        · have := hal rfl; simp [level] at this
        · rfl
      subst hallow
      have hlen : (termToks (.print nl a n none)).length = (termToks a).length + (termToks n).length + 4 := by
        simp [termToks]; omega
      cases f with
      | zero => omega
      | succ f =>
        have h1 := (specP mode a ha).tm true (fun h => by cases h) f (.rparen :: .semi :: (termToks n ++ rest))
          ⟨_, _, rfl, rfl⟩ (by omega)
        have h2 := (specP mode n hn).tm true (fun h => by cases h) f rest hr (by omega)
        conv => lhs; unfold parseTerm
        cases nl <;> simp [termToks, h1, h2, Outcome.bind, expect]
    | .letIn x vty b i ty, h => by
      simp only [InRange] at h
      obtain ⟨hb, hi, hlb, rfl⟩ := h
      refine spec_of_tm (by simp [level]) ?_
      intro allow _ f rest hr hf
      have hlen : (termToks (.letIn x vty b i none)).length =
          (tyToks vty).length + (termToks b).length + (termToks i).length + 5 := by
        simp [termToks]; omega
      cases f with
      | zero => omega
      | succ f =>
        have h0 := tyP vty f (.assign :: (termToks b ++ .semi :: (termToks i ++ rest))) (fun r h => by cases h)
          (by omega)
        have h1 := (specP mode b hb).tm false (fun _ => hlb) f (.semi :: (termToks i ++ rest))
          ⟨_, _, rfl, rfl⟩ (by omega)
        have h2 := (specP mode i hi).tm true (fun h => by cases h) f rest hr (by omega)
        conv => lhs; unfold parseTerm
        simp [termToks, h0, h1, h2, Outcome.bind, expect, String.ofList_toList]
    | .label a t ty, h => by
      simp only [InRange] at h
      obtain ⟨ht, rfl⟩ := h
      refine spec_of_tm (by simp [level]) ?_
      intro allow _ f rest hr hf
      have hlen : (termToks (.label a t none)).length = (termToks t).length + 4 := by
        simp [termToks]
      obtain ⟨g, rfl⟩ : ∃ g, f = g + 2 := ⟨f - 2, by omega⟩
      have h1 := bracedP (specP mode t ht).tm g rest (by omega)
      conv => lhs; unfold parseTerm
      simp [termToks, h1, Outcome.bind, String.ofList_toList]
    | .goto a t ty, h => by
      simp only [InRange] at h
      obtain ⟨ht, rfl⟩ := h
      refine spec_of_tm (by simp [level]) ?_
      intro allow _ f rest hr hf
      have hlen : (termToks (.goto a t none)).length = (termToks t).length + 4 := by
        simp [termToks]
      cases f with
      | zero => omega
      | succ f =>
        have h1 := (specP mode t ht).tm true (fun h => by cases h) f (.rparen :: rest) ⟨_, _, rfl, rfl⟩ (by omega)
        conv => lhs; unfold parseTerm
        simp [termToks, h1, Outcome.bind, expect, String.ofList_toList]
    | .exit t ty, h => by
      simp only [InRange] at h
      obtain ⟨ht, rfl⟩ := h
      refine spec_of_tm (by simp [level]) ?_
      intro allow _ f rest hr hf
      have hlen : (termToks (.exit t none)).length = (termToks t).length + 1 := by
        simp [termToks]
      cases f with
      | zero => omega
      | succ f =>
        have h1 := (specP mode t ht).tm true (fun h => by cases h) f rest hr (by omega)
        conv => lhs; unfold parseTerm
        simp [termToks, h1, Outcome.bind]
  theorem argsP (mode : LiteralMode) : (as : Terms) → InRanges as → ReadsArgs mode as
    | .nil, _ => by
      intro f rest hf
      cases f with
      | zero => omega
      | succ f => simp [termsToks, parseArgs]
    | .cons t .nil, h => by
      simp only [InRanges] at h
      intro f rest hf
      cases f with
      | zero => omega
      | succ f =>
        obtain ⟨tk, r, h0, hst, _⟩ := termToks_head t
        have h1 := (specP mode t h.1).tm true (fun h => by cases h) f (.rparen :: rest) ⟨_, _, rfl, rfl⟩
          (by simp [termsToks] at hf; omega)
        simp only [termsToks]
        unfold parseArgs
        split
        · rename_i h'; rw [h0] at h'; injection h' with h1' _; subst h1'; simp [termStart] at hst
        · simp [h1, Outcome.bind]
    | .cons t (.cons t' r'), h => by
      simp only [InRanges] at h
      intro f rest hf
      cases f with
      | zero => omega
      | succ f =>
        obtain ⟨tk, r, h0, hst, _⟩ := termToks_head t
        have hlen : (termsToks (.cons t (.cons t' r'))).length =
            (termToks t).length + 1 + (termsToks (.cons t' r')).length := by
          simp [termsToks]; omega
        have h1 := (specP mode t h.1).tm true (fun h => by cases h) f
          (.comma :: (termsToks (.cons t' r') ++ .rparen :: rest)) ⟨_, _, rfl, rfl⟩ (by omega)
        have h2 := argsP mode (.cons t' r') ⟨h.2.1, h.2.2⟩ f rest (by omega)
        have e : termsToks (.cons t (.cons t' r')) ++ .rparen :: rest =
            termToks t ++ (.comma :: (termsToks (.cons t' r') ++ .rparen :: rest)) := by
          simp [termsToks]
        rw [e]
        unfold parseArgs
        split
        · rename_i h'; rw [h0] at h'; injection h' with h1' _; subst h1'; simp [termStart] at hst
        · simp [h1, h2, Outcome.bind]
  theorem clausesP (mode : LiteralMode) (pol : Polarity) : (cs : Clauses) → InRangeCs pol cs →
      ReadsClauses mode pol cs
    | .nil, _ => by
      intro f rest hf
      cases f with
      | zero => omega
      | succ f => simp [clausesToks, parseClauses]
    | .cons p x ns ctx b .nil, h => by
      simp only [InRangeCs] at h
      obtain ⟨rfl, rfl, hb, _⟩ := h
      intro f rest hf
      cases f with
      | zero => omega
      | succ f =>
        have hn := namesToks_length ns
        have hlen : (clausesToks (.cons p x ns [] b .nil)).length =
            (namesToks ns).length + (termToks b).length + 2 := by
          simp [clausesToks]; omega
        have h0 := optNamesP ns f (.fatArrow :: (termToks b ++ .rbrace :: rest)) (fun r h => by cases h)
          (by omega)
        have h1 := (specP mode b hb).tm true (fun h => by cases h) f (.rbrace :: rest) ⟨_, _, rfl, rfl⟩
          (by omega)
        unfold parseClauses
        cases p <;> simp [clausesToks, xtorTok, h0, h1, Outcome.bind, expect, String.ofList_toList]
    | .cons p x ns ctx b (.cons p2 x2 ns2 c2 b2 r2), h => by
      simp only [InRangeCs] at h
      obtain ⟨rfl, rfl, hb, hr⟩ := h
      intro f rest hf
      cases f with
      | zero => omega
      | succ f =>
        have hn := namesToks_length ns
        have hlen : (clausesToks (.cons p x ns [] b (.cons p2 x2 ns2 c2 b2 r2))).length =
            (namesToks ns).length + (termToks b).length + 3 + (clausesToks (.cons p2 x2 ns2 c2 b2 r2)).length := by
          simp [clausesToks]; omega
        have h0 := optNamesP ns f
          (.fatArrow :: (termToks b ++ .comma :: (clausesToks (.cons p2 x2 ns2 c2 b2 r2) ++ .rbrace :: rest)))
          (fun r h => by cases h) (by omega)
        have h1 := (specP mode b hb).tm true (fun h => by cases h) f
          (.comma :: (clausesToks (.cons p2 x2 ns2 c2 b2 r2) ++ .rbrace :: rest)) ⟨_, _, rfl, rfl⟩ (by omega)
        have h2 := clausesP mode p (.cons p2 x2 ns2 c2 b2 r2) hr f rest (by omega)
        have e : clausesToks (.cons p x ns [] b (.cons p2 x2 ns2 c2 b2 r2)) ++ .rbrace :: rest =
            xtorTok p x :: (namesToks ns ++ (.fatArrow :: (termToks b ++
              .comma :: (clausesToks (.cons p2 x2 ns2 c2 b2 r2) ++ .rbrace :: rest)))) := by
          simp [clausesToks]
        rw [e]
        unfold parseClauses
        cases p <;> simp [xtorTok, h0, h1, h2, Outcome.bind, expect, String.ofList_toList]
end


/-! ## declarations -/

theorem bindingP (b : Binding) (f : Nat) (rest : List Token) (hr : NoLbrack rest)
    (hf : 2 * (bindingToks b).length ≤ f) : parseBinding f (bindingToks b ++ rest) = .ok (b, rest) := by
  obtain ⟨x, chi, ty⟩ := b
  have h := tyP ty f rest hr (by simp [bindingToks] at hf; omega)
  cases chi <;> simp [bindingToks, parseBinding, h, Outcome.bind, String.ofList_toList]

theorem bindingToks_head (b : Binding) : ∃ x r, bindingToks b = .lower x :: r := ⟨_, _, rfl⟩

/-- a comma separated list of bindings up to the closing parenthesis -/
theorem bindingsP : (c : Ctx) → ∀ (f : Nat) (rest : List Token), 2 * (ctxToks c).length + 2 ≤ f →
    parseBindings f (ctxToks c ++ .rparen :: rest) = .ok (c, rest)
  | [], f, rest, hf => by
    cases f with
    | zero => omega
    | succ f => simp [ctxToks, joinToks, parseBindings]
  | [b], f, rest, hf => by
    cases f with
    | zero => omega
    | succ f =>
      have h := bindingP b f (.rparen :: rest) (fun r h => by cases h) (by
        simp [ctxToks, joinToks] at hf; omega)
      obtain ⟨x, r, h0⟩ := bindingToks_head b
      simp only [ctxToks, List.map_cons, List.map_nil, joinToks]
      unfold parseBindings
      split
      · rename_i h'; rw [h0] at h'; cases h'
      · simp [h, Outcome.bind]
  | b :: b' :: c, f, rest, hf => by
    cases f with
    | zero => omega
    | succ f =>
      have hlen : (ctxToks (b :: b' :: c)).length = (bindingToks b).length + 1 + (ctxToks (b' :: c)).length := by
        simp [ctxToks, joinToks]; omega
      have h := bindingP b f (.comma :: (ctxToks (b' :: c) ++ .rparen :: rest)) (fun r h => by cases h) (by omega)
      have h2 := bindingsP (b' :: c) f rest (by omega)
      obtain ⟨x, r, h0⟩ := bindingToks_head b
      have e : ctxToks (b :: b' :: c) ++ .rparen :: rest =
          bindingToks b ++ (.comma :: (ctxToks (b' :: c) ++ .rparen :: rest)) := by
        simp [ctxToks, joinToks]
      rw [e]
      generalize ctxToks (b' :: c) = J at h h2
      unfold parseBindings
      split
      · rename_i h'; rw [h0] at h'; cases h'
      · simp [h, h2, Outcome.bind]

/-- tokens of the optional context of constructor/destructor signatures -/
def optCtxToks (c : Ctx) : List Token :=
  match c with
  | [] => []
  | _ => .lparen :: ctxToks c ++ [.rparen]

theorem optCtxP (c : Ctx) (f : Nat) (rest : List Token) (hr : NoLparen rest)
    (hf : 2 * (optCtxToks c).length + 2 ≤ f) : parseOptCtx f (optCtxToks c ++ rest) = .ok (c, rest) := by
  cases c with
  | nil =>
    simp only [optCtxToks, List.nil_append]
    unfold parseOptCtx
    split
    · rename_i r; exact absurd rfl (hr r)
    · rfl
  | cons b c =>
    have := bindingsP (b :: c) f rest (by simp [optCtxToks] at hf; omega)
    simp only [optCtxToks, List.cons_append, List.append_assoc, List.nil_append]
    unfold parseOptCtx
    simp only [this]

theorem tyNamesP : (n : String) → (ns : List String) → ∀ (f : Nat) (rest : List Token), ns.length + 1 ≤ f →
    parseTyNames f (joinToks [.comma] ((n :: ns).map fun n => [Token.upper n.toList]) ++ .rbrack :: rest)
      = .ok (n :: ns, rest)
  | n, [], f, rest, hf => by
    cases f with
    | zero => simp at hf
    | succ f => simp [joinToks, parseTyNames, String.ofList_toList]
  | n, m :: ns, f, rest, hf => by
    cases f with
    | zero => simp at hf
    | succ f =>
      have ih := tyNamesP m ns f rest (by simp at hf ⊢; omega)
      simp only [List.map_cons] at ih
      simp [joinToks, parseTyNames, ih, Outcome.bind, String.ofList_toList]

theorem tyParamsToks_length (ns : List String) : ns.length ≤ (tyParamsToks ns).length := by
  cases ns with
  | nil => simp
  | cons n r =>
    have : ∀ (m : String) (l : List String),
        (m :: l).length ≤ (joinToks [Token.comma] ((m :: l).map fun n => [Token.upper n.toList])).length := by
      intro m l
      induction l generalizing m with
      | nil => simp [joinToks]
      | cons k l ih => have := ih k; simp [joinToks] at this ⊢; omega
    have := this n r
    simp [tyParamsToks] at this ⊢; omega

/-- `OptTypeContext` -/
theorem optTyNamesP (ns : List String) (f : Nat) (rest : List Token) (hr : NoLbrack rest)
    (hf : ns.length + 1 ≤ f) : parseOptTyNames f (tyParamsToks ns ++ rest) = .ok (ns, rest) := by
  cases ns with
  | nil =>
    simp only [tyParamsToks, List.nil_append]
    unfold parseOptTyNames
    split
    · rename_i r; exact absurd rfl (hr r)
    · rfl
  | cons n ns =>
    have := tyNamesP n ns f rest (by simp at hf ⊢; omega)
    simp only [List.map_cons] at this
    simp only [tyParamsToks, List.cons_append, List.append_assoc, List.map_cons, List.nil_append]
    unfold parseOptTyNames
    simp only [this]

theorem ctorSigToks_eq (c : CtorSig) : ctorSigToks c = .upper c.name.toList :: optCtxToks c.args := by
  obtain ⟨n, a⟩ := c
  cases a <;> simp [ctorSigToks, optCtxToks]

theorem dtorSigToks_eq (d : DtorSig) :
    dtorSigToks d = .lower d.name.toList :: (optCtxToks d.args ++ .colon :: tyToks d.contTy) := by
  obtain ⟨n, a, t⟩ := d
  cases a <;> simp [dtorSigToks, optCtxToks]

theorem ctorSigsP : (cs : List CtorSig) → ∀ (f : Nat) (rest : List Token),
    2 * (joinToks [.comma] (cs.map ctorSigToks)).length + 3 ≤ f →
    parseCtorSigs f (joinToks [.comma] (cs.map ctorSigToks) ++ .rbrace :: rest) = .ok (cs, rest)
  | [], f, rest, hf => by
    cases f with
    | zero => omega
    | succ f => simp [joinToks, parseCtorSigs]
  | [c], f, rest, hf => by
    cases f with
    | zero => omega
    | succ f =>
      have h := optCtxP c.args f (.rbrace :: rest) (fun r h => by cases h) (by
        simp [joinToks, ctorSigToks_eq] at hf; omega)
      simp only [List.map_cons, List.map_nil, joinToks, ctorSigToks_eq, List.cons_append]
      unfold parseCtorSigs
      simp [h, Outcome.bind, String.ofList_toList]
  | c :: c' :: cs, f, rest, hf => by
    cases f with
    | zero => omega
    | succ f =>
      have hlen : (joinToks [.comma] ((c :: c' :: cs).map ctorSigToks)).length =
          (optCtxToks c.args).length + 2 + (joinToks [.comma] ((c' :: cs).map ctorSigToks)).length := by
        simp [joinToks, ctorSigToks_eq]; omega
      have h := optCtxP c.args f (.comma :: (joinToks [.comma] ((c' :: cs).map ctorSigToks) ++ .rbrace :: rest))
        (fun r h => by cases h) (by omega)
      have h2 := ctorSigsP (c' :: cs) f rest (by omega)
      have e : joinToks [.comma] ((c :: c' :: cs).map ctorSigToks) ++ .rbrace :: rest =
          .upper c.name.toList :: (optCtxToks c.args ++
            (.comma :: (joinToks [.comma] ((c' :: cs).map ctorSigToks) ++ .rbrace :: rest))) := by
        simp [joinToks, ctorSigToks_eq]
      rw [e]
      generalize joinToks [.comma] ((c' :: cs).map ctorSigToks) = J at h h2
      unfold parseCtorSigs
      simp [h, h2, Outcome.bind, String.ofList_toList]

theorem dtorSigsP : (ds : List DtorSig) → ∀ (f : Nat) (rest : List Token),
    2 * (joinToks [.comma] (ds.map dtorSigToks)).length + 3 ≤ f →
    parseDtorSigs f (joinToks [.comma] (ds.map dtorSigToks) ++ .rbrace :: rest) = .ok (ds, rest)
  | [], f, rest, hf => by
    cases f with
    | zero => omega
    | succ f => simp [joinToks, parseDtorSigs]
  | [d], f, rest, hf => by
    cases f with
    | zero => omega
    | succ f =>
      have hlen : (joinToks [.comma] ([d].map dtorSigToks)).length =
          (optCtxToks d.args).length + 2 + (tyToks d.contTy).length := by
        simp [joinToks, dtorSigToks_eq]; omega
      have h := optCtxP d.args f (.colon :: (tyToks d.contTy ++ .rbrace :: rest)) (fun r h => by cases h) (by omega)
      have h1 := tyP d.contTy f (.rbrace :: rest) (fun r h => by cases h) (by omega)
      have e : joinToks [.comma] ([d].map dtorSigToks) ++ .rbrace :: rest =
          .lower d.name.toList :: (optCtxToks d.args ++ (.colon :: (tyToks d.contTy ++ .rbrace :: rest))) := by
        simp [joinToks, dtorSigToks_eq]
      rw [e]
      unfold parseDtorSigs
      simp [h, h1, Outcome.bind, expect, String.ofList_toList]
  | d :: d' :: ds, f, rest, hf => by
    cases f with
    | zero => omega
    | succ f =>
      have hlen : (joinToks [.comma] ((d :: d' :: ds).map dtorSigToks)).length =
          (optCtxToks d.args).length + 3 + (tyToks d.contTy).length +
            (joinToks [.comma] ((d' :: ds).map dtorSigToks)).length := by
        simp [joinToks, dtorSigToks_eq]; omega
      have h := optCtxP d.args f (.colon :: (tyToks d.contTy ++
          (.comma :: (joinToks [.comma] ((d' :: ds).map dtorSigToks) ++ .rbrace :: rest))))
        (fun r h => by cases h) (by omega)
      have h1 := tyP d.contTy f (.comma :: (joinToks [.comma] ((d' :: ds).map dtorSigToks) ++ .rbrace :: rest))
        (fun r h => by cases h) (by omega)
      have h2 := dtorSigsP (d' :: ds) f rest (by omega)
      have e : joinToks [.comma] ((d :: d' :: ds).map dtorSigToks) ++ .rbrace :: rest =
          .lower d.name.toList :: (optCtxToks d.args ++ (.colon :: (tyToks d.contTy ++
            (.comma :: (joinToks [.comma] ((d' :: ds).map dtorSigToks) ++ .rbrace :: rest))))) := by
        simp [joinToks, dtorSigToks_eq]
      rw [e]
      generalize joinToks [.comma] ((d' :: ds).map dtorSigToks) = J at h h1 h2
      unfold parseDtorSigs
      simp [h, h1, h2, Outcome.bind, expect, String.ofList_toList]


theorem declP (mode : LiteralMode) (d : Decl) (hd : InRangeDecl d) (fuel : Nat) (rest : List Token)
    (hf : 3 * (declToks d).length + 6 ≤ fuel) : parseDecl mode fuel (declToks d ++ rest) = .ok (d, rest) := by
  cases d with
  | data d =>
    obtain ⟨name, ps, cs⟩ := d
    have hp := tyParamsToks_length ps
    have hlen : (declToks (.data ⟨name, ps, cs⟩)).length =
        (tyParamsToks ps).length + (joinToks [.comma] (cs.map ctorSigToks)).length + 4 := by
      simp [declToks]; omega
    have h1 := optTyNamesP ps fuel (.lbrace :: (joinToks [.comma] (cs.map ctorSigToks) ++ .rbrace :: rest))
      (fun r h => by cases h) (by omega)
    have h2 := ctorSigsP cs fuel rest (by omega)
    have e : declToks (.data ⟨name, ps, cs⟩) ++ rest = .kw .data :: .upper name.toList ::
        (tyParamsToks ps ++ (.lbrace :: (joinToks [.comma] (cs.map ctorSigToks) ++ .rbrace :: rest))) := by
      simp [declToks]
    rw [e]
    unfold parseDecl
    simp [h1, h2, Outcome.bind, expect, String.ofList_toList]
  | codata d =>
    obtain ⟨name, ps, ds⟩ := d
    have hp := tyParamsToks_length ps
    have hlen : (declToks (.codata ⟨name, ps, ds⟩)).length =
        (tyParamsToks ps).length + (joinToks [.comma] (ds.map dtorSigToks)).length + 4 := by
      simp [declToks]; omega
    have h1 := optTyNamesP ps fuel (.lbrace :: (joinToks [.comma] (ds.map dtorSigToks) ++ .rbrace :: rest))
      (fun r h => by cases h) (by omega)
    have h2 := dtorSigsP ds fuel rest (by omega)
    have e : declToks (.codata ⟨name, ps, ds⟩) ++ rest = .kw .codata :: .upper name.toList ::
        (tyParamsToks ps ++ (.lbrace :: (joinToks [.comma] (ds.map dtorSigToks) ++ .rbrace :: rest))) := by
      simp [declToks]
    rw [e]
    unfold parseDecl
    simp [h1, h2, Outcome.bind, expect, String.ofList_toList]
  | defn d =>
    obtain ⟨name, ctx, ret, body⟩ := d
    simp only [InRangeDecl] at hd
    have hlen : (declToks (.defn ⟨name, ctx, ret, body⟩)).length =
        (ctxToks ctx).length + (tyToks ret).length + (termToks body).length + 7 := by
      simp [declToks]; omega
    obtain ⟨g, rfl⟩ : ∃ g, fuel = g + 1 := ⟨fuel - 1, by omega⟩
    have h1 := bindingsP ctx (g + 1) (.colon :: (tyToks ret ++ .lbrace :: (termToks body ++ .rbrace :: rest)))
      (by omega)
    have h2 := tyP ret (g + 1) (.lbrace :: (termToks body ++ .rbrace :: rest)) (fun r h => by cases h) (by omega)
    have h3 := bracedP (specP mode body hd).tm g rest (by omega)
    have e : declToks (.defn ⟨name, ctx, ret, body⟩) ++ rest = .kw .def_ :: .lower name.toList :: .lparen ::
        (ctxToks ctx ++ (.rparen :: .colon :: (tyToks ret ++ .lbrace :: (termToks body ++ .rbrace :: rest)))) := by
      simp [declToks]
    rw [e]
    unfold parseDecl
    simp [parseOptCtx, h1, h2, h3, Outcome.bind, expect, String.ofList_toList]

theorem declToks_ne_nil (d : Decl) : ∃ tk r, declToks d = tk :: r := by
  cases d <;> exact ⟨_, _, rfl⟩

theorem declsP (mode : LiteralMode) (fuel : Nat) : (ds : List Decl) → (∀ d ∈ ds, InRangeDecl d) →
    (∀ d ∈ ds, 3 * (declToks d).length + 6 ≤ fuel) → ∀ k, ds.length ≤ k →
    parseDecls mode fuel k ((ds.map declToks).flatten) = .ok ds
  | [], _, _, k, _ => by
    cases k <;> simp [parseDecls]
  | d :: ds, hin, hf, k, hk => by
    cases k with
    | zero => simp at hk
    | succ k =>
      have h1 := declP mode d (hin d (by simp)) fuel ((ds.map declToks).flatten) (hf d (by simp))
      have h2 := declsP mode fuel ds (fun x hx => hin x (by simp [hx])) (fun x hx => hf x (by simp [hx])) k
        (by simp at hk; omega)
      obtain ⟨tk, r, h0⟩ := declToks_ne_nil d
      simp only [List.map_cons, List.flatten_cons]
      rw [h0] at h1 ⊢
      simp only [List.cons_append] at h1 ⊢
      unfold parseDecls
      simp [h1, h2, Outcome.bind]

theorem length_le_flatten_map (ds : List Decl) (d : Decl) (h : d ∈ ds) :
    (declToks d).length ≤ ((ds.map declToks).flatten).length := by
  induction ds with
  | nil => cases h
  | cons x xs ih =>
    simp only [List.map_cons, List.flatten_cons, List.length_append]
    cases h with
    | head => omega
    | tail _ h' => have := ih h'; omega

theorem length_le_flatten (ds : List Decl) : ds.length ≤ ((ds.map declToks).flatten).length := by
  induction ds with
  | nil => simp
  | cons x xs ih =>
    obtain ⟨tk, r, h0⟩ := declToks_ne_nil x
    simp only [List.map_cons, List.flatten_cons, List.length_append, List.length_cons, h0]
    omega

/-- C16-T2 `parse_tokens`: the parser maps the token sequence of a program in the image of the
grammar back to the program. -/
theorem parse_tokens (mode : LiteralMode) (p : Program) (h : InRangeProg p) :
    parseTokens mode (tokens p) = .ok p := by
  unfold parseTokens tokens
  have := declsP mode (fuelFor ((p.decls.map declToks).flatten).length) p.decls h
    (fun d hd => by have := length_le_flatten_map p.decls d hd; simp only [fuelFor]; omega)
    (((p.decls.map declToks).flatten).length + 1) (by have := length_le_flatten p.decls; omega)
  rw [this]
  rfl


end Scc.Fun.Print
