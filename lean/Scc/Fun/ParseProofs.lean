/-
  Scc.Fun.ParseProofs — lemmas about the parser model (Scc.Fun.Parse): the only panic is the literal
  conversion, and it needs an out-of-range literal token in the input.  Proof file.
-/
import Scc.Fun.Parse

namespace Scc.Fun.Parse
open Scc.Fun.Lex

/-- the token list contains a number token that does not fit `i64` -/
def Ov (ts : List Token) : Prop := ∃ ds, Token.num ds ∈ ts ∧ i64Max < digitsToNat ds

theorem Ov.mono {r ts : List Token} (h : r ⊆ ts) : Ov r → Ov ts
  | ⟨ds, hm, ho⟩ => ⟨ds, h hm, ho⟩

/-- `Sound mode ts rest o`: if `o` is `ok a`, the remaining input `rest a` consists of tokens of
`ts`; if `o` is a panic, the mode is `panicOnOverflow` and `ts` contains an overflowing literal. -/
def Sound {α : Type} (mode : LiteralMode) (ts : List Token) (rest : α → List Token) :
    Outcome α → Prop
  | .ok a => rest a ⊆ ts
  | .diag _ => True
  | .panic _ => mode = .panicOnOverflow ∧ Ov ts

theorem Sound.mono {α : Type} {mode : LiteralMode} {r ts : List Token} {rest : α → List Token}
    {o : Outcome α} (h : r ⊆ ts) : Sound mode r rest o → Sound mode ts rest o := by
  cases o with
  | ok a => exact fun h' => List.Subset.trans h' h
  | diag c => exact fun _ => trivial
  | panic s => exact fun ⟨h1, h2⟩ => ⟨h1, h2.mono h⟩

theorem Sound.bind {α β : Type} {mode : LiteralMode} {ts : List Token} {ra : α → List Token}
    {rb : β → List Token} {o : Outcome α} {f : α → Outcome β}
    (ho : Sound mode ts ra o) (hf : ∀ a, ra a ⊆ ts → Sound mode ts rb (f a)) :
    Sound mode ts rb (o.bind f) := by
  cases o with
  | ok a => exact hf a ho
  | diag c => exact trivial
  | panic s => exact ho

theorem sound_failAt {α : Type} {mode : LiteralMode} {ts : List Token} {rest : α → List Token}
    (x : List Token) : Sound mode ts rest (failAt x : Outcome α) := by
  unfold failAt; split <;> exact trivial

theorem sound_expect {mode : LiteralMode} (t : Token) (ts : List Token) :
    Sound mode ts id (expect t ts) := by
  unfold expect
  split
  · split
    · simp [Sound]
    · exact sound_failAt _
  · exact sound_failAt _

theorem sound_parseNum {mode : LiteralMode} {neg : Bool} {ds : List Char} {r ts : List Token}
    (hm : Token.num ds ∈ ts) (hr : r ⊆ ts) :
    Sound mode ts (fun _ => r) (parseNum mode neg ds r) := by
  unfold parseNum
  split
  · exact sound_failAt _
  · split
    · simp only []
      split
      · exact hr
      · cases mode
        · exact ⟨rfl, ds, hm, by omega⟩
        · exact trivial
    · exact sound_failAt _

/-- remaining input of a parser result -/
abbrev snd' {α : Type} : α × List Token → List Token := Prod.snd

/-- subset side goals -/
macro "subs" : tactic => `(tactic| (first
  | assumption
  | (simp_all [Sound]; done)
  | (intro x hx; simp_all [Sound, List.subset_def]; done)
  | (intro x hx; simp_all [Sound, List.subset_def]; grind)
  | (intro x hx; grind [List.subset_def])))

/-- `Sound … (.ok (a, r))` -/
macro "sound_ok" : tactic => `(tactic| (show _ ⊆ _; subs))

/-- one bind step whose first component is justified by `$h` (a `Sound` fact, possibly for a smaller input) -/
macro "sound_bind_with" h:term : tactic => `(tactic| (
  refine Sound.bind (Sound.mono (by subs) $h) ?_
  intro ⟨_, _⟩ _
  try simp only []))

macro "sound_bind_expect" : tactic => `(tactic| (
  refine Sound.bind (Sound.mono (by subs) (sound_expect _ _)) ?_
  intro _ _
  try simp only []))

theorem sound_ty (mode : LiteralMode) : ∀ fuel ts,
    Sound mode ts snd' (parseTy fuel ts) ∧ Sound mode ts snd' (parseTys fuel ts) := by
  intro fuel
  induction fuel with
  | zero => intro ts; constructor <;> (simp [parseTy, parseTys, Sound])
  | succ n ih =>
    intro ts
    constructor
    · unfold parseTy
      repeat' (first
        | exact sound_failAt _ | sound_ok | sound_bind_with (ih _).2 | split)
    · unfold parseTys
      repeat' (first
        | exact sound_failAt _ | sound_ok | sound_bind_with (ih _).1 | sound_bind_with (ih _).2 | split)

theorem sound_parseTy (mode : LiteralMode) (fuel : Nat) (ts : List Token) :
    Sound mode ts snd' (parseTy fuel ts) := (sound_ty mode fuel ts).1
theorem sound_parseTys (mode : LiteralMode) (fuel : Nat) (ts : List Token) :
    Sound mode ts snd' (parseTys fuel ts) := (sound_ty mode fuel ts).2

theorem sound_parseOptTyArgs (mode : LiteralMode) (fuel : Nat) (ts : List Token) :
    Sound mode ts snd' (parseOptTyArgs fuel ts) := by
  unfold parseOptTyArgs
  repeat' (first | exact sound_failAt _ | sound_ok | sound_bind_with (sound_parseTys mode _ _) | split)
  exact Sound.mono (by subs) (sound_parseTys mode _ _)

theorem sound_parseNames (mode : LiteralMode) : ∀ fuel ts,
    Sound mode ts snd' (parseNames fuel ts) := by
  intro fuel
  induction fuel with
  | zero => intro ts; unfold parseNames; exact trivial
  | succ n ih =>
    intro ts
    unfold parseNames
    repeat' (first | exact sound_failAt _ | sound_ok | sound_bind_with (ih _) | split)

theorem sound_parseOptNames (mode : LiteralMode) (fuel : Nat) (ts : List Token) :
    Sound mode ts snd' (parseOptNames fuel ts) := by
  unfold parseOptNames
  split
  · exact Sound.mono (by subs) (sound_parseNames mode _ _)
  · sound_ok

theorem sound_parseTyNames (mode : LiteralMode) : ∀ fuel ts,
    Sound mode ts snd' (parseTyNames fuel ts) := by
  intro fuel
  induction fuel with
  | zero => intro ts; unfold parseTyNames; exact trivial
  | succ n ih =>
    intro ts
    unfold parseTyNames
    repeat' (first | exact sound_failAt _ | sound_ok | sound_bind_with (ih _) | split)

theorem sound_parseOptTyNames (mode : LiteralMode) (fuel : Nat) (ts : List Token) :
    Sound mode ts snd' (parseOptTyNames fuel ts) := by
  unfold parseOptTyNames
  split
  · exact Sound.mono (by subs) (sound_parseTyNames mode _ _)
  · sound_ok

theorem sound_parseBinding (mode : LiteralMode) (fuel : Nat) (ts : List Token) :
    Sound mode ts snd' (parseBinding fuel ts) := by
  unfold parseBinding
  repeat' (first | exact sound_failAt _ | sound_ok | sound_bind_with (sound_parseTy mode _ _) | split)

theorem sound_parseBindings (mode : LiteralMode) : ∀ fuel ts,
    Sound mode ts snd' (parseBindings fuel ts) := by
  intro fuel
  induction fuel with
  | zero => intro ts; unfold parseBindings; exact trivial
  | succ n ih =>
    intro ts
    unfold parseBindings
    repeat' (first
      | exact sound_failAt _ | sound_ok | sound_bind_with (sound_parseBinding mode _ _) | sound_bind_with (ih _) | split)

theorem sound_parseOptCtx (mode : LiteralMode) (fuel : Nat) (ts : List Token) :
    Sound mode ts snd' (parseOptCtx fuel ts) := by
  unfold parseOptCtx
  split
  · exact Sound.mono (by subs) (sound_parseBindings mode _ _)
  · sound_ok

/-- the induction hypothesis for the mutual block of term parsers -/
structure TermIH (mode : LiteralMode) (n : Nat) : Prop where
  t1 : ∀ ts, Sound mode ts snd' (parseTerm1 mode n ts)
  args : ∀ ts, Sound mode ts snd' (parseArgs mode n ts)
  cls : ∀ pol ts, Sound mode ts snd' (parseClauses mode pol n ts)
  post : ∀ t ts, Sound mode ts snd' (parsePostfix mode n t ts)
  braced : ∀ ts, Sound mode ts snd' (parseBraced mode n ts)
  thenElse : ∀ ts, Sound mode ts snd' (parseThenElse mode n ts)
  term : ∀ b ts, Sound mode ts snd' (parseTerm mode n b ts)

macro "sound_num" : tactic => `(tactic| (
  refine Sound.bind (sound_parseNum (by simp) (by subs)) ?_
  intro _ _
  try simp only []))

macro "sound_go" ih:ident : tactic => `(tactic| repeat' (first
  | exact sound_failAt _
  | exact trivial
  | sound_ok
  | sound_num
  | sound_bind_expect
  | sound_bind_with (($ih).t1 _)
  | sound_bind_with (($ih).args _)
  | sound_bind_with (($ih).cls _ _)
  | sound_bind_with (($ih).braced _)
  | sound_bind_with (($ih).thenElse _)
  | sound_bind_with (($ih).term _ _)
  | sound_bind_with (sound_parseTy _ _ _)
  | sound_bind_with (sound_parseOptTyArgs _ _ _)
  | sound_bind_with (sound_parseOptNames _ _ _)
  | exact Sound.mono (by subs) (($ih).post _ _)
  | split))

theorem sound_terms (mode : LiteralMode) : ∀ n, TermIH mode n := by
  intro n
  induction n with
  | zero =>
    constructor <;> intros <;> first
      | (unfold parseTerm1; exact trivial) | (unfold parseArgs; exact trivial)
      | (unfold parseClauses; exact trivial) | (unfold parsePostfix; exact trivial)
      | (unfold parseBraced; exact trivial) | (unfold parseThenElse; exact trivial)
      | (unfold parseTerm; exact trivial)
  | succ n ih =>
    constructor
    · intro ts; unfold parseTerm1; sound_go ih
    · intro ts; unfold parseArgs; sound_go ih
    · intro pol ts; unfold parseClauses; sound_go ih
    · intro t ts; unfold parsePostfix; sound_go ih
    · intro ts; unfold parseBraced; sound_go ih
    · intro ts; unfold parseThenElse; sound_go ih
    · intro b ts; unfold parseTerm; sound_go ih


theorem sound_parseCtorSigs (mode : LiteralMode) : ∀ fuel ts,
    Sound mode ts snd' (parseCtorSigs fuel ts) := by
  intro fuel
  induction fuel with
  | zero => intro ts; unfold parseCtorSigs; exact trivial
  | succ n ih =>
    intro ts
    unfold parseCtorSigs
    repeat' (first
      | exact sound_failAt _ | sound_ok | sound_bind_with (sound_parseOptCtx mode _ _) | sound_bind_with (ih _) | split)

theorem sound_parseDtorSigs (mode : LiteralMode) : ∀ fuel ts,
    Sound mode ts snd' (parseDtorSigs fuel ts) := by
  intro fuel
  induction fuel with
  | zero => intro ts; unfold parseDtorSigs; exact trivial
  | succ n ih =>
    intro ts
    unfold parseDtorSigs
    repeat' (first
      | exact sound_failAt _ | sound_ok | sound_bind_expect | sound_bind_with (sound_parseOptCtx mode _ _)
      | sound_bind_with (sound_parseTy mode _ _) | sound_bind_with (ih _) | split)

theorem sound_parseDecl (mode : LiteralMode) (fuel : Nat) (ts : List Token) :
    Sound mode ts snd' (parseDecl mode fuel ts) := by
  unfold parseDecl
  repeat' (first
    | exact sound_failAt _ | sound_ok | sound_bind_expect | sound_bind_with (sound_parseOptCtx mode _ _)
    | sound_bind_with (sound_parseTy mode _ _) | sound_bind_with (sound_parseOptTyNames mode _ _)
    | sound_bind_with (sound_parseCtorSigs mode _ _) | sound_bind_with (sound_parseDtorSigs mode _ _)
    | sound_bind_with ((sound_terms mode _).braced _) | split)

theorem sound_parseDecls (mode : LiteralMode) (fuel : Nat) : ∀ n ts,
    Sound mode ts (fun _ => []) (parseDecls mode fuel n ts) := by
  intro n
  induction n with
  | zero =>
    intro ts
    cases ts with
    | nil => unfold parseDecls; exact List.nil_subset _
    | cons t r => unfold parseDecls; exact trivial
  | succ n ih =>
    intro ts
    cases ts with
    | nil => unfold parseDecls; exact List.nil_subset _
    | cons t r =>
      unfold parseDecls
      refine Sound.bind (sound_parseDecl mode _ _) ?_
      intro ⟨d, r'⟩ h
      refine Sound.bind (Sound.mono h (ih r')) ?_
      intro ds _
      exact List.nil_subset _

/-- The only panic of the parser model is the literal conversion, it happens only in mode
`panicOnOverflow`, and only if the input contains a number token that does not fit `i64`. -/
theorem parseTokens_panic {mode : LiteralMode} {ts : List Token} {site : PanicSite}
    (h : parseTokens mode ts = .panic site) : mode = .panicOnOverflow ∧ Ov ts := by
  have hs : Sound mode ts (fun _ => []) (parseTokens mode ts) := by
    unfold parseTokens
    refine Sound.bind (sound_parseDecls mode _ _ ts) ?_
    intro ds _
    exact List.nil_subset _
  rw [h] at hs
  exact hs

end Scc.Fun.Parse
