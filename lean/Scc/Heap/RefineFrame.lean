/-
Scc.Heap.RefineFrame — frame reasoning for the heap refinement: `ObjAt` depends only on the words 2..7 of
the blocks of the chain and on the headers of its continuation blocks; `HRef.transfer`: the refinement
relation is re-established for an abstract heap whose objects are objects of the old heap (`Sub`: same
id, same fields; counts may differ, objects may be gone) once the block-level invariant holds again and
the chains of the remaining objects were not written to (except the headers of head blocks).
-/
import Scc.Heap.RefineLemmas

set_option linter.unusedVariables false
set_option linter.unusedSimpArgs false

namespace Scc.Heap.Refine

open Scc.Heap
open Scc.Backend.Abs (Heap Obj Word)

/-- every object of `h'` is an object of `h` with the same fields -/
def Sub (h' h : Heap) : Prop := ∀ e' ∈ h', ∃ e ∈ h, e.1 = e'.1 ∧ e.2.fields = e'.2.fields

theorem Sub.refl (h : Heap) : Sub h h := fun e he => ⟨e, he, rfl, rfl⟩

theorem Sub.trans {h1 h2 h3 : Heap} (a : Sub h1 h2) (b : Sub h2 h3) : Sub h1 h3 := by
  intro e1 he1
  obtain ⟨e2, he2, h1', h2'⟩ := a e1 he1
  obtain ⟨e3, he3, h1'', h2''⟩ := b e2 he2
  exact ⟨e3, he3, h1''.trans h1', h2''.trans h2'⟩

theorem children_of_fields {o o' : Obj} (h : o.fields = o'.fields) : o.children = o'.children := by
  unfold Obj.children; rw [h]

/-- `ObjAt` after a change of memory that leaves the chain alone -/
theorem ObjAt.congr {m m' : Nat → Nat} {ι : Nat → Nat} {p : Nat} {fs : List AField} (O : ObjAt m ι p fs)
    (hw : ∀ b ∈ blocksOf m p fs, ∀ k, 0 < k → k < 64 → m' (b + k) = m (b + k))
    (hh : ∀ b ∈ (blocksOf m p fs).tail, m' b = m b) : ObjAt m' ι p fs := by
  have hp : peek m' (fs.map kindB) .last p = peek m (fs.map kindB) .last p :=
    peek_congr _ _ _ _ (Nat.le_refl _) hw
  have hb : blocksOf m' p fs = blocksOf m p fs := by unfold blocksOf chainOf; rw [hp]
  refine ⟨O.ne, O.pos, by rw [hp]; exact O.vals, ?_, ?_, by rw [hb]; exact O.nodup⟩
  · intro v hv
    have hv' : v ∈ chainOf m p fs := by unfold chainOf at hv ⊢; rw [hp] at hv; exact hv
    have hpre := O.pre v hv'
    have hvb : v.1 ∈ blocksOf m p fs := List.mem_map.2 ⟨v, hv', rfl⟩
    refine ⟨?_, ?_⟩
    · intro i hi hs
      rw [hw v.1 hvb (fstOff i) (by simp [fstOff, fieldOffset]; omega)
        (by simp [fstOff, fieldOffset]; unfold fieldsPerBlock at hi; omega)]
      exact hpre.unloaded i hi hs
    · intro hpos
      rw [hw v.1 hvb (fstOff (fieldsPerBlock - 1)) (by simp [fstOff, fieldOffset, fieldsPerBlock])
        (by simp [fstOff, fieldOffset, fieldsPerBlock])]
      exact hpre.link hpos
  · intro b hb'
    rw [hb] at hb'
    rw [hh b hb']; exact O.hdr b hb'

/-- `blocksOf` after such a change -/
theorem blocksOf_congr {m m' : Nat → Nat} {p : Nat} {fs : List AField}
    (hw : ∀ b ∈ blocksOf m p fs, ∀ k, 0 < k → k < 64 → m' (b + k) = m (b + k)) :
    blocksOf m' p fs = blocksOf m p fs := by
  unfold blocksOf chainOf
  rw [peek_congr _ _ _ _ (Nat.le_refl _) hw]

/-- the image of a field depends on `ι` only at the object the field refers to -/
theorem fieldImg_congr {ι ι' : Nat → Nat} {f : AField} (h : kindB f = true → f.ptr ≠ 0 → ι' f.ptr.toNat = ι f.ptr.toNat) :
    fieldImg ι' f = fieldImg ι f := by
  unfold fieldImg
  by_cases hk : kindB f = true
  · simp only [hk, if_true]
    by_cases hp : f.ptr = 0
    · simp [imgW, hp]
    · simp only [imgW, hp, if_false]; rw [h hk hp]
  · simp [hk]

theorem mem_children_of {f : AField} {fs : List AField} (hf : f ∈ fs) (hk : kindB f = true) (hp : f.ptr ≠ 0) :
    f.ptr.toNat ∈ (fs.filterMap fun f => if f.chi != Scc.AxCut.Chi.ext && f.ptr != 0 then some f.ptr.toNat else none) := by
  rw [List.mem_filterMap]
  refine ⟨f, hf, ?_⟩
  have hk' : (f.chi != Scc.AxCut.Chi.ext) = true := hk
  have : (f.chi != Scc.AxCut.Chi.ext && f.ptr != 0) = true := by
    rw [hk', Bool.true_and, bne_iff_ne]; exact hp
  rw [if_pos this]

/-- change of the address map away from the children of the object -/
theorem ObjAt.congr_map {m : Nat → Nat} {ι ι' : Nat → Nat} {p : Nat} {o : Obj} (O : ObjAt m ι p o.fields)
    (h : ∀ c ∈ o.children, ι' c = ι c) : ObjAt m ι' p o.fields := by
  refine ⟨O.ne, O.pos, ?_, O.pre, O.hdr, O.nodup⟩
  rw [O.vals]
  apply List.map_congr_left
  intro f hf
  exact (fieldImg_congr (fun hk hp => h _ (mem_children_of hf hk hp))).symm

/-- THE TRANSFER LEMMA: re-establishing `HRef` after an operation -/
theorem HRef.transfer {h h' : Heap} {rs rs' : List Nat} {next next' : Nat} {s s' : HState} {ι : Nat → Nat}
    (R : HRef h rs next s ι) (hsub : Sub h' h) (A' : Scc.Backend.Sim.HeapOK h' rs' next')
    (hconc : ∃ lin lazy live F, InvS s' (rs'.map ι) [] lin lazy live F)
    (hw : ∀ e ∈ h', ∀ b ∈ blocksOf s.mem.get (ι e.1) e.2.fields, ∀ k, 0 < k → k < 64 →
      s'.mem.get (b + k) = s.mem.get (b + k))
    (hh : ∀ e ∈ h', ∀ b ∈ (blocksOf s.mem.get (ι e.1) e.2.fields).tail, s'.mem.get b = s.mem.get b) :
    HRef h' rs' next' s' ι := by
  have hold : ∀ e' ∈ h', ∃ e ∈ h, e.1 = e'.1 ∧ e.2.fields = e'.2.fields := hsub
  refine ⟨A', ?_, hconc, ?_, ?_⟩
  · intro e' he' c hc
    obtain ⟨e, he, h1, h2⟩ := hold e' he'
    rw [← h1]
    exact R.ord e he c (by rw [children_of_fields h2]; exact hc)
  · intro e' he'
    obtain ⟨e, he, h1, h2⟩ := hold e' he'
    have O := R.shape e he
    rw [h1, h2] at O
    exact O.congr (hw e' he') (hh e' he')
  · intro e1 he1 e2 he2 hne b hb
    obtain ⟨f1, hf1, a1, b1⟩ := hold e1 he1
    obtain ⟨f2, hf2, a2, b2⟩ := hold e2 he2
    rw [blocksOf_congr (hw e1 he1)] at hb
    rw [blocksOf_congr (hw e2 he2)]
    have := R.disj f1 hf1 f2 hf2 (by rw [a1, a2]; exact hne) b (by rw [a1, b1]; exact hb)
    rw [a2, b2] at this
    exact this

/-! ## what the header operations write -/

theorem rd_ok_val {s : HState} {a v : Nat} (h : rd s a = .ok v) : v = s.mem.get a := by
  unfold rd at h
  split at h
  · split at h
    · injection h with h; exact h.symm
    · cases h
  · cases h

theorem wr_ok_mem {s s' : HState} {a v : Nat} (h : wr s a v = .ok s') :
    s' = { s with mem := s.mem.set a v } := by
  unfold wr at h
  split at h
  · split at h
    · injection h with h; exact h.symm
    · cases h
  · cases h

/-- `share_block_n` writes at most the header of `p` -/
theorem shareBlock_frame {s s' : HState} {p n : Nat} (h : shareBlock s p n = .ok s') :
    ∀ a, a ≠ p → s'.mem.get a = s.mem.get a := by
  intro a ha
  unfold shareBlock at h
  split at h
  · injection h with h; subst h; rfl
  · split at h
    · cases h
    · rw [wr_ok_mem h]
      show (s.mem.set p _).get a = _
      rw [Mem.get_set, if_neg (fun e => ha e.symm)]

/-- `erase_block` writes at most the header of `p` -/
theorem eraseBlock_frame {s s' : HState} {p : Nat} (h : eraseBlock s p = .ok s') :
    ∀ a, a ≠ p → s'.mem.get a = s.mem.get a := by
  intro a ha
  unfold eraseBlock at h
  split at h
  · injection h with h; subst h; rfl
  · split at h
    · cases h
    · split at h
      · split at h
        · cases h
        · rename_i s1 hw
          injection h with h; subst h
          rw [wr_ok_mem hw]
          show (s.mem.set p _).get a = _
          rw [Mem.get_set, if_neg (fun e => ha e.symm)]
      · rw [wr_ok_mem h]
        show (s.mem.set p _).get a = _
        rw [Mem.get_set, if_neg (fun e => ha e.symm)]

end Scc.Heap.Refine
