/-
Scc.Heap.ProofsLoad — `load_values` / `load_fields` / `load` in release mode and in share mode.
-/
import Scc.Heap.ProofsStore

namespace Scc.Heap

/-- The values `load_values` reads for kinds `ks` from fields `i, i+1, ..` of block `blk`. -/
def fieldsAt (m : Nat → Nat) (blk : Nat) : Nat → List Bool → List Field
  | _, [] => []
  | i, k :: ks =>
    (if k then Field.ptr (m (blk + fstOff i)) (m (blk + sndOff i)) else Field.int (m (blk + sndOff i)))
      :: fieldsAt m blk (i + 1) ks

theorem fieldsAt_append (m : Nat → Nat) (blk : Nat) : ∀ (i : Nat) (a b : List Bool),
    fieldsAt m blk i (a ++ b) = fieldsAt m blk i a ++ fieldsAt m blk (i + a.length) b
  | i, [], b => by simp [fieldsAt]
  | i, k :: a, b => by
    simp only [List.cons_append, fieldsAt, List.length_cons, fieldsAt_append m blk (i + 1) a b]
    rw [show i + 1 + a.length = i + (a.length + 1) by omega]

theorem fieldsAt_congr {m m' : Nat → Nat} {blk : Nat}
    (h : ∀ k, 0 < k → k < 64 → m' (blk + k) = m (blk + k)) : ∀ (i : Nat) (ks : List Bool),
    i + ks.length ≤ 3 → fieldsAt m' blk i ks = fieldsAt m blk i ks
  | _, [], _ => rfl
  | i, k :: ks, hl => by
    simp only [List.length_cons] at hl
    simp only [fieldsAt, fieldsAt_congr h (i + 1) ks (by omega)]
    rw [h (fstOff i) (by simp [fstOff, fieldOffset]; omega) (by simp [fstOff, fieldOffset]; omega),
        h (sndOff i) (by simp [sndOff, fieldOffset]) (by simp [sndOff, fieldOffset]; omega)]

/-- Roots gained by `load_values`: none in release mode (the slots already count as roots after
`release_block`), the loaded pointers in share mode. -/
def gained (mode : LoadMode) (vals : List Field) : List Nat :=
  match mode with
  | .release => []
  | .share => ptrsOf vals

theorem mem_ptrSlots_of_off {m : Nat → Nat} {blk i : Nat} (hi : i < 3) :
    m (blk + fstOff i) ∈ ptrSlots m blk := by
  have : i = 0 ∨ i = 1 ∨ i = 2 := by omega
  rcases this with rfl | rfl | rfl <;> simp [ptrSlots, fstOff, fieldOffset]

theorem InvW.slot_live {m : Nat → Nat} {base limit heap free F : Nat}
    {roots pend lin lazy live : List Nat}
    (h : InvW m base limit heap free roots pend lin lazy live F) {blk q : Nat}
    (hb : blk ∈ live) (hq : q ∈ ptrSlots m blk) : q = 0 ∨ q ∈ live := by
  apply h.fields_live
  obtain ⟨l1, l2, rfl⟩ := List.append_of_mem hb
  simp only [ptrFields_append, ptrFields_cons, List.mem_append]
  exact Or.inl (Or.inr (Or.inl hq))

/-- `load_values` (both modes). -/
theorem loadValuesRev_spec {blk F : Nat} {lin lazy live : List Nat} (mode : LoadMode) :
    ∀ (rev : List Bool) (ff : Nat) (acc : List Field) (s : HState) (roots : List Nat),
    rev.length ≤ ff → ff ≤ 3 → InvS s roots [] lin lazy live F →
    IsBlock s.base blk → blk < F → (mode = .share → blk ∈ live) →
    ∃ s', loadValuesRev s blk mode rev ff acc =
        .ok (s', fieldsAt s.mem.get blk (ff - rev.length) rev.reverse ++ acc) ∧
      SameHeap s s' ∧ s'.heap = s.heap ∧ s'.free = s.free ∧ HeadersOnly s s' ∧
      (mode = .release → s' = s) ∧
      InvS s' (gained mode (fieldsAt s.mem.get blk (ff - rev.length) rev.reverse) ++ roots) []
        lin lazy live F := by
  intro rev
  induction rev with
  | nil =>
    intro ff acc s roots _ _ h _ _ _
    refine ⟨s, by simp [loadValuesRev, fieldsAt], SameHeap.refl s, rfl, rfl, fun _ _ => rfl,
      fun _ => rfl, ?_⟩
    cases mode <;> simpa [gained, fieldsAt, ptrsOf] using h
  | cons k rest ih =>
    intro ff acc s roots hlen hff h hb hbF hlive
    obtain ⟨ff', rfl⟩ : ∃ ff', ff = ff' + 1 := ⟨ff - 1, by simp at hlen; omega⟩
    simp only [List.length_cons] at hlen
    have hFr := h.frontier_room
    have hlim : blk + 64 ≤ s.limit := by
      have := h.frontier_block; unfold IsBlock at *; omega
    have hrdS : rd s (blk + sndOff ff') = .ok (s.mem.get (blk + sndOff ff')) :=
      rd_off _ hb hlim (by simp [sndOff, fieldOffset]; omega) (by simp [sndOff, fieldOffset])
    have hrdF : rd s (blk + fstOff ff') = .ok (s.mem.get (blk + fstOff ff')) :=
      rd_off _ hb hlim (by simp [fstOff, fieldOffset]; omega) (by simp [fstOff, fieldOffset])
    have hidx : ff' + 1 - (k :: rest).length = ff' - rest.length := by
      simp only [List.length_cons]; omega
    have hrev : fieldsAt s.mem.get blk (ff' - rest.length) (k :: rest).reverse =
        fieldsAt s.mem.get blk (ff' - rest.length) rest.reverse ++
          fieldsAt s.mem.get blk ff' [k] := by
      rw [List.reverse_cons, fieldsAt_append, List.length_reverse]
      rw [show ff' - rest.length + rest.length = ff' by omega]
    rw [hidx, hrev]
    -- the value loaded in this step
    obtain ⟨s1, v, hlv, hv, hsame1, hheap1, hfree1, hho1, hrel1, hi1⟩ :
        ∃ s1 v, loadValue s k blk ff' mode = .ok (s1, v) ∧ [v] = fieldsAt s.mem.get blk ff' [k] ∧
          SameHeap s s1 ∧ s1.heap = s.heap ∧ s1.free = s.free ∧ HeadersOnly s s1 ∧
          (mode = .release → s1 = s) ∧
          InvS s1 (gained mode [v] ++ roots) [] lin lazy live F := by
      cases k with
      | false =>
        refine ⟨s, .int (s.mem.get (blk + sndOff ff')), by simp [loadValue, hrdS], by simp [fieldsAt],
          SameHeap.refl s, rfl, rfl, fun _ _ => rfl, fun _ => rfl, ?_⟩
        cases mode <;> simpa [gained, ptrsOf] using h
      | true =>
        cases mode with
        | release =>
          exact ⟨s, .ptr (s.mem.get (blk + fstOff ff')) (s.mem.get (blk + sndOff ff')),
            by simp [loadValue, hrdS, hrdF], by simp [fieldsAt],
            SameHeap.refl s, rfl, rfl, fun _ _ => rfl, fun _ => rfl, by simpa [gained] using h⟩
        | share =>
          have hq := InvW.slot_live h (hlive rfl)
            (mem_ptrSlots_of_off (m := s.mem.get) (blk := blk) (i := ff') (by omega))
          obtain ⟨s1, hsh, hsame, hheap, hfree, hho, hi⟩ := shareBlock_spec (n := 1) h hq
          refine ⟨s1, .ptr (s.mem.get (blk + fstOff ff')) (s.mem.get (blk + sndOff ff')),
            by simp [loadValue, hrdS, hrdF, hsh], by simp [fieldsAt], hsame, hheap, hfree, hho,
            by simp, ?_⟩
          simpa [gained, ptrsOf] using hi
    have hcongr : fieldsAt s1.mem.get blk (ff' - rest.length) rest.reverse =
        fieldsAt s.mem.get blk (ff' - rest.length) rest.reverse := by
      apply fieldsAt_congr
      · intro j hj hj'
        exact hho1 _ (not_isBlock_add hb hj hj')
      · rw [List.length_reverse]; omega
    obtain ⟨s', hl', hsame', hheap', hfree', hho', hrel', hi'⟩ :=
      ih ff' (v :: acc) s1 (gained mode [v] ++ roots) (by omega) (by omega) hi1
        (by rw [hsame1.base]; exact hb) hbF hlive
    rw [hcongr] at hl' hi'
    refine ⟨s', ?_, hsame1.trans hsame', by rw [hheap', hheap1], by rw [hfree', hfree1],
      hho1.trans hsame1 hho', fun hm => by rw [hrel' hm, hrel1 hm], ?_⟩
    · simp only [loadValuesRev, hlv]
      rw [hl', ← hv]
      simp
    · rw [← hv]
      cases mode with
      | release => simpa [gained] using hi'
      | share =>
        simp only [gained, ptrsOf_append] at hi' ⊢
        simpa [List.append_assoc] using hi'

/-- What `load` assumes about a block from which it loads variables of kinds `ks`: pointer slots it
does not read (integer fields, unused fields) are null, and the link (if any) is not null. -/
structure BlockPre (m : Nat → Nat) (blk : Nat) (ks : List Bool) (pos : BlockPosition) : Prop where
  unloaded : ∀ i, i < fieldsPerBlock - pos.toNat →
    slotLoaded ks (fieldsPerBlock - pos.toNat) i = false → m (blk + fstOff i) = 0
  link : pos = .other → m (blk + fstOff (fieldsPerBlock - 1)) ≠ 0

/-- Under `BlockPre` the non-null pointer slots of the block are exactly the pointers loaded plus
the link. -/
theorem BlockPre.slots_count {m : Nat → Nat} {blk : Nat} {ks : List Bool} {pos : BlockPosition}
    (hpre : BlockPre m blk ks pos) (hlen : ks.length ≤ fieldsPerBlock - pos.toNat) :
    ∀ x, x ≠ 0 → (ptrSlots m blk).count x =
      (if pos = .other then [m (blk + fstOff (fieldsPerBlock - 1))].count x else 0) +
      (ptrsOf (fieldsAt m blk (fieldsPerBlock - pos.toNat - ks.length) ks)).count x := by
  intro x hx
  have h0 := hpre.unloaded 0
  have h1 := hpre.unloaded 1
  have h2 := hpre.unloaded 2
  cases pos
  · rcases ks with _ | ⟨k0, _ | ⟨k1, _ | ⟨k2, _ | ⟨k3, tl⟩⟩⟩⟩
    case cons.cons.cons.cons => simp [fieldsPerBlock, BlockPosition.toNat] at hlen
    all_goals (try cases k0) <;> (try cases k1) <;> (try cases k2)
    all_goals
      simp [fieldsPerBlock, BlockPosition.toNat, slotLoaded, fstOff, fieldOffset] at h0 h1 h2
      simp [fieldsPerBlock, BlockPosition.toNat, fieldsAt, ptrsOf, ptrSlots, fstOff, fieldOffset,
        List.count_cons, *]
      try grind
  · rcases ks with _ | ⟨k0, _ | ⟨k1, _ | ⟨k2, tl⟩⟩⟩
    case cons.cons.cons => simp [fieldsPerBlock, BlockPosition.toNat] at hlen
    all_goals (try cases k0) <;> (try cases k1)
    all_goals
      simp [fieldsPerBlock, BlockPosition.toNat, slotLoaded, fstOff, fieldOffset] at h0 h1 h2
      simp [fieldsPerBlock, BlockPosition.toNat, fieldsAt, ptrsOf, ptrSlots, fstOff, fieldOffset,
        List.count_cons, *]
      try grind

/-- Precondition of `load_fields` (hence of `load`): every block of the chain, at the moment it is
reached, satisfies `BlockPre` for the kinds loaded from it, and — in release mode — a continuation
block (one reached through a link) has count 0, i.e. the link is the only reference to it.
`store` with the same kinds establishes exactly this shape (right-aligned values, null pointer slot
for integers and unused fields, link in the last pointer slot, fresh blocks have count 0). -/
def LoadPre (s : HState) (kinds : List Bool) (pos : BlockPosition) (mode : LoadMode) (p : Nat) : Prop :=
  if _h : kinds = [] then True
  else
    let rl := restLength kinds.length pos
    LoadPre s (kinds.take rl) .other mode p ∧
    ∀ s1 vals1 blk, loadFields s (kinds.take rl) .other mode p = .ok (s1, vals1, blk) →
      BlockPre s1.mem.get blk (kinds.drop rl) pos ∧
      (mode = .release → kinds.take rl ≠ [] → s1.mem.get blk = 0)
termination_by kinds.length
decreasing_by
  have : 0 < kinds.length := List.length_pos_iff.mpr _h
  simp only [List.length_take]
  exact Nat.lt_of_le_of_lt (Nat.min_le_left _ _) (restLength_lt _ _ this)

/-- One block in release mode: the block (a root with count 0) goes to the linear free list, its
link and the loaded pointers become roots. -/
theorem loadBlock_release {s : HState} {F blk : Nat} {roots lin lazy live : List Nat}
    {ks : List Bool} {pos : BlockPosition}
    (h : InvS s (blk :: roots) [] lin lazy live F) (hb0 : blk ≠ 0) (hz : s.mem.get blk = 0)
    (hpre : BlockPre s.mem.get blk ks pos) (hlen : ks.length ≤ fieldsPerBlock - pos.toNat) :
    ∃ s2 link vals lin' live',
      releaseBlock s blk = .ok s2 ∧
      (if pos = posOther then rd s2 (blk + fstOff (fieldsPerBlock - 1)) else .ok 0) = .ok link ∧
      loadValues s2 ks blk (fieldsPerBlock - pos.toNat) .release = .ok (s2, vals) ∧
      SameHeap s s2 ∧ s2.free = s.free ∧
      InvS s2 ((if pos = .other then [link] else []) ++ ptrsOf vals ++ roots) [] lin' lazy live' F ∧
      (pos = .other → link ≠ 0) := by
  have hbl : blk ∈ live := by
    rcases h.roots_live blk (by simp) with h0 | hl
    · exact absurd h0 hb0
    · exact hl
  have hbb := h.live_block hbl
  have hFr := h.frontier_room
  have hlim : blk + 64 ≤ s.limit := by
    have := h.frontier_block; have := hbb.1; unfold IsBlock at *; omega
  have hwr := wr_off (s := s) (b := blk) s.heap 0 hbb.1 hlim (by omega) (by omega)
  simp only [Nat.add_zero] at hwr
  obtain ⟨l1, l2, rfl⟩ := List.append_of_mem hbl
  let s2 : HState := { s with mem := s.mem.set blk s.heap, heap := blk }
  have hi2 : InvS s2 (ptrSlots s.mem.get blk ++ roots) [] (blk :: lin) lazy (l1 ++ l2) F := by
    show InvW (s.mem.set blk s.heap).get _ _ _ _ _ _ _ _ _ _
    rw [Mem.get_set_upd]
    exact InvW.to_lin h hz
  have hnb : ∀ k, 0 < k → k < 64 → s2.mem.get (blk + k) = s.mem.get (blk + k) := by
    intro k hk hk'
    show (s.mem.set blk s.heap).get _ = _
    rw [Mem.get_set, if_neg (by omega)]
  have hlink : (if pos = posOther then rd s2 (blk + fstOff (fieldsPerBlock - 1)) else .ok 0) =
      .ok (if pos = .other then s.mem.get (blk + fstOff (fieldsPerBlock - 1)) else 0) := by
    cases pos with
    | last => simp
    | other =>
      simp only [if_true]
      rw [rd_off (s := s2) _ hbb.1 hlim (by simp [fstOff, fieldOffset, fieldsPerBlock])
        (by simp [fstOff, fieldOffset, fieldsPerBlock])]
      rw [hnb _ (by simp [fstOff, fieldOffset, fieldsPerBlock]) (by simp [fstOff, fieldOffset, fieldsPerBlock])]
  have hcap3 : fieldsPerBlock - pos.toNat ≤ 3 := by simp [fieldsPerBlock]
  obtain ⟨s3, hlv, _, _, _, _, hrel, _⟩ :=
    loadValuesRev_spec (blk := blk) .release ks.reverse (fieldsPerBlock - pos.toNat) [] s2 _
      (by rw [List.length_reverse]; exact hlen) hcap3 hi2 hbb.1 hbb.2 (by simp)
  rw [hrel rfl, List.reverse_reverse, List.length_reverse, List.append_nil] at hlv
  have hfa : fieldsAt s2.mem.get blk (fieldsPerBlock - pos.toNat - ks.length) ks =
      fieldsAt s.mem.get blk (fieldsPerBlock - pos.toNat - ks.length) ks :=
    fieldsAt_congr hnb _ _ (by omega)
  rw [hfa] at hlv
  refine ⟨s2, _, _, blk :: lin, l1 ++ l2, by simp [releaseBlock, hwr, s2], hlink, hlv, ⟨rfl, rfl⟩, rfl, ?_, ?_⟩
  · refine InvW.roots_congr hi2 (fun x hx => ?_)
    rw [List.count_append, List.count_append, List.count_append, hpre.slots_count hlen x hx]
    cases pos <;> simp
  · intro hp
    rw [if_pos hp]
    exact hpre.link hp

theorem loadFields_nil (s : HState) (pos : BlockPosition) (mode : LoadMode) (p : Nat) :
    loadFields s [] pos mode p = .ok (s, [], p) := by
  rw [loadFields]; simp

theorem loadFields_cons {s : HState} {kinds : List Bool} (hne : kinds ≠ []) (pos : BlockPosition)
    (mode : LoadMode) (p : Nat) {s1 s2 s3 : HState} {vals1 vals2 : List Field} {blk link : Nat}
    (h1 : loadFields s (kinds.take (restLength kinds.length pos)) posOther mode p = .ok (s1, vals1, blk))
    (h2 : (match mode with
           | .release => releaseBlock s1 blk
           | .share => .ok s1) = .ok s2)
    (h3 : (if pos = posOther then rd s2 (blk + fstOff (fieldsPerBlock - 1)) else .ok 0) = .ok link)
    (h4 : loadValues s2 (kinds.drop (restLength kinds.length pos)) blk (fieldsPerBlock - pos.toNat) mode
            = .ok (s3, vals2)) :
    loadFields s kinds pos mode p = .ok (s3, vals1 ++ vals2, link) := by
  rw [loadFields]
  simp only [hne, ↓reduceDIte]
  rw [h1]; simp only []
  cases mode <;> simp only [] at h2 ⊢
  · rw [h2]; simp only []
    rw [h3]; simp only []
    rw [h4]
  · injection h2 with h2
    subst h2
    rw [h3]; simp only []
    rw [h4]

theorem LoadPre_cons {s : HState} {kinds : List Bool} (hne : kinds ≠ []) {pos : BlockPosition}
    {mode : LoadMode} {p : Nat} (h : LoadPre s kinds pos mode p) :
    LoadPre s (kinds.take (restLength kinds.length pos)) .other mode p ∧
    ∀ s1 vals1 blk, loadFields s (kinds.take (restLength kinds.length pos)) .other mode p
        = .ok (s1, vals1, blk) →
      BlockPre s1.mem.get blk (kinds.drop (restLength kinds.length pos)) pos ∧
      (mode = .release → kinds.take (restLength kinds.length pos) ≠ [] → s1.mem.get blk = 0) := by
  rw [LoadPre] at h
  simpa [hne] using h

/-- `load_fields` in release mode (C09-T1: release + load in release mode, single blocks and
chains). -/
theorem loadFields_release_spec : ∀ (n : Nat) {s : HState} {F p : Nat}
    {roots lin lazy live : List Nat} (kinds : List Bool) (pos : BlockPosition),
    kinds.length ≤ n → InvS s (p :: roots) [] lin lazy live F → p ≠ 0 → s.mem.get p = 0 →
    LoadPre s kinds pos .release p → (kinds = [] → pos = .other) →
    ∃ s' vals nxt lin' live', loadFields s kinds pos .release p = .ok (s', vals, nxt) ∧
      SameHeap s s' ∧ s'.free = s.free ∧
      InvS s' ((if pos = .other then [nxt] else []) ++ ptrsOf vals ++ roots) [] lin' lazy live' F ∧
      (pos = .other → nxt ≠ 0) := by
  intro n
  induction n with
  | zero =>
    intro s F p roots lin lazy live kinds pos hn h hp hz _ hnil
    have hk : kinds = [] := List.length_eq_zero_iff.mp (by omega)
    subst hk
    have hpos := hnil rfl
    subst hpos
    exact ⟨s, [], p, lin, live, loadFields_nil _ _ _ _, SameHeap.refl s, rfl,
      by simpa [ptrsOf] using h, fun _ => hp⟩
  | succ n ih =>
    intro s F p roots lin lazy live kinds pos hn h hp hz hpre hnil
    by_cases hk : kinds = []
    · subst hk
      have hpos := hnil rfl
      subst hpos
      exact ⟨s, [], p, lin, live, loadFields_nil _ _ _ _, SameHeap.refl s, rfl,
        by simpa [ptrsOf] using h, fun _ => hp⟩
    · have hlpos : 0 < kinds.length := List.length_pos_iff.mpr hk
      have hrl := restLength_lt kinds.length pos hlpos
      obtain ⟨hpre1, hblk⟩ := LoadPre_cons hk hpre
      obtain ⟨s1, vals1, blk, lin1, live1, hl1, hsame1, hfree1, hi1, hnz1⟩ :=
        ih (kinds.take (restLength kinds.length pos)) .other
          (by rw [List.length_take]; omega) h hp hz hpre1 (fun _ => rfl)
      obtain ⟨hbpre, hhdr⟩ := hblk s1 vals1 blk hl1
      have hz1 : s1.mem.get blk = 0 := by
        by_cases ht : kinds.take (restLength kinds.length pos) = []
        · rw [ht, loadFields_nil] at hl1
          injection hl1 with hl1
          injection hl1 with e1 e2
          injection e2 with e2 e3
          rw [← e1, ← e3]; exact hz
        · exact hhdr rfl ht
      simp only [if_true, List.cons_append] at hi1
      obtain ⟨s2, link, vals2, lin2, live2, hrel, hlink, hlv, hsame2, hfree2, hi2, hnz2⟩ :=
        loadBlock_release (ks := kinds.drop (restLength kinds.length pos)) (pos := pos) hi1
          (hnz1 rfl) hz1 hbpre (by rw [List.length_drop]; exact length_drop_restLength _ _)
      refine ⟨s2, vals1 ++ vals2, link, lin2, live2,
        loadFields_cons hk pos .release p hl1 hrel hlink hlv, hsame1.trans hsame2,
        by rw [hfree2, hfree1], ?_, hnz2⟩
      refine InvW.roots_congr hi2 (fun x _ => ?_)
      simp only [ptrsOf_append, List.count_append, List.count_nil]
      omega

/-- `load_fields` in share mode (C09-T1: load in share mode, single blocks and chains): nothing is
released; every pointer loaded gets one more root. -/
theorem loadFields_share_spec : ∀ (n : Nat) {s : HState} {F p : Nat}
    {roots lin lazy live : List Nat} (kinds : List Bool) (pos : BlockPosition),
    kinds.length ≤ n → InvS s roots [] lin lazy live F → p ∈ live →
    LoadPre s kinds pos .share p →
    ∃ s' vals nxt, loadFields s kinds pos .share p = .ok (s', vals, nxt) ∧
      SameHeap s s' ∧ s'.heap = s.heap ∧ s'.free = s.free ∧ HeadersOnly s s' ∧
      InvS s' (ptrsOf vals ++ roots) [] lin lazy live F ∧
      (pos = .other → nxt ∈ live) := by
  intro n
  induction n with
  | zero =>
    intro s F p roots lin lazy live kinds pos hn h hp _
    have hk : kinds = [] := List.length_eq_zero_iff.mp (by omega)
    subst hk
    exact ⟨s, [], p, loadFields_nil _ _ _ _, SameHeap.refl s, rfl, rfl, fun _ _ => rfl,
      by simpa [ptrsOf] using h, fun _ => hp⟩
  | succ n ih =>
    intro s F p roots lin lazy live kinds pos hn h hp hpre
    by_cases hk : kinds = []
    · subst hk
      exact ⟨s, [], p, loadFields_nil _ _ _ _, SameHeap.refl s, rfl, rfl, fun _ _ => rfl,
        by simpa [ptrsOf] using h, fun _ => hp⟩
    · have hlpos : 0 < kinds.length := List.length_pos_iff.mpr hk
      have hrl := restLength_lt kinds.length pos hlpos
      obtain ⟨hpre1, hblk⟩ := LoadPre_cons hk hpre
      obtain ⟨s1, vals1, blk, hl1, hsame1, hheap1, hfree1, hho1, hi1, hlive1⟩ :=
        ih (kinds.take (restLength kinds.length pos)) .other
          (by rw [List.length_take]; omega) h hp hpre1
      obtain ⟨hbpre, _⟩ := hblk s1 vals1 blk hl1
      have hbl : blk ∈ live := hlive1 rfl
      have hbb := hi1.live_block hbl
      have hFr := hi1.frontier_room
      have hlim : blk + 64 ≤ s1.limit := by
        have := hi1.frontier_block; have := hbb.1; unfold IsBlock at *; omega
      have hlink : (if pos = posOther then rd s1 (blk + fstOff (fieldsPerBlock - 1)) else .ok 0) =
          .ok (if pos = .other then s1.mem.get (blk + fstOff (fieldsPerBlock - 1)) else 0) := by
        cases pos with
        | last => simp
        | other =>
          simp only [if_true]
          rw [rd_off (s := s1) _ hbb.1 hlim (by simp [fstOff, fieldOffset, fieldsPerBlock])
            (by simp [fstOff, fieldOffset, fieldsPerBlock])]
      have hcap3 : fieldsPerBlock - pos.toNat ≤ 3 := by simp [fieldsPerBlock]
      obtain ⟨s3, hlv, hsame3, hheap3, hfree3, hho3, _, hi3⟩ :=
        loadValuesRev_spec (blk := blk) .share (kinds.drop (restLength kinds.length pos)).reverse
          (fieldsPerBlock - pos.toNat) [] s1 _
          (by rw [List.length_reverse, List.length_drop]; exact length_drop_restLength _ _)
          hcap3 hi1 hbb.1 hbb.2 (fun _ => hbl)
      rw [List.reverse_reverse, List.append_nil] at hlv
      rw [List.reverse_reverse] at hi3
      refine ⟨s3, _, _, loadFields_cons hk pos .share p hl1 rfl hlink hlv, hsame1.trans hsame3,
        by rw [hheap3, hheap1], by rw [hfree3, hfree1], hho1.trans hsame1 hho3, ?_, ?_⟩
      · refine InvW.roots_congr hi3 (fun x _ => ?_)
        simp only [gained, ptrsOf_append, List.count_append]
        omega
      · intro hpo
        rw [if_pos hpo]
        have hne := hbpre.link hpo
        rcases InvW.slot_live hi1 hbl (mem_ptrSlots_of_off (m := s1.mem.get) (blk := blk) (i := 2) (by omega)) with h0 | hl
        · simp only [fieldsPerBlock] at hne; exact absurd h0 hne
        · simpa [fieldsPerBlock] using hl

end Scc.Heap
