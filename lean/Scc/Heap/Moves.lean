/-
Scc.Heap.Moves — the elementary state changes out of which every heap operation is composed, each
with its effect on the witnesses of `InvW` (pure: no `HState`, no `Except`).
-/
import Scc.Heap.Lemmas

namespace Scc.Heap

variable {m : Nat → Nat} {base limit heap free F : Nat} {roots pend lin lazy live : List Nat}

namespace InvW

theorem mem_all_block (h : InvW m base limit heap free roots pend lin lazy live F) {a : Nat}
    (ha : a ∈ lin ++ lazy ++ live ++ pend) : IsBlock base a ∧ a < F := (h.cover a).mp ha

theorem live_block (h : InvW m base limit heap free roots pend lin lazy live F) {a : Nat}
    (ha : a ∈ live) : IsBlock base a ∧ a < F := h.mem_all_block (by simp [ha])
theorem lin_block (h : InvW m base limit heap free roots pend lin lazy live F) {a : Nat}
    (ha : a ∈ lin) : IsBlock base a ∧ a < F := h.mem_all_block (by simp [ha])
theorem lazy_block (h : InvW m base limit heap free roots pend lin lazy live F) {a : Nat}
    (ha : a ∈ lazy) : IsBlock base a ∧ a < F := h.mem_all_block (by simp [ha])
theorem pend_block (h : InvW m base limit heap free roots pend lin lazy live F) {a : Nat}
    (ha : a ∈ pend) : IsBlock base a ∧ a < F := h.mem_all_block (by simp [ha])

theorem live_lazy_block (h : InvW m base limit heap free roots pend lin lazy live F) :
    ∀ b, b ∈ live ++ lazy → IsBlock base b := by
  intro b hb
  rcases List.mem_append.mp hb with hb | hb
  · exact (h.live_block hb).1
  · exact (h.lazy_block hb).1

theorem live_ne_zero (h : InvW m base limit heap free roots pend lin lazy live F) {a : Nat}
    (ha : a ∈ live) : a ≠ 0 := by
  have := (h.live_block ha).1.1; have := h.base_pos; omega

/-- `InvW` depends on the roots only through the multiplicities of the non-null ones. -/
theorem roots_congr (h : InvW m base limit heap free roots pend lin lazy live F) {roots' : List Nat}
    (hc : ∀ b, b ≠ 0 → roots'.count b = roots.count b) :
    InvW m base limit heap free roots' pend lin lazy live F := by
  refine { h with counts := ?_, roots_live := ?_ }
  · intro b hb
    rw [hc b (h.live_ne_zero hb)]; exact h.counts b hb
  · intro r hr
    by_cases h0 : r = 0
    · exact Or.inl h0
    · refine h.roots_live r ?_
      have : 0 < roots'.count r := List.count_pos_iff.mpr hr
      rw [hc r h0] at this
      exact List.count_pos_iff.mp this

theorem roots_perm (h : InvW m base limit heap free roots pend lin lazy live F) {roots' : List Nat}
    (hp : roots'.Perm roots) : InvW m base limit heap free roots' pend lin lazy live F :=
  h.roots_congr (fun b _ => hp.count_eq b)

theorem roots_zero (h : InvW m base limit heap free (0 :: roots) pend lin lazy live F) :
    InvW m base limit heap free roots pend lin lazy live F :=
  h.roots_congr (fun b hb => by simp [Ne.symm hb])

/-- Header writes do not disturb the topological order of the live blocks. -/
theorem acyclic_upd_header (h : InvW m base limit heap free roots pend lin lazy live F)
    {p v : Nat} (hp : IsBlock base p) {live' : List Nat} (hsub : ∀ b, b ∈ live' → b ∈ live)
    (ha : ∃ ord, ord.Perm live' ∧ TopoSorted m ord) :
    ∃ ord, ord.Perm live' ∧ TopoSorted (upd m p v) ord := by
  obtain ⟨ord, hperm, hts⟩ := ha
  exact ⟨ord, hperm, hts.congr (fun b hb =>
    ptrSlots_upd_header hp (h.live_block (hsub b (hperm.mem_iff.mp hb))).1)⟩

/-- (M1) Change the count of a live block `p` by changing the number of roots that hold it. -/
theorem header_update (h : InvW m base limit heap free roots pend lin lazy live F)
    {p v : Nat} {roots' : List Nat} (hp : p ∈ live)
    (hv : v + 1 + roots.count p = m p + 1 + roots'.count p)
    (hc : ∀ b, b ≠ 0 → b ≠ p → roots'.count b = roots.count b) :
    InvW (upd m p v) base limit heap free roots' pend lin lazy live F := by
  have hpb := h.live_block hp
  have hnd := h.nodup
  have hall : ∀ b, b ∈ live ++ lazy → IsBlock base b := h.live_lazy_block
  have hpf : ptrFields (upd m p v) (live ++ lazy) = ptrFields m (live ++ lazy) :=
    ptrFields_upd_header hpb.1 hall
  rw [nodup4_iff] at hnd
  have hplin : p ∉ lin := by grind
  have hplazy : p ∉ lazy := by grind
  have hppend : p ∉ pend := by grind
  refine { h with lin_chain := ?_, lazy_chain := ?_, zero_above := ?_, counts := ?_,
                  fields_live := ?_, roots_live := ?_, pend_hdr := ?_,
                  acyclic := h.acyclic_upd_header hpb.1 (fun _ hb => hb) h.acyclic }
  · exact h.lin_chain.frame (fun x hx => upd_other _ _ (by rintro rfl; exact hplin hx))
  · refine h.lazy_chain.frame (fun x hx => upd_other _ _ ?_)
    rintro rfl
    simp at hx
    rcases hx with hx | hx
    · exact hplazy hx
    · omega
  · intro a ha hl
    rw [upd_other _ _ (by omega)]; exact h.zero_above a ha hl
  · intro b hb
    rw [hpf]
    by_cases hbp : b = p
    · subst hbp; rw [upd_same]; have := h.counts b hb; omega
    · rw [upd_other _ _ hbp, hc b (h.live_ne_zero hb) hbp]; exact h.counts b hb
  · rw [hpf]; exact h.fields_live
  · intro r hr
    by_cases h0 : r = 0
    · exact Or.inl h0
    · by_cases hrp : r = p
      · subst hrp; exact Or.inr hp
      · refine h.roots_live r ?_
        have : 0 < roots'.count r := List.count_pos_iff.mpr hr
        rw [hc r h0 hrp] at this
        exact List.count_pos_iff.mp this
  · intro b hb
    rw [upd_other _ _ (by rintro rfl; exact hppend hb)]; exact h.pend_hdr b hb

/-- Facts about a live block `p` whose count is 0 and which is held by a root: nothing else
refers to it. -/
theorem unique_ref (h : InvW m base limit heap free (p :: roots) pend lin lazy live F)
    (hp : p ∈ live) (hz : m p = 0) :
    p ∉ roots ∧ p ∉ ptrFields m (live ++ lazy) := by
  have := h.counts p hp
  rw [hz, List.count_cons_self] at this
  constructor
  · exact List.count_eq_zero.mp (by omega)
  · exact List.count_eq_zero.mp (by omega)

/-- (M2) `erase_block` on a root whose count is 0: the block moves from `live` to the head of the
deferred list; its pointer slots keep counting as references ("waiting beneath a deferred block"). -/
theorem to_lazy {p : Nat} {l1 l2 : List Nat}
    (h : InvW m base limit heap free (p :: roots) pend lin lazy (l1 ++ p :: l2) F)
    (hz : m p = 0) :
    InvW (upd m p free) base limit heap p roots pend lin (p :: lazy) (l1 ++ l2) F := by
  have hp : p ∈ l1 ++ p :: l2 := by simp
  have hpb := h.live_block hp
  have hp0 := h.live_ne_zero hp
  obtain ⟨hur, huf⟩ := h.unique_ref hp hz
  have hnd := h.nodup
  have hperm : (lin ++ (p :: lazy) ++ (l1 ++ l2) ++ pend).Perm (lin ++ lazy ++ (l1 ++ p :: l2) ++ pend) := by
    apply List.perm_iff_count.mpr; intro a
    simp only [List.count_append, List.count_cons]; omega
  have hpf : ptrFields (upd m p free) ((l1 ++ l2) ++ p :: lazy) = ptrFields m ((l1 ++ l2) ++ p :: lazy) := by
    apply ptrFields_upd_header hpb.1
    intro b hb
    apply h.live_lazy_block b
    simp only [List.mem_append, List.mem_cons] at hb ⊢; grind
  have hcnt : ∀ b, (ptrFields m ((l1 ++ l2) ++ p :: lazy)).count b =
      (ptrFields m ((l1 ++ p :: l2) ++ lazy)).count b := by
    intro b
    simp only [ptrFields_append, ptrFields_cons, List.count_append]; omega
  rw [nodup4_iff] at hnd
  have hplin : p ∉ lin := by grind
  have hplazy : p ∉ lazy := by grind
  have hppend : p ∉ pend := by grind
  have hpl12 : p ∉ l1 ++ l2 := by
    have := hnd.2.2.1
    simp only [List.nodup_append, List.nodup_cons, List.mem_append, List.mem_cons] at this ⊢
    grind
  exact
  { base_pos := h.base_pos
    lin_chain := h.lin_chain.frame (fun x hx => upd_other _ _ (by rintro rfl; exact hplin hx))
    lin_ne := h.lin_ne
    lazy_chain := by
      show Chain _ p (p :: (lazy ++ [F]))
      refine ⟨rfl, hp0, ?_⟩
      rw [upd_same]
      refine h.lazy_chain.frame (fun x hx => upd_other _ _ ?_)
      rintro rfl
      rcases List.mem_append.mp hx with hx | hx
      · exact hplazy hx
      · have := List.mem_singleton.mp hx; omega
    frontier_block := h.frontier_block
    frontier_room := h.frontier_room
    zero_above := by
      intro a ha hl hal
      rw [upd_other _ _ (by omega)]; exact h.zero_above a ha hl hal
    nodup := hperm.nodup_iff.mpr h.nodup
    cover := fun a => (hperm.mem_iff).trans (h.cover a)
    counts := by
      intro b hb
      have hbp : b ≠ p := by rintro rfl; exact hpl12 hb
      have hb' : b ∈ l1 ++ p :: l2 := by
        simp only [List.mem_append, List.mem_cons] at hb ⊢; grind
      rw [hpf, hcnt, upd_other _ _ hbp]
      have := h.counts b hb'
      rw [List.count_cons_of_ne (Ne.symm hbp)] at this
      exact this
    fields_live := by
      intro q hq
      rw [hpf] at hq
      have hq' : q ∈ ptrFields m ((l1 ++ p :: l2) ++ lazy) :=
        List.count_pos_iff.mp (by rw [← hcnt]; exact List.count_pos_iff.mpr hq)
      rcases h.fields_live q hq' with h0 | hl
      · exact Or.inl h0
      · right
        have : q ≠ p := by rintro rfl; exact huf hq'
        simp only [List.mem_append, List.mem_cons] at hl ⊢; grind
    roots_live := by
      intro r hr
      rcases h.roots_live r (List.mem_cons_of_mem _ hr) with h0 | hl
      · exact Or.inl h0
      · right
        have : r ≠ p := by rintro rfl; exact hur hr
        simp only [List.mem_append, List.mem_cons] at hl ⊢; grind
    pend_hdr := by
      intro b hb
      rw [upd_other _ _ (by rintro rfl; exact hppend hb)]; exact h.pend_hdr b hb
    acyclic := by
      refine h.acyclic_upd_header hpb.1 (fun b hb => ?_) (acyclic_remove h.acyclic (fun b hb hq =>
        huf (ptrSlots_sub_ptrFields (List.mem_append_left _ hb) _ hq)))
      simp only [List.mem_append, List.mem_cons] at hb ⊢; grind }

/-- (M3) `release_block` on a root whose count is 0: the block moves from `live` to the head of the
linear free list and its three pointer slots become roots (they are about to be loaded into
temporaries; slots that are not loaded must be null, see `LoadPre`). -/
theorem to_lin {p : Nat} {l1 l2 : List Nat}
    (h : InvW m base limit heap free (p :: roots) pend lin lazy (l1 ++ p :: l2) F)
    (hz : m p = 0) :
    InvW (upd m p heap) base limit p free (ptrSlots m p ++ roots) pend (p :: lin) lazy (l1 ++ l2) F := by
  have hp : p ∈ l1 ++ p :: l2 := by simp
  have hpb := h.live_block hp
  have hp0 := h.live_ne_zero hp
  obtain ⟨hur, huf⟩ := h.unique_ref hp hz
  have hnd := h.nodup
  have hperm : ((p :: lin) ++ lazy ++ (l1 ++ l2) ++ pend).Perm (lin ++ lazy ++ (l1 ++ p :: l2) ++ pend) := by
    apply List.perm_iff_count.mpr; intro a
    simp only [List.count_append, List.count_cons]; omega
  have hpf : ptrFields (upd m p heap) ((l1 ++ l2) ++ lazy) = ptrFields m ((l1 ++ l2) ++ lazy) := by
    apply ptrFields_upd_header hpb.1
    intro b hb
    apply h.live_lazy_block b
    simp only [List.mem_append, List.mem_cons] at hb ⊢; grind
  have hcnt : ∀ b, (ptrSlots m p).count b + (ptrFields m ((l1 ++ l2) ++ lazy)).count b =
      (ptrFields m ((l1 ++ p :: l2) ++ lazy)).count b := by
    intro b
    simp only [ptrFields_append, ptrFields_cons, List.count_append]; omega
  rw [nodup4_iff] at hnd
  have hplin : p ∉ lin := by grind
  have hplazy : p ∉ lazy := by grind
  have hppend : p ∉ pend := by grind
  have hpl12 : p ∉ l1 ++ l2 := by
    have := hnd.2.2.1
    simp only [List.nodup_append, List.nodup_cons, List.mem_append, List.mem_cons] at this ⊢
    grind
  exact
  { base_pos := h.base_pos
    lin_chain := by
      refine ⟨rfl, hp0, ?_⟩
      rw [upd_same]
      exact h.lin_chain.frame (fun x hx => upd_other _ _ (by rintro rfl; exact hplin hx))
    lin_ne := by simp
    lazy_chain := by
      refine h.lazy_chain.frame (fun x hx => upd_other _ _ ?_)
      rintro rfl
      rcases List.mem_append.mp hx with hx | hx
      · exact hplazy hx
      · have := List.mem_singleton.mp hx; omega
    frontier_block := h.frontier_block
    frontier_room := h.frontier_room
    zero_above := by
      intro a ha hl hal
      rw [upd_other _ _ (by omega)]; exact h.zero_above a ha hl hal
    nodup := hperm.nodup_iff.mpr h.nodup
    cover := fun a => (hperm.mem_iff).trans (h.cover a)
    counts := by
      intro b hb
      have hbp : b ≠ p := by rintro rfl; exact hpl12 hb
      have hb' : b ∈ l1 ++ p :: l2 := by
        simp only [List.mem_append, List.mem_cons] at hb ⊢; grind
      rw [hpf, upd_other _ _ hbp, List.count_append]
      have := h.counts b hb'
      rw [List.count_cons_of_ne (Ne.symm hbp), ← hcnt] at this
      omega
    fields_live := by
      intro q hq
      rw [hpf] at hq
      have hq' : q ∈ ptrFields m ((l1 ++ p :: l2) ++ lazy) :=
        List.count_pos_iff.mp (by
          have := List.count_pos_iff.mpr hq; rw [← hcnt]; omega)
      rcases h.fields_live q hq' with h0 | hl
      · exact Or.inl h0
      · right
        have : q ≠ p := by rintro rfl; exact huf hq'
        simp only [List.mem_append, List.mem_cons] at hl ⊢; grind
    roots_live := by
      intro r hr
      have hgoal : r = 0 ∨ r ∈ l1 ++ p :: l2 → r ≠ p → r = 0 ∨ r ∈ l1 ++ l2 := by
        intro h1 h2
        simp only [List.mem_append, List.mem_cons] at h1 ⊢; grind
      rcases List.mem_append.mp hr with hr | hr
      · have hq' : r ∈ ptrFields m ((l1 ++ p :: l2) ++ lazy) :=
          List.count_pos_iff.mp (by
            have := List.count_pos_iff.mpr hr; rw [← hcnt]; omega)
        exact hgoal (h.fields_live r hq') (by rintro rfl; exact huf hq')
      · exact hgoal (h.roots_live r (List.mem_cons_of_mem _ hr)) (fun e => hur (e ▸ hr))
    pend_hdr := by
      intro b hb
      rw [upd_other _ _ (by rintro rfl; exact hppend hb)]; exact h.pend_hdr b hb
    acyclic := by
      refine h.acyclic_upd_header hpb.1 (fun b hb => ?_) (acyclic_remove h.acyclic (fun b hb hq =>
        huf (ptrSlots_sub_ptrFields (List.mem_append_left _ hb) _ hq)))
      simp only [List.mem_append, List.mem_cons] at hb ⊢; grind }

/-- (M4) `acquire_block` case (1): the linear free list has a second element. -/
theorem acquire_lin {b h' : Nat} {L : List Nat}
    (h : InvW m base limit b free roots pend (b :: h' :: L) lazy live F) :
    InvW (upd m b 0) base limit (m b) free roots (b :: pend) (h' :: L) lazy live F := by
  have hb : b ∈ b :: h' :: L := by simp
  have hbb := h.lin_block hb
  have hnd := h.nodup
  have hperm : ((h' :: L) ++ lazy ++ live ++ (b :: pend)).Perm ((b :: h' :: L) ++ lazy ++ live ++ pend) := by
    apply List.perm_iff_count.mpr; intro a
    simp only [List.count_append, List.count_cons]; omega
  have hpf : ptrFields (upd m b 0) (live ++ lazy) = ptrFields m (live ++ lazy) :=
    ptrFields_upd_header hbb.1 h.live_lazy_block
  rw [nodup4_iff] at hnd
  have hbL : b ∉ h' :: L := by
    have := hnd.1; simp only [List.nodup_cons] at this; exact this.1
  have hblazy : b ∉ lazy := by grind
  have hblive : b ∉ live := by grind
  have hbpend : b ∉ pend := by grind
  obtain ⟨_, hb0, hch⟩ := h.lin_chain
  exact
  { base_pos := h.base_pos
    lin_chain := hch.frame (fun x hx => upd_other _ _ (by rintro rfl; exact hbL hx))
    lin_ne := by simp
    lazy_chain := by
      refine h.lazy_chain.frame (fun x hx => upd_other _ _ ?_)
      rintro rfl
      rcases List.mem_append.mp hx with hx | hx
      · exact hblazy hx
      · have := List.mem_singleton.mp hx; omega
    frontier_block := h.frontier_block
    frontier_room := h.frontier_room
    zero_above := by
      intro a ha hl hal
      rw [upd_other _ _ (by omega)]; exact h.zero_above a ha hl hal
    nodup := hperm.nodup_iff.mpr h.nodup
    cover := fun a => (hperm.mem_iff).trans (h.cover a)
    counts := by
      intro x hx
      rw [hpf, upd_other _ _ (by rintro rfl; exact hblive hx)]; exact h.counts x hx
    fields_live := by rw [hpf]; exact h.fields_live
    roots_live := h.roots_live
    pend_hdr := by
      intro x hx
      rcases List.mem_cons.mp hx with rfl | hx2
      · exact upd_same _ _ _
      · have hne : x ≠ b := by intro e; rw [e] at hx2; exact hbpend hx2
        rw [upd_other _ _ hne]; exact h.pend_hdr x hx2
    acyclic := h.acyclic_upd_header hbb.1 (fun _ hb => hb) h.acyclic }

/-- (M5) `acquire_block` case (3): both free lists are exhausted, the frontier block becomes the
linear free list and the frontier moves up by one block.  The only move that changes `F`. -/
theorem acquire_bump {b : Nat}
    (h : InvW m base limit b F roots pend [b] [] live F) (hroom : F + 128 ≤ limit) :
    InvW m base limit F (F + 64) roots (b :: pend) [F] [] live (F + 64) := by
  have hb : b ∈ [b] := by simp
  have hbb := h.lin_block hb
  have hFb := h.frontier_block
  have hbase := h.base_pos
  have hF0 : F ≠ 0 := by unfold IsBlock at hFb; omega
  have hcov := h.cover
  have hFnot : F ∉ [b] ++ [] ++ live ++ pend := by
    intro hh; have := ((hcov F).mp hh).2; omega
  have hmb : m b = 0 := by simpa [Chain] using h.lin_chain.2.2
  exact
  { base_pos := h.base_pos
    lin_chain := ⟨rfl, hF0, h.zero_above F (Nat.le_refl _) (by omega) (by unfold IsBlock at hFb; omega)⟩
    lin_ne := by simp
    lazy_chain := ⟨rfl, by omega, h.zero_above (F + 64) (by omega) (by omega)
      (by unfold IsBlock at hFb; omega)⟩
    frontier_block := by unfold IsBlock at *; omega
    frontier_room := by omega
    zero_above := fun a ha hl hal => h.zero_above a (by omega) hl hal
    nodup := by
      have hperm : ([F] ++ [] ++ live ++ (b :: pend)).Perm (F :: ([b] ++ [] ++ live ++ pend)) := by
        apply List.perm_iff_count.mpr; intro a
        simp only [List.count_append, List.count_cons, List.count_nil]; omega
      exact hperm.nodup_iff.mpr (List.nodup_cons.mpr ⟨hFnot, h.nodup⟩)
    cover := by
      intro a
      have hiff : a ∈ [F] ++ [] ++ live ++ (b :: pend) ↔ a = F ∨ a ∈ [b] ++ [] ++ live ++ pend := by
        simp only [List.mem_append, List.mem_cons, List.not_mem_nil, or_false]
        grind
      rw [hiff, hcov a]
      unfold IsBlock at *
      constructor
      · rintro (rfl | ⟨⟨h1, h2⟩, h3⟩)
        · omega
        · omega
      · rintro ⟨⟨h1, h2⟩, h3⟩
        by_cases haF : a = F
        · exact Or.inl haF
        · right; omega
    counts := h.counts
    fields_live := h.fields_live
    roots_live := h.roots_live
    pend_hdr := by
      intro x hx
      rcases List.mem_cons.mp hx with rfl | hx
      · exact hmb
      · exact h.pend_hdr x hx
    acyclic := h.acyclic }

/-- (M6) `acquire_block` case (2), first half: the head `D` of the deferred list becomes the
(one-element) linear free list; its three pointer slots, which counted as references so far, are now
three roots that `erase_fields` drops one after the other. -/
theorem acquire_lazy {b D : Nat} {lz : List Nat}
    (h : InvW m base limit b D roots pend [b] (D :: lz) live F) :
    InvW (upd m D 0) base limit D (m D) (ptrSlots m D ++ roots) (b :: pend) [D] lz live F := by
  have hD : D ∈ D :: lz := by simp
  have hDb := h.lazy_block hD
  have hD0 : D ≠ 0 := by have := hDb.1.1; have := h.base_pos; omega
  have hnd := h.nodup
  have hperm : ([D] ++ lz ++ live ++ (b :: pend)).Perm ([b] ++ (D :: lz) ++ live ++ pend) := by
    apply List.perm_iff_count.mpr; intro a
    simp only [List.count_append, List.count_cons, List.count_nil]; omega
  have hsub : ∀ x, x ∈ live ++ lz → x ∈ live ++ D :: lz := by
    intro x hx; simp only [List.mem_append, List.mem_cons] at hx ⊢; grind
  have hpf : ptrFields (upd m D 0) (live ++ lz) = ptrFields m (live ++ lz) :=
    ptrFields_upd_header hDb.1 (fun x hx => h.live_lazy_block x (hsub x hx))
  have hcnt : ∀ x, (ptrSlots m D).count x + (ptrFields m (live ++ lz)).count x =
      (ptrFields m (live ++ D :: lz)).count x := by
    intro x
    simp only [ptrFields_append, ptrFields_cons, List.count_append]; omega
  rw [nodup4_iff] at hnd
  have hDb' : D ≠ b := by
    have := hnd.2.2.2.2.1 b (by simp); simp only [List.mem_cons] at this; grind
  have hDlz : D ∉ lz := by
    have := hnd.2.1; simp only [List.nodup_cons] at this; exact this.1
  have hDlive : D ∉ live := by
    have := hnd.2.2.2.2.2.1 D hD; exact this.1
  have hDpend : D ∉ pend := by
    have := hnd.2.2.2.2.2.1 D hD; exact this.2
  have hmb : m b = 0 := by simpa [Chain] using h.lin_chain.2.2
  obtain ⟨_, _, hch⟩ : Chain m D (D :: (lz ++ [F])) := h.lazy_chain
  exact
  { base_pos := h.base_pos
    lin_chain := ⟨rfl, hD0, upd_same _ _ _⟩
    lin_ne := by simp
    lazy_chain := by
      refine hch.frame (fun x hx => upd_other _ _ ?_)
      rintro rfl
      rcases List.mem_append.mp hx with hx | hx
      · exact hDlz hx
      · have := List.mem_singleton.mp hx; omega
    frontier_block := h.frontier_block
    frontier_room := h.frontier_room
    zero_above := by
      intro a ha hl hal
      rw [upd_other _ _ (by omega)]; exact h.zero_above a ha hl hal
    nodup := hperm.nodup_iff.mpr h.nodup
    cover := fun a => (hperm.mem_iff).trans (h.cover a)
    counts := by
      intro x hx
      rw [hpf, upd_other _ _ (by rintro rfl; exact hDlive hx), List.count_append]
      have := h.counts x hx
      rw [← hcnt] at this; omega
    fields_live := by
      intro q hq
      rw [hpf] at hq
      refine h.fields_live q (List.count_pos_iff.mp ?_)
      have := List.count_pos_iff.mpr hq; rw [← hcnt]; omega
    roots_live := by
      intro r hr
      rcases List.mem_append.mp hr with hr | hr
      · refine h.fields_live r (List.count_pos_iff.mp ?_)
        have := List.count_pos_iff.mpr hr; rw [← hcnt]; omega
      · exact h.roots_live r hr
    pend_hdr := by
      intro x hx
      rcases List.mem_cons.mp hx with rfl | hx2
      · rw [upd_other _ _ (Ne.symm hDb')]; exact hmb
      · have hne : x ≠ D := by intro e; rw [e] at hx2; exact hDpend hx2
        rw [upd_other _ _ hne]; exact h.pend_hdr x hx2
    acyclic := h.acyclic_upd_header hDb.1 (fun _ hb => hb) h.acyclic }

/-- (M7) Writing a non-header word of a block that is on the linear free list or pending changes
nothing: such blocks may hold arbitrary data. -/
theorem write_free {q k v : Nat}
    (h : InvW m base limit heap free roots pend lin lazy live F)
    (hq : q ∈ lin ∨ q ∈ pend) (hk : 0 < k) (hk' : k < 64) :
    InvW (upd m (q + k) v) base limit heap free roots pend lin lazy live F := by
  have hqb : IsBlock base q ∧ q < F := by
    rcases hq with hq | hq
    · exact h.lin_block hq
    · exact h.pend_block hq
  have hFb := h.frontier_block
  have hne : ∀ x, IsBlock base x → x ≠ q + k := by
    intro x hx; unfold IsBlock at *; omega
  have hnd := h.nodup
  rw [nodup4_iff] at hnd
  have hpf : ptrFields (upd m (q + k) v) (live ++ lazy) = ptrFields m (live ++ lazy) := by
    apply ptrFields_upd_inside hqb.1 hk'
    intro x hx
    refine ⟨h.live_lazy_block x hx, ?_⟩
    rintro rfl
    simp only [List.mem_append] at hx; grind
  have hacyc : ∃ ord, ord.Perm live ∧ TopoSorted (upd m (q + k) v) ord := by
    obtain ⟨ord, hperm, hts⟩ := h.acyclic
    refine ⟨ord, hperm, hts.congr (fun x hx => ?_)⟩
    have hxl := hperm.mem_iff.mp hx
    have hxb := (h.live_block hxl).1
    have hxq : x ≠ q := by rintro rfl; grind
    unfold IsBlock at *
    simp only [ptrSlots]
    rw [upd_other _ _ (by omega), upd_other _ _ (by omega), upd_other _ _ (by omega)]
  refine { h with lin_chain := ?_, lazy_chain := ?_, zero_above := ?_, counts := ?_,
                  fields_live := ?_, pend_hdr := ?_, acyclic := hacyc }
  · exact h.lin_chain.frame (fun x hx => upd_other _ _ (hne x (h.lin_block hx).1))
  · refine h.lazy_chain.frame (fun x hx => upd_other _ _ (hne x ?_))
    rcases List.mem_append.mp hx with hx | hx
    · exact (h.lazy_block hx).1
    · rw [List.mem_singleton.mp hx]; exact hFb
  · intro a ha hl hal
    rw [upd_other _ _ (by unfold IsBlock at *; omega)]; exact h.zero_above a ha hl hal
  · intro x hx
    rw [hpf, upd_other _ _ (hne x (h.live_block hx).1)]; exact h.counts x hx
  · rw [hpf]; exact h.fields_live
  · intro x hx
    rw [upd_other _ _ (hne x (h.pend_block hx).1)]; exact h.pend_hdr x hx

/-- (M7') Any change confined to words 1..7 of a block that is on the linear free list or pending
changes nothing. -/
theorem frame_free {m' : Nat → Nat} {q : Nat}
    (h : InvW m base limit heap free roots pend lin lazy live F)
    (hq : q ∈ lin ∨ q ∈ pend) (hf : ∀ a, (a ≤ q ∨ q + 64 ≤ a) → m' a = m a) :
    InvW m' base limit heap free roots pend lin lazy live F := by
  have hqb : IsBlock base q ∧ q < F := by
    rcases hq with hq | hq
    · exact h.lin_block hq
    · exact h.pend_block hq
  have hFb := h.frontier_block
  have hblk : ∀ x, IsBlock base x → m' x = m x := by
    intro x hx; apply hf; unfold IsBlock at *; omega
  have hnd := h.nodup
  rw [nodup4_iff] at hnd
  have hpf : ptrFields m' (live ++ lazy) = ptrFields m (live ++ lazy) := by
    apply ptrFields_frame
    intro x hx
    have hxb := h.live_lazy_block x hx
    have hxq : x ≠ q := by
      rintro rfl
      simp only [List.mem_append] at hx; grind
    unfold IsBlock at *
    refine ⟨hf _ ?_, hf _ ?_, hf _ ?_⟩ <;> omega
  have hacyc : ∃ ord, ord.Perm live ∧ TopoSorted m' ord := by
    obtain ⟨ord, hperm, hts⟩ := h.acyclic
    refine ⟨ord, hperm, hts.congr (fun x hx => ?_)⟩
    have hxl := hperm.mem_iff.mp hx
    have hxb := (h.live_block hxl).1
    have hxq : x ≠ q := by rintro rfl; grind
    unfold IsBlock at *
    simp only [ptrSlots]
    rw [hf _ (by omega), hf _ (by omega), hf _ (by omega)]
  refine { h with lin_chain := ?_, lazy_chain := ?_, zero_above := ?_, counts := ?_,
                  fields_live := ?_, pend_hdr := ?_, acyclic := hacyc }
  · exact h.lin_chain.frame (fun x hx => hblk x (h.lin_block hx).1)
  · refine h.lazy_chain.frame (fun x hx => hblk x ?_)
    rcases List.mem_append.mp hx with hx | hx
    · exact (h.lazy_block hx).1
    · rw [List.mem_singleton.mp hx]; exact hFb
  · intro a ha hl hal
    rw [hf a (by unfold IsBlock at *; omega)]; exact h.zero_above a ha hl hal
  · intro x hx
    rw [hpf, hblk x (h.live_block hx).1]; exact h.counts x hx
  · rw [hpf]; exact h.fields_live
  · intro x hx
    rw [hblk x (h.pend_block hx).1]; exact h.pend_hdr x hx

/-- (M8) The pending block `b`, whose three pointer slots hold (copies of) roots, becomes a live
object held by one root; the roots stored in it are consumed. -/
theorem adopt {b : Nat} {rest : List Nat}
    (h : InvW m base limit heap free (ptrSlots m b ++ rest) (b :: pend) lin lazy live F) :
    InvW m base limit heap free (b :: rest) pend lin lazy (b :: live) F := by
  have hb : b ∈ b :: pend := by simp
  have hbb := h.pend_block hb
  have hb0 : b ≠ 0 := by have := hbb.1.1; have := h.base_pos; omega
  have hnd := h.nodup
  have hperm : (lin ++ lazy ++ (b :: live) ++ pend).Perm (lin ++ lazy ++ live ++ (b :: pend)) := by
    apply List.perm_iff_count.mpr; intro a
    simp only [List.count_append, List.count_cons]; omega
  rw [nodup4_iff] at hnd
  have hblive : b ∉ live := fun hh => hnd.2.2.2.2.2.2 b hh hb
  have hbroots : b ∉ ptrSlots m b ++ rest := by
    intro hh; rcases h.roots_live b hh with h0 | hl
    · exact hb0 h0
    · exact hblive hl
  have hbf : b ∉ ptrFields m (live ++ lazy) := by
    intro hh; rcases h.fields_live b hh with h0 | hl
    · exact hb0 h0
    · exact hblive hl
  have hcnt : ∀ x, (ptrFields m ((b :: live) ++ lazy)).count x =
      (ptrSlots m b).count x + (ptrFields m (live ++ lazy)).count x := by
    intro x
    simp only [List.cons_append, ptrFields_cons, List.count_append]
  exact
  { base_pos := h.base_pos
    lin_chain := h.lin_chain
    lin_ne := h.lin_ne
    lazy_chain := h.lazy_chain
    frontier_block := h.frontier_block
    frontier_room := h.frontier_room
    zero_above := h.zero_above
    nodup := hperm.nodup_iff.mpr h.nodup
    cover := fun a => (hperm.mem_iff).trans (h.cover a)
    counts := by
      intro x hx
      rw [hcnt]
      rcases List.mem_cons.mp hx with rfl | hx2
      · have h1 : (ptrSlots m x ++ rest).count x = 0 := List.count_eq_zero.mpr hbroots
        have h2 : (ptrFields m (live ++ lazy)).count x = 0 := List.count_eq_zero.mpr hbf
        rw [List.count_append] at h1
        rw [h.pend_hdr x hb, List.count_cons_self]; omega
      · have hxb : x ≠ b := by intro e; rw [e] at hx2; exact hblive hx2
        have := h.counts x hx2
        rw [List.count_append] at this
        rw [List.count_cons_of_ne (Ne.symm hxb)]; omega
    fields_live := by
      intro q hq
      have hq' : q ∈ ptrSlots m b ∨ q ∈ ptrFields m (live ++ lazy) := by
        have := List.count_pos_iff.mpr hq; rw [hcnt] at this
        by_cases hc : 0 < (ptrSlots m b).count q
        · exact Or.inl (List.count_pos_iff.mp hc)
        · exact Or.inr (List.count_pos_iff.mp (by omega))
      have : q = 0 ∨ q ∈ live := by
        rcases hq' with hq' | hq'
        · exact h.roots_live q (List.mem_append_left _ hq')
        · exact h.fields_live q hq'
      rcases this with h0 | hl
      · exact Or.inl h0
      · exact Or.inr (List.mem_cons_of_mem _ hl)
    roots_live := by
      intro r hr
      rcases List.mem_cons.mp hr with rfl | hr
      · exact Or.inr (by simp)
      · rcases h.roots_live r (List.mem_append_right _ hr) with h0 | hl
        · exact Or.inl h0
        · exact Or.inr (List.mem_cons_of_mem _ hl)
    pend_hdr := fun x hx => h.pend_hdr x (List.mem_cons_of_mem _ hx)
    acyclic := by
      obtain ⟨ord, hperm', hts⟩ := h.acyclic
      refine ⟨b :: ord, List.Perm.cons b hperm', ⟨?_, hts⟩⟩
      intro q hq
      rcases h.roots_live q (List.mem_append_left _ hq) with h0 | hl
      · exact Or.inl h0
      · exact Or.inr (hperm'.mem_iff.mpr hl) }

end InvW
end Scc.Heap
