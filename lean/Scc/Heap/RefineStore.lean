/-
Scc.Heap.RefineStore — `store` for the heap refinement, part 1: what the pieces of `store_fields` write.
* `storeValuesRev_post` / `storeValues_read`: `store_values` writes the value word and the pointer slot
  of every field it stores (right-aligned), nulls the pointer slots of the unused fields, and touches
  nothing else; reading the block back with the kinds of the stored fields returns the stored fields.
* `acquire_frame`: `acquire_block` writes at most the header of the acquired block, the header of the
  head of the lazy free list and the headers of the blocks that head points to (deferred erasure).
* `peek_prepend`: the chain read from a new head block whose link points to the head of an (aligned)
  chain is the new block followed by that chain.
-/
import Scc.Heap.RefineLoad

set_option linter.unusedVariables false
set_option linter.unusedSimpArgs false

namespace Scc.Heap.Refine

open Scc.Heap
open Scc.Backend.Abs (Heap Obj Word)

/-! ## `store_values` -/

def isPtrF : Field → Bool
  | .ptr _ _ => true
  | .int _ => false

def valWord : Field → Nat
  | .ptr _ w => w
  | .int w => w

/-- the words of field `i` of block `blk` -/
def fieldWords (blk i : Nat) : List Nat := [blk + fstOff i, blk + sndOff i]

theorem storeValue_post {s s' : HState} {f : Field} {blk off : Nat} (h : storeValue s f blk off = .ok s') :
    s'.mem.get (blk + sndOff off) = valWord f ∧ s'.mem.get (blk + fstOff off) = f.ptrPart ∧
    s'.heap = s.heap ∧ s'.free = s.free ∧ s'.base = s.base ∧ s'.limit = s.limit ∧
    (∀ a, a ≠ blk + fstOff off → a ≠ blk + sndOff off → s'.mem.get a = s.mem.get a) := by
  have hne : blk + sndOff off ≠ blk + fstOff off := by simp [sndOff, fstOff, fieldOffset]; omega
  cases f with
  | int w =>
    simp only [storeValue] at h
    cases h1 : wr s (blk + sndOff off) w with
    | error e => rw [h1] at h; cases h
    | ok s1 =>
      rw [h1] at h
      simp only at h
      rw [wr_ok_mem h, wr_ok_mem h1]
      refine ⟨?_, ?_, rfl, rfl, rfl, rfl, ?_⟩
      · show ((s.mem.set _ w).set _ 0).get _ = _
        rw [Mem.get_set, if_neg (Ne.symm hne), Mem.get_set, if_pos rfl]; rfl
      · show ((s.mem.set _ w).set _ 0).get _ = _
        rw [Mem.get_set, if_pos rfl]; rfl
      · intro a h1' h2'
        show ((s.mem.set _ w).set _ 0).get _ = _
        rw [Mem.get_set, if_neg (Ne.symm h1'), Mem.get_set, if_neg (Ne.symm h2')]
  | ptr p w =>
    simp only [storeValue] at h
    cases h1 : wr s (blk + sndOff off) w with
    | error e => rw [h1] at h; cases h
    | ok s1 =>
      rw [h1] at h
      simp only at h
      rw [wr_ok_mem h, wr_ok_mem h1]
      refine ⟨?_, ?_, rfl, rfl, rfl, rfl, ?_⟩
      · show ((s.mem.set _ w).set _ p).get _ = _
        rw [Mem.get_set, if_neg (Ne.symm hne), Mem.get_set, if_pos rfl]; rfl
      · show ((s.mem.set _ w).set _ p).get _ = _
        rw [Mem.get_set, if_pos rfl]; rfl
      · intro a h1' h2'
        show ((s.mem.set _ w).set _ p).get _ = _
        rw [Mem.get_set, if_neg (Ne.symm h1'), Mem.get_set, if_neg (Ne.symm h2')]

theorem storeZerosFrom_post (blk : Nat) : ∀ (n k : Nat) (s s' : HState), storeZerosFrom s blk k n = .ok s' →
    (∀ i, k ≤ i → i < k + n → s'.mem.get (blk + fstOff i) = 0) ∧
    s'.heap = s.heap ∧ s'.free = s.free ∧ s'.base = s.base ∧ s'.limit = s.limit ∧
    (∀ a, (∀ i, k ≤ i → i < k + n → a ≠ blk + fstOff i) → s'.mem.get a = s.mem.get a)
  | 0, k, s, s', h => by
    simp only [storeZerosFrom, Except.ok.injEq] at h
    subst h
    exact ⟨fun i h1 h2 => by omega, rfl, rfl, rfl, rfl, fun _ _ => rfl⟩
  | n + 1, k, s, s', h => by
    simp only [storeZerosFrom] at h
    cases h1 : wr s (blk + fstOff k) 0 with
    | error e => rw [h1] at h; cases h
    | ok s1 =>
      rw [h1] at h
      obtain ⟨hz, hh, hf, hb, hl, hfr⟩ := storeZerosFrom_post blk n (k + 1) s1 s' h
      have e1 := wr_ok_mem h1
      refine ⟨?_, by rw [hh, e1], by rw [hf, e1], by rw [hb, e1], by rw [hl, e1], ?_⟩
      · intro i h1' h2'
        by_cases hik : i = k
        · subst hik
          rw [hfr _ (fun j hj1 hj2 => by simp [fstOff, fieldOffset]; omega), e1]
          show (s.mem.set _ 0).get _ = _
          rw [Mem.get_set, if_pos rfl]
        · exact hz i (by omega) (by omega)
      · intro a ha
        rw [hfr a (fun i h1' h2' => ha i (by omega) (by omega)), e1]
        show (s.mem.set _ 0).get _ = _
        rw [Mem.get_set, if_neg (Ne.symm (ha k (Nat.le_refl _) (by omega)))]

/-- `store_values` on the reversed list: field `rev[j]` goes to index `ff - 1 - j`, the pointer slots
of the indices below `ff - |rev|` are nulled, nothing else is written -/
theorem storeValuesRev_post (blk : Nat) : ∀ (rev : List Field) (ff : Nat) (s s' : HState),
    storeValuesRev s blk rev ff = .ok s' → rev.length ≤ ff →
    (∀ j (hj : j < rev.length), s'.mem.get (blk + sndOff (ff - 1 - j)) = valWord rev[j] ∧
      s'.mem.get (blk + fstOff (ff - 1 - j)) = rev[j].ptrPart) ∧
    (∀ i, i < ff - rev.length → s'.mem.get (blk + fstOff i) = 0) ∧
    s'.heap = s.heap ∧ s'.free = s.free ∧ s'.base = s.base ∧ s'.limit = s.limit ∧
    (∀ a, (∀ i, i < ff → a ≠ blk + fstOff i ∧ a ≠ blk + sndOff i) → s'.mem.get a = s.mem.get a)
  | [], ff, s, s', h, _ => by
    simp only [storeValuesRev, storeZeros] at h
    obtain ⟨hz, hh, hf, hb, hl, hfr⟩ := storeZerosFrom_post blk ff 0 s s' h
    refine ⟨fun j hj => by simp at hj, fun i hi => hz i (Nat.zero_le _) (by simpa using hi), hh, hf, hb, hl, ?_⟩
    intro a ha
    exact hfr a (fun i _ h2 => (ha i (by omega)).1)
  | f :: rest, 0, s, s', h, hl => by simp at hl
  | f :: rest, ff + 1, s, s', h, hl => by
    simp only [storeValuesRev] at h
    cases h1 : storeValue s f blk ff with
    | error e => rw [h1] at h; cases h
    | ok s1 =>
      rw [h1] at h
      simp only at h
      simp only [List.length_cons] at hl
      obtain ⟨hv, hz, hh, hf, hb, hl', hfr⟩ := storeValuesRev_post blk rest ff s1 s' h (by omega)
      obtain ⟨p1, p2, p3, p4, p5, p6, p7⟩ := storeValue_post h1
      refine ⟨?_, ?_, by rw [hh, p3], by rw [hf, p4], by rw [hb, p5], by rw [hl', p6], ?_⟩
      · intro j hj
        cases j with
        | zero =>
          simp only [List.getElem_cons_zero, Nat.add_sub_cancel, Nat.sub_zero]
          rw [hfr _ (fun i hi => by simp [sndOff, fstOff, fieldOffset]; omega),
            hfr _ (fun i hi => by simp [sndOff, fstOff, fieldOffset]; omega)]
          exact ⟨p1, p2⟩
        | succ j =>
          simp only [List.getElem_cons_succ]
          have := hv j (by simpa using hj)
          rw [show ff + 1 - 1 - (j + 1) = ff - 1 - j by omega]
          exact this
      · intro i hi
        simp only [List.length_cons] at hi
        exact hz i (by omega)
      · intro a ha
        rw [hfr a (fun i hi => ha i (by omega))]
        exact p7 a (ha ff (by omega)).1 (ha ff (by omega)).2

theorem fieldsAt_of_words (m : Nat → Nat) (blk : Nat) : ∀ (vals : List Field) (i : Nat),
    (∀ j (hj : j < vals.length), m (blk + sndOff (i + j)) = valWord vals[j] ∧
      m (blk + fstOff (i + j)) = vals[j].ptrPart) →
    fieldsAt m blk i (vals.map isPtrF) = vals
  | [], i, _ => rfl
  | f :: rest, i, h => by
    have h0 := h 0 (by simp)
    simp only [Nat.add_zero, List.getElem_cons_zero] at h0
    have ih := fieldsAt_of_words m blk rest (i + 1) (fun j hj => by
      have := h (j + 1) (by simpa using hj)
      simp only [List.getElem_cons_succ] at this
      rw [show i + 1 + j = i + (j + 1) by omega]
      exact this)
    simp only [List.map_cons, fieldsAt, ih]
    cases f with
    | ptr p w => simp [isPtrF, h0.1, h0.2, valWord, Field.ptrPart]
    | int w => simp [isPtrF, h0.1, valWord]

/-- reading back what `store_values` stored -/
theorem storeValues_read {s s' : HState} {vals : List Field} {blk cap : Nat}
    (h : storeValues s vals blk cap = .ok s') (hl : vals.length ≤ cap) :
    fieldsAt s'.mem.get blk (cap - vals.length) (vals.map isPtrF) = vals ∧
    (∀ i, i < cap → slotLoaded (vals.map isPtrF) cap i = false → s'.mem.get (blk + fstOff i) = 0) ∧
    s'.heap = s.heap ∧ s'.free = s.free ∧ s'.base = s.base ∧ s'.limit = s.limit ∧
    (∀ a, (∀ i, i < cap → a ≠ blk + fstOff i ∧ a ≠ blk + sndOff i) → s'.mem.get a = s.mem.get a) := by
  unfold storeValues at h
  obtain ⟨hv, hz, hh, hf, hb, hl', hfr⟩ := storeValuesRev_post blk vals.reverse cap s s' h
    (by rw [List.length_reverse]; exact hl)
  have hlr : vals.reverse.length = vals.length := List.length_reverse
  have hwords : ∀ j (hj : j < vals.length), s'.mem.get (blk + sndOff (cap - vals.length + j)) = valWord vals[j] ∧
      s'.mem.get (blk + fstOff (cap - vals.length + j)) = vals[j].ptrPart := by
    intro j hj
    have := hv (vals.length - 1 - j) (by rw [hlr]; omega)
    rw [List.getElem_reverse] at this
    have e1 : cap - 1 - (vals.length - 1 - j) = cap - vals.length + j := by omega
    have e2 : vals.length - 1 - (vals.length - 1 - j) = j := by omega
    simp only [e1, e2] at this
    exact this
  refine ⟨fieldsAt_of_words _ _ _ _ hwords, ?_, hh, hf, hb, hl', hfr⟩
  intro i hi hs
  unfold slotLoaded at hs
  simp only [List.length_map] at hs
  by_cases hlow : i < cap - vals.length
  · exact hz i (by rw [hlr]; exact hlow)
  · have hge : cap - vals.length ≤ i := by omega
    simp only [hge, hi, decide_true, Bool.true_and] at hs
    have hj : i - (cap - vals.length) < vals.length := by omega
    have := (hwords (i - (cap - vals.length)) hj).2
    rw [show cap - vals.length + (i - (cap - vals.length)) = i by omega] at this
    rw [this]
    rw [List.getD_eq_getElem?_getD, List.getElem?_map, List.getElem?_eq_getElem hj] at hs
    simp only [Option.map_some, Option.getD_some] at hs
    cases hv' : vals[i - (cap - vals.length)] with
    | ptr p w => rw [hv'] at hs; simp [isPtrF] at hs
    | int w => rfl


/-! ## `acquire_block` -/

/-- the head of the lazy free list, when its word 0 is not null, is a deferred block -/
theorem free_mem_lazy {s : HState} {roots pend lin lazy live : List Nat} {F : Nat}
    (I : InvS s roots pend lin lazy live F) (hne : s.mem.get s.free ≠ 0) : s.free ∈ lazy := by
  have hc := I.lazy_chain
  cases lazy with
  | nil =>
    simp only [List.nil_append, Chain] at hc
    obtain ⟨e, _, h0⟩ := hc
    rw [← e] at h0
    exact absurd h0 hne
  | cons D lz =>
    simp only [List.cons_append, Chain] at hc
    rw [hc.1]; simp

/-- a pointer slot of a live or deferred block is null or a block of the heap -/
theorem slot_null_or_block {s : HState} {roots pend lin lazy live : List Nat} {F : Nat}
    (I : InvS s roots pend lin lazy live F) {b c : Nat} (hb : b ∈ live ++ lazy)
    (hc : c ∈ ptrSlots s.mem.get b) : c = 0 ∨ IsBlock s.base c := by
  rcases I.fields_live c (ptrSlots_sub_ptrFields hb c hc) with h0 | hl
  · exact Or.inl h0
  · exact Or.inr (I.live_block hl).1

theorem ne_inside {base D c k : Nat} (hpos : 0 < base) (hD : IsBlock base D) (hc : c = 0 ∨ IsBlock base c)
    (h0 : 0 < k) (hk : k < 64) : c ≠ D + k := by
  unfold IsBlock at *
  rcases hc with rfl | hc <;> omega

/-- `acquire_block` writes at most the header of the acquired block, the header of the head of the lazy
free list, and the headers of the blocks the latter points to -/
theorem acquire_frame {s s' : HState} {new : Nat} {roots pend lin lazy live : List Nat} {F : Nat}
    (I : InvS s roots pend lin lazy live F) (h : acquire s = .ok (s', new)) :
    ∀ a, a ≠ s.heap → a ≠ s.free → a ∉ ptrSlots s.mem.get s.free → s'.mem.get a = s.mem.get a := by
  intro a ha1 ha2 ha3
  unfold acquire at h
  simp only at h
  cases h1 : rd s s.heap with
  | error e => rw [h1] at h; cases h
  | ok hh =>
    rw [h1] at h
    simp only at h
    by_cases hz : hh ≠ 0
    · rw [if_pos hz] at h
      cases hw : wr { s with heap := hh } s.heap 0 with
      | error e => rw [hw] at h; cases h
      | ok s1 =>
        rw [hw] at h
        simp only [Except.ok.injEq, Prod.mk.injEq] at h
        rw [← h.1, wr_ok_mem hw]
        show (s.mem.set s.heap 0).get a = _
        rw [Mem.get_set, if_neg (Ne.symm ha1)]
    · rw [if_neg hz] at h
      cases h2 : rd s s.free with
      | error e => rw [h2] at h; cases h
      | ok f' =>
        rw [h2] at h
        simp only at h
        by_cases hf : f' = 0
        · rw [if_pos hf] at h
          simp only [Except.ok.injEq, Prod.mk.injEq] at h
          rw [← h.1]
        · rw [if_neg hf] at h
          cases hw : wr { s with heap := s.free, free := f' } s.free 0 with
          | error e => rw [hw] at h; cases h
          | ok s1 =>
            rw [hw] at h
            simp only at h
            have e1 := wr_ok_mem hw
            have hs1h : s1.heap = s.free := by rw [e1]
            have hm1 : ∀ x, x ≠ s.free → s1.mem.get x = s.mem.get x := by
              intro x hx
              rw [e1]
              show (s.mem.set s.free 0).get x = _
              rw [Mem.get_set, if_neg (Ne.symm hx)]
            have hfv : f' = s.mem.get s.free := rd_ok_val h2
            have hDl : s.free ∈ lazy := free_mem_lazy I (by rw [← hfv]; exact hf)
            have hDb : IsBlock s.base s.free := (I.lazy_block hDl).1
            have hDll : s.free ∈ live ++ lazy := List.mem_append.2 (Or.inr hDl)
            cases hef : eraseFields s1 s1.heap with
            | error e => rw [hef] at h; cases h
            | ok s2 =>
              rw [hef] at h
              simp only [Except.ok.injEq, Prod.mk.injEq] at h
              rw [← h.1]
              -- the three deferred erasures
              rw [hs1h] at hef
              unfold eraseFields at hef
              cases r0 : rd s1 (s.free + fstOff 0) with
              | error e => rw [r0] at hef; cases hef
              | ok c0 =>
                rw [r0] at hef
                simp only at hef
                cases e0 : eraseBlock s1 c0 with
                | error e => rw [e0] at hef; cases hef
                | ok sA =>
                  rw [e0] at hef
                  simp only at hef
                  cases r1 : rd sA (s.free + fstOff 1) with
                  | error e => rw [r1] at hef; cases hef
                  | ok c1 =>
                    rw [r1] at hef
                    simp only at hef
                    cases e1' : eraseBlock sA c1 with
                    | error e => rw [e1'] at hef; cases hef
                    | ok sB =>
                      rw [e1'] at hef
                      simp only at hef
                      cases r2 : rd sB (s.free + fstOff 2) with
                      | error e => rw [r2] at hef; cases hef
                      | ok c2 =>
                        rw [r2] at hef
                        simp only at hef
                        have hc0 : c0 = s.mem.get (s.free + 16) := by
                          rw [rd_ok_val r0, hm1 _ (by simp [fstOff, fieldOffset])]
                          simp [fstOff, fieldOffset]
                        have hc0m : c0 ∈ ptrSlots s.mem.get s.free := by rw [hc0]; simp [ptrSlots]
                        have hc0b := slot_null_or_block I hDll hc0m
                        have hc1 : c1 = s.mem.get (s.free + 32) := by
                          rw [rd_ok_val r1]
                          have : s.free + fstOff 1 = s.free + 32 := by simp [fstOff, fieldOffset]
                          rw [this, eraseBlock_frame e0 _ (Ne.symm (ne_inside I.base_pos hDb hc0b (by omega) (by omega))),
                            hm1 _ (by omega)]
                        have hc1m : c1 ∈ ptrSlots s.mem.get s.free := by rw [hc1]; simp [ptrSlots]
                        have hc1b := slot_null_or_block I hDll hc1m
                        have hc2 : c2 = s.mem.get (s.free + 48) := by
                          rw [rd_ok_val r2]
                          have : s.free + fstOff 2 = s.free + 48 := by simp [fstOff, fieldOffset]
                          rw [this, eraseBlock_frame e1' _ (Ne.symm (ne_inside I.base_pos hDb hc1b (by omega) (by omega))),
                            eraseBlock_frame e0 _ (Ne.symm (ne_inside I.base_pos hDb hc0b (by omega) (by omega))),
                            hm1 _ (by omega)]
                        have hc2m : c2 ∈ ptrSlots s.mem.get s.free := by rw [hc2]; simp [ptrSlots]
                        rw [eraseBlock_frame hef a (fun e => ha3 (e ▸ hc2m)),
                          eraseBlock_frame e1' a (fun e => ha3 (e ▸ hc1m)),
                          eraseBlock_frame e0 a (fun e => ha3 (e ▸ hc0m)), hm1 a ha2]


/-! ## a new head in front of a chain -/

/-- number of fields of a block at position `pos` -/
def capOf (pos : BlockPosition) : Nat := fieldsPerBlock - pos.toNat

theorem capOf_last : capOf .last = 3 := rfl
theorem capOf_other : capOf .other = 2 := rfl

theorem restLength_aligned {n : Nat} {pos : BlockPosition} {j : Nat} (h : n = capOf pos + 2 * j) :
    restLength n pos = 2 * j := by
  unfold restLength
  unfold capOf at h
  split <;> omega

/-- THE PREPEND LEMMA: the chain read from a new head block `newp` holding the (at most two) fields `kg`
whose link points to an aligned chain is the new block followed by that chain -/
theorem peek_prepend (m : Nat → Nat) : ∀ (n : Nat) (ks : List Bool) (pos : BlockPosition),
    ks.length ≤ n → (∃ j, ks.length = capOf pos + 2 * j) →
    ∀ (kg : List Bool) (newp : Nat), kg ≠ [] → kg.length ≤ 2 →
    peek m (kg ++ ks) pos newp =
      (fieldsAt m newp (2 - kg.length) kg ++ (peek m ks pos (m (newp + 48))).1,
       (peek m ks pos (m (newp + 48))).2.1,
       (newp, kg, posOther) :: (peek m ks pos (m (newp + 48))).2.2) := by
  intro n
  induction n with
  | zero =>
    intro ks pos hn ⟨j, hj⟩
    have : capOf pos ≥ 2 := by cases pos <;> simp [capOf, fieldsPerBlock, BlockPosition.toNat]
    omega
  | succ n ih =>
    intro ks pos hn ⟨j, hj⟩ kg newp hkg hkl
    have hcap : capOf pos = 2 ∨ capOf pos = 3 := by cases pos <;> simp [capOf, fieldsPerBlock, BlockPosition.toNat]
    have hks : ks ≠ [] := by
      intro e; rw [e] at hj; simp at hj; omega
    have hne : kg ++ ks ≠ [] := by simp [hks]
    have hkgpos : 0 < kg.length := List.length_pos_iff.mpr hkg
    -- the split of `kg ++ ks`
    have hrl : restLength (kg ++ ks).length pos = kg.length + 2 * j := by
      unfold restLength
      rw [List.length_append]
      unfold capOf at hj hcap
      split <;> omega
    have hrl2 : restLength ks.length pos = 2 * j := restLength_aligned hj
    have htake : (kg ++ ks).take (restLength (kg ++ ks).length pos) = kg ++ ks.take (2 * j) := by
      rw [hrl, List.take_length_add_append]
    have hdrop : (kg ++ ks).drop (restLength (kg ++ ks).length pos) = ks.drop (2 * j) := by
      rw [hrl, List.drop_length_add_append]
    rw [peek_cons m hne, htake, hdrop, peek_cons m hks, hrl2]
    by_cases hj0 : j = 0
    · subst hj0
      simp only [Nat.mul_zero, List.take_zero, List.append_nil, List.drop_zero, peek_nil]
      -- the new block alone
      have hrl' : restLength kg.length posOther = 0 := by
        unfold restLength
        have : fieldsPerBlock - posOther.toNat = 2 := rfl
        rw [this, if_pos hkl]
      rw [peek_cons m hkg, hrl']
      simp only [List.take_zero, List.drop_zero, peek_nil, List.nil_append, if_true]
      have h48 : fstOff (fieldsPerBlock - 1) = 48 := by simp [fstOff, fieldOffset, fieldsPerBlock]
      have h2 : fieldsPerBlock - posOther.toNat = 2 := rfl
      rw [h48, h2]
      rfl
    · -- the inner chain is aligned at position `other`
      have hlen' : (ks.take (2 * j)).length = capOf .other + 2 * (j - 1) := by
        rw [List.length_take, capOf_other]
        omega
      have hshort : (ks.take (2 * j)).length ≤ n := by
        rw [List.length_take]
        unfold capOf at hj hcap
        omega
      rw [ih (ks.take (2 * j)) .other hshort ⟨j - 1, hlen'⟩ kg newp hkg hkl]
      simp only [List.append_assoc, List.cons_append]


/-! ## headers that `acquire_block` does not touch -/

/-- a live block with count 0 whose one reference is known is referenced by nothing else -/
theorem not_slot_of_other {m : Nat → Nat} {base limit heap free F : Nat}
    {roots pend lin lazy live : List Nat} (I : InvW m base limit heap free roots pend lin lazy live F)
    {b D : Nat} (hb : b ∈ live) (hz : m b = 0) (hD : D ∈ live ++ lazy)
    (href : b ∈ roots ∨ ∃ q ∈ live ++ lazy, q ≠ D ∧ b ∈ ptrSlots m q) : b ∉ ptrSlots m D := by
  intro hbD
  have hc := I.counts b hb
  rw [hz] at hc
  have hnd : (live ++ lazy).Nodup := by
    have := I.nodup
    rw [nodup4_iff] at this
    rw [List.nodup_append]
    exact ⟨this.2.2.1, this.2.1, fun x hx y hy e => (this.2.2.2.2.2.1 y hy).1 (e ▸ hx)⟩
  rcases href with hr | ⟨q, hq, hne, hbq⟩
  · have h1 : 0 < roots.count b := List.count_pos_iff.mpr hr
    have h2 : 0 < (ptrFields m (live ++ lazy)).count b :=
      List.count_pos_iff.mpr (ptrSlots_sub_ptrFields hD b hbD)
    omega
  · have h2 := count_ptrFields_le (m := m) (l := [q, D]) (big := live ++ lazy)
      (by simp [hne]) (by
        intro x hx
        simp only [List.mem_cons, List.not_mem_nil, or_false] at hx
        rcases hx with rfl | rfl
        · exact hq
        · exact hD) b
    simp only [ptrFields_cons, ptrFields_nil, List.append_nil, List.count_append] at h2
    have h3 : 0 < (ptrSlots m q).count b := List.count_pos_iff.mpr hbq
    have h4 : 0 < (ptrSlots m D).count b := List.count_pos_iff.mpr hbD
    omega

/-- `acquire_block` leaves the header of a live block with count 0 alone when its single reference
is a root or a slot of a live block -/
theorem acquire_keeps_header {s s' : HState} {new : Nat} {roots lin lazy live : List Nat} {F : Nat}
    (I : InvS s roots [] lin lazy live F) (h : acquire s = .ok (s', new))
    {b : Nat} (hb : b ∈ live) (hz : s.mem.get b = 0)
    (href : b ∈ roots ∨ ∃ q ∈ live, b ∈ ptrSlots s.mem.get q) : s'.mem.get b = s.mem.get b := by
  have hnd := I.nodup
  rw [nodup4_iff] at hnd
  have hb0 : b ≠ 0 := I.live_ne_zero hb
  apply acquire_frame I h
  · -- the acquired block is on the linear free list
    have hc := I.lin_chain
    cases hl : lin with
    | nil => exact absurd hl I.lin_ne
    | cons x xs =>
      rw [hl] at hc
      intro e
      have : s.heap ∈ lin := by rw [hl, hc.1]; simp
      rw [← e] at this
      exact (hnd.2.2.2.2.1 b this).2.1 hb
  · -- the head of the lazy list is deferred or the frontier
    have hc := I.lazy_chain
    cases hl : lazy with
    | nil =>
      rw [hl] at hc
      simp only [List.nil_append, Chain] at hc
      intro e
      have := (I.live_block hb).2
      rw [e, hc.1] at this
      omega
    | cons D lz =>
      rw [hl] at hc
      simp only [List.cons_append, Chain] at hc
      intro e
      have : s.free ∈ lazy := by rw [hl, hc.1]; simp
      rw [← e] at this
      exact (hnd.2.2.2.2.2.1 b this).1 hb
  · have hc := I.lazy_chain
    cases hl : lazy with
    | nil =>
      rw [hl] at hc
      simp only [List.nil_append, Chain] at hc
      -- the frontier block is all zero
      have hF := I.frontier_block
      have hroom := I.frontier_room
      have hfree : s.free = F := hc.1
      intro hm
      rw [hfree] at hm
      simp only [ptrSlots, List.mem_cons, List.not_mem_nil, or_false] at hm
      have z : ∀ k, k = 16 ∨ k = 32 ∨ k = 48 → s.mem.get (F + k) = 0 := by
        intro k hk
        apply I.zero_above
        · omega
        · rcases hk with rfl | rfl | rfl <;> omega
        · unfold IsBlock at hF
          rcases hk with rfl | rfl | rfl <;> omega
      rcases hm with hm | hm | hm
      · rw [z 16 (Or.inl rfl)] at hm; exact hb0 hm
      · rw [z 32 (Or.inr (Or.inl rfl))] at hm; exact hb0 hm
      · rw [z 48 (Or.inr (Or.inr rfl))] at hm; exact hb0 hm
    | cons D lz =>
      rw [hl] at hc
      simp only [List.cons_append, Chain] at hc
      have hDl : s.free ∈ lazy := by rw [hl, hc.1]; simp
      refine not_slot_of_other I hb hz (List.mem_append.2 (Or.inr hDl)) ?_
      rcases href with hr | ⟨q, hq, hbq⟩
      · exact Or.inl hr
      · refine Or.inr ⟨q, List.mem_append.2 (Or.inl hq), ?_, hbq⟩
        intro e
        rw [e] at hq
        exact (hnd.2.2.2.2.2.1 _ hDl).1 hq


/-! ## liveness during `store_fields` -/

open Scc.Backend.Sim (HeapOK)
open Scc.Backend.Sim2 (refCount_eq)

/-- the non-null references among the pointer fields -/
def childrenOf (fs : List AField) : List Nat :=
  fs.filterMap fun f => if f.chi != Scc.AxCut.Chi.ext && f.ptr != 0 then some f.ptr.toNat else none

theorem childrenOf_append (a b : List AField) : childrenOf (a ++ b) = childrenOf a ++ childrenOf b := by
  simp [childrenOf, List.filterMap_append]

theorem children_eq (o : Obj) : o.children = childrenOf o.fields := rfl

/-- along a chain: if the head is live, so is every block (arbitrary roots) -/
theorem linked_live_gen {m : Nat → Nat} {base limit heap free F : Nat} {roots pend lin lazy live : List Nat}
    (I : InvW m base limit heap free roots pend lin lazy live F) :
    ∀ (l : List Nat) (a : Nat), Linked m a l → (l ≠ [] → a ∈ live) →
      (∀ b ∈ l.dropLast, m (b + 48) ≠ 0) → ∀ b ∈ l, b ∈ live := by
  intro l
  induction l with
  | nil => intro a _ _ _ b hb; simp at hb
  | cons x rest ih =>
    intro a hl ha hnz b hb
    obtain ⟨rfl, hl2⟩ := hl
    have hx : x ∈ live := ha (by simp)
    simp only [List.mem_cons] at hb
    rcases hb with rfl | hb
    · exact hx
    · cases rest with
      | nil => simp at hb
      | cons y rest' =>
        have hlink : m (x + 48) ∈ ptrSlots m x := by simp [ptrSlots]
        have hnz' : m (x + 48) ≠ 0 := hnz x (by simp [List.dropLast])
        have hylive : m (x + 48) ∈ live := by
          rcases I.fields_live _ (ptrSlots_sub_ptrFields (List.mem_append.2 (Or.inl hx)) _ hlink) with h0 | hl
          · exact absurd h0 hnz'
          · exact hl
        refine ih (m (x + 48)) hl2 (fun _ => hylive) ?_ b hb
        intro c hc
        exact hnz c (by
          simp only [List.dropLast_cons_cons, List.mem_cons]
          exact Or.inr hc)

/-- a chain whose head is live is live -/
theorem objAt_live {m : Nat → Nat} {base limit heap free F : Nat} {roots pend lin lazy live : List Nat}
    (I : InvW m base limit heap free roots pend lin lazy live F) {ι : Nat → Nat} {p : Nat} {fs : List AField}
    (O : ObjAt m ι p fs) (hp : p ∈ live) : ∀ b ∈ blocksOf m p fs, b ∈ live :=
  linked_live_gen I _ _ (peek_chain m _ (fs.map kindB) .last p (Nat.le_refl _)).1 (fun _ => hp)
    (chain_links_ne O)

section Live

variable {h : Heap} {rsKeep : List Nat} {next : Nat} {ι : Nat → Nat}

/-- liveness of everything the refinement talks about, in the middle of a `store_fields`: the old
abstract heap `h` (roots: `rsKeep` and the children of the fields `todo ++ done`), the fields `todo`
still held by roots, the fields `done` already stored in the chain at `prev` -/
theorem store_liveness {s : HState} {roots lin lazy live : List Nat} {F : Nat}
    {todo done : List AField} {prev : Nat}
    (A : HeapOK h (rsKeep ++ childrenOf (todo ++ done)) next)
    (hord : ∀ e ∈ h, ∀ c ∈ e.2.children, c < e.1)
    (I : InvS s roots [] lin lazy live F)
    (hroots : ∀ x, x ≠ 0 → roots.count x = (ptrsOf (todo.map (fieldImg ι))).count x +
      (if done = [] then 0 else [prev].count x) + (rsKeep.map ι).count x)
    (hold : ∀ e ∈ h, ObjAt s.mem.get ι (ι e.1) e.2.fields)
    (hdone : done ≠ [] → ObjAt s.mem.get ι prev done) :
    (done ≠ [] → ∀ b ∈ blocksOf s.mem.get prev done, b ∈ live) ∧
    (∀ e ∈ h, ∀ b ∈ blocksOf s.mem.get (ι e.1) e.2.fields, b ∈ live) := by
  have root_live : ∀ x, x ≠ 0 → 0 < roots.count x → x ∈ live := by
    intro x hx hc
    rcases I.roots_live x (List.count_pos_iff.mp hc) with h0 | hl
    · exact absurd h0 hx
    · exact hl
  have hdl : done ≠ [] → ∀ b ∈ blocksOf s.mem.get prev done, b ∈ live := by
    intro hd
    have O := hdone hd
    apply objAt_live I O
    apply root_live prev O.pos
    rw [hroots prev O.pos, if_neg hd]
    simp only [List.count_singleton_self]
    omega
  refine ⟨hdl, ?_⟩
  intro e he
  refine chains_live_supp I A hord hold ?_ _ e he (Nat.le_refl _)
  intro r hr
  -- a root of the old heap is a live object with a non-null head
  have hrl : (h.get r).isSome := by
    apply A.live
    have : 0 < (rsKeep ++ childrenOf (todo ++ done)).count r := List.count_pos_iff.mpr hr
    rw [refCount_eq]; omega
  obtain ⟨o, ho⟩ := Scc.Backend.Sim.heap_get_isSome_mem hrl
  have hpos : ι r ≠ 0 := (hold (r, o) ho).pos
  rw [childrenOf_append] at hr
  simp only [List.mem_append] at hr
  rcases hr with hr | hr | hr
  · apply root_live _ hpos
    rw [hroots _ hpos]
    have : 0 < (rsKeep.map ι).count (ι r) := List.count_pos_iff.mpr (List.mem_map.2 ⟨r, hr, rfl⟩)
    omega
  · apply root_live _ hpos
    rw [hroots _ hpos]
    have : 0 < (ptrsOf (todo.map (fieldImg ι))).count (ι r) :=
      List.count_pos_iff.mpr (child_mem_ptrsOf ι _ _ hr)
    omega
  · have hd : done ≠ [] := by
      intro e; rw [e] at hr; simp [childrenOf] at hr
    have O := hdone hd
    have hmem : ι r ∈ ptrsOf (done.map (fieldImg ι)) := child_mem_ptrsOf ι _ _ hr
    rw [← O.vals] at hmem
    have hslot := ptrsOf_peek_sub s.mem.get _ _ .last prev (Nat.le_refl _) _ hmem
    obtain ⟨b', hb', hx⟩ := mem_ptrFields.1 hslot
    have hb'l : b' ∈ live := hdl hd b' hb'
    rcases I.fields_live _ (ptrSlots_sub_ptrFields (List.mem_append.2 (Or.inl hb'l)) _ hx) with h0 | hl
    · exact absurd h0 hpos
    · exact hl

end Live


/-! ## one block of `store_fields`, with what it does to memory -/

theorem isPtrF_fieldImg (ι : Nat → Nat) (f : AField) : isPtrF (fieldImg ι f) = kindB f := by
  unfold fieldImg
  by_cases h : kindB f = true
  · simp [h, isPtrF]
  · simp [h, isPtrF]

theorem map_isPtrF_fieldImg (ι : Nat → Nat) (fs : List AField) :
    (fs.map (fieldImg ι)).map isPtrF = fs.map kindB := by
  rw [List.map_map]
  apply List.map_congr_left
  intro f _
  exact isPtrF_fieldImg ι f

theorem blocks_apart {base b N k j : Nat} (hb : IsBlock base b) (hN : IsBlock base N) (hne : b ≠ N)
    (hk : k < 64) (hj : j < 64) (hkj : 0 < k ∨ 0 < j) : b + k ≠ N + j := by
  unfold IsBlock at *; omega

/-- `storeBlock_spec` (ProofsStore.lean) together with the memory after the step: live blocks keep
their words 1..7, live blocks with count 0 referenced by a root or by a live block keep their header,
the new block holds the values (right-aligned, null pointer slots elsewhere), the link, and count 0 -/
theorem storeBlock_mem {s : HState} {F : Nat} {roots lin lazy live : List Nat}
    (h : InvS s roots [] lin lazy live F) (vals : List Field) (pos : BlockPosition) (prev : Nat)
    (rest' : List Nat) (hlen : vals.length ≤ capOf pos)
    (hroots : ∀ x, x ≠ 0 → roots.count x =
      (ptrsOf vals).count x + (if pos = .other then [prev].count x else 0) + rest'.count x)
    (hroom : F + 128 ≤ s.limit) :
    ∃ s1 s2 s3 lin' lazy' live' F',
      (if pos = posOther then wr s (s.heap + fstOff (fieldsPerBlock - 1)) prev else .ok s) = .ok s1 ∧
      storeValues s1 vals s1.heap (fieldsPerBlock - pos.toNat) = .ok s2 ∧
      acquire s2 = .ok (s3, s.heap) ∧ SameHeap s s3 ∧
      InvS s3 (s.heap :: rest') [] lin' lazy' live' F' ∧ F' ≤ F + 64 ∧
      s.heap ∈ lin ∧
      (∀ b, b ∈ live → ∀ k, 0 < k → k < 64 → s3.mem.get (b + k) = s.mem.get (b + k)) ∧
      (∀ b, b ∈ live → s.mem.get b = 0 → (b ∈ roots ∨ ∃ q ∈ live, b ∈ ptrSlots s.mem.get q) →
        s3.mem.get b = 0) ∧
      fieldsAt s3.mem.get s.heap (capOf pos - vals.length) (vals.map isPtrF) = vals ∧
      (∀ i, i < capOf pos → slotLoaded (vals.map isPtrF) (capOf pos) i = false →
        s3.mem.get (s.heap + fstOff i) = 0) ∧
      (pos = .other → s3.mem.get (s.heap + 48) = prev) ∧
      s3.mem.get s.heap = 0 := by
  have hbl : s.heap ∈ lin := by
    have hc := h.lin_chain
    have hne := h.lin_ne
    cases lin with
    | nil => exact absurd rfl hne
    | cons x xs => rw [hc.1]; simp
  have hbb := h.lin_block hbl
  have hFr := h.frontier_room
  have hFb := h.frontier_block
  have hlim : s.heap + 64 ≤ s.limit := by
    have := hbb.1; unfold IsBlock at *; omega
  have hnd := h.nodup
  rw [nodup4_iff] at hnd
  have hlive_ne : ∀ b, b ∈ live → b ≠ s.heap := by
    intro b hb e
    rw [e] at hb
    exact (hnd.2.2.2.2.1 _ hbl).2.1 hb
  -- step 1: the link
  obtain ⟨s1, hs1, hi1, hheap1, hbase1, hlimit1, hlink1, hfr1⟩ :
      ∃ s1, (if pos = posOther then wr s (s.heap + fstOff (fieldsPerBlock - 1)) prev else .ok s) = .ok s1 ∧
        InvS s1 roots [] lin lazy live F ∧ s1.heap = s.heap ∧ s1.base = s.base ∧ s1.limit = s.limit ∧
        (pos = .other → s1.mem.get (s.heap + 48) = prev) ∧
        (∀ a, a ≠ s.heap + 48 → s1.mem.get a = s.mem.get a) := by
    cases pos with
    | last => exact ⟨s, by simp, h, rfl, rfl, rfl, by simp, fun _ _ => rfl⟩
    | other =>
      refine ⟨{ s with mem := s.mem.set (s.heap + 48) prev }, ?_, ?_, rfl, rfl, rfl, ?_, ?_⟩
      · simp [fstOff, fieldOffset, fieldsPerBlock, wr_off, hbb.1, hlim]
      · show InvW (s.mem.set (s.heap + 48) prev).get _ _ _ _ _ _ _ _ _ _
        rw [Mem.get_set_upd]
        exact InvW.write_free h (Or.inl hbl) (by omega) (by omega)
      · intro _; simp [Mem.get_set]
      · intro a ha
        show (s.mem.set (s.heap + 48) prev).get a = _
        rw [Mem.get_set, if_neg (Ne.symm ha)]
  -- step 2: the values
  have hcap : fieldsPerBlock - pos.toNat = 2 ∨ fieldsPerBlock - pos.toNat = 3 := by
    cases pos <;> simp [fieldsPerBlock, BlockPosition.toNat]
  have hcap3 : capOf pos ≤ 3 := by unfold capOf; omega
  obtain ⟨s2, hs2, hpost⟩ := storeValues_spec (s := s1) (b := s1.heap) (vals := vals)
    (by rw [hbase1, hheap1]; exact hbb.1) (by rw [hheap1, hlimit1]; exact hlim) hcap hlen
  obtain ⟨hrd_vals, hrd_zero, _, _, _, _, hfr2⟩ := storeValues_read hs2 hlen
  rw [hheap1] at hpost hrd_vals hrd_zero hfr2
  have hi2 : InvS s2 roots [] lin lazy live F := by
    unfold InvS
    rw [hpost.heap, hpost.free, hpost.base, hpost.limit]
    exact InvW.frame_free hi1 (Or.inl hbl) (fun a ha => hpost.frame a (by omega))
  have hheap2 : s2.heap = s.heap := by rw [hpost.heap, hheap1]
  -- step 3: acquire
  obtain ⟨s3, lin', lazy', live', F', hacq, hsame, hho, _, hi3, hbump⟩ :=
    acquire_spec hi2 (fun _ _ => by rw [hpost.limit, hlimit1]; exact hroom)
  have hacq2 := hacq
  rw [hheap2] at hacq hi3
  have hbase2 : s2.base = s.base := by rw [hpost.base, hbase1]
  -- step 4: the slots of the acquired block
  have hnb : ∀ k, 0 < k → k < 64 → s3.mem.get (s.heap + k) = s2.mem.get (s.heap + k) := by
    intro k hk hk'
    apply hho
    rw [hbase2]; exact not_isBlock_add hbb.1 hk hk'
  have hslots : ∀ x, x ≠ 0 → (ptrSlots s3.mem.get s.heap).count x =
      (ptrsOf vals).count x + (if pos = .other then [prev].count x else 0) := by
    intro x hx
    have hsl := hpost.slots x hx
    simp only [ptrSlots]
    rw [hnb 16 (by omega) (by omega), hnb 32 (by omega) (by omega), hnb 48 (by omega) (by omega)]
    cases pos with
    | last =>
      simp only [fieldsPerBlock, BlockPosition.toNat, slotsUpTo, fstOff, fieldOffset] at hsl
      simp at hsl ⊢
      rw [← hsl]
    | other =>
      have hl := hpost.link (by simp [fieldsPerBlock, BlockPosition.toNat])
      rw [hlink1 rfl] at hl
      simp only [fieldsPerBlock, BlockPosition.toNat, slotsUpTo, fstOff, fieldOffset] at hsl
      simp at hsl ⊢
      rw [← hsl, hl]
      simp [List.count_cons]
      omega
  -- step 5: adopt
  have hi3' : InvS s3 (ptrSlots s3.mem.get s.heap ++ rest') [s.heap] lin' lazy' live' F' := by
    refine InvW.roots_congr hi3 (fun x hx => ?_)
    rw [List.count_append, hslots x hx, hroots x hx]
  -- memory of live blocks up to `s2`
  have hw2 : ∀ b, b ∈ live → ∀ k, k < 64 → s2.mem.get (b + k) = s.mem.get (b + k) := by
    intro b hb k hk
    have hbB := (h.live_block hb).1
    have hne := hlive_ne b hb
    rw [hfr2 (b + k) (fun i hi => by
      have : i < 3 := by omega
      simp only [fstOff, sndOff, fieldOffset]
      constructor
      · exact blocks_apart hbB hbb.1 hne hk (by omega) (Or.inr (by omega))
      · exact blocks_apart hbB hbb.1 hne hk (by omega) (Or.inr (by omega)))]
    exact hfr1 _ (blocks_apart hbB hbb.1 hne hk (by omega) (Or.inr (by omega)))
  refine ⟨s1, s2, s3, lin', lazy', s.heap :: live', F', hs1, hs2, hacq,
    ⟨by rw [hsame.base, hbase2], by rw [hsame.limit, hpost.limit, hlimit1]⟩, InvW.adopt hi3', ?_, hbl,
    ?_, ?_, ?_, ?_, ?_, ?_⟩
  · rcases hbump with ⟨h1, _⟩ | ⟨h1, _⟩ <;> omega
  · intro b hb k hk hk'
    have hbB := (h.live_block hb).1
    rw [hho (b + k) (by rw [hbase2]; exact not_isBlock_add hbB hk hk')]
    exact hw2 b hb k hk'
  · intro b hb hz href
    have hz2 : s2.mem.get b = 0 := by
      have := hw2 b hb 0 (by omega)
      simp only [Nat.add_zero] at this
      rw [this]; exact hz
    rw [acquire_keeps_header hi2 hacq2 hb hz2 ?_]
    · exact hz2
    · rcases href with hr | ⟨q, hq, hbq⟩
      · exact Or.inl hr
      · refine Or.inr ⟨q, hq, ?_⟩
        simp only [ptrSlots] at hbq ⊢
        rw [hw2 q hq 16 (by omega), hw2 q hq 32 (by omega), hw2 q hq 48 (by omega)]
        exact hbq
  · rw [fieldsAt_congr (m := s2.mem.get) (fun k hk hk' => hnb k hk hk') _ _
      (by rw [List.length_map]; omega)]
    exact hrd_vals
  · intro i hi hsl
    rw [hnb (fstOff i) (by simp [fstOff, fieldOffset]; omega) (by simp [fstOff, fieldOffset]; omega)]
    exact hrd_zero i hi hsl
  · intro hp
    rw [hnb 48 (by omega) (by omega)]
    have hl := hpost.link (by rw [hp]; simp [fieldsPerBlock, BlockPosition.toNat])
    rw [hl]
    exact hlink1 hp
  · exact hi3.pend_hdr s.heap (by simp)

end Scc.Heap.Refine
