#!/usr/bin/env python3
# random well-formed heap histories in the line protocol of Scc.Heap.Model.handleLine
import random, sys
class Obj:
    __slots__=("kinds","kids")
    def __init__(s,kinds,kids): s.kinds=kinds; s.kids=kids   # kids: list of Obj|None for ptr fields
def first_idx(roots, o):
    for j,r in enumerate(roots):
        if r is o: return j
    raise Exception("not held")
def gen(seed, nops, maxroots=25, maxfields=8, base=4096, limit=None):
    rnd=random.Random(seed)
    roots=[]; ops=[]
    def do_store():
        n=rnd.choice([0,1,1,2,2,3,3,3,4,5,6,7,8][:maxfields+5])
        n=min(n,maxfields)
        avail=list(range(len(roots))); rnd.shuffle(avail)
        fs=[]; kinds=[]; kids=[]; used=[]
        for _ in range(n):
            if avail and rnd.random()<0.55:
                i=avail.pop(); fs.append(f"p{i}:{rnd.randrange(100)}"); kinds.append('p'); kids.append(roots[i]); used.append(roots[i])
            else:
                fs.append(f"i{rnd.randrange(1000)}"); kinds.append('i')
        ops.append("t "+" ".join(fs) if fs else "t")
        for o in used:
            del roots[first_idx(roots,o)]
        roots.insert(0, Obj(kinds,kids) if n>0 else None)
    def do_erase():
        i=rnd.randrange(len(roots)); ops.append(f"e {i}"); del roots[first_idx(roots,roots[i])]
    def do_share():
        i=rnd.randrange(len(roots)); n=rnd.choice([1,1,1,2,3]); ops.append(f"s {i} {n}")
        o=roots[i]
        for _ in range(n): roots.insert(0,o)
    def do_load():
        i=rnd.randrange(len(roots)); o=roots[i]
        if o is None:
            ops.append(f"l {i} -"); del roots[first_idx(roots,o)]
        else:
            ops.append(f"l {i} "+"".join(o.kinds)); del roots[first_idx(roots,o)]
            roots[0:0]=o.kids
    for k in range(nops):
        r=rnd.random()
        if not roots or (r<0.40 and len(roots)<maxroots): do_store()
        elif r<0.55 and len(roots)<maxroots: do_share()
        elif r<0.78: do_load()
        else: do_erase()
    # drain: erase all roots, then a build/drop loop (C10: frontier must stay put)
    while roots: do_erase()
    if limit is None: limit=base+64*(4*nops+64)
    return f"heapops {base} {limit} "+";".join(ops)
if __name__=="__main__":
    nlines=int(sys.argv[1]); nops=int(sys.argv[2]); seed0=int(sys.argv[3]) if len(sys.argv)>3 else 0
    for s in range(nlines):
        print(gen(seed0+s, nops, maxroots=random.Random(seed0+s).choice([3,8,25,60]), base=random.Random(s).choice([64,4096,1000000*8])))
