/-
Scc.Heap.Inv — the heap invariant of C09 as a `Prop` (definitions only; core imports only).

The invariant is stated over EXPLICIT witness lists: `lin` (linear free list), `lazy` (deferred free
list without the frontier block), `live` (blocks in use: reachable from the roots or waiting beneath
a deferred block), `pend` (blocks handed out by `acquire_block` inside `store_fields` that nothing
refers to yet; empty at statement boundaries) and the frontier `F`.

Differences to the wording in DESIGN.md §4 (and why):
* `live` is an existential witness instead of "the set of blocks reachable from ...": clause (iv)
  forces every live block to have at least one reference from a root or from a pointer slot of a
  live/deferred block, clause (v) closes `live` under pointer slots, and the added clause (vi)
  (`acyclic`: the live blocks can be topologically sorted w.r.t. pointer slots) excludes garbage
  cycles; together: following references backwards from any live block ends at a root or at a
  deferred block, i.e. `live` is exactly the reachable set.
* Every block has exactly three pointer slots (words 2, 4, 6) and ALL THREE are meaningful for
  live and deferred blocks: `store_values` writes the pointer slot of every field it stores (0 for
  integers), `store_zeros` nulls the unused ones and `store_fields` writes the link, so the deferred
  erasure in `acquire_block` case (2) may read all three.  Chain links are ordinary pointer slots
  for the invariant; "a link's target has count 0 and no other reference" is not part of `Inv`
  (it is a typing fact about which slot is a link, which the heap alone does not know) but a
  precondition of `loadObj` (`LoadPre`), see Proofs.
* (ii) "every word at or above the frontier is 0" is bounded by `limit` (the monitor cannot look
  beyond the heap), talks about 8-byte words aligned relative to the heap base only, and the frontier
  block must lie inside the heap: `F + 64 ≤ limit`.
* Blocks on the linear free list and pending blocks may contain arbitrary stale data in words 1..7.
  The emitted code reads fields of a block that is ALREADY on the linear free list in exactly two
  places, both immediately after it put the block there and before anything else can touch it:
  `load_fields` in release mode (`release_block` comes before the loads of the block's fields) and
  `acquire_block` case (2) (`erase_fields(HEAP)` after the deferred block became the linear list).
  In the proofs the three pointer slots of such a block are accounted as roots from the moment the
  block changes lists (`InvW.to_lin`, `InvW.acquire_lazy`).  Otherwise a block taken from the linear
  list is written before it is read: `store` writes all three pointer slots (value, null or link)
  before `acquire_block` hands the block out.
-/
import Scc.Heap.Model

namespace Scc.Heap

/-- `a` is the address of a block of the heap starting at `base`. -/
def IsBlock (base a : Nat) : Prop := base ≤ a ∧ (a - base) % 64 = 0

/-- Following word 0 from `a` visits exactly the non-null addresses `l` and then reaches 0. -/
def Chain (m : Nat → Nat) : Nat → List Nat → Prop
  | a, [] => a = 0
  | a, x :: xs => a = x ∧ x ≠ 0 ∧ Chain m (m x) xs

/-- `ord` is topologically sorted: every pointer slot of a block in the list is null or points to a
block LATER in the list.  A duplicate-free list with this property has no cycle through pointer
slots. -/
def TopoSorted (m : Nat → Nat) : List Nat → Prop
  | [] => True
  | b :: rest => (∀ p, p ∈ ptrSlots m b → p = 0 ∨ p ∈ rest) ∧ TopoSorted m rest

/-- The invariant with explicit witnesses, on raw components (so that it can be stated for the
memory of an emulated machine as well as for model states). -/
structure InvW (m : Nat → Nat) (base limit heap free : Nat)
    (roots pend lin lazy live : List Nat) (F : Nat) : Prop where
  /-- the heap does not start at the null pointer -/
  base_pos : 0 < base
  /-- (i) the linear free list: duplicate-free (by `nodup`), null-terminated, non-empty -/
  lin_chain : Chain m heap lin
  lin_ne : lin ≠ []
  /-- (ii) the deferred free list ends at the frontier block, whose word 0 is 0 -/
  lazy_chain : Chain m free (lazy ++ [F])
  frontier_block : IsBlock base F
  frontier_room : F + 64 ≤ limit
  /-- (ii) every heap word from the frontier on is zero -/
  zero_above : ∀ a, F ≤ a → a + 8 ≤ limit → (a - base) % 8 = 0 → m a = 0
  /-- (iii) the four states are pairwise disjoint and duplicate-free ... -/
  nodup : (lin ++ lazy ++ live ++ pend).Nodup
  /-- (iii) ... and together are exactly the blocks below the frontier -/
  cover : ∀ a, a ∈ lin ++ lazy ++ live ++ pend ↔ (IsBlock base a ∧ a < F)
  /-- (iv) stored count + 1 = number of references from roots and from pointer slots of live and
  deferred blocks -/
  counts : ∀ b, b ∈ live → m b + 1 = roots.count b + (ptrFields m (live ++ lazy)).count b
  /-- (v) pointer slots of live and deferred blocks are null or point to live blocks -/
  fields_live : ∀ p, p ∈ ptrFields m (live ++ lazy) → p = 0 ∨ p ∈ live
  /-- roots are null or point to live blocks -/
  roots_live : ∀ r, r ∈ roots → r = 0 ∨ r ∈ live
  /-- a pending block has count 0 -/
  pend_hdr : ∀ b, b ∈ pend → m b = 0
  /-- (vi) no cycles among the live blocks: with (iv) — every live block has a reference — this makes
  every live block reachable from a root or from a deferred block, i.e. no block is lost -/
  acyclic : ∃ ord, ord.Perm live ∧ TopoSorted m ord

/-- `InvW` on a model state. -/
def InvS (s : HState) (roots pend lin lazy live : List Nat) (F : Nat) : Prop :=
  InvW s.mem.get s.base s.limit s.heap s.free roots pend lin lazy live F

/-- The invariant with pending blocks. -/
def InvP (s : HState) (roots pend : List Nat) : Prop :=
  ∃ lin lazy live F, InvS s roots pend lin lazy live F

/-- C09's invariant at statement boundaries: nothing pending. -/
def Inv (s : HState) (roots : List Nat) : Prop := InvP s roots []

end Scc.Heap
