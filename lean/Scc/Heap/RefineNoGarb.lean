/-
Scc.Heap.RefineNoGarb — NO GARBAGE WHEN THE DEFERRED LIST IS EMPTY: in a block-level state that represents an
abstract heap (`HRef`, Scc/Heap/RefineDefs.lean) and whose deferred free list is empty, EVERY block in use is
a block of (the chain of) an abstract object.  (Blocks that are alive only at block level are the children of
deferred blocks; `chains_live` is the converse inclusion.)  Hence the number of blocks in use is at most the
number of fields of the objects of the abstract heap (`live_le_heapFields`) — the link from the allocation
frontier of C10 to the size of the abstract (source-level) data.

Proof: the pointer slots of a chain block are null, links to the next block of the chain, or heads of the
chains of child objects (`BlockPre.slots_count`), so the blocks of all chains are closed under pointer slots
and contain the roots; every live block has a reference from a root or from a live block of smaller rank
(`live_sub_closed`, Scc/Heap/ProofsCheckComplete.lean).
-/
import Scc.Heap.RefineOps
import Scc.Heap.ProofsCheckComplete

set_option linter.unusedVariables false
set_option linter.unusedSimpArgs false

namespace Scc.Heap.Refine

open Scc.Heap
open Scc.Backend.Abs (Heap Obj Word)
open Scc.Backend.Sim (HeapOK refCount)
open Scc.Backend.Sim2 (childSum refCount_eq)

/-! ## the pointers of one block are pointers of the whole object -/

theorem peek_block_ptrs (m : Nat → Nat) : ∀ (n : Nat) (kinds : List Bool) (pos : BlockPosition) (p : Nat),
    kinds.length ≤ n → ∀ v ∈ (peek m kinds pos p).2.2,
      v.2.1.length ≤ fieldsPerBlock - v.2.2.toNat ∧
      ∀ x ∈ ptrsOf (fieldsAt m v.1 (fieldsPerBlock - v.2.2.toNat - v.2.1.length) v.2.1),
        x ∈ ptrsOf (peek m kinds pos p).1
  | 0, kinds, pos, p, hn, v, hv => by
    have : kinds = [] := List.length_eq_zero_iff.mp (by omega)
    subst this
    rw [peek_nil] at hv; simp at hv
  | n + 1, kinds, pos, p, hn, v, hv => by
    by_cases hk : kinds = []
    · subst hk; rw [peek_nil] at hv; simp at hv
    · have hpos : 0 < kinds.length := List.length_pos_iff.mpr hk
      have hrl := restLength_lt kinds.length pos hpos
      rw [peek_cons m hk] at hv ⊢
      simp only [List.mem_append, List.mem_singleton] at hv
      rcases hv with hv | rfl
      · obtain ⟨h1, h2⟩ := peek_block_ptrs m n _ posOther p (by rw [List.length_take]; omega) v hv
        refine ⟨h1, fun x hx => ?_⟩
        simp only [ptrsOf_append, List.mem_append]
        exact Or.inl (h2 x hx)
      · have hl := length_drop_restLength kinds.length pos
        refine ⟨by simp only [List.length_drop]; exact hl, fun x hx => ?_⟩
        simp only [ptrsOf_append, List.mem_append]
        exact Or.inr hx

/-- the number of blocks of a chain is at most the number of fields -/
theorem peek_length_le (m : Nat → Nat) : ∀ (n : Nat) (kinds : List Bool) (pos : BlockPosition) (p : Nat),
    kinds.length ≤ n → (peek m kinds pos p).2.2.length ≤ kinds.length
  | 0, kinds, pos, p, hn => by
    have : kinds = [] := List.length_eq_zero_iff.mp (by omega)
    subst this
    rw [peek_nil]; simp
  | n + 1, kinds, pos, p, hn => by
    by_cases hk : kinds = []
    · subst hk; rw [peek_nil]; simp
    · have hpos : 0 < kinds.length := List.length_pos_iff.mpr hk
      have hrl := restLength_lt kinds.length pos hpos
      rw [peek_cons m hk]
      have ih := peek_length_le m n (kinds.take (restLength kinds.length pos)) posOther p
        (by rw [List.length_take]; omega)
      simp only [List.length_append, List.length_cons, List.length_nil, List.length_take] at ih ⊢
      omega

theorem blocksOf_length_le (m : Nat → Nat) (p : Nat) (fs : List AField) : (blocksOf m p fs).length ≤ fs.length := by
  unfold blocksOf chainOf
  have := peek_length_le m _ (fs.map kindB) .last p (Nat.le_refl _)
  simpa using this

/-! ## links -/

theorem Linked.next {m : Nat → Nat} : ∀ {l : List Nat} {a : Nat}, Linked m a l →
    ∀ (l1 : List Nat) (x y : Nat) (l2 : List Nat), l = l1 ++ x :: y :: l2 → y = m (x + 48)
  | [], _, _, l1, x, y, l2, e => by simp at e
  | b :: rest, a, h, [], x, y, l2, e => by
    simp only [List.nil_append, List.cons.injEq] at e
    obtain ⟨rfl, rfl⟩ := e
    obtain ⟨hb, hr⟩ := h
    obtain ⟨hy, _⟩ := hr
    rw [hy, hb]
  | b :: rest, a, h, c :: l1, x, y, l2, e => by
    simp only [List.cons_append, List.cons.injEq] at e
    obtain ⟨rfl, rfl⟩ := e
    exact Linked.next h.2 l1 x y l2 rfl

/-- the pointers of the images of the fields are null or images of children -/
theorem mem_ptrsOf_fieldImg (ι : Nat → Nat) : ∀ (fs : List AField) (x : Nat), x ∈ ptrsOf (fs.map (fieldImg ι)) →
    x = 0 ∨ ∃ c ∈ (fs.filterMap fun f =>
      if f.chi != Scc.AxCut.Chi.ext && f.ptr != 0 then some f.ptr.toNat else none), x = ι c
  | [], x, h => by simp [ptrsOf] at h
  | f :: fs, x, h => by
    simp only [List.map_cons] at h
    by_cases hk : kindB f = true
    · have hf : fieldImg ι f = .ptr (imgW ι f.ptr) f.val.toNat := by simp [fieldImg, hk]
      rw [hf] at h
      simp only [ptrsOf, List.mem_cons] at h
      have hk' : (f.chi != Scc.AxCut.Chi.ext) = true := hk
      rcases h with rfl | h
      · by_cases hp : f.ptr = 0
        · left; unfold imgW; rw [if_pos hp]
        · right
          have hc : (f.chi != Scc.AxCut.Chi.ext && f.ptr != 0) = true := by
            rw [hk', Bool.true_and, bne_iff_ne]; exact hp
          refine ⟨f.ptr.toNat, ?_, by unfold imgW; rw [if_neg hp]⟩
          rw [List.filterMap_cons, if_pos hc]
          simp
      · rcases mem_ptrsOf_fieldImg ι fs x h with h0 | ⟨c, hc, e⟩
        · exact Or.inl h0
        · right
          refine ⟨c, ?_, e⟩
          rw [List.filterMap_cons]
          split
          · exact hc
          · exact List.mem_cons_of_mem _ hc
    · have hk' : kindB f = false := by simpa using hk
      have hf : fieldImg ι f = .int f.val.toNat := by simp [fieldImg, hk']
      rw [hf] at h
      simp only [ptrsOf] at h
      rcases mem_ptrsOf_fieldImg ι fs x h with h0 | ⟨c, hc, e⟩
      · exact Or.inl h0
      · right
        refine ⟨c, ?_, e⟩
        have hcc : (f.chi != Scc.AxCut.Chi.ext && f.ptr != 0) = false := by
          have : (f.chi != Scc.AxCut.Chi.ext) = false := hk'
          rw [this]; rfl
        rw [List.filterMap_cons, if_neg (by rw [hcc]; simp)]
        exact hc

theorem mem_le_sum : ∀ (l : List Nat) (x : Nat), x ∈ l → x ≤ l.sum
  | [], _, h => by simp at h
  | a :: l, x, h => by
    simp only [List.sum_cons]
    rcases List.mem_cons.1 h with rfl | h
    · omega
    · have := mem_le_sum l x h
      omega

/-! ## the blocks of all chains are closed under pointer slots -/

section Closed

variable {h : Heap} {rs : List Nat} {next : Nat} {s : HState} {ι : Nat → Nat}

/-- the head of the chain of an object of the heap is one of its blocks -/
theorem head_mem_allBlocks (R : HRef h rs next s ι) {e : Nat × Obj} (he : e ∈ h) :
    ι e.1 ∈ allBlocks s.mem.get ι h := by
  simp only [allBlocks, List.mem_flatMap]
  exact ⟨e, he, head_mem_blocksOf (R.shape e he)⟩

/-- an object that is referenced is in the heap -/
theorem mem_of_referenced (R : HRef h rs next s ι) {c : Nat} (hc : 0 < refCount h rs c) : ∃ o, (c, o) ∈ h :=
  Scc.Backend.Sim.heap_get_isSome_mem (R.abs.live c hc)

theorem slot_mem_allBlocks (R : HRef h rs next s ι) {b q : Nat} (hb : b ∈ allBlocks s.mem.get ι h)
    (hq : q ∈ ptrSlots s.mem.get b) (hq0 : q ≠ 0) : q ∈ allBlocks s.mem.get ι h := by
  simp only [allBlocks, List.mem_flatMap] at hb
  obtain ⟨e, he, hbe⟩ := hb
  have O := R.shape e he
  unfold blocksOf at hbe
  obtain ⟨v, hv, rfl⟩ := List.mem_map.1 hbe
  have hpre := O.pre v hv
  obtain ⟨hlen, hptrs⟩ := peek_block_ptrs s.mem.get _ (e.2.fields.map kindB) .last (ι e.1) (Nat.le_refl _) v hv
  have hcount := hpre.slots_count hlen q hq0
  have hpos : 0 < (ptrSlots s.mem.get v.1).count q := List.count_pos_iff.2 hq
  by_cases hfield : 0 < (ptrsOf (fieldsAt s.mem.get v.1 (fieldsPerBlock - v.2.2.toNat - v.2.1.length) v.2.1)).count q
  · -- a pointer field: the head of the chain of a child
    have hx := hptrs q (List.count_pos_iff.1 hfield)
    unfold chainOf at hv
    rw [O.vals] at hx
    rcases mem_ptrsOf_fieldImg ι e.2.fields q hx with h0 | ⟨c, hc, rfl⟩
    · exact absurd h0 hq0
    · have hcc : c ∈ e.2.children := hc
      have hrc : 0 < refCount h rs c := by
        rw [refCount_eq]
        have : 0 < childSum h c := by
          unfold childSum
          have h1 : 0 < e.2.children.count c := List.count_pos_iff.2 hcc
          have h2 : e.2.children.count c ≤ (h.map fun e => e.2.children.count c).sum :=
            mem_le_sum _ _ (List.mem_map.2 ⟨e, he, rfl⟩)
          omega
        omega
      obtain ⟨o', ho'⟩ := mem_of_referenced R hrc
      exact head_mem_allBlocks R ho'
  · -- the link: the next block of the same chain
    have hlink : (if v.2.2 = .other then [s.mem.get (v.1 + fstOff (fieldsPerBlock - 1))].count q else 0) ≠ 0 := by
      omega
    have hother : v.2.2 = .other := by
      by_cases hne : v.2.2 = .other
      · exact hne
      · rw [if_neg hne] at hlink
        exact absurd rfl hlink
    rw [if_pos hother] at hlink
    have hqe : q = s.mem.get (v.1 + 48) := by
      have : 0 < [s.mem.get (v.1 + fstOff (fieldsPerBlock - 1))].count q := Nat.pos_of_ne_zero hlink
      have hm := List.count_pos_iff.1 this
      simp only [List.mem_singleton] at hm
      rw [hm]
      rfl
    -- `v` is not the last visit, so there is a next one
    have hkne : e.2.fields.map kindB ≠ [] := by simpa using O.ne
    obtain ⟨init, blk, lastKs, hlist, hinit⟩ := peek_positions s.mem.get _ (e.2.fields.map kindB) .last (ι e.1)
      (Nat.le_refl _) hkne
    unfold chainOf at hv
    rw [hlist] at hv
    have hvinit : v ∈ init := by
      rcases List.mem_append.1 hv with h1 | h1
      · exact h1
      · simp only [List.mem_singleton] at h1
        rw [h1] at hother
        cases hother
    obtain ⟨i1, i2, hi⟩ := List.append_of_mem hvinit
    have hchain := (peek_chain s.mem.get _ (e.2.fields.map kindB) .last (ι e.1) (Nat.le_refl _)).1
    rw [hlist, hi] at hchain
    -- the element after `v` in the list of blocks
    have hnext : ∃ y l2, List.map (fun (x : Visit) => x.1) (i1 ++ v :: i2 ++ [(blk, lastKs, BlockPosition.last)]) =
        i1.map (·.1) ++ v.1 :: y :: l2 := by
      cases i2 with
      | nil => exact ⟨blk, [], by simp⟩
      | cons w i2' => exact ⟨w.1, i2'.map (·.1) ++ [blk], by simp⟩
    obtain ⟨y, l2, hmap⟩ := hnext
    have hy := Linked.next hchain (i1.map (·.1)) v.1 y l2 hmap
    have hymem : y ∈ blocksOf s.mem.get (ι e.1) e.2.fields := by
      unfold blocksOf chainOf
      rw [hlist, hi, hmap]
      simp
    rw [hqe, ← hy]
    simp only [allBlocks, List.mem_flatMap]
    exact ⟨e, he, hymem⟩

/-- NO GARBAGE: with an empty deferred list, every block in use is a block of an abstract object -/
theorem live_sub_allBlocks (R : HRef h rs next s ι) {lin live : List Nat} {F : Nat}
    (I : InvS s (rs.map ι) [] lin [] live F) : ∀ b ∈ live, b ∈ allBlocks s.mem.get ι h := by
  obtain ⟨ord, hord, htopo⟩ := I.acyclic
  intro b hb
  refine live_sub_closed I hord htopo (S := allBlocks s.mem.get ι h) ?_ ?_ (rk ord b + 1) b hb (Nat.lt_succ_self _)
  · intro r hr
    simp only [ptrFields_nil, List.append_nil] at hr
    obtain ⟨id, hid, rfl⟩ := List.mem_map.1 hr
    right
    have hrc : 0 < refCount h rs id := by
      rw [refCount_eq]
      have : 0 < rs.count id := List.count_pos_iff.2 hid
      omega
    obtain ⟨o, ho⟩ := mem_of_referenced R hrc
    exact head_mem_allBlocks R ho
  · intro b' hb' q hq
    by_cases hq0 : q = 0
    · exact Or.inl hq0
    · exact Or.inr (slot_mem_allBlocks R hb' hq hq0)

/-- the number of fields of the objects of an abstract heap -/
def heapFields (h : Heap) : Nat := (h.map fun e => e.2.fields.length).sum

theorem allBlocks_length_le (m : Nat → Nat) (ι : Nat → Nat) : ∀ (h : Heap), (allBlocks m ι h).length ≤ heapFields h
  | [] => by simp [allBlocks, heapFields]
  | a :: h => by
    have ih := allBlocks_length_le m ι h
    have h1 := blocksOf_length_le m (ι a.1) a.2.fields
    simp only [allBlocks, heapFields, List.flatMap_cons, List.length_append, List.map_cons, List.sum_cons] at ih ⊢
    omega

/-- with an empty deferred list, the number of blocks in use is at most the number of fields of the objects
of the abstract heap -/
theorem live_le_heapFields (R : HRef h rs next s ι) {rs' lin live : List Nat} {F : Nat}
    (I : InvS s rs' [] lin [] live F) : live.length ≤ heapFields h := by
  obtain ⟨lin0, lazy0, live0, F0, I0⟩ := R.conc
  obtain ⟨e1, e2, e3⟩ := InvS.witness_unique I0 I
  have hl0 : lazy0 = [] := e2.symm
  subst hl0
  -- `live` and `live0` have the same elements (cover)
  have hnd : live.Nodup := by
    have := I.nodup; rw [nodup4_iff] at this; exact this.2.2.1
  have hsub : ∀ b ∈ live, b ∈ allBlocks s.mem.get ι h := by
    intro b hb
    apply live_sub_allBlocks R I0
    -- b ∈ live0: both cover the same blocks below the same frontier, with the same free lists
    have hcov := (I.cover b).1 (by simp [hb])
    rw [e3] at hcov
    have hmem := (I0.cover b).2 hcov
    simp only [List.append_nil, List.mem_append] at hmem
    rcases hmem with h1 | h1
    · exfalso
      rw [← e1] at h1
      have hn4 := I.nodup
      rw [nodup4_iff] at hn4
      exact (hn4.2.2.2.2.1 b h1).2.1 hb
    · exact h1
  exact Nat.le_trans (nodup_subset_length_le _ _ hnd hsub) (allBlocks_length_le _ _ h)

end Closed

end Scc.Heap.Refine
