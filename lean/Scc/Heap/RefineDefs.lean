/-
Scc.Heap.RefineDefs — SPEC definitions for the HEAP REFINEMENT (backend-independent part of C06–C08):
the abstract heap of the abstract backend machine (`Scc.Backend.Abs.Heap`: objects `id ↦ (count,
fields)`, exact counts, immediate recursive erase; the heap of Theorem A) is REPRESENTED by a state of
the block-level heap model (`Scc.Heap.HState`: 64-byte blocks of FIELDS_PER_BLOCK = 3 fields chained
by links, linear free list + lazy free list with deferred erasure; the heap that the memory contracts of
all three backends are stated against).

* `peek` — a pure reader that mirrors `load_fields`: the values, the blocks visited (with the kinds
  loaded from each and its position in the chain).
* `ObjAt m ι p fs` — the object with abstract fields `fs` lies at head block `p` of memory `m`: the
  chain has the shape `store` produces (right-aligned values, null pointer slot for integers and unused
  fields, link in the last pointer slot, continuation blocks with count 0), a pointer field holds the
  head block `ι id` of the object it refers to.
* `HRef h rs next s ι` — the refinement relation: the abstract heap is well formed (`HeapOK`: exact
  counts w.r.t. the roots `rs`; children are older than their parents), the block-level state
  satisfies the C09 invariant `InvS` w.r.t. the roots `rs.map ι`, every abstract object lies at `ι id`,
  distinct objects occupy disjoint chains.  Blocks that are alive at block level but belong to no
  abstract object (children of deferred blocks: the abstract erase is immediate, the real one is
  deferred) are NOT mentioned: they are exactly the blocks of `live` outside the chains, and the
  reference counts need no clause either (stored count of a head block = abstract count + number of
  references from such blocks, a consequence of the two counting invariants).
Core imports only besides the definitions of the two sides.
-/
import Scc.Heap.ProofsHist
import Scc.Backend.SimDefs

namespace Scc.Heap.Refine

open Scc.Heap
open Scc.Backend.Abs (Heap Obj Word)
open Scc.AxCut (Chi)

/-- a field of an abstract object -/
abbrev AField := Scc.Backend.Abs.Field

/-- is the field pointer-typed (not `ext`)? -/
def kindB (f : AField) : Bool := f.chi != Chi.ext

/-- the block-level image of a reference word: null ↦ null, `id ↦ ι id` -/
def imgW (ι : Nat → Nat) (w : Word) : Nat := if w = 0 then 0 else ι w.toNat

/-- the block-level image of an abstract field -/
def fieldImg (ι : Nat → Nat) (f : AField) : Field :=
  if kindB f then .ptr (imgW ι f.ptr) f.val.toNat else .int f.val.toNat

/-- one visited block of a chain: address, kinds of the variables loaded from it, position -/
abbrev Visit := Nat × List Bool × BlockPosition

/-- Pure reader mirroring `load_fields` (Model.lean): the values read, the block the caller
continues with, and the blocks visited in the order in which `load_fields` reaches them. -/
def peek (m : Nat → Nat) (kinds : List Bool) (pos : BlockPosition) (p : Nat) :
    List Field × Nat × List Visit :=
  if _h : kinds = [] then ([], p, [])
  else
    let rl := restLength kinds.length pos
    let r := peek m (kinds.take rl) posOther p
    let blk := r.2.1
    let link := if pos = posOther then m (blk + fstOff (fieldsPerBlock - 1)) else 0
    (r.1 ++ fieldsAt m blk (fieldsPerBlock - pos.toNat - (kinds.drop rl).length) (kinds.drop rl),
     link, r.2.2 ++ [(blk, kinds.drop rl, pos)])
termination_by kinds.length
decreasing_by
  have : 0 < kinds.length := List.length_pos_iff.mpr _h
  simp only [List.length_take]
  exact Nat.lt_of_le_of_lt (Nat.min_le_left _ _) (restLength_lt _ _ this)

/-- the blocks of the chain of an object with fields `fs` at `p` -/
def chainOf (m : Nat → Nat) (p : Nat) (fs : List AField) : List Visit :=
  (peek m (fs.map kindB) .last p).2.2

def blocksOf (m : Nat → Nat) (p : Nat) (fs : List AField) : List Nat := (chainOf m p fs).map (·.1)

/-- the object with abstract fields `fs` lies at head block `p` -/
structure ObjAt (m : Nat → Nat) (ι : Nat → Nat) (p : Nat) (fs : List AField) : Prop where
  ne : fs ≠ []
  pos : p ≠ 0
  /-- the values read are the images of the fields -/
  vals : (peek m (fs.map kindB) .last p).1 = fs.map (fieldImg ι)
  /-- every block has the shape `load` assumes (`BlockPre`, ProofsLoad.lean) -/
  pre : ∀ v ∈ chainOf m p fs, BlockPre m v.1 v.2.1 v.2.2
  /-- continuation blocks have count 0 (their only reference is the link) -/
  hdr : ∀ b ∈ (blocksOf m p fs).tail, m b = 0
  nodup : (blocksOf m p fs).Nodup

/-- THE REFINEMENT RELATION between the abstract heap `h` (roots `rs` = the non-null references held by
the live variables, with multiplicity; `next` = next fresh id) and the block-level state `s` -/
structure HRef (h : Heap) (rs : List Nat) (next : Nat) (s : HState) (ι : Nat → Nat) : Prop where
  abs : Scc.Backend.Sim.HeapOK h rs next
  /-- references point to OLDER objects (no cycles) -/
  ord : ∀ e ∈ h, ∀ c ∈ e.2.children, c < e.1
  conc : ∃ lin lazy live F, InvS s (rs.map ι) [] lin lazy live F
  shape : ∀ e ∈ h, ObjAt s.mem.get ι (ι e.1) e.2.fields
  disj : ∀ e ∈ h, ∀ e' ∈ h, e.1 ≠ e'.1 →
    ∀ b ∈ blocksOf s.mem.get (ι e.1) e.2.fields, b ∉ blocksOf s.mem.get (ι e'.1) e'.2.fields

end Scc.Heap.Refine
