/-
Scc.Heap.ProofsCheckComplete — COMPLETENESS of the executable invariant checker `invCheckFn`
(Scc/Heap/Model.lean; its soundness is `invCheckFn_sound`, Scc/Heap/ProofsCheck.lean): on a memory that
satisfies the invariant `InvW` the checker does not fail; it returns the linear free list, the deferred
list, the frontier of the invariant (they are functions of the memory) and a permutation of the live
blocks (in the order of its depth-first traversal).  So the runtime monitor of the three machine models
(`heapCheck`) DECIDES the invariant.
-/
import Scc.Heap.ProofsCheckDfs

set_option linter.unusedVariables false
set_option linter.unusedSimpArgs false

namespace Scc.Heap

/-! ## the two list walks -/

theorem checkedWalk_false_complete {m : Nat → Nat} {base hi : Nat} {what : String} :
    ∀ (l : List Nat) (fuel a : Nat) (acc : List Nat), Chain m a l →
    (∀ x, x ∈ l → IsBlock base x ∧ x + 64 ≤ hi) → l.length < fuel →
    checkedWalk m base hi false what fuel a acc = .ok (acc.reverse ++ l)
  | [], fuel + 1, a, acc, hc, _, _ => by
    have ha : a = 0 := hc
    simp [checkedWalk, ha]
  | x :: l, fuel + 1, a, acc, hc, hb, hf => by
    obtain ⟨rfl, hx0, hrest⟩ := hc
    have hbx := hb a (by simp)
    have h1 : isBlockB base a = true := isBlockB_iff.2 hbx.1
    have h2 : ¬ hi < a + blockSize := by unfold blockSize; omega
    simp only [checkedWalk, hx0, if_false, h1, Bool.not_true, Bool.false_or, decide_eq_true_eq, h2,
      Bool.false_and, Bool.false_eq_true]
    rw [checkedWalk_false_complete l fuel (m a) (a :: acc) hrest (fun y hy => hb y (by simp [hy]))
      (by simp only [List.length_cons] at hf; omega)]
    simp
  | [], 0, _, _, _, _, hf => absurd hf (Nat.not_lt_zero _)
  | _ :: _, 0, _, _, _, _, hf => absurd hf (Nat.not_lt_zero _)

/-- the elements of a chain that are followed by another element have a non-null word 0 -/
theorem chain_snoc_ne_zero {m : Nat → Nat} : ∀ (l : List Nat) (a F : Nat), Chain m a (l ++ [F]) →
    ∀ x, x ∈ l → m x ≠ 0
  | [], _, _, _, x, hx => by simp at hx
  | y :: l, a, F, hc, x, hx => by
    obtain ⟨rfl, _, hrest⟩ := hc
    rcases List.mem_cons.1 hx with rfl | hx
    · cases l with
      | nil => exact fun e => hrest.2.1 (hrest.1.symm.trans e ▸ rfl) |>.elim
      | cons z l => exact fun e => hrest.2.1 (hrest.1.symm.trans e ▸ rfl) |>.elim
    · exact chain_snoc_ne_zero l (m a) F hrest x hx

theorem checkedWalk_true_complete {m : Nat → Nat} {base hi : Nat} {what : String} :
    ∀ (l : List Nat) (F fuel a : Nat) (acc : List Nat), Chain m a (l ++ [F]) →
    (∀ x, x ∈ l ++ [F] → IsBlock base x ∧ x + 64 ≤ hi) → m F = 0 → l.length < fuel →
    checkedWalk m base hi true what fuel a acc = .ok (acc.reverse ++ l ++ [F])
  | [], F, fuel + 1, a, acc, hc, hb, hF, _ => by
    obtain ⟨rfl, hx0, _⟩ := hc
    have hbx := hb a (by simp)
    have h1 : isBlockB base a = true := isBlockB_iff.2 hbx.1
    have h2 : ¬ hi < a + blockSize := by unfold blockSize; omega
    simp [checkedWalk, hx0, h1, h2, hF]
  | x :: l, F, fuel + 1, a, acc, hc, hb, hF, hf => by
    have hne := chain_snoc_ne_zero (x :: l) a F hc x (by simp)
    obtain ⟨rfl, hx0, hrest⟩ := hc
    have hbx := hb a (by simp)
    have h1 : isBlockB base a = true := isBlockB_iff.2 hbx.1
    have h2 : ¬ hi < a + blockSize := by unfold blockSize; omega
    simp only [checkedWalk, hx0, if_false, h1, Bool.not_true, Bool.false_or, decide_eq_true_eq, h2,
      Bool.true_and, hne, Bool.false_eq_true]
    rw [checkedWalk_true_complete l F fuel (m a) (a :: acc) hrest (fun y hy => hb y (by
      simp only [List.cons_append, List.mem_cons]; exact Or.inr hy)) hF
      (by simp only [List.length_cons] at hf; omega)]
    simp
  | [], _, 0, _, _, _, _, _, hf => absurd hf (Nat.not_lt_zero _)
  | _ :: _, _, 0, _, _, _, _, _, hf => absurd hf (Nat.not_lt_zero _)

/-! ## the topological check -/

theorem TopoSorted.suffix {m : Nat → Nat} : ∀ (l1 l2 : List Nat), TopoSorted m (l1 ++ l2) → TopoSorted m l2
  | [], _, h => h
  | _ :: l1, l2, h => TopoSorted.suffix l1 l2 h.2

theorem topoCheckRev_complete {m : Nat → Nat} : ∀ (rev : List Nat) (later : Std.HashSet Nat)
    (done : List Nat), (∀ x, later.contains x = done.contains x) → TopoSorted m (rev.reverse ++ done) →
    topoCheckRev m rev later = none
  | [], _, _, _, _ => rfl
  | b :: rest, later, done, hl, ht => by
    have ht' : TopoSorted m (rest.reverse ++ (b :: done)) := by
      simpa [List.reverse_cons, List.append_assoc] using ht
    have hb := (TopoSorted.suffix rest.reverse (b :: done) ht').1
    simp only [topoCheckRev]
    have hall : (ptrSlots m b).all (fun p => p == 0 || later.contains p) = true := by
      rw [List.all_eq_true]
      intro p hp
      rcases hb p hp with h0 | hm
      · simp [h0]
      · rw [hl p]
        simp only [Bool.or_eq_true, beq_iff_eq]
        exact Or.inr (List.contains_iff_mem.2 hm)
    rw [if_pos hall]
    apply topoCheckRev_complete rest (later.insert b) (b :: done) _ ht'
    intro x
    rw [Std.HashSet.contains_insert, hl x, List.contains_cons]
    by_cases hxb : x = b
    · subst hxb; simp
    · have : (b == x) = false := by simpa using Ne.symm hxb
      have h2 : (x == b) = false := by simpa using hxb
      rw [this, h2]

/-! ## the cover check -/

theorem coverCheck_complete : ∀ (n a : Nat), coverCheck n a (blocksList a n) = .ok ()
  | 0, a => rfl
  | n + 1, a => by
    have e : blocksList a (n + 1) = a :: blocksList (a + blockSize) n := by
      simp only [blocksList, List.range_succ_eq_map, List.map_cons, List.map_map, blockSize]
      congr 1
      apply List.map_congr_left
      intro k _
      simp only [Function.comp]
      omega
    rw [e]
    simp only [coverCheck, if_true]
    exact coverCheck_complete n (a + blockSize)

/-- two sorted lists of naturals with the same elements (with multiplicity) are equal -/
theorem sorted_perm_eq : ∀ (l1 l2 : List Nat), l1.Pairwise (· ≤ ·) → l2.Pairwise (· ≤ ·) → l1.Perm l2 → l1 = l2
  | [], l2, _, _, hp => by rw [List.nil_perm] at hp; exact hp.symm
  | a :: l1, [], _, _, hp => by
    have := hp.length_eq; simp at this
  | a :: l1, b :: l2, h1, h2, hp => by
    rw [List.pairwise_cons] at h1 h2
    have hab : a = b := by
      have ha : a ∈ b :: l2 := hp.mem_iff.1 (by simp)
      have hb : b ∈ a :: l1 := hp.mem_iff.2 (by simp)
      rcases List.mem_cons.1 ha with e | ha'
      · exact e
      · rcases List.mem_cons.1 hb with e | hb'
        · exact e.symm
        · have := h1.1 b hb'
          have := h2.1 a ha'
          omega
    subst hab
    rw [sorted_perm_eq l1 l2 h1.2 h2.2 (List.Perm.cons_inv hp)]

theorem blocksList_sorted (base n : Nat) : (blocksList base n).Pairwise (· ≤ ·) := by
  unfold blocksList
  rw [List.pairwise_map]
  exact List.Pairwise.imp (fun {a b} (h : a < b) => by omega) List.pairwise_lt_range

theorem allZeroFrom_complete {m : Nat → Nat} : ∀ (n a : Nat), (∀ i, i < n → m (a + 8 * i) = 0) →
    allZeroFrom m n a = .ok ()
  | 0, _, _ => rfl
  | n + 1, a, h => by
    simp only [allZeroFrom]
    have h0 := h 0 (by omega)
    simp only [Nat.mul_zero, Nat.add_zero] at h0
    rw [if_pos h0]
    apply allZeroFrom_complete n (a + 8)
    intro i hi
    have := h (i + 1) (by omega)
    rw [show a + 8 + 8 * i = a + 8 * (i + 1) by omega]
    exact this

theorem firstFailing_eq_none {xs : List Nat} {bad : Nat → Bool} (h : ∀ x, x ∈ xs → bad x = false) :
    firstFailing xs bad = none := by
  unfold firstFailing
  rw [List.find?_eq_none]
  intro x hx
  rw [h x hx]
  simp

/-! ## the checker -/

theorem ptrFields_length' (m : Nat → Nat) : ∀ (l : List Nat), (ptrFields m l).length = 3 * l.length
  | [] => rfl
  | b :: t => by
    rw [ptrFields_cons, List.length_append, ptrFields_length' m t]
    simp [ptrSlots]
    omega

/-- every live block has a reference from a root, a deferred block, or a live block of smaller rank; so a
set of live blocks that contains the roots and the slots of deferred blocks and is closed under pointer
slots contains every live block -/
theorem live_sub_closed {m : Nat → Nat} {base limit heap free F : Nat} {roots pend lin lazy live : List Nat}
    (I : InvW m base limit heap free roots pend lin lazy live F) {ord : List Nat} (hord : ord.Perm live)
    (htopo : TopoSorted m ord) {S : List Nat}
    (hroots : ∀ r ∈ roots ++ ptrFields m lazy, r = 0 ∨ r ∈ S)
    (hclosed : ∀ b ∈ S, ∀ q ∈ ptrSlots m b, q = 0 ∨ q ∈ S) :
    ∀ (n : Nat) (b : Nat), b ∈ live → rk ord b < n → b ∈ S := by
  have hnd : live.Nodup := by
    have := I.nodup
    rw [nodup4_iff] at this
    exact this.2.2.1
  have hcl : ∀ b ∈ live, ∀ q ∈ ptrSlots m b, q = 0 ∨ q ∈ live := by
    intro b hb q hq
    exact I.fields_live q (ptrSlots_sub_ptrFields (List.mem_append_left _ hb) q hq)
  intro n
  induction n with
  | zero => intro b _ h; exact absurd h (Nat.not_lt_zero _)
  | succ n ih =>
    intro b hb hr
    have hb0 : b ≠ 0 := I.live_ne_zero hb
    have hc := I.counts b hb
    have hpos : 0 < roots.count b + (ptrFields m (live ++ lazy)).count b := by omega
    by_cases h1 : 0 < roots.count b
    · rcases hroots b (List.mem_append_left _ (List.count_pos_iff.1 h1)) with h | h
      · exact absurd h hb0
      · exact h
    · have h2 : 0 < (ptrFields m (live ++ lazy)).count b := by omega
      have hmem := List.count_pos_iff.1 h2
      rw [ptrFields_append] at hmem
      rcases List.mem_append.1 hmem with hl | hl
      · -- from a live block of smaller rank
        unfold ptrFields at hl
        obtain ⟨b', hb', hq⟩ := List.mem_flatMap.1 hl
        have hedge := edge_rank hord hnd htopo hcl hb' hq hb0
        have hb'S : b' ∈ S := ih b' hb' (by have := hedge.2; omega)
        rcases hclosed b' hb'S b hq with h | h
        · exact absurd h hb0
        · exact h
      · rcases hroots b (List.mem_append_right _ hl) with h | h
        · exact absurd h hb0
        · exact h

theorem topoSorted_closed {m : Nat → Nat} : ∀ (acc : List Nat), TopoSorted m acc →
    ∀ b ∈ acc, ∀ q ∈ ptrSlots m b, q = 0 ∨ q ∈ acc
  | [], _, b, hb, _, _ => by simp at hb
  | a :: acc, ht, b, hb, q, hq => by
    rcases List.mem_cons.1 hb with rfl | hb
    · rcases ht.1 q hq with h | h
      · exact Or.inl h
      · exact Or.inr (List.mem_cons_of_mem _ h)
    · rcases topoSorted_closed acc ht.2 b hb q hq with h | h
      · exact Or.inl h
      · exact Or.inr (List.mem_cons_of_mem _ h)

/-- COMPLETENESS OF THE CHECKER: on a memory that satisfies the invariant, `invCheckFn` succeeds and returns
the witnesses of the invariant (the live blocks in the order of its traversal) -/
theorem invCheckFn_complete {m : Nat → Nat} {base limit heap free F : Nat}
    {roots pend lin lazy live : List Nat}
    (I : InvW m base limit heap free roots pend lin lazy live F) :
    ∃ live', invCheckFn m base limit heap free roots pend = .ok (lin, lazy, live', F) ∧ live'.Perm live := by
  obtain ⟨ord, hord, htopo⟩ := I.acyclic
  have hnd4 := I.nodup
  rw [nodup4_iff] at hnd4
  have hndlive : live.Nodup := hnd4.2.2.1
  have hcard := I.card
  have hFb := I.frontier_block
  have hFr := I.frontier_room
  have hb0 : base ≠ 0 := Nat.pos_iff_ne_zero.1 I.base_pos
  have hnB : (F - base) / 64 ≤ (limit - base) / 64 := Nat.div_le_div_right (by omega)
  have hcl : ∀ b ∈ live, ∀ q ∈ ptrSlots m b, q = 0 ∨ q ∈ live := by
    intro b hb q hq
    exact I.fields_live q (ptrSlots_sub_ptrFields (List.mem_append_left _ hb) q hq)
  -- (i) the linear free list
  have hwalk1 : checkedWalk m base limit false "(i) linear free list" ((limit - base) / blockSize + 2) heap [] =
      .ok lin := by
    have := checkedWalk_false_complete (base := base) (hi := limit) (what := "(i) linear free list") lin ((limit - base) / blockSize + 2)
      heap [] I.lin_chain (fun x hx => by
        have h1 := I.lin_block hx
        exact ⟨h1.1, by have := h1.2; omega⟩)
      (by unfold blockSize; omega)
    simpa using this
  -- (ii) the deferred list
  have hmF : m F = 0 := I.zero_above F (Nat.le_refl _) (by omega) (by unfold IsBlock at hFb; omega)
  have hwalk2 : checkedWalk m base limit true "(ii) lazy free list" ((limit - base) / blockSize + 2) free [] =
      .ok (lazy ++ [F]) := by
    have := checkedWalk_true_complete (base := base) (hi := limit) (what := "(ii) lazy free list") lazy F ((limit - base) / blockSize + 2)
      free [] I.lazy_chain (by
        intro x hx
        rcases List.mem_append.1 hx with h | h
        · have h1 := I.lazy_block h
          exact ⟨h1.1, by have := h1.2; omega⟩
        · have : x = F := by simpa using h
          subst this
          exact ⟨hFb, hFr⟩) hmF (by unfold blockSize; omega)
    simpa using this
  -- the traversal
  have hblk : ∀ b ∈ live, IsBlock base b ∧ b < F := fun b hb => I.live_block hb
  have hinit : DfsInv (m := m) (live := live) (ord := ord) (roots ++ ptrFields m lazy)
      ((roots ++ ptrFields m lazy).map Work.visit) ∅ [] := by
    have hg : grays ((roots ++ ptrFields m lazy).map Work.visit) = [] := by
      have := grays_visits (roots ++ ptrFields m lazy) []
      simpa [grays] using this
    refine ⟨?_, ?_, ?_, by rw [hg]; simp, by rw [hg]; simp, ?_, trivial, ?_⟩
    · intro w hw
      obtain ⟨r, hr, rfl⟩ := List.mem_map.1 hw
      rcases List.mem_append.1 hr with h | h
      · exact I.roots_live r h
      · exact I.fields_live r (by rw [ptrFields_append]; exact List.mem_append_right _ h)
    · rw [List.pairwise_map]
      exact pairwise_of_all _ (fun _ _ p' e => by cases e)
    · intro x; rw [hg]; simp
    · intro above p below e
      exfalso
      have : Work.finish p ∈ (roots ++ ptrFields m lazy).map Work.visit := by rw [e]; simp
      obtain ⟨z, _, hz⟩ := List.mem_map.1 this
      cases hz
    · intro r hr
      exact Or.inr (Or.inr (Or.inr (List.mem_map.2 ⟨r, hr, rfl⟩)))
  have hlivelen : live.length ≤ (F - base) / 64 := by omega
  obtain ⟨live', hreach, hres⟩ := reachLoop_complete (base := base) (F := F) (roots ++ ptrFields m lazy) hord
    hndlive htopo hblk hcl (8 * ((F - base) / blockSize) + roots.length + 3 * lazy.length + 8)
    ((roots ++ ptrFields m lazy).map Work.visit) ∅ [] hinit (by
      unfold measure
      have hg : grays ((roots ++ ptrFields m lazy).map Work.visit) = [] := by
        have := grays_visits (roots ++ ptrFields m lazy) []
        simpa [grays] using this
      rw [hg]
      have hpl : (ptrFields m lazy).length = 3 * lazy.length := ptrFields_length' m lazy
      simp only [List.length_map, List.length_append, List.length_nil, Nat.add_zero, hpl, blockSize]
      omega)
  -- the result of the traversal is the set of live blocks
  have hsub : ∀ b ∈ live, b ∈ live' := by
    intro b hb
    exact live_sub_closed I hord htopo hres.roots (topoSorted_closed live' hres.topo) (rk ord b + 1) b hb
      (Nat.lt_succ_self _)
  have hperm : live'.Perm live :=
    (List.perm_ext_iff_of_nodup hres.nd hndlive).2 (fun a => ⟨hres.sub a, hsub a⟩)
  refine ⟨live', ?_, hperm⟩
  -- the remaining checks
  have htc : topoCheckRev m live'.reverse ∅ = none :=
    topoCheckRev_complete live'.reverse ∅ [] (by intro x; simp) (by simpa using hres.topo)
  have hv : firstFailing (roots ++ ptrFields m (live' ++ lazy))
      (fun p => p != 0 && !(Std.HashSet.ofList live').contains p) = none := by
    apply firstFailing_eq_none
    intro p hp
    have hpl : p = 0 ∨ p ∈ live := by
      rcases List.mem_append.1 hp with h | h
      · exact I.roots_live p h
      · apply I.fields_live p
        rw [ptrFields_append] at h ⊢
        rcases List.mem_append.1 h with h | h
        · unfold ptrFields at h ⊢
          obtain ⟨b, hb, hq⟩ := List.mem_flatMap.1 h
          exact List.mem_append_left _ (List.mem_flatMap.2 ⟨b, hperm.mem_iff.1 hb, hq⟩)
        · exact List.mem_append_right _ h
    rcases hpl with h0 | hl
    · simp [h0]
    · have : (Std.HashSet.ofList live').contains p = true := by
        rw [Std.HashSet.contains_ofList]; exact List.contains_iff_mem.2 (hperm.mem_iff.2 hl)
      simp [this]
  have hpermAll : (lin ++ lazy ++ live' ++ pend).Perm (blocksList base ((F - base) / 64)) := by
    have h1 : (lin ++ lazy ++ live' ++ pend).Perm (lin ++ lazy ++ live ++ pend) :=
      (List.Perm.append_left _ hperm).append_right _
    refine h1.trans ?_
    have hFe : F = base + 64 * ((F - base) / 64) := by unfold IsBlock at hFb; omega
    rw [List.perm_ext_iff_of_nodup I.nodup (blocksList_nodup _ _)]
    intro a
    rw [I.cover a, mem_blocksList, ← hFe]
  have hsort : (lin ++ lazy ++ live' ++ pend).mergeSort (· ≤ ·) = blocksList base ((F - base) / 64) := by
    apply sorted_perm_eq
    · have := List.pairwise_mergeSort (le := fun (a b : Nat) => decide (a ≤ b))
        (fun a b c h1 h2 => by simp only [decide_eq_true_eq] at *; omega)
        (fun a b => by simp only [Bool.or_eq_true, decide_eq_true_eq]; omega) (lin ++ lazy ++ live' ++ pend)
      exact this.imp (fun h => by simpa using h)
    · exact blocksList_sorted _ _
    · exact (List.mergeSort_perm _ _).trans hpermAll
  have hcov : coverCheck ((F - base) / blockSize) base ((lin ++ lazy ++ live' ++ pend).mergeSort (· ≤ ·)) = .ok () := by
    rw [hsort]; exact coverCheck_complete _ _
  have hzero : allZeroFrom m ((limit - F) / 8) F = .ok () := by
    apply allZeroFrom_complete
    intro i hi
    apply I.zero_above
    · omega
    · have : 8 * i + 8 ≤ limit - F := by
        have := Nat.div_mul_le_self (limit - F) 8
        omega
      omega
    · unfold IsBlock at hFb; omega
  have hcnt : firstFailing live' (fun b => m b + 1 != (countMap (roots ++ ptrFields m (live' ++ lazy))).getD b 0) =
      none := by
    apply firstFailing_eq_none
    intro b hb
    have hbl := hperm.mem_iff.1 hb
    have hc := I.counts b hbl
    have hpf : (ptrFields m (live' ++ lazy)).count b = (ptrFields m (live ++ lazy)).count b := by
      apply List.Perm.count_eq
      unfold ptrFields
      exact List.Perm.flatMap_right _ (List.Perm.append_right _ hperm)
    rw [countMap_getD, List.count_append, hpf, ← hc]
    simp
  have hpend : firstFailing pend (fun b => m b != 0) = none := by
    apply firstFailing_eq_none
    intro b hb
    simp [I.pend_hdr b hb]
  have hlinne : lin.isEmpty = false := by
    cases hlin : lin with
    | nil => exact absurd hlin I.lin_ne
    | cons a t => rfl
  unfold invCheckFn
  simp only [hb0, if_false, hwalk1, hlinne, Bool.false_eq_true, hwalk2, List.getLastD_concat,
    List.dropLast_concat, hreach, htc, hv, hcov, hzero, hcnt, hpend]

end Scc.Heap
