/-
Scc.Heap.RefineLoad — `load` for the heap refinement.  The C09 specifications of `load_fields` /
`load` (ProofsLoad.lean, ProofsHist.lean) hide WHAT is loaded and WHICH words are written; here they are
re-derived in a form that exposes both: the values are those the pure reader `peek` finds in the memory
before the load, in release mode only the headers of the visited blocks are written, in share mode only
the headers of the loaded pointers.  The shape precondition is `ChainOK` (every visited block satisfies
`BlockPre`, continuation blocks have count 0, no block is visited twice) — what `ObjAt` says.
-/
import Scc.Heap.RefineOps
import Scc.Backend.ProofsLoad

set_option linter.unusedVariables false
set_option linter.unusedSimpArgs false

namespace Scc.Heap.Refine

open Scc.Heap
open Scc.Backend.Abs (Heap Obj Word)
open Scc.Backend.Sim2 Scc.Backend.Sim

/-- the (partial) chain that `peek` reads is well shaped -/
structure ChainOK (m : Nat → Nat) (kinds : List Bool) (pos : BlockPosition) (p : Nat) : Prop where
  pre : ∀ v ∈ (peek m kinds pos p).2.2, BlockPre m v.1 v.2.1 v.2.2
  hdr : ∀ b ∈ ((peek m kinds pos p).2.2.map (·.1)).tail, m b = 0
  nodup : ((peek m kinds pos p).2.2.map (·.1)).Nodup

theorem ObjAt.chainOK {m : Nat → Nat} {ι : Nat → Nat} {p : Nat} {fs : List AField} (O : ObjAt m ι p fs) :
    ChainOK m (fs.map kindB) .last p := ⟨O.pre, O.hdr, O.nodup⟩

theorem tail_append_singleton {α : Type} (l : List α) (x : α) (h : l ≠ []) :
    (l ++ [x]).tail = l.tail ++ [x] := by
  cases l with
  | nil => exact absurd rfl h
  | cons a t => rfl

theorem visited_cons (m : Nat → Nat) {kinds : List Bool} (hk : kinds ≠ []) (pos : BlockPosition) (p : Nat) :
    (peek m kinds pos p).2.2.map (·.1) =
      (peek m (kinds.take (restLength kinds.length pos)) posOther p).2.2.map (·.1) ++
        [(peek m (kinds.take (restLength kinds.length pos)) posOther p).2.1] := by
  rw [peek_cons m hk pos p]
  simp

theorem chain_cons (m : Nat → Nat) {kinds : List Bool} (hk : kinds ≠ []) (pos : BlockPosition) (p : Nat) :
    (peek m kinds pos p).2.2 =
      (peek m (kinds.take (restLength kinds.length pos)) posOther p).2.2 ++
        [((peek m (kinds.take (restLength kinds.length pos)) posOther p).2.1,
          kinds.drop (restLength kinds.length pos), pos)] := by
  rw [peek_cons m hk pos p]

/-- the prefix of a well-shaped chain is well shaped -/
theorem ChainOK.prefix {m : Nat → Nat} {kinds : List Bool} {pos : BlockPosition} {p : Nat}
    (C : ChainOK m kinds pos p) (hk : kinds ≠ []) :
    ChainOK m (kinds.take (restLength kinds.length pos)) posOther p := by
  have e2 := chain_cons m hk pos p
  have e3 := visited_cons m hk pos p
  refine ⟨?_, ?_, ?_⟩
  · intro v hv
    exact C.pre v (by rw [e2]; exact List.mem_append.2 (Or.inl hv))
  · intro b hb
    apply C.hdr b
    rw [e3]
    by_cases hn : (peek m (kinds.take (restLength kinds.length pos)) posOther p).2.2.map (·.1) = []
    · rw [hn] at hb; simp at hb
    · rw [tail_append_singleton _ _ hn]
      exact List.mem_append.2 (Or.inl hb)
  · have := C.nodup
    rw [e3] at this
    exact (List.nodup_append.mp this).1

/-- the last block of a well-shaped chain -/
theorem ChainOK.last {m : Nat → Nat} {kinds : List Bool} {pos : BlockPosition} {p : Nat}
    (C : ChainOK m kinds pos p) (hk : kinds ≠ []) :
    BlockPre m (peek m (kinds.take (restLength kinds.length pos)) posOther p).2.1
      (kinds.drop (restLength kinds.length pos)) pos ∧
    (peek m (kinds.take (restLength kinds.length pos)) posOther p).2.1 ∉
      (peek m (kinds.take (restLength kinds.length pos)) posOther p).2.2.map (·.1) ∧
    (kinds.take (restLength kinds.length pos) ≠ [] →
      m (peek m (kinds.take (restLength kinds.length pos)) posOther p).2.1 = 0) := by
  have e2 := chain_cons m hk pos p
  have e3 := visited_cons m hk pos p
  refine ⟨?_, ?_, ?_⟩
  · exact C.pre ((peek m (kinds.take (restLength kinds.length pos)) posOther p).2.1,
      kinds.drop (restLength kinds.length pos), pos) (by rw [e2]; simp)
  · have := C.nodup
    rw [e3, List.nodup_append] at this
    intro hm
    exact this.2.2 _ hm _ (by simp) rfl
  · intro hne
    apply C.hdr
    rw [e3]
    have hn : (peek m (kinds.take (restLength kinds.length pos)) posOther p).2.2.map (·.1) ≠ [] := by
      intro h0
      have h0' : (peek m (kinds.take (restLength kinds.length pos)) posOther p).2.2 = [] := by
        simpa using h0
      have := (peek_chain m _ (kinds.take (restLength kinds.length pos)) posOther p (Nat.le_refl _)).2.2.2.mp h0'
      exact hne this
    rw [tail_append_singleton _ _ hn]
    simp

theorem blockPre_congr {m m' : Nat → Nat} {blk : Nat} {ks : List Bool} {pos : BlockPosition}
    (h : ∀ k, 0 < k → k < 64 → m' (blk + k) = m (blk + k)) (B : BlockPre m blk ks pos) :
    BlockPre m' blk ks pos := by
  refine ⟨?_, ?_⟩
  · intro i hi hs
    rw [h (fstOff i) (by simp [fstOff, fieldOffset]; omega)
      (by simp [fstOff, fieldOffset]; unfold fieldsPerBlock at hi; omega)]
    exact B.unloaded i hi hs
  · intro hp
    rw [h (fstOff (fieldsPerBlock - 1)) (by simp [fstOff, fieldOffset, fieldsPerBlock])
      (by simp [fstOff, fieldOffset, fieldsPerBlock])]
    exact B.link hp

/-! ## release mode -/

/-- `load_fields` in release mode, with the values and the frame exposed -/
theorem loadFields_release_full : ∀ (n : Nat) {s : HState} {F p : Nat}
    {roots lin lazy live : List Nat} (kinds : List Bool) (pos : BlockPosition),
    kinds.length ≤ n → InvS s (p :: roots) [] lin lazy live F → p ≠ 0 → s.mem.get p = 0 →
    ChainOK s.mem.get kinds pos p → (kinds = [] → pos = .other) →
    ∃ s' lin' live',
      loadFields s kinds pos .release p =
        .ok (s', (peek s.mem.get kinds pos p).1, (peek s.mem.get kinds pos p).2.1) ∧
      SameHeap s s' ∧ s'.free = s.free ∧
      InvS s' ((if pos = .other then [(peek s.mem.get kinds pos p).2.1] else []) ++
        ptrsOf (peek s.mem.get kinds pos p).1 ++ roots) [] lin' lazy live' F ∧
      (pos = .other → (peek s.mem.get kinds pos p).2.1 ≠ 0) ∧
      (∀ a, a ∉ (peek s.mem.get kinds pos p).2.2.map (·.1) → s'.mem.get a = s.mem.get a) ∧
      (∀ b ∈ (peek s.mem.get kinds pos p).2.2.map (·.1), IsBlock s.base b) := by
  intro n
  induction n with
  | zero =>
    intro s F p roots lin lazy live kinds pos hn h hp hz _ hnil
    have hk : kinds = [] := List.length_eq_zero_iff.mp (by omega)
    subst hk
    have hpos := hnil rfl
    subst hpos
    rw [peek_nil]
    exact ⟨s, lin, live, loadFields_nil _ _ _ _, SameHeap.refl s, rfl,
      by simpa [ptrsOf] using h, fun _ => hp, fun _ _ => rfl, by simp⟩
  | succ n ih =>
    intro s F p roots lin lazy live kinds pos hn h hp hz C hnil
    by_cases hk : kinds = []
    · subst hk
      have hpos := hnil rfl
      subst hpos
      rw [peek_nil]
      exact ⟨s, lin, live, loadFields_nil _ _ _ _, SameHeap.refl s, rfl,
        by simpa [ptrsOf] using h, fun _ => hp, fun _ _ => rfl, by simp⟩
    · have hlpos : 0 < kinds.length := List.length_pos_iff.mpr hk
      have hrl := restLength_lt kinds.length pos hlpos
      obtain ⟨s1, lin1, live1, hl1, hsame1, hfree1, hi1, hnz1, hfr1, hblk1⟩ :=
        ih (kinds.take (restLength kinds.length pos)) .other
          (by rw [List.length_take]; omega) h hp hz (C.prefix hk) (fun _ => rfl)
      obtain ⟨hbpre0, hnotin, hhdr⟩ := C.last hk
      -- abbreviations
      generalize hblkdef : (peek s.mem.get (kinds.take (restLength kinds.length pos)) posOther p).2.1 = blk
        at hl1 hi1 hnz1 hbpre0 hnotin hhdr
      generalize hv1def : (peek s.mem.get (kinds.take (restLength kinds.length pos)) posOther p).1 = vals1
        at hl1 hi1
      generalize hvisdef : (peek s.mem.get (kinds.take (restLength kinds.length pos)) posOther p).2.2.map (·.1)
        = vis1 at hfr1 hblk1 hnotin
      simp only [if_true, List.cons_append, List.nil_append] at hi1
      have hblk0 : blk ≠ 0 := hnz1 rfl
      have hbl1 : blk ∈ live1 := by
        rcases hi1.roots_live blk (by simp) with h0 | hl
        · exact absurd h0 hblk0
        · exact hl
      have hbb := hi1.live_block hbl1
      have hbbS : IsBlock s.base blk := by rw [← hsame1.base]; exact hbb.1
      have hz1 : s1.mem.get blk = 0 := by
        rw [hfr1 blk hnotin]
        by_cases ht : kinds.take (restLength kinds.length pos) = []
        · rw [ht, peek_nil] at hblkdef
          rw [← hblkdef]; exact hz
        · exact hhdr ht
      -- words of `blk` are the same in `s1` and `s`
      have hwords1 : ∀ k, 0 < k → k < 64 → s1.mem.get (blk + k) = s.mem.get (blk + k) := by
        intro k h0 hk'
        apply hfr1
        intro hm
        exact inside_ne_block hbbS (hblk1 _ hm) h0 hk' rfl
      have hbpre : BlockPre s1.mem.get blk (kinds.drop (restLength kinds.length pos)) pos :=
        blockPre_congr hwords1 hbpre0
      have hlen : (kinds.drop (restLength kinds.length pos)).length ≤ fieldsPerBlock - pos.toNat := by
        rw [List.length_drop]; exact length_drop_restLength _ _
      obtain ⟨s2, link, vals2, lin2, live2, hrel, hlink, hlv, hsame2, hfree2, hi2, hnz2⟩ :=
        loadBlock_release (ks := kinds.drop (restLength kinds.length pos)) (pos := pos) hi1
          hblk0 hz1 hbpre hlen
      -- the state after releasing `blk`
      have hs2 : s2 = { s1 with mem := s1.mem.set blk s1.heap, heap := blk } := by
        unfold releaseBlock at hrel
        cases hw : wr s1 blk s1.heap with
        | error e => rw [hw] at hrel; cases hrel
        | ok sx =>
          rw [hw] at hrel
          injection hrel with hrel
          rw [← hrel, wr_ok_mem hw]
      have hwords2 : ∀ k, 0 < k → k < 64 → s2.mem.get (blk + k) = s.mem.get (blk + k) := by
        intro k h0 hk'
        rw [hs2]
        show (s1.mem.set blk s1.heap).get _ = _
        rw [Mem.get_set, if_neg (by omega)]
        exact hwords1 k h0 hk'
      -- the link
      have hlinkv : link = if pos = posOther then s.mem.get (blk + fstOff (fieldsPerBlock - 1)) else 0 := by
        by_cases hpo : pos = posOther
        · rw [if_pos hpo] at hlink ⊢
          rw [rd_ok_val hlink]
          exact hwords2 _ (by simp [fstOff, fieldOffset, fieldsPerBlock])
            (by simp [fstOff, fieldOffset, fieldsPerBlock])
        · rw [if_neg hpo] at hlink ⊢
          injection hlink with hlink; exact hlink.symm
      -- the values
      have hcap3 : fieldsPerBlock - pos.toNat ≤ 3 := by simp [fieldsPerBlock]
      have hbb2 : IsBlock s2.base blk := by rw [hsame2.base]; exact hbb.1
      have hvals2 : vals2 = fieldsAt s.mem.get blk
          (fieldsPerBlock - pos.toNat - (kinds.drop (restLength kinds.length pos)).length)
          (kinds.drop (restLength kinds.length pos)) := by
        obtain ⟨s3, hlv', _⟩ := loadValuesRev_spec (blk := blk) .release
          (kinds.drop (restLength kinds.length pos)).reverse (fieldsPerBlock - pos.toNat) [] s2 _
          (by rw [List.length_reverse]; exact hlen) hcap3 hi2 hbb2 hbb.2 (by simp)
        unfold loadValues at hlv
        rw [hlv'] at hlv
        injection hlv with hlv
        injection hlv with _ hlv
        rw [← hlv, List.reverse_reverse, List.length_reverse, List.append_nil]
        exact fieldsAt_congr hwords2 _ _ (by omega)
      rw [peek_cons s.mem.get hk]
      rw [hblkdef, hv1def, ← hvals2, ← hlinkv]
      refine ⟨s2, lin2, live2, loadFields_cons hk pos .release p hl1 hrel hlink hlv,
        hsame1.trans hsame2, by rw [hfree2, hfree1], ?_, hnz2, ?_, ?_⟩
      · refine InvW.roots_congr hi2 (fun x _ => ?_)
        simp only [ptrsOf_append, List.count_append, List.count_nil]
        omega
      · intro a ha
        simp only [List.map_append, List.map_cons, List.map_nil, List.mem_append, List.mem_singleton,
          not_or] at ha
        rw [hvisdef] at ha
        rw [hs2]
        show (s1.mem.set blk s1.heap).get a = _
        rw [Mem.get_set, if_neg (fun e => ha.2 e.symm)]
        exact hfr1 a ha.1
      · intro b hb
        simp only [List.map_append, List.map_cons, List.map_nil, List.mem_append, List.mem_singleton] at hb
        rw [hvisdef] at hb
        rcases hb with hb | rfl
        · exact hblk1 b hb
        · exact hbbS


/-! ## share mode -/

/-- what `load_values` writes: only the headers of the pointers it loads -/
theorem loadValuesRev_frame (blk : Nat) (mode : LoadMode) : ∀ (rev : List Bool) (ff : Nat) (acc : List Field)
    (s s' : HState) (r : List Field), loadValuesRev s blk mode rev ff acc = .ok (s', r) →
    ∃ new, r = new ++ acc ∧ ∀ a, a ∉ ptrsOf new → s'.mem.get a = s.mem.get a
  | [], ff, acc, s, s', r, h => by
    simp only [loadValuesRev, Except.ok.injEq, Prod.mk.injEq] at h
    obtain ⟨rfl, rfl⟩ := h
    exact ⟨[], rfl, fun _ _ => rfl⟩
  | k :: rest, 0, acc, s, s', r, h => by simp [loadValuesRev] at h
  | k :: rest, ff + 1, acc, s, s', r, h => by
    simp only [loadValuesRev] at h
    cases hlv : loadValue s k blk ff mode with
    | error e => rw [hlv] at h; cases h
    | ok sv =>
      obtain ⟨s1, v⟩ := sv
      rw [hlv] at h
      simp only at h
      obtain ⟨new, hr, hf⟩ := loadValuesRev_frame blk mode rest ff (v :: acc) s1 s' r h
      have h1 : ∀ a, a ∉ ptrsOf [v] → s1.mem.get a = s.mem.get a := by
        intro a ha
        unfold loadValue at hlv
        cases hw : rd s (blk + sndOff ff) with
        | error e => rw [hw] at hlv; cases hlv
        | ok w =>
          rw [hw] at hlv
          simp only at hlv
          cases k with
          | false =>
            simp only [Bool.false_eq_true, if_false, Except.ok.injEq, Prod.mk.injEq] at hlv
            rw [← hlv.1]
          | true =>
            simp only [if_true] at hlv
            cases hp : rd s (blk + fstOff ff) with
            | error e => rw [hp] at hlv; cases hlv
            | ok q =>
              rw [hp] at hlv
              simp only at hlv
              cases mode with
              | release =>
                simp only [Except.ok.injEq, Prod.mk.injEq] at hlv
                rw [← hlv.1]
              | share =>
                simp only at hlv
                cases hsh : shareBlock s q 1 with
                | error e => rw [hsh] at hlv; cases hlv
                | ok s1' =>
                  rw [hsh] at hlv
                  simp only [Except.ok.injEq, Prod.mk.injEq] at hlv
                  obtain ⟨rfl, rfl⟩ := hlv
                  apply shareBlock_frame hsh
                  intro e
                  apply ha
                  simp [ptrsOf, e]
      refine ⟨new ++ [v], by rw [hr]; simp, ?_⟩
      intro a ha
      rw [ptrsOf_append, List.mem_append, not_or] at ha
      rw [hf a ha.1, h1 a ha.2]

/-- `load_fields` in share mode, with the values and the frame exposed -/
theorem loadFields_share_full : ∀ (n : Nat) {s : HState} {F p : Nat}
    {roots lin lazy live : List Nat} (kinds : List Bool) (pos : BlockPosition),
    kinds.length ≤ n → InvS s roots [] lin lazy live F → p ∈ live →
    ChainOK s.mem.get kinds pos p →
    ∃ s', loadFields s kinds pos .share p =
        .ok (s', (peek s.mem.get kinds pos p).1, (peek s.mem.get kinds pos p).2.1) ∧
      SameHeap s s' ∧ s'.heap = s.heap ∧ s'.free = s.free ∧ HeadersOnly s s' ∧
      InvS s' (ptrsOf (peek s.mem.get kinds pos p).1 ++ roots) [] lin lazy live F ∧
      (pos = .other → (peek s.mem.get kinds pos p).2.1 ∈ live) ∧
      (∀ a, a ∉ ptrsOf (peek s.mem.get kinds pos p).1 → s'.mem.get a = s.mem.get a) := by
  intro n
  induction n with
  | zero =>
    intro s F p roots lin lazy live kinds pos hn h hp _
    have hk : kinds = [] := List.length_eq_zero_iff.mp (by omega)
    subst hk
    rw [peek_nil]
    exact ⟨s, loadFields_nil _ _ _ _, SameHeap.refl s, rfl, rfl, fun _ _ => rfl,
      by simpa [ptrsOf] using h, fun _ => hp, fun _ _ => rfl⟩
  | succ n ih =>
    intro s F p roots lin lazy live kinds pos hn h hp C
    by_cases hk : kinds = []
    · subst hk
      rw [peek_nil]
      exact ⟨s, loadFields_nil _ _ _ _, SameHeap.refl s, rfl, rfl, fun _ _ => rfl,
        by simpa [ptrsOf] using h, fun _ => hp, fun _ _ => rfl⟩
    · have hlpos : 0 < kinds.length := List.length_pos_iff.mpr hk
      have hrl := restLength_lt kinds.length pos hlpos
      obtain ⟨s1, hl1, hsame1, hheap1, hfree1, hho1, hi1, hlive1, hfr1⟩ :=
        ih (kinds.take (restLength kinds.length pos)) .other
          (by rw [List.length_take]; omega) h hp (C.prefix hk)
      obtain ⟨hbpre0, _, _⟩ := C.last hk
      generalize hblkdef : (peek s.mem.get (kinds.take (restLength kinds.length pos)) posOther p).2.1 = blk
        at hl1 hlive1 hbpre0
      generalize hv1def : (peek s.mem.get (kinds.take (restLength kinds.length pos)) posOther p).1 = vals1
        at hl1 hi1 hfr1
      have hbl : blk ∈ live := hlive1 rfl
      have hbb := hi1.live_block hbl
      have hbbS : IsBlock s.base blk := by rw [← hsame1.base]; exact hbb.1
      have hFr := hi1.frontier_room
      have hlim : blk + 64 ≤ s1.limit := by
        have := hi1.frontier_block; have := hbb.1; unfold IsBlock at *; omega
      have hwords1 : ∀ k, 0 < k → k < 64 → s1.mem.get (blk + k) = s.mem.get (blk + k) :=
        fun k h0 hk' => hho1 _ (not_isBlock_add hbbS h0 hk')
      have hlink : (if pos = posOther then rd s1 (blk + fstOff (fieldsPerBlock - 1)) else .ok 0) =
          .ok (if pos = posOther then s.mem.get (blk + fstOff (fieldsPerBlock - 1)) else 0) := by
        cases pos with
        | last => simp
        | other =>
          simp only [if_true]
          rw [rd_off (s := s1) _ hbb.1 hlim (by simp [fstOff, fieldOffset, fieldsPerBlock])
            (by simp [fstOff, fieldOffset, fieldsPerBlock])]
          rw [hwords1 _ (by simp [fstOff, fieldOffset, fieldsPerBlock])
            (by simp [fstOff, fieldOffset, fieldsPerBlock])]
      have hcap3 : fieldsPerBlock - pos.toNat ≤ 3 := by simp [fieldsPerBlock]
      have hlen : (kinds.drop (restLength kinds.length pos)).length ≤ fieldsPerBlock - pos.toNat := by
        rw [List.length_drop]; exact length_drop_restLength _ _
      obtain ⟨s3, hlv, hsame3, hheap3, hfree3, hho3, _, hi3⟩ :=
        loadValuesRev_spec (blk := blk) .share (kinds.drop (restLength kinds.length pos)).reverse
          (fieldsPerBlock - pos.toNat) [] s1 _
          (by rw [List.length_reverse]; exact hlen)
          hcap3 hi1 hbb.1 hbb.2 (fun _ => hbl)
      rw [List.reverse_reverse, List.append_nil, List.length_reverse] at hlv
      rw [List.reverse_reverse, List.length_reverse] at hi3
      have hfa : fieldsAt s1.mem.get blk
          (fieldsPerBlock - pos.toNat - (kinds.drop (restLength kinds.length pos)).length)
          (kinds.drop (restLength kinds.length pos)) =
          fieldsAt s.mem.get blk
          (fieldsPerBlock - pos.toNat - (kinds.drop (restLength kinds.length pos)).length)
          (kinds.drop (restLength kinds.length pos)) :=
        fieldsAt_congr hwords1 _ _ (by omega)
      rw [hfa] at hlv hi3
      obtain ⟨new, hnew, hfr3⟩ := loadValuesRev_frame blk .share _ _ [] s1 s3 _ hlv
      rw [List.append_nil] at hnew
      rw [peek_cons s.mem.get hk, hblkdef, hv1def]
      refine ⟨s3, loadFields_cons hk pos .share p hl1 rfl hlink hlv, hsame1.trans hsame3,
        by rw [hheap3, hheap1], by rw [hfree3, hfree1], hho1.trans hsame1 hho3, ?_, ?_, ?_⟩
      · refine InvW.roots_congr hi3 (fun x _ => ?_)
        simp only [gained, ptrsOf_append, List.count_append]
        omega
      · intro hpo
        rw [if_pos hpo]
        have hne := hbpre0.link hpo
        have hmem : s.mem.get (blk + fstOff (fieldsPerBlock - 1)) ∈ ptrSlots s1.mem.get blk := by
          rw [← hwords1 _ (by simp [fstOff, fieldOffset, fieldsPerBlock])
            (by simp [fstOff, fieldOffset, fieldsPerBlock])]
          exact mem_ptrSlots_of_off (m := s1.mem.get) (blk := blk) (i := 2) (by omega)
        rcases InvW.slot_live hi1 hbl hmem with h0 | hl
        · exact absurd h0 hne
        · exact hl
      · intro a ha
        rw [ptrsOf_append, List.mem_append, not_or] at ha
        rw [hfr3 a (by rw [← hnew]; exact ha.2), hfr1 a ha.1]

/-! ## `load` -/

/-- the frame of an operation that writes at most headers of head blocks of abstract objects -/
theorem frame_of_head_writes {h h' : Heap} {rs : List Nat} {next : Nat} {s s' : HState} {ι : Nat → Nat}
    (R : HRef h rs next s ι) (hsub : Sub h' h)
    (hf : ∀ a, (∀ e ∈ h, a ≠ ι e.1) → s'.mem.get a = s.mem.get a) :
    (∀ e ∈ h', ∀ b ∈ blocksOf s.mem.get (ι e.1) e.2.fields, ∀ k, 0 < k → k < 64 →
      s'.mem.get (b + k) = s.mem.get (b + k)) ∧
    (∀ e ∈ h', ∀ b ∈ (blocksOf s.mem.get (ι e.1) e.2.fields).tail, s'.mem.get b = s.mem.get b) := by
  obtain ⟨lin, lazy, live, F, I⟩ := R.conc
  have hlive : ∀ e ∈ h, ∀ b ∈ blocksOf s.mem.get (ι e.1) e.2.fields, b ∈ live :=
    fun e he => chains_live I R.abs R.ord R.shape _ e he (Nat.le_refl _)
  have hhead : ∀ e ∈ h, IsBlock s.base (ι e.1) :=
    fun e he => (I.live_block (hlive e he _ (head_mem_blocksOf (R.shape e he)))).1
  constructor
  · intro e' he' b hb k h0 hk
    obtain ⟨e, he, h1, h2⟩ := hsub e' he'
    rw [← h1, ← h2] at hb
    apply hf
    intro e0 he0
    exact inside_ne_block (I.live_block (hlive e he b hb)).1 (hhead e0 he0) h0 hk
  · intro e' he' b hb
    obtain ⟨e, he, h1, h2⟩ := hsub e' he'
    rw [← h1, ← h2] at hb
    apply hf
    intro e0 he0 eq
    rw [eq] at hb
    exact head_not_tail R he0 he hb

theorem shareAll_sub : ∀ (cs : List Nat) (h h' : Heap), h.shareAll cs = .ok h' → Sub h' h
  | [], h, h', e => by simp [Heap.shareAll] at e; subst e; exact Sub.refl h
  | c :: cs, h, h', e => by
    simp only [Heap.shareAll] at e
    cases hs : h.share (BitVec.ofNat 64 c) 1 with
    | error x => rw [hs] at e; cases e
    | ok h1 =>
      rw [hs] at e
      have h1sub : Sub h1 h := by
        unfold Heap.share at hs
        split at hs
        · injection hs with hs; subst hs; exact Sub.refl h
        · split at hs
          · cases hs
          · rename_i o hg
            injection hs with hs; subst hs
            exact sub_set hg _
      exact (shareAll_sub cs h1 h' e).trans h1sub

/-- the non-null pointers of the field images are the images of the children -/
theorem count_ptrsOf_img (ι : Nat → Nat) : ∀ (fs : List AField) (b : Nat), b ≠ 0 →
    (ptrsOf (fs.map (fieldImg ι))).count b =
      ((fs.filterMap fun f => if f.chi != Scc.AxCut.Chi.ext && f.ptr != 0 then some f.ptr.toNat else none).map ι).count b
  | [], b, _ => by simp [ptrsOf]
  | f :: fs, b, hb => by
    have ih := count_ptrsOf_img ι fs b hb
    simp only [List.map_cons]
    by_cases hk : kindB f = true
    · have hf : fieldImg ι f = .ptr (imgW ι f.ptr) f.val.toNat := by simp [fieldImg, hk]
      rw [hf]
      simp only [ptrsOf]
      have hk' : (f.chi != Scc.AxCut.Chi.ext) = true := hk
      by_cases hp : f.ptr = 0
      · have hc : (f.chi != Scc.AxCut.Chi.ext && f.ptr != 0) = false := by simp [hp]
        rw [List.filterMap_cons, if_neg (by rw [hc]; simp)]
        have : imgW ι f.ptr = 0 := by simp [imgW, hp]
        rw [this, List.count_cons_of_ne (Ne.symm hb)]
        exact ih
      · have hc : (f.chi != Scc.AxCut.Chi.ext && f.ptr != 0) = true := by
          rw [hk', Bool.true_and, bne_iff_ne]; exact hp
        rw [List.filterMap_cons, if_pos hc]
        have : imgW ι f.ptr = ι f.ptr.toNat := by unfold imgW; rw [if_neg hp]
        rw [this]
        simp only [List.map_cons, List.count_cons, ih]
    · have hk' : (f.chi != Scc.AxCut.Chi.ext) = false := by
        have : kindB f = false := by simpa using hk
        exact this
      have hf : fieldImg ι f = .int f.val.toNat := by
        have : kindB f = false := hk'
        simp [fieldImg, this]
      rw [hf]
      simp only [ptrsOf]
      have hc : (f.chi != Scc.AxCut.Chi.ext && f.ptr != 0) = false := by rw [hk']; rfl
      rw [List.filterMap_cons, if_neg (by rw [hc]; simp)]
      exact ih

/-- the abstract result of `load` on object `id` -/
def loadAbs (h : Heap) (id : Nat) (o : Obj) : Except String Heap :=
  if o.count == 0 then .ok (h.remove id)
  else (h.set id { o with count := o.count - 1 }).shareAll o.children

/-- `load` ↔ `Memory::load`: the fields loaded are the images of the abstract fields; afterwards the
children are held by the loading context.  (When the object is abstractly unique but still referenced by
a block that is alive only at block level, the emitted code takes the shared path; the results are
related all the same.) -/
theorem href_load_full {h : Heap} {rs : List Nat} {next : Nat} {s : HState} {ι : Nat → Nat} {id : Nat} {o : Obj}
    (R : HRef h (rs ++ [id]) next s ι) (hg : h.get id = some o) :
    ∃ h' s', loadAbs h id o = .ok h' ∧
      loadObj s (ι id) (o.fields.map kindB) = .ok (s', o.fields.map (fieldImg ι)) ∧
      HRef h' (rs ++ o.children) next s' ι ∧
      (s.mem.get (ι id) ≠ 0 → ∀ a, s'.mem.get a = s.mem.get a ∨
        ∃ lin lazy live F, InvS s' ((rs ++ o.children).map ι) [] lin lazy live F ∧ a ∈ live) ∧
      SameHeap s s' ∧
      (∃ lin lazy live lin' lazy' live' F, InvS s ((rs ++ [id]).map ι) [] lin lazy live F ∧
        InvS s' ((rs ++ o.children).map ι) [] lin' lazy' live' F) := by
  have he0 : (id, o) ∈ h := heap_get_mem hg
  have O := R.shape _ he0
  have hkne : o.fields.map kindB ≠ [] := by simpa using O.ne
  obtain ⟨lin, lazy, live, F, I⟩ := R.conc
  have I0 : InvS s (ι id :: rs.map ι) [] lin lazy live F := by
    refine InvW.roots_perm I ?_
    rw [List.map_append]
    exact (List.perm_append_comm (l₁ := rs.map ι) (l₂ := [ι id])).symm
  have hpl : ι id ∈ live := by
    rcases I0.roots_live (ι id) (by simp) with h0 | hl
    · exact absurd h0 O.pos
    · exact hl
  have hpb := I0.live_block hpl
  have hrd := I0.rd_block (k := 0) hpb.1 (Nat.le_of_lt hpb.2) (by omega) (by omega)
  simp only [Nat.add_zero] at hrd
  -- the abstract side
  have habs : ∃ h', loadAbs h id o = .ok h' ∧ HeapOK h' (rs ++ o.children) next ∧ Sub h' h ∧
      (o.count ≠ 0 → (id, { o with count := o.count - 1 }) ∈ h' ∨ True) := by
    unfold loadAbs
    by_cases hc : o.count = 0
    · have : (o.count == 0) = true := by simp [hc]
      rw [if_pos this]
      refine ⟨_, rfl, ?_, sub_remove h id, fun h => absurd hc h⟩
      apply heapOK_remove R.abs hg hc
      intro x
      simp only [List.count_append, List.count_cons, List.count_nil]
      by_cases hx : x = id
      · subst hx; simp; omega
      · have : ¬ (id = x) := fun e => hx e.symm
        simp [hx, this]
    · have : (o.count == 0) = false := by simp [hc]
      rw [if_neg (by rw [this]; simp)]
      have H1 : HeapOK (h.set id { o with count := o.count - 1 }) rs next := by
        apply heapOK_setCount R.abs hg
        · intro x hx
          have : ¬ (id = x) := fun e => hx e.symm
          simp [List.count_append, List.count_cons, this]
        · simp [List.count_append]; omega
      have hcs : ∀ c ∈ o.children, 0 < c ∧ c < 2 ^ 64 ∧
          ((h.set id { o with count := o.count - 1 }).get c).isSome := by
        intro c hc'
        obtain ⟨a, b, d⟩ := heapOK_child_live R.abs hg hc'
        refine ⟨a, b, ?_⟩
        by_cases e : c = id
        · subst e; rw [heap_get_set_same]; rfl
        · rw [heap_get_set_other _ _ e]; exact d
      obtain ⟨h', hs', H', _⟩ := shareAll_ok o.children _ rs next H1 hcs
      exact ⟨h', hs', H', (shareAll_sub _ _ _ hs').trans (sub_set hg _), fun _ => Or.inr trivial⟩
  obtain ⟨h', hload, A', hsub, _⟩ := habs
  have hroots : ∀ b, b ≠ 0 → (ptrsOf (o.fields.map (fieldImg ι)) ++ rs.map ι).count b =
      ((rs ++ o.children).map ι).count b := by
    intro b hb
    rw [List.map_append, List.count_append, List.count_append, count_ptrsOf_img ι _ b hb]
    exact Nat.add_comm _ _
  by_cases hc : s.mem.get (ι id) = 0
  · -- the emitted code releases the blocks
    have hcnt : o.count = 0 := by
      have := head_count_ge R he0
      simp only at this
      omega
    obtain ⟨s', lin', live', hlf, hsame, _, I', _, hfr, _⟩ :=
      loadFields_release_full _ (o.fields.map kindB) .last (Nat.le_refl _) I0 O.pos hc O.chainOK
        (fun e => absurd e hkne)
    rw [O.vals] at hlf I'
    have Irel : InvS s' ((rs ++ o.children).map ι) [] lin' lazy live' F := by
      refine InvW.roots_congr I' (fun b hb => ?_)
      simp only [List.nil_append, if_false, show ¬ (BlockPosition.last = BlockPosition.other) by decide]
      exact (hroots b hb).symm
    refine ⟨h', s', hload, ?_, ?_, fun hne => absurd hc hne, hsame, ⟨lin, lazy, live, lin', lazy, live', F, I, Irel⟩⟩
    · simp [loadObj, hkne, hrd, hc, hlf]
    · have hh' : h' = h.remove id := by
        unfold loadAbs at hload
        have : (o.count == 0) = true := by simp [hcnt]
        rw [if_pos this] at hload
        injection hload with hload; exact hload.symm
      have hframe : ∀ e ∈ h', ∀ b ∈ blocksOf s.mem.get (ι e.1) e.2.fields, s'.mem.get b = s.mem.get b ∧
          ∀ k, 0 < k → k < 64 → s'.mem.get (b + k) = s.mem.get (b + k) := by
        intro e' he' b hb
        rw [hh'] at he'
        obtain ⟨he, hne⟩ := mem_remove.mp he'
        have hdis : ∀ x ∈ blocksOf s.mem.get (ι e'.1) e'.2.fields, x ∉ blocksOf s.mem.get (ι id) o.fields :=
          R.disj e' he (id, o) he0 hne
        have hlive : ∀ e ∈ h, ∀ b ∈ blocksOf s.mem.get (ι e.1) e.2.fields, b ∈ live :=
          fun e he => chains_live I R.abs R.ord R.shape _ e he (Nat.le_refl _)
        refine ⟨hfr b (hdis b hb), ?_⟩
        intro k h0 hk
        apply hfr
        intro hm
        have hb1 := (I.live_block (hlive e' he b hb)).1
        have hb2 := (I.live_block (hlive (id, o) he0 _ hm)).1
        exact inside_ne_block hb1 hb2 h0 hk rfl
      refine R.transfer hsub A' ⟨lin', lazy, live', F, ?_⟩
        (fun e he b hb => (hframe e he b hb).2)
        (fun e he b hb => (hframe e he b (List.mem_of_mem_tail hb)).1)
      refine InvW.roots_congr I' (fun b hb => ?_)
      simp only [List.nil_append, if_false, show ¬ (BlockPosition.last = BlockPosition.other) by decide]
      exact (hroots b hb).symm
  · -- the emitted code decrements the count and shares the children
    have hwr := I0.wr_block (k := 0) (s.mem.get (ι id) - 1) hpb.1 (Nat.le_of_lt hpb.2) (by omega) (by omega)
    simp only [Nat.add_zero] at hwr
    have hi0 : InvS { s with mem := s.mem.set (ι id) (s.mem.get (ι id) - 1) } (rs.map ι) [] lin lazy live F := by
      show InvW (s.mem.set (ι id) _).get _ _ _ _ _ _ _ _ _ _
      rw [Mem.get_set_upd]
      refine InvW.header_update I0 hpl ?_ ?_
      · rw [List.count_cons_self]; omega
      · intro b _ hb; rw [List.count_cons_of_ne (Ne.symm hb)]
    have hm0 : ∀ a, a ≠ ι id → (s.mem.set (ι id) (s.mem.get (ι id) - 1)).get a = s.mem.get a := by
      intro a ha
      rw [Mem.get_set, if_neg (fun e => ha e.symm)]
    have hlive : ∀ e ∈ h, ∀ b ∈ blocksOf s.mem.get (ι e.1) e.2.fields, b ∈ live :=
      fun e he => chains_live I R.abs R.ord R.shape _ e he (Nat.le_refl _)
    have O0 : ObjAt (s.mem.set (ι id) (s.mem.get (ι id) - 1)).get ι (ι id) o.fields := by
      apply O.congr
      · intro b hb k h0 hk
        apply hm0
        exact inside_ne_block (I.live_block (hlive _ he0 b hb)).1 hpb.1 h0 hk
      · intro b hb
        apply hm0
        intro e; rw [e] at hb
        exact head_not_mem_tail O hb
    have hpeek : peek (s.mem.set (ι id) (s.mem.get (ι id) - 1)).get (o.fields.map kindB) .last (ι id) =
        peek s.mem.get (o.fields.map kindB) .last (ι id) := by
      apply peek_congr _ _ _ _ (Nat.le_refl _)
      intro b hb k h0 hk
      apply hm0
      exact inside_ne_block (I.live_block (hlive _ he0 b hb)).1 hpb.1 h0 hk
    obtain ⟨s', hlf, hsame, _, _, hho, I', _, hfr⟩ :=
      loadFields_share_full _ (o.fields.map kindB) .last (Nat.le_refl _) hi0 hpl O0.chainOK
    simp only at hlf I' hfr
    rw [hpeek, O.vals] at hlf I' hfr
    have hhead : ∀ e ∈ h, IsBlock s.base (ι e.1) :=
      fun e he => (I.live_block (hlive e he _ (head_mem_blocksOf (R.shape e he)))).1
    have hf : ∀ a, (∀ e ∈ h, a ≠ ι e.1) → s'.mem.get a = s.mem.get a := by
      intro a ha
      by_cases hblk : IsBlock s.base a
      · have h1 : a ∉ ptrsOf (o.fields.map (fieldImg ι)) := by
          intro hm
          -- a pointer of the field images is null or the head of a child
          have hcnt : 0 < (ptrsOf (o.fields.map (fieldImg ι))).count a := List.count_pos_iff.mpr hm
          have ha0 : a ≠ 0 := by
            have := I.base_pos; unfold IsBlock at hblk; omega
          rw [count_ptrsOf_img ι _ a ha0] at hcnt
          obtain ⟨c, hc', rfl⟩ := List.mem_map.1 (List.count_pos_iff.mp hcnt)
          obtain ⟨_, _, hsome⟩ := heapOK_child_live R.abs hg hc'
          obtain ⟨oc, hoc⟩ := heap_get_isSome_mem hsome
          exact ha (c, oc) hoc rfl
        rw [hfr a h1]
        exact hm0 a (ha (id, o) he0)
      · rw [hho a hblk]
        exact hm0 a (ha (id, o) he0)
    have Ifin : InvS s' ((rs ++ o.children).map ι) [] lin lazy live F :=
      InvW.roots_congr I' (fun b hb => (hroots b hb).symm)
    refine ⟨h', s', hload, ?_, ?_, ?_, ⟨hsame.base, hsame.limit⟩, ⟨lin, lazy, live, lin, lazy, live, F, I, Ifin⟩⟩
    · simp [loadObj, hkne, hrd, hc, hwr, hlf]
    · obtain ⟨hw, hhd⟩ := frame_of_head_writes R hsub hf
      exact R.transfer hsub A' ⟨lin, lazy, live, F, Ifin⟩ hw hhd
    · intro _ a
      by_cases ha : ∀ e ∈ h, a ≠ ι e.1
      · exact Or.inl (hf a ha)
      · refine Or.inr ⟨lin, lazy, live, F, Ifin, ?_⟩
        have : ∃ e ∈ h, a = ι e.1 := by
          apply Classical.byContradiction
          intro hn
          apply ha
          intro e he e'
          exact hn ⟨e, he, e'⟩
        obtain ⟨e, he, rfl⟩ := this
        exact hlive e he _ (head_mem_blocksOf (R.shape e he))

theorem href_load {h : Heap} {rs : List Nat} {next : Nat} {s : HState} {ι : Nat → Nat} {id : Nat} {o : Obj}
    (R : HRef h (rs ++ [id]) next s ι) (hg : h.get id = some o) :
    ∃ h' s', loadAbs h id o = .ok h' ∧
      loadObj s (ι id) (o.fields.map kindB) = .ok (s', o.fields.map (fieldImg ι)) ∧
      HRef h' (rs ++ o.children) next s' ι := by
  obtain ⟨h', s', a, b, c, _, _, _⟩ := href_load_full R hg
  exact ⟨h', s', a, b, c⟩

end Scc.Heap.Refine
