/-
Scc.Heap.ProofsStore — `store_values` / `store_fields` / `store`.
-/
import Scc.Heap.ProofsOps

namespace Scc.Heap

/-- A store to word `k` of a block inside the heap succeeds (simp-friendly form). -/
theorem wr_off {s : HState} {b : Nat} (v k : Nat) (hb : IsBlock s.base b) (hlim : b + 64 ≤ s.limit)
    (hk : k < 64) (hk8 : k % 8 = 0) :
    wr s (b + k) v = .ok { s with mem := s.mem.set (b + k) v } := by
  unfold IsBlock at hb
  exact wr_ok v (by omega) (by omega) (by omega)

theorem rd_off {s : HState} {b : Nat} (k : Nat) (hb : IsBlock s.base b) (hlim : b + 64 ≤ s.limit)
    (hk : k < 64) (hk8 : k % 8 = 0) :
    rd s (b + k) = .ok (s.mem.get (b + k)) := by
  unfold IsBlock at hb
  exact rd_ok (by omega) (by omega) (by omega)

/-- Pointer slots `0 .. cap-1` of block `b`. -/
def slotsUpTo (m : Nat → Nat) (b : Nat) : Nat → List Nat
  | 0 => []
  | n + 1 => slotsUpTo m b n ++ [m (b + fstOff n)]

/-- Postcondition of `store_values`. -/
structure StoreValuesPost (s : HState) (b cap : Nat) (vals : List Field) (s' : HState) : Prop where
  heap : s'.heap = s.heap
  free : s'.free = s.free
  base : s'.base = s.base
  limit : s'.limit = s.limit
  frame : ∀ a, (a < b + 16 ∨ b + 64 ≤ a) → s'.mem.get a = s.mem.get a
  link : cap = 2 → s'.mem.get (b + 48) = s.mem.get (b + 48)
  slots : ∀ x, x ≠ 0 → (slotsUpTo s'.mem.get b cap).count x = (ptrsOf vals).count x

theorem storeValues_spec {s : HState} {b cap : Nat} {vals : List Field}
    (hb : IsBlock s.base b) (hlim : b + 64 ≤ s.limit) (hcap : cap = 2 ∨ cap = 3)
    (hlen : vals.length ≤ cap) :
    ∃ s', storeValues s vals b cap = .ok s' ∧ StoreValuesPost s b cap vals s' := by
  rcases hcap with rfl | rfl
  · rcases vals with _ | ⟨f0, _ | ⟨f1, _ | ⟨f2, tl⟩⟩⟩
    case cons.cons.cons => simp at hlen
    all_goals (try cases f0) <;> (try cases f1)
    all_goals
      simp [storeValues, storeValuesRev, storeValue, storeZeros, storeZerosFrom, fstOff, sndOff,
          fieldOffset, wr_off, hb, hlim]
      refine ⟨rfl, rfl, rfl, rfl, ?_, ?_, ?_⟩
      · intro a ha
        repeat (rw [Mem.get_set, if_neg (by omega)])
      · intro _
        repeat (rw [Mem.get_set, if_neg (by omega)])
      · intro x hx
        simp [slotsUpTo, fstOff, fieldOffset, Mem.get_set, ptrsOf, List.count_cons]
        try grind
  · rcases vals with _ | ⟨f0, _ | ⟨f1, _ | ⟨f2, _ | ⟨f3, tl⟩⟩⟩⟩
    case cons.cons.cons.cons => simp at hlen
    all_goals (try cases f0) <;> (try cases f1) <;> (try cases f2)
    all_goals
      simp [storeValues, storeValuesRev, storeValue, storeZeros, storeZerosFrom, fstOff, sndOff,
          fieldOffset, wr_off, hb, hlim]
      refine ⟨rfl, rfl, rfl, rfl, ?_, ?_, ?_⟩
      · intro a ha
        repeat (rw [Mem.get_set, if_neg (by omega)])
      · intro _
        repeat (rw [Mem.get_set, if_neg (by omega)])
      · intro x hx
        simp [slotsUpTo, fstOff, fieldOffset, Mem.get_set, ptrsOf, List.count_cons]
        try grind

/-- The frontier moves only out of the configuration `P`: one-element linear free list, empty
deferred list; and after it has moved the configuration is `P` again. -/
def Exhausted (lin lazy : List Nat) : Prop := lin.length = 1 ∧ lazy = []

/-- One block of `store_fields`: (link,) values, `acquire_block`; afterwards the block is a live
object held by one root and the roots stored into it are consumed. -/
theorem storeBlock_spec {s : HState} {F : Nat} {roots lin lazy live : List Nat}
    (h : InvS s roots [] lin lazy live F) (vals : List Field) (pos : BlockPosition) (prev : Nat)
    (rest' : List Nat) (hlen : vals.length ≤ fieldsPerBlock - pos.toNat)
    (hroots : ∀ x, x ≠ 0 → roots.count x =
      (ptrsOf vals).count x + (if pos = .other then [prev].count x else 0) + rest'.count x)
    (hroom : F + 128 ≤ s.limit) :
    ∃ s1 s2 s3 lin' lazy' live' F',
      (if pos = posOther then wr s (s.heap + fstOff (fieldsPerBlock - 1)) prev else .ok s) = .ok s1 ∧
      storeValues s1 vals s1.heap (fieldsPerBlock - pos.toNat) = .ok s2 ∧
      acquire s2 = .ok (s3, s.heap) ∧ SameHeap s s3 ∧
      InvS s3 (s.heap :: rest') [] lin' lazy' live' F' ∧
      ((F' = F ∧ ¬ Exhausted lin lazy) ∨ (F' = F + 64 ∧ Exhausted lin lazy ∧ Exhausted lin' lazy')) := by
  have hbl : s.heap ∈ lin := by
    have hc := h.lin_chain
    have hne := h.lin_ne
    cases lin with
    | nil => exact absurd rfl hne
    | cons x xs => rw [hc.1]; simp
  have hbb := h.lin_block hbl
  have hFr := h.frontier_room
  have hFb := h.frontier_block
  have hlim : s.heap + 64 ≤ s.limit := by
    have := hbb.1; unfold IsBlock at *; omega
  -- step 1: the link
  obtain ⟨s1, hs1, hi1, hheap1, hbase1, hlimit1, hlink1⟩ :
      ∃ s1, (if pos = posOther then wr s (s.heap + fstOff (fieldsPerBlock - 1)) prev else .ok s) = .ok s1 ∧
        InvS s1 roots [] lin lazy live F ∧ s1.heap = s.heap ∧ s1.base = s.base ∧ s1.limit = s.limit ∧
        (pos = .other → s1.mem.get (s.heap + 48) = prev) := by
    cases pos with
    | last => exact ⟨s, by simp, h, rfl, rfl, rfl, by simp⟩
    | other =>
      refine ⟨{ s with mem := s.mem.set (s.heap + 48) prev }, ?_, ?_, rfl, rfl, rfl, ?_⟩
      · simp [fstOff, fieldOffset, fieldsPerBlock, wr_off, hbb.1, hlim]
      · show InvW (s.mem.set (s.heap + 48) prev).get _ _ _ _ _ _ _ _ _ _
        rw [Mem.get_set_upd]
        exact InvW.write_free h (Or.inl hbl) (by omega) (by omega)
      · intro _; simp [Mem.get_set]
  -- step 2: the values
  have hcap : fieldsPerBlock - pos.toNat = 2 ∨ fieldsPerBlock - pos.toNat = 3 := by
    cases pos <;> simp [fieldsPerBlock, BlockPosition.toNat]
  obtain ⟨s2, hs2, hpost⟩ := storeValues_spec (s := s1) (b := s1.heap) (vals := vals)
    (by rw [hbase1, hheap1]; exact hbb.1) (by rw [hheap1, hlimit1]; exact hlim) hcap hlen
  rw [hheap1] at hpost
  have hi2 : InvS s2 roots [] lin lazy live F := by
    unfold InvS
    rw [hpost.heap, hpost.free, hpost.base, hpost.limit]
    exact InvW.frame_free hi1 (Or.inl hbl) (fun a ha => hpost.frame a (by omega))
  have hheap2 : s2.heap = s.heap := by rw [hpost.heap, hheap1]
  -- step 3: acquire
  obtain ⟨s3, lin', lazy', live', F', hacq, hsame, hho, _, hi3, hbump⟩ :=
    acquire_spec hi2 (fun _ _ => by rw [hpost.limit, hlimit1]; exact hroom)
  rw [hheap2] at hacq hi3
  have hbase2 : s2.base = s.base := by rw [hpost.base, hbase1]
  -- step 4: the slots of the acquired block
  have hnb : ∀ k, 0 < k → k < 64 → s3.mem.get (s.heap + k) = s2.mem.get (s.heap + k) := by
    intro k hk hk'
    apply hho
    rw [hbase2]; exact not_isBlock_add hbb.1 hk hk'
  have hslots : ∀ x, x ≠ 0 → (ptrSlots s3.mem.get s.heap).count x =
      (ptrsOf vals).count x + (if pos = .other then [prev].count x else 0) := by
    intro x hx
    have hsl := hpost.slots x hx
    simp only [ptrSlots]
    rw [hnb 16 (by omega) (by omega), hnb 32 (by omega) (by omega), hnb 48 (by omega) (by omega)]
    cases pos with
    | last =>
      simp only [fieldsPerBlock, BlockPosition.toNat, slotsUpTo, fstOff, fieldOffset] at hsl
      simp at hsl ⊢
      rw [← hsl]
    | other =>
      have hl := hpost.link (by simp [fieldsPerBlock, BlockPosition.toNat])
      rw [hlink1 rfl] at hl
      simp only [fieldsPerBlock, BlockPosition.toNat, slotsUpTo, fstOff, fieldOffset] at hsl
      simp at hsl ⊢
      rw [← hsl, hl]
      simp [List.count_cons]
      omega
  -- step 5: adopt
  have hi3' : InvS s3 (ptrSlots s3.mem.get s.heap ++ rest') [s.heap] lin' lazy' live' F' := by
    refine InvW.roots_congr hi3 (fun x hx => ?_)
    rw [List.count_append, hslots x hx, hroots x hx]
  refine ⟨s1, s2, s3, lin', lazy', s.heap :: live', F', hs1, hs2, hacq,
    ⟨by rw [hsame.base, hbase2], by rw [hsame.limit, hpost.limit, hlimit1]⟩, InvW.adopt hi3', ?_⟩
  unfold Exhausted
  rcases hbump with ⟨h1, h2⟩ | ⟨h1, h2, h3, h4, h5, _⟩
  · exact Or.inl ⟨h1, h2⟩
  · exact Or.inr ⟨h1, ⟨h2, h3⟩, ⟨h4, h5⟩⟩

theorem ptrsOf_append (a b : List Field) : ptrsOf (a ++ b) = ptrsOf a ++ ptrsOf b := by
  induction a with
  | nil => rfl
  | cons f fs ih => cases f <;> simp [ptrsOf, ih]

theorem restLength_le (n : Nat) (pos : BlockPosition) : restLength n pos ≤ n := by
  unfold restLength; split <;> omega

theorem length_drop_restLength (n : Nat) (pos : BlockPosition) :
    n - restLength n pos ≤ fieldsPerBlock - pos.toNat := by
  unfold restLength; split <;> omega

/-- `store_fields` (C09-T1 storeObj: single blocks and chains, by induction on the number of
fields).  `roots` must contain the pointers being stored (and `prev`, the block acquired last, when
continuing a chain); they are replaced by the pointer to the new object. -/
theorem storeFields_spec : ∀ (n : Nat) {s : HState} {F : Nat} {roots lin lazy live : List Nat}
    (toStore : List Field) (pos : BlockPosition) (prev : Nat) (rest : List Nat),
    toStore.length ≤ n →
    InvS s roots [] lin lazy live F →
    (∀ x, x ≠ 0 → roots.count x =
      (ptrsOf toStore).count x + (if pos = .other then [prev].count x else 0) + rest.count x) →
    F + 64 * toStore.length + 64 ≤ s.limit →
    ∃ s' p lin' lazy' live' F', storeFields s toStore pos prev = .ok (s', p) ∧ SameHeap s s' ∧
      InvS s' (p :: rest) [] lin' lazy' live' F' ∧ F ≤ F' ∧ F' ≤ F + 64 * toStore.length ∧
      (Exhausted lin lazy → Exhausted lin' lazy') ∧ (F' = F ∨ Exhausted lin' lazy') := by
  intro n
  induction n with
  | zero =>
    intro s F roots lin lazy live toStore pos prev rest hn h hroots hroom
    have : toStore = [] := List.length_eq_zero_iff.mp (by omega)
    subst this
    rw [storeFields]
    simp only [↓reduceDIte]
    refine ⟨s, _, lin, lazy, live, F, rfl, SameHeap.refl s, ?_, Nat.le_refl _, by simp, id, Or.inl rfl⟩
    refine InvW.roots_congr h (fun x hx => ?_)
    rw [hroots x hx]
    cases pos <;> simp [ptrsOf, List.count_cons, posLast, Ne.symm hx] <;> omega
  | succ n ih =>
    intro s F roots lin lazy live toStore pos prev rest hn h hroots hroom
    by_cases hnil : toStore = []
    · subst hnil
      rw [storeFields]
      simp only [↓reduceDIte]
      refine ⟨s, _, lin, lazy, live, F, rfl, SameHeap.refl s, ?_, Nat.le_refl _, by simp, id, Or.inl rfl⟩
      refine InvW.roots_congr h (fun x hx => ?_)
      rw [hroots x hx]
      cases pos <;> simp [ptrsOf, List.count_cons, posLast, Ne.symm hx] <;> omega
    · have hpos : 0 < toStore.length := List.length_pos_iff.mpr hnil
      have hrl := restLength_lt toStore.length pos hpos
      have hsplit : toStore = toStore.take (restLength toStore.length pos) ++
          toStore.drop (restLength toStore.length pos) := (List.take_append_drop _ _).symm
      obtain ⟨s1, s2, s3, lin3, lazy3, live3, F3, hs1, hs2, hacq, hsame3, hi3, hbump⟩ :=
        storeBlock_spec h (toStore.drop (restLength toStore.length pos)) pos prev
          (ptrsOf (toStore.take (restLength toStore.length pos)) ++ rest)
          (by rw [List.length_drop]; exact length_drop_restLength _ _)
          (by
            intro x hx
            rw [hroots x hx, List.count_append]
            conv => lhs; rw [hsplit, ptrsOf_append, List.count_append]
            omega)
          (by omega)
      have hF3 : F ≤ F3 ∧ F3 ≤ F + 64 := by
        rcases hbump with ⟨h1, _⟩ | ⟨h1, _⟩ <;> omega
      obtain ⟨s', p, lin', lazy', live', F', hst, hsame', hi', hle1, hle2, hex, hdisj⟩ :=
        ih (s := s3) (toStore.take (restLength toStore.length pos)) .other s.heap rest
          (by rw [List.length_take]; omega) hi3
          (by
            intro x hx
            simp only [List.count_cons, List.count_append, List.count_nil, if_true]
            by_cases hxb : s.heap = x <;> simp [hxb] <;> omega)
          (by rw [hsame3.limit, List.length_take]; omega)
      refine ⟨s', p, lin', lazy', live', F', ?_, hsame3.trans hsame', hi', by omega, ?_, ?_, ?_⟩
      · rw [storeFields]
        simp only [hnil, ↓reduceDIte]
        rw [hs1]; simp only []
        rw [hs2]; simp only []
        rw [hacq]
        exact hst
      · rw [List.length_take] at hle2; omega
      · intro hP
        rcases hbump with ⟨_, h2⟩ | ⟨_, _, h3⟩
        · exact absurd hP h2
        · exact hex h3
      · rcases hbump with ⟨h1, _⟩ | ⟨_, _, h3⟩
        · rcases hdisj with hd | hd
          · exact Or.inl (by omega)
          · exact Or.inr hd
        · exact Or.inr (hex h3)

/-- `Memory::store` at a statement boundary. -/
theorem storeObj_spec {s : HState} {F : Nat} {roots lin lazy live : List Nat}
    (fields : List Field) (rest : List Nat)
    (h : InvS s roots [] lin lazy live F)
    (hroots : ∀ x, x ≠ 0 → roots.count x = (ptrsOf fields).count x + rest.count x)
    (hroom : F + 64 * fields.length + 64 ≤ s.limit) :
    ∃ s' p lin' lazy' live' F', storeObj s fields = .ok (s', p) ∧ SameHeap s s' ∧
      InvS s' (p :: rest) [] lin' lazy' live' F' ∧ F ≤ F' ∧ F' ≤ F + 64 * fields.length ∧
      (Exhausted lin lazy → Exhausted lin' lazy') ∧ (F' = F ∨ Exhausted lin' lazy') :=
  storeFields_spec fields.length fields .last 0 rest (Nat.le_refl _) h
    (fun x hx => by rw [hroots x hx]; simp) hroom

end Scc.Heap
