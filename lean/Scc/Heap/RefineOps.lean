/-
Scc.Heap.RefineOps — the heap refinement, one commuting lemma per abstract heap operation
(header operations): `share` ↔ `share_block_n`, `erase` ↔ `erase_block`.
The abstract erase frees the object and, recursively, its children at once; `erase_block` only
decrements the count or puts the head block on the lazy free list, its children stay alive at block
level until the block is reused (`acquire_block` case 2).  Both results are related by `HRef`.
-/
import Scc.Heap.RefineCount
import Scc.Backend.ProofsErase

set_option linter.unusedVariables false
set_option linter.unusedSimpArgs false

namespace Scc.Heap.Refine

open Scc.Heap
open Scc.Backend.Abs (Heap Obj Word)
open Scc.Backend.Sim2 Scc.Backend.Sim

/-! ## heads of chains -/

theorem blocksOf_head {m : Nat → Nat} {ι : Nat → Nat} {p : Nat} {fs : List AField} (O : ObjAt m ι p fs) :
    ∃ t, blocksOf m p fs = p :: t := by
  have hk : fs.map kindB ≠ [] := by simpa using O.ne
  have hl := peek_chain m _ (fs.map kindB) .last p (Nat.le_refl _)
  cases hb : blocksOf m p fs with
  | nil =>
    unfold blocksOf chainOf at hb
    exact absurd (hl.2.2.2.mp (by simpa using hb)) hk
  | cons x t =>
    have h1 := hl.1
    unfold blocksOf chainOf at hb
    rw [hb] at h1
    exact ⟨t, by rw [h1.1]⟩

theorem head_mem_blocksOf {m : Nat → Nat} {ι : Nat → Nat} {p : Nat} {fs : List AField} (O : ObjAt m ι p fs) :
    p ∈ blocksOf m p fs := by
  obtain ⟨t, e⟩ := blocksOf_head O
  rw [e]; simp

theorem head_not_mem_tail {m : Nat → Nat} {ι : Nat → Nat} {p : Nat} {fs : List AField} (O : ObjAt m ι p fs) :
    p ∉ (blocksOf m p fs).tail := by
  obtain ⟨t, e⟩ := blocksOf_head O
  have := O.nodup
  rw [e] at this ⊢
  exact (List.nodup_cons.mp this).1

/-- the head block of an object is no continuation block of any chain -/
theorem head_not_tail {h : Heap} {rs : List Nat} {next : Nat} {s : HState} {ι : Nat → Nat}
    (R : HRef h rs next s ι) {e e' : Nat × Obj} (he : e ∈ h) (he' : e' ∈ h) :
    ι e.1 ∉ (blocksOf s.mem.get (ι e'.1) e'.2.fields).tail := by
  by_cases hid : e.1 = e'.1
  · have hee : e = e' := by
      have h1 := heap_mem_get R.abs.nodup he
      have h2 := heap_mem_get R.abs.nodup he'
      rw [hid] at h1
      rw [h1] at h2
      injection h2 with h2
      exact Prod.ext hid h2
    subst hee
    exact head_not_mem_tail (R.shape e he)
  · intro hm
    have := R.disj e he e' he' hid (ι e.1) (head_mem_blocksOf (R.shape e he))
    exact this (List.mem_of_mem_tail hm)

/-- a word inside a block is not the header of a block -/
theorem inside_ne_block {base b p k : Nat} (hb : IsBlock base b) (hp : IsBlock base p) (h0 : 0 < k)
    (hk : k < 64) : b + k ≠ p := by
  unfold IsBlock at *
  omega

/-- the frame of an operation that writes at most the header of the head block `ι e0.1` -/
theorem frame_of_header_write {h h' : Heap} {rs : List Nat} {next : Nat} {s s' : HState} {ι : Nat → Nat}
    (R : HRef h rs next s ι) (hsub : Sub h' h) {e0 : Nat × Obj} (he0 : e0 ∈ h)
    (hf : ∀ a, a ≠ ι e0.1 → s'.mem.get a = s.mem.get a) :
    (∀ e ∈ h', ∀ b ∈ blocksOf s.mem.get (ι e.1) e.2.fields, ∀ k, 0 < k → k < 64 →
      s'.mem.get (b + k) = s.mem.get (b + k)) ∧
    (∀ e ∈ h', ∀ b ∈ (blocksOf s.mem.get (ι e.1) e.2.fields).tail, s'.mem.get b = s.mem.get b) := by
  obtain ⟨lin, lazy, live, F, I⟩ := R.conc
  have hlive : ∀ e ∈ h, ∀ b ∈ blocksOf s.mem.get (ι e.1) e.2.fields, b ∈ live :=
    fun e he => chains_live I R.abs R.ord R.shape _ e he (Nat.le_refl _)
  have hp : IsBlock s.base (ι e0.1) :=
    (I.live_block (hlive e0 he0 _ (head_mem_blocksOf (R.shape e0 he0)))).1
  constructor
  · intro e' he' b hb k h0 hk
    obtain ⟨e, he, h1, h2⟩ := hsub e' he'
    rw [← h1, ← h2] at hb
    exact hf _ (inside_ne_block (I.live_block (hlive e he b hb)).1 hp h0 hk)
  · intro e' he' b hb
    obtain ⟨e, he, h1, h2⟩ := hsub e' he'
    rw [← h1, ← h2] at hb
    apply hf
    intro eq
    rw [eq] at hb
    exact head_not_tail R he0 he hb

/-! ## `share` -/

theorem sub_set {h : Heap} {id : Nat} {o : Obj} (hg : h.get id = some o) (c : Nat) :
    Sub (h.set id { o with count := c }) h := by
  intro e' he'
  unfold Heap.set at he'
  simp only [List.mem_cons] at he'
  rcases he' with rfl | he'
  · exact ⟨(id, o), heap_get_mem hg, rfl, rfl⟩
  · exact ⟨e', (mem_remove.mp he').1, rfl, rfl⟩

theorem sub_remove (h : Heap) (id : Nat) : Sub (h.remove id) h :=
  fun e' he' => ⟨e', (mem_remove.mp he').1, rfl, rfl⟩

theorem map_flatten_replicate_singleton (ι : Nat → Nat) (x : Nat) : ∀ (k : Nat),
    ((List.replicate k [x]).flatten).map ι = List.replicate k (ι x)
  | 0 => rfl
  | k + 1 => by
    simp only [List.replicate_succ, List.flatten_cons, List.map_append, List.map_cons, List.map_nil,
      List.singleton_append, map_flatten_replicate_singleton ι x k]

/-- `share` ↔ `share_block_n` -/
theorem href_share {h : Heap} {rs : List Nat} {next : Nat} {s : HState} {ι : Nat → Nat}
    (R : HRef h rs next s ι) (ref : Word) (k : Nat) (hmem : ref ≠ 0 → ref.toNat ∈ rs) :
    ∃ h' s', h.share ref k = .ok h' ∧ shareBlock s (imgW ι ref) k = .ok s' ∧
      HRef h' (rs ++ (List.replicate k (if ref != 0 then [ref.toNat] else [])).flatten) next s' ι := by
  obtain ⟨h', hs, A', _⟩ := share_heapOK ref k hmem R.abs
  by_cases hr : ref = 0
  · subst hr
    have hh : h' = h := by simp [Heap.share] at hs; exact hs.symm
    subst hh
    have e0 : ((0 : Word) != 0) = false := by simp
    refine ⟨h', s, hs, by simp [imgW, shareBlock], ?_⟩
    simp only [e0, Bool.false_eq_true, if_false, flatten_replicate_nil, List.append_nil]
    exact R
  · have h1 : (ref != 0) = true := by rw [bne_iff_ne]; exact hr
    have h2 : (ref == 0) = false := by rw [beq_eq_false_iff_ne]; exact hr
    have hm := hmem hr
    obtain ⟨lin, lazy, live, F, I⟩ := R.conc
    have himg : imgW ι ref = ι ref.toNat := by unfold imgW; rw [if_neg hr]
    have hlive : (h.get ref.toNat).isSome := by
      apply R.abs.live
      have : 0 < rs.count ref.toNat := List.count_pos_iff.mpr hm
      simp only [refCount_eq]; omega
    cases hg : h.get ref.toNat with
    | none => simp [hg] at hlive
    | some o =>
      have he0 : (ref.toNat, o) ∈ h := heap_get_mem hg
      have hh' : h' = h.set ref.toNat { o with count := o.count + k } := by
        simp only [Heap.share, h2, Bool.false_eq_true, if_false, hg] at hs
        injection hs with hs; exact hs.symm
      have hp : ι ref.toNat = 0 ∨ ι ref.toNat ∈ live :=
        I.roots_live _ (List.mem_map.2 ⟨ref.toNat, hm, rfl⟩)
      obtain ⟨s', hsb, _, _, _, _, I'⟩ := shareBlock_spec (p := ι ref.toNat) (n := k) I hp
      refine ⟨h', s', hs, by rw [himg]; exact hsb, ?_⟩
      simp only [h1, if_true] at A' ⊢
      have hsub : Sub h' h := by rw [hh']; exact sub_set hg _
      obtain ⟨hw, hhd⟩ := frame_of_header_write R hsub he0 (shareBlock_frame hsb)
      refine R.transfer hsub A' ⟨lin, lazy, live, F, ?_⟩ hw hhd
      refine InvW.roots_perm I' ?_
      rw [List.map_append, map_flatten_replicate_singleton]
      exact List.perm_append_comm

/-! ## `erase` -/

theorem eraseLoop_sub : ∀ (fuel : Nat) (work : List Nat) (h h' : Heap),
    Heap.eraseLoop fuel work h = .ok h' → Sub h' h
  | 0, [], h, h', e => by simp [Heap.eraseLoop] at e; subst e; exact Sub.refl h
  | 0, _ :: _, h, h', e => by simp [Heap.eraseLoop] at e
  | fuel + 1, [], h, h', e => by simp [Heap.eraseLoop] at e; subst e; exact Sub.refl h
  | fuel + 1, id :: work, h, h', e => by
    simp only [Heap.eraseLoop] at e
    cases hg : h.get id with
    | none => simp [hg] at e
    | some o =>
      simp only [hg] at e
      by_cases hc : o.count > 0
      · rw [if_pos hc] at e
        exact (eraseLoop_sub fuel work _ h' e).trans (sub_set hg _)
      · rw [if_neg hc] at e
        exact (eraseLoop_sub fuel _ _ h' e).trans (sub_remove h id)

/-- `erase` ↔ `erase_block`: the abstract machine frees the object and its children at once, the
emitted code decrements the count or defers the block -/
theorem href_erase {h : Heap} {rs : List Nat} {next : Nat} {s : HState} {ι : Nat → Nat} (ref : Word)
    (R : HRef h (rs ++ (if ref != 0 then [ref.toNat] else [])) next s ι) :
    ∃ h' s', h.erase ref = .ok h' ∧ eraseBlock s (imgW ι ref) = .ok s' ∧ HRef h' rs next s' ι := by
  obtain ⟨h', he, A', _⟩ := erase_ok (P := Scc.Backend.Abs.Program.ofOps []) (hooks := false) (types := [])
    ref R.abs
  by_cases hr : ref = 0
  · subst hr
    have hh : h' = h := by simp [Heap.erase] at he; exact he.symm
    subst hh
    have e0 : ((0 : Word) != 0) = false := by simp
    refine ⟨h', s, he, by simp [imgW, eraseBlock], ?_⟩
    have R' := R
    simp only [e0, Bool.false_eq_true, if_false, List.append_nil] at R'
    exact R'
  · have h1 : (ref != 0) = true := by rw [bne_iff_ne]; exact hr
    have h2 : (ref == 0) = false := by rw [beq_eq_false_iff_ne]; exact hr
    have R' := R
    simp only [h1, if_true] at R'
    obtain ⟨lin, lazy, live, F, I⟩ := R'.conc
    have himg : imgW ι ref = ι ref.toNat := by unfold imgW; rw [if_neg hr]
    have hlive : (h.get ref.toNat).isSome := by
      apply R'.abs.live
      simp only [refCount_eq, List.count_append, List.count_cons_self]; omega
    cases hg : h.get ref.toNat with
    | none => simp [hg] at hlive
    | some o =>
      have he0 : (ref.toNat, o) ∈ h := heap_get_mem hg
      have I0 : InvS s (ι ref.toNat :: rs.map ι) [] lin lazy live F := by
        refine InvW.roots_perm I ?_
        rw [List.map_append]
        exact (List.perm_append_comm (l₁ := rs.map ι) (l₂ := [ι ref.toNat])).symm
      obtain ⟨s', lazy', live', hsb, _, _, _, I', _⟩ := eraseBlock_spec I0
      refine ⟨h', s', he, by rw [himg]; exact hsb, ?_⟩
      have hsub : Sub h' h := by
        simp only [Heap.erase, h2, Bool.false_eq_true, if_false] at he
        exact eraseLoop_sub _ _ _ _ he
      obtain ⟨hw, hhd⟩ := frame_of_header_write R' hsub he0 (eraseBlock_frame hsb)
      exact R'.transfer hsub A' ⟨lin, lazy', live', F, I'⟩ hw hhd

end Scc.Heap.Refine
