/-
Scc.Heap.ProofsCheckDfs — the depth-first traversal `reachLoop` of the executable invariant checker
(Scc/Heap/Model.lean `invCheckFn`) is COMPLETE on states that satisfy the invariant: started with the roots
and the pointer slots of the deferred blocks it does not fail, does not run out of fuel, and returns a
duplicate-free list of exactly the live blocks, in reverse post-order — which is topologically sorted
(`TopoSorted`), because the live blocks have no cycle (invariant (vi)).

The traversal is analysed against a RANK on the live blocks (the position in the topological order that
invariant (vi) provides): every pointer slot of a live block is null or a live block of larger rank.  The
blocks whose `finish` item is on the work stack ("gray") form a chain of decreasing rank from the top of
the stack down, and every pending `visit` has a larger rank than the gray blocks below it: so a block that
is met again is already finished (no back edge).
-/
import Scc.Heap.ProofsCheck

set_option linter.unusedVariables false
set_option linter.unusedSimpArgs false

namespace Scc.Heap

/-! ## ranks -/

/-- in a duplicate-free topologically sorted list, pointer slots point to LATER elements -/
theorem topo_rank {m : Nat → Nat} : ∀ (ord : List Nat), ord.Nodup → TopoSorted m ord →
    ∀ b ∈ ord, ∀ q ∈ ptrSlots m b, q ≠ 0 → q ∈ ord ∧ ord.idxOf b < ord.idxOf q
  | [], _, _, b, hb, _, _, _ => by simp at hb
  | a :: rest, hnd, ht, b, hb, q, hq, hq0 => by
    rw [List.nodup_cons] at hnd
    obtain ⟨hfirst, hrest⟩ := ht
    rcases List.mem_cons.1 hb with rfl | hb'
    · rcases hfirst q hq with h0 | hmem
      · exact absurd h0 hq0
      · have hne : b ≠ q := fun e => hnd.1 (e ▸ hmem)
        refine ⟨List.mem_cons_of_mem _ hmem, ?_⟩
        rw [List.idxOf_cons, List.idxOf_cons]
        have : (b == q) = false := by simpa using hne
        simp [this]
    · obtain ⟨h1, h2⟩ := topo_rank rest hnd.2 hrest b hb' q hq hq0
      have hab : a ≠ b := fun e => hnd.1 (e ▸ hb')
      have haq : a ≠ q := fun e => hnd.1 (e ▸ h1)
      refine ⟨List.mem_cons_of_mem _ h1, ?_⟩
      rw [List.idxOf_cons, List.idxOf_cons]
      have e1 : (a == b) = false := by simpa using hab
      have e2 : (a == q) = false := by simpa using haq
      simp only [e1, e2, cond_false]
      omega

/-! ## the work stack -/

def Work.ptr : Work → Nat
  | .visit p => p
  | .finish p => p

/-- the blocks whose `finish` item is on the stack -/
def grays : List Work → List Nat
  | [] => []
  | .visit _ :: rest => grays rest
  | .finish p :: rest => p :: grays rest

theorem mem_grays : ∀ {stack : List Work} {p : Nat}, p ∈ grays stack ↔ Work.finish p ∈ stack
  | [], p => by simp [grays]
  | .visit q :: rest, p => by
    simp only [grays, List.mem_cons]
    rw [mem_grays]
    constructor
    · exact Or.inr
    · rintro (h | h)
      · cases h
      · exact h
  | .finish q :: rest, p => by
    simp only [grays, List.mem_cons]
    rw [mem_grays]
    constructor
    · rintro (h | h)
      · exact Or.inl (by rw [h])
      · exact Or.inr h
    · rintro (h | h)
      · injection h with h; exact Or.inl h
      · exact Or.inr h

theorem grays_visits (l : List Nat) (rest : List Work) : grays (l.map Work.visit ++ rest) = grays rest := by
  induction l with
  | nil => rfl
  | cons a l ih => simpa [grays] using ih

theorem grays_length_le : ∀ (stack : List Work), (grays stack).length ≤ stack.length
  | [] => Nat.le_refl _
  | .visit _ :: rest => by simp only [grays, List.length_cons]; have := grays_length_le rest; omega
  | .finish _ :: rest => by simp only [grays, List.length_cons]; have := grays_length_le rest; omega

/-- a duplicate-free list inside another list is not longer -/
theorem nodup_subset_length_le : ∀ (l l' : List Nat), l.Nodup → (∀ x ∈ l, x ∈ l') → l.length ≤ l'.length
  | [], _, _, _ => Nat.zero_le _
  | a :: l, l', hnd, hsub => by
    rw [List.nodup_cons] at hnd
    have ha : a ∈ l' := hsub a (by simp)
    have := nodup_subset_length_le l (l'.erase a) hnd.2 (by
      intro x hx
      have hx' : x ∈ l' := hsub x (by simp [hx])
      have hne : x ≠ a := fun e => hnd.1 (e ▸ hx)
      exact (List.mem_erase_of_ne hne).2 hx')
    rw [List.length_erase_of_mem ha] at this
    have hpos : 0 < l'.length := List.length_pos_of_mem ha
    simp only [List.length_cons]
    omega

theorem pairwise_of_all {α : Type} {R : α → α → Prop} : ∀ (l : List α), (∀ a b, R a b) → l.Pairwise R
  | [], _ => List.Pairwise.nil
  | a :: l, h => List.Pairwise.cons (fun b _ => h a b) (pairwise_of_all l h)

section Dfs

variable {m : Nat → Nat} {base F : Nat} {live ord : List Nat} (R0 : List Nat)
  (hord : ord.Perm live) (hnd : live.Nodup) (htopo : TopoSorted m ord)
  (hblk : ∀ b ∈ live, IsBlock base b ∧ b < F)
  (hclosed : ∀ b ∈ live, ∀ q ∈ ptrSlots m b, q = 0 ∨ q ∈ live)

/-- the rank of a block -/
def rk (ord : List Nat) (b : Nat) : Nat := ord.idxOf b

include hord hnd htopo hclosed in
theorem edge_rank {b q : Nat} (hb : b ∈ live) (hq : q ∈ ptrSlots m b) (hq0 : q ≠ 0) :
    q ∈ live ∧ rk ord b < rk ord q := by
  have hndo : ord.Nodup := hord.nodup_iff.2 hnd
  obtain ⟨h1, h2⟩ := topo_rank ord hndo htopo b (hord.mem_iff.2 hb) q hq hq0
  exact ⟨hord.mem_iff.1 h1, h2⟩

/-- THE INVARIANT OF THE TRAVERSAL -/
structure DfsInv (stack : List Work) (seen : Std.HashSet Nat) (acc : List Nat) : Prop where
  /-- pending pointers are null or live -/
  items : ∀ w ∈ stack, w.ptr = 0 ∨ w.ptr ∈ live
  /-- every item has a larger rank than the gray blocks below it -/
  ranks : stack.Pairwise (fun x y => ∀ p', y = .finish p' → x.ptr = 0 ∨ rk ord p' < rk ord x.ptr)
  /-- seen = finished + gray -/
  seen_iff : ∀ x, seen.contains x = true ↔ x ∈ acc ++ grays stack
  nd : (acc ++ grays stack).Nodup
  sub : ∀ x ∈ acc ++ grays stack, x ∈ live
  /-- what is still owed for a gray block: each of its slots is null, finished, or above it on the stack -/
  oblig : ∀ above p below, stack = above ++ .finish p :: below → ∀ q ∈ ptrSlots m p,
    q = 0 ∨ q ∈ acc ∨ .visit q ∈ above ∨ .finish q ∈ above
  topo : TopoSorted m acc
  /-- the initial pointers are null, seen or pending -/
  roots : ∀ r ∈ R0, r = 0 ∨ r ∈ acc ∨ .finish r ∈ stack ∨ .visit r ∈ stack

/-- the result of the traversal -/
structure DfsResult (acc : List Nat) : Prop where
  nd : acc.Nodup
  sub : ∀ x ∈ acc, x ∈ live
  topo : TopoSorted m acc
  roots : ∀ r ∈ R0, r = 0 ∨ r ∈ acc

def measure (live : List Nat) (stack : List Work) (acc : List Nat) : Nat :=
  stack.length + 4 * (live.length - (acc.length + (grays stack).length))

include hord hnd htopo hblk hclosed in
theorem reachLoop_complete : ∀ (fuel : Nat) (stack : List Work) (seen : Std.HashSet Nat) (acc : List Nat),
    DfsInv (m := m) (live := live) (ord := ord) R0 stack seen acc → measure live stack acc < fuel →
    ∃ acc', reachLoop m base F fuel stack seen acc = .ok acc' ∧ DfsResult (m := m) (live := live) R0 acc'
  | 0, _, _, _, _, h => absurd h (Nat.not_lt_zero _)
  | fuel + 1, [], seen, acc, I, _ => by
    refine ⟨acc, by simp [reachLoop], ?_, ?_, I.topo, ?_⟩
    · have := I.nd; simpa [grays] using this
    · intro x hx; exact I.sub x (by simp [hx])
    · intro r hr
      rcases I.roots r hr with h | h | h | h
      · exact Or.inl h
      · exact Or.inr h
      · simp at h
      · simp at h
  | fuel + 1, .finish p :: rest, seen, acc, I, hm => by
    simp only [reachLoop]
    have hslots : ∀ q ∈ ptrSlots m p, q = 0 ∨ q ∈ acc := by
      intro q hq
      rcases I.oblig [] p rest rfl q hq with h | h | h | h
      · exact Or.inl h
      · exact Or.inr h
      · simp at h
      · simp at h
    have hnd' := I.nd
    simp only [grays] at hnd'
    have hpacc : p ∉ acc := by
      intro hp
      have := (List.nodup_append.1 hnd').2.2 p hp p (by simp)
      exact this rfl
    have hperm : ((p :: acc) ++ grays rest).Perm (acc ++ p :: grays rest) := by
      simp only [List.cons_append]
      exact List.perm_middle.symm
    apply reachLoop_complete fuel rest seen (p :: acc)
    · refine ⟨fun w hw => I.items w (by simp [hw]), (List.pairwise_cons.1 I.ranks).2, ?_,
        hperm.nodup_iff.2 hnd', ?_, ?_, ⟨hslots, I.topo⟩, ?_⟩
      · intro x
        rw [I.seen_iff x]
        simp only [grays]
        exact (hperm.mem_iff).symm
      · intro x hx
        exact I.sub x (by simp only [grays]; exact hperm.mem_iff.1 hx)
      · intro above p' below e q hq
        rcases I.oblig (.finish p :: above) p' below (by rw [e]; rfl) q hq with h | h | h | h
        · exact Or.inl h
        · exact Or.inr (Or.inl (List.mem_cons_of_mem _ h))
        · rcases List.mem_cons.1 h with h | h
          · cases h
          · exact Or.inr (Or.inr (Or.inl h))
        · rcases List.mem_cons.1 h with h | h
          · injection h with h
            exact Or.inr (Or.inl (by rw [h]; simp))
          · exact Or.inr (Or.inr (Or.inr h))
      · intro r hr
        rcases I.roots r hr with h | h | h | h
        · exact Or.inl h
        · exact Or.inr (Or.inl (List.mem_cons_of_mem _ h))
        · rcases List.mem_cons.1 h with h | h
          · injection h with h
            exact Or.inr (Or.inl (by rw [h]; simp))
          · exact Or.inr (Or.inr (Or.inl h))
        · rcases List.mem_cons.1 h with h | h
          · cases h
          · exact Or.inr (Or.inr (Or.inr h))
    · unfold measure at hm ⊢
      simp only [grays, List.length_cons] at hm ⊢
      omega
  | fuel + 1, .visit q :: rest, seen, acc, I, hm => by
    simp only [reachLoop]
    -- dropping the visit item keeps the invariant whenever `q` is null or finished
    have drop : (q = 0 ∨ q ∈ acc) →
        DfsInv (m := m) (live := live) (ord := ord) R0 rest seen acc := by
      intro hq
      refine ⟨fun w hw => I.items w (by simp [hw]), (List.pairwise_cons.1 I.ranks).2, ?_, ?_, ?_, ?_,
        I.topo, ?_⟩
      · intro x; rw [I.seen_iff x]; simp only [grays]
      · have := I.nd; simpa only [grays] using this
      · intro x hx; exact I.sub x (by simpa only [grays] using hx)
      · intro above p' below e s hs
        rcases I.oblig (.visit q :: above) p' below (by rw [e]; rfl) s hs with h | h | h | h
        · exact Or.inl h
        · exact Or.inr (Or.inl h)
        · rcases List.mem_cons.1 h with h | h
          · injection h with h
            subst h
            rcases hq with h0 | hacc
            · exact Or.inl h0
            · exact Or.inr (Or.inl hacc)
          · exact Or.inr (Or.inr (Or.inl h))
        · rcases List.mem_cons.1 h with h | h
          · cases h
          · exact Or.inr (Or.inr (Or.inr h))
      · intro r hr
        rcases I.roots r hr with h | h | h | h
        · exact Or.inl h
        · exact Or.inr (Or.inl h)
        · rcases List.mem_cons.1 h with h | h
          · cases h
          · exact Or.inr (Or.inr (Or.inl h))
        · rcases List.mem_cons.1 h with h | h
          · injection h with h
            subst h
            rcases hq with h0 | hacc
            · exact Or.inl h0
            · exact Or.inr (Or.inl hacc)
          · exact Or.inr (Or.inr (Or.inr h))
    have hmdrop : measure live rest acc < fuel := by
      unfold measure at hm ⊢
      simp only [grays, List.length_cons] at hm ⊢
      omega
    by_cases hq0 : q = 0
    · rw [if_pos hq0]
      exact reachLoop_complete fuel rest seen acc (drop (Or.inl hq0)) hmdrop
    · rw [if_neg hq0]
      have hqlive : q ∈ live := by
        rcases I.items (.visit q) (by simp) with h | h
        · exact absurd h hq0
        · exact h
      by_cases hseen : seen.contains q = true
      · rw [if_pos hseen]
        -- `q` is finished: it cannot be gray (ranks)
        have hqacc : q ∈ acc := by
          rcases List.mem_append.1 ((I.seen_iff q).1 hseen) with h | h
          · exact h
          · exfalso
            simp only [grays] at h
            have hfin : Work.finish q ∈ rest := mem_grays.1 h
            have := (List.pairwise_cons.1 I.ranks).1 (.finish q) hfin q rfl
            rcases this with h0 | hlt
            · exact hq0 h0
            · exact Nat.lt_irrefl _ hlt
        exact reachLoop_complete fuel rest seen acc (drop (Or.inr hqacc)) hmdrop
      · rw [if_neg hseen]
        have hb := hblk q hqlive
        have hcond : (!(isBlockB base q) || decide (F ≤ q)) = false := by
          have h1 : isBlockB base q = true := isBlockB_iff.2 hb.1
          have h2 : decide (F ≤ q) = false := by
            rw [decide_eq_false_iff_not]; omega
          rw [h1, h2]; rfl
        rw [hcond]
        simp only [Bool.false_eq_true, if_false]
        have hqnot : q ∉ acc ++ grays rest := by
          intro h
          apply hseen
          rw [I.seen_iff q]
          simpa only [grays] using h
        have hgr : grays ((ptrSlots m q).map Work.visit ++ Work.finish q :: rest) = q :: grays rest := by
          rw [grays_visits]; rfl
        have hndI : (acc ++ grays rest).Nodup := by have := I.nd; simpa only [grays] using this
        have hnd2 : (acc ++ q :: grays rest).Nodup := by
          have hp : (acc ++ q :: grays rest).Perm (q :: (acc ++ grays rest)) := List.perm_middle
          rw [hp.nodup_iff, List.nodup_cons]
          exact ⟨hqnot, hndI⟩
        have hsubI : ∀ x ∈ acc ++ grays rest, x ∈ live := by
          intro x hx; exact I.sub x (by simpa only [grays] using hx)
        apply reachLoop_complete fuel _ (seen.insert q) acc
        · refine ⟨?_, ?_, ?_, by rw [hgr]; exact hnd2, ?_, ?_, I.topo, ?_⟩
          · -- items
            intro w hw
            rcases List.mem_append.1 hw with h | h
            · obtain ⟨s, hs, rfl⟩ := List.mem_map.1 h
              rcases hclosed q hqlive s hs with h0 | hl
              · exact Or.inl h0
              · exact Or.inr hl
            · rcases List.mem_cons.1 h with rfl | h
              · exact Or.inr hqlive
              · exact I.items w (by simp [h])
          · -- ranks
            have hrest := List.pairwise_cons.1 I.ranks
            rw [List.pairwise_append]
            refine ⟨?_, ?_, ?_⟩
            · -- among the visits: nothing to show
              rw [List.pairwise_map]
              exact pairwise_of_all _ (fun _ _ p' e => by cases e)
            · rw [List.pairwise_cons]
              refine ⟨?_, hrest.2⟩
              intro y hy p' e
              subst e
              rcases hrest.1 (.finish p') hy p' rfl with h0 | hlt
              · exact absurd h0 hq0
              · exact Or.inr hlt
            · intro x hx y hy p' e
              subst e
              obtain ⟨s, hs, rfl⟩ := List.mem_map.1 hx
              by_cases hs0 : s = 0
              · exact Or.inl hs0
              · right
                have hedge := (edge_rank hord hnd htopo hclosed hqlive hs hs0).2
                rcases List.mem_cons.1 hy with h | h
                · injection h with h
                  subst h
                  exact hedge
                · rcases hrest.1 (.finish p') h p' rfl with h0 | hlt
                  · exact absurd h0 hq0
                  · exact Nat.lt_trans hlt hedge
          · -- seen
            intro x
            rw [Std.HashSet.contains_insert, hgr]
            simp only [Bool.or_eq_true, beq_iff_eq, List.mem_append, List.mem_cons]
            rw [I.seen_iff x]
            simp only [grays, List.mem_append]
            constructor
            · rintro (h | h | h)
              · exact Or.inr (Or.inl h.symm)
              · exact Or.inl h
              · exact Or.inr (Or.inr h)
            · rintro (h | h | h)
              · exact Or.inr (Or.inl h)
              · exact Or.inl h.symm
              · exact Or.inr (Or.inr h)
          · rw [hgr]
            intro x hx
            rcases List.mem_append.1 hx with h | h
            · exact hsubI x (List.mem_append_left _ h)
            · rcases List.mem_cons.1 h with rfl | h
              · exact hqlive
              · exact hsubI x (List.mem_append_right _ h)
          · -- obligations
            intro above p' below e s hs
            have old : ∀ a'', rest = a'' ++ Work.finish p' :: below →
                s = 0 ∨ s ∈ acc ∨ Work.visit s ∈ (ptrSlots m q).map Work.visit ++ Work.finish q :: a'' ∨
                  Work.finish s ∈ (ptrSlots m q).map Work.visit ++ Work.finish q :: a'' := by
              intro a'' e'
              rcases I.oblig (.visit q :: a'') p' below (by rw [e']; rfl) s hs with h | h | h | h
              · exact Or.inl h
              · exact Or.inr (Or.inl h)
              · rcases List.mem_cons.1 h with h | h
                · injection h with h
                  subst h
                  exact Or.inr (Or.inr (Or.inr (by simp)))
                · exact Or.inr (Or.inr (Or.inl (by simp [h])))
              · rcases List.mem_cons.1 h with h | h
                · cases h
                · exact Or.inr (Or.inr (Or.inr (by simp [h])))
            rcases List.append_eq_append_iff.1 e with ⟨a', ha, hb'⟩ | ⟨c', hc, hd⟩
            · cases a' with
              | nil =>
                simp only [List.nil_append] at hb'
                injection hb' with h1 h2
                injection h1 with h1
                subst h1
                rw [ha]
                exact Or.inr (Or.inr (Or.inl (by simp only [List.append_nil]; exact List.mem_map.2 ⟨s, hs, rfl⟩)))
              | cons x a'' =>
                simp only [List.cons_append] at hb'
                injection hb' with h1 h2
                subst h1
                rw [ha]
                exact old a'' h2
            · cases c' with
              | nil =>
                simp only [List.nil_append] at hd
                injection hd with h1 h2
                injection h1 with h1
                subst h1
                simp only [List.append_nil] at hc
                rw [← hc]
                exact Or.inr (Or.inr (Or.inl (List.mem_map.2 ⟨s, hs, rfl⟩)))
              | cons x c'' =>
                exfalso
                simp only [List.cons_append] at hd
                injection hd with h1 h2
                have hmem : Work.finish p' ∈ (ptrSlots m q).map Work.visit := by
                  rw [hc, ← h1]; simp
                obtain ⟨z, _, hz⟩ := List.mem_map.1 hmem
                cases hz
          · intro r hr
            rcases I.roots r hr with h | h | h | h
            · exact Or.inl h
            · exact Or.inr (Or.inl h)
            · rcases List.mem_cons.1 h with h | h
              · cases h
              · exact Or.inr (Or.inr (Or.inl (by simp [h])))
            · rcases List.mem_cons.1 h with h | h
              · injection h with h
                subst h
                exact Or.inr (Or.inr (Or.inl (by simp)))
              · exact Or.inr (Or.inr (Or.inr (by simp [h])))
        · -- the measure
          have hle : (acc ++ q :: grays rest).length ≤ live.length :=
            nodup_subset_length_le _ _ hnd2 (by
              intro x hx
              rcases List.mem_append.1 hx with h | h
              · exact hsubI x (List.mem_append_left _ h)
              · rcases List.mem_cons.1 h with rfl | h
                · exact hqlive
                · exact hsubI x (List.mem_append_right _ h))
          unfold measure at hm ⊢
          rw [hgr]
          simp only [grays, List.length_cons, List.length_append, List.length_map] at hm hle ⊢
          have h3 : (ptrSlots m q).length = 3 := rfl
          omega

end Dfs

end Scc.Heap
