/-
Scc.Heap.Model — executable model of the reference-counting heap operations that the compiler's
backends emit (properties C09, C10).

Modelled source (transcribed function by function, same order of reads and writes):
  /repo/lang/axcut2x86_64/src/memory.rs      skip_if_zero, if_zero_then_else, acquire_block (with
      erase_fields), release_block, store_zero(s), store_field, load_field, store_value, load_value,
      store_values, load_values, store_fields, load_fields, erase_block, share_block_n, store, load
  /repo/lang/axcut2x86_64/src/config.rs      FIELDS_PER_BLOCK = 3, field_offset(number, i) =
      8 * (2 + 2 i + number), REFERENCE_COUNT_OFFSET = NEXT_ELEMENT_OFFSET = 0, block = 64 bytes
  /repo/lang/axcut2x86_64/src/into_routine.rs  setup: HEAP := heap base; FREE := HEAP + 64
  /repo/lang/axcut2aarch64/src/memory.rs, /repo/lang/axcut2rv64/src/memory.rs: same algorithm.
How statements use the operations: axcut2backend/src/statements/{let,create}.rs (`store`),
utils.rs code_clause/code_method (`load`), substitution.rs code_weakening_contraction
(`erase_block` for 0 copies, `share_block_n (k-1)` for k > 1 copies, before the moves).

Design choices
* Addresses and machine words are `Nat` (unbounded).  Reference counts and addresses never come
  near 2^64 in the situations the theorems talk about; wrap-around of `add qword [p], n` is NOT
  modelled (a count would have to exceed 2^64 - 1).  The decrement `add qword [p], -1` is only ever
  executed on a non-zero word, where it equals `c - 1` on `Nat`.
* Memory is a finite map from byte addresses (of 8-byte words) to words with default 0 (the heap is
  zero-filled at start).  Representation: `Std.HashMap Nat Nat` wrapped in `Mem` and accessed ONLY
  through `Mem.get` / `Mem.set`; the two lemmas `Mem.get_set` and `Mem.get_empty` at the end of this
  section are everything the proofs ever use about the representation, so all theorems are about the
  function `s.mem.get : Nat → Nat`.  Execution is fast (destructive updates when used linearly),
  proofs never see the hash map.  The invariant checker takes a plain lookup function `Nat → Nat`,
  so it can also be run on the memory of an emulated machine.
* Every operation returns `Except Fault _`.  A fault is raised for an access outside
  `[base, limit)` or not 8-byte aligned relative to `base` (the real code has no such checks; there
  the behaviour is undefined / a segfault), and at the history level for a reference to a root that
  is not held.
* Scratch registers, spill slots and the choice Register/Spill of a temporary do not change the
  sequence of heap accesses (checked by reading memory.rs: the Spill variants go through TEMP /
  TEMPORARY_TEMP but access the same heap words in the same order), so they are not modelled here.
-/
import Std.Data.HashMap
import Std.Data.HashSet

namespace Scc.Heap

/-! ## Memory -/

/-- Word memory: byte address of a word ↦ word, default 0. -/
structure Mem where
  map : Std.HashMap Nat Nat

namespace Mem
def empty : Mem := ⟨∅⟩
def get (m : Mem) (a : Nat) : Nat := m.map.getD a 0
def set (m : Mem) (a v : Nat) : Mem := ⟨m.map.insert a v⟩

theorem get_set (m : Mem) (a v b : Nat) : (m.set a v).get b = if a = b then v else m.get b := by
  simp [get, set, Std.HashMap.getD_insert]

@[simp] theorem get_empty (b : Nat) : empty.get b = 0 := by
  simp [get, empty]
end Mem

/-! ## Configuration (config.rs) -/

/-- config.rs: FIELDS_PER_BLOCK -/
def fieldsPerBlock : Nat := 3
/-- config.rs: size of a block in bytes = field_offset(Fst, FIELDS_PER_BLOCK) -/
def blockSize : Nat := 64
/-- config.rs: fn field_offset; `number` = 0 for `Fst` (pointer slot), 1 for `Snd` (value slot). -/
def fieldOffset (number i : Nat) : Nat := 8 * (2 + 2 * i + number)
/-- Offset of the pointer slot of field `i`. -/
def fstOff (i : Nat) : Nat := fieldOffset 0 i
/-- Offset of the value slot of field `i`. -/
def sndOff (i : Nat) : Nat := fieldOffset 1 i

/-! ## State and primitive accesses -/

inductive Fault where
  | outOfHeap (a : Nat)      -- access outside [base, limit)
  | unaligned (a : Nat)      -- address not 8-byte aligned relative to the heap base
  | rootNotHeld (r : Nat)    -- history level: an op mentions a root that is not held
  | badIndex (i : Nat)       -- line protocol: root index out of range / used twice
  | arity                    -- more values than fields in a block (generator-side panic in Rust)
  deriving Repr, DecidableEq, Inhabited

structure HState where
  mem   : Mem
  heap  : Nat    -- register HEAP: head of the linear (immediately reusable) free list
  free  : Nat    -- register FREE: head of the lazy (deferred) free list
  base  : Nat    -- heap base (argument 0 of the routine)
  limit : Nat    -- one past the last heap byte

/-- into_routine.rs: fn setup (heap part).  Zero-filled heap of `limit - base` bytes. -/
def init (base limit : Nat) : HState :=
  { mem := Mem.empty, heap := base, free := base + blockSize, base := base, limit := limit }

/-- Is `a` the address of an 8-byte word inside the heap? -/
def HState.okAddr (s : HState) (a : Nat) : Bool :=
  decide (s.base ≤ a) && decide (a + 8 ≤ s.limit) && decide ((a - s.base) % 8 = 0)

/-- One 8-byte load. -/
def rd (s : HState) (a : Nat) : Except Fault Nat :=
  if s.base ≤ a ∧ a + 8 ≤ s.limit then
    if (a - s.base) % 8 = 0 then .ok (s.mem.get a) else .error (.unaligned a)
  else .error (.outOfHeap a)

/-- One 8-byte store. -/
def wr (s : HState) (a v : Nat) : Except Fault HState :=
  if s.base ≤ a ∧ a + 8 ≤ s.limit then
    if (a - s.base) % 8 = 0 then .ok { s with mem := s.mem.set a v } else .error (.unaligned a)
  else .error (.outOfHeap a)

/-! ## Block operations (memory.rs) -/

/-- memory.rs: fn erase_block (with erase_valid_object, skip_if_zero, if_zero_then_else).
`if p ≠ 0 { if [p+0] = 0 { [p+0] := FREE; FREE := p } else { [p+0] += -1 } }` -/
def eraseBlock (s : HState) (p : Nat) : Except Fault HState :=
  if p = 0 then .ok s else
  match rd s p with
  | .error f => .error f
  | .ok c =>
    if c = 0 then
      match wr s p s.free with
      | .error f => .error f
      | .ok s1 => .ok { s1 with free := p }
    else wr s p (c - 1)

/-- memory.rs: fn share_block_n.  `if p ≠ 0 { [p+0] += n }` -/
def shareBlock (s : HState) (p n : Nat) : Except Fault HState :=
  if p = 0 then .ok s else
  match rd s p with
  | .error f => .error f
  | .ok c => wr s p (c + n)

/-- memory.rs: fn release_block.  `[b+0] := HEAP; HEAP := b` -/
def releaseBlock (s : HState) (b : Nat) : Except Fault HState :=
  match wr s b s.heap with
  | .error f => .error f
  | .ok s1 => .ok { s1 with heap := b }

/-- memory.rs: fn acquire_block::erase_fields.  For i = 0,1,2: `TEMP := [blk + fst i]; erase TEMP`. -/
def eraseFields (s : HState) (blk : Nat) : Except Fault HState :=
  match rd s (blk + fstOff 0) with
  | .error f => .error f
  | .ok c0 =>
  match eraseBlock s c0 with
  | .error f => .error f
  | .ok s =>
  match rd s (blk + fstOff 1) with
  | .error f => .error f
  | .ok c1 =>
  match eraseBlock s c1 with
  | .error f => .error f
  | .ok s =>
  match rd s (blk + fstOff 2) with
  | .error f => .error f
  | .ok c2 => eraseBlock s c2

/-- memory.rs: fn acquire_block.  Returns the new state and the acquired block.
```
new := HEAP; HEAP := [HEAP+0]
if HEAP ≠ 0 { [new+0] := 0 }                                   -- (1)
else { HEAP := FREE; FREE := [FREE+0]
       if FREE = 0 { FREE := HEAP + 64 }                        -- (3) bump
       else { [HEAP+0] := 0; erase_fields(HEAP) } }             -- (2)
``` -/
def acquire (s : HState) : Except Fault (HState × Nat) :=
  let new := s.heap
  match rd s s.heap with
  | .error f => .error f
  | .ok h =>
    if h ≠ 0 then
      -- (1) the linear free list has another element
      match wr { s with heap := h } new 0 with
      | .error f => .error f
      | .ok s1 => .ok (s1, new)
    else
      match rd s s.free with
      | .error f => .error f
      | .ok f' =>
        if f' = 0 then
          -- (3) bump allocation
          .ok ({ s with heap := s.free, free := s.free + blockSize }, new)
        else
          -- (2) take the head of the lazy free list, erase its children
          match wr { s with heap := s.free, free := f' } s.free 0 with
          | .error f => .error f
          | .ok s1 =>
            match eraseFields s1 s1.heap with
            | .error f => .error f
            | .ok s2 => .ok (s2, new)

/-! ## Objects -/

/-- A field of an object: a pointer-typed variable (pointer part `p`, possibly 0 = "no allocation",
and tag/code word `w`) or an external (integer) variable. -/
inductive Field where
  | ptr (p w : Nat)
  | int (w : Nat)
  deriving Repr, DecidableEq, Inhabited

def Field.ptrPart : Field → Nat
  | .ptr p _ => p
  | .int _ => 0

/-- enum BlockPosition { Last = 0, Other = 1 } -/
inductive BlockPosition where
  | last | other
  deriving Repr, DecidableEq

/-- `block_position as usize` -/
def BlockPosition.toNat : BlockPosition → Nat
  | .last => 0
  | .other => 1

abbrev posLast : BlockPosition := .last
abbrev posOther : BlockPosition := .other

/-- memory.rs: fn store_value (store_field Snd; then store_zero or store_field Fst). -/
def storeValue (s : HState) (f : Field) (blk off : Nat) : Except Fault HState :=
  match f with
  | .int w =>
    match wr s (blk + sndOff off) w with
    | .error e => .error e
    | .ok s1 => wr s1 (blk + fstOff off) 0
  | .ptr p w =>
    match wr s (blk + sndOff off) w with
    | .error e => .error e
    | .ok s1 => wr s1 (blk + fstOff off) p

/-- memory.rs: fn store_zeros (offsets 0 .. n-1 ascending); `k` counts up from 0. -/
def storeZerosFrom (s : HState) (blk k : Nat) : Nat → Except Fault HState
  | 0 => .ok s
  | n + 1 =>
    match wr s (blk + fstOff k) 0 with
    | .error e => .error e
    | .ok s1 => storeZerosFrom s1 blk (k + 1) n

def storeZeros (s : HState) (n blk : Nat) : Except Fault HState := storeZerosFrom s blk 0 n

/-- memory.rs: fn store_values, on the reversed list (`while let Some(b) = to_store.pop()`). -/
def storeValuesRev (s : HState) (blk : Nat) : List Field → Nat → Except Fault HState
  | [], freeFields => storeZeros s freeFields blk
  | _ :: _, 0 => .error .arity
  | f :: rest, freeFields + 1 =>
    match storeValue s f blk freeFields with
    | .error e => .error e
    | .ok s1 => storeValuesRev s1 blk rest freeFields

/-- memory.rs: fn store_values.  Right-most value into the right-most field first; unused (lower)
fields get a null pointer slot. -/
def storeValues (s : HState) (vals : List Field) (blk freeFields : Nat) : Except Fault HState :=
  storeValuesRev s blk vals.reverse freeFields

/-- Number of leading values that do NOT go into the current block. -/
def restLength (len : Nat) (pos : BlockPosition) : Nat :=
  if len ≤ fieldsPerBlock - pos.toNat then 0 else len - (fieldsPerBlock - pos.toNat)

theorem restLength_lt (n : Nat) (pos : BlockPosition) (h : 0 < n) : restLength n pos < n := by
  unfold restLength fieldsPerBlock
  cases pos <;> simp only [BlockPosition.toNat] <;> (by_cases hc : n ≤ 3 <;> by_cases hd : n ≤ 2 <;> simp [hc, hd] <;> omega)

/-- memory.rs: fn store_fields.  `prev` is the block acquired last (the link target when
`pos = Other`).  Returns the pointer to the head block (0 for an object without fields). -/
def storeFields (s : HState) (toStore : List Field) (pos : BlockPosition) (prev : Nat) : Except Fault (HState × Nat) :=
  if _h : toStore = [] then
    .ok (s, if pos = posLast then 0 else prev)     -- "mark no allocation" / pointer already in place
  else
    -- store link to previous block
    match (if pos = posOther then wr s (s.heap + fstOff (fieldsPerBlock - 1)) prev else .ok s) with
    | .error e => .error e
    | .ok s1 =>
      let rl := restLength toStore.length pos
      match storeValues s1 (toStore.drop rl) s1.heap (fieldsPerBlock - pos.toNat) with
      | .error e => .error e
      | .ok s2 =>
        match acquire s2 with
        | .error e => .error e
        | .ok (s3, new) => storeFields s3 (toStore.take rl) posOther new
termination_by toStore.length
decreasing_by
  have : 0 < toStore.length := List.length_pos_iff.mpr _h
  simp only [List.length_take]
  exact Nat.lt_of_le_of_lt (Nat.min_le_left _ _) (restLength_lt _ _ this)

/-- memory.rs: Memory::store. -/
def storeObj (s : HState) (fields : List Field) : Except Fault (HState × Nat) :=
  storeFields s fields posLast 0

inductive LoadMode where
  | release | share
  deriving Repr, DecidableEq

/-- memory.rs: fn load_value.  `isPtr = false` for external (integer) variables: then only the value
slot is read. -/
def loadValue (s : HState) (isPtr : Bool) (blk off : Nat) (mode : LoadMode) :
    Except Fault (HState × Field) :=
  match rd s (blk + sndOff off) with
  | .error e => .error e
  | .ok w =>
    if isPtr then
      match rd s (blk + fstOff off) with
      | .error e => .error e
      | .ok p =>
        match mode with
        | .share =>
          match shareBlock s p 1 with
          | .error e => .error e
          | .ok s1 => .ok (s1, .ptr p w)
        | .release => .ok (s, .ptr p w)
    else .ok (s, .int w)

/-- memory.rs: fn load_values, on the reversed list of kinds; the accumulator collects the loaded
values in context (left-to-right) order. -/
def loadValuesRev (s : HState) (blk : Nat) (mode : LoadMode) :
    List Bool → Nat → List Field → Except Fault (HState × List Field)
  | [], _, acc => .ok (s, acc)
  | _ :: _, 0, _ => .error .arity
  | k :: rest, freeFields + 1, acc =>
    match loadValue s k blk freeFields mode with
    | .error e => .error e
    | .ok (s1, v) => loadValuesRev s1 blk mode rest freeFields (v :: acc)

/-- memory.rs: fn load_values. -/
def loadValues (s : HState) (kinds : List Bool) (blk freeFields : Nat) (mode : LoadMode) :
    Except Fault (HState × List Field) :=
  loadValuesRev s blk mode kinds.reverse freeFields []

/-- memory.rs: fn load_fields.  `p` is the pointer found in the first temporary after the context
(the object pointer).  Returns the new state, the loaded values, and the pointer to the block the
caller has to continue with (the link loaded from the current block when `pos = Other`). -/
def loadFields (s : HState) (kinds : List Bool) (pos : BlockPosition) (mode : LoadMode) (p : Nat) :
    Except Fault (HState × List Field × Nat) :=
  if _h : kinds = [] then .ok (s, [], p)
  else
    let rl := restLength kinds.length pos
    -- we load the previous fields first
    match loadFields s (kinds.take rl) posOther mode p with
    | .error e => .error e
    | .ok (s1, vals1, blk) =>
      match (match mode with
             | .release => releaseBlock s1 blk
             | .share => .ok s1) with
      | .error e => .error e
      | .ok s2 =>
        -- load link to next block (before the values)
        match (if pos = posOther then rd s2 (blk + fstOff (fieldsPerBlock - 1)) else .ok 0) with
        | .error e => .error e
        | .ok link =>
          match loadValues s2 (kinds.drop rl) blk (fieldsPerBlock - pos.toNat) mode with
          | .error e => .error e
          | .ok (s3, vals2) => .ok (s3, vals1 ++ vals2, link)
termination_by kinds.length
decreasing_by
  have : 0 < kinds.length := List.length_pos_iff.mpr _h
  simp only [List.length_take]
  exact Nat.lt_of_le_of_lt (Nat.min_le_left _ _) (restLength_lt _ _ this)

/-- memory.rs: Memory::load (with load_register).  `kinds[i] = true` iff the i-th variable loaded
is pointer-typed (not `Ext`).  Nothing is emitted for an empty context. -/
def loadObj (s : HState) (p : Nat) (kinds : List Bool) : Except Fault (HState × List Field) :=
  if kinds = [] then .ok (s, []) else
  match rd s p with
  | .error e => .error e
  | .ok c =>
    if c = 0 then
      match loadFields s kinds posLast .release p with
      | .error e => .error e
      | .ok (s1, vals, _) => .ok (s1, vals)
    else
      match wr s p (c - 1) with
      | .error e => .error e
      | .ok s0 =>
        match loadFields s0 kinds posLast .share p with
        | .error e => .error e
        | .ok (s1, vals, _) => .ok (s1, vals)

/-! ## Executable preconditions of `load` (well-formedness of histories)

`load` does not check anything; it is correct only for an object of the shape its kinds describe
(the shape `store` with the same kinds produces).  `Scc.Heap.LoadPre` (ProofsLoad) states this
precondition as a `Prop`; the functions below decide it (`opPreB_sound` in ProofsHist). -/

/-- Is the pointer slot of field `i` read by `load_values` when variables of kinds `ks` are loaded
from a block with `cap` usable fields?  (The values sit right-aligned in fields `cap-|ks| .. cap-1`;
`true` = pointer-typed variable.) -/
def slotLoaded (ks : List Bool) (cap i : Nat) : Bool :=
  decide (cap - ks.length ≤ i) && decide (i < cap) && ks.getD (i - (cap - ks.length)) false

def blockPreB (m : Nat → Nat) (blk : Nat) (ks : List Bool) (pos : BlockPosition) : Bool :=
  (List.range (fieldsPerBlock - pos.toNat)).all
    (fun i => slotLoaded ks (fieldsPerBlock - pos.toNat) i || m (blk + fstOff i) == 0) &&
  (pos != .other || m (blk + fstOff (fieldsPerBlock - 1)) != 0)

def loadPreB (s : HState) (kinds : List Bool) (pos : BlockPosition) (mode : LoadMode) (p : Nat) : Bool :=
  if _h : kinds = [] then true
  else
    let rl := restLength kinds.length pos
    loadPreB s (kinds.take rl) .other mode p &&
    match loadFields s (kinds.take rl) .other mode p with
    | .ok (s1, _, blk) =>
      blockPreB s1.mem.get blk (kinds.drop rl) pos &&
      (mode != .release || (kinds.take rl).isEmpty || s1.mem.get blk == 0)
    | .error _ => true
termination_by kinds.length
decreasing_by
  have : 0 < kinds.length := List.length_pos_iff.mpr _h
  simp only [List.length_take]
  exact Nat.lt_of_le_of_lt (Nat.min_le_left _ _) (restLength_lt _ _ this)

def loadObjPreB (s : HState) (p : Nat) (kinds : List Bool) : Bool :=
  if kinds = [] then p == 0
  else p != 0 &&
    (if s.mem.get p = 0 then loadPreB s kinds .last .release p
     else loadPreB { s with mem := s.mem.set p (s.mem.get p - 1) } kinds .last .share p)

/-! ## Histories

`roots` is the multiset (as a list) of the pointer parts currently held by live pointer-typed
variables; a root 0 ("no allocation") is allowed.  The ops are what statements do to the heap:
`Substitute` = `erase` / `share (k-1)`, `Let`/`Create` = `store`, clause / method entry = `load`.
`acquire_block` alone is not an op: it is only emitted inside `store_fields`, and between it and the
end of `store` the acquired block is referenced from nowhere. -/

inductive FieldRef where
  | root (r w : Nat)    -- a held pointer variable (consumed by the store) with value word `w`
  | int (w : Nat)
  deriving Repr, DecidableEq, Inhabited

def FieldRef.toField : FieldRef → Field
  | .root r w => .ptr r w
  | .int w => .int w

inductive HOp where
  | erase (root : Nat)
  | share (root n : Nat)
  | store (fields : List FieldRef)
  | load (root : Nat) (kinds : List Bool)
  deriving Repr, DecidableEq, Inhabited

/-- Pointer parts of pointer-typed fields, in order. -/
def ptrsOf : List Field → List Nat
  | [] => []
  | .ptr p _ :: fs => p :: ptrsOf fs
  | .int _ :: fs => ptrsOf fs

/-- Remove the roots in `rs` (with multiplicity) from `roots`. -/
def consumeRoots (roots : List Nat) : List Nat → Except Fault (List Nat)
  | [] => .ok roots
  | r :: rs => if r ∈ roots then consumeRoots (roots.erase r) rs else .error (.rootNotHeld r)

def applyOp (st : HState × List Nat) (op : HOp) : Except Fault (HState × List Nat) :=
  let (s, roots) := st
  match op with
  | .erase r =>
    if r ∈ roots then
      match eraseBlock s r with
      | .error e => .error e
      | .ok s1 => .ok (s1, roots.erase r)
    else .error (.rootNotHeld r)
  | .share r n =>
    if r ∈ roots then
      match shareBlock s r n with
      | .error e => .error e
      | .ok s1 => .ok (s1, List.replicate n r ++ roots)
    else .error (.rootNotHeld r)
  | .store fields =>
    let fs := fields.map FieldRef.toField
    match consumeRoots roots (ptrsOf fs) with
    | .error e => .error e
    | .ok roots1 =>
      match storeObj s fs with
      | .error e => .error e
      | .ok (s1, p) => .ok (s1, p :: roots1)
  | .load r kinds =>
    if r ∈ roots then
      match loadObj s r kinds with
      | .error e => .error e
      | .ok (s1, vals) => .ok (s1, ptrsOf vals ++ roots.erase r)
    else .error (.rootNotHeld r)

def applyOps (st : HState × List Nat) : List HOp → Except Fault (HState × List Nat)
  | [] => .ok st
  | op :: ops =>
    match applyOp st op with
    | .error e => .error e
    | .ok st1 => applyOps st1 ops

/-- Decides the precondition `OpPre` of one history step. -/
def opPreB (st : HState × List Nat) : HOp → Bool
  | .erase r => st.2.contains r
  | .share r _ => st.2.contains r
  | .store fields =>
    match consumeRoots st.2 (ptrsOf (fields.map FieldRef.toField)) with
    | .ok _ => true
    | .error _ => false
  | .load r kinds => st.2.contains r && loadObjPreB st.1 r kinds

/-! ## Walks (used by the checker and by C10) -/

/-- Follow word 0 from `a` until 0, at most `fuel` steps. -/
def walk (m : Nat → Nat) : Nat → Nat → List Nat
  | 0, _ => []
  | fuel + 1, a => if a = 0 then [] else a :: walk m fuel (m a)

/-- Follow word 0 from `a` until a block whose word 0 is 0 (that block included). -/
def walkToFrontier (m : Nat → Nat) : Nat → Nat → List Nat
  | 0, _ => []
  | fuel + 1, a => if m a = 0 then [a] else a :: walkToFrontier m fuel (m a)

def HState.fuel (s : HState) : Nat := (s.limit - s.base) / blockSize + 2
/-- The linear free list. -/
def HState.linList (s : HState) : List Nat := walk s.mem.get s.fuel s.heap
/-- The lazy free list including the frontier block as last element. -/
def HState.freeList (s : HState) : List Nat := walkToFrontier s.mem.get s.fuel s.free
/-- The allocation frontier (address of the first never-used block). -/
def HState.frontier (s : HState) : Nat := s.freeList.getLastD s.free
def HState.blocksBelowFrontier (s : HState) : Nat := (s.frontier - s.base) / blockSize
/-- Number of blocks that are neither free nor deferred: the reachable ones, including those waiting
beneath a deferred block. -/
def HState.liveCount (s : HState) : Nat :=
  s.blocksBelowFrontier - s.linList.length - (s.freeList.length - 1)

/-! ## Executable invariant checker -/

def isBlockB (base a : Nat) : Bool := decide (base ≤ a) && decide ((a - base) % blockSize = 0)

/-- The three pointer slots of block `b`. -/
def ptrSlots (m : Nat → Nat) (b : Nat) : List Nat := [m (b + 16), m (b + 32), m (b + 48)]

def ptrFields (m : Nat → Nat) (bs : List Nat) : List Nat := bs.flatMap (ptrSlots m)

/-- Follow word 0 from `a`; every element must be a block in `[base, hi)`.  Stops at 0
(`stopAtZeroHeader = false`) or at the first block whose header is 0 (`true`, that block included). -/
def checkedWalk (m : Nat → Nat) (base hi : Nat) (stopAtZeroHeader : Bool) (what : String) :
    Nat → Nat → List Nat → Except String (List Nat)
  | 0, _, _ => .error s!"{what}: list longer than the heap (cycle)"
  | fuel + 1, a, acc =>
    if a = 0 then
      if stopAtZeroHeader then .error s!"{what}: null pointer in list" else .ok acc.reverse
    else if !(isBlockB base a) || hi < a + blockSize then
      .error s!"{what}: element {a} is not a block inside the heap"
    else if stopAtZeroHeader && m a = 0 then .ok (a :: acc).reverse
    else checkedWalk m base hi stopAtZeroHeader what fuel (m a) (a :: acc)

/-- Work items of the depth-first traversal. -/
inductive Work where
  | visit (p : Nat)     -- pointer still to be looked at
  | finish (p : Nat)    -- all children of block `p` have been handled
  deriving Repr

/-- Depth-first traversal through pointer slots.  Blocks are emitted when they are FINISHED, at the
front of `acc`, so the result is in reverse post-order: if there is no cycle every block comes before
the blocks its slots point to (checked afterwards by `topoCheckRev`). -/
def reachLoop (m : Nat → Nat) (base frontier : Nat) :
    Nat → List Work → Std.HashSet Nat → List Nat → Except String (List Nat)
  | 0, _, _, _ => .error "reach: out of fuel"
  | fuel + 1, stack, seen, acc =>
    match stack with
    | [] => .ok acc
    | .finish p :: rest => reachLoop m base frontier fuel rest seen (p :: acc)
    | .visit p :: rest =>
      if p = 0 then reachLoop m base frontier fuel rest seen acc
      else if seen.contains p then reachLoop m base frontier fuel rest seen acc
      else if !(isBlockB base p) || frontier ≤ p then
        .error s!"(v) pointer {p} is not a block below the frontier {frontier}"
      else
        reachLoop m base frontier fuel
          ((ptrSlots m p).map Work.visit ++ Work.finish p :: rest) (seen.insert p) acc

/-- Check that a list, given in REVERSE, is topologically sorted: going through the reversed list,
every pointer slot of a block is null or one of the blocks seen before (= later in the list).
Returns an offending block. -/
def topoCheckRev (m : Nat → Nat) : List Nat → Std.HashSet Nat → Option Nat
  | [], _ => none
  | b :: rest, later =>
    if (ptrSlots m b).all (fun p => p == 0 || later.contains p) then
      topoCheckRev m rest (later.insert b)
    else some b

def countMap (xs : List Nat) : Std.HashMap Nat Nat :=
  xs.foldl (fun c x => c.insert x (c.getD x 0 + 1)) ∅

/-- First block address in `[a, a + 64 n)` step 64 that is not the head of `sorted`, or a duplicate. -/
def coverCheck : Nat → Nat → List Nat → Except String Unit
  | 0, _, [] => .ok ()
  | 0, _, x :: _ => .error s!"(iii) block {x} is in two states (or listed beyond the frontier)"
  | _ + 1, a, [] => .error s!"(iii) block {a} is lost (not linear-free, deferred, reachable or pending)"
  | n + 1, a, x :: xs =>
    if x = a then coverCheck n (a + blockSize) xs
    else if x < a then .error s!"(iii) block {x} is in two states"
    else .error s!"(iii) block {a} is lost (not linear-free, deferred, reachable or pending)"

def allZeroFrom (m : Nat → Nat) : Nat → Nat → Except String Unit
  | 0, _ => .ok ()
  | n + 1, a => if m a = 0 then allZeroFrom m n (a + 8) else .error s!"(ii) word at {a} at or above the frontier is not zero"

def firstFailing (xs : List Nat) (bad : Nat → Bool) : Option Nat := xs.find? bad

/-- Decision procedure for the invariant on a memory given as a lookup function.
`pend` = blocks acquired but not yet referenced (empty at statement boundaries).
On success returns `(lin, lazy, live, frontier)`. -/
def invCheckFn (m : Nat → Nat) (base limit heap free : Nat) (roots pend : List Nat) :
    Except String (List Nat × List Nat × List Nat × Nat) :=
  if base = 0 then .error "base is 0" else
  let fuel := (limit - base) / blockSize + 2
  match checkedWalk m base limit false "(i) linear free list" fuel heap [] with
  | .error e => .error e
  | .ok lin =>
  if lin.isEmpty then .error "(i) linear free list is empty" else
  match checkedWalk m base limit true "(ii) lazy free list" fuel free [] with
  | .error e => .error e
  | .ok freeL =>
  let frontier := freeL.getLastD free
  let lazy := freeL.dropLast
  let nBelow := (frontier - base) / blockSize
  match reachLoop m base frontier (8 * nBelow + roots.length + 3 * lazy.length + 8)
      ((roots ++ ptrFields m lazy).map Work.visit) ∅ [] with
  | .error e => .error e
  | .ok live =>
  match topoCheckRev m live.reverse ∅ with
  | some b => .error s!"(vi) block {b} lies on a cycle of reachable blocks"
  | none =>
  let liveSet := Std.HashSet.ofList live
  match firstFailing (roots ++ ptrFields m (live ++ lazy)) (fun p => p != 0 && !liveSet.contains p) with
  | some p => .error s!"(v) pointer {p} (a root or a pointer slot of a reachable/deferred block) is not a reachable block"
  | none =>
  match coverCheck nBelow base ((lin ++ lazy ++ live ++ pend).mergeSort (· ≤ ·)) with
  | .error e => .error e
  | .ok () =>
  match allZeroFrom m ((limit - frontier) / 8) frontier with
  | .error e => .error e
  | .ok () =>
  let refs := countMap (roots ++ ptrFields m (live ++ lazy))
  match firstFailing live (fun b => m b + 1 != refs.getD b 0) with
  | some b => .error s!"(iv) block {b}: stored count {m b} but {refs.getD b 0} references"
  | none =>
  match firstFailing pend (fun b => m b != 0) with
  | some b => .error s!"pending block {b} has non-zero header"
  | none => .ok (lin, lazy, live, frontier)

/-- The invariant checker on model states (statement boundaries: nothing pending). -/
def invCheck (s : HState) (roots : List Nat) (limit : Nat := s.limit) : Except String Unit :=
  match invCheckFn s.mem.get s.base limit s.heap s.free roots [] with
  | .error e => .error e
  | .ok _ => .ok ()

/-! ## Line protocol

Request:  `heapops <base> <limit> <op>;<op>;...`
Roots are referred to by their INDEX in the current root list (new roots are put at the front:
after `t` the new object is root 0; after `l` the loaded pointer fields are roots 0,1,.. in field
order; after `s i n` the n new copies are roots 0..n-1).
  `e <i>`             erase root i
  `s <i> <n>`         share root i, n more copies
  `t <f> <f> ...`     store an object; `<f>` = `p<i>:<w>` (root i, value word w) or `i<w>` (integer w);
                      the indices refer to the root list before the op and must be distinct
  `t`                 store an object without fields (yields the root 0 = no allocation)
  `l <i> <kinds>`     load the object at root i; kinds = string over {p,i}, `-` for no fields
The invariant is checked after every op.
Reply:    `OK heap=<h> free=<f> frontier=<F> lin=<n> lazy=<n> live=<n> roots=<r,r,...>`
        | `FAULT <k> <fault>`     op number k (from 0) faulted
        | `INV-FAIL <k> <clause and block>`   invariant broken after op number k
        | `PRE-FAIL <k> ..`       op number k violates its precondition (`opPreB`: root not held,
                                  or `load` on an object whose shape does not match the kinds)
        | `BAD <message>`         malformed request -/

def parseNat? (s : String) : Option Nat := s.toNat?

def words (s : String) : List String := (s.splitOn " ").filter (· ≠ "")

inductive LOp where
  | erase (i : Nat)
  | share (i n : Nat)
  | store (fs : List (Option Nat × Nat))   -- (some root index | none, value word)
  | load (i : Nat) (kinds : List Bool)
  deriving Repr, Inhabited

def parseField (w : String) : Option (Option Nat × Nat) :=
  match w.toList with
  | 'i' :: rest => (parseNat? (String.ofList rest)).map (fun v => (none, v))
  | 'p' :: rest =>
    match (String.ofList rest).splitOn ":" with
    | [i, v] =>
      match parseNat? i, parseNat? v with
      | some i, some v => some (some i, v)
      | _, _ => none
    | _ => none
  | _ => none

def parseKinds (w : String) : Option (List Bool) :=
  if w = "-" then some [] else
  w.toList.mapM (fun c => if c = 'p' then some true else if c = 'i' then some false else none)

def parseLOp (s : String) : Option LOp :=
  match words s with
  | ["e", i] => (parseNat? i).map .erase
  | ["s", i, n] =>
    match parseNat? i, parseNat? n with
    | some i, some n => some (.share i n)
    | _, _ => none
  | "t" :: fs => (fs.mapM parseField).map .store
  | ["l", i, k] =>
    match parseNat? i, parseKinds k with
    | some i, some k => some (.load i k)
    | _, _ => none
  | _ => none

/-- Resolve root indices to addresses. -/
def resolveOp (roots : List Nat) : LOp → Except Fault HOp
  | .erase i => match roots[i]? with
    | some r => .ok (.erase r)
    | none => .error (.badIndex i)
  | .share i n => match roots[i]? with
    | some r => .ok (.share r n)
    | none => .error (.badIndex i)
  | .load i k => match roots[i]? with
    | some r => .ok (.load r k)
    | none => .error (.badIndex i)
  | .store fs =>
    let idxs := fs.filterMap (·.1)
    if !idxs.Nodup then .error (.badIndex 0) else
    match fs.mapM (fun (f : Option Nat × Nat) => match f with
        | (none, w) => some (FieldRef.int w)
        | (some i, w) => (roots[i]?).map (fun r => FieldRef.root r w)) with
    | some frs => .ok (.store frs)
    | none => .error (.badIndex 0)

def faultToString : Fault → String
  | .outOfHeap a => s!"outOfHeap {a}"
  | .unaligned a => s!"unaligned {a}"
  | .rootNotHeld r => s!"rootNotHeld {r}"
  | .badIndex i => s!"badIndex {i}"
  | .arity => "arity"

def natsToString (xs : List Nat) : String := ",".intercalate (xs.map toString)

def runLOps (s : HState) (roots : List Nat) : Nat → List LOp → String
  | k, [] =>
    match invCheckFn s.mem.get s.base s.limit s.heap s.free roots [] with
    | .error e => s!"INV-FAIL {k} {e}"
    | .ok (lin, lazy, live, fr) =>
      s!"OK heap={s.heap} free={s.free} frontier={fr} lin={lin.length} lazy={lazy.length} live={live.length} roots={natsToString roots}"
  | k, op :: ops =>
    match resolveOp roots op with
    | .error e => s!"FAULT {k} {faultToString e}"
    | .ok hop =>
      if !(opPreB (s, roots) hop) then s!"PRE-FAIL {k} precondition of op violated" else
      match applyOp (s, roots) hop with
      | .error e => s!"FAULT {k} {faultToString e}"
      | .ok (s1, roots1) =>
        match invCheck s1 roots1 with
        | .error e => s!"INV-FAIL {k} {e}"
        | .ok () => runLOps s1 roots1 (k + 1) ops

def handleLine (line : String) : String :=
  match words (line.trimAscii.toString) with
  | "heapops" :: base :: limit :: rest =>
    match parseNat? base, parseNat? limit with
    | some base, some limit =>
      let opsText := (" ".intercalate rest).splitOn ";"
      let opsText := opsText.filter (fun t => words t ≠ [])
      match opsText.mapM parseLOp with
      | some ops => runLOps (init base limit) [] 0 ops
      | none => "BAD cannot parse ops"
    | _, _ => "BAD base/limit"
  | _ => "BAD unknown request"

end Scc.Heap
