/-
Scc.Heap.RefineCount — the counting lemma of the heap refinement: the count stored in the head block of
an abstract object is at least the abstract count (`head_count_ge`).  The difference is the number of
references from blocks that are alive only at block level (children of deferred blocks).
Consequence: whenever the abstract machine treats an object as shared, so does the emitted code; an
abstractly live block is never put on a free list.
-/
import Scc.Heap.RefineFrame

set_option linter.unusedVariables false
set_option linter.unusedSimpArgs false

namespace Scc.Heap.Refine

open Scc.Heap
open Scc.Backend.Abs (Heap Obj Word)
open Scc.Backend.Sim2 (childSum refCount_eq)

/-! ## sublists of pointer slots -/

theorem ptrsOf_fieldsAt_sublist (m : Nat → Nat) (blk : Nat) : ∀ (i : Nat) (ks : List Bool), i + ks.length ≤ 3 →
    (ptrsOf (fieldsAt m blk i ks)).Sublist ((ptrSlots m blk).drop i)
  | _, [], _ => by simp [fieldsAt, ptrsOf]
  | i, k :: ks, hl => by
    simp only [List.length_cons] at hl
    have ih := ptrsOf_fieldsAt_sublist m blk (i + 1) ks (by omega)
    have hdrop : (ptrSlots m blk).drop i = m (blk + fstOff i) :: (ptrSlots m blk).drop (i + 1) := by
      have : i = 0 ∨ i = 1 ∨ i = 2 := by omega
      rcases this with rfl | rfl | rfl <;> simp [ptrSlots, fstOff, fieldOffset]
    rw [hdrop]
    cases k with
    | false =>
      simp only [fieldsAt, Bool.false_eq_true, if_false, ptrsOf]
      exact List.Sublist.cons _ ih
    | true =>
      simp only [fieldsAt, if_true, ptrsOf]
      exact List.Sublist.cons_cons _ ih

/-- the pointers read by `peek` form a sublist of the pointer slots of the visited blocks -/
theorem ptrsOf_peek_sublist (m : Nat → Nat) : ∀ (n : Nat) (kinds : List Bool) (pos : BlockPosition) (p : Nat),
    kinds.length ≤ n →
    (ptrsOf (peek m kinds pos p).1).Sublist (ptrFields m ((peek m kinds pos p).2.2.map (·.1)))
  | 0, kinds, pos, p, hn => by
    have : kinds = [] := List.length_eq_zero_iff.mp (by omega)
    subst this
    rw [peek_nil]; simp [ptrsOf, ptrFields]
  | n + 1, kinds, pos, p, hn => by
    by_cases hk : kinds = []
    · subst hk; rw [peek_nil]; simp [ptrsOf, ptrFields]
    · have hpos : 0 < kinds.length := List.length_pos_iff.mpr hk
      have hrl := restLength_lt kinds.length pos hpos
      rw [peek_cons m hk]
      simp only [ptrsOf_append, List.map_append, List.map_cons, List.map_nil, ptrFields_append]
      apply List.Sublist.append (ptrsOf_peek_sublist m n _ posOther p (by rw [List.length_take]; omega))
      rw [ptrFields_cons, ptrFields_nil, List.append_nil]
      have h1 := length_drop_restLength kinds.length pos
      have h2 : fieldsPerBlock - pos.toNat ≤ 3 := by unfold fieldsPerBlock; omega
      exact (ptrsOf_fieldsAt_sublist m _ _ _ (by rw [List.length_drop]; omega)).trans (List.drop_sublist _ _)

/-- the images of the children form a sublist of the pointers of the field images -/
theorem children_sublist (ι : Nat → Nat) : ∀ (fs : List AField),
    ((fs.filterMap fun f => if f.chi != Scc.AxCut.Chi.ext && f.ptr != 0 then some f.ptr.toNat else none).map ι).Sublist
      (ptrsOf (fs.map (fieldImg ι)))
  | [] => by simp [ptrsOf]
  | f :: fs => by
    have ih := children_sublist ι fs
    simp only [List.map_cons]
    by_cases hk : kindB f = true
    · have hf : fieldImg ι f = .ptr (imgW ι f.ptr) f.val.toNat := by simp [fieldImg, hk]
      rw [hf]
      simp only [ptrsOf]
      have hk' : (f.chi != Scc.AxCut.Chi.ext) = true := hk
      by_cases hp : f.ptr = 0
      · have hc : (f.chi != Scc.AxCut.Chi.ext && f.ptr != 0) = false := by simp [hp]
        rw [List.filterMap_cons, if_neg (by rw [hc]; simp)]
        exact List.Sublist.cons _ ih
      · have hc : (f.chi != Scc.AxCut.Chi.ext && f.ptr != 0) = true := by
          rw [hk', Bool.true_and, bne_iff_ne]; exact hp
        rw [List.filterMap_cons, if_pos hc]
        simp only [List.map_cons]
        have : imgW ι f.ptr = ι f.ptr.toNat := by unfold imgW; rw [if_neg hp]
        rw [this]
        exact List.Sublist.cons_cons _ ih
    · have hk' : (f.chi != Scc.AxCut.Chi.ext) = false := by
        have : kindB f = false := by simpa using hk
        exact this
      have hf : fieldImg ι f = .int f.val.toNat := by
        have : kindB f = false := hk'
        simp [fieldImg, this]
      rw [hf]
      simp only [ptrsOf]
      have hc : (f.chi != Scc.AxCut.Chi.ext && f.ptr != 0) = false := by rw [hk']; rfl
      rw [List.filterMap_cons, if_neg (by rw [hc]; simp)]
      exact ih

/-- per object: the references to `id` among its children are pointer slots of its chain -/
theorem chain_count_ge {m : Nat → Nat} {ι : Nat → Nat} {p : Nat} {o : Obj} (O : ObjAt m ι p o.fields)
    (id : Nat) : o.children.count id ≤ (ptrFields m (blocksOf m p o.fields)).count (ι id) := by
  have h1 : o.children.count id ≤ (o.children.map ι).count (ι id) := List.count_le_count_map
  have h2 := (children_sublist ι o.fields).count_le (ι id)
  have h3 := (ptrsOf_peek_sublist m _ (o.fields.map kindB) .last p (Nat.le_refl _)).count_le (ι id)
  rw [O.vals] at h3
  have : o.children = o.fields.filterMap fun f =>
      if f.chi != Scc.AxCut.Chi.ext && f.ptr != 0 then some f.ptr.toNat else none := rfl
  rw [this] at h1
  exact Nat.le_trans h1 (Nat.le_trans h2 h3)

/-! ## sums over duplicate-free sublists -/

theorem sum_le_of_nodup_subset (g : Nat → Nat) : ∀ (l big : List Nat), l.Nodup → (∀ b ∈ l, b ∈ big) →
    (l.map g).sum ≤ (big.map g).sum
  | [], big, _, _ => by simp
  | a :: l, big, hnd, hsub => by
    have ha : a ∈ big := hsub a (by simp)
    obtain ⟨l1, l2, rfl⟩ := List.append_of_mem ha
    have hnd' := List.nodup_cons.mp hnd
    have hsub' : ∀ b ∈ l, b ∈ l1 ++ l2 := by
      intro b hb
      have := hsub b (by simp [hb])
      simp only [List.mem_append, List.mem_cons] at this ⊢
      rcases this with h | rfl | h
      · exact Or.inl h
      · exact absurd hb hnd'.1
      · exact Or.inr h
    have ih := sum_le_of_nodup_subset g l (l1 ++ l2) hnd'.2 hsub'
    simp only [List.map_cons, List.sum_cons, List.map_append, List.sum_append] at ih ⊢
    omega

theorem count_ptrFields_le {m : Nat → Nat} {l big : List Nat} (hnd : l.Nodup) (hsub : ∀ b ∈ l, b ∈ big)
    (x : Nat) : (ptrFields m l).count x ≤ (ptrFields m big).count x := by
  unfold ptrFields
  rw [List.count_flatMap, List.count_flatMap]
  exact sum_le_of_nodup_subset _ l big hnd hsub

/-! ## all chains together -/

/-- the blocks of all abstract objects -/
def allBlocks (m : Nat → Nat) (ι : Nat → Nat) (h : Heap) : List Nat :=
  h.flatMap fun e => blocksOf m (ι e.1) e.2.fields

theorem allBlocks_nodup {m : Nat → Nat} {ι : Nat → Nat} : ∀ (h : Heap), (h.map (·.1)).Nodup →
    (∀ e ∈ h, (blocksOf m (ι e.1) e.2.fields).Nodup) →
    (∀ e ∈ h, ∀ e' ∈ h, e.1 ≠ e'.1 → ∀ b ∈ blocksOf m (ι e.1) e.2.fields, b ∉ blocksOf m (ι e'.1) e'.2.fields) →
    (allBlocks m ι h).Nodup
  | [], _, _, _ => by simp [allBlocks]
  | a :: h, hnd, hn, hd => by
    simp only [List.map_cons, List.nodup_cons] at hnd
    have ih := allBlocks_nodup h hnd.2 (fun e he => hn e (by simp [he]))
      (fun e he e' he' => hd e (by simp [he]) e' (by simp [he']))
    simp only [allBlocks, List.flatMap_cons]
    rw [List.nodup_append]
    refine ⟨hn a (by simp), ih, ?_⟩
    intro b hb b' hb' e
    subst e
    simp only [List.mem_flatMap] at hb'
    obtain ⟨e', he', hbe'⟩ := hb'
    have hne : a.1 ≠ e'.1 := by
      intro e
      exact hnd.1 (List.mem_map.2 ⟨e', he', e.symm⟩)
    exact hd a (by simp) e' (by simp [he']) hne b hb hbe'

theorem count_allBlocks_ge {m : Nat → Nat} {ι : Nat → Nat} : ∀ (h : Heap),
    (∀ e ∈ h, ObjAt m ι (ι e.1) e.2.fields) → ∀ id,
    childSum h id ≤ (ptrFields m (allBlocks m ι h)).count (ι id)
  | [], _, id => by simp [childSum, allBlocks]
  | a :: h, hs, id => by
    have ih := count_allBlocks_ge h (fun e he => hs e (by simp [he])) id
    have h1 := chain_count_ge (hs a (by simp)) id
    simp only [childSum, List.map_cons, List.sum_cons, allBlocks, List.flatMap_cons, ptrFields_append,
      List.count_append] at ih ⊢
    omega

/-- THE COUNTING LEMMA: the stored count of a head block is at least the abstract count -/
theorem head_count_ge {h : Heap} {rs : List Nat} {next : Nat} {s : HState} {ι : Nat → Nat}
    (R : HRef h rs next s ι) {e : Nat × Obj} (he : e ∈ h) : e.2.count ≤ s.mem.get (ι e.1) := by
  obtain ⟨lin, lazy, live, F, I⟩ := R.conc
  have hlive : ∀ e ∈ h, ∀ b ∈ blocksOf s.mem.get (ι e.1) e.2.fields, b ∈ live :=
    fun e he => chains_live I R.abs R.ord R.shape _ e he (Nat.le_refl _)
  have hhead : ι e.1 ∈ live := by
    have O := R.shape e he
    have hk : e.2.fields.map kindB ≠ [] := by simpa using O.ne
    have hl := (peek_chain s.mem.get _ (e.2.fields.map kindB) .last (ι e.1) (Nat.le_refl _))
    have hne : blocksOf s.mem.get (ι e.1) e.2.fields ≠ [] := by
      unfold blocksOf chainOf
      intro h0
      have := hl.2.2.2.mp (by simpa using h0)
      exact hk this
    cases hb : blocksOf s.mem.get (ι e.1) e.2.fields with
    | nil => exact absurd hb hne
    | cons x rest =>
      have h1 := hl.1
      unfold blocksOf chainOf at hb
      rw [hb] at h1
      have : x = ι e.1 := h1.1
      rw [← this]
      exact hlive e he x (by unfold blocksOf chainOf; rw [hb]; simp)
  have hc := I.counts _ hhead
  have ha := R.abs.counts e he
  rw [refCount_eq] at ha
  have h1 : rs.count e.1 ≤ (rs.map ι).count (ι e.1) := List.count_le_count_map
  have hnd : (allBlocks s.mem.get ι h).Nodup :=
    allBlocks_nodup h R.abs.nodup (fun e he => (R.shape e he).nodup) R.disj
  have hsub : ∀ b ∈ allBlocks s.mem.get ι h, b ∈ live ++ lazy := by
    intro b hb
    simp only [allBlocks, List.mem_flatMap] at hb
    obtain ⟨e', he', hb'⟩ := hb
    exact List.mem_append.2 (Or.inl (hlive e' he' b hb'))
  have h2 := count_ptrFields_le (m := s.mem.get) hnd hsub (ι e.1)
  have h3 := count_allBlocks_ge (m := s.mem.get) (ι := ι) h R.shape e.1
  omega

end Scc.Heap.Refine
