/-
Scc.Heap.ProofsCheck — soundness of the executable invariant checker: if `invCheckFn` accepts, the
invariant holds with the witnesses it returns.
-/
import Scc.Heap.ProofsHist

namespace Scc.Heap

theorem isBlockB_iff {base a : Nat} : isBlockB base a = true ↔ IsBlock base a := by
  unfold isBlockB IsBlock
  rw [Bool.and_eq_true]
  constructor
  · rintro ⟨h1, h2⟩; exact ⟨of_decide_eq_true h1, of_decide_eq_true h2⟩
  · rintro ⟨h1, h2⟩; exact ⟨decide_eq_true h1, decide_eq_true h2⟩

theorem checkedWalk_false_sound {m : Nat → Nat} {base hi : Nat} {what : String} :
    ∀ (fuel a : Nat) (acc r : List Nat),
    checkedWalk m base hi false what fuel a acc = .ok r →
    ∃ l, r = acc.reverse ++ l ∧ Chain m a l ∧ ∀ x, x ∈ l → IsBlock base x ∧ x + 64 ≤ hi := by
  intro fuel
  induction fuel with
  | zero => intro a acc r h; simp [checkedWalk] at h
  | succ fuel ih =>
    intro a acc r h
    simp only [checkedWalk] at h
    by_cases ha : a = 0
    · simp only [ha, if_true] at h
      injection h with h
      exact ⟨[], by simp [h], ha, by simp⟩
    · simp only [ha, if_false] at h
      split at h
      · cases h
      · rename_i hc
        simp only [Bool.or_eq_true, Bool.not_eq_true', decide_eq_true_eq, not_or, Bool.not_eq_false,
          Nat.not_lt] at hc
        simp only [Bool.false_and] at h
        obtain ⟨l, hr, hch, hall⟩ := ih (m a) (a :: acc) r (by simpa using h)
        refine ⟨a :: l, by simp [hr], ⟨rfl, ha, hch⟩, ?_⟩
        intro x hx
        rcases List.mem_cons.mp hx with rfl | hx
        · exact ⟨isBlockB_iff.mp hc.1, by simpa [blockSize] using hc.2⟩
        · exact hall x hx

theorem checkedWalk_true_sound {m : Nat → Nat} {base hi : Nat} {what : String} :
    ∀ (fuel a : Nat) (acc r : List Nat),
    checkedWalk m base hi true what fuel a acc = .ok r →
    ∃ l F, r = acc.reverse ++ l ++ [F] ∧ Chain m a (l ++ [F]) ∧
      ∀ x, x ∈ l ++ [F] → IsBlock base x ∧ x + 64 ≤ hi := by
  intro fuel
  induction fuel with
  | zero => intro a acc r h; simp [checkedWalk] at h
  | succ fuel ih =>
    intro a acc r h
    simp only [checkedWalk] at h
    by_cases ha : a = 0
    · simp [ha] at h
    · simp only [ha, if_false] at h
      split at h
      · cases h
      · rename_i hc
        simp only [Bool.or_eq_true, Bool.not_eq_true', decide_eq_true_eq, not_or, Bool.not_eq_false,
          Nat.not_lt] at hc
        have hblk : IsBlock base a ∧ a + 64 ≤ hi :=
          ⟨isBlockB_iff.mp hc.1, by simpa [blockSize] using hc.2⟩
        by_cases hz : m a = 0
        · simp only [hz, Bool.true_and, decide_true, if_true] at h
          injection h with h
          refine ⟨[], a, by simp [← h], ⟨rfl, ha, hz⟩, ?_⟩
          intro x hx
          simp at hx; subst hx; exact hblk
        · simp only [hz, Bool.true_and, decide_false] at h
          obtain ⟨l, F, hr, hch, hall⟩ := ih (m a) (a :: acc) r (by simpa using h)
          refine ⟨a :: l, F, by simp [hr], ⟨rfl, ha, hch⟩, ?_⟩
          intro x hx
          rcases List.mem_cons.mp hx with rfl | hx
          · exact hblk
          · exact hall x hx

theorem coverCheck_sound : ∀ (n a : Nat) (xs : List Nat),
    coverCheck n a xs = .ok () → xs = blocksList a n := by
  intro n
  induction n with
  | zero =>
    intro a xs h
    cases xs with
    | nil => rfl
    | cons x xs => simp [coverCheck] at h
  | succ n ih =>
    intro a xs h
    cases xs with
    | nil => simp [coverCheck] at h
    | cons x xs =>
      simp only [coverCheck] at h
      split at h
      · rename_i hx
        have := ih (a + blockSize) xs h
        subst hx
        rw [this]
        simp only [blocksList, List.range_succ_eq_map, List.map_cons, List.map_map, blockSize]
        congr 1
        apply List.map_congr_left
        intro k _
        simp only [Function.comp]
        omega
      · split at h <;> cases h

theorem allZeroFrom_sound {m : Nat → Nat} : ∀ (n a : Nat),
    allZeroFrom m n a = .ok () → ∀ j, j < n → m (a + 8 * j) = 0 := by
  intro n
  induction n with
  | zero => intro a _ j hj; omega
  | succ n ih =>
    intro a h j hj
    simp only [allZeroFrom] at h
    split at h
    · rename_i hz
      cases j with
      | zero => simpa using hz
      | succ j =>
        have := ih (a + 8) h j (by omega)
        rw [show a + 8 * (j + 1) = a + 8 + 8 * j by omega]
        exact this
    · cases h

theorem countMap_getD (xs : List Nat) (b : Nat) : (countMap xs).getD b 0 = xs.count b := by
  unfold countMap
  have key : ∀ (ys : List Nat) (c : Std.HashMap Nat Nat),
      (ys.foldl (fun c x => c.insert x (c.getD x 0 + 1)) c).getD b 0 = c.getD b 0 + ys.count b := by
    intro ys
    induction ys with
    | nil => intro c; simp
    | cons y ys ih =>
      intro c
      rw [List.foldl_cons, ih, Std.HashMap.getD_insert, List.count_cons]
      by_cases hy : y = b
      · subst hy; simp; omega
      · simp [hy]
  rw [key]
  simp

theorem topoCheckRev_sound {m : Nat → Nat} : ∀ (rev : List Nat) (later : Std.HashSet Nat)
    (done : List Nat), (∀ x, later.contains x = done.contains x) → TopoSorted m done →
    topoCheckRev m rev later = none → TopoSorted m (rev.reverse ++ done) := by
  intro rev
  induction rev with
  | nil => intro later done _ hd _; simpa using hd
  | cons b rest ih =>
    intro later done hl hd h
    simp only [topoCheckRev] at h
    split at h
    · rename_i hall
      have := ih (later.insert b) (b :: done)
        (by
          intro x
          rw [Std.HashSet.contains_insert, hl x, List.contains_cons]
          by_cases hxb : x = b
          · subst hxb; simp
          · have : (b == x) = false := by simpa using Ne.symm hxb
            have h2 : (x == b) = false := by simpa using hxb
            rw [this, h2])
        ⟨by
          intro p hp
          have := List.all_eq_true.mp hall p hp
          simp only [Bool.or_eq_true, beq_iff_eq] at this
          rcases this with h0 | hc
          · exact Or.inl h0
          · right; rw [hl p] at hc; exact List.contains_iff_mem.mp hc, hd⟩ h
      simpa using this
    · cases h

theorem firstFailing_none {xs : List Nat} {bad : Nat → Bool} (h : firstFailing xs bad = none) :
    ∀ x, x ∈ xs → bad x = false := by
  intro x hx
  have := List.find?_eq_none.mp h x hx
  simpa using this

/-- Soundness of the checker: the lists it returns are witnesses of the invariant. -/
theorem invCheckFn_sound {m : Nat → Nat} {base limit heap free F : Nat}
    {roots pend lin lazy live : List Nat}
    (h : invCheckFn m base limit heap free roots pend = .ok (lin, lazy, live, F)) :
    InvW m base limit heap free roots pend lin lazy live F := by
  unfold invCheckFn at h
  by_cases hb : base = 0
  · simp [hb] at h
  simp only [hb, if_false] at h
  cases hlin : checkedWalk m base limit false "(i) linear free list"
      ((limit - base) / blockSize + 2) heap [] with
  | error e => simp [hlin] at h
  | ok lin0 =>
  simp only [hlin] at h
  by_cases hle : lin0.isEmpty = true
  · simp [hle] at h
  simp only [hle, Bool.false_eq_true, if_false] at h
  cases hfr : checkedWalk m base limit true "(ii) lazy free list"
      ((limit - base) / blockSize + 2) free [] with
  | error e => simp [hfr] at h
  | ok freeL =>
  simp only [hfr] at h
  split at h
  · cases h
  rename_i live0 hreach
  split at h
  · cases h
  rename_i htopo
  split at h
  · cases h
  rename_i hv
  split at h
  · cases h
  rename_i hcover
  split at h
  · cases h
  rename_i hzero
  split at h
  · cases h
  rename_i hcnt
  split at h
  · cases h
  rename_i hpend
  injection h with h
  injection h with e1 h
  injection h with e2 h
  injection h with e3 e4
  subst e1 e3
  obtain ⟨l1, hl1, hch1, hall1⟩ := checkedWalk_false_sound _ _ _ _ hlin
  simp only [List.reverse_nil, List.nil_append] at hl1
  subst hl1
  obtain ⟨l2, F0, hl2, hch2, hall2⟩ := checkedWalk_true_sound _ _ _ _ hfr
  simp only [List.reverse_nil, List.nil_append] at hl2
  subst hl2
  rw [List.getLastD_concat] at e4 hcover hzero hreach
  rw [List.dropLast_concat] at e2 hcover hv hcnt hreach
  have hts : TopoSorted m live0 := by
    have := topoCheckRev_sound live0.reverse ∅ [] (by intro x; simp) trivial htopo
    simpa using this
  subst e2 e4
  have hFb := hall2 F0 (by simp)
  have hFe : F0 = base + 64 * ((F0 - base) / blockSize) := by
    have := hFb.1; unfold IsBlock at this; unfold blockSize; omega
  have hsorted := coverCheck_sound _ _ _ hcover
  have hperm : (lin0 ++ l2 ++ live0 ++ pend).Perm (blocksList base ((F0 - base) / blockSize)) := by
    rw [← hsorted]; exact (List.mergeSort_perm _ _).symm
  have hvv := firstFailing_none hv
  have hlive : ∀ p, p ∈ roots ++ ptrFields m (live0 ++ l2) → p = 0 ∨ p ∈ live0 := by
    intro p hp
    have := hvv p hp
    simp only [Bool.and_eq_false_iff, bne_eq_false_iff_eq, Bool.not_eq_false',
      Std.HashSet.contains_ofList, List.contains_iff_mem] at this
    exact this
  exact
  { base_pos := Nat.pos_of_ne_zero hb
    lin_chain := hch1
    lin_ne := by intro e; rw [e] at hle; simp at hle
    lazy_chain := hch2
    frontier_block := hFb.1
    frontier_room := hFb.2
    zero_above := by
      intro a ha hl hal
      have hz := allZeroFrom_sound _ _ hzero ((a - F0) / 8) (by
        have := hFb.1; unfold IsBlock at this; omega)
      have : F0 + 8 * ((a - F0) / 8) = a := by
        have := hFb.1; unfold IsBlock at this; omega
      rw [this] at hz; exact hz
    nodup := hperm.nodup_iff.mpr (blocksList_nodup _ _)
    cover := by
      intro a
      rw [hperm.mem_iff, mem_blocksList, ← hFe]
    counts := by
      intro b hb'
      have := firstFailing_none hcnt b hb'
      simp only [bne_eq_false_iff_eq, countMap_getD, List.count_append] at this
      exact this
    fields_live := fun p hp => hlive p (List.mem_append_right _ hp)
    roots_live := fun r hr => hlive r (List.mem_append_left _ hr)
    pend_hdr := by
      intro b hb'
      have := firstFailing_none hpend b hb'
      simpa using this
    acyclic := ⟨live0, List.Perm.refl _, hts⟩ }

/-- `invCheck_sound` (stated in Props/C09): the checker only accepts states satisfying `Inv`. -/
theorem invCheck_sound' (s : HState) (roots : List Nat) (h : invCheck s roots = .ok ()) :
    Inv s roots := by
  unfold invCheck at h
  cases hc : invCheckFn s.mem.get s.base s.limit s.heap s.free roots [] with
  | error e => simp [hc] at h
  | ok r =>
    obtain ⟨lin, lazy, live, F⟩ := r
    exact ⟨lin, lazy, live, F, invCheckFn_sound hc⟩

end Scc.Heap
