/-
Scc.Heap.RefineLemmas — basic facts about the pure reader `peek` and the shape predicate `ObjAt` of the
heap refinement (RefineDefs.lean): unfolding equations, the chain structure of the visited blocks
(first block = the head, each further block = the link of its predecessor), independence of the header
words, the pointer slots of a chain.
-/
import Scc.Heap.RefineDefs
import Scc.Backend.ProofsRep2

set_option linter.unusedVariables false
set_option linter.unusedSimpArgs false

namespace Scc.Heap.Refine

open Scc.Heap
open Scc.Backend.Abs (Heap Obj Word)

/-! ## unfolding `peek` -/

theorem peek_nil (m : Nat → Nat) (pos : BlockPosition) (p : Nat) : peek m [] pos p = ([], p, []) := by
  rw [peek]; simp

theorem peek_cons (m : Nat → Nat) {kinds : List Bool} (hne : kinds ≠ []) (pos : BlockPosition) (p : Nat) :
    peek m kinds pos p =
      ((peek m (kinds.take (restLength kinds.length pos)) posOther p).1 ++
        fieldsAt m (peek m (kinds.take (restLength kinds.length pos)) posOther p).2.1
          (fieldsPerBlock - pos.toNat - (kinds.drop (restLength kinds.length pos)).length)
          (kinds.drop (restLength kinds.length pos)),
       (if pos = posOther then
          m ((peek m (kinds.take (restLength kinds.length pos)) posOther p).2.1 + fstOff (fieldsPerBlock - 1))
        else 0),
       (peek m (kinds.take (restLength kinds.length pos)) posOther p).2.2 ++
        [((peek m (kinds.take (restLength kinds.length pos)) posOther p).2.1,
          kinds.drop (restLength kinds.length pos), pos)]) := by
  rw [peek]
  simp only [hne, ↓reduceDIte]

/-- the blocks visited by `peek` form a chain starting at `p`: `Linked m a l` = following the links
(pointer slot 2, offset 48) from `a` visits exactly the blocks `l` -/
def Linked (m : Nat → Nat) : Nat → List Nat → Prop
  | _, [] => True
  | a, b :: rest => b = a ∧ Linked m (m (a + 48)) rest

theorem Linked.append {m : Nat → Nat} : ∀ {l : List Nat} {a : Nat} {b : Nat},
    Linked m a l → (l = [] → b = a) → (∀ x, l.getLast? = some x → b = m (x + 48)) → Linked m a (l ++ [b])
  | [], a, b, _, h0, _ => by
    show Linked m a [b]
    exact ⟨h0 rfl, trivial⟩
  | [x], a, b, h, _, hl => by
    obtain ⟨hx, _⟩ := h
    show Linked m a [x, b]
    exact ⟨hx, by rw [← hx]; exact hl x rfl, trivial⟩
  | x :: y :: rest, a, b, h, _, hl => by
    obtain ⟨hx, h2⟩ := h
    show Linked m a (x :: ((y :: rest) ++ [b]))
    refine ⟨hx, Linked.append h2 (by simp) ?_⟩
    intro z hz
    exact hl z (by simpa [List.getLast?_cons_cons] using hz)

/-- structure of a chain, by the same recursion as `peek`: the continuation block of a non-empty
chain at position `other` is the link of the last visited block; all blocks but the last are `other` -/
theorem peek_chain (m : Nat → Nat) : ∀ (n : Nat) (kinds : List Bool) (pos : BlockPosition) (p : Nat),
    kinds.length ≤ n →
    Linked m p ((peek m kinds pos p).2.2.map (·.1)) ∧
    (kinds = [] → (peek m kinds pos p).2.1 = p) ∧
    (kinds ≠ [] → pos = posOther →
      ∃ x, ((peek m kinds pos p).2.2.map (·.1)).getLast? = some x ∧ (peek m kinds pos p).2.1 = m (x + 48)) ∧
    ((peek m kinds pos p).2.2 = [] ↔ kinds = [])
  | 0, kinds, pos, p, hn => by
    have : kinds = [] := List.length_eq_zero_iff.mp (by omega)
    subst this
    rw [peek_nil]
    exact ⟨trivial, fun _ => rfl, fun h => absurd rfl h, by simp⟩
  | n + 1, kinds, pos, p, hn => by
    by_cases hk : kinds = []
    · subst hk
      rw [peek_nil]
      exact ⟨trivial, fun _ => rfl, fun h => absurd rfl h, by simp⟩
    · have hpos : 0 < kinds.length := List.length_pos_iff.mpr hk
      have hrl := restLength_lt kinds.length pos hpos
      obtain ⟨ih1, ih2, ih3, ih4⟩ := peek_chain m n (kinds.take (restLength kinds.length pos)) posOther p
        (by rw [List.length_take]; omega)
      rw [peek_cons m hk]
      refine ⟨?_, fun h => absurd h hk, ?_, by simp [hk]⟩
      · simp only [List.map_append, List.map_cons, List.map_nil]
        apply Linked.append ih1
        · intro hnil
          have : (peek m (kinds.take (restLength kinds.length pos)) posOther p).2.2 = [] := by
            simpa using hnil
          exact ih2 (ih4.mp this)
        · intro x hx
          have hne' : kinds.take (restLength kinds.length pos) ≠ [] := by
            intro e
            have := ih4.mpr e
            rw [this] at hx; simp at hx
          obtain ⟨y, hy1, hy2⟩ := ih3 hne' rfl
          rw [hy1] at hx; injection hx with hx; subst hx
          exact hy2
      · intro _ hp
        refine ⟨(peek m (kinds.take (restLength kinds.length pos)) posOther p).2.1, by simp, ?_⟩
        simp only [hp, if_true, fstOff, fieldOffset, fieldsPerBlock]

/-- all visited blocks but the last are at position `other`; the last is at `pos` -/
theorem peek_positions (m : Nat → Nat) : ∀ (n : Nat) (kinds : List Bool) (pos : BlockPosition) (p : Nat),
    kinds.length ≤ n → kinds ≠ [] →
    ∃ (init : List Visit) (blk : Nat) (lastKs : List Bool),
      (peek m kinds pos p).2.2 = init ++ [(blk, lastKs, pos)] ∧ ∀ v ∈ init, v.2.2 = posOther
  | 0, kinds, pos, p, hn, hk => by
    exact absurd (List.length_eq_zero_iff.mp (by omega)) hk
  | n + 1, kinds, pos, p, hn, hk => by
    have hpos : 0 < kinds.length := List.length_pos_iff.mpr hk
    have hrl := restLength_lt kinds.length pos hpos
    rw [peek_cons m hk]
    refine ⟨(peek m (kinds.take (restLength kinds.length pos)) posOther p).2.2, _, _, rfl, ?_⟩
    intro v hv
    by_cases hk' : kinds.take (restLength kinds.length pos) = []
    · rw [hk', peek_nil] at hv; simp at hv
    · obtain ⟨init, blk, lastKs, e, hi⟩ := peek_positions m n _ posOther p
        (by rw [List.length_take]; omega) hk'
      rw [e] at hv
      simp only [List.mem_append, List.mem_singleton] at hv
      rcases hv with hv | rfl
      · exact hi v hv
      · rfl

/-! ## `peek` does not look at header words -/

/-- `peek` only reads the words 2..7 of the blocks it visits -/
theorem peek_congr {m m' : Nat → Nat} : ∀ (n : Nat) (kinds : List Bool) (pos : BlockPosition) (p : Nat),
    kinds.length ≤ n →
    (∀ b ∈ (peek m kinds pos p).2.2.map (·.1), ∀ k, 0 < k → k < 64 → m' (b + k) = m (b + k)) →
    peek m' kinds pos p = peek m kinds pos p
  | 0, kinds, pos, p, hn, _ => by
    have : kinds = [] := List.length_eq_zero_iff.mp (by omega)
    subst this
    rw [peek_nil, peek_nil]
  | n + 1, kinds, pos, p, hn, hf => by
    by_cases hk : kinds = []
    · subst hk; rw [peek_nil, peek_nil]
    · have hpos : 0 < kinds.length := List.length_pos_iff.mpr hk
      have hrl := restLength_lt kinds.length pos hpos
      rw [peek_cons m hk] at hf
      have ih := peek_congr (m := m) (m' := m') n (kinds.take (restLength kinds.length pos)) posOther p
        (by rw [List.length_take]; omega)
        (fun b hb => hf b (by simp only [List.map_append, List.mem_append]; exact Or.inl hb))
      have hblk := hf (peek m (kinds.take (restLength kinds.length pos)) posOther p).2.1 (by simp)
      rw [peek_cons m' hk, peek_cons m hk, ih]
      have hlen : fieldsPerBlock - pos.toNat - (kinds.drop (restLength kinds.length pos)).length +
          (kinds.drop (restLength kinds.length pos)).length ≤ 3 := by
        have h1 := length_drop_restLength kinds.length pos
        rw [List.length_drop]
        have h2 : fieldsPerBlock - pos.toNat ≤ 3 := by
          unfold fieldsPerBlock; omega
        omega
      rw [fieldsAt_congr hblk _ _ hlen]
      rw [hblk (fstOff (fieldsPerBlock - 1)) (by simp [fstOff, fieldOffset, fieldsPerBlock])
        (by simp [fstOff, fieldOffset, fieldsPerBlock])]


/-! ## pointer slots of a chain -/

theorem mem_ptrFields {m : Nat → Nat} {bs : List Nat} {x : Nat} :
    x ∈ ptrFields m bs ↔ ∃ b ∈ bs, x ∈ ptrSlots m b := by
  simp [ptrFields, List.mem_flatMap]

theorem ptrsOf_fieldsAt_sub (m : Nat → Nat) (blk : Nat) : ∀ (i : Nat) (ks : List Bool), i + ks.length ≤ 3 →
    ∀ x ∈ ptrsOf (fieldsAt m blk i ks), x ∈ ptrSlots m blk
  | _, [], _, x, hx => by simp [fieldsAt, ptrsOf] at hx
  | i, k :: ks, hl, x, hx => by
    simp only [List.length_cons] at hl
    cases k with
    | false =>
      simp only [fieldsAt, Bool.false_eq_true, if_false, ptrsOf] at hx
      exact ptrsOf_fieldsAt_sub m blk (i + 1) ks (by omega) x hx
    | true =>
      simp only [fieldsAt, if_true, ptrsOf, List.mem_cons] at hx
      rcases hx with rfl | hx
      · exact mem_ptrSlots_of_off (by omega)
      · exact ptrsOf_fieldsAt_sub m blk (i + 1) ks (by omega) x hx

/-- the pointers read by `peek` are pointer slots of the visited blocks -/
theorem ptrsOf_peek_sub (m : Nat → Nat) : ∀ (n : Nat) (kinds : List Bool) (pos : BlockPosition) (p : Nat),
    kinds.length ≤ n →
    ∀ x ∈ ptrsOf (peek m kinds pos p).1, x ∈ ptrFields m ((peek m kinds pos p).2.2.map (·.1))
  | 0, kinds, pos, p, hn, x, hx => by
    have : kinds = [] := List.length_eq_zero_iff.mp (by omega)
    subst this
    rw [peek_nil] at hx; simp [ptrsOf] at hx
  | n + 1, kinds, pos, p, hn, x, hx => by
    by_cases hk : kinds = []
    · subst hk; rw [peek_nil] at hx; simp [ptrsOf] at hx
    · have hpos : 0 < kinds.length := List.length_pos_iff.mpr hk
      have hrl := restLength_lt kinds.length pos hpos
      rw [peek_cons m hk] at hx ⊢
      simp only [ptrsOf_append, List.mem_append] at hx
      simp only [List.map_append, List.map_cons, List.map_nil, ptrFields_append, List.mem_append]
      rcases hx with hx | hx
      · exact Or.inl (ptrsOf_peek_sub m n _ posOther p (by rw [List.length_take]; omega) x hx)
      · right
        rw [ptrFields_cons, ptrFields_nil, List.append_nil]
        refine ptrsOf_fieldsAt_sub m _ _ _ ?_ x hx
        have h1 := length_drop_restLength kinds.length pos
        rw [List.length_drop]
        have h2 : fieldsPerBlock - pos.toNat ≤ 3 := by unfold fieldsPerBlock; omega
        omega

/-- a child of an abstract object appears, as its image, among the pointers of the field images -/
theorem child_mem_ptrsOf (ι : Nat → Nat) : ∀ (fs : List AField) (c : Nat),
    c ∈ (fs.filterMap fun f => if f.chi != Scc.AxCut.Chi.ext && f.ptr != 0 then some f.ptr.toNat else none) →
    ι c ∈ ptrsOf (fs.map (fieldImg ι))
  | [], c, h => by simp at h
  | f :: fs, c, h => by
    simp only [List.map_cons]
    by_cases hk : kindB f = true
    · have hf : fieldImg ι f = .ptr (imgW ι f.ptr) f.val.toNat := by simp [fieldImg, hk]
      rw [hf]
      simp only [ptrsOf, List.mem_cons]
      have hk' : (f.chi != Scc.AxCut.Chi.ext) = true := hk
      by_cases hp : f.ptr = 0
      · have hc : (f.chi != Scc.AxCut.Chi.ext && f.ptr != 0) = false := by simp [hp]
        rw [List.filterMap_cons, if_neg (by rw [hc]; simp)] at h
        exact Or.inr (child_mem_ptrsOf ι fs c h)
      · have hc : (f.chi != Scc.AxCut.Chi.ext && f.ptr != 0) = true := by
          rw [hk', Bool.true_and, bne_iff_ne]; exact hp
        rw [List.filterMap_cons, if_pos hc] at h
        simp only [List.mem_cons] at h
        rcases h with rfl | h
        · left; unfold imgW; rw [if_neg hp]
        · exact Or.inr (child_mem_ptrsOf ι fs c h)
    · have hk' : (f.chi != Scc.AxCut.Chi.ext) = false := by
        have : kindB f = false := by simpa using hk
        exact this
      have hf : fieldImg ι f = .int f.val.toNat := by
        have : kindB f = false := hk'
        simp [fieldImg, this]
      rw [hf]
      simp only [ptrsOf]
      have hc : (f.chi != Scc.AxCut.Chi.ext && f.ptr != 0) = false := by rw [hk']; rfl
      rw [List.filterMap_cons, if_neg (by rw [hc]; simp)] at h
      exact child_mem_ptrsOf ι fs c h

theorem childSum_pos {h : Heap} {x : Nat} (hp : 0 < Scc.Backend.Sim2.childSum h x) :
    ∃ e ∈ h, x ∈ e.2.children := by
  induction h with
  | nil => simp [Scc.Backend.Sim2.childSum] at hp
  | cons a h ih =>
    simp only [Scc.Backend.Sim2.childSum, List.map_cons, List.sum_cons] at hp
    by_cases ha : 0 < a.2.children.count x
    · exact ⟨a, by simp, List.count_pos_iff.mp ha⟩
    · obtain ⟨e, he, hx⟩ := ih (by simp only [Scc.Backend.Sim2.childSum]; omega)
      exact ⟨e, by simp [he], hx⟩

/-! ## every chain of an abstract object lies in `live` -/

section Reach

variable {m : Nat → Nat} {base limit heap free F : Nat} {lin lazy live : List Nat}
  {h : Heap} {rs : List Nat} {next : Nat} {ι : Nat → Nat}

/-- along a chain: if the head is live, so is every block (links of live blocks are live) -/
theorem linked_live (I : InvW m base limit heap free (rs.map ι) [] lin lazy live F) :
    ∀ (l : List Nat) (a : Nat), Linked m a l → (l ≠ [] → a ∈ live) →
      (∀ b ∈ l.dropLast, m (b + 48) ≠ 0) → ∀ b ∈ l, b ∈ live
  | [], _, _, _, _, b, hb => by simp at hb
  | [x], a, hl, ha, _, b, hb => by
    simp only [List.mem_singleton] at hb
    subst hb
    rw [hl.1]; exact ha (by simp)
  | x :: y :: rest, a, hl, ha, hnz, b, hb => by
    obtain ⟨rfl, hl2⟩ := hl
    have hx : x ∈ live := ha (by simp)
    simp only [List.mem_cons] at hb
    rcases hb with rfl | hb
    · exact hx
    · have hy : y = m (x + 48) := hl2.1
      have hlink : m (x + 48) ∈ ptrSlots m x := by simp [ptrSlots]
      have hnz' : m (x + 48) ≠ 0 := hnz x (by simp [List.dropLast])
      have hylive : m (x + 48) ∈ live := by
        rcases I.slot_live hx hlink with h0 | hl
        · exact absurd h0 hnz'
        · exact hl
      refine linked_live I (y :: rest) (m (x + 48)) hl2 (fun _ => hylive) ?_ b (by simpa using hb)
      intro c hc
      exact hnz c (by
        simp only [List.dropLast_cons_cons, List.mem_cons]
        exact Or.inr hc)

/-- all blocks of a chain but the last carry a non-null link -/
theorem chain_links_ne {p : Nat} {fs : List AField} (O : ObjAt m ι p fs) :
    ∀ b ∈ (blocksOf m p fs).dropLast, m (b + 48) ≠ 0 := by
  intro b hb
  have hk : fs.map kindB ≠ [] := by simpa using O.ne
  obtain ⟨init, blk, lastKs, e, hi⟩ := peek_positions m _ (fs.map kindB) .last p (Nat.le_refl _) hk
  have hb' : b ∈ init.map (·.1) := by
    unfold blocksOf chainOf at hb
    rw [e] at hb
    simpa [List.dropLast_concat] using hb
  obtain ⟨v, hv, rfl⟩ := List.mem_map.1 hb'
  have hpre := O.pre v (by unfold chainOf; rw [e]; simp [hv])
  have := hpre.link (hi v hv)
  simpa [fstOff, fieldOffset, fieldsPerBlock] using this

/-- THE REACHABILITY LEMMA (general form): if the image of every abstract root is live, so is every block
of every abstract object.  `roots` (the roots of the block-level invariant) is arbitrary. -/
theorem chains_live_supp {roots : List Nat}
    (I : InvW m base limit heap free roots [] lin lazy live F)
    (A : Scc.Backend.Sim.HeapOK h rs next) (hord : ∀ e ∈ h, ∀ c ∈ e.2.children, c < e.1)
    (hshape : ∀ e ∈ h, ObjAt m ι (ι e.1) e.2.fields) (hsupp : ∀ r ∈ rs, ι r ∈ live) :
    ∀ (k : Nat) (e : Nat × Obj), e ∈ h → next - e.1 ≤ k → ∀ b ∈ blocksOf m (ι e.1) e.2.fields, b ∈ live := by
  have slot_live' : ∀ {blk q : Nat}, blk ∈ live → q ∈ ptrSlots m blk → q = 0 ∨ q ∈ live := by
    intro blk q hb hq
    apply I.fields_live
    exact ptrSlots_sub_ptrFields (List.mem_append.2 (Or.inl hb)) q hq
  have linked : ∀ (l : List Nat) (a : Nat), Linked m a l → (l ≠ [] → a ∈ live) →
      (∀ b ∈ l.dropLast, m (b + 48) ≠ 0) → ∀ b ∈ l, b ∈ live := by
    intro l
    induction l with
    | nil => intro a _ _ _ b hb; simp at hb
    | cons x rest ih =>
      intro a hl ha hnz b hb
      obtain ⟨rfl, hl2⟩ := hl
      have hx : x ∈ live := ha (by simp)
      simp only [List.mem_cons] at hb
      rcases hb with rfl | hb
      · exact hx
      · cases rest with
        | nil => simp at hb
        | cons y rest' =>
          have hlink : m (x + 48) ∈ ptrSlots m x := by simp [ptrSlots]
          have hnz' : m (x + 48) ≠ 0 := hnz x (by simp [List.dropLast])
          have hylive : m (x + 48) ∈ live := by
            rcases slot_live' hx hlink with h0 | hl
            · exact absurd h0 hnz'
            · exact hl
          refine ih (m (x + 48)) hl2 (fun _ => hylive) ?_ b hb
          intro c hc
          exact hnz c (by
            simp only [List.dropLast_cons_cons, List.mem_cons]
            exact Or.inr hc)
  intro k
  induction k with
  | zero =>
    intro e he hk
    have := (A.ids e he).2.1
    omega
  | succ k ih =>
    intro e he hk b hb
    have O := hshape e he
    have hkinds : e.2.fields.map kindB ≠ [] := by simpa using O.ne
    have hhead : ι e.1 ∈ live := by
      have hc := A.counts e he
      rw [Scc.Backend.Sim2.refCount_eq] at hc
      by_cases hr : 0 < rs.count e.1
      · exact hsupp e.1 (List.count_pos_iff.mp hr)
      · obtain ⟨e', he', hch⟩ := childSum_pos (h := h) (x := e.1) (by omega)
        have hlt := hord e' he' e.1 hch
        have hn' := (A.ids e' he').2.1
        have hblocks := ih e' he' (by omega)
        have O' := hshape e' he'
        have hmem : ι e.1 ∈ ptrsOf (e'.2.fields.map (fieldImg ι)) := child_mem_ptrsOf ι _ _ hch
        rw [← O'.vals] at hmem
        have hslot := ptrsOf_peek_sub m _ _ .last (ι e'.1) (Nat.le_refl _) _ hmem
        obtain ⟨b', hb', hx⟩ := mem_ptrFields.1 hslot
        rcases slot_live' (hblocks b' hb') hx with h0 | hl
        · exact absurd h0 O.pos
        · exact hl
    have hlinked := (peek_chain m _ (e.2.fields.map kindB) .last (ι e.1) (Nat.le_refl _)).1
    exact linked _ _ hlinked (fun _ => hhead) (chain_links_ne O) b hb

/-- THE REACHABILITY LEMMA: every block of every abstract object is live at block level -/
theorem chains_live (I : InvW m base limit heap free (rs.map ι) [] lin lazy live F)
    (A : Scc.Backend.Sim.HeapOK h rs next) (hord : ∀ e ∈ h, ∀ c ∈ e.2.children, c < e.1)
    (hshape : ∀ e ∈ h, ObjAt m ι (ι e.1) e.2.fields) :
    ∀ (k : Nat) (e : Nat × Obj), e ∈ h → next - e.1 ≤ k → ∀ b ∈ blocksOf m (ι e.1) e.2.fields, b ∈ live := by
  apply chains_live_supp I A hord hshape
  intro r hr
  have hmem : ι r ∈ rs.map ι := List.mem_map.2 ⟨r, hr, rfl⟩
  rcases I.roots_live _ hmem with h0 | hl
  · -- a root is a live abstract object, whose head is not null
    have hlive : (h.get r).isSome := by
      apply A.live
      have : 0 < rs.count r := List.count_pos_iff.mpr hr
      rw [Scc.Backend.Sim2.refCount_eq]; omega
    cases hg : h.get r with
    | none => rw [hg] at hlive; simp at hlive
    | some o =>
      have := (hshape (r, o) (Scc.Backend.Sim.heap_get_mem hg)).pos
      exact absurd h0 this
  · exact hl

end Reach

end Scc.Heap.Refine
