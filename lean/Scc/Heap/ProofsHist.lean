/-
Scc.Heap.ProofsHist — `load`, the history-level operations `applyOp` / `applyOps`, the relation
between the witnesses of the invariant and the walk functions of the model, and the frontier bound.
-/
import Scc.Heap.ProofsLoad

namespace Scc.Heap

/-! ### Cardinality: the witnesses partition the blocks below the frontier -/

def blocksList (base n : Nat) : List Nat := (List.range n).map (fun k => base + 64 * k)

theorem blocksList_nodup (base n : Nat) : (blocksList base n).Nodup := by
  unfold blocksList List.Nodup
  rw [List.pairwise_map]
  exact List.Pairwise.imp (fun {a b} (h : a ≠ b) => by omega) List.nodup_range

theorem mem_blocksList {base n a : Nat} :
    a ∈ blocksList base n ↔ IsBlock base a ∧ a < base + 64 * n := by
  unfold blocksList IsBlock
  rw [List.mem_map]
  constructor
  · rintro ⟨k, hk, rfl⟩
    rw [List.mem_range] at hk
    omega
  · rintro ⟨⟨h1, h2⟩, h3⟩
    exact ⟨(a - base) / 64, List.mem_range.mpr (by omega), by omega⟩

theorem InvW.card {m : Nat → Nat} {base limit heap free F : Nat}
    {roots pend lin lazy live : List Nat}
    (h : InvW m base limit heap free roots pend lin lazy live F) :
    lin.length + lazy.length + live.length + pend.length = (F - base) / 64 := by
  have hF := h.frontier_block
  have hFe : F = base + 64 * ((F - base) / 64) := by unfold IsBlock at hF; omega
  have hperm : (lin ++ lazy ++ live ++ pend).Perm (blocksList base ((F - base) / 64)) := by
    rw [List.perm_ext_iff_of_nodup h.nodup (blocksList_nodup _ _)]
    intro a
    rw [h.cover a, mem_blocksList, ← hFe]
  have := hperm.length_eq
  simp only [List.length_append, blocksList, List.length_map, List.length_range] at this
  exact this

/-! ### The walk functions of the model compute the witnesses -/

theorem walk_of_chain {m : Nat → Nat} : ∀ {l : List Nat} {a fuel : Nat},
    Chain m a l → l.length < fuel → walk m fuel a = l
  | [], a, fuel + 1, h, _ => by
    have : a = 0 := h
    simp [walk, this]
  | x :: xs, a, fuel + 1, h, hl => by
    obtain ⟨rfl, h0, hc⟩ := h
    simp only [walk, h0, if_false]
    rw [walk_of_chain hc (by simp at hl; omega)]

theorem walkToFrontier_of_chain {m : Nat → Nat} : ∀ {l : List Nat} {a F fuel : Nat},
    Chain m a (l ++ [F]) → l.length < fuel → walkToFrontier m fuel a = l ++ [F]
  | [], a, F, fuel + 1, h, _ => by
    obtain ⟨rfl, _, h0⟩ := h
    have h0' : m a = 0 := h0
    simp [walkToFrontier, h0']
  | x :: xs, a, F, fuel + 1, h, hl => by
    obtain ⟨rfl, _, hc⟩ : Chain m a (x :: (xs ++ [F])) := h
    have hne : m a ≠ 0 := by
      cases xs with
      | nil => exact hc.1 ▸ hc.2.1
      | cons y ys => exact hc.1 ▸ hc.2.1
    simp only [walkToFrontier, hne, if_false, List.cons_append]
    rw [walkToFrontier_of_chain hc (by simp at hl; omega)]

theorem InvS.fuel_ok {s : HState} {F : Nat} {roots pend lin lazy live : List Nat}
    (h : InvS s roots pend lin lazy live F) : (F - s.base) / 64 + 1 < s.fuel := by
  have := h.frontier_room
  have := h.frontier_block
  unfold HState.fuel blockSize IsBlock at *
  omega

theorem InvS.linList_eq {s : HState} {F : Nat} {roots pend lin lazy live : List Nat}
    (h : InvS s roots pend lin lazy live F) : s.linList = lin := by
  have := h.card; have := h.fuel_ok
  exact walk_of_chain h.lin_chain (by omega)

theorem InvS.freeList_eq {s : HState} {F : Nat} {roots pend lin lazy live : List Nat}
    (h : InvS s roots pend lin lazy live F) : s.freeList = lazy ++ [F] := by
  have := h.card; have := h.fuel_ok
  exact walkToFrontier_of_chain h.lazy_chain (by omega)

theorem InvS.frontier_eq {s : HState} {F : Nat} {roots pend lin lazy live : List Nat}
    (h : InvS s roots pend lin lazy live F) : s.frontier = F := by
  unfold HState.frontier
  rw [h.freeList_eq, List.getLastD_concat]

theorem InvS.blocksBelowFrontier_eq {s : HState} {F : Nat} {roots pend lin lazy live : List Nat}
    (h : InvS s roots pend lin lazy live F) : s.blocksBelowFrontier = (F - s.base) / 64 := by
  unfold HState.blocksBelowFrontier blockSize
  rw [h.frontier_eq]

theorem InvS.liveCount_eq {s : HState} {F : Nat} {roots lin lazy live : List Nat}
    (h : InvS s roots [] lin lazy live F) : s.liveCount = live.length := by
  unfold HState.liveCount
  have := h.card
  rw [h.blocksBelowFrontier_eq, h.linList_eq, h.freeList_eq]
  simp only [List.length_append, List.length_cons, List.length_nil] at this ⊢
  omega

/-- The witnesses of the invariant are unique: they are functions of the state. -/
theorem InvS.witness_unique {s : HState} {F F' : Nat} {roots roots' pend pend' lin lazy live lin' lazy' live' : List Nat}
    (h : InvS s roots pend lin lazy live F) (h' : InvS s roots' pend' lin' lazy' live' F') :
    lin' = lin ∧ lazy' = lazy ∧ F' = F := by
  have h1 := h.linList_eq.symm.trans h'.linList_eq
  have h2 := h.freeList_eq.symm.trans h'.freeList_eq
  have h3 := h.frontier_eq.symm.trans h'.frontier_eq
  subst h3
  exact ⟨h1.symm, (List.append_cancel_right h2).symm, rfl⟩

/-! ### `load` -/

/-- Precondition of `load` on the object at root `p`: without fields the pointer is null ("no
allocation"); otherwise it is not null and the chain has the shape that `kinds` describes
(`LoadPre`), in the state in which `load_fields` starts (in share mode: after the decrement). -/
def LoadObjPre (s : HState) (p : Nat) (kinds : List Bool) : Prop :=
  if kinds = [] then p = 0
  else p ≠ 0 ∧
    (if s.mem.get p = 0 then LoadPre s kinds .last .release p
     else LoadPre { s with mem := s.mem.set p (s.mem.get p - 1) } kinds .last .share p)

/-- `Memory::load` (C09-T1: load in release mode and in share mode). The frontier and the deferred
list do not change. -/
theorem loadObj_spec {s : HState} {F p : Nat} {roots lin lazy live : List Nat} {kinds : List Bool}
    (h : InvS s (p :: roots) [] lin lazy live F) (hpre : LoadObjPre s p kinds) :
    ∃ s' vals lin' live', loadObj s p kinds = .ok (s', vals) ∧ SameHeap s s' ∧
      InvS s' (ptrsOf vals ++ roots) [] lin' lazy live' F := by
  unfold LoadObjPre at hpre
  by_cases hk : kinds = []
  · rw [if_pos hk] at hpre
    subst hk; subst hpre
    exact ⟨s, [], lin, live, by simp [loadObj], SameHeap.refl s, by
      have := InvW.roots_zero h
      simpa [ptrsOf, InvS] using this⟩
  · rw [if_neg hk] at hpre
    obtain ⟨hp0, hpre⟩ := hpre
    have hpl : p ∈ live := by
      rcases h.roots_live p (by simp) with h0 | hl
      · exact absurd h0 hp0
      · exact hl
    have hpb := h.live_block hpl
    have hrd := h.rd_block (k := 0) hpb.1 (Nat.le_of_lt hpb.2) (by omega) (by omega)
    simp only [Nat.add_zero] at hrd
    by_cases hc : s.mem.get p = 0
    · rw [if_pos hc] at hpre
      obtain ⟨s', vals, nxt, lin', live', hl, hsame, _, hi, _⟩ :=
        loadFields_release_spec kinds.length kinds .last (Nat.le_refl _) h hp0 hc hpre
          (fun e => absurd e hk)
      refine ⟨s', vals, lin', live', ?_, hsame, by simpa using hi⟩
      simp [loadObj, hk, hrd, hc, hl]
    · rw [if_neg hc] at hpre
      have hwr := h.wr_block (k := 0) (s.mem.get p - 1) hpb.1 (Nat.le_of_lt hpb.2) (by omega) (by omega)
      simp only [Nat.add_zero] at hwr
      have hi0 : InvS { s with mem := s.mem.set p (s.mem.get p - 1) } roots [] lin lazy live F := by
        show InvW (s.mem.set p _).get _ _ _ _ _ _ _ _ _ _
        rw [Mem.get_set_upd]
        refine InvW.header_update h hpl ?_ ?_
        · rw [List.count_cons_self]; omega
        · intro b _ hb; rw [List.count_cons_of_ne (Ne.symm hb)]
      obtain ⟨s', vals, nxt, hl, hsame, _, _, _, hi, _⟩ :=
        loadFields_share_spec kinds.length kinds .last (Nat.le_refl _) hi0 hpl hpre
      refine ⟨s', vals, lin, live, ?_, ⟨hsame.base, hsame.limit⟩, hi⟩
      simp [loadObj, hk, hrd, hc, hwr, hl]

/-! ### Histories -/

theorem consumeRoots_perm : ∀ {rs roots roots1 : List Nat},
    consumeRoots roots rs = .ok roots1 → roots.Perm (rs ++ roots1)
  | [], roots, roots1, h => by
    simp only [consumeRoots] at h
    injection h with h; subst h; simp
  | r :: rs, roots, roots1, h => by
    simp only [consumeRoots] at h
    split at h
    · rename_i hr
      have ih := consumeRoots_perm h
      exact (List.perm_cons_erase hr).trans (List.Perm.cons r ih)
    · cases h

/-- Precondition of one history step: the roots it mentions are held; loads respect the shape of
the object. -/
def OpPre (st : HState × List Nat) : HOp → Prop
  | .erase r => r ∈ st.2
  | .share r _ => r ∈ st.2
  | .store fields => ∃ roots1, consumeRoots st.2 (ptrsOf (fields.map FieldRef.toField)) = .ok roots1
  | .load r kinds => r ∈ st.2 ∧ LoadObjPre st.1 r kinds

/-! ### The executable precondition checks of the model are sound -/

theorem blockPreB_sound {m : Nat → Nat} {blk : Nat} {ks : List Bool} {pos : BlockPosition}
    (h : blockPreB m blk ks pos = true) : BlockPre m blk ks pos := by
  unfold blockPreB at h
  rw [Bool.and_eq_true, List.all_eq_true] at h
  obtain ⟨h1, h2⟩ := h
  constructor
  · intro i hi hs
    have := h1 i (List.mem_range.mpr hi)
    rw [hs] at this
    simpa using this
  · intro hp
    subst hp
    simpa using h2

theorem loadPreB_sound {s : HState} {mode : LoadMode} {p : Nat} : ∀ (n : Nat) (kinds : List Bool)
    (pos : BlockPosition), kinds.length ≤ n → loadPreB s kinds pos mode p = true →
    LoadPre s kinds pos mode p := by
  intro n
  induction n with
  | zero =>
    intro kinds pos hn _
    have hk : kinds = [] := List.length_eq_zero_iff.mp (by omega)
    subst hk
    rw [LoadPre]; simp
  | succ n ih =>
    intro kinds pos hn h
    by_cases hk : kinds = []
    · subst hk; rw [LoadPre]; simp
    · have hlpos : 0 < kinds.length := List.length_pos_iff.mpr hk
      have hrl := restLength_lt kinds.length pos hlpos
      rw [loadPreB] at h
      simp only [hk, ↓reduceDIte, Bool.and_eq_true] at h
      obtain ⟨h1, h2⟩ := h
      rw [LoadPre]
      simp only [hk, ↓reduceDIte]
      refine ⟨ih _ _ (by rw [List.length_take]; omega) h1, ?_⟩
      intro s1 vals1 blk hl
      rw [hl] at h2
      simp only [Bool.and_eq_true] at h2
      refine ⟨blockPreB_sound h2.1, ?_⟩
      intro hm hne
      have h3 := h2.2
      subst hm
      simp only [bne_self_eq_false, Bool.false_or, Bool.or_eq_true, List.isEmpty_iff,
        beq_iff_eq] at h3
      rcases h3 with h3 | h3
      · exact absurd h3 hne
      · exact h3

theorem loadObjPreB_sound {s : HState} {p : Nat} {kinds : List Bool}
    (h : loadObjPreB s p kinds = true) : LoadObjPre s p kinds := by
  unfold loadObjPreB at h
  unfold LoadObjPre
  by_cases hk : kinds = []
  · simp only [hk, if_true] at h ⊢
    simpa using h
  · simp only [hk, if_false, Bool.and_eq_true] at h ⊢
    refine ⟨by simpa using h.1, ?_⟩
    have h2 := h.2
    by_cases hc : s.mem.get p = 0
    · simp only [hc, if_true] at h2 ⊢
      have := loadPreB_sound (s := s) kinds.length kinds .last (Nat.le_refl _) (by simpa [hc] using h2)
      exact this
    · simp only [hc, if_false] at h2 ⊢
      exact loadPreB_sound kinds.length kinds .last (Nat.le_refl _) h2

theorem opPreB_sound {st : HState × List Nat} {op : HOp} (h : opPreB st op = true) : OpPre st op := by
  cases op with
  | erase r => simpa [opPreB, OpPre] using h
  | share r n => simpa [opPreB, OpPre] using h
  | store fields =>
    simp only [opPreB] at h
    simp only [OpPre]
    split at h
    · rename_i r hr; exact ⟨r, hr⟩
    · cases h
  | load r kinds =>
    simp only [opPreB, Bool.and_eq_true] at h
    exact ⟨by simpa using h.1, loadObjPreB_sound h.2⟩

/-- Well-formed histories: every op satisfies its precondition in the state in which it runs. -/
def WfOps (st : HState × List Nat) : List HOp → Prop
  | [] => True
  | op :: ops => OpPre st op ∧ ∀ st', applyOp st op = .ok st' → WfOps st' ops

/-- Upper bound on the number of blocks a history can take from the unused part of the heap. -/
def storeCost : List HOp → Nat
  | [] => 0
  | .store fields :: ops => fields.length + storeCost ops
  | _ :: ops => storeCost ops

def opCost : HOp → Nat
  | .store fields => fields.length
  | _ => 0

/-- One history step preserves the invariant; the frontier moves only in `store`, and when it has
moved both free lists are exhausted again. -/
theorem applyOp_spec {s : HState} {F : Nat} {roots lin lazy live : List Nat} {op : HOp}
    (h : InvS s roots [] lin lazy live F) (hpre : OpPre (s, roots) op)
    (hroom : F + 64 * opCost op + 64 ≤ s.limit) :
    ∃ s' roots' lin' lazy' live' F', applyOp (s, roots) op = .ok (s', roots') ∧ SameHeap s s' ∧
      InvS s' roots' [] lin' lazy' live' F' ∧ F ≤ F' ∧ F' ≤ F + 64 * opCost op ∧
      (F' = F ∨ Exhausted lin' lazy') := by
  cases op with
  | erase r =>
    have hr : r ∈ roots := hpre
    have h1 : InvS s (r :: roots.erase r) [] lin lazy live F :=
      InvW.roots_perm h (List.perm_cons_erase hr).symm
    obtain ⟨s', lazy', live', he, hsame, _, _, hi, _⟩ := eraseBlock_spec h1
    exact ⟨s', _, lin, lazy', live', F, by simp [applyOp, hr, he], hsame, hi, Nat.le_refl _,
      by simp [opCost], Or.inl rfl⟩
  | share r n =>
    have hr : r ∈ roots := hpre
    obtain ⟨s', he, hsame, _, _, _, hi⟩ := shareBlock_spec (n := n) h (h.roots_live r hr)
    exact ⟨s', _, lin, lazy, live, F, by simp [applyOp, hr, he], hsame, hi, Nat.le_refl _,
      by simp [opCost], Or.inl rfl⟩
  | store fields =>
    obtain ⟨roots1, hc⟩ := hpre
    have hperm := consumeRoots_perm hc
    obtain ⟨s', p, lin', lazy', live', F', hst, hsame, hi, hle1, hle2, _, hd⟩ :=
      storeObj_spec (fields.map FieldRef.toField) roots1 h
        (fun x _ => by rw [hperm.count_eq, List.count_append])
        (by simpa [opCost] using hroom)
    refine ⟨s', p :: roots1, lin', lazy', live', F', ?_, hsame, hi, hle1, ?_, hd⟩
    · simp only [applyOp]
      simp only [] at hc
      rw [hc]; simp only []
      rw [hst]
    · simpa [opCost] using hle2
  | load r kinds =>
    obtain ⟨hr, hlp⟩ := hpre
    have h1 : InvS s (r :: roots.erase r) [] lin lazy live F :=
      InvW.roots_perm h (List.perm_cons_erase hr).symm
    obtain ⟨s', vals, lin', live', hl, hsame, hi⟩ := loadObj_spec h1 hlp
    exact ⟨s', _, lin', lazy, live', F, by simp [applyOp, hr, hl], hsame, hi, Nat.le_refl _,
      by simp [opCost], Or.inl rfl⟩

/-- Peak number of live blocks (reachable or waiting beneath a deferred block) over all op
boundaries of a history. -/
def peakLive (st : HState × List Nat) : List HOp → Nat
  | [] => st.1.liveCount
  | op :: ops =>
    max st.1.liveCount (match applyOp st op with
      | .ok st' => peakLive st' ops
      | .error _ => 0)

theorem liveCount_le_peakLive (st : HState × List Nat) (ops : List HOp) :
    st.1.liveCount ≤ peakLive st ops := by
  cases ops with
  | nil => exact Nat.le_refl _
  | cons op ops => exact Nat.le_max_left _ _

theorem storeCost_cons (op : HOp) (ops : List HOp) : storeCost (op :: ops) = opCost op + storeCost ops := by
  cases op <;> simp [storeCost, opCost]

/-- Histories: no fault, the invariant holds at the end (hence, applied to prefixes, at every op
boundary), and the number of blocks below the frontier is at most one more than the peak number of
live blocks. -/
theorem applyOps_spec : ∀ (ops : List HOp) {s : HState} {F : Nat} {roots lin lazy live : List Nat}
    (B : Nat), InvS s roots [] lin lazy live F → WfOps (s, roots) ops →
    F + 64 * storeCost ops + 64 ≤ s.limit → (F - s.base) / 64 ≤ B + 1 →
    ∃ s' roots' lin' lazy' live' F', applyOps (s, roots) ops = .ok (s', roots') ∧ SameHeap s s' ∧
      InvS s' roots' [] lin' lazy' live' F' ∧
      (F' - s.base) / 64 ≤ max B (peakLive (s, roots) ops) + 1
  | [], s, F, roots, lin, lazy, live, B, h, _, _, hB =>
    ⟨s, roots, lin, lazy, live, F, rfl, SameHeap.refl s, h, by
      have := Nat.le_max_left B (peakLive (s, roots) []); omega⟩
  | op :: ops, s, F, roots, lin, lazy, live, B, h, hwf, hroom, hB => by
    obtain ⟨hpre, hwf'⟩ := hwf
    rw [storeCost_cons] at hroom
    obtain ⟨s1, roots1, lin1, lazy1, live1, F1, hap, hsame1, hi1, hle1, hle2, hd⟩ :=
      applyOp_spec h hpre (by omega)
    have hwf1 := hwf' (s1, roots1) hap
    have hlc1 := hi1.liveCount_eq
    have hcard1 := hi1.card
    -- the bound carried to the rest of the history
    obtain ⟨B1, hB1, hB1le⟩ : ∃ B1, (F1 - s1.base) / 64 ≤ B1 + 1 ∧
        max B1 (peakLive (s1, roots1) ops) ≤ max B (peakLive (s, roots) (op :: ops)) := by
      have hpk : peakLive (s, roots) (op :: ops) =
          max s.liveCount (peakLive (s1, roots1) ops) := by
        simp only [peakLive, hap]
      have hlp := liveCount_le_peakLive (s1, roots1) ops
      rcases hd with hd | ⟨hd1, hd2⟩
      · refine ⟨B, by rw [hd, hsame1.base]; exact hB, ?_⟩
        rw [hpk]; omega
      · refine ⟨s1.liveCount, ?_, ?_⟩
        · rw [hlc1, ← hcard1, hd2]; simp only [List.length_nil]; omega
        · rw [hpk]
          simp only [] at hlp
          omega
    obtain ⟨s', roots', lin', lazy', live', F', haps, hsame', hi', hbound⟩ :=
      applyOps_spec ops B1 hi1 hwf1 (by rw [hsame1.limit]; omega) hB1
    refine ⟨s', roots', lin', lazy', live', F', ?_, hsame1.trans hsame', hi', ?_⟩
    · simp only [applyOps, hap]; exact haps
    · rw [hsame1.base] at hbound; omega

/-- The initial state satisfies the invariant. -/
theorem init_inv {base limit : Nat} (hb : 0 < base) (hl : base + 128 ≤ limit) :
    InvS (init base limit) [] [] [base] [] [] (base + 64) := by
  unfold InvS init
  simp only [blockSize]
  exact
  { base_pos := hb
    lin_chain := ⟨rfl, by omega, by simp [Chain]⟩
    lin_ne := by simp
    lazy_chain := ⟨rfl, by simp, by simp [Chain]⟩
    frontier_block := by unfold IsBlock; omega
    frontier_room := by omega
    zero_above := fun a _ _ _ => by simp
    nodup := by simp
    cover := by
      intro a
      simp only [List.append_nil, List.mem_singleton]
      unfold IsBlock; omega
    counts := by simp
    fields_live := by simp [ptrFields]
    roots_live := by simp
    pend_hdr := by simp
    acyclic := ⟨[], List.Perm.refl _, trivial⟩ }

end Scc.Heap
