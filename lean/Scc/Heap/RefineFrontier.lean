/-
Scc.Heap.RefineFrontier — how far the frontier (C10) moves under the block-level operations that the
heap refinement relates to abstract operations: `share`, `erase`, `load` leave it alone, `store` of `n`
fields moves it by at most `64·n` bytes.  `FrLe s s' δ` is stated for ALL witnesses of the invariant
(`InvS.witness_unique`: the frontier is a function of the state).
-/
import Scc.Heap.RefineStoreObj

set_option linter.unusedVariables false
set_option linter.unusedSimpArgs false

namespace Scc.Heap.Refine

open Scc.Heap
open Scc.Backend.Abs (Heap Obj Word)

/-- the heap region is the same and the frontier moves by at most `δ` -/
def FrLe (s s' : HState) (δ : Nat) : Prop :=
  s'.limit = s.limit ∧ s'.base = s.base ∧
  ∀ rs lin lazy live F rs' lin' lazy' live' F', InvS s rs [] lin lazy live F →
    InvS s' rs' [] lin' lazy' live' F' → F' ≤ F + δ

theorem FrLe.of_witness {s s' : HState} {δ : Nat} (hl : s'.limit = s.limit) (hb : s'.base = s.base)
    {rs lin lazy live rs' lin' lazy' live' : List Nat} {F F' : Nat}
    (I : InvS s rs [] lin lazy live F) (I' : InvS s' rs' [] lin' lazy' live' F') (h : F' ≤ F + δ) :
    FrLe s s' δ := by
  refine ⟨hl, hb, ?_⟩
  intro rs1 lin1 lazy1 live1 F1 rs2 lin2 lazy2 live2 F2 J J'
  have e1 := (InvS.witness_unique I J).2.2
  have e2 := (InvS.witness_unique I' J').2.2
  omega

theorem FrLe.refl (s : HState) : FrLe s s 0 :=
  ⟨rfl, rfl, fun _ _ _ _ _ _ _ _ _ _ J J' => by have := (InvS.witness_unique J J').2.2; omega⟩

theorem FrLe.trans {s1 s2 s3 : HState} {a b : Nat} (h1 : FrLe s1 s2 a) (h2 : FrLe s2 s3 b)
    (hw : ∃ rs lin lazy live F, InvS s2 rs [] lin lazy live F) : FrLe s1 s3 (a + b) := by
  obtain ⟨rs2, lin2, lazy2, live2, F2, I2⟩ := hw
  refine ⟨h2.1.trans h1.1, h2.2.1.trans h1.2.1, ?_⟩
  intro rs lin lazy live F rs' lin' lazy' live' F' J J'
  have := h1.2.2 _ _ _ _ _ _ _ _ _ _ J I2
  have := h2.2.2 _ _ _ _ _ _ _ _ _ _ I2 J'
  omega

/-- room below the limit, for all witnesses -/
def Room (s : HState) (n : Nat) : Prop :=
  ∀ rs lin lazy live F, InvS s rs [] lin lazy live F → F + n ≤ s.limit

theorem Room.step {s s' : HState} {n δ : Nat} (hr : Room s n) (hf : FrLe s s' δ) (hδ : δ ≤ n)
    (hw : ∃ rs lin lazy live F, InvS s rs [] lin lazy live F) : Room s' (n - δ) := by
  obtain ⟨rs0, lin0, lazy0, live0, F0, I0⟩ := hw
  intro rs lin lazy live F J
  have h1 := hr _ _ _ _ _ I0
  have h2 := hf.2.2 _ _ _ _ _ _ _ _ _ _ I0 J
  rw [hf.1]
  omega

theorem Room.mono {s : HState} {n m : Nat} (hr : Room s n) (h : m ≤ n) : Room s m := by
  intro rs lin lazy live F J
  have := hr _ _ _ _ _ J
  omega

/-! ## the four operations -/

theorem frLe_share {h : Heap} {rs : List Nat} {next : Nat} {s s' : HState} {ι : Nat → Nat}
    (R : HRef h rs next s ι) (ref : Word) (k : Nat) (hmem : ref ≠ 0 → ref.toNat ∈ rs)
    (hs : shareBlock s (imgW ι ref) k = .ok s') : FrLe s s' 0 := by
  obtain ⟨lin, lazy, live, F, I⟩ := R.conc
  have hp : imgW ι ref = 0 ∨ imgW ι ref ∈ live := by
    unfold imgW
    by_cases hr : ref = 0
    · rw [if_pos hr]; exact Or.inl rfl
    · rw [if_neg hr]
      exact I.roots_live _ (List.mem_map.2 ⟨ref.toNat, hmem hr, rfl⟩)
  obtain ⟨s'', hsb, hsame, _, _, _, I'⟩ := shareBlock_spec (p := imgW ι ref) (n := k) I hp
  rw [hs] at hsb
  injection hsb with hsb
  subst hsb
  exact FrLe.of_witness hsame.limit hsame.base I I' (by omega)

theorem frLe_erase {h : Heap} {rs : List Nat} {next : Nat} {s s' : HState} {ι : Nat → Nat} (ref : Word)
    (R : HRef h (rs ++ (if ref != 0 then [ref.toNat] else [])) next s ι)
    (hs : eraseBlock s (imgW ι ref) = .ok s') : FrLe s s' 0 := by
  obtain ⟨lin, lazy, live, F, I⟩ := R.conc
  have I0 : InvS s (imgW ι ref :: rs.map ι) [] lin lazy live F := by
    refine InvW.roots_congr I (fun b hb => ?_)
    unfold imgW
    by_cases hr : ref = 0
    · subst hr
      have e0 : ((0 : Word) != 0) = false := by simp
      simp only [if_true, e0, Bool.false_eq_true, if_false, List.append_nil]
      rw [List.count_cons_of_ne (Ne.symm hb)]
    · have e1 : (ref != 0) = true := by rw [bne_iff_ne]; exact hr
      simp only [hr, if_false, e1, if_true, List.map_append, List.map_cons, List.map_nil, List.count_append,
        List.count_cons, List.count_nil]
      omega
  obtain ⟨s'', lazy', live', hsb, hsame, _, _, I', _⟩ := eraseBlock_spec I0
  rw [hs] at hsb
  injection hsb with hsb
  subst hsb
  exact FrLe.of_witness hsame.limit hsame.base I I' (by omega)

theorem frLe_load {h : Heap} {rs : List Nat} {next : Nat} {s s' : HState} {ι : Nat → Nat} {id : Nat} {o : Obj}
    {vals : List Field} (R : HRef h (rs ++ [id]) next s ι) (hg : h.get id = some o)
    (hs : loadObj s (ι id) (o.fields.map kindB) = .ok (s', vals)) : FrLe s s' 0 := by
  obtain ⟨h', s'', _, hl, _, _, hsame, lin, lazy, live, lin', lazy', live', F, I, I'⟩ := href_load_full R hg
  rw [hs] at hl
  injection hl with hl
  injection hl with e1 _
  subst e1
  exact FrLe.of_witness hsame.limit hsame.base I I' (by omega)

theorem frLe_store {h : Heap} {rsKeep : List Nat} {next : Nat} {s s' : HState} {ι : Nat → Nat} {o : Obj}
    {p : Nat} (R : HRef h (rsKeep ++ o.children) next s ι)
    (hroom : Room s (64 * o.fields.length + 64))
    (hs : storeObj s (o.fields.map (fieldImg ι)) = .ok (s', p)) : FrLe s s' (64 * o.fields.length) := by
  obtain ⟨lin, lazy, live, F, I⟩ := R.conc
  obtain ⟨s'', p'', lin', lazy', live', F', hst, hsame, I', _, hF', _, _⟩ :=
    storeObj_spec (o.fields.map (fieldImg ι)) (rsKeep.map ι) I
      (by
        intro x hx
        rw [children_eq, List.map_append, List.count_append, count_ptrsOf_children ι _ x hx]
        omega)
      (by have := hroom _ _ _ _ _ I; simp only [List.length_map]; omega)
  rw [hs] at hst
  injection hst with hst
  injection hst with e1 _
  subst e1
  exact FrLe.of_witness hsame.limit hsame.base I I' (by simpa using hF')

end Scc.Heap.Refine
