/-
Scc.Heap.RefineStoreObj — `store` for the heap refinement, part 2: the invariant `SI` of a `store_fields`
in progress (fields `todo` still held by the roots, fields `done` already in the chain at `prev`), its
preservation by one block (`store_step`), the induction (`storeFields_ref`) and the commuting lemma
`href_store`: `Memory::store` of the images of the fields of a new abstract object yields a state that
represents the abstract heap extended by that object.
-/
import Scc.Heap.RefineStore

set_option linter.unusedVariables false
set_option linter.unusedSimpArgs false

namespace Scc.Heap.Refine

open Scc.Heap
open Scc.Backend.Abs (Heap Obj Word)
open Scc.Backend.Sim (HeapOK)

/-! ## small facts about chains -/

/-- a chain of one block -/
theorem peek_single (m : Nat → Nat) {ks : List Bool} (hne : ks ≠ []) (pos : BlockPosition) (p : Nat)
    (hl : ks.length ≤ capOf pos) :
    peek m ks pos p = (fieldsAt m p (capOf pos - ks.length) ks,
      (if pos = posOther then m (p + fstOff (fieldsPerBlock - 1)) else 0), [(p, ks, pos)]) := by
  have hrl : restLength ks.length pos = 0 := by
    unfold restLength; unfold capOf at hl; rw [if_pos hl]
  rw [peek_cons m hne, hrl]
  simp only [List.take_zero, List.drop_zero, peek_nil, List.nil_append]
  rfl

/-- every block of a chain but the first is the link of a block of the chain -/
theorem linked_pred {m : Nat → Nat} : ∀ (l : List Nat) (a : Nat), Linked m a l →
    ∀ b ∈ l.tail, ∃ q ∈ l, m (q + 48) = b
  | [], _, _, b, hb => by simp at hb
  | [x], _, _, b, hb => by simp at hb
  | x :: y :: rest, a, hl, b, hb => by
    obtain ⟨hx, hy, hr⟩ := hl
    simp only [List.tail_cons, List.mem_cons] at hb
    rcases hb with rfl | hb
    · exact ⟨x, by simp, by rw [hx, hy]⟩
    · obtain ⟨q, hq, e⟩ := linked_pred (y :: rest) (m (a + 48)) ⟨hy, hr⟩ b (by simpa using hb)
      exact ⟨q, List.mem_cons_of_mem _ hq, e⟩

theorem objAt_pred {m : Nat → Nat} {ι : Nat → Nat} {p : Nat} {fs : List AField} (O : ObjAt m ι p fs) :
    ∀ b ∈ (blocksOf m p fs).tail, ∃ q ∈ blocksOf m p fs, b ∈ ptrSlots m q := by
  intro b hb
  obtain ⟨q, hq, e⟩ := linked_pred _ _ (peek_chain m _ (fs.map kindB) .last p (Nat.le_refl _)).1 b hb
  exact ⟨q, hq, by simp [ptrSlots, e]⟩

/-! ## the invariant of `store_fields` -/

/-- `store_fields` in progress: the fields `todo` are still held by roots, the fields `done` are in the
chain at `prev` (count 0, referenced by the root `prev` only); the objects of the old heap are where they
were -/
structure SI (h : Heap) (rsKeep : List Nat) (ι : Nat → Nat) (fields : List AField)
    (s : HState) (todo done : List AField) (prev : Nat) : Prop where
  split : todo ++ done = fields
  conc : ∃ roots lin lazy live F, InvS s roots [] lin lazy live F ∧
    (∀ x, x ≠ 0 → roots.count x = (ptrsOf (todo.map (fieldImg ι))).count x +
      (if done = [] then 0 else [prev].count x) + (rsKeep.map ι).count x) ∧
    F + 64 * todo.length + 64 ≤ s.limit
  old : ∀ e ∈ h, ObjAt s.mem.get ι (ι e.1) e.2.fields
  disj : ∀ e ∈ h, ∀ e' ∈ h, e.1 ≠ e'.1 →
    ∀ b ∈ blocksOf s.mem.get (ι e.1) e.2.fields, b ∉ blocksOf s.mem.get (ι e'.1) e'.2.fields
  new : done ≠ [] → ObjAt s.mem.get ι prev done ∧ s.mem.get prev = 0 ∧
    ∀ e ∈ h, ∀ b ∈ blocksOf s.mem.get prev done, b ∉ blocksOf s.mem.get (ι e.1) e.2.fields
  al : todo ≠ [] → done ≠ [] → ∃ j, done.length = 3 + 2 * j

/-- position of the next block -/
def posOf (done : List AField) : BlockPosition := if done = [] then .last else .other

theorem posOf_ne {l : List AField} (hl : l ≠ []) : posOf l = posOther := by
  unfold posOf; rw [if_neg hl]

theorem count_ptrsOf_children (ι : Nat → Nat) (fs : List AField) (b : Nat) (hb : b ≠ 0) :
    (ptrsOf (fs.map (fieldImg ι))).count b = ((childrenOf fs).map ι).count b :=
  count_ptrsOf_img ι fs b hb

section Step

variable {h : Heap} {rsKeep : List Nat} {next : Nat} {ι : Nat → Nat} {fields : List AField}

/-- ONE BLOCK of `store_fields` preserves `SI` -/
theorem store_step (A : HeapOK h (rsKeep ++ childrenOf fields) next)
    (hord : ∀ e ∈ h, ∀ c ∈ e.2.children, c < e.1)
    {s : HState} {todo done : List AField} {prev : Nat}
    (S : SI h rsKeep ι fields s todo done prev) (hne : todo ≠ []) :
    ∃ s1 s2 s3,
      (if posOf done = posOther then wr s (s.heap + fstOff (fieldsPerBlock - 1)) prev else .ok s) = .ok s1 ∧
      storeValues s1 ((todo.drop (restLength todo.length (posOf done))).map (fieldImg ι)) s1.heap
        (fieldsPerBlock - (posOf done).toNat) = .ok s2 ∧
      acquire s2 = .ok (s3, s.heap) ∧
      SI h rsKeep ι fields s3 (todo.take (restLength todo.length (posOf done)))
        (todo.drop (restLength todo.length (posOf done)) ++ done) s.heap := by
  obtain ⟨roots, lin, lazy, live, F, I, hroots, hroom⟩ := S.conc
  generalize hpos : posOf done = pos at *
  generalize hrl : restLength todo.length pos = rl at *
  have hlenpos : 0 < todo.length := List.length_pos_iff.mpr hne
  have hrl_lt : rl < todo.length := by rw [← hrl]; exact restLength_lt _ _ hlenpos
  have hg_len : (todo.drop rl).length ≤ capOf pos := by
    rw [List.length_drop, ← hrl]; exact length_drop_restLength _ _
  have hg_ne : todo.drop rl ≠ [] := by
    intro e
    have := congrArg List.length e
    rw [List.length_drop] at this
    simp at this; omega
  have hsplit : todo.take rl ++ todo.drop rl = todo := List.take_append_drop _ _
  have hposif : ∀ x, (if pos = BlockPosition.other then [prev].count x else 0) =
      (if done = [] then 0 else [prev].count x) := by
    intro x
    rw [← hpos]; unfold posOf
    by_cases hd : done = [] <;> simp [hd]
  -- liveness of the chains
  have A' : HeapOK h (rsKeep ++ childrenOf (todo ++ done)) next := by rw [S.split]; exact A
  obtain ⟨hdl, holdl⟩ := store_liveness A' hord I hroots S.old (fun hd => (S.new hd).1)
  -- the block
  obtain ⟨s1, s2, s3, lin', lazy', live', F', e1, e2, e3, hsame, I3, hF', hNlin, hw, hh, hvals, hzero,
      hlink, hN0⟩ :=
    storeBlock_mem I ((todo.drop rl).map (fieldImg ι)) pos prev
      (ptrsOf ((todo.take rl).map (fieldImg ι)) ++ rsKeep.map ι)
      (by rw [List.length_map]; exact hg_len)
      (by
        intro x hx
        rw [hroots x hx, hposif x, List.count_append]
        conv => lhs; rw [← hsplit, List.map_append, ptrsOf_append, List.count_append]
        omega)
      (by omega)
  rw [map_isPtrF_fieldImg, List.length_map] at hvals
  rw [map_isPtrF_fieldImg] at hzero
  have hNb := I.lin_block hNlin
  have hN_ne0 : s.heap ≠ 0 := by have := hNb.1.1; have := I.base_pos; omega
  have hnd := I.nodup
  rw [nodup4_iff] at hnd
  have hN_notlive : s.heap ∉ live := (hnd.2.2.2.2.1 _ hNlin).2.1
  -- transport of chains made of live blocks
  have transport : ∀ (p : Nat) (fs : List AField), ObjAt s.mem.get ι p fs →
      (∀ b ∈ blocksOf s.mem.get p fs, b ∈ live) →
      ObjAt s3.mem.get ι p fs ∧ blocksOf s3.mem.get p fs = blocksOf s.mem.get p fs := by
    intro p fs O hl
    have hw' : ∀ b ∈ blocksOf s.mem.get p fs, ∀ k, 0 < k → k < 64 →
        s3.mem.get (b + k) = s.mem.get (b + k) := fun b hb => hw b (hl b hb)
    refine ⟨O.congr hw' ?_, blocksOf_congr hw'⟩
    intro b hb
    have hb' : b ∈ blocksOf s.mem.get p fs := List.mem_of_mem_tail hb
    obtain ⟨q, hq, hbq⟩ := objAt_pred O b hb
    rw [hh b (hl b hb') (O.hdr b hb) (Or.inr ⟨q, hl q hq, hbq⟩)]
    exact (O.hdr b hb).symm
  have hold3 : ∀ e ∈ h, ObjAt s3.mem.get ι (ι e.1) e.2.fields ∧
      blocksOf s3.mem.get (ι e.1) e.2.fields = blocksOf s.mem.get (ι e.1) e.2.fields :=
    fun e he => transport _ _ (S.old e he) (holdl e he)
  have hN_notold : ∀ e ∈ h, s.heap ∉ blocksOf s3.mem.get (ι e.1) e.2.fields := by
    intro e he hmem
    rw [(hold3 e he).2] at hmem
    exact hN_notlive (holdl e he _ hmem)
  refine ⟨s1, s2, s3, e1, e2, e3, ?_⟩
  refine ⟨?_, ?_, fun e he => (hold3 e he).1, ?_, ?_, ?_⟩
  · rw [← List.append_assoc, hsplit]; exact S.split
  · refine ⟨_, lin', lazy', live', F', I3, ?_, ?_⟩
    · intro x hx
      have hne' : todo.drop rl ++ done ≠ [] := by simp [hg_ne]
      rw [if_neg hne']
      simp only [List.count_cons, List.count_append, List.count_nil]
      omega
    · rw [hsame.limit, List.length_take]
      have : min rl todo.length = rl := by omega
      omega
  · intro e he e' he' hne' b hb
    rw [(hold3 e he).2] at hb
    rw [(hold3 e' he').2]
    exact S.disj e he e' he' hne' b hb
  · intro _
    by_cases hd : done = []
    · -- the first block (position `last`)
      subst hd
      have hp : pos = .last := by rw [← hpos]; rfl
      subst hp
      rw [List.append_nil]
      have hks : (todo.drop rl).map kindB ≠ [] := by simpa using hg_ne
      have hkl : ((todo.drop rl).map kindB).length ≤ capOf .last := by rw [List.length_map]; exact hg_len
      have hpk := peek_single s3.mem.get hks .last s.heap hkl
      rw [List.length_map] at hpk
      have hbl : blocksOf s3.mem.get s.heap (todo.drop rl) = [s.heap] := by
        unfold blocksOf chainOf; rw [hpk]; rfl
      refine ⟨⟨hg_ne, hN_ne0, ?_, ?_, ?_, ?_⟩, hN0, ?_⟩
      · rw [hpk]; exact hvals
      · intro v hv
        unfold chainOf at hv
        rw [hpk] at hv
        simp only [List.mem_singleton] at hv
        subst hv
        exact ⟨hzero, fun hc => by cases hc⟩
      · rw [hbl]; intro b hb; simp at hb
      · rw [hbl]; simp
      · intro e he b hb
        rw [hbl] at hb
        simp only [List.mem_singleton] at hb
        subst hb
        exact hN_notold e he
    · -- a block in front of the chain at `prev`
      have hp : pos = .other := by rw [← hpos]; unfold posOf; rw [if_neg hd]
      subst hp
      obtain ⟨Od, hprev0, hdisj⟩ := S.new hd
      obtain ⟨Od3, hbd3⟩ := transport _ _ Od (hdl hd)
      obtain ⟨j, hj⟩ := S.al hne hd
      have hprev_live : prev ∈ live := hdl hd _ (head_mem_blocksOf Od)
      have hprev_root : prev ∈ roots := by
        apply List.count_pos_iff.mp
        rw [hroots prev Od.pos, if_neg hd]
        simp only [List.count_singleton_self]
        omega
      have hprev3 : s3.mem.get prev = 0 := hh prev hprev_live hprev0 (Or.inl hprev_root)
      have hlink' : s3.mem.get (s.heap + 48) = prev := hlink rfl
      have hks : (todo.drop rl).map kindB ≠ [] := by simpa using hg_ne
      have hkl : ((todo.drop rl).map kindB).length ≤ 2 := by rw [List.length_map]; exact hg_len
      have hpk := peek_prepend s3.mem.get _ (done.map kindB) .last (Nat.le_refl _)
        ⟨j, by rw [List.length_map, hj]; rfl⟩ ((todo.drop rl).map kindB) s.heap hks hkl
      rw [hlink', List.length_map, ← List.map_append] at hpk
      have hbl : blocksOf s3.mem.get s.heap (todo.drop rl ++ done) =
          s.heap :: blocksOf s3.mem.get prev done := by
        unfold blocksOf chainOf; rw [hpk]; rfl
      have hN_notd : s.heap ∉ blocksOf s3.mem.get prev done := by
        rw [hbd3]; intro hmem; exact hN_notlive (hdl hd _ hmem)
      refine ⟨⟨by simp [hg_ne], hN_ne0, ?_, ?_, ?_, ?_⟩, hN0, ?_⟩
      · rw [hpk, List.map_append]
        show fieldsAt s3.mem.get s.heap (2 - (todo.drop rl).length) _ ++ _ = _
        have hv : fieldsAt s3.mem.get s.heap (2 - (todo.drop rl).length) ((todo.drop rl).map kindB) =
            (todo.drop rl).map (fieldImg ι) := hvals
        rw [hv, Od3.vals]
      · intro v hv
        unfold chainOf at hv
        rw [hpk] at hv
        simp only [List.mem_cons] at hv
        rcases hv with rfl | hv
        · refine ⟨hzero, fun _ => ?_⟩
          show s3.mem.get (s.heap + 48) ≠ 0
          rw [hlink']; exact Od.pos
        · exact Od3.pre v hv
      · rw [hbl]
        simp only [List.tail_cons]
        intro b hb
        obtain ⟨t, et⟩ := blocksOf_head Od3
        rw [et] at hb
        simp only [List.mem_cons] at hb
        rcases hb with rfl | hb
        · exact hprev3
        · exact Od3.hdr b (by rw [et]; exact hb)
      · rw [hbl]
        exact List.nodup_cons.mpr ⟨hN_notd, Od3.nodup⟩
      · intro e he b hb
        rw [hbl] at hb
        simp only [List.mem_cons] at hb
        rcases hb with rfl | hb
        · exact hN_notold e he
        · rw [(hold3 e he).2]
          rw [hbd3] at hb
          exact hdisj e he b hb
  · intro hpre _
    have hrl_pos : 0 < rl := by
      cases hr : rl with
      | zero => rw [hr] at hpre; simp at hpre
      | succ n => omega
    have hgl : (todo.drop rl).length = capOf pos := by
      rw [List.length_drop, ← hrl]
      rw [← hrl] at hrl_pos
      unfold restLength at hrl_pos ⊢
      unfold capOf
      split <;> rename_i hc
      · rw [if_pos hc] at hrl_pos; omega
      · omega
    rw [List.length_append, hgl]
    by_cases hd : done = []
    · subst hd
      have hp : pos = .last := by rw [← hpos]; rfl
      subst hp
      exact ⟨0, rfl⟩
    · have hp : pos = .other := by rw [← hpos]; unfold posOf; rw [if_neg hd]
      subst hp
      obtain ⟨j, hj⟩ := S.al hne hd
      exact ⟨j + 1, by rw [hj, capOf_other]; omega⟩

/-- `store_fields` establishes `SI` with nothing left to store -/
theorem storeFields_ref (A : HeapOK h (rsKeep ++ childrenOf fields) next)
    (hord : ∀ e ∈ h, ∀ c ∈ e.2.children, c < e.1) :
    ∀ (n : Nat) (todo done : List AField) (prev : Nat) (s : HState), todo.length ≤ n →
      (todo ≠ [] ∨ done ≠ []) → SI h rsKeep ι fields s todo done prev →
      ∃ s' p, storeFields s (todo.map (fieldImg ι)) (posOf done) prev = .ok (s', p) ∧
        SI h rsKeep ι fields s' [] fields p := by
  intro n
  induction n with
  | zero =>
    intro todo done prev s hn hor S
    have ht : todo = [] := List.length_eq_zero_iff.mp (by omega)
    subst ht
    have hd : done ≠ [] := by
      rcases hor with h0 | h0
      · exact absurd rfl h0
      · exact h0
    have hsp : done = fields := by simpa using S.split
    refine ⟨s, prev, ?_, by have S2 := S; rw [hsp] at S2; exact S2⟩
    rw [storeFields]
    simp [posOf, hd]
  | succ n ih =>
    intro todo done prev s hn hor S
    by_cases ht : todo = []
    · subst ht
      have hd : done ≠ [] := by
        rcases hor with h0 | h0
        · exact absurd rfl h0
        · exact h0
      have hsp : done = fields := by simpa using S.split
      refine ⟨s, prev, ?_, by have S2 := S; rw [hsp] at S2; exact S2⟩
      rw [storeFields]
      simp [posOf, hd]
    · obtain ⟨s1, s2, s3, e1, e2, e3, S3⟩ := store_step A hord S ht
      have hlenpos : 0 < todo.length := List.length_pos_iff.mpr ht
      have hrl_lt := restLength_lt todo.length (posOf done) hlenpos
      have hgne : todo.drop (restLength todo.length (posOf done)) ++ done ≠ [] := by
        intro e
        have := congrArg List.length e
        simp only [List.length_append, List.length_drop, List.length_nil] at this
        omega
      obtain ⟨s', p, hst, S'⟩ := ih _ _ s.heap s3 (by rw [List.length_take]; omega) (Or.inr hgne) S3
      refine ⟨s', p, ?_, S'⟩
      have hpo : posOf (todo.drop (restLength todo.length (posOf done)) ++ done) = posOther :=
        posOf_ne hgne
      rw [hpo, List.map_take] at hst
      rw [storeFields]
      have hmne : todo.map (fieldImg ι) ≠ [] := by simpa using ht
      simp only [hmne, ↓reduceDIte, List.length_map]
      rw [e1]; simp only []
      rw [← List.map_drop, e2]; simp only []
      rw [e3]
      exact hst

end Step

/-! ## `store` -/

/-- THE COMMUTING LEMMA FOR `store`: storing the images of the fields of a new abstract object `o`
(its non-null pointer fields are roots that are consumed) yields a block-level state that represents
the abstract heap extended by `o` under the fresh id `next`, whose head block is the pointer returned -/
theorem href_store {h : Heap} {rsKeep : List Nat} {next : Nat} {s : HState} {ι : Nat → Nat} {o : Obj}
    (hc : o.count = 0) (hne : o.fields ≠ []) (hnext : next < 2 ^ 64)
    (R : HRef h (rsKeep ++ o.children) next s ι)
    (hroom : ∃ lin lazy live F, InvS s ((rsKeep ++ o.children).map ι) [] lin lazy live F ∧
      F + 64 * o.fields.length + 64 ≤ s.limit) :
    ∃ s' p, storeObj s (o.fields.map (fieldImg ι)) = .ok (s', p) ∧
      HRef ((next, o) :: h) (rsKeep ++ [next]) (next + 1) s' (fun i => if i = next then p else ι i) := by
  have A : HeapOK h (rsKeep ++ childrenOf o.fields) next := R.abs
  obtain ⟨lin, lazy, live, F, I, hroomF⟩ := hroom
  -- every root of the old heap is an old id
  have hroot_lt : ∀ r ∈ rsKeep ++ o.children, r < next := by
    intro r hr
    have hrl : (h.get r).isSome := by
      apply A.live
      have : 0 < (rsKeep ++ childrenOf o.fields).count r := List.count_pos_iff.mpr hr
      rw [Scc.Backend.Sim2.refCount_eq]; omega
    obtain ⟨o', ho'⟩ := Scc.Backend.Sim.heap_get_isSome_mem hrl
    exact (A.ids _ ho').2.1
  have S0 : SI h rsKeep ι o.fields s o.fields [] 0 := by
    refine ⟨by simp, ⟨_, lin, lazy, live, F, I, ?_, hroomF⟩, R.shape, R.disj,
      fun h0 => absurd rfl h0, fun _ h0 => absurd rfl h0⟩
    intro x hx
    rw [children_eq, List.map_append, List.count_append, count_ptrsOf_children ι _ x hx, if_pos rfl]
    omega
  obtain ⟨s', p, hst, S'⟩ := storeFields_ref A R.ord o.fields.length o.fields [] 0 s (Nat.le_refl _)
    (Or.inl hne) S0
  refine ⟨s', p, hst, ?_⟩
  obtain ⟨Onew, hp0, hdisj⟩ := S'.new hne
  obtain ⟨roots', lin', lazy', live', F', I', hroots', _⟩ := S'.conc
  have hι_new : (fun i => if i = next then p else ι i) next = p := if_pos rfl
  have hι_old : ∀ i, i ≠ next → (fun i => if i = next then p else ι i) i = ι i := fun i hi => if_neg hi
  generalize (fun i => if i = next then p else ι i) = ι' at hι_new hι_old ⊢
  have hid_lt : ∀ e ∈ h, e.1 < next := fun e he => (A.ids e he).2.1
  have hch_old : ∀ c ∈ o.children, ι' c = ι c := fun c hc' =>
    hι_old c (Nat.ne_of_lt (hroot_lt c (List.mem_append.2 (Or.inr hc'))))
  have hshape_old : ∀ e ∈ h, ObjAt s'.mem.get ι' (ι e.1) e.2.fields := by
    intro e he
    refine (S'.old e he).congr_map ?_
    intro c hc'
    have := R.ord e he c hc'
    exact hι_old c (by have := hid_lt e he; omega)
  refine ⟨Scc.Backend.Sim.heapOK_alloc R.abs hc rfl hnext, ?_, ⟨lin', lazy', live', F', ?_⟩, ?_, ?_⟩
  · intro e he c hc'
    simp only [List.mem_cons] at he
    rcases he with rfl | he
    · exact hroot_lt c (List.mem_append.2 (Or.inr hc'))
    · exact R.ord e he c hc'
  · refine InvW.roots_congr I' (fun x hx => ?_)
    rw [hroots' x hx, if_neg hne]
    have hkeep : rsKeep.map ι' = rsKeep.map ι := by
      apply List.map_congr_left
      intro r hr
      exact hι_old r (Nat.ne_of_lt (hroot_lt r (List.mem_append.2 (Or.inl hr))))
    have hnew : [next].map ι' = [p] := by simp [hι_new]
    rw [List.map_append, hkeep, List.count_append, hnew]
    simp only [List.map_nil, ptrsOf, List.count_nil]
    omega
  · intro e he
    simp only [List.mem_cons] at he
    rcases he with rfl | he
    · show ObjAt _ _ (ι' next) o.fields
      rw [hι_new]
      exact Onew.congr_map hch_old
    · rw [hι_old e.1 (Nat.ne_of_lt (hid_lt e he))]
      exact hshape_old e he
  · intro e he e' he' hne' b hb
    simp only [List.mem_cons] at he he'
    rcases he with rfl | he <;> rcases he' with rfl | he'
    · exact absurd rfl hne'
    · have e1 : ι' e'.1 = ι e'.1 := hι_old e'.1 (Nat.ne_of_lt (hid_lt e' he'))
      have hb2 : b ∈ blocksOf s'.mem.get (ι' next) o.fields := hb
      rw [hι_new] at hb2
      rw [e1]
      exact hdisj e' he' b hb2
    · have e1 : ι' e.1 = ι e.1 := hι_old e.1 (Nat.ne_of_lt (hid_lt e he))
      rw [e1] at hb
      show b ∉ blocksOf s'.mem.get (ι' next) o.fields
      rw [hι_new]
      intro hb'
      exact hdisj e he b hb' hb
    · have e1 : ι' e.1 = ι e.1 := hι_old e.1 (Nat.ne_of_lt (hid_lt e he))
      have e2 : ι' e'.1 = ι e'.1 := hι_old e'.1 (Nat.ne_of_lt (hid_lt e' he'))
      rw [e1] at hb
      rw [e2]
      exact S'.disj e he e' he' hne' b hb

end Scc.Heap.Refine
