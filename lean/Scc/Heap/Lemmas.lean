/-
Scc.Heap.Lemmas — basic facts used by the invariant-preservation proofs: memory update, chains,
pointer slots, block arithmetic, independence of `InvW` from null roots and root order.
-/
import Scc.Heap.Inv

namespace Scc.Heap

/-- Pointwise memory update. -/
def upd (m : Nat → Nat) (a v : Nat) : Nat → Nat := fun x => if x = a then v else m x

@[simp] theorem upd_same (m : Nat → Nat) (a v : Nat) : upd m a v a = v := by simp [upd]
theorem upd_other (m : Nat → Nat) {a x : Nat} (v : Nat) (h : x ≠ a) : upd m a v x = m x := by
  simp [upd, h]

theorem Mem.get_set_upd (m : Mem) (a v : Nat) : (m.set a v).get = upd m.get a v := by
  funext x; simp [Mem.get_set, upd]; split <;> split <;> simp_all

theorem Chain.frame {m m' : Nat → Nat} : ∀ {l : List Nat} {a : Nat},
    (∀ x, x ∈ l → m' x = m x) → Chain m a l → Chain m' a l
  | [], _, _, h => h
  | x :: xs, a, hf, h => by
    obtain ⟨h1, h2, h3⟩ := h
    refine ⟨h1, h2, ?_⟩
    rw [hf x (by simp)]
    exact Chain.frame (fun y hy => hf y (by simp [hy])) h3

theorem Chain.ne_zero {m : Nat → Nat} : ∀ {l : List Nat} {a : Nat}, Chain m a l → ∀ x, x ∈ l → x ≠ 0
  | [], _, _, x, hx => by simp at hx
  | y :: ys, a, h, x, hx => by
    obtain ⟨_, h2, h3⟩ := h
    rcases List.mem_cons.mp hx with rfl | hx
    · exact h2
    · exact Chain.ne_zero h3 x hx

theorem Chain.append_singleton {m : Nat → Nat} : ∀ {l : List Nat} {a F : Nat},
    Chain m a (l ++ [F]) → m F = 0
  | [], _, _, h => by simpa [Chain] using h.2.2
  | _ :: xs, _, _, h => Chain.append_singleton (l := xs) h.2.2

theorem ptrFields_nil (m : Nat → Nat) : ptrFields m [] = [] := rfl
theorem ptrFields_cons (m : Nat → Nat) (b : Nat) (bs : List Nat) :
    ptrFields m (b :: bs) = ptrSlots m b ++ ptrFields m bs := by simp [ptrFields]
theorem ptrFields_append (m : Nat → Nat) (as bs : List Nat) :
    ptrFields m (as ++ bs) = ptrFields m as ++ ptrFields m bs := by simp [ptrFields]

theorem ptrFields_frame {m m' : Nat → Nat} {bs : List Nat}
    (h : ∀ b, b ∈ bs → m' (b + 16) = m (b + 16) ∧ m' (b + 32) = m (b + 32) ∧ m' (b + 48) = m (b + 48)) :
    ptrFields m' bs = ptrFields m bs := by
  induction bs with
  | nil => rfl
  | cons b bs ih =>
    rw [ptrFields_cons, ptrFields_cons, ih (fun x hx => h x (by simp [hx]))]
    obtain ⟨h1, h2, h3⟩ := h b (by simp)
    simp [ptrSlots, h1, h2, h3]

/-- A write to a block address (a header) does not change any pointer slot of any block. -/
theorem ptrFields_upd_header {m : Nat → Nat} {base p v : Nat} {bs : List Nat}
    (hp : IsBlock base p) (hbs : ∀ b, b ∈ bs → IsBlock base b) :
    ptrFields (upd m p v) bs = ptrFields m bs := by
  apply ptrFields_frame
  intro b hb
  have := hbs b hb
  unfold IsBlock at *
  refine ⟨upd_other _ _ ?_, upd_other _ _ ?_, upd_other _ _ ?_⟩ <;> omega

/-- A write inside block `q` does not change the pointer slots of other blocks. -/
theorem ptrFields_upd_inside {m : Nat → Nat} {base q k v : Nat} {bs : List Nat}
    (hq : IsBlock base q) (hk : k < 64) (hbs : ∀ b, b ∈ bs → IsBlock base b ∧ b ≠ q) :
    ptrFields (upd m (q + k) v) bs = ptrFields m bs := by
  apply ptrFields_frame
  intro b hb
  have := hbs b hb
  unfold IsBlock at *
  refine ⟨upd_other _ _ ?_, upd_other _ _ ?_, upd_other _ _ ?_⟩ <;> omega

theorem TopoSorted.congr {m m' : Nat → Nat} : ∀ {ord : List Nat},
    (∀ b, b ∈ ord → ptrSlots m' b = ptrSlots m b) → TopoSorted m ord → TopoSorted m' ord
  | [], _, _ => trivial
  | b :: rest, hs, h => by
    refine ⟨?_, TopoSorted.congr (fun x hx => hs x (by simp [hx])) h.2⟩
    rw [hs b (by simp)]; exact h.1

/-- Removing a block that no earlier block points to keeps the list sorted. -/
theorem TopoSorted.remove {m : Nat → Nat} {p : Nat} : ∀ {o1 o2 : List Nat},
    TopoSorted m (o1 ++ p :: o2) → (∀ b, b ∈ o1 → p ∉ ptrSlots m b) → TopoSorted m (o1 ++ o2)
  | [], _, h, _ => h.2
  | b :: o1, o2, h, hn => by
    have h' : TopoSorted m (b :: (o1 ++ p :: o2)) := h
    show TopoSorted m (b :: (o1 ++ o2))
    refine ⟨?_, TopoSorted.remove h'.2 (fun x hx => hn x (by simp [hx]))⟩
    intro q hq
    rcases h'.1 q hq with h0 | hl
    · exact Or.inl h0
    · right
      have hqp : q ≠ p := by rintro rfl; exact hn b (by simp) hq
      simp only [List.mem_append, List.mem_cons] at hl ⊢
      rcases hl with hl | hl | hl
      · exact Or.inl hl
      · exact absurd hl hqp
      · exact Or.inr hl

theorem ptrSlots_upd_header {m : Nat → Nat} {base p v b : Nat}
    (hp : IsBlock base p) (hb : IsBlock base b) : ptrSlots (upd m p v) b = ptrSlots m b := by
  unfold IsBlock at *
  simp only [ptrSlots]
  rw [upd_other _ _ (by omega), upd_other _ _ (by omega), upd_other _ _ (by omega)]

theorem ptrSlots_sub_ptrFields {m : Nat → Nat} {b : Nat} {bs : List Nat} (hb : b ∈ bs) :
    ∀ q, q ∈ ptrSlots m b → q ∈ ptrFields m bs := by
  intro q hq
  obtain ⟨l1, l2, rfl⟩ := List.append_of_mem hb
  simp only [ptrFields_append, ptrFields_cons, List.mem_append]
  exact Or.inr (Or.inl hq)

/-- Removing `p` from a topologically sorted permutation of `l1 ++ p :: l2`. -/
theorem acyclic_remove {m : Nat → Nat} {p : Nat} {l1 l2 : List Nat}
    (h : ∃ ord, ord.Perm (l1 ++ p :: l2) ∧ TopoSorted m ord)
    (hn : ∀ b, b ∈ l1 ++ p :: l2 → p ∉ ptrSlots m b) :
    ∃ ord, ord.Perm (l1 ++ l2) ∧ TopoSorted m ord := by
  obtain ⟨ord, hperm, hts⟩ := h
  have hp : p ∈ ord := hperm.mem_iff.mpr (by simp)
  obtain ⟨o1, o2, rfl⟩ := List.append_of_mem hp
  refine ⟨o1 ++ o2, ?_, hts.remove (fun b hb => hn b (hperm.mem_iff.mp (by simp [hb])))⟩
  have h1 : (p :: (o1 ++ o2)).Perm (p :: (l1 ++ l2)) :=
    (List.perm_middle.symm.trans hperm).trans List.perm_middle
  exact h1.cons_inv

theorem nodup4_iff {a b c d : List Nat} : (a ++ b ++ c ++ d).Nodup ↔
    a.Nodup ∧ b.Nodup ∧ c.Nodup ∧ d.Nodup ∧ (∀ x, x ∈ a → x ∉ b ∧ x ∉ c ∧ x ∉ d) ∧
    (∀ x, x ∈ b → x ∉ c ∧ x ∉ d) ∧ (∀ x, x ∈ c → x ∉ d) := by
  simp only [List.nodup_append, List.mem_append]
  grind

end Scc.Heap
