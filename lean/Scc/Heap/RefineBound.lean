/-
Scc.Heap.RefineBound — the reference counts stored in the headers of live blocks are SMALL: a count + 1
is the number of references from roots and from pointer slots of live and deferred blocks (invariant
(iv) of Scc/Heap/Inv.lean), there are three slots per block and at most (limit − base) / 64 blocks.
Used to discharge the "no overflow" side condition of the machine-level contracts of `share` and
`load` (the machine adds modulo 2^64, the model adds naturals).
-/
import Scc.Heap.RefineLoad

set_option linter.unusedVariables false
set_option linter.unusedSimpArgs false

namespace Scc.Heap.Refine

open Scc.Heap

/-- pigeonhole: a duplicate-free list of naturals below `B` has at most `B` elements -/
theorem nodup_length_le : ∀ (B : Nat) (l : List Nat), l.Nodup → (∀ x ∈ l, x < B) → l.length ≤ B
  | 0, l, _, hb => by
    cases l with
    | nil => simp
    | cons x t => exact absurd (hb x (by simp)) (by omega)
  | B + 1, l, hnd, hb => by
    by_cases hB : B ∈ l
    · have h1 := nodup_length_le B (l.erase B) (hnd.erase B) (by
        intro x hx
        have hx' := (List.Nodup.mem_erase_iff hnd).1 hx
        have := hb x hx'.2
        have := hx'.1
        omega)
      rw [List.length_erase_of_mem hB] at h1
      omega
    · have h1 := nodup_length_le B l hnd (by
        intro x hx
        have := hb x hx
        have : x ≠ B := fun e => hB (e ▸ hx)
        omega)
      omega

theorem nodup_map_of_injOn {f : Nat → Nat} : ∀ (l : List Nat), l.Nodup →
    (∀ x ∈ l, ∀ y ∈ l, f x = f y → x = y) → (l.map f).Nodup
  | [], _, _ => by simp
  | a :: t, hnd, hinj => by
    rw [List.nodup_cons] at hnd
    rw [List.map_cons, List.nodup_cons]
    refine ⟨?_, nodup_map_of_injOn t hnd.2 (fun x hx y hy => hinj x (by simp [hx]) y (by simp [hy]))⟩
    intro hm
    obtain ⟨y, hy, e⟩ := List.mem_map.1 hm
    have := hinj y (by simp [hy]) a (by simp) e
    rw [this] at hy
    exact hnd.1 hy

theorem ptrFields_length (m : Nat → Nat) : ∀ (l : List Nat), (ptrFields m l).length = 3 * l.length
  | [] => rfl
  | b :: t => by
    rw [ptrFields_cons, List.length_append, ptrFields_length m t]
    simp [ptrSlots]
    omega

/-- the blocks in use are distinct blocks of the heap -/
theorem blocks_length_le {s : HState} {roots pend lin lazy live : List Nat} {F : Nat}
    (I : InvS s roots pend lin lazy live F) : (live ++ lazy).length ≤ (s.limit - s.base) / 64 := by
  have hnd := I.nodup
  rw [nodup4_iff] at hnd
  have hnd' : (live ++ lazy).Nodup := by
    rw [List.nodup_append]
    exact ⟨hnd.2.2.1, hnd.2.1, fun x hx y hy e => (hnd.2.2.2.2.2.1 y hy).1 (e ▸ hx)⟩
  have hblk : ∀ x ∈ live ++ lazy, IsBlock s.base x ∧ x < F := by
    intro x hx
    rcases List.mem_append.1 hx with h | h
    · exact I.live_block h
    · exact I.lazy_block h
  have hFr := I.frontier_room
  have hFb := I.frontier_block
  have hm : ((live ++ lazy).map fun a => (a - s.base) / 64).Nodup := by
    apply nodup_map_of_injOn _ hnd'
    intro x hx y hy e
    have h1 := (hblk x hx).1
    have h2 := (hblk y hy).1
    unfold IsBlock at h1 h2
    omega
  have := nodup_length_le ((s.limit - s.base) / 64) _ hm (by
    intro z hz
    obtain ⟨a, ha, rfl⟩ := List.mem_map.1 hz
    have h1 := hblk a ha
    unfold IsBlock at h1 hFb
    have hlt : a - s.base + 64 ≤ s.limit - s.base := by omega
    have h64 : (a - s.base) / 64 * 64 = a - s.base := by
      have := Nat.div_add_mod (a - s.base) 64
      omega
    have : (a - s.base) / 64 * 64 + 64 ≤ (s.limit - s.base) / 64 * 64 + 63 := by
      have := Nat.div_add_mod (s.limit - s.base) 64
      have := Nat.mod_lt (s.limit - s.base) (by decide : 0 < 64)
      omega
    omega)
  simpa using this

/-- THE BOUND: the count of a live block is far below 2^64 -/
theorem live_header_lt {s : HState} {roots lin lazy live : List Nat} {F : Nat}
    (I : InvS s roots [] lin lazy live F) (hlim : s.limit ≤ 2 ^ 63) (hr : roots.length ≤ 2 ^ 62)
    {b : Nat} (hb : b ∈ live) : s.mem.get b < 2 ^ 64 := by
  have hc := I.counts b hb
  have h1 : roots.count b ≤ roots.length := List.count_le_length
  have h2 : (ptrFields s.mem.get (live ++ lazy)).count b ≤ 3 * (live ++ lazy).length := by
    rw [← ptrFields_length s.mem.get]; exact List.count_le_length
  have h3 := blocks_length_le I
  have h4 : (s.limit - s.base) / 64 ≤ 2 ^ 57 := by
    have : s.limit - s.base ≤ 2 ^ 63 := by omega
    omega
  omega


/-- the same with room for an increment: count + `roots.length`-independent slack -/
theorem live_header_add_lt {s : HState} {roots lin lazy live : List Nat} {F : Nat}
    (I : InvS s roots [] lin lazy live F) (hlim : s.limit ≤ 2 ^ 63) (hr : roots.length ≤ 2 ^ 40)
    {b : Nat} (hb : b ∈ live) {k : Nat} (hk : k < 2 ^ 32) : s.mem.get b + k < 2 ^ 64 := by
  have hc := I.counts b hb
  have h1 : roots.count b ≤ roots.length := List.count_le_length
  have h2 : (ptrFields s.mem.get (live ++ lazy)).count b ≤ 3 * (live ++ lazy).length := by
    rw [← ptrFields_length s.mem.get]; exact List.count_le_length
  have h3 := blocks_length_le I
  have h4 : (s.limit - s.base) / 64 ≤ 2 ^ 57 := by
    have : s.limit - s.base ≤ 2 ^ 63 := by omega
    omega
  omega

end Scc.Heap.Refine
