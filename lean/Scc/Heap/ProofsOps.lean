/-
Scc.Heap.ProofsOps — every block-level operation of the model (`eraseBlock`, `shareBlock`,
`releaseBlock`, `acquire`, field writes) succeeds on a state satisfying the invariant and preserves
it, with the prescribed change of roots / pending blocks.
-/
import Scc.Heap.Moves

namespace Scc.Heap

variable {s : HState} {F : Nat} {roots pend lin lazy live : List Nat}

theorem rd_ok {s : HState} {a : Nat} (h1 : s.base ≤ a) (h2 : a + 8 ≤ s.limit)
    (h3 : (a - s.base) % 8 = 0) : rd s a = .ok (s.mem.get a) := by
  simp [rd, h1, h2, h3]

theorem wr_ok {s : HState} {a : Nat} (v : Nat) (h1 : s.base ≤ a) (h2 : a + 8 ≤ s.limit)
    (h3 : (a - s.base) % 8 = 0) : wr s a v = .ok { s with mem := s.mem.set a v } := by
  simp [wr, h1, h2, h3]

/-- Word `k` of a block at or below the frontier is inside the heap. -/
theorem InvS.rd_block (h : InvS s roots pend lin lazy live F) {a k : Nat}
    (ha : IsBlock s.base a) (haF : a ≤ F) (hk : k < 64) (hk8 : k % 8 = 0) :
    rd s (a + k) = .ok (s.mem.get (a + k)) := by
  have := h.frontier_room
  unfold IsBlock at ha
  exact rd_ok (by omega) (by omega) (by omega)

theorem InvS.wr_block (h : InvS s roots pend lin lazy live F) {a k : Nat} (v : Nat)
    (ha : IsBlock s.base a) (haF : a ≤ F) (hk : k < 64) (hk8 : k % 8 = 0) :
    wr s (a + k) v = .ok { s with mem := s.mem.set (a + k) v } := by
  have := h.frontier_room
  unfold IsBlock at ha
  exact wr_ok v (by omega) (by omega) (by omega)

/-- What all block-level operations have in common: `base`/`limit` are constants. -/
structure SameHeap (s s' : HState) : Prop where
  base : s'.base = s.base
  limit : s'.limit = s.limit

theorem SameHeap.refl (s : HState) : SameHeap s s := ⟨rfl, rfl⟩
theorem SameHeap.trans {s1 s2 s3 : HState} (h1 : SameHeap s1 s2) (h2 : SameHeap s2 s3) :
    SameHeap s1 s3 := ⟨h2.base.trans h1.base, h2.limit.trans h1.limit⟩

/-- Only header words (block addresses) differ between the two memories. -/
def HeadersOnly (s s' : HState) : Prop :=
  ∀ a, ¬ IsBlock s.base a → s'.mem.get a = s.mem.get a

theorem headersOnly_upd {s : HState} {p v : Nat} (hp : IsBlock s.base p) :
    ∀ a, ¬ IsBlock s.base a → upd s.mem.get p v a = s.mem.get a := by
  intro a ha
  exact upd_other _ _ (by rintro rfl; exact ha hp)

/-- `erase_block` on a held root (C09-T1, erase, both cases). -/
theorem eraseBlock_spec {p : Nat} (h : InvS s (p :: roots) pend lin lazy live F) :
    ∃ s' lazy' live', eraseBlock s p = .ok s' ∧ SameHeap s s' ∧ s'.heap = s.heap ∧
      HeadersOnly s s' ∧ InvS s' roots pend lin lazy' live' F ∧
      lazy'.length + live'.length = lazy.length + live.length := by
  by_cases hp0 : p = 0
  · subst hp0
    exact ⟨s, lazy, live, by simp [eraseBlock], SameHeap.refl s, rfl, fun _ _ => rfl,
      InvW.roots_zero h, rfl⟩
  · have hpl : p ∈ live := by
      rcases h.roots_live p (by simp) with h0 | hl
      · exact absurd h0 hp0
      · exact hl
    have hpb := h.live_block hpl
    have hrd := h.rd_block (k := 0) hpb.1 (Nat.le_of_lt hpb.2) (by omega) (by omega)
    simp only [Nat.add_zero] at hrd
    by_cases hc : s.mem.get p = 0
    · have hwr := h.wr_block (k := 0) s.free hpb.1 (Nat.le_of_lt hpb.2) (by omega) (by omega)
      simp only [Nat.add_zero] at hwr
      obtain ⟨l1, l2, rfl⟩ := List.append_of_mem hpl
      refine ⟨{ s with mem := s.mem.set p s.free, free := p }, p :: lazy, l1 ++ l2, ?_,
        ⟨rfl, rfl⟩, rfl, ?_, ?_, ?_⟩
      · simp [eraseBlock, hp0, hrd, hc, hwr]
      · intro a ha
        show (s.mem.set p s.free).get a = _
        rw [Mem.get_set_upd]; exact headersOnly_upd hpb.1 a ha
      · show InvW (s.mem.set p s.free).get _ _ _ _ _ _ _ _ _ _
        rw [Mem.get_set_upd]
        exact InvW.to_lazy h hc
      · simp only [List.length_cons, List.length_append]; omega
    · have hwr := h.wr_block (k := 0) (s.mem.get p - 1) hpb.1 (Nat.le_of_lt hpb.2) (by omega) (by omega)
      simp only [Nat.add_zero] at hwr
      refine ⟨{ s with mem := s.mem.set p (s.mem.get p - 1) }, lazy, live, ?_,
        ⟨rfl, rfl⟩, rfl, ?_, ?_, rfl⟩
      · simp [eraseBlock, hp0, hrd, hc, hwr]
      · intro a ha
        show (s.mem.set p _).get a = _
        rw [Mem.get_set_upd]; exact headersOnly_upd hpb.1 a ha
      · show InvW (s.mem.set p _).get _ _ _ _ _ _ _ _ _ _
        rw [Mem.get_set_upd]
        refine InvW.header_update h hpl ?_ ?_
        · rw [List.count_cons_self]; omega
        · intro b _ hb; rw [List.count_cons_of_ne (Ne.symm hb)]

/-- `share_block_n` on a held root: `n` more roots hold the block (C09-T1, share). -/
theorem shareBlock_spec {p n : Nat} (h : InvS s roots pend lin lazy live F)
    (hp : p = 0 ∨ p ∈ live) :
    ∃ s', shareBlock s p n = .ok s' ∧ SameHeap s s' ∧ s'.heap = s.heap ∧ s'.free = s.free ∧
      HeadersOnly s s' ∧ InvS s' (List.replicate n p ++ roots) pend lin lazy live F := by
  by_cases hp0 : p = 0
  · subst hp0
    refine ⟨s, by simp [shareBlock], SameHeap.refl s, rfl, rfl, fun _ _ => rfl, ?_⟩
    refine InvW.roots_congr h (fun b hb => ?_)
    rw [List.count_append, List.count_replicate]
    simp [Ne.symm hb]
  · have hpl : p ∈ live := by
      rcases hp with h0 | hl
      · exact absurd h0 hp0
      · exact hl
    have hpb := h.live_block hpl
    have hrd := h.rd_block (k := 0) hpb.1 (Nat.le_of_lt hpb.2) (by omega) (by omega)
    have hwr := h.wr_block (k := 0) (s.mem.get p + n) hpb.1 (Nat.le_of_lt hpb.2) (by omega) (by omega)
    simp only [Nat.add_zero] at hrd hwr
    refine ⟨{ s with mem := s.mem.set p (s.mem.get p + n) }, ?_, ⟨rfl, rfl⟩, rfl, rfl, ?_, ?_⟩
    · simp [shareBlock, hp0, hrd, hwr]
    · intro a ha
      show (s.mem.set p _).get a = _
      rw [Mem.get_set_upd]; exact headersOnly_upd hpb.1 a ha
    · show InvW (s.mem.set p _).get _ _ _ _ _ _ _ _ _ _
      rw [Mem.get_set_upd]
      refine InvW.header_update h hpl ?_ ?_
      · rw [List.count_append, List.count_replicate]; simp; omega
      · intro b _ hb
        rw [List.count_append, List.count_replicate]; simp [Ne.symm hb]

theorem HeadersOnly.trans {s1 s2 s3 : HState} (h1 : HeadersOnly s1 s2) (hb : SameHeap s1 s2)
    (h2 : HeadersOnly s2 s3) : HeadersOnly s1 s3 := by
  intro a ha
  rw [h2 a (by rw [hb.base]; exact ha), h1 a ha]

theorem not_isBlock_add {base D k : Nat} (hD : IsBlock base D) (hk : 0 < k) (hk' : k < 64) :
    ¬ IsBlock base (D + k) := by
  unfold IsBlock at *; omega

/-- `erase_fields` (inside `acquire_block`): the three pointer slots of `D`, accounted as roots,
are erased one after the other (two of them may be the same block). -/
theorem eraseFields_spec {D : Nat}
    (h : InvS s (ptrSlots s.mem.get D ++ roots) pend lin lazy live F)
    (hD : IsBlock s.base D) (hDF : D < F) :
    ∃ s' lazy' live', eraseFields s D = .ok s' ∧ SameHeap s s' ∧ s'.heap = s.heap ∧
      HeadersOnly s s' ∧ InvS s' roots pend lin lazy' live' F ∧
      lazy'.length + live'.length = lazy.length + live.length := by
  have h0 : InvS s (s.mem.get (D + 16) :: s.mem.get (D + 32) :: s.mem.get (D + 48) :: roots)
      pend lin lazy live F := h
  have hrd0 := h.rd_block (k := 16) hD (Nat.le_of_lt hDF) (by omega) (by omega)
  obtain ⟨s1, lazy1, live1, he1, hs1, hh1, ho1, hi1, hl1⟩ := eraseBlock_spec h0
  have hD1 : IsBlock s1.base D := by rw [hs1.base]; exact hD
  have hrd1 := hi1.rd_block (k := 32) hD1 (Nat.le_of_lt hDF) (by omega) (by omega)
  rw [ho1 _ (not_isBlock_add hD (by omega) (by omega))] at hrd1
  obtain ⟨s2, lazy2, live2, he2, hs2, hh2, ho2, hi2, hl2⟩ := eraseBlock_spec hi1
  have hD2 : IsBlock s2.base D := by rw [hs2.base]; exact hD1
  have hrd2 := hi2.rd_block (k := 48) hD2 (Nat.le_of_lt hDF) (by omega) (by omega)
  rw [ho2 _ (not_isBlock_add hD1 (by omega) (by omega)),
      ho1 _ (not_isBlock_add hD (by omega) (by omega))] at hrd2
  obtain ⟨s3, lazy3, live3, he3, hs3, hh3, ho3, hi3, hl3⟩ := eraseBlock_spec hi2
  refine ⟨s3, lazy3, live3, ?_, (hs1.trans hs2).trans hs3, by rw [hh3, hh2, hh1],
    (ho1.trans hs1 ho2).trans (hs1.trans hs2) ho3, hi3, by omega⟩
  simp [eraseFields, fstOff, fieldOffset, hrd0, he1, hrd1, he2, hrd2, he3]

/-- `acquire_block` (C09-T1 acquire, all three cases; C10: the frontier moves iff the linear free
list has exactly one element and the deferred list is empty). -/
theorem acquire_spec (h : InvS s roots pend lin lazy live F)
    (hroom : lin.length = 1 → lazy = [] → F + 128 ≤ s.limit) :
    ∃ s' lin' lazy' live' F', acquire s = .ok (s', s.heap) ∧ SameHeap s s' ∧ HeadersOnly s s' ∧
      s.heap ∈ lin ∧
      InvS s' roots (s.heap :: pend) lin' lazy' live' F' ∧
      ((F' = F ∧ ¬ (lin.length = 1 ∧ lazy = [])) ∨
       (F' = F + 64 ∧ lin.length = 1 ∧ lazy = [] ∧ lin'.length = 1 ∧ lazy' = [] ∧ live' = live)) := by
  have hlin := h.lin_chain
  have hne := h.lin_ne
  match lin, hne, hlin, h, hroom with
  | b :: L, _, hlin, h, hroom =>
    obtain ⟨hb, hb0, hch⟩ := hlin
    have hbl : b ∈ b :: L := by simp
    have hbb := h.lin_block hbl
    have hrd := h.rd_block (k := 0) hbb.1 (Nat.le_of_lt hbb.2) (by omega) (by omega)
    simp only [Nat.add_zero] at hrd
    rw [hb]
    match L, hch, h, hroom with
    | h' :: L', hch, h, hroom =>
      -- case (1)
      have hh' : s.mem.get b = h' := hch.1
      have hh0 : h' ≠ 0 := hch.2.1
      have hwr : wr { s with heap := h' } b 0 = .ok { s with heap := h', mem := s.mem.set b 0 } := by
        have := h.wr_block (k := 0) 0 hbb.1 (Nat.le_of_lt hbb.2) (by omega) (by omega)
        simp only [Nat.add_zero, wr] at this ⊢
        split at this <;> simp_all
      refine ⟨{ s with heap := h', mem := s.mem.set b 0 }, h' :: L', lazy, live, F, ?_,
        ⟨rfl, rfl⟩, ?_, hbl, ?_, Or.inl ⟨rfl, by simp⟩⟩
      · simp [acquire, hb, hrd, hh', hh0, hwr]
      · intro a ha
        show (s.mem.set b 0).get a = _
        rw [Mem.get_set_upd]; exact headersOnly_upd hbb.1 a ha
      · show InvW (s.mem.set b 0).get _ _ _ _ _ _ _ _ _ _
        rw [Mem.get_set_upd]
        have h2 : InvW s.mem.get s.base s.limit b s.free roots pend (b :: h' :: L') lazy live F := by
          have := h; unfold InvS at this; rw [hb] at this; exact this
        have h3 := InvW.acquire_lin h2
        rw [hh'] at h3
        exact h3
    | [], hch, h, hroom =>
      have hmb : s.mem.get b = 0 := hch
      have hlz := h.lazy_chain
      match lazy, hlz, h, hroom with
      | [], hlz, h, hroom =>
        -- case (3)
        have hfree : s.free = F := hlz.1
        have hroom' := hroom rfl rfl
        have hFb := h.frontier_block
        have hrdF := h.rd_block (k := 0) hFb (Nat.le_refl _) (by omega) (by omega)
        simp only [Nat.add_zero] at hrdF
        have hmF : s.mem.get F = 0 := hlz.2.2
        refine ⟨{ s with heap := s.free, free := s.free + blockSize }, [F], [], live, F + 64, ?_,
          ⟨rfl, rfl⟩, fun _ _ => rfl, hbl, ?_,
          Or.inr ⟨rfl, rfl, rfl, rfl, rfl, rfl⟩⟩
        · simp [acquire, hb, hrd, hmb, hfree, hrdF, hmF]
        · show InvW s.mem.get s.base s.limit s.free (s.free + blockSize) roots (b :: pend) [F] [] live (F + 64)
          rw [hfree]
          have h2 : InvW s.mem.get s.base s.limit b F roots pend [b] [] live F := by
            have := h; unfold InvS at this; rw [hb, hfree] at this; exact this
          exact InvW.acquire_bump h2 hroom'
      | D :: lz, hlz, h, hroom =>
        -- case (2)
        have hfree : s.free = D := hlz.1
        have hDl : D ∈ D :: lz := by simp
        have hDb := h.lazy_block hDl
        have hrdD := h.rd_block (k := 0) hDb.1 (Nat.le_of_lt hDb.2) (by omega) (by omega)
        simp only [Nat.add_zero] at hrdD
        have hmD : s.mem.get D ≠ 0 := by
          have hc : Chain s.mem.get (s.mem.get D) (lz ++ [F]) := hlz.2.2
          cases lz with
          | nil => exact hc.1 ▸ hc.2.1
          | cons x xs => exact hc.1 ▸ hc.2.1
        let s1 : HState := { s with heap := D, free := s.mem.get D, mem := s.mem.set D 0 }
        have hwr : wr { s with heap := D, free := s.mem.get D } D 0 = .ok s1 := by
          have := h.wr_block (k := 0) 0 hDb.1 (Nat.le_of_lt hDb.2) (by omega) (by omega)
          simp only [Nat.add_zero, wr] at this ⊢
          split at this <;> simp_all [s1]
        have h2 : InvW s.mem.get s.base s.limit b D roots pend [b] (D :: lz) live F := by
          have := h; unfold InvS at this; rw [hb, hfree] at this; exact this
        have hi1 : InvS s1 (ptrSlots s.mem.get D ++ roots) (b :: pend) [D] lz live F := by
          show InvW (s.mem.set D 0).get _ _ _ _ _ _ _ _ _ _
          rw [Mem.get_set_upd]
          exact InvW.acquire_lazy h2
        have hslots : ptrSlots s1.mem.get D = ptrSlots s.mem.get D := by
          show ptrSlots (s.mem.set D 0).get D = _
          rw [Mem.get_set_upd]
          simp only [ptrSlots]
          rw [upd_other _ _ (by omega), upd_other _ _ (by omega), upd_other _ _ (by omega)]
        rw [← hslots] at hi1
        obtain ⟨s2, lazy2, live2, he, hs2, hh2, ho2, hi2, hl2⟩ :=
          eraseFields_spec (s := s1) hi1 hDb.1 hDb.2
        refine ⟨s2, [D], lazy2, live2, F, ?_, ⟨hs2.base, hs2.limit⟩, ?_, hbl, hi2,
          Or.inl ⟨rfl, by simp⟩⟩
        · simp [acquire, hb, hrd, hmb, hfree, hrdD, hmD, hwr]
          show (match eraseFields s1 s1.heap with
            | .error f => Except.error f
            | .ok s2 => Except.ok (s2, b)) = _
          rw [show s1.heap = D from rfl, he]
        · intro a ha
          rw [ho2 a ha]
          show (s.mem.set D 0).get a = _
          rw [Mem.get_set_upd]; exact headersOnly_upd hDb.1 a ha

end Scc.Heap
