/-
  Scc/PMoves/ProofsSubst.lean  --  C11: facts about the map representation (`normalize`, `isSorted`,
  `isFunctional`) and about substitution.rs (`codeWeakeningContraction`, T3).
-/
import Scc.PMoves.Proofs

set_option autoImplicit false

namespace Scc.PMoves

/-! ## executable checks imply the predicates -/

theorem isAscending_iff : ∀ (l : List Nat), isAscending l = true ↔ Ascending l
  | [] => by simp [isAscending, Ascending]
  | [x] => by simp [isAscending, Ascending]
  | x :: y :: rest => by
    have ih := isAscending_iff (y :: rest)
    simp only [isAscending, Bool.and_eq_true, decide_eq_true_eq, ih, Ascending, List.pairwise_cons]
    constructor
    · rintro ⟨hxy, hy, hr⟩
      refine ⟨?_, hy, hr⟩
      intro a ha
      rcases List.mem_cons.mp ha with rfl | ha
      · exact hxy
      · exact Nat.lt_trans hxy (hy a ha)
    · rintro ⟨hx, hy, hr⟩
      exact ⟨hx y List.mem_cons_self, hy, hr⟩

theorem sorted_of_isSorted {pm : PMap} (h : isSorted pm = true) : Sorted pm := by
  simp only [isSorted, Bool.and_eq_true, List.all_eq_true] at h
  exact ⟨(isAscending_iff _).mp h.1, fun kv hkv => (isAscending_iff _).mp (h.2 kv hkv)⟩

theorem hasDup_false_iff : ∀ (l : List Nat), hasDup l = false ↔ l.Nodup
  | [] => by simp [hasDup]
  | x :: xs => by
    simp [hasDup, hasDup_false_iff xs]

theorem functional_of_nodup_targets : ∀ (pm : PMap), (allTargets pm).Nodup → Functional pm
  | [], _ => by intro s s' t ⟨_, h, _⟩; simp at h
  | (k, v) :: rest, h => by
    simp only [allTargets, List.flatMap_cons, List.nodup_append] at h
    obtain ⟨_, hr, hd⟩ := h
    have ih := functional_of_nodup_targets rest hr
    intro s s' t ⟨ts, hm, ht⟩ ⟨ts', hm', ht'⟩
    simp only [List.mem_cons, Prod.mk.injEq] at hm hm'
    rcases hm with ⟨rfl, rfl⟩ | hm <;> rcases hm' with ⟨rfl, rfl⟩ | hm'
    · rfl
    · exact absurd rfl (hd t ht t (List.mem_flatMap.mpr ⟨(s', ts'), hm', ht'⟩))
    · exact absurd rfl (hd t ht' t (List.mem_flatMap.mpr ⟨(s, ts), hm, ht⟩))
    · exact ih s s' t ⟨ts, hm, ht⟩ ⟨ts', hm', ht'⟩

theorem functional_of_isFunctional {pm : PMap} (h : isFunctional pm = true) : Functional pm := by
  apply functional_of_nodup_targets
  rw [← hasDup_false_iff]
  simpa [isFunctional] using h

/-! ## `normalize` produces the representation invariant -/

theorem mem_setInsert {x y : Nat} : ∀ {l : List Nat}, y ∈ setInsert x l ↔ y = x ∨ y ∈ l
  | [] => by simp [setInsert]
  | z :: zs => by
    simp only [setInsert]
    split
    · simp
    · split
      · rename_i h
        simp only [beq_iff_eq] at h
        subst h
        simp
      · simp only [List.mem_cons, mem_setInsert (l := zs)]
        constructor
        · rintro (h | h | h)
          · exact Or.inr (Or.inl h)
          · exact Or.inl h
          · exact Or.inr (Or.inr h)
        · rintro (h | h | h)
          · exact Or.inr (Or.inl h)
          · exact Or.inl h
          · exact Or.inr (Or.inr h)

theorem setInsert_ascending (x : Nat) : ∀ {l : List Nat}, Ascending l → Ascending (setInsert x l)
  | [], _ => by simp [setInsert, Ascending]
  | z :: zs, h => by
    simp only [Ascending, List.pairwise_cons] at h
    simp only [setInsert]
    split
    · rename_i hlt
      simp only [Ascending, List.pairwise_cons]
      refine ⟨?_, h⟩
      intro a ha
      rcases List.mem_cons.mp ha with rfl | ha
      · exact hlt
      · exact Nat.lt_trans hlt (h.1 a ha)
    · split
      · simp only [Ascending, List.pairwise_cons]; exact h
      · rename_i h1 h2
        simp only [beq_iff_eq] at h2
        simp only [Ascending, List.pairwise_cons]
        refine ⟨?_, setInsert_ascending x h.2⟩
        intro a ha
        rcases mem_setInsert.mp ha with rfl | ha
        · omega
        · exact h.1 a ha

theorem foldl_setInsert_ascending (ts : List Nat) : ∀ {acc : List Nat}, Ascending acc →
    Ascending (ts.foldl (fun acc t => setInsert t acc) acc) := by
  induction ts with
  | nil => intro acc h; exact h
  | cons t ts ih => intro acc h; exact ih (setInsert_ascending t h)

theorem setOfList_ascending (l : List Nat) : Ascending (setOfList l) :=
  foldl_setInsert_ascending l (by simp [Ascending])

theorem mem_foldl_setInsert {y : Nat} (ts : List Nat) : ∀ {acc : List Nat},
    y ∈ ts.foldl (fun acc t => setInsert t acc) acc ↔ y ∈ ts ∨ y ∈ acc := by
  induction ts with
  | nil => intro acc; simp
  | cons t ts ih =>
    intro acc
    simp only [List.foldl_cons, ih, mem_setInsert, List.mem_cons]
    constructor
    · rintro (h | h | h)
      · exact Or.inl (Or.inr h)
      · exact Or.inl (Or.inl h)
      · exact Or.inr h
    · rintro ((h | h) | h)
      · exact Or.inr (Or.inl h)
      · exact Or.inl h
      · exact Or.inr (Or.inr h)

theorem mem_setOfList {y : Nat} {l : List Nat} : y ∈ setOfList l ↔ y ∈ l := by
  simp [setOfList, mem_foldl_setInsert]

theorem mem_mapInsert_sub {key : Nat} {val : List Nat} {kv : Nat × List Nat} : ∀ {m : PMap},
    kv ∈ mapInsert key val m → kv = (key, val) ∨ kv ∈ m
  | [] => by simp [mapInsert]
  | (k, v) :: rest => by
    simp only [mapInsert]
    split
    · intro h
      rcases List.mem_cons.mp h with h | h
      · exact Or.inl h
      · exact Or.inr h
    · split
      · intro h
        rcases List.mem_cons.mp h with h | h
        · exact Or.inl h
        · exact Or.inr (List.mem_cons_of_mem _ h)
      · intro h
        rcases List.mem_cons.mp h with h | h
        · exact Or.inr (h ▸ List.mem_cons_self)
        · rcases mem_mapInsert_sub (m := rest) h with h | h
          · exact Or.inl h
          · exact Or.inr (List.mem_cons_of_mem _ h)

theorem keys_mapInsert {key : Nat} {val : List Nat} {a : Nat} : ∀ {m : PMap},
    a ∈ (mapInsert key val m).map (·.1) ↔ a = key ∨ a ∈ m.map (·.1)
  | [] => by simp [mapInsert]
  | (k, v) :: rest => by
    simp only [mapInsert]
    split
    · simp
    · split
      · rename_i h
        simp only [beq_iff_eq] at h
        subst h
        simp
      · simp only [List.map_cons, List.mem_cons, keys_mapInsert (m := rest)]
        constructor
        · rintro (h | h | h)
          · exact Or.inr (Or.inl h)
          · exact Or.inl h
          · exact Or.inr (Or.inr h)
        · rintro (h | h | h)
          · exact Or.inr (Or.inl h)
          · exact Or.inl h
          · exact Or.inr (Or.inr h)

theorem mapInsert_keys_ascending (key : Nat) (val : List Nat) : ∀ {m : PMap},
    Ascending (m.map (·.1)) → Ascending ((mapInsert key val m).map (·.1))
  | [], _ => by simp [mapInsert, Ascending]
  | (k, v) :: rest, h => by
    simp only [List.map_cons, Ascending, List.pairwise_cons] at h
    simp only [mapInsert]
    split
    · rename_i hlt
      simp only [List.map_cons, Ascending, List.pairwise_cons]
      refine ⟨?_, h⟩
      intro a ha
      rcases List.mem_cons.mp ha with rfl | ha
      · exact hlt
      · exact Nat.lt_trans hlt (h.1 a ha)
    · split
      · rename_i h2
        simp only [beq_iff_eq] at h2
        subst h2
        simp only [List.map_cons, Ascending, List.pairwise_cons]; exact h
      · rename_i h1 h2
        simp only [beq_iff_eq] at h2
        simp only [List.map_cons, Ascending, List.pairwise_cons]
        refine ⟨?_, mapInsert_keys_ascending key val h.2⟩
        intro a ha
        rcases keys_mapInsert.mp ha with rfl | ha
        · omega
        · exact h.1 a ha

theorem mapInsert_sorted {key : Nat} {val : List Nat} {m : PMap} (hm : Sorted m)
    (hv : Ascending val) : Sorted (mapInsert key val m) := by
  refine ⟨mapInsert_keys_ascending key val hm.1, ?_⟩
  intro kv hkv
  rcases mem_mapInsert_sub hkv with rfl | h
  · exact hv
  · exact hm.2 kv h

theorem mapLookup_none_of_lt {key : Nat} : ∀ {m : PMap}, (∀ a ∈ m.map (·.1), key < a) →
    mapLookup m key = none
  | [], _ => rfl
  | (k, v) :: rest, h => by
    simp only [List.map_cons, List.mem_cons, forall_eq_or_imp] at h
    have : ¬ (k == key) = true := by simp only [beq_iff_eq]; omega
    simp only [mapLookup, this]
    exact mapLookup_none_of_lt h.2

theorem mapLookup_mapInsert {key : Nat} {val : List Nat} (k' : Nat) : ∀ {m : PMap},
    Ascending (m.map (·.1)) →
    mapLookup (mapInsert key val m) k' = if k' = key then some val else mapLookup m k'
  | [], _ => by
    simp only [mapInsert, mapLookup, beq_iff_eq]
    by_cases h : key = k'
    · simp [h]
    · have : ¬ k' = key := fun e => h e.symm
      simp [h, this]
  | (k, v) :: rest, h => by
    simp only [List.map_cons, Ascending, List.pairwise_cons] at h
    simp only [mapInsert]
    split
    · simp only [mapLookup, beq_iff_eq]
      by_cases h1 : k' = key
      · simp [h1]
      · have : ¬ key = k' := fun e => h1 e.symm
        simp [h1, this]
    · split
      · rename_i h2
        simp only [beq_iff_eq] at h2
        subst h2
        simp only [mapLookup, beq_iff_eq]
        by_cases h1 : k' = key
        · simp [h1]
        · have : ¬ key = k' := fun e => h1 e.symm
          simp [h1, this]
      · rename_i h1 h2
        simp only [beq_iff_eq] at h2
        simp only [mapLookup, beq_iff_eq]
        by_cases h3 : k = k'
        · have : ¬ k' = key := by omega
          simp [h3, this]
        · simp only [h3, if_false]
          exact mapLookup_mapInsert k' h.2

theorem mapLookup_ascending {m : PMap} (hm : Sorted m) {k : Nat} {v : List Nat}
    (h : mapLookup m k = some v) : Ascending v := hm.2 _ (mapLookup_mem h)

/-- `normalize` establishes the `BTreeMap<_, BTreeSet<_>>` representation invariant. -/
theorem normalize_sorted (edges : List (Nat × Nat)) : Sorted (normalize edges) := by
  unfold normalize
  have : ∀ (es : List (Nat × Nat)) (m : PMap), Sorted m →
      Sorted (es.foldl (fun m e => mapInsert e.1 (setInsert e.2 ((mapLookup m e.1).getD [])) m) m) := by
    intro es
    induction es with
    | nil => intro m h; exact h
    | cons e es ih =>
      intro m h
      apply ih
      apply mapInsert_sorted h
      apply setInsert_ascending
      cases hl : mapLookup m e.1 with
      | none => simp [Ascending]
      | some v => exact mapLookup_ascending h hl
  exact this edges [] ⟨by simp [Ascending], by simp⟩

/-- `normalize` contains exactly the given edges. -/
theorem edge_normalize (edges : List (Nat × Nat)) (s t : Nat) :
    Edge (normalize edges) s t ↔ (s, t) ∈ edges := by
  unfold normalize
  have : ∀ (es : List (Nat × Nat)) (m : PMap), Sorted m →
      (Edge (es.foldl (fun m e => mapInsert e.1 (setInsert e.2 ((mapLookup m e.1).getD [])) m) m) s t
        ↔ (s, t) ∈ es ∨ Edge m s t) := by
    intro es
    induction es with
    | nil => intro m _; simp
    | cons e es ih =>
      intro m hm
      have hs : Sorted (mapInsert e.1 (setInsert e.2 ((mapLookup m e.1).getD [])) m) := by
        apply mapInsert_sorted hm
        apply setInsert_ascending
        cases hl : mapLookup m e.1 with
        | none => simp [Ascending]
        | some v => exact mapLookup_ascending hm hl
      rw [List.foldl_cons, ih _ hs]
      have hk := hs.keysNodup
      have hkm := hm.keysNodup
      -- edges of the updated map, via lookups
      have edge_iff : ∀ {pm : PMap}, KeysNodup pm → (Edge pm s t ↔ ∃ ts, mapLookup pm s = some ts ∧ t ∈ ts) :=
        fun hkn => ⟨fun ⟨ts, h1, h2⟩ => ⟨ts, mapLookup_of_mem hkn h1, h2⟩,
          fun ⟨ts, h1, h2⟩ => ⟨ts, mapLookup_mem h1, h2⟩⟩
      rw [edge_iff hk, edge_iff hkm, mapLookup_mapInsert s hm.1]
      obtain ⟨e1, e2⟩ := e
      simp only [List.mem_cons, Prod.mk.injEq]
      by_cases hse : s = e1
      · subst hse
        simp only [if_true, Option.some.injEq, exists_eq_left', mem_setInsert, true_and]
        cases hl : mapLookup m s with
        | none =>
          simp only [Option.getD_none, List.not_mem_nil, or_false, reduceCtorEq, false_and,
            exists_false]
          exact or_comm
        | some v =>
          simp only [Option.getD_some, Option.some.injEq, exists_eq_left']
          constructor
          · rintro (h | h | h)
            · exact Or.inl (Or.inr h)
            · exact Or.inl (Or.inl h)
            · exact Or.inr h
          · rintro ((h | h) | h)
            · exact Or.inr (Or.inl h)
            · exact Or.inl h
            · exact Or.inr (Or.inr h)
      · simp [hse]
  rw [this edges [] ⟨by simp [Ascending], by simp⟩]
  simp [Edge]

/-! ## T3: the reference-count instructions of a substitution -/

/-- `temporary_from_position` is injective where defined -/
def TfpInjective (tfp : Nat → Option Nat) : Prop := ∀ a b c, tfp a = some c → tfp b = some c → a = b

/-- `temporary_from_position` does not panic on the temporaries of a context with `n` bindings -/
def TfpTotal (tfp : Nat → Option Nat) (n : Nat) : Prop := ∀ q, q < 2 * n → ∃ t, tfp q = some t

/-- number of new variables that are bound to the old variable `id` -/
def targetCount (re : Rearrange) (id : Nat) : Nat := (re.filter (fun no => id == no.2)).length

/-- The reference-count instructions for one old binding: none for `ext` bindings and for bindings with
    exactly one target, one `erase` for no target, one `share (k-1)` for `k ≥ 2` targets, always on the
    `Fst` temporary of the binding. -/
def refOpsFor (tfp : Nat → Option Nat) (re : Rearrange) (ctx : Ctx) (b : Nat × Chi) : List ROp :=
  if b.2 = Chi.ext then [] else
  match variableTemporary tfp 0 ctx b.1, targetCount re b.1 with
  | none, _ => []
  | some t, 0 => [.comment 0 b.1, .erase t]
  | some _, 1 => []
  | some t, n + 2 => [.comment 1 b.1, .share t (n + 1)]

theorem getPosition_of_mem {ctx : Ctx} {b : Nat × Chi} (h : b ∈ ctx) :
    ∃ p, getPosition ctx b.1 = some p ∧ p < ctx.length := by
  induction ctx with
  | nil => simp at h
  | cons c rest ih =>
    simp only [getPosition]
    by_cases hc : c.1 = b.1
    · exact ⟨0, by simp [hc]⟩
    · have : ¬ (c.1 == b.1) = true := by simpa using hc
      simp only [this]
      rcases List.mem_cons.mp h with rfl | h
      · exact absurd rfl hc
      · obtain ⟨p, hp, hlt⟩ := ih h
        exact ⟨p + 1, by simp [hp], by simp; omega⟩

theorem variableTemporary_of_mem (tfp : Nat → Option Nat) (num : Nat) {ctx : Ctx} {b : Nat × Chi}
    (h : b ∈ ctx) :
    ∃ p, getPosition ctx b.1 = some p ∧ p < ctx.length ∧
      variableTemporary tfp num ctx b.1 = tfp (2 * p + num) := by
  obtain ⟨p, hp, hlt⟩ := getPosition_of_mem h
  exact ⟨p, hp, hlt, by simp [variableTemporary, hp]⟩

theorem codeWeakeningContraction_eq (tfp : Nat → Option Nat) (re : Rearrange) (ctx : Ctx)
    (htot : TfpTotal tfp ctx.length) :
    codeWeakeningContraction tfp (transpose re ctx) ctx = some (ctx.flatMap (refOpsFor tfp re ctx)) := by
  have : ∀ (bs : List (Nat × Chi)), (∀ b ∈ bs, b ∈ ctx) →
      codeWeakeningContraction tfp (bs.map (fun binding =>
        (binding, (re.filter (fun no => binding.1 == no.2)).map (fun no => no.1.1)))) ctx
        = some (bs.flatMap (refOpsFor tfp re ctx)) := by
    intro bs
    induction bs with
    | nil => intro _; rfl
    | cons b bs ih =>
      intro hb
      have ih' := ih (fun b' hb' => hb b' (List.mem_cons_of_mem _ hb'))
      obtain ⟨p, _, hlt, hp⟩ := variableTemporary_of_mem tfp 0 (hb b List.mem_cons_self)
      obtain ⟨t, ht⟩ := htot (2 * p + 0) (by omega)
      rw [ht] at hp
      simp only [List.map_cons, codeWeakeningContraction, List.flatMap_cons, ih']
      by_cases hext : b.2 = Chi.ext
      · simp [hext, refOpsFor]
      · have : (b.2 != Chi.ext) = true := by simpa using hext
        simp only [this, if_true, List.length_map, updateReferenceCount, hp, refOpsFor, hext,
          if_false, targetCount]
        cases (re.filter (fun no => b.1 == no.2)).length with
        | zero => rfl
        | succ n => cases n <;> rfl
  exact this ctx (fun _ h => h)

/-- every refcount instruction addresses the `Fst` temporary of a non-`ext` old binding -/
theorem refOpsFor_temporaries {tfp : Nat → Option Nat} {re : Rearrange} {ctx : Ctx} {b : Nat × Chi} {op : ROp}
    (h : op ∈ refOpsFor tfp re ctx b) :
    b.2 ≠ Chi.ext ∧ ∀ t, (op = .erase t ∨ ∃ n, op = .share t n) → variableTemporary tfp 0 ctx b.1 = some t := by
  unfold refOpsFor at h
  by_cases hext : b.2 = Chi.ext
  · simp [hext] at h
  · refine ⟨hext, ?_⟩
    simp only [hext, if_false] at h
    cases hv : variableTemporary tfp 0 ctx b.1 with
    | none => simp [hv] at h
    | some t' =>
      cases hc : targetCount re b.1 with
      | zero =>
        simp only [hv, hc, List.mem_cons, List.not_mem_nil, or_false] at h
        intro t ht
        rcases h with rfl | rfl <;> rcases ht with ht | ⟨n, ht⟩ <;> simp_all
      | succ n =>
        cases n with
        | zero => simp [hv, hc] at h
        | succ n =>
          simp only [hv, hc, List.mem_cons, List.not_mem_nil, or_false] at h
          intro t ht
          rcases h with rfl | rfl <;> rcases ht with ht | ⟨n', ht⟩ <;> simp_all

/-! ## `connections` builds a sorted, functional map with exactly the expected edges -/

theorem edge_iff_lookup {pm : PMap} (hk : KeysNodup pm) {s t : Nat} :
    Edge pm s t ↔ ∃ ts, mapLookup pm s = some ts ∧ t ∈ ts :=
  ⟨fun ⟨ts, h1, h2⟩ => ⟨ts, mapLookup_of_mem hk h1, h2⟩,
   fun ⟨ts, h1, h2⟩ => ⟨ts, mapLookup_mem h1, h2⟩⟩

theorem edge_mapInsert {m : PMap} (hm : Ascending (m.map (·.1))) (k : Nat) (v : List Nat) (s t : Nat) :
    Edge (mapInsert k v m) s t ↔ (s = k ∧ t ∈ v) ∨ (s ≠ k ∧ Edge m s t) := by
  rw [edge_iff_lookup (Ascending.nodup (mapInsert_keys_ascending k v hm)),
    edge_iff_lookup (Ascending.nodup hm), mapLookup_mapInsert s hm]
  by_cases h : s = k <;> simp [h]

theorem optMap_mem_iff {α β : Type} {f : α → Option β} : ∀ {l : List α} {ys : List β},
    optMap f l = some ys → ∀ y, y ∈ ys ↔ ∃ x ∈ l, f x = some y
  | [], ys, h, y => by
    simp only [optMap, Option.some.injEq] at h
    subst h; simp
  | x :: xs, ys, h, y => by
    obtain ⟨y', ys', h1, h2, rfl⟩ := optMap_cons_some h
    have ih := optMap_mem_iff h2 y
    simp only [List.mem_cons, ih]
    constructor
    · rintro (rfl | ⟨x', hx', hf⟩)
      · exact ⟨x, Or.inl rfl, h1⟩
      · exact ⟨x', Or.inr hx', hf⟩
    · rintro ⟨x', rfl | hx', hf⟩
      · left; rw [h1] at hf; exact (Option.some.inj hf).symm
      · exact Or.inr ⟨x', hx', hf⟩

theorem getPosition_cons (c : Nat × Chi) (rest : Ctx) (id : Nat) :
    getPosition (c :: rest) id = if c.1 = id then some 0 else (getPosition rest id).map (· + 1) := by
  simp only [getPosition, beq_iff_eq]

theorem getPosition_inj : ∀ {ctx : Ctx} {id id' p : Nat}, getPosition ctx id = some p →
    getPosition ctx id' = some p → id = id'
  | [], _, _, _, h, _ => by simp [getPosition] at h
  | c :: rest, id, id', p, h, h' => by
    rw [getPosition_cons] at h h'
    by_cases h1 : c.1 = id <;> by_cases h2 : c.1 = id'
    · exact h1.symm.trans h2
    · simp only [h1, if_true, Option.some.injEq] at h
      simp only [h2, if_false, Option.map_eq_some_iff] at h'
      obtain ⟨q, _, hq⟩ := h'
      omega
    · simp only [h2, if_true, Option.some.injEq] at h'
      simp only [h1, if_false, Option.map_eq_some_iff] at h
      obtain ⟨q, _, hq⟩ := h
      omega
    · simp only [h1, h2, if_false, Option.map_eq_some_iff] at h h'
      obtain ⟨q, hq, rfl⟩ := h
      obtain ⟨q', hq', hqq⟩ := h'
      have : q' = q := by omega
      subst this
      exact getPosition_inj hq hq'

theorem variableTemporary_inj {tfp : Nat → Option Nat} (hinj : TfpInjective tfp) {ctx : Ctx}
    {num num' id id' s : Nat} (hn : num ≤ 1) (hn' : num' ≤ 1)
    (h : variableTemporary tfp num ctx id = some s) (h' : variableTemporary tfp num' ctx id' = some s) :
    num = num' ∧ id = id' := by
  simp only [variableTemporary] at h h'
  cases hp : getPosition ctx id with
  | none => simp [hp] at h
  | some p =>
    cases hp' : getPosition ctx id' with
    | none => simp [hp'] at h'
    | some p' =>
      simp only [hp] at h
      simp only [hp'] at h'
      have := hinj _ _ _ h h'
      have : p' = p ∧ num = num' := by omega
      obtain ⟨rfl, rfl⟩ := this
      exact ⟨rfl, getPosition_inj hp hp'⟩

/-- the edges contributed by one entry of the transposed rearrangement -/
def EntryEdge (tfp : Nat → Option Nat) (ctx nctx : Ctx) (e : (Nat × Chi) × List Nat) (s t : Nat) : Prop :=
  ∃ num, (num = 1 ∨ (num = 0 ∧ e.1.2 ≠ Chi.ext)) ∧ variableTemporary tfp num ctx e.1.1 = some s ∧
    ∃ tgt ∈ e.2, variableTemporary tfp num nctx tgt = some t

theorem go_cons_some {tfp : Nat → Option Nat} {ctx nctx : Ctx} {b : Nat × Chi} {tg : List Nat}
    {rest : List ((Nat × Chi) × List Nat)} {acc pm : PMap}
    (h : connections.go tfp ctx nctx ((b, tg) :: rest) acc = some pm) :
    (b.2 = Chi.ext ∧ ∃ s ts, variableTemporary tfp 1 ctx b.1 = some s ∧
        optMap (variableTemporary tfp 1 nctx) tg = some ts ∧
        connections.go tfp ctx nctx rest (mapInsert s (setOfList ts) acc) = some pm) ∨
    (b.2 ≠ Chi.ext ∧ ∃ s0 ts0 s1 ts1, variableTemporary tfp 0 ctx b.1 = some s0 ∧
        optMap (variableTemporary tfp 0 nctx) tg = some ts0 ∧
        variableTemporary tfp 1 ctx b.1 = some s1 ∧ optMap (variableTemporary tfp 1 nctx) tg = some ts1 ∧
        connections.go tfp ctx nctx rest
          (mapInsert s1 (setOfList ts1) (mapInsert s0 (setOfList ts0) acc)) = some pm) := by
  simp only [connections.go] at h
  by_cases hext : b.2 = Chi.ext
  · left
    simp only [hext, beq_self_eq_true, if_true] at h
    cases h1 : variableTemporary tfp 1 ctx b.1 <;> cases h2 : optMap (variableTemporary tfp 1 nctx) tg <;>
      simp only [h1, h2] at h <;> try exact absurd h (by simp)
    exact ⟨hext, _, _, rfl, rfl, h⟩
  · right
    have : ¬ (b.2 == Chi.ext) = true := by simpa using hext
    rw [if_neg this] at h
    cases h0 : variableTemporary tfp 0 ctx b.1 <;> cases h0' : optMap (variableTemporary tfp 0 nctx) tg <;>
    cases h1 : variableTemporary tfp 1 ctx b.1 <;> cases h2 : optMap (variableTemporary tfp 1 nctx) tg <;>
      simp only [h0, h0', h1, h2] at h <;> try exact absurd h (by simp)
    exact ⟨hext, _, _, _, _, rfl, rfl, rfl, rfl, h⟩

/-- soundness: every edge of the result comes from the accumulator or from an entry -/
theorem go_sound {tfp : Nat → Option Nat} {ctx nctx : Ctx} : ∀ (entries : List ((Nat × Chi) × List Nat)) (acc pm : PMap),
    connections.go tfp ctx nctx entries acc = some pm → Sorted acc →
    Sorted pm ∧ ∀ s t, Edge pm s t → Edge acc s t ∨ ∃ e ∈ entries, EntryEdge tfp ctx nctx e s t
  | [], acc, pm, h, hs => by
    simp only [connections.go, Option.some.injEq] at h
    subst h
    exact ⟨hs, fun s t e => Or.inl e⟩
  | (b, tg) :: rest, acc, pm, h, hs => by
    rcases go_cons_some h with ⟨hext, s1, ts1, hv1, ho1, hgo⟩ | ⟨hext, s0, ts0, s1, ts1, hv0, ho0, hv1, ho1, hgo⟩
    · have hs' := mapInsert_sorted (key := s1) hs (setOfList_ascending ts1)
      obtain ⟨hsp, hed⟩ := go_sound rest _ pm hgo hs'
      refine ⟨hsp, ?_⟩
      intro s t e
      rcases hed s t e with e' | ⟨e', he', hee⟩
      · rcases (edge_mapInsert hs.1 s1 _ s t).mp e' with ⟨rfl, ht⟩ | ⟨_, e''⟩
        · right
          refine ⟨(b, tg), List.mem_cons_self, 1, Or.inl rfl, hv1, ?_⟩
          exact (optMap_mem_iff ho1 t).mp (mem_setOfList.mp ht)
        · exact Or.inl e''
      · exact Or.inr ⟨e', List.mem_cons_of_mem _ he', hee⟩
    · have hs0 := mapInsert_sorted (key := s0) hs (setOfList_ascending ts0)
      have hs' := mapInsert_sorted (key := s1) hs0 (setOfList_ascending ts1)
      obtain ⟨hsp, hed⟩ := go_sound rest _ pm hgo hs'
      refine ⟨hsp, ?_⟩
      intro s t e
      rcases hed s t e with e' | ⟨e', he', hee⟩
      · rcases (edge_mapInsert hs0.1 s1 _ s t).mp e' with ⟨rfl, ht⟩ | ⟨_, e''⟩
        · right
          refine ⟨(b, tg), List.mem_cons_self, 1, Or.inl rfl, hv1, ?_⟩
          exact (optMap_mem_iff ho1 t).mp (mem_setOfList.mp ht)
        · rcases (edge_mapInsert hs.1 s0 _ s t).mp e'' with ⟨rfl, ht⟩ | ⟨_, e3⟩
          · right
            refine ⟨(b, tg), List.mem_cons_self, 0, Or.inr ⟨rfl, hext⟩, hv0, ?_⟩
            exact (optMap_mem_iff ho0 t).mp (mem_setOfList.mp ht)
          · exact Or.inl e3
      · exact Or.inr ⟨e', List.mem_cons_of_mem _ he', hee⟩

/-- completeness: accumulator edges whose source is not re-inserted survive, and every entry edge is
    present, provided the entries have pairwise distinct ids -/
theorem go_complete {tfp : Nat → Option Nat} (hinj : TfpInjective tfp) {ctx nctx : Ctx} :
    ∀ (entries : List ((Nat × Chi) × List Nat)) (acc pm : PMap),
    connections.go tfp ctx nctx entries acc = some pm → Sorted acc → (entries.map (·.1.1)).Nodup →
    (∀ s t, Edge acc s t →
      (∀ e ∈ entries, ∀ num, num ≤ 1 → variableTemporary tfp num ctx e.1.1 ≠ some s) → Edge pm s t) ∧
    (∀ e ∈ entries, ∀ s t, EntryEdge tfp ctx nctx e s t → Edge pm s t)
  | [], acc, pm, h, _, _ => by
    simp only [connections.go, Option.some.injEq] at h
    subst h
    exact ⟨fun s t e _ => e, fun e he => by simp at he⟩
  | (b, tg) :: rest, acc, pm, h, hs, hnd => by
    simp only [List.map_cons, List.nodup_cons, List.mem_map, not_exists, not_and] at hnd
    -- a key of the head entry is not a key of a later entry
    have fresh : ∀ num, num ≤ 1 → ∀ s, variableTemporary tfp num ctx b.1 = some s →
        ∀ e ∈ rest, ∀ num', num' ≤ 1 → variableTemporary tfp num' ctx e.1.1 ≠ some s := by
      intro num hn s hv e he num' hn' hv'
      exact hnd.1 e he (variableTemporary_inj hinj hn' hn hv' hv).2
    rcases go_cons_some h with ⟨hext, s1, ts1, hv1, ho1, hgo⟩ | ⟨hext, s0, ts0, s1, ts1, hv0, ho0, hv1, ho1, hgo⟩
    · have hs' := mapInsert_sorted (key := s1) hs (setOfList_ascending ts1)
      obtain ⟨ih1, ih2⟩ := go_complete hinj rest _ pm hgo hs' hnd.2
      refine ⟨?_, ?_⟩
      · intro s t e hkeys
        apply ih1 s t
        · refine (edge_mapInsert hs.1 s1 _ s t).mpr (Or.inr ⟨?_, e⟩)
          intro hss
          exact hkeys (b, tg) List.mem_cons_self 1 (Nat.le_refl 1) (hss ▸ hv1)
        · exact fun e' he' => hkeys e' (List.mem_cons_of_mem _ he')
      · intro e he s t hee
        rcases List.mem_cons.mp he with rfl | he
        · obtain ⟨num, hnum, hvs, tgt, htgt, hvt⟩ := hee
          rcases hnum with rfl | ⟨_, hne⟩
          · have : s = s1 := by rw [hv1] at hvs; exact (Option.some.inj hvs).symm
            subst this
            apply ih1 s t
            · refine (edge_mapInsert hs.1 s _ s t).mpr (Or.inl ⟨rfl, ?_⟩)
              exact mem_setOfList.mpr ((optMap_mem_iff ho1 t).mpr ⟨tgt, htgt, hvt⟩)
            · exact fresh 1 (Nat.le_refl 1) s hv1
          · exact absurd hext hne
        · exact ih2 e he s t hee
    · have hs0 := mapInsert_sorted (key := s0) hs (setOfList_ascending ts0)
      have hs' := mapInsert_sorted (key := s1) hs0 (setOfList_ascending ts1)
      obtain ⟨ih1, ih2⟩ := go_complete hinj rest _ pm hgo hs' hnd.2
      have hne01 : s0 ≠ s1 := by
        intro e01
        exact absurd (variableTemporary_inj hinj (Nat.zero_le 1) (Nat.le_refl 1) hv0 (e01 ▸ hv1)).1 (by omega)
      refine ⟨?_, ?_⟩
      · intro s t e hkeys
        apply ih1 s t
        · refine (edge_mapInsert hs0.1 s1 _ s t).mpr (Or.inr ⟨?_, ?_⟩)
          · intro hss
            exact hkeys (b, tg) List.mem_cons_self 1 (Nat.le_refl 1) (hss ▸ hv1)
          · refine (edge_mapInsert hs.1 s0 _ s t).mpr (Or.inr ⟨?_, e⟩)
            intro hss
            exact hkeys (b, tg) List.mem_cons_self 0 (Nat.zero_le 1) (hss ▸ hv0)
        · exact fun e' he' => hkeys e' (List.mem_cons_of_mem _ he')
      · intro e he s t hee
        rcases List.mem_cons.mp he with rfl | he
        · obtain ⟨num, hnum, hvs, tgt, htgt, hvt⟩ := hee
          rcases hnum with rfl | ⟨rfl, _⟩
          · have : s = s1 := by rw [hv1] at hvs; exact (Option.some.inj hvs).symm
            subst this
            apply ih1 s t
            · refine (edge_mapInsert hs0.1 s _ s t).mpr (Or.inl ⟨rfl, ?_⟩)
              exact mem_setOfList.mpr ((optMap_mem_iff ho1 t).mpr ⟨tgt, htgt, hvt⟩)
            · exact fresh 1 (Nat.le_refl 1) s hv1
          · have : s = s0 := by rw [hv0] at hvs; exact (Option.some.inj hvs).symm
            subst this
            apply ih1 s t
            · refine (edge_mapInsert hs0.1 s1 _ s t).mpr (Or.inr ⟨hne01, ?_⟩)
              refine (edge_mapInsert hs.1 s _ s t).mpr (Or.inl ⟨rfl, ?_⟩)
              exact mem_setOfList.mpr ((optMap_mem_iff ho0 t).mpr ⟨tgt, htgt, hvt⟩)
            · exact fresh 0 (Nat.zero_le 1) s hv0
        · exact ih2 e he s t hee

theorem variableTemporary_of_id {tfp : Nat → Option Nat} {num : Nat} (hn : num ≤ 1) {ctx : Ctx}
    (htot : TfpTotal tfp ctx.length) {id : Nat} (h : ∃ b ∈ ctx, b.1 = id) :
    ∃ t, variableTemporary tfp num ctx id = some t := by
  obtain ⟨b, hb, rfl⟩ := h
  obtain ⟨p, _, hlt, hp⟩ := variableTemporary_of_mem tfp num hb
  obtain ⟨t, ht⟩ := htot (2 * p + num) (by omega)
  exact ⟨t, by rw [hp, ht]⟩

theorem go_exists {tfp : Nat → Option Nat} {ctx nctx : Ctx} (htot : TfpTotal tfp ctx.length)
    (htot' : TfpTotal tfp nctx.length) :
    ∀ (entries : List ((Nat × Chi) × List Nat)) (acc : PMap),
    (∀ e ∈ entries, (∃ b ∈ ctx, b.1 = e.1.1) ∧ ∀ tgt ∈ e.2, ∃ nb ∈ nctx, nb.1 = tgt) →
    ∃ pm, connections.go tfp ctx nctx entries acc = some pm
  | [], acc, _ => ⟨acc, rfl⟩
  | (b, tg) :: rest, acc, h => by
    obtain ⟨hb, htg⟩ := h (b, tg) List.mem_cons_self
    have hrest := fun e he => h e (List.mem_cons_of_mem _ he)
    obtain ⟨s0, hs0⟩ := variableTemporary_of_id (num := 0) (Nat.zero_le 1) htot hb
    obtain ⟨s1, hs1⟩ := variableTemporary_of_id (num := 1) (Nat.le_refl 1) htot hb
    obtain ⟨ts0, hts0⟩ := optMap_exists (f := variableTemporary tfp 0 nctx) (xs := tg)
      (fun x hx => variableTemporary_of_id (Nat.zero_le 1) htot' (htg x hx))
    obtain ⟨ts1, hts1⟩ := optMap_exists (f := variableTemporary tfp 1 nctx) (xs := tg)
      (fun x hx => variableTemporary_of_id (Nat.le_refl 1) htot' (htg x hx))
    simp only [connections.go] at hs0 hs1 hts0 hts1 ⊢
    split
    · simp only [hs1, hts1]
      exact go_exists htot htot' rest _ hrest
    · simp only [hs0, hs1, hts0, hts1]
      exact go_exists htot htot' rest _ hrest

theorem eq_of_nodup_map {α β : Type} (f : α → β) : ∀ {l : List α}, (l.map f).Nodup →
    ∀ {a b : α}, a ∈ l → b ∈ l → f a = f b → a = b
  | [], _, _, _, ha, _, _ => by simp at ha
  | x :: xs, h, a, b, ha, hb, hab => by
    simp only [List.map_cons, List.nodup_cons, List.mem_map, not_exists, not_and] at h
    rcases List.mem_cons.mp ha with ha | ha <;> rcases List.mem_cons.mp hb with hb | hb
    · rw [ha, hb]
    · rw [ha] at hab; exact absurd hab.symm (h.1 b hb)
    · rw [hb] at hab; exact absurd hab (h.1 a ha)
    · exact eq_of_nodup_map f h.2 ha hb hab

/-- The moves a substitution has to perform: for every pair `(new := old)` of the rearrangement with
    `old` bound in the context, the `Snd` temporary, and for non-`ext` bindings also the `Fst`
    temporary, of `old`'s position goes to the corresponding temporary of `new`'s position. -/
def SubstEdge (tfp : Nat → Option Nat) (re : Rearrange) (ctx : Ctx) (s t : Nat) : Prop :=
  ∃ b ∈ ctx, ∃ e ∈ re, e.2 = b.1 ∧ ∃ num, (num = 1 ∨ (num = 0 ∧ b.2 ≠ Chi.ext)) ∧
    variableTemporary tfp num ctx b.1 = some s ∧ variableTemporary tfp num (newContext re) e.1.1 = some t

theorem entryEdge_transpose {tfp : Nat → Option Nat} {re : Rearrange} {ctx : Ctx} {s t : Nat} :
    (∃ e ∈ transpose re ctx, EntryEdge tfp ctx (newContext re) e s t) ↔ SubstEdge tfp re ctx s t := by
  simp only [transpose, List.mem_map, EntryEdge, SubstEdge]
  constructor
  · rintro ⟨_, ⟨b, hb, rfl⟩, num, hnum, hvs, tgt, htgt, hvt⟩
    simp only [List.mem_map, List.mem_filter, beq_iff_eq] at htgt
    obtain ⟨e, ⟨he, hbe⟩, rfl⟩ := htgt
    exact ⟨b, hb, e, he, hbe.symm, num, hnum, hvs, hvt⟩
  · rintro ⟨b, hb, e, he, heb, num, hnum, hvs, hvt⟩
    refine ⟨_, ⟨b, hb, rfl⟩, num, hnum, hvs, e.1.1, ?_, hvt⟩
    simp only [List.mem_map, List.mem_filter, beq_iff_eq]
    exact ⟨e, ⟨he, heb.symm⟩, rfl⟩

theorem substEdge_functional {tfp : Nat → Option Nat} (hinj : TfpInjective tfp) {re : Rearrange}
    {ctx : Ctx} (hnew : (re.map (·.1.1)).Nodup)
    {s s' t : Nat} (h : SubstEdge tfp re ctx s t) (h' : SubstEdge tfp re ctx s' t) : s = s' := by
  obtain ⟨b, _, e, he, heb, num, hnum, hvs, hvt⟩ := h
  obtain ⟨b', _, e', he', heb', num', hnum', hvs', hvt'⟩ := h'
  have hn : num ≤ 1 := by rcases hnum with rfl | ⟨rfl, _⟩ <;> omega
  have hn' : num' ≤ 1 := by rcases hnum' with rfl | ⟨rfl, _⟩ <;> omega
  obtain ⟨rfl, hid⟩ := variableTemporary_inj hinj hn hn' hvt hvt'
  have : e = e' := eq_of_nodup_map (fun e : (Nat × Chi) × Nat => e.1.1) hnew he he' hid
  subst this
  rw [← heb, heb'] at hvs
  rw [hvs] at hvs'
  exact Option.some.inj hvs'

/-- `connections` applied to the transposed rearrangement: no panic, a sorted functional map whose edges
    are exactly the required moves. -/
theorem connections_spec (tfp : Nat → Option Nat) (hinj : TfpInjective tfp) (re : Rearrange) (ctx : Ctx)
    (htot : TfpTotal tfp ctx.length) (htot' : TfpTotal tfp re.length)
    (hctx : (ctx.map (·.1)).Nodup) (hnew : (re.map (·.1.1)).Nodup) :
    ∃ pm, connections tfp (transpose re ctx) ctx (newContext re) = some pm ∧ Sorted pm ∧ Functional pm ∧
      ∀ s t, Edge pm s t ↔ SubstEdge tfp re ctx s t := by
  have hex : ∀ e ∈ transpose re ctx, (∃ b ∈ ctx, b.1 = e.1.1) ∧
      ∀ tgt ∈ e.2, ∃ nb ∈ newContext re, nb.1 = tgt := by
    intro e he
    simp only [transpose, List.mem_map] at he
    obtain ⟨b, hb, rfl⟩ := he
    refine ⟨⟨b, hb, rfl⟩, ?_⟩
    intro tgt htgt
    simp only [List.mem_map, List.mem_filter] at htgt
    obtain ⟨e, ⟨he, _⟩, rfl⟩ := htgt
    exact ⟨e.1, List.mem_map.mpr ⟨e, he, rfl⟩, rfl⟩
  have hlen : (newContext re).length = re.length := by simp [newContext]
  obtain ⟨pm, hpm⟩ := go_exists (tfp := tfp) (ctx := ctx) (nctx := newContext re) htot
    (by rw [hlen]; exact htot') (transpose re ctx) [] hex
  have hs0 : Sorted ([] : PMap) := ⟨by simp [Ascending], by simp⟩
  obtain ⟨hsorted, hsound⟩ := go_sound _ _ _ hpm hs0
  have hids : ((transpose re ctx).map (·.1.1)).Nodup := by
    simpa [transpose, List.map_map, Function.comp_def] using hctx
  obtain ⟨_, hcomplete⟩ := go_complete hinj _ _ _ hpm hs0 hids
  have hedge : ∀ s t, Edge pm s t ↔ SubstEdge tfp re ctx s t := by
    intro s t
    rw [← entryEdge_transpose]
    constructor
    · intro e
      rcases hsound s t e with ⟨_, h, _⟩ | h
      · simp at h
      · exact h
    · rintro ⟨e, he, hee⟩
      exact hcomplete e he s t hee
  refine ⟨pm, hpm, hsorted, ?_, hedge⟩
  intro s s' t h h'
  exact substEdge_functional hinj hnew ((hedge s t).mp h) ((hedge s' t).mp h')

/-- C11 at the level of a whole `Substitute` statement (abstract machine): the refcount instructions are
    the expected ones and come first; then the moves realise the simultaneous assignment. -/
theorem codeSubstitute_correct {V : Type} (tfp : Nat → Option Nat) (hinj : TfpInjective tfp)
    (re : Rearrange) (ctx : Ctx) (csE : Root → Bool)
    (htot : TfpTotal tfp ctx.length) (htot' : TfpTotal tfp re.length)
    (hctx : (ctx.map (·.1)).Nodup) (hnew : (re.map (·.1.1)).Nodup) :
    ∃ rc mv, codeSubstitute tfp re ctx csE = .ok rc mv ∧ rc = ctx.flatMap (refOpsFor tfp re ctx) ∧
      ∀ (σ : Nat → V) (sc : V),
        (∀ s t, SubstEdge tfp re ctx s t → (run mv (σ, sc)).1 t = σ s) ∧
        (∀ x, (∀ s, ¬ SubstEdge tfp re ctx s x) → (run mv (σ, sc)).1 x = σ x) := by
  obtain ⟨pm, hpm, hsorted, hfun, hedge⟩ := connections_spec tfp hinj re ctx htot htot' hctx hnew
  have hfuel : (allNodes pm).length ≤ fuelFor pm := by unfold fuelFor; omega
  obtain ⟨ops, hops, hrun⟩ := parallelMovesFuel_correct (V := V) pm hsorted.keysNodup
    hsorted.targetsNodup hfun csE (fuelFor pm) hfuel
  refine ⟨ctx.flatMap (refOpsFor tfp re ctx), ops, ?_, rfl, ?_⟩
  · simp only [codeSubstitute, codeWeakeningContraction_eq tfp re ctx htot, hpm, parallelMoves, hops]
  · intro σ sc
    obtain ⟨h1, h2⟩ := hrun σ sc
    exact ⟨fun s t e => h1 s t ((hedge s t).mpr e),
      fun x hx => h2 x (fun s e => hx s ((hedge s x).mp e))⟩

/-- the pieces of a `Substitute` statement, for reuse by the backend theorems -/
theorem codeSubstitute_ok (tfp : Nat → Option Nat) (hinj : TfpInjective tfp)
    (re : Rearrange) (ctx : Ctx) (csE : Root → Bool)
    (htot : TfpTotal tfp ctx.length) (htot' : TfpTotal tfp re.length)
    (hctx : (ctx.map (·.1)).Nodup) (hnew : (re.map (·.1.1)).Nodup) :
    ∃ pm ops, Sorted pm ∧ Functional pm ∧ (∀ s t, Edge pm s t ↔ SubstEdge tfp re ctx s t) ∧
      parallelMoves pm csE = .ok ops ∧
      codeSubstitute tfp re ctx csE = .ok (ctx.flatMap (refOpsFor tfp re ctx)) ops := by
  obtain ⟨pm, hpm, hsorted, hfun, hedge⟩ := connections_spec tfp hinj re ctx htot htot' hctx hnew
  have hfuel : (allNodes pm).length ≤ fuelFor pm := by unfold fuelFor; omega
  obtain ⟨ops, hops, _⟩ := parallelMovesFuel_correct (V := Unit) pm hsorted.keysNodup
    hsorted.targetsNodup hfun csE (fuelFor pm) hfuel
  refine ⟨pm, ops, hsorted, hfun, hedge, hops, ?_⟩
  simp only [codeSubstitute, codeWeakeningContraction_eq tfp re ctx htot, hpm]
  have : parallelMoves pm csE = .ok ops := hops
  simp only [this]

theorem variableTemporary_range {tfp : Nat → Option Nat} {num : Nat} {ctx : Ctx} {id s : Nat}
    (h : variableTemporary tfp num ctx id = some s) : ∃ q, tfp q = some s := by
  simp only [variableTemporary] at h
  cases hp : getPosition ctx id with
  | none => simp [hp] at h
  | some p => simp only [hp] at h; exact ⟨_, h⟩

theorem substEdge_range {tfp : Nat → Option Nat} {re : Rearrange} {ctx : Ctx} {s t : Nat}
    (h : SubstEdge tfp re ctx s t) : (∃ q, tfp q = some s) ∧ (∃ q, tfp q = some t) := by
  obtain ⟨_, _, _, _, _, _, _, hs, ht⟩ := h
  exact ⟨variableTemporary_range hs, variableTemporary_range ht⟩

theorem genericTemporary_injective : TfpInjective genericTemporary := by
  intro a b c ha hb
  simp only [genericTemporary, Option.some.injEq] at ha hb
  omega

theorem genericTemporary_total (n : Nat) : TfpTotal genericTemporary n :=
  fun q _ => ⟨q, rfl⟩

end Scc.PMoves
