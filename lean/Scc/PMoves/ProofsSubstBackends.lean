/-
  Scc/PMoves/ProofsSubstBackends.lean  --  C11 for a whole `Substitute` statement on each backend:
  `temporary_from_position` is injective, avoids the scratch locations, and (within capacity) total, so
  the map built by `connections` satisfies the hypotheses of the T2 theorems.
-/
import Scc.PMoves.ProofsSubst
import Scc.PMoves.ProofsX86
import Scc.PMoves.ProofsA64RV

set_option autoImplicit false

namespace Scc.PMoves

namespace X86

theorem tfp_cases {q c : Nat} (h : temporaryFromPosition q = some c) :
    (q + 4 < 16 ∧ c = q + 4) ∨ (16 ≤ q + 4 ∧ c = q + 5) := by
  simp only [temporaryFromPosition] at h
  split at h
  · rename_i h1
    simp only [RESERVED, REGISTER_NUM, encode, Option.some.injEq] at h h1; omega
  · rename_i h1
    split at h
    · simp only [RESERVED, REGISTER_NUM, RESERVED_SPILLS, encode, Option.some.injEq] at h h1; omega
    · simp at h

theorem tfp_injective : TfpInjective temporaryFromPosition := by
  intro a b c ha hb
  rcases tfp_cases ha with h | h <;> rcases tfp_cases hb with h' | h' <;> omega

theorem tfp_total {n : Nat} (h : 2 * n ≤ 267) : TfpTotal temporaryFromPosition n := by
  intro q hq
  simp only [temporaryFromPosition]
  split
  · exact ⟨_, rfl⟩
  · rename_i h1
    rw [if_pos (by simp only [RESERVED, REGISTER_NUM, RESERVED_SPILLS, SPILL_NUM] at h1 ⊢; omega)]
    exact ⟨_, rfl⟩

theorem tfp_usable {q c : Nat} (h : temporaryFromPosition q = some c) : usable c = true := by
  rcases tfp_cases h with h | h <;> simp [usable, TEMP, REGISTER_NUM, SPILL_TEMP] <;> omega

/-- C11 for a `Substitute` statement on x86-64: at most 133 variables before and after (the capacity of
    `temporary_from_position`), pairwise distinct ids.  The statement's code is the reference-count
    instructions of T3 followed by concrete moves that realise the simultaneous assignment on the
    machine state and change no other usable location. -/
theorem codeSubstitute_correct {V : Type} (re : Rearrange) (ctx : Ctx)
    (hcap : 2 * ctx.length ≤ 267) (hcap' : 2 * re.length ≤ 267)
    (hctx : (ctx.map (·.1)).Nodup) (hnew : (re.map (·.1.1)).Nodup) :
    ∃ mv, codeSubstituteX86 re ctx =
        (.ok (ctx.flatMap (refOpsFor temporaryFromPosition re ctx)) mv, lowerAll mv) ∧
      ∀ m : MState V,
        (∀ s t, SubstEdge temporaryFromPosition re ctx s t →
          rdN (runCode (lowerAll mv) m) t = rdN m s) ∧
        (∀ x, usable x = true → (∀ s, ¬ SubstEdge temporaryFromPosition re ctx s x) →
          rdN (runCode (lowerAll mv) m) x = rdN m x) := by
  obtain ⟨pm, ops, hs, hf, hedge, hops, hcode⟩ := codeSubstitute_ok temporaryFromPosition tfp_injective
    re ctx containsSpillEdge (tfp_total hcap) (tfp_total hcap') hctx hnew
  have hu : ∀ s t, Edge pm s t → usable s = true ∧ usable t = true := by
    intro s t e
    obtain ⟨⟨_, h1⟩, ⟨_, h2⟩⟩ := substEdge_range ((hedge s t).mp e)
    exact ⟨tfp_usable h1, tfp_usable h2⟩
  obtain ⟨code, hc, hfin⟩ := parallelMoves_correct_codes (V := V) pm hs hf hu
  simp only [parallelMovesX86, hops, Res.ok.injEq] at hc
  subst hc
  refine ⟨ops, by simp [codeSubstituteX86, hcode], ?_⟩
  intro m
  obtain ⟨h1, h2⟩ := hfin m
  exact ⟨fun s t e => h1 s t ((hedge s t).mpr e),
    fun x hx hn => h2 x hx (fun s e => hn s ((hedge s x).mp e))⟩

end X86

namespace A64

theorem tfp_cases {q c : Nat} (h : temporaryFromPosition q = some c) :
    (q + 4 < 30 ∧ c = q + 4) ∨ (30 ≤ q + 4 ∧ c = q + 5) := by
  simp only [temporaryFromPosition] at h
  split at h
  · rename_i h1
    simp only [RESERVED, REGISTER_NUM, encode, Option.some.injEq] at h h1; omega
  · rename_i h1
    split at h
    · simp only [RESERVED, REGISTER_NUM, RESERVED_SPILLS, encode, Option.some.injEq] at h h1; omega
    · simp at h

theorem tfp_injective : TfpInjective temporaryFromPosition := by
  intro a b c ha hb
  rcases tfp_cases ha with h | h <;> rcases tfp_cases hb with h' | h' <;> omega

theorem tfp_total {n : Nat} (h : 2 * n ≤ 281) : TfpTotal temporaryFromPosition n := by
  intro q hq
  simp only [temporaryFromPosition]
  split
  · exact ⟨_, rfl⟩
  · rename_i h1
    rw [if_pos (by simp only [RESERVED, REGISTER_NUM, RESERVED_SPILLS, SPILL_NUM] at h1 ⊢; omega)]
    exact ⟨_, rfl⟩

theorem tfp_usable {q c : Nat} (h : temporaryFromPosition q = some c) : usable c = true := by
  rcases tfp_cases h with h | h <;> simp [usable, TEMP, TEMP2] <;> omega

/-- C11 for a `Substitute` statement on AArch64 (capacity 140 variables). -/
theorem codeSubstitute_correct {V : Type} (re : Rearrange) (ctx : Ctx)
    (hcap : 2 * ctx.length ≤ 281) (hcap' : 2 * re.length ≤ 281)
    (hctx : (ctx.map (·.1)).Nodup) (hnew : (re.map (·.1.1)).Nodup) :
    ∃ mv, codeSubstituteA64 re ctx =
        (.ok (ctx.flatMap (refOpsFor temporaryFromPosition re ctx)) mv, lowerAll mv) ∧
      ∀ m : MState V,
        (∀ s t, SubstEdge temporaryFromPosition re ctx s t →
          rdN (runCode (lowerAll mv) m) t = rdN m s) ∧
        (∀ x, usable x = true → (∀ s, ¬ SubstEdge temporaryFromPosition re ctx s x) →
          rdN (runCode (lowerAll mv) m) x = rdN m x) := by
  obtain ⟨pm, ops, hs, hf, hedge, hops, hcode⟩ := codeSubstitute_ok temporaryFromPosition tfp_injective
    re ctx containsSpillEdge (tfp_total hcap) (tfp_total hcap') hctx hnew
  have hu : ∀ s t, Edge pm s t → usable s = true ∧ usable t = true := by
    intro s t e
    obtain ⟨⟨_, h1⟩, ⟨_, h2⟩⟩ := substEdge_range ((hedge s t).mp e)
    exact ⟨tfp_usable h1, tfp_usable h2⟩
  obtain ⟨code, hc, hfin⟩ := parallelMoves_correct_codes (V := V) pm hs hf hu
  simp only [parallelMovesA64, hops, Res.ok.injEq] at hc
  subst hc
  refine ⟨ops, by simp [codeSubstituteA64, hcode], ?_⟩
  intro m
  obtain ⟨h1, h2⟩ := hfin m
  exact ⟨fun s t e => h1 s t ((hedge s t).mpr e),
    fun x hx hn => h2 x hx (fun s e => hn s ((hedge s x).mp e))⟩

end A64

namespace RV64

theorem tfp_cases {q c : Nat} (h : temporaryFromPosition q = some c) : q + 4 < 32 ∧ c = q + 4 := by
  simp only [temporaryFromPosition] at h
  split at h
  · rename_i h1
    simp only [RESERVED, REGISTER_NUM, Option.some.injEq] at h h1; omega
  · simp at h

theorem tfp_injective : TfpInjective temporaryFromPosition := by
  intro a b c ha hb
  have := tfp_cases ha; have := tfp_cases hb; omega

theorem tfp_total {n : Nat} (h : 2 * n ≤ 28) : TfpTotal temporaryFromPosition n := by
  intro q hq
  simp only [temporaryFromPosition]
  rw [if_pos (by simp only [RESERVED, REGISTER_NUM]; omega)]; exact ⟨_, rfl⟩

theorem tfp_usable {q c : Nat} (h : temporaryFromPosition q = some c) : usable c = true := by
  have := tfp_cases h
  simp [usable, TEMP]; omega

/-- C11 for a `Substitute` statement on RV64 (capacity 14 variables, registers only). -/
theorem codeSubstitute_correct {V : Type} (re : Rearrange) (ctx : Ctx)
    (hcap : 2 * ctx.length ≤ 28) (hcap' : 2 * re.length ≤ 28)
    (hctx : (ctx.map (·.1)).Nodup) (hnew : (re.map (·.1.1)).Nodup) :
    ∃ mv, codeSubstituteRV64 re ctx =
        (.ok (ctx.flatMap (refOpsFor temporaryFromPosition re ctx)) mv, lowerAll mv) ∧
      ∀ m : MState V,
        (∀ s t, SubstEdge temporaryFromPosition re ctx s t →
          (runCode (lowerAll mv) m).regs t = m.regs s) ∧
        (∀ x, usable x = true → (∀ s, ¬ SubstEdge temporaryFromPosition re ctx s x) →
          (runCode (lowerAll mv) m).regs x = m.regs x) := by
  obtain ⟨pm, ops, hs, hf, hedge, hops, hcode⟩ := codeSubstitute_ok temporaryFromPosition tfp_injective
    re ctx containsSpillEdge (tfp_total hcap) (tfp_total hcap') hctx hnew
  have hu : ∀ s t, Edge pm s t → usable s = true ∧ usable t = true := by
    intro s t e
    obtain ⟨⟨_, h1⟩, ⟨_, h2⟩⟩ := substEdge_range ((hedge s t).mp e)
    exact ⟨tfp_usable h1, tfp_usable h2⟩
  obtain ⟨code, hc, hfin⟩ := parallelMoves_correct_codes (V := V) pm hs hf hu
  simp only [parallelMovesRV64, hops, Res.ok.injEq] at hc
  subst hc
  refine ⟨ops, by simp [codeSubstituteRV64, hcode], ?_⟩
  intro m
  obtain ⟨h1, h2⟩ := hfin m
  exact ⟨fun s t e => h1 s t ((hedge s t).mpr e),
    fun x hx hn => h2 x hx (fun s e => hn s ((hedge s x).mp e))⟩

end RV64

end Scc.PMoves
