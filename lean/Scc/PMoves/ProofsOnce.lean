/-
  Scc/PMoves/ProofsOnce.lean  --  C11: every target of a (non-self) move is the destination of exactly
  one emitted `mov`/`restore`, and nothing else is a destination.
-/
import Scc.PMoves.Proofs

set_option autoImplicit false

namespace Scc.PMoves

/-- the temporary an abstract instruction writes (the scratch cell is not a temporary) -/
def AOp.dest : AOp → List Nat
  | .mov t _ => [t]
  | .restore t _ => [t]
  | .save _ _ => []
  | .comment _ => []

/-- all destinations, in emission order -/
def dests (ops : List AOp) : List Nat := ops.flatMap AOp.dest

theorem dests_append (a b : List AOp) : dests (a ++ b) = dests a ++ dests b := by
  simp [dests]

mutual
theorem treeMoves_dests (csm : Bool) : ∀ (T : Tree) (p : Nat), (dests (treeMoves p T csm)).Perm T.nodes
  | .backEdge, p => by simp [treeMoves, dests, AOp.dest, Tree.nodes]
  | .node t kids, p => by
    simp only [treeMoves, dests_append, Tree.nodes]
    have ih := forestMoves_dests csm kids t
    have : dests [AOp.mov t p] = [t] := by simp [dests, AOp.dest]
    rw [this]
    exact (List.perm_append_comm).trans (List.Perm.cons t ih)
theorem forestMoves_dests (csm : Bool) : ∀ (ks : List Tree) (p : Nat),
    (dests (forestMoves p ks csm)).Perm (nodesList ks)
  | [], p => by simp [forestMoves, dests, nodesList]
  | k :: ks, p => by
    simp only [forestMoves, dests_append, nodesList]
    exact List.Perm.append (treeMoves_dests csm k p) (forestMoves_dests csm ks p)
end

theorem rootMoves_dests (csE : Root → Bool) (k : Nat) (trees : List Tree) :
    (dests (rootMoves csE (.startNode k trees))).Perm (Root.startNode k trees).visitedBy := by
  simp only [rootMoves, dests_append, Root.visitedBy]
  refine (List.Perm.append (forestMoves_dests _ trees k) ?_).trans List.perm_append_comm
  cases anyRefersBack trees <;> simp [dests, AOp.dest]

mutual
theorem Tree.edges_ne (p : Nat) : ∀ (T : Tree), T.nodes.Nodup → p ∉ T.nodes →
    ∀ a b, (a, b) ∈ T.edges p → a ≠ b
  | .backEdge, _, _, a, b, h => by simp [Tree.edges] at h
  | .node t kids, hnd, hp, a, b, h => by
    simp only [Tree.nodes, List.nodup_cons, List.mem_cons, not_or] at hnd hp
    simp only [Tree.edges, List.mem_cons, Prod.mk.injEq] at h
    rcases h with ⟨rfl, rfl⟩ | h
    · exact hp.1
    · exact edgesList_ne t kids hnd.2 hnd.1 a b h
theorem edgesList_ne (p : Nat) : ∀ (ks : List Tree), (nodesList ks).Nodup → p ∉ nodesList ks →
    ∀ a b, (a, b) ∈ edgesList p ks → a ≠ b
  | [], _, _, a, b, h => by simp [edgesList] at h
  | k :: ks, hnd, hp, a, b, h => by
    simp only [nodesList, List.nodup_append, List.mem_append, not_or] at hnd hp
    simp only [edgesList, List.mem_append] at h
    rcases h with h | h
    · exact Tree.edges_ne p k hnd.1 hp.1 a b h
    · exact edgesList_ne p ks hnd.2.1 hp.2 a b h
end

mutual
theorem Tree.refersBack_backSrcs_ne (p : Nat) : ∀ (T : Tree), T.refersBack = true →
    ∃ b, b ∈ T.backSrcs p
  | .backEdge, _ => ⟨p, by simp [Tree.backSrcs]⟩
  | .node t kids, h => by
    simp only [Tree.refersBack] at h
    simpa [Tree.backSrcs] using anyRefersBack_backSrcs_ne t kids h
theorem anyRefersBack_backSrcs_ne (p : Nat) : ∀ (ks : List Tree), anyRefersBack ks = true →
    ∃ b, b ∈ backSrcsList p ks
  | [], h => by simp [anyRefersBack] at h
  | k :: ks, h => by
    simp only [anyRefersBack, Bool.or_eq_true] at h
    rcases h with h | h
    · obtain ⟨b, hb⟩ := Tree.refersBack_backSrcs_ne p k h
      exact ⟨b, by simp [backSrcsList, hb]⟩
    · obtain ⟨b, hb⟩ := anyRefersBack_backSrcs_ne p ks h
      exact ⟨b, by simp [backSrcsList, hb]⟩
end

/-- at the top level no tree is the bare back edge, so every back source is a node -/
theorem AreSTs.backSrcs_nodes {pm : PMap} {r : Nat} (p : Nat) : ∀ (ks : List Tree) (ts : List Nat),
    AreSTs pm r ts ks → r ∉ ts → ∀ b ∈ backSrcsList p ks, b ∈ nodesList ks
  | [], _, _, _, b, hb => by simp [backSrcsList] at hb
  | k :: ks, [], h, _, _, _ => by simp [AreSTs] at h
  | k :: ks, t :: ts, h, hr, b, hb => by
    obtain ⟨h1, h2⟩ := h
    simp only [List.mem_cons, not_or] at hr
    simp only [backSrcsList, List.mem_append] at hb
    simp only [nodesList, List.mem_append]
    rcases hb with hb | hb
    · left
      cases k with
      | backEdge => exact absurd h1.symm hr.1
      | node t' kids =>
        simp only [Tree.backSrcs] at hb
        simp only [Tree.nodes, List.mem_cons]
        exact backSrcsList_mem t' kids b hb
    · exact Or.inr (AreSTs.backSrcs_nodes p ks ts h2 hr.2 b hb)

/-- every temporary visited by a root is the target of a non-self edge of the current map -/
theorem IsRootOf.targets {fuel : Nat} {cur : PMap} {k : Nat} {trees : List Tree}
    (h : IsRootOf fuel cur k trees) (g : RootGraph cur k trees) :
    ∀ x ∈ (Root.startNode k trees).visitedBy, ∃ a, a ≠ x ∧ Edge cur a x := by
  obtain ⟨ts, _, ho⟩ := h
  have hst := optMap_spanningTree_areSTs cur k fuel _ _ ho
  have hk : k ∉ ts.filter (fun t => !(t == k)) := by simp [List.mem_filter]
  intro x hx
  rw [mem_visitedBy] at hx
  rcases hx with ⟨rfl, hb⟩ | hx
  · obtain ⟨b, hbm⟩ := anyRefersBack_backSrcs_ne x trees hb
    have hbn := AreSTs.backSrcs_nodes x trees _ hst hk b hbm
    exact ⟨b, fun e => g.root_not_node (e ▸ hbn), g.back b hbm⟩
  · obtain ⟨a, ha⟩ := nodesList_has_edge k trees x hx
    exact ⟨a, edgesList_ne k trees g.nodup g.root_not_node a x ha, g.edges a x ha⟩

/-- the temporaries written by a forest, root by root -/
def written (roots : List Root) : List Nat := roots.flatMap Root.visitedBy

theorem written_spec {pm0 : PMap} (hk0 : KeysNodup pm0) (hf0 : Functional pm0) (fuel : Nat) :
    ∀ (ks : List Nat) (cur : PMap) (roots : List Root), Good pm0 cur →
      spanningForestGo fuel ks cur = .ok roots →
      (written roots).Nodup ∧
      (∀ x ∈ written roots, ∃ s, s ≠ x ∧ Edge cur s x) ∧
      (∀ s t, Edge cur s t → s ≠ t → s ∈ ks → t ∈ written roots) := by
  intro ks
  induction ks with
  | nil =>
    intro cur roots _ h
    simp only [spanningForestGo, Res.ok.injEq] at h
    subst h
    simp [written]
  | cons k ks ih =>
    intro cur roots good h
    simp only [spanningForestGo] at h
    cases hl : mapLookup cur k with
    | none => simp [hl] at h
    | some ts =>
      simp only [hl] at h
      cases ho : optMap (spanningTree fuel cur k) (ts.filter (fun t => !(t == k))) with
      | none => simp [ho] at h
      | some trees =>
        simp only [ho] at h
        have hroot : IsRootOf fuel cur k trees := ⟨ts, hl, ho⟩
        have g := hroot.graph (good.keysNodup hk0) good.tnd (good.functional hf0)
        have htg := hroot.targets g
        cases hrest : spanningForestGo fuel ks
            (deleteTargets (Root.startNode k trees).visitedBy cur) with
        | outOfFuel => simp [hrest] at h
        | missingKey => simp [hrest] at h
        | ok rest =>
          simp only [hrest, Res.ok.injEq] at h
          subst h
          obtain ⟨i1, i2, i3⟩ := ih _ rest (good.delete _) hrest
          have hW : (Root.startNode k trees).visitedBy.Nodup := by
            simp only [Root.visitedBy]
            cases anyRefersBack trees with
            | false => simpa using g.nodup
            | true => simpa using ⟨g.root_not_node, g.nodup⟩
          simp only [written, List.flatMap_cons]
          refine ⟨?_, ?_, ?_⟩
          · refine List.nodup_append.mpr ⟨hW, i1, ?_⟩
            intro x hx y hy hxy
            subst hxy
            obtain ⟨s, _, e⟩ := i2 x hy
            exact (edge_deleteTargets.mp e).2 hx
          · intro x hx
            rcases List.mem_append.mp hx with hx | hx
            · exact htg x hx
            · obtain ⟨s, hs, e⟩ := i2 x hx
              exact ⟨s, hs, (edge_deleteTargets.mp e).1⟩
          · intro s t e hne hs
            by_cases hw : t ∈ (Root.startNode k trees).visitedBy
            · exact List.mem_append.mpr (Or.inl hw)
            · rcases List.mem_cons.mp hs with rfl | hs
              · exact absurd (g.closed_root t e (Ne.symm hne)) hw
              · exact List.mem_append.mpr (Or.inr
                  (i3 s t (edge_deleteTargets.mpr ⟨e, hw⟩) hne hs))

theorem perm_flatMap {α β : Type} {f g : α → List β} : ∀ (l : List α),
    (∀ a ∈ l, (f a).Perm (g a)) → (l.flatMap f).Perm (l.flatMap g)
  | [], _ => by simp
  | a :: l, h => by
    simp only [List.flatMap_cons]
    exact List.Perm.append (h a List.mem_cons_self)
      (perm_flatMap l (fun a' ha' => h a' (List.mem_cons_of_mem _ ha')))

theorem forestCode_dests (csE : Root → Bool) (roots : List Root) :
    (dests (forestCode csE roots)).Perm (written roots) := by
  have h1 : dests (forestCode csE roots) = roots.flatMap (fun r => dests (rootMoves csE r)) := by
    unfold forestCode
    rw [dests_append]
    have : dests (if (!roots.all fun r => r.trees.isEmpty) = true
        then [AOp.comment "#move variables"] else []) = [] := by
      split <;> simp [dests, AOp.dest]
    rw [this, List.nil_append]
    simp only [dests, List.flatMap_assoc]
  rw [h1]
  apply perm_flatMap
  intro r _
  cases r with
  | startNode k trees => exact rootMoves_dests csE k trees

/-- Each target of a non-self move is the destination of exactly one `mov`/`restore`; nothing else is a
    destination. -/
theorem parallelMoves_dests (pm : PMap) (hk : KeysNodup pm) (ht : TargetsNodup pm) (hf : Functional pm)
    (csE : Root → Bool) :
    ∃ ops, parallelMoves pm csE = .ok ops ∧ (dests ops).Nodup ∧
      ∀ t, t ∈ dests ops ↔ ∃ s, s ≠ t ∧ Edge pm s t := by
  have hfuel : (allNodes pm).length ≤ fuelFor pm := by unfold fuelFor; omega
  obtain ⟨roots, hroots⟩ := spanningForestGo_ok hf hfuel (pm.map (·.1)) pm (Good.refl ht)
    (fun _ h => h)
  obtain ⟨w1, w2, w3⟩ := written_spec hk hf (fuelFor pm) _ pm roots (Good.refl ht) hroots
  have hp := forestCode_dests csE roots
  refine ⟨forestCode csE roots, by simp [parallelMoves, parallelMovesFuel, spanningForest, hroots],
    hp.nodup_iff.mpr w1, ?_⟩
  intro t
  rw [hp.mem_iff]
  constructor
  · exact w2 t
  · rintro ⟨s, hs, e⟩
    refine w3 s t e hs ?_
    obtain ⟨ts, hm, _⟩ := e
    exact List.mem_map.mpr ⟨(s, ts), hm, rfl⟩

end Scc.PMoves
