/-
  Scc/PMoves/Backends.lean  --  executable model of the per-backend part of the parallel moves (C11, T2).

  What is modelled, from which source files
  -----------------------------------------
  * /repo/lang/axcut2x86_64/src/parallel_moves.rs   spill_edge_spill, spill_edge_register,
      contains_spill_edge, store_temporary, restore_temporary
    /repo/lang/axcut2x86_64/src/code.rs             move_from_register, move_to_register, mov
    /repo/lang/axcut2x86_64/src/config.rs           TEMP = Register(1), SPILL_TEMP = Spill(0), REGISTER_NUM = 16
  * /repo/lang/axcut2aarch64/src/parallel_moves.rs, code.rs (move_from_register, move_to_register, mov),
    config.rs  TEMP = X2, TEMP2 = X3, REGISTER_NUM = 30
  * /repo/lang/axcut2rv64/src/parallel_moves.rs, code.rs (mov), config.rs  TEMP = Register(1)

  Representation choices
  ----------------------
  * A temporary of the x86-64 / AArch64 backend is `Temporary::Register(r) | Temporary::Spill(p)` with the
    derived order (all registers before all spills, then by number).  The generic model works over `Nat`;
    a backend temporary is the `Nat` `n` with `decode n = reg n` for `n < REGISTER_NUM` and
    `spill (n - REGISTER_NUM)` otherwise.  This is an order isomorphism between `Nat` and the temporaries
    with register number `< REGISTER_NUM` (all that `temporary_from_position` can produce), so "iterate in
    ascending order" means the same on both sides.  RV64 has registers only: `decode n = reg n`.
  * `temporaryFromPosition` (utils.rs: fn temporary_from_position, all three backends) gives the
    location code of a position number (`none` = the panic "Out of temporaries"/"Out of registers");
    `codeSubstituteX86/A64/RV64` instantiate statements/substitute.rs with it.
  * Only the three instructions that the moves use are modelled.  `MOVS r, [STACK + stack_offset p]` is
    `MOVS r p`: the spill area is a separate array indexed by spill position (`stack_offset` is
    injective and the stack pointer is not a temporary), likewise `MOVL`, `STR`, `LDR`.
  * Machine state: registers and spill slots, `MState V`.
-/
import Scc.PMoves.Model

set_option autoImplicit false

namespace Scc.PMoves

/-- A machine location. -/
inductive Loc where
  | reg (n : Nat)
  | spill (n : Nat)
  deriving Repr, DecidableEq, Inhabited

/-- Registers and spill slots. -/
structure MState (V : Type) where
  regs : Nat → V
  slots : Nat → V

def MState.rd {V : Type} (m : MState V) : Loc → V
  | .reg n => m.regs n
  | .spill n => m.slots n

def MState.setReg {V : Type} (m : MState V) (r : Nat) (v : V) : MState V :=
  { m with regs := upd m.regs r v }

def MState.setSlot {V : Type} (m : MState V) (p : Nat) (v : V) : MState V :=
  { m with slots := upd m.slots p v }

/-- run a list of concrete instructions -/
def runWith {C S : Type} (exec : C → S → S) : List C → S → S
  | [], m => m
  | c :: cs, m => runWith exec cs (exec c m)

/-! ## x86-64 -/
namespace X86

/-- config.rs: REGISTER_NUM -/
def REGISTER_NUM : Nat := 16
/-- config.rs: TEMP = Register(1) -/
def TEMP : Nat := 1
/-- config.rs: SPILL_TEMP = Spill(0) -/
def SPILL_TEMP : Nat := 0

def decode (n : Nat) : Loc := if n < REGISTER_NUM then .reg n else .spill (n - REGISTER_NUM)
def encode : Loc → Nat
  | .reg n => n
  | .spill p => REGISTER_NUM + p

/-- The instructions used by moves: `MOV r, r'`; `MOVS r, [rsp + off p]` (store); `MOVL r, [rsp + off p]` (load). -/
inductive Code where
  | MOV (target source : Nat)
  | MOVS (source : Nat) (position : Nat)
  | MOVL (target : Nat) (position : Nat)
  | COMMENT (msg : String)
  deriving Repr, DecidableEq, Inhabited

def exec {V : Type} : Code → MState V → MState V
  | .MOV t s, m => m.setReg t (m.regs s)
  | .MOVS s p, m => m.setSlot p (m.regs s)
  | .MOVL t p, m => m.setReg t (m.slots p)
  | .COMMENT _, m => m

def runCode {V : Type} : List Code → MState V → MState V := runWith exec

/-- code.rs: fn move_from_register -/
def moveFromRegister (temporary : Loc) (register : Nat) : List Code :=
  match temporary with
  | .reg targetRegister => [.MOV targetRegister register]
  | .spill targetPosition => [.MOVS register targetPosition]

/-- code.rs: fn move_to_register -/
def moveToRegister (register : Nat) (temporary : Loc) : List Code :=
  match temporary with
  | .reg sourceRegister => [.MOV register sourceRegister]
  | .spill sourcePosition => [.MOVL register sourcePosition]

/-- code.rs: fn mov -/
def mov (targetTemporary sourceTemporary : Loc) : List Code :=
  match sourceTemporary, targetTemporary with
  | .reg sourceRegister, _ => moveFromRegister targetTemporary sourceRegister
  | _, .reg targetRegister => moveToRegister targetRegister sourceTemporary
  | _, _ => moveToRegister TEMP sourceTemporary ++ moveFromRegister targetTemporary TEMP

mutual
/-- parallel_moves.rs: fn spill_edge_spill -/
def spillEdgeSpill (rootSpill : Bool) : Tree → Bool
  | .backEdge => rootSpill
  | .node t trees =>
    match decode t with
    | .reg _ => anySpillEdgeRegister rootSpill trees
    | .spill _ => true
/-- parallel_moves.rs: fn spill_edge_register -/
def spillEdgeRegister (rootSpill : Bool) : Tree → Bool
  | .backEdge => false
  | .node t trees =>
    match decode t with
    | .reg _ => anySpillEdgeRegister rootSpill trees
    | .spill _ => anySpillEdgeSpill rootSpill trees
/-- `trees.iter().any(|tree| spill_edge_spill(root_spill, tree))` -/
def anySpillEdgeSpill (rootSpill : Bool) : List Tree → Bool
  | [] => false
  | k :: ks => spillEdgeSpill rootSpill k || anySpillEdgeSpill rootSpill ks
/-- `trees.iter().any(|tree| spill_edge_register(root_spill, tree))` -/
def anySpillEdgeRegister (rootSpill : Bool) : List Tree → Bool
  | [] => false
  | k :: ks => spillEdgeRegister rootSpill k || anySpillEdgeRegister rootSpill ks
end

/-- parallel_moves.rs: fn contains_spill_edge -/
def containsSpillEdge : Root → Bool
  | .startNode t trees =>
    match decode t with
    | .reg _ => anySpillEdgeRegister false trees
    | .spill _ => anySpillEdgeSpill true trees

/-- parallel_moves.rs: fn store_temporary -/
def storeTemporary (temporary : Loc) (containsSpillMove : Bool) : List Code :=
  match temporary with
  | .reg register =>
    if containsSpillMove then [.MOVS register SPILL_TEMP] else [.MOV TEMP register]
  | .spill position =>
    [.MOVL TEMP position] ++ (if containsSpillMove then [.MOVS TEMP SPILL_TEMP] else [])

/-- parallel_moves.rs: fn restore_temporary -/
def restoreTemporary (temporary : Loc) (containsSpillMove : Bool) : List Code :=
  match temporary with
  | .reg register =>
    if containsSpillMove then [.MOVL register SPILL_TEMP] else [.MOV register TEMP]
  | .spill position =>
    (if containsSpillMove then [.MOVL TEMP SPILL_TEMP] else []) ++ [.MOVS TEMP position]

/-- The backend instantiation of one abstract instruction. -/
def lower : AOp → List Code
  | .mov t s => mov (decode t) (decode s)
  | .save s b => storeTemporary (decode s) b
  | .restore t b => restoreTemporary (decode t) b
  | .comment m => [.COMMENT m]

def lowerAll (ops : List AOp) : List Code := ops.flatMap lower

/-- `parallel_moves::<x86_64::Backend>` -/
def parallelMovesX86 (pm : PMap) : Res (List Code) :=
  match parallelMoves pm containsSpillEdge with
  | .ok ops => .ok (lowerAll ops)
  | .outOfFuel => .outOfFuel
  | .missingKey => .missingKey

/-- Temporaries that substitutions may use: everything except `TEMP` and `SPILL_TEMP`. -/
def usable (n : Nat) : Bool := n != TEMP && n != REGISTER_NUM + SPILL_TEMP

/-- config.rs: RESERVED, RESERVED_SPILLS, SPILL_NUM -/
def RESERVED : Nat := 4
def RESERVED_SPILLS : Nat := 1
def SPILL_NUM : Nat := 256

/-- utils.rs: fn temporary_from_position, as a location code; `none` = panic "Out of temporaries" -/
def temporaryFromPosition (position : Nat) : Option Nat :=
  let registerNumber := position + RESERVED
  if registerNumber < REGISTER_NUM then some (encode (.reg registerNumber))
  else
    let spillNumber := registerNumber - REGISTER_NUM + RESERVED_SPILLS
    if spillNumber < SPILL_NUM then some (encode (.spill spillNumber)) else none

/-- statements/substitute.rs instantiated with the x86-64 backend: reference-count instructions
    (abstract, on location codes) and the concrete moves -/
def codeSubstituteX86 (rearrange : Rearrange) (context : Ctx) : SubstRes × List Code :=
  match codeSubstitute temporaryFromPosition rearrange context containsSpillEdge with
  | .ok rc mv => (.ok rc mv, lowerAll mv)
  | r => (r, [])

def Code.render : Code → String
  | .MOV t s => s!"MOV {t} {s}"
  | .MOVS s p => s!"MOVS {s} {p}"
  | .MOVL t p => s!"MOVL {t} {p}"
  | .COMMENT m => s!"COMMENT {m}"

end X86

/-! ## AArch64 -/
namespace A64

/-- config.rs: REGISTER_NUM -/
def REGISTER_NUM : Nat := 30
/-- config.rs: TEMP = X2 -/
def TEMP : Nat := 2
/-- config.rs: TEMP2 = X3 -/
def TEMP2 : Nat := 3

def decode (n : Nat) : Loc := if n < REGISTER_NUM then .reg n else .spill (n - REGISTER_NUM)
def encode : Loc → Nat
  | .reg n => n
  | .spill p => REGISTER_NUM + p

/-- `MOVR Xt, Xs`; `STR Xs, [SP, off p]`; `LDR Xt, [SP, off p]` -/
inductive Code where
  | MOVR (target source : Nat)
  | STR (source : Nat) (position : Nat)
  | LDR (target : Nat) (position : Nat)
  | COMMENT (msg : String)
  deriving Repr, DecidableEq, Inhabited

def exec {V : Type} : Code → MState V → MState V
  | .MOVR t s, m => m.setReg t (m.regs s)
  | .STR s p, m => m.setSlot p (m.regs s)
  | .LDR t p, m => m.setReg t (m.slots p)
  | .COMMENT _, m => m

def runCode {V : Type} : List Code → MState V → MState V := runWith exec

/-- code.rs: fn move_from_register -/
def moveFromRegister (temporary : Loc) (register : Nat) : List Code :=
  match temporary with
  | .reg targetRegister => [.MOVR targetRegister register]
  | .spill targetPosition => [.STR register targetPosition]

/-- code.rs: fn move_to_register -/
def moveToRegister (register : Nat) (temporary : Loc) : List Code :=
  match temporary with
  | .reg sourceRegister => [.MOVR register sourceRegister]
  | .spill sourcePosition => [.LDR register sourcePosition]

/-- code.rs: fn mov -/
def mov (targetTemporary sourceTemporary : Loc) : List Code :=
  match sourceTemporary, targetTemporary with
  | .reg sourceRegister, _ => moveFromRegister targetTemporary sourceRegister
  | _, .reg targetRegister => moveToRegister targetRegister sourceTemporary
  | _, _ => moveToRegister TEMP2 sourceTemporary ++ moveFromRegister targetTemporary TEMP2

/-- parallel_moves.rs: fn contains_spill_edge -/
def containsSpillEdge : Root → Bool := fun _ => false

/-- parallel_moves.rs: fn store_temporary -/
def storeTemporary (temporary : Loc) (_ : Bool) : List Code :=
  match temporary with
  | .reg register => [.MOVR TEMP register]
  | .spill position => [.LDR TEMP position]

/-- parallel_moves.rs: fn restore_temporary -/
def restoreTemporary (temporary : Loc) (_ : Bool) : List Code :=
  match temporary with
  | .reg register => [.MOVR register TEMP]
  | .spill position => [.STR TEMP position]

def lower : AOp → List Code
  | .mov t s => mov (decode t) (decode s)
  | .save s b => storeTemporary (decode s) b
  | .restore t b => restoreTemporary (decode t) b
  | .comment m => [.COMMENT m]

def lowerAll (ops : List AOp) : List Code := ops.flatMap lower

/-- `parallel_moves::<aarch64::Backend>` -/
def parallelMovesA64 (pm : PMap) : Res (List Code) :=
  match parallelMoves pm containsSpillEdge with
  | .ok ops => .ok (lowerAll ops)
  | .outOfFuel => .outOfFuel
  | .missingKey => .missingKey

/-- Temporaries that substitutions may use: everything except `TEMP` and `TEMP2`. -/
def usable (n : Nat) : Bool := n != TEMP && n != TEMP2

/-- config.rs: RESERVED, RESERVED_SPILLS, SPILL_NUM -/
def RESERVED : Nat := 4
def RESERVED_SPILLS : Nat := 1
def SPILL_NUM : Nat := 256

/-- utils.rs: fn temporary_from_position, as a location code; `none` = panic "Out of temporaries" -/
def temporaryFromPosition (position : Nat) : Option Nat :=
  let registerNumber := position + RESERVED
  if registerNumber < REGISTER_NUM then some (encode (.reg registerNumber))
  else
    let spillNumber := registerNumber - REGISTER_NUM + RESERVED_SPILLS
    if spillNumber < SPILL_NUM then some (encode (.spill spillNumber)) else none

/-- statements/substitute.rs instantiated with the AArch64 backend -/
def codeSubstituteA64 (rearrange : Rearrange) (context : Ctx) : SubstRes × List Code :=
  match codeSubstitute temporaryFromPosition rearrange context containsSpillEdge with
  | .ok rc mv => (.ok rc mv, lowerAll mv)
  | r => (r, [])

def Code.render : Code → String
  | .MOVR t s => s!"MOVR {t} {s}"
  | .STR s p => s!"STR {s} {p}"
  | .LDR t p => s!"LDR {t} {p}"
  | .COMMENT m => s!"COMMENT {m}"

end A64

/-! ## RV64 (registers only) -/
namespace RV64

/-- config.rs: TEMP = Register(1) -/
def TEMP : Nat := 1

inductive Code where
  | MV (target source : Nat)
  | COMMENT (msg : String)
  deriving Repr, DecidableEq, Inhabited

def exec {V : Type} : Code → MState V → MState V
  | .MV t s, m => m.setReg t (m.regs s)
  | .COMMENT _, m => m

def runCode {V : Type} : List Code → MState V → MState V := runWith exec

def decode (n : Nat) : Loc := .reg n

/-- parallel_moves.rs: fn contains_spill_edge -/
def containsSpillEdge : Root → Bool := fun _ => false

/-- code.rs: fn mov; parallel_moves.rs: fn store_temporary, fn restore_temporary -/
def lower : AOp → List Code
  | .mov t s => [.MV t s]
  | .save s _ => [.MV TEMP s]
  | .restore t _ => [.MV t TEMP]
  | .comment m => [.COMMENT m]

def lowerAll (ops : List AOp) : List Code := ops.flatMap lower

/-- `parallel_moves::<rv64::Backend>` -/
def parallelMovesRV64 (pm : PMap) : Res (List Code) :=
  match parallelMoves pm containsSpillEdge with
  | .ok ops => .ok (lowerAll ops)
  | .outOfFuel => .outOfFuel
  | .missingKey => .missingKey

def usable (n : Nat) : Bool := n != TEMP

/-- config.rs: RESERVED, REGISTER_NUM -/
def RESERVED : Nat := 4
def REGISTER_NUM : Nat := 32

/-- utils.rs: fn variable_temporary: `register_number = 2 * position + number + RESERVED`;
    `none` = panic "Out of registers" -/
def temporaryFromPosition (position : Nat) : Option Nat :=
  let registerNumber := position + RESERVED
  if registerNumber < REGISTER_NUM then some registerNumber else none

/-- statements/substitute.rs instantiated with the RV64 backend -/
def codeSubstituteRV64 (rearrange : Rearrange) (context : Ctx) : SubstRes × List Code :=
  match codeSubstitute temporaryFromPosition rearrange context containsSpillEdge with
  | .ok rc mv => (.ok rc mv, lowerAll mv)
  | r => (r, [])

end RV64

/-! ## Executable end-to-end checkers (run exhaustively by the test driver) -/

/-- Initial machine state with pairwise distinct contents: the location with code `i` (see `decode`)
    holds `i + 1000`. -/
def initState (registerNum : Nat) : MState Nat :=
  { regs := fun n => n + 1000, slots := fun p => registerNum + p + 1000 }

/-- the unique source of `t` in `pm`, if any -/
def sourceOf (pm : PMap) (t : Nat) : Option Nat :=
  match pm.find? (fun kv => kv.2.contains t) with
  | some kv => some kv.1
  | none => none

/-- Does the final state `m'` realise the simultaneous assignment `pm` on `init`, on all the usable
    temporaries below `bound`? -/
def checkFinal (decode : Nat → Loc) (usable : Nat → Bool) (pm : PMap) (bound : Nat)
    (init final : MState Nat) : Bool :=
  (List.range bound).all (fun x =>
    !usable x ||
      (match sourceOf pm x with
       | some s => final.rd (decode x) == init.rd (decode s)
       | none => final.rd (decode x) == init.rd (decode x)))

/-- all temporaries of `pm` are usable -/
def allUsable (usable : Nat → Bool) (pm : PMap) : Bool := (allNodes pm).all usable

def boundOf (pm : PMap) : Nat := (allNodes pm).foldl max 0 + 3

/-- x86-64: run the concrete instruction sequence for `pm` on distinct values and compare with the
    simultaneous assignment.  Returns `true` also when `pm` is outside the theorem's hypotheses
    (not sorted / not functional / uses a scratch location). -/
def checkSubstX86 (pm : PMap) : Bool :=
  if !(isSorted pm && isFunctional pm && allUsable X86.usable pm) then true else
  match X86.parallelMovesX86 pm with
  | .ok code =>
    let init := initState X86.REGISTER_NUM
    checkFinal X86.decode X86.usable pm (boundOf pm + X86.REGISTER_NUM) init (X86.runCode code init)
  | _ => false

/-- AArch64 analogue of `checkSubstX86`. -/
def checkSubstA64 (pm : PMap) : Bool :=
  if !(isSorted pm && isFunctional pm && allUsable A64.usable pm) then true else
  match A64.parallelMovesA64 pm with
  | .ok code =>
    let init := initState A64.REGISTER_NUM
    checkFinal A64.decode A64.usable pm (boundOf pm + A64.REGISTER_NUM) init (A64.runCode code init)
  | _ => false

/-- RV64 analogue of `checkSubstX86`. -/
def checkSubstRV64 (pm : PMap) : Bool :=
  if !(isSorted pm && isFunctional pm && allUsable RV64.usable pm) then true else
  match RV64.parallelMovesRV64 pm with
  | .ok code =>
    let init : MState Nat := { regs := fun n => n + 1000, slots := fun p => p }
    checkFinal RV64.decode RV64.usable pm (boundOf pm) init (RV64.runCode code init)
  | _ => false

/-- Line protocol, backend entry points (extends `handleLine` of Model.lean):
    `pmx86 <pm>` / `pma64 <pm>` / `pmrv64 <pm>`  ->  concrete instructions, `|`-separated
      (`MOV t s`, `MOVS s p`, `MOVL t p`; `MOVR t s`, `STR s p`, `LDR t p`; `MV t s`; `COMMENT msg`),
      where temporaries are given by their code (x86: `n < 16` register `n`, else spill `n-16`;
      AArch64: boundary 30; RV64: register `n`);
    `chkx86 <pm>` / `chka64 <pm>` / `chkrv64 <pm>` -> `true` / `false`;
    `substx86 <ctx> -> <rearrange>` / `substa64 ...` / `substrv64 ...` (formats as for `subst`) ->
      refcount ops (`erase <code>`, `share <code> <n>`, `comment ...`) then the concrete move
      instructions, or `panic` / `outOfFuel` / `missingKey`. -/
def handleLineBackends (line : String) : String :=
  let (cmd, arg) := splitCommand line
  let withPm := fun (f : PMap → String) =>
    match parsePMap arg with
    | none => "error"
    | some pm => f pm
  let rend := fun {C : Type} (r : C → String) (res : Res (List C)) =>
    match res with
    | .ok code => "|".intercalate (code.map r)
    | .outOfFuel => "outOfFuel"
    | .missingKey => "missingKey"
  let rendS := fun {C : Type} (r : C → String) (res : SubstRes × List C) =>
    match res with
    | (.ok rc _, code) => "|".intercalate (rc.map ROp.render ++ code.map r)
    | (.panic, _) => "panic"
    | (.outOfFuel, _) => "outOfFuel"
    | (.missingKey, _) => "missingKey"
  if cmd == "pmx86" then withPm (fun pm => rend X86.Code.render (X86.parallelMovesX86 pm))
  else if cmd == "pma64" then withPm (fun pm => rend A64.Code.render (A64.parallelMovesA64 pm))
  else if cmd == "pmrv64" then
    withPm (fun pm => rend (fun c => match c with
      | RV64.Code.MV t s => s!"MV {t} {s}" | .COMMENT m => s!"COMMENT {m}") (RV64.parallelMovesRV64 pm))
  else if cmd == "chkx86" then withPm (fun pm => toString (checkSubstX86 pm))
  else if cmd == "chka64" then withPm (fun pm => toString (checkSubstA64 pm))
  else if cmd == "chkrv64" then withPm (fun pm => toString (checkSubstRV64 pm))
  else if cmd == "substx86" then
    match parseSubst arg with
    | none => "error"
    | some (ctx, re) => rendS X86.Code.render (X86.codeSubstituteX86 re ctx)
  else if cmd == "substa64" then
    match parseSubst arg with
    | none => "error"
    | some (ctx, re) => rendS A64.Code.render (A64.codeSubstituteA64 re ctx)
  else if cmd == "substrv64" then
    match parseSubst arg with
    | none => "error"
    | some (ctx, re) => rendS (fun c => match c with
      | RV64.Code.MV t s => s!"MV {t} {s}" | .COMMENT m => s!"COMMENT {m}") (RV64.codeSubstituteRV64 re ctx)
  else handleLine line

end Scc.PMoves
