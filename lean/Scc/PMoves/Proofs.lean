/-
  Scc/PMoves/Proofs.lean  --  correctness of the generic parallel-move algorithm (C11, T1).

  Structure
  ---------
  A. semantics of `treeMoves`/`forestMoves` on an arbitrary tree whose nodes are pairwise distinct
  B. the graph produced by `spanningTree` on a functional map: edges, closure, distinctness, fuel
  C. one root: `RootSpec`
  D. the `spanningForest` loop, generic in the machine state (`ForestSpec`)
  E. the abstract machine instance
-/
import Scc.PMoves.Model

set_option autoImplicit false

namespace Scc.PMoves

/-! ## A. trees: edges, back sources, semantics of the emitted moves -/

mutual
/-- The moves `(source, target)` that `treeMoves parent tree` performs with `mov`. -/
def Tree.edges (p : Nat) : Tree → List (Nat × Nat)
  | .backEdge => []
  | .node t kids => (p, t) :: edgesList t kids
def edgesList (p : Nat) : List Tree → List (Nat × Nat)
  | [] => []
  | k :: ks => k.edges p ++ edgesList p ks
end

mutual
/-- The temporaries that `treeMoves parent tree` saves to the scratch cell. -/
def Tree.backSrcs (p : Nat) : Tree → List Nat
  | .backEdge => [p]
  | .node t kids => backSrcsList t kids
def backSrcsList (p : Nat) : List Tree → List Nat
  | [] => []
  | k :: ks => k.backSrcs p ++ backSrcsList p ks
end

theorem run_append {V : Type} (a b : List AOp) (st : (Nat → V) × V) :
    run (a ++ b) st = run b (run a st) := by
  induction a generalizing st with
  | nil => rfl
  | cons op ops ih => simp [run, ih]

mutual
theorem Tree.edges_mem (p : Nat) : ∀ (T : Tree) (a b : Nat), (a, b) ∈ T.edges p →
    (a = p ∨ a ∈ T.nodes) ∧ b ∈ T.nodes
  | .backEdge, a, b, h => by simp [Tree.edges] at h
  | .node t kids, a, b, h => by
    simp only [Tree.edges, List.mem_cons, Prod.mk.injEq] at h
    rcases h with ⟨rfl, rfl⟩ | h
    · simp [Tree.nodes]
    · have := edgesList_mem t kids a b h
      simp only [Tree.nodes, List.mem_cons]
      rcases this with ⟨h1 | h1, h2⟩
      · exact ⟨Or.inr (Or.inl h1), Or.inr h2⟩
      · exact ⟨Or.inr (Or.inr h1), Or.inr h2⟩
theorem edgesList_mem (p : Nat) : ∀ (ks : List Tree) (a b : Nat), (a, b) ∈ edgesList p ks →
    (a = p ∨ a ∈ nodesList ks) ∧ b ∈ nodesList ks
  | [], a, b, h => by simp [edgesList] at h
  | k :: ks, a, b, h => by
    simp only [edgesList, List.mem_append] at h
    simp only [nodesList, List.mem_append]
    rcases h with h | h
    · have := Tree.edges_mem p k a b h
      rcases this with ⟨h1 | h1, h2⟩
      · exact ⟨Or.inl h1, Or.inl h2⟩
      · exact ⟨Or.inr (Or.inl h1), Or.inl h2⟩
    · have := edgesList_mem p ks a b h
      rcases this with ⟨h1 | h1, h2⟩
      · exact ⟨Or.inl h1, Or.inr h2⟩
      · exact ⟨Or.inr (Or.inr h1), Or.inr h2⟩
end

mutual
theorem Tree.backSrcs_mem (p : Nat) : ∀ (T : Tree) (b : Nat), b ∈ T.backSrcs p →
    (b = p ∨ b ∈ T.nodes)
  | .backEdge, b, h => by simp [Tree.backSrcs] at h; exact Or.inl h
  | .node t kids, b, h => by
    simp only [Tree.backSrcs] at h
    have := backSrcsList_mem t kids b h
    simp only [Tree.nodes, List.mem_cons]
    rcases this with h1 | h1
    · exact Or.inr (Or.inl h1)
    · exact Or.inr (Or.inr h1)
theorem backSrcsList_mem (p : Nat) : ∀ (ks : List Tree) (b : Nat), b ∈ backSrcsList p ks →
    (b = p ∨ b ∈ nodesList ks)
  | [], b, h => by simp [backSrcsList] at h
  | k :: ks, b, h => by
    simp only [backSrcsList, List.mem_append] at h
    simp only [nodesList, List.mem_append]
    rcases h with h | h
    · rcases Tree.backSrcs_mem p k b h with h1 | h1
      · exact Or.inl h1
      · exact Or.inr (Or.inl h1)
    · rcases backSrcsList_mem p ks b h with h1 | h1
      · exact Or.inl h1
      · exact Or.inr (Or.inr h1)
end

mutual
/-- every node of a tree is the target of one of its moves -/
theorem Tree.nodes_has_edge (p : Nat) : ∀ (T : Tree) (x : Nat), x ∈ T.nodes →
    ∃ a, (a, x) ∈ T.edges p
  | .backEdge, x, h => by simp [Tree.nodes] at h
  | .node t kids, x, h => by
    simp only [Tree.nodes, List.mem_cons] at h
    rcases h with rfl | h
    · exact ⟨p, by simp [Tree.edges]⟩
    · obtain ⟨a, ha⟩ := nodesList_has_edge t kids x h
      exact ⟨a, by simp [Tree.edges, ha]⟩
theorem nodesList_has_edge (p : Nat) : ∀ (ks : List Tree) (x : Nat), x ∈ nodesList ks →
    ∃ a, (a, x) ∈ edgesList p ks
  | [], x, h => by simp [nodesList] at h
  | k :: ks, x, h => by
    simp only [nodesList, List.mem_append] at h
    rcases h with h | h
    · obtain ⟨a, ha⟩ := Tree.nodes_has_edge p k x h
      exact ⟨a, by simp [edgesList, ha]⟩
    · obtain ⟨a, ha⟩ := nodesList_has_edge p ks x h
      exact ⟨a, by simp [edgesList, ha]⟩
end

mutual
theorem Tree.refersBack_backSrcs (p : Nat) : ∀ (T : Tree), T.refersBack = false → T.backSrcs p = []
  | .backEdge, h => by simp [Tree.refersBack] at h
  | .node t kids, h => by
    simp only [Tree.refersBack] at h
    simp [Tree.backSrcs, anyRefersBack_backSrcs t kids h]
theorem anyRefersBack_backSrcs (p : Nat) : ∀ (ks : List Tree), anyRefersBack ks = false →
    backSrcsList p ks = []
  | [], _ => by simp [backSrcsList]
  | k :: ks, h => by
    simp only [anyRefersBack, Bool.or_eq_false_iff] at h
    simp [backSrcsList, Tree.refersBack_backSrcs p k h.1, anyRefersBack_backSrcs p ks h.2]
end

/-- What running the moves of a tree (or list of trees) does to the abstract machine. -/
structure MovesSpec {V : Type} (σ : Nat → V) (sc : V) (nodes : List Nat) (edges : List (Nat × Nat))
    (back : List Nat) (rb : Bool) (res : (Nat → V) × V) : Prop where
  frame : ∀ x, x ∉ nodes → res.1 x = σ x
  moved : ∀ a b, (a, b) ∈ edges → res.1 b = σ a
  noback : rb = false → res.2 = sc
  saved : rb = true → ∃ b ∈ back, res.2 = σ b

mutual
theorem treeMoves_spec {V : Type} (csm : Bool) : ∀ (T : Tree) (p : Nat) (σ : Nat → V) (sc : V),
    T.nodes.Nodup → p ∉ T.nodes →
    MovesSpec σ sc T.nodes (T.edges p) (T.backSrcs p) T.refersBack (run (treeMoves p T csm) (σ, sc))
  | .backEdge, p, σ, sc, _, _ => by
    constructor <;> simp [treeMoves, run, step, Tree.refersBack, Tree.backSrcs, Tree.edges]
  | .node t kids, p, σ, sc, hnd, hp => by
    simp only [Tree.nodes, List.nodup_cons, List.mem_cons, not_or] at hnd hp
    have ih := forestMoves_spec csm kids t σ sc hnd.2 hnd.1
    simp only [treeMoves, run_append]
    generalize run (forestMoves t kids csm) (σ, sc) = r1 at ih
    obtain ⟨σ1, sc1⟩ := r1
    have hp1 : σ1 p = σ p := ih.frame p hp.2
    constructor
    · intro x hx
      simp only [Tree.nodes, List.mem_cons, not_or] at hx
      simp only [run, step, upd, if_neg hx.1]
      exact ih.frame x hx.2
    · intro a b hab
      simp only [Tree.edges, List.mem_cons, Prod.mk.injEq] at hab
      rcases hab with ⟨rfl, rfl⟩ | hab
      · simp [run, step, upd, hp1]
      · have hb := (edgesList_mem t kids a b hab).2
        have hbt : b ≠ t := fun h => hnd.1 (h ▸ hb)
        simp only [run, step, upd, if_neg hbt]
        exact ih.moved a b hab
    · intro h
      simp only [Tree.refersBack] at h
      simpa [run, step] using ih.noback h
    · intro h
      simp only [Tree.refersBack] at h
      simpa [run, step, Tree.backSrcs] using ih.saved h
theorem forestMoves_spec {V : Type} (csm : Bool) : ∀ (ks : List Tree) (p : Nat) (σ : Nat → V) (sc : V),
    (nodesList ks).Nodup → p ∉ nodesList ks →
    MovesSpec σ sc (nodesList ks) (edgesList p ks) (backSrcsList p ks) (anyRefersBack ks)
      (run (forestMoves p ks csm) (σ, sc))
  | [], p, σ, sc, _, _ => by
    constructor <;> simp [forestMoves, run, anyRefersBack, edgesList]
  | k :: ks, p, σ, sc, hnd, hp => by
    simp only [nodesList, List.nodup_append, List.mem_append, not_or] at hnd hp
    obtain ⟨hndk, hndks, hdisj⟩ := hnd
    have ih1 := treeMoves_spec csm k p σ sc hndk hp.1
    simp only [forestMoves, run_append]
    generalize run (treeMoves p k csm) (σ, sc) = r1 at ih1
    obtain ⟨σ1, sc1⟩ := r1
    have ih2 := forestMoves_spec csm ks p σ1 sc1 hndks hp.2
    generalize run (forestMoves p ks csm) (σ1, sc1) = r2 at ih2
    obtain ⟨σ2, sc2⟩ := r2
    -- sources read by the second part are untouched by the first part
    have hsrc : ∀ a, (a = p ∨ a ∈ nodesList ks) → σ1 a = σ a := by
      intro a ha
      apply ih1.frame
      rcases ha with rfl | ha
      · exact hp.1
      · intro hak; exact hdisj a hak a ha rfl
    constructor
    · intro x hx
      simp only [nodesList, List.mem_append, not_or] at hx
      show σ2 x = σ x
      rw [show σ2 x = σ1 x from ih2.frame x hx.2]
      exact ih1.frame x hx.1
    · intro a b hab
      simp only [edgesList, List.mem_append] at hab
      show σ2 b = σ a
      rcases hab with hab | hab
      · have hb := (Tree.edges_mem p k a b hab).2
        have : b ∉ nodesList ks := fun h => hdisj b hb b h rfl
        rw [show σ2 b = σ1 b from ih2.frame b this]
        exact ih1.moved a b hab
      · rw [show σ2 b = σ1 a from ih2.moved a b hab]
        exact hsrc a (edgesList_mem p ks a b hab).1
    · intro h
      simp only [anyRefersBack, Bool.or_eq_false_iff] at h
      show sc2 = sc
      rw [show sc2 = sc1 from ih2.noback h.2]
      exact ih1.noback h.1
    · intro h
      show ∃ b ∈ backSrcsList p (k :: ks), sc2 = σ b
      simp only [backSrcsList, List.mem_append]
      cases hks : anyRefersBack ks with
      | true =>
        obtain ⟨b, hb, hsc⟩ := ih2.saved hks
        refine ⟨b, Or.inr hb, ?_⟩
        rw [show sc2 = σ1 b from hsc]
        exact hsrc b (backSrcsList_mem p ks b hb)
      | false =>
        have hk : k.refersBack = true := by simpa [anyRefersBack, hks] using h
        obtain ⟨b, hb, hsc⟩ := ih1.saved hk
        refine ⟨b, Or.inl hb, ?_⟩
        rw [show sc2 = sc1 from ih2.noback hks]
        exact hsc
end

/-! ## B. the graph of `spanningTree` -/

/-- keys are pairwise distinct (implied by `Sorted`) -/
def KeysNodup (pm : PMap) : Prop := (pm.map (·.1)).Nodup
/-- every target list is duplicate free (implied by `Sorted`) -/
def TargetsNodup (pm : PMap) : Prop := ∀ kv ∈ pm, kv.2.Nodup

/-- `parallel_moves[&node]` if `contains_key(&node)`, else no targets -/
def targetsOf (pm : PMap) (n : Nat) : List Nat := (mapLookup pm n).getD []

theorem mapLookup_mem {pm : PMap} {k : Nat} {ts : List Nat} (h : mapLookup pm k = some ts) :
    (k, ts) ∈ pm := by
  induction pm with
  | nil => simp [mapLookup] at h
  | cons kv rest ih =>
    obtain ⟨k', v⟩ := kv
    simp only [mapLookup] at h
    split at h
    · rename_i hk
      simp only [beq_iff_eq] at hk
      simp only [Option.some.injEq] at h
      simp [hk, h]
    · exact List.mem_cons_of_mem _ (ih h)

theorem mapLookup_of_mem {pm : PMap} (hk : KeysNodup pm) {k : Nat} {ts : List Nat}
    (h : (k, ts) ∈ pm) : mapLookup pm k = some ts := by
  induction pm with
  | nil => simp at h
  | cons kv rest ih =>
    obtain ⟨k', v⟩ := kv
    simp only [KeysNodup, List.map_cons, List.nodup_cons, List.mem_map, not_exists, not_and] at hk
    simp only [List.mem_cons, Prod.mk.injEq] at h
    simp only [mapLookup]
    rcases h with ⟨rfl, rfl⟩ | h
    · simp
    · have : ¬ (k' == k) = true := by
        simp only [beq_iff_eq]
        intro e
        exact hk.1 (k, ts) h e.symm
      simp only [this]
      exact ih hk.2 h

theorem edge_of_mem_targetsOf {pm : PMap} {n t : Nat} (h : t ∈ targetsOf pm n) : Edge pm n t := by
  unfold targetsOf at h
  cases hl : mapLookup pm n with
  | none => simp [hl] at h
  | some ts =>
    simp only [hl, Option.getD_some] at h
    exact ⟨ts, mapLookup_mem hl, h⟩

theorem mem_targetsOf_of_edge {pm : PMap} (hk : KeysNodup pm) {n t : Nat} (h : Edge pm n t) :
    t ∈ targetsOf pm n := by
  obtain ⟨ts, hm, ht⟩ := h
  simp [targetsOf, mapLookup_of_mem hk hm, ht]

theorem targetsOf_nodup {pm : PMap} (ht : TargetsNodup pm) (n : Nat) : (targetsOf pm n).Nodup := by
  unfold targetsOf
  cases hl : mapLookup pm n with
  | none => simp
  | some ts => simpa using ht _ (mapLookup_mem hl)

theorem optMap_cons_some {α β : Type} {f : α → Option β} {x : α} {xs : List α} {ys : List β}
    (h : optMap f (x :: xs) = some ys) :
    ∃ y ys', f x = some y ∧ optMap f xs = some ys' ∧ ys = y :: ys' := by
  simp only [optMap] at h
  cases hx : f x with
  | none => simp [hx] at h
  | some y =>
    cases hxs : optMap f xs with
    | none => simp [hx, hxs] at h
    | some ys' =>
      simp only [hx, hxs, Option.some.injEq] at h
      exact ⟨y, ys', rfl, rfl, h.symm⟩

theorem optMap_exists {α β : Type} {f : α → Option β} {xs : List α}
    (h : ∀ x ∈ xs, ∃ y, f x = some y) : ∃ ys, optMap f xs = some ys := by
  induction xs with
  | nil => exact ⟨[], rfl⟩
  | cons x xs ih =>
    obtain ⟨y, hy⟩ := h x (List.mem_cons_self)
    obtain ⟨ys, hys⟩ := ih (fun x' hx' => h x' (List.mem_cons_of_mem _ hx'))
    exact ⟨y :: ys, by simp [optMap, hy, hys]⟩

/-- one unfolding of `spanningTree` -/
theorem spanningTree_succ (fuel : Nat) (pm : PMap) (r n : Nat) :
    spanningTree (fuel + 1) pm r n =
      if r = n then some .backEdge
      else (optMap (spanningTree fuel pm r) (targetsOf pm n)).map (Tree.node n) := by
  simp only [spanningTree, targetsOf, beq_iff_eq]
  split
  · rfl
  · cases hl : mapLookup pm n with
    | none => simp [optMap]
    | some ts =>
      simp only [Option.getD_some]
      cases optMap (spanningTree fuel pm r) ts <;> simp

mutual
/-- `T` is the tree that `spanningTree pm r n` builds (independently of the fuel) -/
def IsST (pm : PMap) (r : Nat) : Nat → Tree → Prop
  | n, .backEdge => n = r
  | n, .node t kids => n ≠ r ∧ t = n ∧ AreSTs pm r (targetsOf pm n) kids
def AreSTs (pm : PMap) (r : Nat) : List Nat → List Tree → Prop
  | [], [] => True
  | t :: ts, k :: ks => IsST pm r t k ∧ AreSTs pm r ts ks
  | [], _ :: _ => False
  | _ :: _, [] => False
end

theorem spanningTree_isST (pm : PMap) (r : Nat) : ∀ (fuel n : Nat) (T : Tree),
    spanningTree fuel pm r n = some T → IsST pm r n T := by
  intro fuel
  induction fuel with
  | zero => intro n T h; simp [spanningTree] at h
  | succ fuel ih =>
    intro n T h
    rw [spanningTree_succ] at h
    split at h
    · rename_i hrn
      simp only [Option.some.injEq] at h
      subst h; simp [IsST, hrn]
    · rename_i hrn
      simp only [Option.map_eq_some_iff] at h
      obtain ⟨kids, hk, rfl⟩ := h
      refine ⟨fun e => hrn e.symm, rfl, ?_⟩
      generalize targetsOf pm n = ts at hk
      induction ts generalizing kids with
      | nil => simp only [optMap, Option.some.injEq] at hk; subst hk; trivial
      | cons t ts iht =>
        obtain ⟨y, ys', hy, hys, rfl⟩ := optMap_cons_some hk
        exact ⟨ih t y hy, iht ys' hys⟩

theorem optMap_spanningTree_areSTs (pm : PMap) (r fuel : Nat) : ∀ (ts : List Nat) (kids : List Tree),
    optMap (spanningTree fuel pm r) ts = some kids → AreSTs pm r ts kids := by
  intro ts
  induction ts with
  | nil => intro kids hk; simp only [optMap, Option.some.injEq] at hk; subst hk; trivial
  | cons t ts iht =>
    intro kids hk
    obtain ⟨y, ys', hy, hys, rfl⟩ := optMap_cons_some hk
    exact ⟨spanningTree_isST pm r fuel t y hy, iht ys' hys⟩

/-- `Reach pm r a c`: there is a path `a → … → c` in the move graph none of whose nodes, except
    possibly `a`, is the root `r`. -/
inductive Reach (pm : PMap) (r : Nat) : Nat → Nat → Prop
  | refl (a : Nat) : Reach pm r a a
  | step {a b c : Nat} : Reach pm r a b → Edge pm b c → c ≠ r → Reach pm r a c

theorem Reach.head {pm : PMap} {r a b c : Nat} (hab : Edge pm a b) (hb : b ≠ r)
    (h : Reach pm r b c) : Reach pm r a c := by
  induction h with
  | refl => exact .step (.refl a) hab hb
  | step _ e ne ih => exact .step ih e ne

theorem Reach.last {pm : PMap} {r a c : Nat} (h : Reach pm r a c) (hne : a ≠ c) :
    ∃ y, Reach pm r a y ∧ Edge pm y c ∧ c ≠ r := by
  cases h with
  | refl => exact absurd rfl hne
  | step h1 e ne => exact ⟨_, h1, e, ne⟩

theorem Reach.comparable {pm : PMap} (hf : Functional pm) {r a b x : Nat}
    (ha : Reach pm r a x) (hb : Reach pm r b x) : Reach pm r a b ∨ Reach pm r b a := by
  induction ha generalizing b with
  | refl => exact Or.inr hb
  | @step y x ha1 e ne ih =>
    cases hb with
    | refl => exact Or.inl (.step ha1 e ne)
    | @step y' _ hb1 e' _ =>
      have : y = y' := hf _ _ _ e e'
      subst this
      exact ih hb1

/-- no cycle avoiding the root passes through a node reachable from the root -/
theorem Reach.acyclic {pm : PMap} (hf : Functional pm) {r n : Nat} (h : Reach pm r r n) :
    ∀ c, Edge pm n c → c ≠ r → ¬ Reach pm r c n := by
  induction h with
  | refl =>
    intro c _ hc hcr
    obtain ⟨_, _, _, hrr⟩ := hcr.last hc
    exact hrr rfl
  | @step m n hm e ne ih =>
    intro c enc hc hcn
    by_cases hcn' : c = n
    · subst hcn'
      have : m = c := hf _ _ _ e enc
      subst this
      exact ih m enc hc hcn
    · obtain ⟨y, hcy, eyn, _⟩ := hcn.last hcn'
      have : y = m := hf _ _ _ eyn e
      subst this
      exact ih n e ne (Reach.head enc hc hcy)

/-- subtrees of different children of a reachable node are disjoint -/
theorem Reach.sibling {pm : PMap} (hf : Functional pm) {r n c c' x : Nat} (hn : Reach pm r r n)
    (e : Edge pm n c) (e' : Edge pm n c') (hc : c ≠ r) (hc' : c' ≠ r) (hne : c ≠ c')
    (h : Reach pm r c x) (h' : Reach pm r c' x) : False := by
  rcases Reach.comparable hf h h' with hcc | hcc
  · obtain ⟨y, hcy, eyc, _⟩ := hcc.last hne
    have : y = n := hf _ _ _ eyc e'
    subst this
    exact Reach.acyclic hf hn c e hc hcy
  · obtain ⟨y, hcy, eyc, _⟩ := hcc.last (Ne.symm hne)
    have : y = n := hf _ _ _ eyc e
    subst this
    exact Reach.acyclic hf hn c' e' hc' hcy

mutual
theorem IsST.nodes_reach {pm : PMap} {r : Nat} : ∀ (T : Tree) (n : Nat), IsST pm r n T →
    ∀ x ∈ T.nodes, n ≠ r ∧ x ≠ r ∧ Reach pm r n x
  | .backEdge, n, _, x, hx => by simp [Tree.nodes] at hx
  | .node t kids, n, h, x, hx => by
    obtain ⟨hn, rfl, hk⟩ := h
    simp only [Tree.nodes, List.mem_cons] at hx
    rcases hx with rfl | hx
    · exact ⟨hn, hn, .refl _⟩
    · obtain ⟨hxr, c, hc, hcr, hcx⟩ := AreSTs.nodes_reach kids _ hk x hx
      exact ⟨hn, hxr, Reach.head (edge_of_mem_targetsOf hc) hcr hcx⟩
theorem AreSTs.nodes_reach {pm : PMap} {r : Nat} : ∀ (ks : List Tree) (ts : List Nat),
    AreSTs pm r ts ks → ∀ x ∈ nodesList ks, x ≠ r ∧ ∃ c ∈ ts, c ≠ r ∧ Reach pm r c x
  | [], _, _, x, hx => by simp [nodesList] at hx
  | k :: ks, [], h, _, _ => by simp [AreSTs] at h
  | k :: ks, t :: ts, h, x, hx => by
    obtain ⟨h1, h2⟩ := h
    simp only [nodesList, List.mem_append] at hx
    rcases hx with hx | hx
    · obtain ⟨a, b, c⟩ := IsST.nodes_reach k t h1 x hx
      exact ⟨b, t, List.mem_cons_self, a, c⟩
    · obtain ⟨a, c, hc, b, d⟩ := AreSTs.nodes_reach ks ts h2 x hx
      exact ⟨a, c, List.mem_cons_of_mem _ hc, b, d⟩
end

mutual
theorem IsST.edges {pm : PMap} {r : Nat} : ∀ (T : Tree) (n p : Nat), IsST pm r n T → Edge pm p n →
    (∀ a b, (a, b) ∈ T.edges p → Edge pm a b) ∧ (∀ b ∈ T.backSrcs p, Edge pm b r)
  | .backEdge, n, p, h, e => by
    simp only [IsST] at h
    subst h
    simp [Tree.edges, Tree.backSrcs, e]
  | .node t kids, n, p, h, e => by
    obtain ⟨_, rfl, hk⟩ := h
    have := AreSTs.edges kids _ t hk (fun c hc => edge_of_mem_targetsOf hc)
    refine ⟨?_, ?_⟩
    · intro a b hab
      simp only [Tree.edges, List.mem_cons, Prod.mk.injEq] at hab
      rcases hab with ⟨rfl, rfl⟩ | hab
      · exact e
      · exact this.1 a b hab
    · intro b hb
      simp only [Tree.backSrcs] at hb
      exact this.2 b hb
theorem AreSTs.edges {pm : PMap} {r : Nat} : ∀ (ks : List Tree) (ts : List Nat) (p : Nat),
    AreSTs pm r ts ks → (∀ c ∈ ts, Edge pm p c) →
    (∀ a b, (a, b) ∈ edgesList p ks → Edge pm a b) ∧ (∀ b ∈ backSrcsList p ks, Edge pm b r)
  | [], _, _, _, _ => by simp [edgesList, backSrcsList]
  | k :: ks, [], _, h, _ => by simp [AreSTs] at h
  | k :: ks, t :: ts, p, h, he => by
    obtain ⟨h1, h2⟩ := h
    have i1 := IsST.edges k t p h1 (he t List.mem_cons_self)
    have i2 := AreSTs.edges ks ts p h2 (fun c hc => he c (List.mem_cons_of_mem _ hc))
    refine ⟨?_, ?_⟩
    · intro a b hab
      simp only [edgesList, List.mem_append] at hab
      rcases hab with hab | hab
      · exact i1.1 a b hab
      · exact i2.1 a b hab
    · intro b hb
      simp only [backSrcsList, List.mem_append] at hb
      rcases hb with hb | hb
      · exact i1.2 b hb
      · exact i2.2 b hb
end

/-- every requested child is either the back edge or a node of the forest -/
theorem AreSTs.mem {pm : PMap} {r : Nat} : ∀ (ks : List Tree) (ts : List Nat), AreSTs pm r ts ks →
    ∀ t ∈ ts, (t = r ∧ anyRefersBack ks = true) ∨ (t ≠ r ∧ t ∈ nodesList ks)
  | [], [], _, t, ht => by simp at ht
  | [], _ :: _, h, _, _ => by simp [AreSTs] at h
  | k :: ks, [], _, t, ht => by simp at ht
  | k :: ks, t' :: ts, h, t, ht => by
    obtain ⟨h1, h2⟩ := h
    simp only [List.mem_cons] at ht
    rcases ht with rfl | ht
    · cases k with
      | backEdge =>
        simp only [IsST] at h1
        exact Or.inl ⟨h1, by simp [anyRefersBack, Tree.refersBack]⟩
      | node t'' kids =>
        obtain ⟨hn, rfl, _⟩ := h1
        exact Or.inr ⟨hn, by simp [nodesList, Tree.nodes]⟩
    · rcases AreSTs.mem ks ts h2 t ht with ⟨a, b⟩ | ⟨a, b⟩
      · exact Or.inl ⟨a, by simp [anyRefersBack, b]⟩
      · exact Or.inr ⟨a, by simp [nodesList, b]⟩

mutual
theorem IsST.closed {pm : PMap} (hk : KeysNodup pm) {r : Nat} : ∀ (T : Tree) (n : Nat),
    IsST pm r n T → ∀ x ∈ T.nodes, ∀ t, Edge pm x t →
      t ∈ T.nodes ∨ (t = r ∧ T.refersBack = true)
  | .backEdge, n, _, x, hx, _, _ => by simp [Tree.nodes] at hx
  | .node t' kids, n, h, x, hx, t, e => by
    obtain ⟨hn, rfl, hks⟩ := h
    simp only [Tree.nodes, List.mem_cons] at hx
    simp only [Tree.nodes, List.mem_cons, Tree.refersBack]
    rcases hx with rfl | hx
    · rcases AreSTs.mem kids _ hks t (mem_targetsOf_of_edge hk e) with ⟨a, b⟩ | ⟨_, b⟩
      · exact Or.inr ⟨a, b⟩
      · exact Or.inl (Or.inr b)
    · rcases AreSTs.closed hk kids _ hks x hx t e with a | a
      · exact Or.inl (Or.inr a)
      · exact Or.inr a
theorem AreSTs.closed {pm : PMap} (hk : KeysNodup pm) {r : Nat} : ∀ (ks : List Tree) (ts : List Nat),
    AreSTs pm r ts ks → ∀ x ∈ nodesList ks, ∀ t, Edge pm x t →
      t ∈ nodesList ks ∨ (t = r ∧ anyRefersBack ks = true)
  | [], _, _, x, hx, _, _ => by simp [nodesList] at hx
  | k :: ks, [], h, _, _, _, _ => by simp [AreSTs] at h
  | k :: ks, t' :: ts, h, x, hx, t, e => by
    obtain ⟨h1, h2⟩ := h
    simp only [nodesList, List.mem_append] at hx
    simp only [nodesList, List.mem_append, anyRefersBack, Bool.or_eq_true]
    rcases hx with hx | hx
    · rcases IsST.closed hk k t' h1 x hx t e with a | ⟨a, b⟩
      · exact Or.inl (Or.inl a)
      · exact Or.inr ⟨a, Or.inl b⟩
    · rcases AreSTs.closed hk ks ts h2 x hx t e with a | ⟨a, b⟩
      · exact Or.inl (Or.inr a)
      · exact Or.inr ⟨a, Or.inr b⟩
end

mutual
theorem IsST.nodup {pm : PMap} (hf : Functional pm) (ht : TargetsNodup pm) {r : Nat} :
    ∀ (T : Tree) (n : Nat), IsST pm r n T → Reach pm r r n → T.nodes.Nodup
  | .backEdge, _, _, _ => by simp [Tree.nodes]
  | .node t' kids, n, h, hr => by
    obtain ⟨hn, rfl, hks⟩ := h
    simp only [Tree.nodes, List.nodup_cons]
    refine ⟨?_, AreSTs.nodup hf ht kids _ t' hks hr (targetsOf_nodup ht _)
      (fun c hc => edge_of_mem_targetsOf hc)⟩
    intro hmem
    obtain ⟨_, c, hc, hcr, hcx⟩ := AreSTs.nodes_reach kids _ hks t' hmem
    exact Reach.acyclic hf hr c (edge_of_mem_targetsOf hc) hcr hcx
theorem AreSTs.nodup {pm : PMap} (hf : Functional pm) (ht : TargetsNodup pm) {r : Nat} :
    ∀ (ks : List Tree) (ts : List Nat) (n : Nat), AreSTs pm r ts ks → Reach pm r r n → ts.Nodup →
      (∀ c ∈ ts, Edge pm n c) → (nodesList ks).Nodup
  | [], _, _, _, _, _, _ => by simp [nodesList]
  | k :: ks, [], _, h, _, _, _ => by simp [AreSTs] at h
  | k :: ks, t :: ts, n, h, hr, hnd, he => by
    obtain ⟨h1, h2⟩ := h
    simp only [List.nodup_cons] at hnd
    have et := he t List.mem_cons_self
    simp only [nodesList, List.nodup_append]
    refine ⟨?_, AreSTs.nodup hf ht ks ts n h2 hr hnd.2 (fun c hc => he c (List.mem_cons_of_mem _ hc)), ?_⟩
    · cases k with
      | backEdge => simp [Tree.nodes]
      | node t'' kids =>
        have htr : t ≠ r := h1.1
        exact IsST.nodup hf ht _ t h1 (.step hr et htr)
    · intro x hx y hy hxy
      subst hxy
      obtain ⟨htr, _, hrx⟩ := IsST.nodes_reach k t h1 x hx
      obtain ⟨_, c, hc, hcr, hcx⟩ := AreSTs.nodes_reach ks ts h2 x hy
      have hne : t ≠ c := fun e => hnd.1 (e ▸ hc)
      exact Reach.sibling hf hr et (he c (List.mem_cons_of_mem _ hc)) htr hcr hne hrx hcx
end

/-- `fuel > depth` suffices: `anc` is the list of proper ancestors of `n` (root included), `V` any list
    containing all targets of the map. -/
theorem spanningTree_terminates {pm : PMap} (hf : Functional pm) {r : Nat} (V : List Nat)
    (hV : ∀ s t, Edge pm s t → t ∈ V) :
    ∀ (fuel n : Nat) (anc : List Nat), anc.Nodup → (∀ a ∈ anc, a ∈ V) →
      (∀ a ∈ anc, Reach pm r a n) → Reach pm r r n → (n = r ∨ (n ∉ anc ∧ n ∈ V)) →
      V.length + 1 ≤ anc.length + fuel → ∃ T, spanningTree fuel pm r n = some T := by
  intro fuel
  induction fuel with
  | zero =>
    intro n anc hnd hsub _ _ _ hlen
    have := List.Nodup.length_le_of_subset hnd (fun a ha => hsub a ha)
    omega
  | succ fuel ih =>
    intro n anc hnd hsub hanc hrn hn hlen
    rw [spanningTree_succ]
    by_cases hrn' : r = n
    · simp [hrn']
    · simp only [if_neg hrn']
      have hnr : n ≠ r := fun e => hrn' e.symm
      obtain ⟨hna, hnV⟩ := hn.resolve_left hnr
      have hnd' : (n :: anc).Nodup := List.nodup_cons.mpr ⟨hna, hnd⟩
      have hsub' : ∀ a ∈ n :: anc, a ∈ V := by
        intro a ha
        rcases List.mem_cons.mp ha with rfl | ha
        · exact hnV
        · exact hsub a ha
      have hle := List.Nodup.length_le_of_subset hnd' (fun a ha => hsub' a ha)
      simp only [List.length_cons] at hle
      have : ∃ kids, optMap (spanningTree fuel pm r) (targetsOf pm n) = some kids := by
        apply optMap_exists
        intro c hc
        have e := edge_of_mem_targetsOf hc
        by_cases hcr : c = r
        · subst hcr
          obtain ⟨f', rfl⟩ : ∃ f', fuel = f' + 1 := ⟨fuel - 1, by omega⟩
          exact ⟨.backEdge, by rw [spanningTree_succ]; simp⟩
        · apply ih c (n :: anc) hnd' hsub'
          · intro a ha
            rcases List.mem_cons.mp ha with rfl | ha
            · exact .step (.refl _) e hcr
            · exact .step (hanc a ha) e hcr
          · exact .step hrn e hcr
          · refine Or.inr ⟨?_, hV _ _ e⟩
            intro hmem
            rcases List.mem_cons.mp hmem with rfl | hmem
            · exact Reach.acyclic hf hrn c e hcr (.refl _)
            · exact Reach.acyclic hf hrn c e hcr (hanc c hmem)
          · simp only [List.length_cons]; omega
      obtain ⟨kids, hk⟩ := this
      exact ⟨.node n kids, by simp [hk]⟩

/-! ## C. one root -/

theorem mem_visitedBy {k : Nat} {trees : List Tree} {x : Nat} :
    x ∈ (Root.startNode k trees).visitedBy ↔
      (x = k ∧ anyRefersBack trees = true) ∨ x ∈ nodesList trees := by
  simp only [Root.visitedBy, List.mem_append]
  cases anyRefersBack trees <;> simp

/-- graph facts about the root built for key `k` of the current map -/
structure RootGraph (pm : PMap) (k : Nat) (trees : List Tree) : Prop where
  nodup : (nodesList trees).Nodup
  root_not_node : k ∉ nodesList trees
  edges : ∀ a b, (a, b) ∈ edgesList k trees → Edge pm a b
  back : ∀ b ∈ backSrcsList k trees, Edge pm b k
  closed : ∀ x ∈ (Root.startNode k trees).visitedBy, ∀ t, Edge pm x t →
    t ∈ (Root.startNode k trees).visitedBy
  closed_root : ∀ t, Edge pm k t → t ≠ k → t ∈ (Root.startNode k trees).visitedBy

theorem rootGraph_of_areSTs {pm : PMap} (hk : KeysNodup pm) (ht : TargetsNodup pm) (hf : Functional pm)
    {k : Nat} {trees : List Tree}
    (hst : AreSTs pm k ((targetsOf pm k).filter (fun t => !(t == k))) trees) :
    RootGraph pm k trees := by
  have hedge : ∀ c ∈ (targetsOf pm k).filter (fun t => !(t == k)), Edge pm k c := by
    intro c hc
    exact edge_of_mem_targetsOf (List.mem_filter.mp hc).1
  have hnd : ((targetsOf pm k).filter (fun t => !(t == k))).Nodup :=
    List.Nodup.sublist List.filter_sublist (targetsOf_nodup ht k)
  have hmem : ∀ t, Edge pm k t → t ≠ k → t ∈ nodesList trees := by
    intro t e hne
    have : t ∈ (targetsOf pm k).filter (fun t => !(t == k)) := by
      simp [List.mem_filter, mem_targetsOf_of_edge hk e, hne]
    rcases AreSTs.mem trees _ hst t this with ⟨a, _⟩ | ⟨_, b⟩
    · exact absurd a hne
    · exact b
  refine ⟨AreSTs.nodup hf ht trees _ k hst (.refl k) hnd hedge, ?_, ?_, ?_, ?_, ?_⟩
  · intro h
    exact (AreSTs.nodes_reach trees _ hst k h).1 rfl
  · exact (AreSTs.edges trees _ k hst hedge).1
  · exact (AreSTs.edges trees _ k hst hedge).2
  · intro x hx t e
    rw [mem_visitedBy] at hx ⊢
    rcases hx with ⟨rfl, hb⟩ | hx
    · by_cases htx : t = x
      · exact Or.inl ⟨htx, hb⟩
      · exact Or.inr (hmem t e htx)
    · rcases AreSTs.closed hk trees _ hst x hx t e with a | a
      · exact Or.inr a
      · exact Or.inl a
  · intro t e hne
    rw [mem_visitedBy]
    exact Or.inr (hmem t e hne)

/-- What executing the code of one root does, seen through `rd` on the observable locations `ok`. -/
structure RootSpec {S V : Type} (rd : S → Nat → V) (ok : Nat → Prop) (pm : PMap) (root : Root)
    (st st' : S) : Prop where
  frame : ∀ x, ok x → x ∉ root.visitedBy → rd st' x = rd st x
  moved : ∀ x ∈ root.visitedBy, ∃ a, Edge pm a x ∧ rd st' x = rd st a

/-- the abstract machine satisfies `RootSpec` -/
theorem rootMoves_spec {V : Type} {pm : PMap} {k : Nat} {trees : List Tree}
    (g : RootGraph pm k trees) (csE : Root → Bool) (st : (Nat → V) × V) :
    RootSpec (fun s x => s.1 x) (fun _ => True) pm (.startNode k trees) st
      (run (rootMoves csE (.startNode k trees)) st) := by
  obtain ⟨σ, sc⟩ := st
  have sp := forestMoves_spec (csE (.startNode k trees)) trees k σ sc g.nodup g.root_not_node
  simp only [rootMoves, run_append]
  generalize run (forestMoves k trees (csE (.startNode k trees))) (σ, sc) = r1 at sp
  obtain ⟨σ1, sc1⟩ := r1
  have hnode : ∀ x ∈ nodesList trees, ∃ a, Edge pm a x ∧ σ1 x = σ a := by
    intro x hx
    obtain ⟨a, ha⟩ := nodesList_has_edge k trees x hx
    exact ⟨a, g.edges a x ha, sp.moved a x ha⟩
  cases hb : anyRefersBack trees with
  | false =>
    simp only [Bool.false_eq_true, if_false, run]
    constructor
    · intro x _ hx
      rw [mem_visitedBy] at hx
      exact sp.frame x (fun h => hx (Or.inr h))
    · intro x hx
      rw [mem_visitedBy] at hx
      rcases hx with ⟨_, h⟩ | hx
      · simp [hb] at h
      · exact hnode x hx
  | true =>
    obtain ⟨b, hbm, hsc⟩ := sp.saved hb
    simp only [if_true, run, step]
    constructor
    · intro x _ hx
      rw [mem_visitedBy] at hx
      have hxk : x ≠ k := fun e => hx (Or.inl ⟨e, hb⟩)
      simp only [upd, if_neg hxk]
      exact sp.frame x (fun h => hx (Or.inr h))
    · intro x hx
      rw [mem_visitedBy] at hx
      by_cases hxk : x = k
      · subst hxk
        exact ⟨b, g.back b hbm, by simpa [upd] using hsc⟩
      · simp only [upd, if_neg hxk]
        rcases hx with ⟨h, _⟩ | hx
        · exact absurd h hxk
        · exact hnode x hx

/-! ## D. the `spanningForest` loop -/

theorem edge_deleteTargets {W : List Nat} {pm : PMap} {s t : Nat} :
    Edge (deleteTargets W pm) s t ↔ Edge pm s t ∧ t ∉ W := by
  simp only [Edge, deleteTargets, List.mem_map, Prod.mk.injEq]
  constructor
  · rintro ⟨ts, ⟨⟨k, v⟩, hm, rfl, rfl⟩, ht⟩
    simp only [List.mem_filter, Bool.not_eq_eq_eq_not, Bool.not_true, List.contains_eq_mem,
      decide_eq_false_iff_not] at ht
    exact ⟨⟨v, hm, ht.1⟩, ht.2⟩
  · rintro ⟨⟨ts, hm, ht⟩, hw⟩
    refine ⟨_, ⟨(s, ts), hm, rfl, rfl⟩, ?_⟩
    simp [List.mem_filter, ht, hw]

theorem keys_deleteTargets (W : List Nat) (pm : PMap) :
    (deleteTargets W pm).map (·.1) = pm.map (·.1) := by
  simp [deleteTargets, List.map_map, Function.comp_def]

/-- the mutated map `cur` relative to the original map `pm0` -/
structure Good (pm0 cur : PMap) : Prop where
  keys : cur.map (·.1) = pm0.map (·.1)
  sub : ∀ s t, Edge cur s t → Edge pm0 s t
  tnd : TargetsNodup cur

theorem Good.refl {pm0 : PMap} (ht : TargetsNodup pm0) : Good pm0 pm0 := ⟨rfl, fun _ _ h => h, ht⟩

theorem Good.delete {pm0 cur : PMap} (g : Good pm0 cur) (W : List Nat) :
    Good pm0 (deleteTargets W cur) := by
  refine ⟨by rw [keys_deleteTargets, g.keys], ?_, ?_⟩
  · intro s t h
    exact g.sub s t (edge_deleteTargets.mp h).1
  · intro kv hkv
    simp only [deleteTargets, List.mem_map] at hkv
    obtain ⟨kv', hm, rfl⟩ := hkv
    exact List.Nodup.sublist List.filter_sublist (g.tnd kv' hm)

theorem Good.keysNodup {pm0 cur : PMap} (g : Good pm0 cur) (hk0 : KeysNodup pm0) : KeysNodup cur := by
  unfold KeysNodup; rw [g.keys]; exact hk0

theorem Good.functional {pm0 cur : PMap} (g : Good pm0 cur) (hf0 : Functional pm0) : Functional cur :=
  fun s s' t h h' => hf0 s s' t (g.sub _ _ h) (g.sub _ _ h')

/-- loop invariant of `spanningForestGo`, relative to the initial state `st0` -/
structure Inv {S V : Type} (rd : S → Nat → V) (ok : Nat → Prop) (pm0 : PMap) (st0 : S)
    (ks : List Nat) (cur : PMap) (st : S) : Prop where
  done : ∀ s t, Edge pm0 s t → Edge cur s t ∨ rd st t = rd st0 s
  src : ∀ s t, Edge cur s t → rd st s = rd st0 s
  frame : ∀ x, ok x → (∀ s, ¬ Edge pm0 s x) → rd st x = rd st0 x
  pending : ∀ s t, Edge cur s t → s ≠ t → s ∈ ks

/-- A root as built by one iteration of `spanning_forest`. -/
def IsRootOf (fuel : Nat) (cur : PMap) (k : Nat) (trees : List Tree) : Prop :=
  ∃ ts, mapLookup cur k = some ts ∧
    optMap (spanningTree fuel cur k) (ts.filter (fun t => !(t == k))) = some trees

theorem IsRootOf.graph {fuel : Nat} {cur : PMap} {k : Nat} {trees : List Tree}
    (h : IsRootOf fuel cur k trees) (hk : KeysNodup cur) (ht : TargetsNodup cur) (hf : Functional cur) :
    RootGraph cur k trees := by
  obtain ⟨ts, hl, ho⟩ := h
  apply rootGraph_of_areSTs hk ht hf
  have : targetsOf cur k = ts := by simp [targetsOf, hl]
  rw [this]
  exact optMap_spanningTree_areSTs cur k fuel _ _ ho

theorem inv_step {S V : Type} {rd : S → Nat → V} {ok : Nat → Prop} {pm0 : PMap} {st0 : S}
    (hf0 : Functional pm0) (hok : ∀ s t, Edge pm0 s t → ok s ∧ ok t)
    {k : Nat} {ks : List Nat} {cur : PMap} {st st' : S} {trees : List Tree}
    (good : Good pm0 cur) (inv : Inv rd ok pm0 st0 (k :: ks) cur st)
    (g : RootGraph cur k trees) (sp : RootSpec rd ok cur (.startNode k trees) st st') :
    Inv rd ok pm0 st0 ks (deleteTargets (Root.startNode k trees).visitedBy cur) st' := by
  have hfc := good.functional hf0
  constructor
  · intro s t e0
    by_cases hw : t ∈ (Root.startNode k trees).visitedBy
    · right
      obtain ⟨a, ea, hrd⟩ := sp.moved t hw
      have : a = s := hf0 _ _ _ (good.sub _ _ ea) e0
      subst this
      rw [hrd]
      exact inv.src a t ea
    · rcases inv.done s t e0 with ec | hd
      · exact Or.inl (edge_deleteTargets.mpr ⟨ec, hw⟩)
      · right
        rw [sp.frame t (hok s t e0).2 hw]
        exact hd
  · intro s t e
    obtain ⟨ec, hw⟩ := edge_deleteTargets.mp e
    have hs : s ∉ (Root.startNode k trees).visitedBy := fun h => hw (g.closed s h t ec)
    rw [sp.frame s (hok s t (good.sub _ _ ec)).1 hs]
    exact inv.src s t ec
  · intro x hx hnt
    have : x ∉ (Root.startNode k trees).visitedBy := by
      intro h
      obtain ⟨a, ea, _⟩ := sp.moved x h
      exact hnt a (good.sub _ _ ea)
    rw [sp.frame x hx this]
    exact inv.frame x hx hnt
  · intro s t e hne
    obtain ⟨ec, hw⟩ := edge_deleteTargets.mp e
    rcases List.mem_cons.mp (inv.pending s t ec hne) with rfl | h
    · exact absurd (g.closed_root t ec (Ne.symm hne)) hw
    · exact h

/-- The loop: if executing each root satisfies `RootSpec`, executing the whole forest realises the
    simultaneous assignment. -/
theorem forest_loop {S V : Type} (rd : S → Nat → V) (ok : Nat → Prop) (exec : Root → S → S)
    (pm0 : PMap) (hk0 : KeysNodup pm0) (hf0 : Functional pm0)
    (hok : ∀ s t, Edge pm0 s t → ok s ∧ ok t) (fuel : Nat) (st0 : S)
    (hexec : ∀ cur k trees st, Good pm0 cur → IsRootOf fuel cur k trees →
        RootSpec rd ok cur (.startNode k trees) st (exec (.startNode k trees) st)) :
    ∀ (ks : List Nat) (cur : PMap) (st : S) (roots : List Root),
      Good pm0 cur → Inv rd ok pm0 st0 ks cur st →
      spanningForestGo fuel ks cur = .ok roots →
      ∃ cur', Inv rd ok pm0 st0 [] cur' (roots.foldl (fun s r => exec r s) st) := by
  intro ks
  induction ks with
  | nil =>
    intro cur st roots _ inv h
    simp only [spanningForestGo, Res.ok.injEq] at h
    subst h
    exact ⟨cur, inv⟩
  | cons k ks ih =>
    intro cur st roots good inv h
    simp only [spanningForestGo] at h
    cases hl : mapLookup cur k with
    | none => simp [hl] at h
    | some ts =>
      simp only [hl] at h
      cases ho : optMap (spanningTree fuel cur k) (ts.filter (fun t => !(t == k))) with
      | none => simp [ho] at h
      | some trees =>
        simp only [ho] at h
        have hroot : IsRootOf fuel cur k trees := ⟨ts, hl, ho⟩
        have g := hroot.graph (good.keysNodup hk0) good.tnd (good.functional hf0)
        have sp := hexec cur k trees st good hroot
        have inv' := inv_step hf0 hok good inv g sp
        cases hrest : spanningForestGo fuel ks
            (deleteTargets (Root.startNode k trees).visitedBy cur) with
        | outOfFuel => simp [hrest] at h
        | missingKey => simp [hrest] at h
        | ok rest =>
          simp only [hrest, Res.ok.injEq] at h
          subst h
          simp only [List.foldl_cons]
          exact ih _ _ rest (good.delete _) inv' hrest

theorem Inv.init {S V : Type} (rd : S → Nat → V) (ok : Nat → Prop) (pm0 : PMap) (st0 : S) :
    Inv rd ok pm0 st0 (pm0.map (·.1)) pm0 st0 := by
  refine ⟨fun s t e => Or.inl e, fun _ _ _ => rfl, fun _ _ _ => rfl, ?_⟩
  intro s t ⟨ts, hm, _⟩ _
  exact List.mem_map.mpr ⟨(s, ts), hm, rfl⟩

/-- what the final invariant says -/
theorem Inv.final {S V : Type} {rd : S → Nat → V} {ok : Nat → Prop} {pm0 : PMap} {st0 st : S}
    {cur : PMap} (inv : Inv rd ok pm0 st0 [] cur st) :
    (∀ s t, Edge pm0 s t → rd st t = rd st0 s) ∧
    (∀ x, ok x → (∀ s, ¬ Edge pm0 s x) → rd st x = rd st0 x) := by
  refine ⟨?_, inv.frame⟩
  intro s t e
  rcases inv.done s t e with ec | h
  · by_cases hst : s = t
    · subst hst; exact inv.src s s ec
    · exact absurd (inv.pending s t ec hst) (by simp)
  · exact h

/-! ## E. termination of the loop, and the abstract machine instance -/

theorem mem_allNodes {pm : PMap} {x : Nat} :
    x ∈ allNodes pm ↔ x ∈ pm.map (·.1) ∨ x ∈ allTargets pm := by
  simp [allNodes, List.mem_eraseDups]

theorem edge_mem_allTargets {pm : PMap} {s t : Nat} (e : Edge pm s t) : t ∈ allTargets pm := by
  obtain ⟨ts, hm, ht⟩ := e
  exact List.mem_flatMap.mpr ⟨(s, ts), hm, ht⟩

theorem mapLookup_isSome_of_key {pm : PMap} {k : Nat} (h : k ∈ pm.map (·.1)) :
    ∃ ts, mapLookup pm k = some ts := by
  induction pm with
  | nil => simp at h
  | cons kv rest ih =>
    obtain ⟨k', v⟩ := kv
    simp only [List.map_cons, List.mem_cons] at h
    simp only [mapLookup]
    by_cases hk : k' = k
    · exact ⟨v, by simp [hk]⟩
    · have : ¬ (k' == k) = true := by simpa using hk
      simp only [this]
      exact ih (h.resolve_left (fun e => hk e.symm))

theorem spanningForestGo_ok {pm0 : PMap} (hf0 : Functional pm0) {fuel : Nat}
    (hfuel : (allNodes pm0).length ≤ fuel) :
    ∀ (ks : List Nat) (cur : PMap), Good pm0 cur → (∀ k ∈ ks, k ∈ pm0.map (·.1)) →
      ∃ roots, spanningForestGo fuel ks cur = .ok roots := by
  intro ks
  induction ks with
  | nil => intro cur _ _; exact ⟨[], rfl⟩
  | cons k ks ih =>
    intro cur good hks
    have hkey : k ∈ cur.map (·.1) := by rw [good.keys]; exact hks k List.mem_cons_self
    obtain ⟨ts, hl⟩ := mapLookup_isSome_of_key hkey
    have hfc := good.functional hf0
    have hV : ∀ s t, Edge cur s t → t ∈ allNodes pm0 := fun s t e =>
      mem_allNodes.mpr (Or.inr (edge_mem_allTargets (good.sub _ _ e)))
    have : ∃ trees, optMap (spanningTree fuel cur k) (ts.filter (fun t => !(t == k))) = some trees := by
      apply optMap_exists
      intro c hc
      obtain ⟨hc1, hc2⟩ := List.mem_filter.mp hc
      have hck : c ≠ k := by simpa using hc2
      have e : Edge cur k c := ⟨ts, mapLookup_mem hl, hc1⟩
      have hr : Reach cur k k c := .step (.refl k) e hck
      apply spanningTree_terminates hfc (allNodes pm0) hV fuel c [k]
      · simp
      · intro a ha
        simp only [List.mem_singleton] at ha
        subst ha
        exact mem_allNodes.mpr (Or.inl (hks a List.mem_cons_self))
      · intro a ha
        simp only [List.mem_singleton] at ha
        subst ha
        exact hr
      · exact hr
      · exact Or.inr ⟨by simpa using hck, hV _ _ e⟩
      · simp only [List.length_singleton]; omega
    obtain ⟨trees, ho⟩ := this
    obtain ⟨rest, hrest⟩ := ih (deleteTargets (Root.startNode k trees).visitedBy cur)
      (good.delete _) (fun k' hk' => hks k' (List.mem_cons_of_mem _ hk'))
    exact ⟨Root.startNode k trees :: rest, by simp [spanningForestGo, hl, ho, hrest]⟩

theorem run_flatMap {V : Type} (f : Root → List AOp) (roots : List Root) (st : (Nat → V) × V) :
    run (roots.flatMap f) st = roots.foldl (fun s r => run (f r) s) st := by
  induction roots generalizing st with
  | nil => rfl
  | cons r rs ih => simp [List.flatMap_cons, run_append, ih]

theorem run_forestCode {V : Type} (csE : Root → Bool) (forest : List Root) (st : (Nat → V) × V) :
    run (forestCode csE forest) st = forest.foldl (fun s r => run (rootMoves csE r) s) st := by
  unfold forestCode
  rw [run_append, run_flatMap]
  split <;> simp [run, step]

theorem Ascending.nodup {l : List Nat} (h : Ascending l) : l.Nodup :=
  List.Pairwise.imp (fun h => Nat.ne_of_lt h) h

theorem Sorted.keysNodup {pm : PMap} (h : Sorted pm) : KeysNodup pm := Ascending.nodup h.1
theorem Sorted.targetsNodup {pm : PMap} (h : Sorted pm) : TargetsNodup pm :=
  fun kv hkv => Ascending.nodup (h.2 kv hkv)

/-- T1 for maps with duplicate-free keys and target lists, explicit fuel. -/
theorem parallelMovesFuel_correct {V : Type} (pm : PMap) (hk : KeysNodup pm) (ht : TargetsNodup pm)
    (hf : Functional pm) (csE : Root → Bool) (fuel : Nat) (hfuel : (allNodes pm).length ≤ fuel) :
    ∃ ops, parallelMovesFuel fuel pm csE = .ok ops ∧ ∀ (σ : Nat → V) (sc : V),
      (∀ s t, Edge pm s t → (run ops (σ, sc)).1 t = σ s) ∧
      (∀ x, (∀ s, ¬ Edge pm s x) → (run ops (σ, sc)).1 x = σ x) := by
  obtain ⟨roots, hroots⟩ := spanningForestGo_ok hf hfuel (pm.map (·.1)) pm (Good.refl ht)
    (fun _ h => h)
  refine ⟨forestCode csE roots, by simp [parallelMovesFuel, spanningForest, hroots], ?_⟩
  intro σ sc
  obtain ⟨cur', inv⟩ := forest_loop (S := (Nat → V) × V) (fun s x => s.1 x) (fun _ => True)
    (fun r s => run (rootMoves csE r) s) pm hk hf (fun _ _ _ => ⟨trivial, trivial⟩) fuel (σ, sc)
    (fun cur k trees st good hroot =>
      rootMoves_spec (hroot.graph (good.keysNodup hk) good.tnd (good.functional hf)) csE st)
    (pm.map (·.1)) pm (σ, sc) roots (Good.refl ht) (Inv.init _ _ pm (σ, sc)) hroots
  rw [run_forestCode]
  have := inv.final
  exact ⟨this.1, fun x hx => this.2 x trivial hx⟩

end Scc.PMoves
