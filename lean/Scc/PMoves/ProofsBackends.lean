/-
  Scc/PMoves/ProofsBackends.lean  --  the per-backend scratch discipline (C11, T2).

  A generic refinement theorem (`backend_correct`): if every abstract instruction emitted for a root is
  simulated by its concrete instantiation (relation `Sim`: observable locations agree, the abstract
  scratch cell is the backend's scratch location selected by the root's `contains_spill_move` flag), then
  the concrete code of `parallel_moves` realises the simultaneous assignment.  Then the three instances.
-/
import Scc.PMoves.Proofs
import Scc.PMoves.Backends

set_option autoImplicit false

namespace Scc.PMoves

/-! ## which abstract instructions the generic part emits for a root -/

mutual
theorem treeMoves_ops (csm : Bool) : ∀ (T : Tree) (p : Nat) (op : AOp), op ∈ treeMoves p T csm →
    (∃ a b, op = .mov b a ∧ (a, b) ∈ T.edges p) ∨ (∃ b, op = .save b csm ∧ b ∈ T.backSrcs p)
  | .backEdge, p, op, h => by
    simp only [treeMoves, List.mem_singleton] at h
    exact Or.inr ⟨p, h, by simp [Tree.backSrcs]⟩
  | .node t kids, p, op, h => by
    simp only [treeMoves, List.mem_append, List.mem_singleton] at h
    rcases h with h | h
    · rcases forestMoves_ops csm kids t op h with ⟨a, b, h1, h2⟩ | ⟨b, h1, h2⟩
      · exact Or.inl ⟨a, b, h1, by simp [Tree.edges, h2]⟩
      · exact Or.inr ⟨b, h1, by simpa [Tree.backSrcs] using h2⟩
    · exact Or.inl ⟨p, t, h, by simp [Tree.edges]⟩
theorem forestMoves_ops (csm : Bool) : ∀ (ks : List Tree) (p : Nat) (op : AOp),
    op ∈ forestMoves p ks csm →
    (∃ a b, op = .mov b a ∧ (a, b) ∈ edgesList p ks) ∨ (∃ b, op = .save b csm ∧ b ∈ backSrcsList p ks)
  | [], _, op, h => by simp [forestMoves] at h
  | k :: ks, p, op, h => by
    simp only [forestMoves, List.mem_append] at h
    rcases h with h | h
    · rcases treeMoves_ops csm k p op h with ⟨a, b, h1, h2⟩ | ⟨b, h1, h2⟩
      · exact Or.inl ⟨a, b, h1, by simp [edgesList, h2]⟩
      · exact Or.inr ⟨b, h1, by simp [backSrcsList, h2]⟩
    · rcases forestMoves_ops csm ks p op h with ⟨a, b, h1, h2⟩ | ⟨b, h1, h2⟩
      · exact Or.inl ⟨a, b, h1, by simp [edgesList, h2]⟩
      · exact Or.inr ⟨b, h1, by simp [backSrcsList, h2]⟩
end

/-- An abstract instruction the backend can execute faithfully under flag `f`: its temporaries are
    observable (not scratch), its flag is the root's flag, and a `mov` between a `bad` pair (one that
    clobbers the `f = false` scratch location) occurs only when `f = true`. -/
def OpOk (ok : Nat → Prop) (bad : Nat → Nat → Prop) (f : Bool) : AOp → Prop
  | .mov t s => ok t ∧ ok s ∧ (f = false → ¬ bad s t)
  | .save s b => ok s ∧ b = f
  | .restore t b => ok t ∧ b = f
  | .comment _ => True

/-- simulation relation between the abstract machine and a concrete machine state -/
def Sim {S V : Type} (rd : S → Nat → V) (ok : Nat → Prop) (cell : Bool → S → V) (f : Bool)
    (a : (Nat → V) × V) (m : S) : Prop :=
  (∀ x, ok x → a.1 x = rd m x) ∧ a.2 = cell f m

theorem runWith_append {C S : Type} (exec : C → S → S) (a b : List C) (m : S) :
    runWith exec (a ++ b) m = runWith exec b (runWith exec a m) := by
  induction a generalizing m with
  | nil => rfl
  | cons c cs ih => simp [runWith, ih]

theorem runWith_flatMap_roots {C S : Type} (exec : C → S → S) (f : Root → List C) (roots : List Root)
    (m : S) :
    runWith exec (roots.flatMap f) m = roots.foldl (fun s r => runWith exec (f r) s) m := by
  induction roots generalizing m with
  | nil => rfl
  | cons r rs ih => simp [List.flatMap_cons, runWith_append, ih]

section generic
variable {S V C : Type} (rd : S → Nat → V) (ok : Nat → Prop) (cell : Bool → S → V)
  (bad : Nat → Nat → Prop) (lower : AOp → List C) (exec : C → S → S)

theorem sim_run (f : Bool)
    (hsim : ∀ op a m, OpOk ok bad f op → Sim rd ok cell f a m →
      Sim rd ok cell f (step op a) (runWith exec (lower op) m)) :
    ∀ (ops : List AOp) (a : (Nat → V) × V) (m : S), (∀ op ∈ ops, OpOk ok bad f op) →
      Sim rd ok cell f a m → Sim rd ok cell f (run ops a) (runWith exec (ops.flatMap lower) m) := by
  intro ops
  induction ops with
  | nil => intro a m _ h; exact h
  | cons op ops ih =>
    intro a m hops h
    simp only [run, List.flatMap_cons, runWith_append]
    exact ih _ _ (fun o ho => hops o (List.mem_cons_of_mem _ ho))
      (hsim op a m (hops op List.mem_cons_self) h)

/-- the instructions of a root are all executable faithfully -/
theorem rootMoves_opOk {pm : PMap} {k : Nat} {trees : List Tree} (g : RootGraph pm k trees)
    (csE : Root → Bool) (hok : ∀ s t, Edge pm s t → ok s ∧ ok t)
    (hbad : csE (.startNode k trees) = false → ∀ a b, (a, b) ∈ edgesList k trees → ¬ bad a b) :
    ∀ op ∈ rootMoves csE (.startNode k trees), OpOk ok bad (csE (.startNode k trees)) op := by
  intro op hop
  simp only [rootMoves, List.mem_append] at hop
  rcases hop with hop | hop
  · rcases forestMoves_ops _ trees k op hop with ⟨a, b, rfl, hab⟩ | ⟨b, rfl, hb⟩
    · have e := g.edges a b hab
      exact ⟨(hok a b e).2, (hok a b e).1, fun hf => hbad hf a b hab⟩
    · exact ⟨(hok b k (g.back b hb)).1, rfl⟩
  · cases hb : anyRefersBack trees with
    | false => simp [hb] at hop
    | true =>
      simp only [hb, if_true, List.mem_singleton] at hop
      subst hop
      -- the root is the target of the back edge
      have sp := forestMoves_spec (V := Nat) true trees k (fun _ => 0) 0 g.nodup g.root_not_node
      obtain ⟨b, hbm, _⟩ := sp.saved hb
      exact ⟨(hok b k (g.back b hbm)).2, rfl⟩

/-- one root, concrete machine -/
theorem backend_rootSpec {pm : PMap} {k : Nat} {trees : List Tree} (g : RootGraph pm k trees)
    (csE : Root → Bool) (hok : ∀ s t, Edge pm s t → ok s ∧ ok t)
    (hbad : csE (.startNode k trees) = false → ∀ a b, (a, b) ∈ edgesList k trees → ¬ bad a b)
    (hsim : ∀ f op a m, OpOk ok bad f op → Sim rd ok cell f a m →
      Sim rd ok cell f (step op a) (runWith exec (lower op) m))
    (m : S) :
    RootSpec rd ok pm (.startNode k trees) m
      (runWith exec ((rootMoves csE (.startNode k trees)).flatMap lower) m) := by
  let f := csE (.startNode k trees)
  let a0 : (Nat → V) × V := (fun x => rd m x, cell f m)
  have h0 : Sim rd ok cell f a0 m := ⟨fun _ _ => rfl, rfl⟩
  have hs := sim_run rd ok cell bad lower exec f (hsim f) _ a0 m
    (rootMoves_opOk ok bad g csE hok hbad) h0
  have sp := rootMoves_spec g csE a0
  constructor
  · intro x hx hw
    rw [← hs.1 x hx]
    exact sp.frame x trivial hw
  · intro x hw
    obtain ⟨a, ea, h⟩ := sp.moved x hw
    exact ⟨a, ea, by rw [← hs.1 x (hok a x ea).2]; exact h⟩

/-- Generic T2: the concrete code realises the simultaneous assignment on all observable locations. -/
theorem backend_correct (csE : Root → Bool)
    (hbad : ∀ k trees, csE (.startNode k trees) = false → ∀ a b, (a, b) ∈ edgesList k trees → ¬ bad a b)
    (hsim : ∀ f op a m, OpOk ok bad f op → Sim rd ok cell f a m →
      Sim rd ok cell f (step op a) (runWith exec (lower op) m))
    (hcomment : ∀ msg m, runWith exec (lower (.comment msg)) m = m)
    (pm : PMap) (hk : KeysNodup pm) (ht : TargetsNodup pm) (hf : Functional pm)
    (hok' : ∀ s t, Edge pm s t → ok s ∧ ok t) :
    ∃ ops, parallelMoves pm csE = .ok ops ∧ ∀ m : S,
      (∀ s t, Edge pm s t → rd (runWith exec (ops.flatMap lower) m) t = rd m s) ∧
      (∀ x, ok x → (∀ s, ¬ Edge pm s x) → rd (runWith exec (ops.flatMap lower) m) x = rd m x) := by
  have hfuel : (allNodes pm).length ≤ fuelFor pm := by unfold fuelFor; omega
  obtain ⟨roots, hroots⟩ := spanningForestGo_ok hf hfuel (pm.map (·.1)) pm (Good.refl ht)
    (fun _ h => h)
  refine ⟨forestCode csE roots, by simp [parallelMoves, parallelMovesFuel, spanningForest, hroots], ?_⟩
  intro m
  obtain ⟨cur', inv⟩ := forest_loop rd ok
    (fun r s => runWith exec ((rootMoves csE r).flatMap lower) s) pm hk hf hok' (fuelFor pm) m
    (fun cur k trees st good hroot =>
      backend_rootSpec rd ok cell bad lower exec
        (hroot.graph (good.keysNodup hk) good.tnd (good.functional hf)) csE
        (fun s t e => hok' s t (good.sub s t e)) (hbad k trees) hsim st)
    (pm.map (·.1)) pm m roots (Good.refl ht) (Inv.init _ _ pm m) hroots
  have hrun : runWith exec ((forestCode csE roots).flatMap lower) m =
      roots.foldl (fun s r => runWith exec ((rootMoves csE r).flatMap lower) s) m := by
    unfold forestCode
    rw [List.flatMap_append, runWith_append, List.flatMap_assoc, runWith_flatMap_roots]
    split
    · simp [hcomment]
    · simp [runWith]
  rw [hrun]
  exact inv.final

end generic

/-- "all temporaries of the map are observable" implies the edge-wise form used above -/
theorem edge_ok_of_allNodes {ok : Nat → Prop} {pm : PMap} (hok : ∀ x ∈ allNodes pm, ok x) :
    ∀ s t, Edge pm s t → ok s ∧ ok t := by
  intro s t e
  refine ⟨hok s (mem_allNodes.mpr (Or.inl ?_)), hok t (mem_allNodes.mpr (Or.inr (edge_mem_allTargets e)))⟩
  obtain ⟨ts, hm, _⟩ := e
  exact List.mem_map.mpr ⟨(s, ts), hm, rfl⟩

end Scc.PMoves
