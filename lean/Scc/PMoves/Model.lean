/-
  Scc/PMoves/Model.lean  --  executable model of the parallel-move algorithm (property C11).

  What is modelled, from which source files
  -----------------------------------------
  * /repo/lang/axcut2backend/src/parallel_moves.rs  (GENERIC part)
      Tree, Root, Tree::nodes, Tree::refers_back, Root::visited_by, delete_targets,
      spanning_tree, spanning_forest, tree_moves, root_moves, parallel_moves.
  * /repo/lang/axcut2backend/src/substitution.rs
      transpose, code_exchange::connections, code_weakening_contraction.
  * /repo/lang/axcut2backend/src/statements/substitute.rs (the order: refcount ops, then moves).

  Representation choices
  ----------------------
  * `Temporary` (Rust: any `Ord + Hash + Copy` type) is `Nat`; the per-backend meaning of the numbers
    is in `Scc/PMoves/Backends.lean`.
  * `BTreeMap<Temporary, BTreeSet<Temporary>>` is `PMap = List (Nat × List Nat)` with strictly
    ascending keys and strictly ascending target lists (`Sorted`); `normalize` builds such a map from
    arbitrary edges the way `BTreeMap`/`BTreeSet` insertion does.  Iteration over a `BTreeMap` /
    `BTreeSet` is iteration over the list.
  * `HashSet`s are used for membership only: lists + `contains`.
  * `spanning_tree` has no syntactic termination argument in Rust (on an ill-formed move graph, e.g.
    `1 ↦ {2}, 2 ↦ {2,3}` it recurses forever / overflows the stack).  The model takes `fuel` and returns
    `none` when the fuel is exhausted; `Scc/PMoves/Proofs.lean` proves that
    `fuelFor pm = (number of distinct nodes) + 1` suffices for every functional move graph.
  * `parallel_moves[temporary]` in `spanning_forest` panics on a missing key; the model has the explicit
    outcome `Res.missingKey` (proved unreachable).
  * Placement of variables: position `i` of a context owns the position numbers `2i` (`Fst`) and `2i+1`
    (`Snd`); the backend's `temporary_from_position` (a parameter `tfp : Nat → Option Nat` of
    `variableTemporary`, `connections`, `codeWeakeningContraction`, `codeSubstitute`) turns a position
    number into a temporary.  `genericTemporary = some` is the identity placement used by the generic
    theorems and by the `subst` request; the real ones are in Backends.lean.
  * The generic part emits abstract instructions `AOp`; `save`/`restore` stand for
    `Backend::store_temporary` / `Backend::restore_temporary`, their `Bool` is `contains_spill_move`.
  * `transpose`: the Rust `BTreeMap<ContextBinding, Vec<ID>>` is iterated in the derived order of
    `ContextBinding` (var.name, var.id, chi, ty).  The model has no names and produces the entries in
    CONTEXT order.  DEVIATION (documented, harmless for the moves): the iteration order only affects
    (a) the order of the `erase`/`share` groups emitted by `code_weakening_contraction` and (b) the
    order of insertions into the temporaries map built by `connections`, which is a `BTreeMap` keyed by
    temporary and therefore insensitive to insertion order as long as keys are distinct.  A context
    with two syntactically equal bindings would be collapsed by the Rust map; the model keeps both.

  Line protocol (`handleLine`), used by the differential test driver
  ------------------------------------------------------------------
    request  `pm <src>:<t1>,<t2>,...;<src>:<t>,...;...`   (decimal naturals; a source may have an empty
             target list `7:`; the edges are inserted with `normalize`; `containsSpillEdge := fun _ => false`)
    answer   the emitted ops separated by `|`, each one of
               `mov <t> <s>` | `save <s> <0|1>` | `restore <t> <0|1>` | `comment <msg>`
             (an empty answer means no instruction), or `outOfFuel` / `missingKey`.
    request  `subst <ctx> -> <rearrange>`
             <ctx>       = comma separated `<id>:<k>` with k ∈ {p,c,e} (prd, cns, ext), may be empty
             <rearrange> = comma separated `<newid>:<k>=<oldid>`, may be empty
    answer   refcount ops then move ops, `|`-separated; refcount ops are
               `comment #erase <id>` `erase <tFst>` | `comment #share <id>` `share <tFst> <n>`
             (the Rust comment text contains the printed variable `name_id`; the model has ids only),
             or `panic` if a variable is not found in its context, or `outOfFuel` (e.g. a new variable
             bound twice: the Rust code overflows its stack there).
             Temporaries are abstract position numbers (`genericTemporary`).
    anything else -> `error`.
-/

set_option autoImplicit false

namespace Scc.PMoves

/-! ## Ordered maps and sets as sorted association lists -/

/-- `BTreeMap<Temporary, BTreeSet<Temporary>>`. -/
abbrev PMap := List (Nat × List Nat)

/-- `BTreeSet::insert` on an ascending duplicate-free list. -/
def setInsert (x : Nat) : List Nat → List Nat
  | [] => [x]
  | y :: ys => if x < y then x :: y :: ys else if x == y then y :: ys else y :: setInsert x ys

/-- `iter.collect::<BTreeSet<_>>()`. -/
def setOfList (l : List Nat) : List Nat := l.foldl (fun acc x => setInsert x acc) []

/-- `BTreeMap::get`. -/
def mapLookup : PMap → Nat → Option (List Nat)
  | [], _ => none
  | (k, v) :: rest, key => if k == key then some v else mapLookup rest key

/-- `BTreeMap::insert` (replaces the value of an existing key). -/
def mapInsert (key : Nat) (val : List Nat) : PMap → PMap
  | [] => [(key, val)]
  | (k, v) :: rest =>
    if key < k then (key, val) :: (k, v) :: rest
    else if key == k then (key, val) :: rest
    else (k, v) :: mapInsert key val rest

/-- Builds the map from arbitrary `(source, target)` edges: `map.entry(s).or_default().insert(t)`. -/
def normalize (edges : List (Nat × Nat)) : PMap :=
  edges.foldl (fun m e => mapInsert e.1 (setInsert e.2 ((mapLookup m e.1).getD [])) m) []

/-- Strictly ascending. -/
def Ascending (l : List Nat) : Prop := l.Pairwise (· < ·)

/-- The representation invariant of a `BTreeMap<_, BTreeSet<_>>`. -/
def Sorted (pm : PMap) : Prop :=
  Ascending (pm.map (·.1)) ∧ ∀ kv ∈ pm, Ascending kv.2

/-- `s ↦ {…, t, …}` is an entry of the map. -/
def Edge (pm : PMap) (s t : Nat) : Prop := ∃ ts, (s, ts) ∈ pm ∧ t ∈ ts

/-- Every temporary is a target of at most one source (the documented precondition of
    `parallel_moves`: "the `BTreeSet`s in `assignments` are pairwise disjoint"). -/
def Functional (pm : PMap) : Prop := ∀ s s' t, Edge pm s t → Edge pm s' t → s = s'

/-- executable `Ascending` -/
def isAscending : List Nat → Bool
  | [] => true
  | [_] => true
  | x :: y :: rest => x < y && isAscending (y :: rest)

/-- executable `Sorted` -/
def isSorted (pm : PMap) : Bool :=
  isAscending (pm.map (·.1)) && pm.all (fun kv => isAscending kv.2)

/-- all targets, with multiplicity -/
def allTargets (pm : PMap) : List Nat := pm.flatMap (·.2)

def hasDup : List Nat → Bool
  | [] => false
  | x :: xs => xs.contains x || hasDup xs

/-- executable `Functional` (for maps with duplicate-free keys and target lists) -/
def isFunctional (pm : PMap) : Bool := !hasDup (allTargets pm)

/-- The distinct temporaries occurring in the map (keys and targets). -/
def allNodes (pm : PMap) : List Nat := (pm.map (·.1) ++ allTargets pm).eraseDups

/-- Recursion depth that is enough for `spanningTree` on functional maps. -/
def fuelFor (pm : PMap) : Nat := (allNodes pm).length + 1

/-! ## parallel_moves.rs: trees -/

/-- parallel_moves.rs: enum Tree -/
inductive Tree where
  | backEdge
  | node (t : Nat) (kids : List Tree)
  deriving Repr, Inhabited

/-- parallel_moves.rs: enum Root -/
inductive Root where
  | startNode (t : Nat) (trees : List Tree)
  deriving Repr, Inhabited

mutual
/-- parallel_moves.rs: fn Tree::nodes -/
def Tree.nodes : Tree → List Nat
  | .backEdge => []
  | .node t kids => t :: nodesList kids
/-- the `for tree in trees { visited.extend(tree.nodes()) }` loop -/
def nodesList : List Tree → List Nat
  | [] => []
  | k :: ks => k.nodes ++ nodesList ks
end

mutual
/-- parallel_moves.rs: fn Tree::refers_back -/
def Tree.refersBack : Tree → Bool
  | .backEdge => true
  | .node _ kids => anyRefersBack kids
/-- `trees.iter().any(Tree::refers_back)` -/
def anyRefersBack : List Tree → Bool
  | [] => false
  | k :: ks => k.refersBack || anyRefersBack ks
end

/-- parallel_moves.rs: fn Root::visited_by -/
def Root.visitedBy : Root → List Nat
  | .startNode t trees => (if anyRefersBack trees then [t] else []) ++ nodesList trees

/-- parallel_moves.rs: fn delete_targets -/
def deleteTargets (toDelete : List Nat) (pm : PMap) : PMap :=
  pm.map (fun kv => (kv.1, kv.2.filter (fun t => !toDelete.contains t)))

/-- `iter.map(f).collect()` where `f` may run out of fuel -/
def optMap {α β : Type} (f : α → Option β) : List α → Option (List β)
  | [] => some []
  | x :: xs =>
    match f x with
    | none => none
    | some y =>
      match optMap f xs with
      | none => none
      | some ys => some (y :: ys)

/-- parallel_moves.rs: fn spanning_tree   (`none` = out of fuel) -/
def spanningTree (fuel : Nat) (pm : PMap) (root node : Nat) : Option Tree :=
  match fuel with
  | 0 => none
  | fuel + 1 =>
    if root == node then some .backEdge
    else
      match mapLookup pm node with
      | some targets =>
        match optMap (spanningTree fuel pm root) targets with
        | none => none
        | some kids => some (.node node kids)
      | none => some (.node node [])

/-- Outcome of the forest construction. -/
inductive Res (α : Type) where
  | ok (a : α)
  | outOfFuel
  | missingKey
  deriving Repr

/-- parallel_moves.rs: fn spanning_forest, the `for temporary in mappings.keys()` loop.
    `keys` are the remaining keys of the ORIGINAL map, `pm` is the mutated `parallel_moves`. -/
def spanningForestGo (fuel : Nat) : List Nat → PMap → Res (List Root)
  | [], _ => .ok []
  | temporary :: keys, pm =>
    match mapLookup pm temporary with
    | none => .missingKey
    | some ts =>
      -- let mut targets = parallel_moves[temporary].clone(); targets.remove(temporary);
      let targets := ts.filter (fun t => !(t == temporary))
      match optMap (spanningTree fuel pm temporary) targets with
      | none => .outOfFuel
      | some trees =>
        let root := Root.startNode temporary trees
        let pm' := deleteTargets root.visitedBy pm
        match spanningForestGo fuel keys pm' with
        | .ok roots => .ok (root :: roots)
        | .outOfFuel => .outOfFuel
        | .missingKey => .missingKey

/-- parallel_moves.rs: fn spanning_forest -/
def spanningForest (fuel : Nat) (pm : PMap) : Res (List Root) :=
  spanningForestGo fuel (pm.map (·.1)) pm

/-! ## parallel_moves.rs: emitted instructions -/

/-- Abstract instructions emitted by the generic part. -/
inductive AOp where
  | mov (t s : Nat)
  | save (s : Nat) (spill : Bool)
  | restore (t : Nat) (spill : Bool)
  | comment (msg : String)
  deriving Repr, DecidableEq, Inhabited

mutual
/-- parallel_moves.rs: fn tree_moves -/
def treeMoves (temporary : Nat) : Tree → Bool → List AOp
  | .backEdge, csm => [.save temporary csm]
  | .node target kids, csm => forestMoves target kids csm ++ [.mov target temporary]
/-- the `for tree in trees { tree_moves(parent, tree, ..) }` loop -/
def forestMoves (parent : Nat) : List Tree → Bool → List AOp
  | [], _ => []
  | k :: ks, csm => treeMoves parent k csm ++ forestMoves parent ks csm
end

/-- parallel_moves.rs: fn root_moves -/
def rootMoves (containsSpillEdge : Root → Bool) (root : Root) : List AOp :=
  let csm := containsSpillEdge root
  match root with
  | .startNode temporary trees =>
    forestMoves temporary trees csm ++
      (if anyRefersBack trees then [.restore temporary csm] else [])

def Root.trees : Root → List Tree
  | .startNode _ trees => trees

def Root.temp : Root → Nat
  | .startNode t _ => t

/-- parallel_moves.rs: fn parallel_moves, after the forest has been computed -/
def forestCode (containsSpillEdge : Root → Bool) (forest : List Root) : List AOp :=
  (if !forest.all (fun r => r.trees.isEmpty) then [AOp.comment "#move variables"] else []) ++
    forest.flatMap (rootMoves containsSpillEdge)

/-- parallel_moves.rs: fn parallel_moves, with explicit fuel -/
def parallelMovesFuel (fuel : Nat) (pm : PMap) (containsSpillEdge : Root → Bool) : Res (List AOp) :=
  match spanningForest fuel pm with
  | .ok forest => .ok (forestCode containsSpillEdge forest)
  | .outOfFuel => .outOfFuel
  | .missingKey => .missingKey

/-- parallel_moves.rs: fn parallel_moves -/
def parallelMoves (pm : PMap) (containsSpillEdge : Root → Bool) : Res (List AOp) :=
  parallelMovesFuel (fuelFor pm) pm containsSpillEdge

/-! ## Abstract semantics: a store `Nat → V` and one scratch cell -/

/-- store update -/
def upd {V : Type} (σ : Nat → V) (t : Nat) (v : V) : Nat → V :=
  fun x => if x = t then v else σ x

def step {V : Type} : AOp → (Nat → V) × V → (Nat → V) × V
  | .mov t s, (σ, sc) => (upd σ t (σ s), sc)
  | .save s _, (σ, _) => (σ, σ s)
  | .restore t _, (σ, sc) => (upd σ t sc, sc)
  | .comment _, st => st

def run {V : Type} : List AOp → (Nat → V) × V → (Nat → V) × V
  | [], st => st
  | op :: ops, st => run ops (step op st)

/-! ## substitution.rs -/

/-- axcut Chirality -/
inductive Chi where
  | prd | cns | ext
  deriving Repr, DecidableEq, Inhabited

/-- A typing context: bindings `(id, chi)`; position `i` owns temporaries `2i` and `2i+1`. -/
abbrev Ctx := List (Nat × Chi)

/-- `self.rearrange`: `((new id, new chi), old id)` -/
abbrev Rearrange := List ((Nat × Chi) × Nat)

/-- substitution.rs: fn transpose   (entries in context order, see the header) -/
def transpose (rearrange : Rearrange) (context : Ctx) : List ((Nat × Chi) × List Nat) :=
  context.map (fun binding =>
    (binding, (rearrange.filter (fun no => binding.1 == no.2)).map (fun no => no.1.1)))

/-- statements/substitute.rs: `new_context` -/
def newContext (rearrange : Rearrange) : Ctx := rearrange.map (·.1)

/-- `context.bindings.iter().position(|b| b.var.id == id)`; `none` is the panic -/
def getPosition : Ctx → Nat → Option Nat
  | [], _ => none
  | b :: rest, id => if b.1 == id then some 0 else (getPosition rest id).map (· + 1)

/-- utils.rs (all backends): fn variable_temporary.  `num` = 0 for `Fst`, 1 for `Snd`.
    `tfp` is the backend's `temporary_from_position` (position number ↦ temporary; `none` is the panic
    "Out of temporaries"); the generic theorems use `genericTemporary = some`, i.e. the temporary of
    `(position, num)` is the abstract number `2 * position + num`.
    `none` is also the panic "Variable not found in context". -/
def variableTemporary (tfp : Nat → Option Nat) (num : Nat) (context : Ctx) (id : Nat) : Option Nat :=
  match getPosition context id with
  | none => none
  | some p => tfp (2 * p + num)

/-- the identity placement: position `q` is temporary `q` -/
def genericTemporary : Nat → Option Nat := some

/-- substitution.rs: fn code_exchange::connections   (`none` = panic in `variable_temporary`) -/
def connections (tfp : Nat → Option Nat) (targetMap : List ((Nat × Chi) × List Nat))
    (context newContext : Ctx) : Option PMap :=
  let rec go : List ((Nat × Chi) × List Nat) → PMap → Option PMap
    | [], acc => some acc
    | (binding, targets) :: rest, acc =>
      if binding.2 == Chi.ext then
        match variableTemporary tfp 1 context binding.1,
              optMap (variableTemporary tfp 1 newContext) targets with
        | some s, some ts => go rest (mapInsert s (setOfList ts) acc)
        | _, _ => none
      else
        match variableTemporary tfp 0 context binding.1,
              optMap (variableTemporary tfp 0 newContext) targets,
              variableTemporary tfp 1 context binding.1,
              optMap (variableTemporary tfp 1 newContext) targets with
        | some s0, some ts0, some s1, some ts1 =>
          go rest (mapInsert s1 (setOfList ts1) (mapInsert s0 (setOfList ts0) acc))
        | _, _, _, _ => none
  go targetMap []

/-- Abstract reference-count instructions (stand for `Backend::erase_block` /
    `Backend::share_block_n` applied to the `Fst` temporary of an old binding). -/
inductive ROp where
  | erase (tFst : Nat)
  | share (tFst : Nat) (n : Nat)
  | comment (kind : Nat) (id : Nat)   -- kind 0: "#erase <var>", kind 1: "#share <var>"
  deriving Repr, DecidableEq, Inhabited

/-- substitution.rs: fn code_weakening_contraction::update_reference_count -/
def updateReferenceCount (tfp : Nat → Option Nat) (id : Nat) (context : Ctx) (newCount : Nat) :
    Option (List ROp) :=
  match variableTemporary tfp 0 context id with
  | none => none
  | some temporary =>
    match newCount with
    | 0 => some [.comment 0 id, .erase temporary]
    | 1 => some []
    | n + 2 => some [.comment 1 id, .share temporary (n + 1)]

/-- substitution.rs: fn code_weakening_contraction -/
def codeWeakeningContraction (tfp : Nat → Option Nat) (targetMap : List ((Nat × Chi) × List Nat))
    (context : Ctx) : Option (List ROp)
  := match targetMap with
  | [] => some []
  | (binding, targets) :: rest =>
    if binding.2 != Chi.ext then
      match updateReferenceCount tfp binding.1 context targets.length with
      | none => none
      | some ops =>
        match codeWeakeningContraction tfp rest context with
        | none => none
        | some more => some (ops ++ more)
    else codeWeakeningContraction tfp rest context

/-- Outcome of a whole `Substitute` statement (without the continuation). -/
inductive SubstRes where
  | ok (refcount : List ROp) (moves : List AOp)
  | panic
  | outOfFuel
  | missingKey
  deriving Repr

/-- statements/substitute.rs: fn code_statement for Substitute, up to `self.next` -/
def codeSubstitute (tfp : Nat → Option Nat) (rearrange : Rearrange) (context : Ctx)
    (containsSpillEdge : Root → Bool) : SubstRes :=
  let targetMap := transpose rearrange context
  let newCtx := newContext rearrange
  match codeWeakeningContraction tfp targetMap context with
  | none => .panic
  | some rc =>
    match connections tfp targetMap context newCtx with
    | none => .panic
    | some pm =>
      match parallelMoves pm containsSpillEdge with
      | .ok moves => .ok rc moves
      | .outOfFuel => .outOfFuel
      | .missingKey => .missingKey

/-! ## Line protocol -/

def AOp.render : AOp → String
  | .mov t s => s!"mov {t} {s}"
  | .save s b => s!"save {s} {if b then 1 else 0}"
  | .restore t b => s!"restore {t} {if b then 1 else 0}"
  | .comment m => s!"comment {m}"

def ROp.render : ROp → String
  | .erase t => s!"erase {t}"
  | .share t n => s!"share {t} {n}"
  | .comment 0 id => s!"comment #erase {id}"
  | .comment _ id => s!"comment #share {id}"

def parseNatList (s : String) : Option (List Nat) :=
  if s.isEmpty then some [] else optMap String.toNat? (s.splitOn ",")

/-- `<src>:<t1>,<t2>` -/
def parseEntry (s : String) : Option (Nat × List Nat) :=
  match s.splitOn ":" with
  | [a, b] =>
    match a.toNat?, parseNatList b with
    | some src, some ts => some (src, ts)
    | _, _ => none
  | _ => none

/-- Insert the entries the way the Rust test driver builds its `BTreeMap`:
    `map.entry(src).or_default()` then one `insert` per target. -/
def pmapOfEntries (es : List (Nat × List Nat)) : PMap :=
  es.foldl (fun m e =>
    mapInsert e.1 (e.2.foldl (fun acc t => setInsert t acc) ((mapLookup m e.1).getD [])) m) []

def parsePMap (s : String) : Option PMap :=
  if s.isEmpty then some [] else
  match optMap parseEntry (s.splitOn ";") with
  | none => none
  | some es => some (pmapOfEntries es)

def parseChi (s : String) : Option Chi :=
  if s == "p" then some .prd else if s == "c" then some .cns else if s == "e" then some .ext else none

/-- `<id>:<k>` -/
def parseBinding (s : String) : Option (Nat × Chi) :=
  match s.splitOn ":" with
  | [a, b] =>
    match a.toNat?, parseChi b with
    | some id, some k => some (id, k)
    | _, _ => none
  | _ => none

/-- `<newid>:<k>=<oldid>` -/
def parseRearrangeEntry (s : String) : Option ((Nat × Chi) × Nat) :=
  match s.splitOn "=" with
  | [a, b] =>
    match parseBinding a, b.toNat? with
    | some nb, some old => some (nb, old)
    | _, _ => none
  | _ => none

def parseCommaList {α : Type} (f : String → Option α) (s : String) : Option (List α) :=
  if s.isEmpty then some [] else optMap f (s.splitOn ",")

def renderRes (r : Res (List AOp)) : String :=
  match r with
  | .ok ops => "|".intercalate (ops.map AOp.render)
  | .outOfFuel => "outOfFuel"
  | .missingKey => "missingKey"

def handlePm (arg : String) : String :=
  match parsePMap arg with
  | none => "error"
  | some pm => renderRes (parallelMoves pm (fun _ => false))

/-- `<ctx> -> <rearrange>` -/
def parseSubst (arg : String) : Option (Ctx × Rearrange) :=
  match arg.splitOn "->" with
  | [c, r] =>
    match parseCommaList parseBinding c.trimAscii.toString,
          parseCommaList parseRearrangeEntry r.trimAscii.toString with
    | some ctx, some re => some (ctx, re)
    | _, _ => none
  | _ => none

def handleSubst (arg : String) : String :=
  match parseSubst arg with
  | some (ctx, re) =>
    match codeSubstitute genericTemporary re ctx (fun _ => false) with
    | .ok rc mv => "|".intercalate (rc.map ROp.render ++ mv.map AOp.render)
    | .panic => "panic"
    | .outOfFuel => "outOfFuel"
    | .missingKey => "missingKey"
  | none => "error"

/-- split a request into its command word and the rest -/
def splitCommand (line : String) : String × String :=
  match line.trimAscii.toString.splitOn " " with
  | [] => ("", "")
  | cmd :: rest => (cmd, (" ".intercalate rest).trimAscii.toString)

/-- The pure request handler of the line protocol described in the file header. -/
def handleLine (line : String) : String :=
  let (cmd, arg) := splitCommand line
  if cmd == "pm" then handlePm arg
  else if cmd == "subst" then handleSubst arg
  else "error"

end Scc.PMoves
