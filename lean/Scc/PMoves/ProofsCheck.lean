/-
  Scc/PMoves/ProofsCheck.lean  --  the executable checkers `checkSubstX86/A64/RV64` of Backends.lean always
  answer `true` (a corollary of the T2 theorems; it ties the checkers that the test driver runs to the
  theorems).
-/
import Scc.PMoves.ProofsSubst
import Scc.PMoves.ProofsX86
import Scc.PMoves.ProofsA64RV

set_option autoImplicit false

namespace Scc.PMoves

theorem sourceOf_some {pm : PMap} {x s : Nat} (h : sourceOf pm x = some s) : Edge pm s x := by
  unfold sourceOf at h
  cases hf : pm.find? (fun kv => kv.2.contains x) with
  | none => simp only [hf] at h; exact absurd h (by simp)
  | some kv =>
    simp only [hf, Option.some.injEq] at h
    subst h
    have hm := List.mem_of_find?_eq_some hf
    have hp := List.find?_some hf
    exact ⟨kv.2, hm, by simpa using hp⟩

theorem sourceOf_none {pm : PMap} {x : Nat} (h : sourceOf pm x = none) : ∀ s, ¬ Edge pm s x := by
  unfold sourceOf at h
  cases hf : pm.find? (fun kv => kv.2.contains x) with
  | some kv => simp only [hf] at h; exact absurd h (by simp)
  | none =>
    rintro s ⟨ts, hm, ht⟩
    have := List.find?_eq_none.mp hf (s, ts) hm
    simp [ht] at this

theorem checkFinal_true (decode : Nat → Loc) (usable : Nat → Bool) (pm : PMap) (bound : Nat)
    (init final : MState Nat)
    (h1 : ∀ s t, Edge pm s t → final.rd (decode t) = init.rd (decode s))
    (h2 : ∀ x, usable x = true → (∀ s, ¬ Edge pm s x) → final.rd (decode x) = init.rd (decode x)) :
    checkFinal decode usable pm bound init final = true := by
  unfold checkFinal
  rw [List.all_eq_true]
  intro x _
  cases hu : usable x with
  | false => simp
  | true =>
    cases hs : sourceOf pm x with
    | some s => simp [h1 s x (sourceOf_some hs)]
    | none => simp [h2 x hu (sourceOf_none hs)]

theorem hyps_of_checks {usable : Nat → Bool} {pm : PMap}
    (h : (isSorted pm && isFunctional pm && allUsable usable pm) = true) :
    Sorted pm ∧ Functional pm ∧ ∀ x ∈ allNodes pm, usable x = true := by
  simp only [Bool.and_eq_true] at h
  refine ⟨sorted_of_isSorted h.1.1, functional_of_isFunctional h.1.2, ?_⟩
  simpa [allUsable, List.all_eq_true] using h.2

theorem checkSubstX86_true (pm : PMap) : checkSubstX86 pm = true := by
  unfold checkSubstX86
  split
  · rfl
  · rename_i h
    simp only [Bool.not_eq_true, Bool.not_eq_false'] at h
    obtain ⟨hs, hf, hu⟩ := hyps_of_checks (by simpa using h)
    obtain ⟨code, hc, hfin⟩ := X86.parallelMoves_correct_codes (V := Nat) pm hs hf (edge_ok_of_allNodes hu)
    simp only [hc]
    obtain ⟨h1, h2⟩ := hfin (initState X86.REGISTER_NUM)
    exact checkFinal_true _ _ _ _ _ _ h1 h2

theorem checkSubstA64_true (pm : PMap) : checkSubstA64 pm = true := by
  unfold checkSubstA64
  split
  · rfl
  · rename_i h
    simp only [Bool.not_eq_true, Bool.not_eq_false'] at h
    obtain ⟨hs, hf, hu⟩ := hyps_of_checks (by simpa using h)
    obtain ⟨code, hc, hfin⟩ := A64.parallelMoves_correct_codes (V := Nat) pm hs hf (edge_ok_of_allNodes hu)
    simp only [hc]
    obtain ⟨h1, h2⟩ := hfin (initState A64.REGISTER_NUM)
    exact checkFinal_true _ _ _ _ _ _ h1 h2

theorem checkSubstRV64_true (pm : PMap) : checkSubstRV64 pm = true := by
  unfold checkSubstRV64
  split
  · rfl
  · rename_i h
    simp only [Bool.not_eq_true, Bool.not_eq_false'] at h
    obtain ⟨hs, hf, hu⟩ := hyps_of_checks (by simpa using h)
    obtain ⟨code, hc, hfin⟩ := RV64.parallelMoves_correct_codes (V := Nat) pm hs hf (edge_ok_of_allNodes hu)
    simp only [hc]
    obtain ⟨h1, h2⟩ := hfin { regs := fun n => n + 1000, slots := fun p => p }
    exact checkFinal_true RV64.decode _ _ _ _ _ h1 h2

end Scc.PMoves
