/-
  Scc/PMoves/ProofsA64RV.lean  --  C11, T2 for the AArch64 and RV64 backends.
  AArch64: the saved value lives in `TEMP` (X2); a spill-to-spill `mov` goes through `TEMP2` (X3), so no
  flag is needed (`contains_spill_edge` is constantly `false`).  RV64: registers only, scratch `TEMP`.
-/
import Scc.PMoves.ProofsBackends

set_option autoImplicit false

namespace Scc.PMoves.A64

def rdN {V : Type} (m : MState V) (x : Nat) : V := m.rd (decode x)

/-- observable = not `TEMP` (X2) and not `TEMP2` (X3) -/
def okN (x : Nat) : Prop := x ≠ 2 ∧ x ≠ 3

def cell {V : Type} (_ : Bool) (m : MState V) : V := m.regs TEMP

def bad (_ _ : Nat) : Prop := False

theorem okN_iff_usable (x : Nat) : okN x ↔ usable x = true := by
  simp [okN, usable, TEMP, TEMP2]

theorem rdN_lt {V : Type} (m : MState V) {x : Nat} (h : x < 30) : rdN m x = m.regs x := by
  simp [rdN, decode, REGISTER_NUM, h, MState.rd]

theorem rdN_ge {V : Type} (m : MState V) {x : Nat} (h : ¬ x < 30) : rdN m x = m.slots (x - 30) := by
  simp [rdN, decode, REGISTER_NUM, h, MState.rd]

theorem rdN_setReg {V : Type} (m : MState V) (r : Nat) (v : V) (x : Nat) (hr : r < 30) :
    rdN (m.setReg r v) x = if x = r then v else rdN m x := by
  by_cases hx : x < 30
  · simp [rdN_lt _ hx, MState.setReg, upd]
  · have : x ≠ r := by omega
    simp [rdN_ge _ hx, MState.setReg, this]

theorem rdN_setSlot {V : Type} (m : MState V) (p : Nat) (v : V) (x : Nat) :
    rdN (m.setSlot p v) x = if x = 30 + p then v else rdN m x := by
  by_cases hx : x < 30
  · have : x ≠ 30 + p := by omega
    simp [rdN_lt _ hx, MState.setSlot, this]
  · by_cases hp : x = 30 + p
    · subst hp
      simp [rdN_ge _ hx, MState.setSlot, upd]
    · have : x - 30 ≠ p := by omega
      simp [rdN_ge _ hx, MState.setSlot, upd, this, hp]

theorem cell_setReg {V : Type} (f : Bool) (m : MState V) (r : Nat) (v : V) :
    cell f (m.setReg r v) = if r = 2 then v else cell f m := by
  simp [cell, MState.setReg, upd, TEMP, eq_comm]

theorem cell_setSlot {V : Type} (f : Bool) (m : MState V) (p : Nat) (v : V) :
    cell f (m.setSlot p v) = cell f m := by
  simp [cell, MState.setSlot]

/-- the single-instruction simulation for AArch64 -/
theorem sim_step {V : Type} (f : Bool) (op : AOp) (a : (Nat → V) × V) (m : MState V)
    (hop : OpOk okN bad f op) (h : Sim rdN okN cell f a m) :
    Sim rdN okN cell f (step op a) (runWith exec (lower op) m) := by
  obtain ⟨σ, sc⟩ := a
  obtain ⟨h1, h2⟩ := h
  simp only at h1 h2
  cases op with
  | comment msg => exact ⟨h1, h2⟩
  | mov t s =>
    obtain ⟨ht, hs, _⟩ := hop
    simp only [okN] at ht hs
    by_cases hs30 : s < 30 <;> by_cases ht30 : t < 30
    · have e : runWith exec (lower (.mov t s)) m = m.setReg t (m.regs s) := by
        simp [lower, mov, decode, REGISTER_NUM, hs30, ht30, moveFromRegister, runWith, exec]
      rw [e]
      refine ⟨?_, ?_⟩
      · intro x hx
        simp only [step, upd, rdN_setReg _ _ _ _ ht30]
        split
        · rw [h1 s hs, rdN_lt _ hs30]
        · exact h1 x hx
      · simp only [step, cell_setReg]
        rw [if_neg (by omega)]; exact h2
    · have e : runWith exec (lower (.mov t s)) m = m.setSlot (t - 30) (m.regs s) := by
        simp [lower, mov, decode, REGISTER_NUM, hs30, ht30, moveFromRegister, runWith, exec]
      rw [e]
      refine ⟨?_, ?_⟩
      · intro x hx
        simp only [step, upd, rdN_setSlot]
        have : (30 + (t - 30)) = t := by omega
        rw [this]
        split
        · rw [h1 s hs, rdN_lt _ hs30]
        · exact h1 x hx
      · simp only [step, cell_setSlot]; exact h2
    · have e : runWith exec (lower (.mov t s)) m = m.setReg t (m.slots (s - 30)) := by
        simp [lower, mov, decode, REGISTER_NUM, hs30, ht30, moveToRegister, runWith, exec]
      rw [e]
      refine ⟨?_, ?_⟩
      · intro x hx
        simp only [step, upd, rdN_setReg _ _ _ _ ht30]
        split
        · rw [h1 s hs, rdN_ge _ hs30]
        · exact h1 x hx
      · simp only [step, cell_setReg]
        rw [if_neg (by omega)]; exact h2
    · -- spill to spill: through TEMP2
      have e : runWith exec (lower (.mov t s)) m =
          (m.setReg 3 (m.slots (s - 30))).setSlot (t - 30) (m.slots (s - 30)) := by
        simp [lower, mov, decode, REGISTER_NUM, hs30, ht30, moveToRegister, moveFromRegister,
          runWith, exec, TEMP2, MState.setReg, upd]
      rw [e]
      refine ⟨?_, ?_⟩
      · intro x hx
        simp only [step, upd, rdN_setSlot, rdN_setReg _ _ _ _ (show 3 < 30 by omega)]
        have : (30 + (t - 30)) = t := by omega
        rw [this]
        split
        · rw [h1 s hs, rdN_ge _ hs30]
        · rw [if_neg hx.2]; exact h1 x hx
      · simp only [step, cell_setSlot, cell_setReg]
        rw [if_neg (by omega)]; exact h2
  | save s b =>
    obtain ⟨hs, rfl⟩ := hop
    simp only [okN] at hs
    by_cases hs30 : s < 30
    · have e : runWith exec (lower (.save s b)) m = m.setReg 2 (m.regs s) := by
        simp [lower, storeTemporary, decode, REGISTER_NUM, hs30, runWith, exec, TEMP]
      rw [e]
      refine ⟨?_, ?_⟩
      · intro x hx
        simp only [step, rdN_setReg _ _ _ _ (show 2 < 30 by omega)]
        rw [if_neg hx.1]; exact h1 x hx
      · simp only [step, cell_setReg]
        simp [h1 s hs, rdN_lt _ hs30]
    · have e : runWith exec (lower (.save s b)) m = m.setReg 2 (m.slots (s - 30)) := by
        simp [lower, storeTemporary, decode, REGISTER_NUM, hs30, runWith, exec, TEMP]
      rw [e]
      refine ⟨?_, ?_⟩
      · intro x hx
        simp only [step, rdN_setReg _ _ _ _ (show 2 < 30 by omega)]
        rw [if_neg hx.1]; exact h1 x hx
      · simp only [step, cell_setReg]
        simp [h1 s hs, rdN_ge _ hs30]
  | restore t b =>
    obtain ⟨ht, rfl⟩ := hop
    simp only [okN] at ht
    by_cases ht30 : t < 30
    · have e : runWith exec (lower (.restore t b)) m = m.setReg t (m.regs 2) := by
        simp [lower, restoreTemporary, decode, REGISTER_NUM, ht30, runWith, exec, TEMP]
      rw [e]
      refine ⟨?_, ?_⟩
      · intro x hx
        simp only [step, upd, rdN_setReg _ _ _ _ ht30]
        split
        · simpa [cell, TEMP] using h2
        · exact h1 x hx
      · simp only [step, cell_setReg]
        rw [if_neg (by omega)]; exact h2
    · have e : runWith exec (lower (.restore t b)) m = m.setSlot (t - 30) (m.regs 2) := by
        simp [lower, restoreTemporary, decode, REGISTER_NUM, ht30, runWith, exec, TEMP]
      rw [e]
      refine ⟨?_, ?_⟩
      · intro x hx
        simp only [step, upd, rdN_setSlot]
        have : (30 + (t - 30)) = t := by omega
        rw [this]
        split
        · simpa [cell, TEMP] using h2
        · exact h1 x hx
      · simp only [step, cell_setSlot]; exact h2

/-- T2 for AArch64, in terms of location codes. -/
theorem parallelMoves_correct_codes {V : Type} (pm : PMap) (hs : Sorted pm) (hf : Functional pm)
    (hu : ∀ s t, Edge pm s t → usable s = true ∧ usable t = true) :
    ∃ code, parallelMovesA64 pm = .ok code ∧ ∀ m : MState V,
      (∀ s t, Edge pm s t → rdN (runCode code m) t = rdN m s) ∧
      (∀ x, usable x = true → (∀ s, ¬ Edge pm s x) → rdN (runCode code m) x = rdN m x) := by
  obtain ⟨ops, hops, hfin⟩ := backend_correct (S := MState V) rdN okN cell bad lower exec
    containsSpillEdge (fun _ _ _ _ _ _ h => h) sim_step
    (fun msg m => by simp [lower, runWith, exec]) pm hs.keysNodup hs.targetsNodup hf
    (fun s t e => ⟨(okN_iff_usable s).mpr (hu s t e).1, (okN_iff_usable t).mpr (hu s t e).2⟩)
  refine ⟨lowerAll ops, by simp [parallelMovesA64, hops], ?_⟩
  intro m
  obtain ⟨h1, h2⟩ := hfin m
  exact ⟨h1, fun x hx => h2 x ((okN_iff_usable x).mpr hx)⟩

end Scc.PMoves.A64

namespace Scc.PMoves.RV64

def rdN {V : Type} (m : MState V) (x : Nat) : V := m.rd (decode x)

/-- observable = not `TEMP` -/
def okN (x : Nat) : Prop := x ≠ 1

def cell {V : Type} (_ : Bool) (m : MState V) : V := m.regs TEMP

def bad (_ _ : Nat) : Prop := False

/-- the single-instruction simulation for RV64 -/
theorem sim_step {V : Type} (f : Bool) (op : AOp) (a : (Nat → V) × V) (m : MState V)
    (hop : OpOk okN bad f op) (h : Sim rdN okN cell f a m) :
    Sim rdN okN cell f (step op a) (runWith exec (lower op) m) := by
  obtain ⟨σ, sc⟩ := a
  obtain ⟨h1, h2⟩ := h
  simp only [rdN, decode, MState.rd, cell, TEMP] at h1 h2
  cases op with
  | comment msg => exact ⟨h1, h2⟩
  | mov t s =>
    obtain ⟨ht, hs, _⟩ := hop
    simp only [okN] at ht hs
    refine ⟨?_, ?_⟩
    · intro x hx
      simp only [step, upd, lower, runWith, exec, rdN, decode, MState.rd, MState.setReg]
      split
      · exact h1 s hs
      · exact h1 x hx
    · simp only [step, lower, runWith, exec, cell, TEMP, MState.setReg, upd]
      rw [if_neg (by omega)]; exact h2
  | save s b =>
    obtain ⟨hs, rfl⟩ := hop
    simp only [okN] at hs
    refine ⟨?_, ?_⟩
    · intro x hx
      simp only [okN] at hx
      simp only [step, upd, lower, runWith, exec, rdN, decode, MState.rd, MState.setReg, TEMP]
      rw [if_neg hx]; exact h1 x hx
    · simp [step, lower, runWith, exec, cell, TEMP, MState.setReg, upd, h1 s hs]
  | restore t b =>
    obtain ⟨ht, rfl⟩ := hop
    simp only [okN] at ht
    refine ⟨?_, ?_⟩
    · intro x hx
      simp only [step, upd, lower, runWith, exec, rdN, decode, MState.rd, MState.setReg, TEMP]
      split
      · exact h2
      · exact h1 x hx
    · simp only [step, lower, runWith, exec, cell, TEMP, MState.setReg, upd]
      rw [if_neg (by omega)]; exact h2

/-- T2 for RV64. -/
theorem parallelMoves_correct_codes {V : Type} (pm : PMap) (hs : Sorted pm) (hf : Functional pm)
    (hu : ∀ s t, Edge pm s t → usable s = true ∧ usable t = true) :
    ∃ code, parallelMovesRV64 pm = .ok code ∧ ∀ m : MState V,
      (∀ s t, Edge pm s t → (runCode code m).regs t = m.regs s) ∧
      (∀ x, usable x = true → (∀ s, ¬ Edge pm s x) → (runCode code m).regs x = m.regs x) := by
  have hou : ∀ x, okN x ↔ usable x = true := by intro x; simp [okN, usable, TEMP]
  obtain ⟨ops, hops, hfin⟩ := backend_correct (S := MState V) rdN okN cell bad lower exec
    containsSpillEdge (fun _ _ _ _ _ _ h => h) sim_step
    (fun msg m => by simp [lower, runWith, exec]) pm hs.keysNodup hs.targetsNodup hf
    (fun s t e => ⟨(hou s).mpr (hu s t e).1, (hou t).mpr (hu s t e).2⟩)
  refine ⟨lowerAll ops, by simp [parallelMovesRV64, hops], ?_⟩
  intro m
  obtain ⟨h1, h2⟩ := hfin m
  exact ⟨h1, fun x hx => h2 x ((hou x).mpr hx)⟩

end Scc.PMoves.RV64
