/-
  Scc/PMoves/ProofsX86.lean  --  C11, T2 for the x86-64 backend: `containsSpillEdge_complete`,
  the single-instruction simulation, and the end-to-end theorem `x86_parallelMoves_correct`.
-/
import Scc.PMoves.ProofsBackends

set_option autoImplicit false

namespace Scc.PMoves.X86

/-- the content of the location with code `x` -/
def rdN {V : Type} (m : MState V) (x : Nat) : V := m.rd (decode x)

/-- observable = not `TEMP` (code 1) and not `SPILL_TEMP` (code 16) -/
def okN (x : Nat) : Prop := x ≠ 1 ∧ x ≠ 16

/-- where `store_temporary` puts the saved value -/
def cell {V : Type} (f : Bool) (m : MState V) : V := if f then m.slots SPILL_TEMP else m.regs TEMP

/-- a `mov` between two spill slots (it goes through `TEMP`) -/
def bad (s t : Nat) : Prop := 16 ≤ s ∧ 16 ≤ t

theorem okN_iff_usable (x : Nat) : okN x ↔ usable x = true := by
  simp [okN, usable, TEMP, REGISTER_NUM, SPILL_TEMP]

theorem rdN_lt {V : Type} (m : MState V) {x : Nat} (h : x < 16) : rdN m x = m.regs x := by
  simp [rdN, decode, REGISTER_NUM, h, MState.rd]

theorem rdN_ge {V : Type} (m : MState V) {x : Nat} (h : ¬ x < 16) : rdN m x = m.slots (x - 16) := by
  simp [rdN, decode, REGISTER_NUM, h, MState.rd]

theorem rdN_setReg {V : Type} (m : MState V) (r : Nat) (v : V) (x : Nat) (hr : r < 16) :
    rdN (m.setReg r v) x = if x = r then v else rdN m x := by
  by_cases hx : x < 16
  · simp [rdN_lt _ hx, MState.setReg, upd]
  · have : x ≠ r := by omega
    simp [rdN_ge _ hx, MState.setReg, this]

theorem rdN_setSlot {V : Type} (m : MState V) (p : Nat) (v : V) (x : Nat) :
    rdN (m.setSlot p v) x = if x = 16 + p then v else rdN m x := by
  by_cases hx : x < 16
  · have : x ≠ 16 + p := by omega
    simp [rdN_lt _ hx, MState.setSlot, this]
  · by_cases hp : x = 16 + p
    · subst hp
      simp [rdN_ge _ hx, MState.setSlot, upd]
    · have : x - 16 ≠ p := by omega
      simp [rdN_ge _ hx, MState.setSlot, upd, this, hp]

theorem cell_setReg {V : Type} (f : Bool) (m : MState V) (r : Nat) (v : V) :
    cell f (m.setReg r v) = if f = false ∧ r = 1 then v else cell f m := by
  cases f <;> simp [cell, MState.setReg, upd, TEMP, eq_comm]

theorem cell_setSlot {V : Type} (f : Bool) (m : MState V) (p : Nat) (v : V) :
    cell f (m.setSlot p v) = if f = true ∧ p = 0 then v else cell f m := by
  cases f <;> simp [cell, MState.setSlot, upd, SPILL_TEMP, eq_comm]

/-- the single-instruction simulation for x86-64 -/
theorem sim_step {V : Type} (f : Bool) (op : AOp) (a : (Nat → V) × V) (m : MState V)
    (hop : OpOk okN bad f op) (h : Sim rdN okN cell f a m) :
    Sim rdN okN cell f (step op a) (runWith exec (lower op) m) := by
  obtain ⟨σ, sc⟩ := a
  obtain ⟨h1, h2⟩ := h
  simp only at h1 h2
  cases op with
  | comment msg => exact ⟨h1, h2⟩
  | mov t s =>
    obtain ⟨ht, hs, hb⟩ := hop
    simp only [okN] at ht hs
    by_cases hs16 : s < 16 <;> by_cases ht16 : t < 16
    · -- register to register
      have e : runWith exec (lower (.mov t s)) m = m.setReg t (m.regs s) := by
        simp [lower, mov, decode, REGISTER_NUM, hs16, ht16, moveFromRegister, runWith, exec]
      rw [e]
      refine ⟨?_, ?_⟩
      · intro x hx
        simp only [step, upd, rdN_setReg _ _ _ _ ht16]
        split
        · rw [h1 s ⟨hs.1, hs.2⟩, rdN_lt _ hs16]
        · exact h1 x hx
      · simp only [step, cell_setReg]
        rw [if_neg (by omega)]; exact h2
    · -- register to spill
      have e : runWith exec (lower (.mov t s)) m = m.setSlot (t - 16) (m.regs s) := by
        simp [lower, mov, decode, REGISTER_NUM, hs16, ht16, moveFromRegister, runWith, exec]
      rw [e]
      refine ⟨?_, ?_⟩
      · intro x hx
        simp only [step, upd, rdN_setSlot]
        have : (16 + (t - 16)) = t := by omega
        rw [this]
        split
        · rw [h1 s ⟨hs.1, hs.2⟩, rdN_lt _ hs16]
        · exact h1 x hx
      · simp only [step, cell_setSlot]
        rw [if_neg (by omega)]; exact h2
    · -- spill to register
      have e : runWith exec (lower (.mov t s)) m = m.setReg t (m.slots (s - 16)) := by
        simp [lower, mov, decode, REGISTER_NUM, hs16, ht16, moveToRegister, runWith, exec]
      rw [e]
      refine ⟨?_, ?_⟩
      · intro x hx
        simp only [step, upd, rdN_setReg _ _ _ _ ht16]
        split
        · rw [h1 s ⟨hs.1, hs.2⟩, rdN_ge _ hs16]
        · exact h1 x hx
      · simp only [step, cell_setReg]
        rw [if_neg (by omega)]; exact h2
    · -- spill to spill: through TEMP, allowed only under `f = true`
      have hf : f = true := by
        cases f with
        | true => rfl
        | false => exact absurd ⟨by omega, by omega⟩ (hb rfl)
      have e : runWith exec (lower (.mov t s)) m =
          (m.setReg 1 (m.slots (s - 16))).setSlot (t - 16) (m.slots (s - 16)) := by
        simp [lower, mov, decode, REGISTER_NUM, hs16, ht16, moveToRegister, moveFromRegister,
          runWith, exec, TEMP, MState.setReg, upd]
      rw [e]
      refine ⟨?_, ?_⟩
      · intro x hx
        simp only [step, upd, rdN_setSlot, rdN_setReg _ _ _ _ (show 1 < 16 by omega)]
        have : (16 + (t - 16)) = t := by omega
        rw [this]
        split
        · rw [h1 s ⟨hs.1, hs.2⟩, rdN_ge _ hs16]
        · rw [if_neg hx.1]; exact h1 x hx
      · simp only [step, cell_setSlot, cell_setReg]
        rw [if_neg (by omega), if_neg (by simp [hf])]; exact h2
  | save s b =>
    obtain ⟨hs, rfl⟩ := hop
    simp only [okN] at hs
    by_cases hs16 : s < 16
    · cases b with
      | true =>
        have e : runWith exec (lower (.save s true)) m = m.setSlot 0 (m.regs s) := by
          simp [lower, storeTemporary, decode, REGISTER_NUM, hs16, runWith, exec, SPILL_TEMP]
        rw [e]
        refine ⟨?_, ?_⟩
        · intro x hx
          simp only [step, rdN_setSlot]
          rw [if_neg hx.2]; exact h1 x hx
        · simp only [step, cell_setSlot]
          simp [h1 s hs, rdN_lt _ hs16]
      | false =>
        have e : runWith exec (lower (.save s false)) m = m.setReg 1 (m.regs s) := by
          simp [lower, storeTemporary, decode, REGISTER_NUM, hs16, runWith, exec, TEMP]
        rw [e]
        refine ⟨?_, ?_⟩
        · intro x hx
          simp only [step, rdN_setReg _ _ _ _ (show 1 < 16 by omega)]
          rw [if_neg hx.1]; exact h1 x hx
        · simp only [step, cell_setReg]
          simp [h1 s hs, rdN_lt _ hs16]
    · cases b with
      | true =>
        have e : runWith exec (lower (.save s true)) m =
            (m.setReg 1 (m.slots (s - 16))).setSlot 0 (m.slots (s - 16)) := by
          simp [lower, storeTemporary, decode, REGISTER_NUM, hs16, runWith, exec, SPILL_TEMP, TEMP,
            MState.setReg, upd]
        rw [e]
        refine ⟨?_, ?_⟩
        · intro x hx
          simp only [step, rdN_setSlot, rdN_setReg _ _ _ _ (show 1 < 16 by omega)]
          rw [if_neg hx.2, if_neg hx.1]; exact h1 x hx
        · simp only [step, cell_setSlot]
          simp [h1 s hs, rdN_ge _ hs16]
      | false =>
        have e : runWith exec (lower (.save s false)) m = m.setReg 1 (m.slots (s - 16)) := by
          simp [lower, storeTemporary, decode, REGISTER_NUM, hs16, runWith, exec, TEMP]
        rw [e]
        refine ⟨?_, ?_⟩
        · intro x hx
          simp only [step, rdN_setReg _ _ _ _ (show 1 < 16 by omega)]
          rw [if_neg hx.1]; exact h1 x hx
        · simp only [step, cell_setReg]
          simp [h1 s hs, rdN_ge _ hs16]
  | restore t b =>
    obtain ⟨ht, rfl⟩ := hop
    simp only [okN] at ht
    by_cases ht16 : t < 16
    · cases b with
      | true =>
        have e : runWith exec (lower (.restore t true)) m = m.setReg t (m.slots 0) := by
          simp [lower, restoreTemporary, decode, REGISTER_NUM, ht16, runWith, exec, SPILL_TEMP]
        rw [e]
        refine ⟨?_, ?_⟩
        · intro x hx
          simp only [step, upd, rdN_setReg _ _ _ _ ht16]
          split
          · simpa [cell, SPILL_TEMP] using h2
          · exact h1 x hx
        · simp only [step, cell_setReg]
          rw [if_neg (by simp)]; exact h2
      | false =>
        have e : runWith exec (lower (.restore t false)) m = m.setReg t (m.regs 1) := by
          simp [lower, restoreTemporary, decode, REGISTER_NUM, ht16, runWith, exec, TEMP]
        rw [e]
        refine ⟨?_, ?_⟩
        · intro x hx
          simp only [step, upd, rdN_setReg _ _ _ _ ht16]
          split
          · simpa [cell, TEMP] using h2
          · exact h1 x hx
        · simp only [step, cell_setReg]
          rw [if_neg (by omega)]; exact h2
    · cases b with
      | true =>
        have e : runWith exec (lower (.restore t true)) m =
            (m.setReg 1 (m.slots 0)).setSlot (t - 16) (m.slots 0) := by
          simp [lower, restoreTemporary, decode, REGISTER_NUM, ht16, runWith, exec, SPILL_TEMP, TEMP,
            MState.setReg, upd]
        rw [e]
        refine ⟨?_, ?_⟩
        · intro x hx
          simp only [step, upd, rdN_setSlot, rdN_setReg _ _ _ _ (show 1 < 16 by omega)]
          have : (16 + (t - 16)) = t := by omega
          rw [this]
          split
          · simpa [cell, SPILL_TEMP] using h2
          · rw [if_neg hx.1]; exact h1 x hx
        · simp only [step, cell_setSlot, cell_setReg]
          rw [if_neg (by omega), if_neg (by simp)]; exact h2
      | false =>
        have e : runWith exec (lower (.restore t false)) m = m.setSlot (t - 16) (m.regs 1) := by
          simp [lower, restoreTemporary, decode, REGISTER_NUM, ht16, runWith, exec, TEMP]
        rw [e]
        refine ⟨?_, ?_⟩
        · intro x hx
          simp only [step, upd, rdN_setSlot]
          have : (16 + (t - 16)) = t := by omega
          rw [this]
          split
          · simpa [cell, TEMP] using h2
          · exact h1 x hx
        · simp only [step, cell_setSlot]
          rw [if_neg (by simp)]; exact h2

/-! ## `containsSpillEdge` finds every spill-to-spill move -/

mutual
theorem spillEdgeSpill_complete (rs : Bool) : ∀ (T : Tree) (p : Nat), 16 ≤ p →
    spillEdgeSpill rs T = false → ∀ a b, (a, b) ∈ T.edges p → ¬ bad a b
  | .backEdge, _, _, _, a, b, hab => by simp [Tree.edges] at hab
  | .node t kids, p, hp, h, a, b, hab => by
    simp only [spillEdgeSpill] at h
    by_cases ht : t < 16
    · simp only [decode, REGISTER_NUM, ht, if_true] at h
      simp only [Tree.edges, List.mem_cons, Prod.mk.injEq] at hab
      rcases hab with ⟨rfl, rfl⟩ | hab
      · intro hb; exact absurd hb.2 (by omega)
      · exact anySpillEdgeRegister_complete rs kids t ht h a b hab
    · simp [decode, REGISTER_NUM, ht] at h
theorem spillEdgeRegister_complete (rs : Bool) : ∀ (T : Tree) (p : Nat), p < 16 →
    spillEdgeRegister rs T = false → ∀ a b, (a, b) ∈ T.edges p → ¬ bad a b
  | .backEdge, _, _, _, a, b, hab => by simp [Tree.edges] at hab
  | .node t kids, p, hp, h, a, b, hab => by
    simp only [spillEdgeRegister] at h
    simp only [Tree.edges, List.mem_cons, Prod.mk.injEq] at hab
    by_cases ht : t < 16
    · simp only [decode, REGISTER_NUM, ht, if_true] at h
      rcases hab with ⟨rfl, rfl⟩ | hab
      · intro hb; exact absurd hb.2 (by omega)
      · exact anySpillEdgeRegister_complete rs kids t ht h a b hab
    · simp only [decode, REGISTER_NUM, ht, if_false] at h
      rcases hab with ⟨rfl, rfl⟩ | hab
      · intro hb; exact absurd hb.1 (by omega)
      · exact anySpillEdgeSpill_complete rs kids t (by omega) h a b hab
theorem anySpillEdgeSpill_complete (rs : Bool) : ∀ (ks : List Tree) (p : Nat), 16 ≤ p →
    anySpillEdgeSpill rs ks = false → ∀ a b, (a, b) ∈ edgesList p ks → ¬ bad a b
  | [], _, _, _, a, b, hab => by simp [edgesList] at hab
  | k :: ks, p, hp, h, a, b, hab => by
    simp only [anySpillEdgeSpill, Bool.or_eq_false_iff] at h
    simp only [edgesList, List.mem_append] at hab
    rcases hab with hab | hab
    · exact spillEdgeSpill_complete rs k p hp h.1 a b hab
    · exact anySpillEdgeSpill_complete rs ks p hp h.2 a b hab
theorem anySpillEdgeRegister_complete (rs : Bool) : ∀ (ks : List Tree) (p : Nat), p < 16 →
    anySpillEdgeRegister rs ks = false → ∀ a b, (a, b) ∈ edgesList p ks → ¬ bad a b
  | [], _, _, _, a, b, hab => by simp [edgesList] at hab
  | k :: ks, p, hp, h, a, b, hab => by
    simp only [anySpillEdgeRegister, Bool.or_eq_false_iff] at h
    simp only [edgesList, List.mem_append] at hab
    rcases hab with hab | hab
    · exact spillEdgeRegister_complete rs k p hp h.1 a b hab
    · exact anySpillEdgeRegister_complete rs ks p hp h.2 a b hab
end

/-- Key lemma of T2: if `contains_spill_edge` answers `false` for a root, none of the `mov`s emitted
    for that root is between two spill slots (so `TEMP`, which then holds the saved value, survives). -/
theorem containsSpillEdge_complete (k : Nat) (trees : List Tree)
    (h : containsSpillEdge (.startNode k trees) = false) :
    ∀ a b, (a, b) ∈ edgesList k trees → ¬ bad a b := by
  simp only [containsSpillEdge] at h
  by_cases hk : k < 16
  · simp only [decode, REGISTER_NUM, hk, if_true] at h
    exact anySpillEdgeRegister_complete false trees k hk h
  · simp only [decode, REGISTER_NUM, hk, if_false] at h
    exact anySpillEdgeSpill_complete true trees k (by omega) h

theorem lowerAll_eq (ops : List AOp) : lowerAll ops = ops.flatMap lower := rfl

/-- T2 for x86-64, in terms of location codes. -/
theorem parallelMoves_correct_codes {V : Type} (pm : PMap) (hs : Sorted pm) (hf : Functional pm)
    (hu : ∀ s t, Edge pm s t → usable s = true ∧ usable t = true) :
    ∃ code, parallelMovesX86 pm = .ok code ∧ ∀ m : MState V,
      (∀ s t, Edge pm s t → rdN (runCode code m) t = rdN m s) ∧
      (∀ x, usable x = true → (∀ s, ¬ Edge pm s x) → rdN (runCode code m) x = rdN m x) := by
  obtain ⟨ops, hops, hfin⟩ := backend_correct (S := MState V) rdN okN cell bad lower exec
    containsSpillEdge containsSpillEdge_complete sim_step
    (fun msg m => by simp [lower, runWith, exec]) pm hs.keysNodup hs.targetsNodup hf
    (fun s t e => ⟨(okN_iff_usable s).mpr (hu s t e).1, (okN_iff_usable t).mpr (hu s t e).2⟩)
  refine ⟨lowerAll ops, by simp [parallelMovesX86, hops], ?_⟩
  intro m
  obtain ⟨h1, h2⟩ := hfin m
  exact ⟨h1, fun x hx => h2 x ((okN_iff_usable x).mpr hx)⟩

end Scc.PMoves.X86
