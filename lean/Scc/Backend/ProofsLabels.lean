/-
  Scc.Backend.ProofsLabels — the label structure of the code produced by the generic code generator
  with the mock backend: `events` (label definitions and references of a code list, in order), the
  structured label names `Lbl` and the SKELETON functions `stmtEvents` / `clausesEvents` /
  `progEvents` that compute the events from the program alone; `codeStatementR_events` …: the events
  of generated code are the rendered skeleton events and the final counter is the skeleton's.
  Then: every referenced label is defined (C14-T2), the defined labels are pairwise distinct under
  `LabelSafe` (C14-T3), by injectivity of `Lbl.render` on safe names.
  Proof file.
-/
import Scc.Backend.Proofs

set_option linter.unusedSimpArgs false
set_option linter.unusedVariables false

namespace Scc.Backend

open Scc.AxCut

/-- label events of code: definitions and references, in code order -/
inductive LEv (L : Type) where
  | dfn (l : L)
  | ref (l : L)
  deriving DecidableEq, Repr

def LEv.map {L L' : Type} (f : L → L') : LEv L → LEv L'
  | .dfn l => .dfn (f l)
  | .ref l => .ref (f l)

def MockOp.events : MockOp → List (LEv String)
  | .label n => [.dfn n]
  | .jumpLabel n => [.ref n]
  | .jumpFixed n => [.ref n]
  | .jif _ _ _ n => [.ref n]
  | .jifz _ _ n => [.ref n]
  | .ll _ n => [.ref n]
  | _ => []

def events (code : List MockOp) : List (LEv String) := code.flatMap MockOp.events

@[simp] theorem events_nil : events [] = [] := rfl
@[simp] theorem events_cons (op : MockOp) (code : List MockOp) :
    events (op :: code) = op.events ++ events code := by simp [events]
@[simp] theorem events_append (a b : List MockOp) : events (a ++ b) = events a ++ events b := by
  simp [events]

/-- structured label names -/
inductive Lbl where
  /-- label of a definition with printed name `f` -/
  | defn (f : String)
  | cleanup
  | lab (n : Nat)
  /-- table / clause base label: mangled type name, number -/
  | base (m : String) (n : Nat)
  /-- clause label: mangled type name, number, printed xtor name -/
  | clause (m : String) (n : Nat) (x : String)
  deriving DecidableEq, Repr

def Lbl.render (ren : Nat → String) : Lbl → String
  | .defn f => f ++ "_"
  | .cleanup => "cleanup"
  | .lab n => "lab" ++ ren n
  | .base m n => m ++ "_" ++ ren n
  | .clause m n x => m ++ "_" ++ ren n ++ "_" ++ x

def tableEvents (m : String) (n : Nat) : Clauses → List (LEv Lbl)
  | .nil => []
  | .cons x _ _ rest => .ref (.clause m n x.print) :: tableEvents m n rest

mutual
  def stmtEvents : Stmt → Nat → List (LEv Lbl) × Nat
    | .subst _ next, c => stmtEvents next c
    | .call f _, c => ([.ref (.defn f.print)], c)
    | .letS _ _ _ _ next _, c => stmtEvents next c
    | .switch _ ty cs _, c =>
      let r := clausesEvents (mangleTy ty) (c + 1) cs (c + 1)
      ((if cs.length ≤ 1 then [] else [.ref (.base (mangleTy ty) (c + 1))]) ++
        .dfn (.base (mangleTy ty) (c + 1)) ::
        (if cs.length > 1 then tableEvents (mangleTy ty) (c + 1) cs else []) ++ r.1, r.2)
    | .create _ ty _ cs next _ _, c =>
      let r1 := stmtEvents next (c + 1)
      let r2 := clausesEvents (mangleTy ty) (c + 1) cs r1.2
      (.ref (.base (mangleTy ty) (c + 1)) :: r1.1 ++ .dfn (.base (mangleTy ty) (c + 1)) ::
        (if cs.length > 1 then tableEvents (mangleTy ty) (c + 1) cs else []) ++ r2.1, r2.2)
    | .invoke _ _ _ _, c => ([], c)
    | .lit _ _ next _, c => stmtEvents next c
    | .op _ _ _ _ next _, c => stmtEvents next c
    | .print _ _ next _, c => stmtEvents next c
    | .ifc _ _ _ thenc elsec, c =>
      let r1 := stmtEvents elsec (c + 1)
      let r2 := stmtEvents thenc r1.2
      (.ref (.lab (c + 1)) :: r1.1 ++ .dfn (.lab (c + 1)) :: r2.1, r2.2)
    | .exit _, c => ([.ref .cleanup], c)
  def clausesEvents (m : String) (n : Nat) : Clauses → Nat → List (LEv Lbl) × Nat
    | .nil, c => ([], c)
    | .cons x _ body rest, c =>
      let r1 := stmtEvents body c
      let r2 := clausesEvents m n rest r1.2
      (.dfn (.clause m n x.print) :: r1.1 ++ r2.1, r2.2)
end


theorem events_hookCode (hooks : Bool) (ctx : Ctx) : events (hookCode mockSym hooks ctx) = [] := by
  unfold hookCode; cases hooks <;> simp [MockOp.events]

theorem events_codeTable (ren : Nat → String) (m : String) (n : Nat) : ∀ (cs : Clauses),
    events (codeTable mockSym cs (m ++ "_" ++ ren n)) =
      (tableEvents m n cs).map (LEv.map (Lbl.render ren))
  | .nil => by simp [codeTable, tableEvents]
  | .cons x c b rest => by
    simp [codeTable, tableEvents, events_codeTable ren m n rest, MockOp.events, LEv.map,
      Lbl.render, clauseLabel]


mutual
theorem events_treeMoves (t : Nat) (sp : Bool) : ∀ (tr : Tree Nat), events (treeMoves mockSym t sp tr) = []
  | .backEdge => by simp [treeMoves, MockOp.events]
  | .node target kids => by
    simp [treeMoves, MockOp.events, events_treeMovesList target sp kids]
theorem events_treeMovesList (t : Nat) (sp : Bool) :
    ∀ (trs : List (Tree Nat)), events (treeMovesList mockSym t sp trs) = []
  | [] => by simp [treeMovesList]
  | k :: ks => by
    simp [treeMovesList, events_treeMoves t sp k, events_treeMovesList t sp ks]
end

theorem events_rootMoves (r : Root Nat) : events (rootMoves mockSym r) = [] := by
  cases r with
  | startNode t kids =>
    simp only [rootMoves, events_append, events_treeMovesList]
    split <;> simp [MockOp.events]

theorem events_flatten_rootMoves (forest : List (Root Nat)) :
    events ((forest.map (rootMoves mockSym)).flatten) = [] := by
  induction forest with
  | nil => simp
  | cons r rs ih => simp [events_rootMoves, ih]

theorem events_parallelMoves (conns : List (Nat × List Nat)) (code : List MockOp)
    (h : parallelMoves mockSym conns = .ok code) : events code = [] := by
  unfold parallelMoves at h
  cases hf : spanningForest mockSym conns with
  | error e => simp [hf] at h
  | ok forest =>
    simp only [hf] at h
    cases h
    simp only [events_append, events_flatten_rootMoves]
    split <;> simp [MockOp.events]

theorem mapMGen_vt_run_ok (num : TempNum) (ctx : Ctx) (ids : List Nat) (c : Nat) (ts : List Nat) (c' : Nat)
    (h : (mapMGen (fun id => mockSym.variableTemporary num ctx id) ids).run c = .ok (ts, c')) : c = c' := by
  induction ids generalizing ts with
  | nil => simp only [mapMGen, run_pure_ok] at h; exact h.2
  | cons a as ih =>
    simp only [mapMGen, run_bind_ok, run_pure_ok, mockSym_variableTemporary, vt_run_ok] at h
    obtain ⟨t, c1, ⟨pos, _, _, rfl⟩, bs, c2, h2, _, rfl⟩ := h
    exact ih _ h2

theorem connections_go_run_ok (context newContext : Ctx) (tm : List (Binding × List Nat))
    (acc : List (Nat × List Nat)) (c : Nat) (r : List (Nat × List Nat)) (c' : Nat)
    (h : (connections.go mockSym context newContext tm acc).run c = .ok (r, c')) : c = c' := by
  induction tm generalizing acc with
  | nil => simp only [connections.go, run_pure_ok] at h; exact h.2
  | cons e rest ih =>
    obtain ⟨binding, targets⟩ := e
    unfold connections.go at h
    split at h
    · simp only [run_bind_ok, mockSym_variableTemporary, vt_run_ok] at h
      obtain ⟨k, c1, ⟨pos, _, _, rfl⟩, ts, c2, h2, h3⟩ := h
      have := mapMGen_vt_run_ok _ _ _ _ _ _ h2
      subst this
      exact ih _ h3
    · simp only [run_bind_ok, mockSym_variableTemporary, vt_run_ok] at h
      obtain ⟨k, c1, ⟨pos, _, _, rfl⟩, ts, c2, h2, k2, c3, ⟨pos2, _, _, rfl⟩, ts2, c4, h4, h5⟩ := h
      have e1 := mapMGen_vt_run_ok _ _ _ _ _ _ h2
      subst e1
      have e2 := mapMGen_vt_run_ok _ _ _ _ _ _ h4
      subst e2
      exact ih _ h5

theorem codeExchange_events (tm : List (Binding × List Nat)) (context newContext : Ctx) (c : Nat)
    (code : List MockOp) (c' : Nat)
    (h : (codeExchange mockSym tm context newContext).run c = .ok (code, c')) :
    events code = [] ∧ c = c' := by
  unfold codeExchange connections at h
  simp only [run_bind_ok] at h
  obtain ⟨conns, c1, h1, h2⟩ := h
  have e1 := connections_go_run_ok _ _ _ _ _ _ _ h1
  subst e1
  cases hp : parallelMoves mockSym conns with
  | error e => simp [hp, run_throw_ok] at h2
  | ok code' =>
    simp only [hp, run_pure_ok] at h2
    obtain ⟨rfl, rfl⟩ := h2
    exact ⟨events_parallelMoves _ _ hp, rfl⟩

theorem updateReferenceCount_events (v : Ident) (context : Ctx) (n : Nat) (c : Nat)
    (code : List MockOp) (c' : Nat)
    (h : (updateReferenceCount mockSym v context n).run c = .ok (code, c')) :
    events code = [] ∧ c = c' := by
  unfold updateReferenceCount at h
  simp only [run_bind_ok, mockSym_variableTemporary, vt_run_ok] at h
  obtain ⟨t, c1, ⟨pos, _, _, rfl⟩, h2⟩ := h
  match n with
  | 0 =>
    simp only [mockSym_eraseBlock, run_bind_ok, run_pure_ok] at h2
    obtain ⟨a, c2, ⟨rfl, rfl⟩, rfl, rfl⟩ := h2
    simp [MockOp.events]
  | 1 =>
    simp only [run_pure_ok] at h2
    obtain ⟨rfl, rfl⟩ := h2
    simp
  | n + 2 =>
    simp only [mockSym_shareBlockN, run_bind_ok, run_pure_ok] at h2
    obtain ⟨a, c2, ⟨rfl, rfl⟩, rfl, rfl⟩ := h2
    simp [MockOp.events]

theorem codeWeakeningContraction_events (tm : List (Binding × List Nat)) (context : Ctx) (c : Nat)
    (code : List MockOp) (c' : Nat)
    (h : (codeWeakeningContraction mockSym tm context).run c = .ok (code, c')) :
    events code = [] ∧ c = c' := by
  induction tm generalizing code c with
  | nil => simp only [codeWeakeningContraction, run_pure_ok] at h; obtain ⟨rfl, rfl⟩ := h; simp
  | cons e rest ih =>
    obtain ⟨binding, targets⟩ := e
    unfold codeWeakeningContraction at h
    simp only [run_bind_ok, run_pure_ok] at h
    obtain ⟨code1, c1, h1, code2, c2, h2, rfl, rfl⟩ := h
    have ⟨e2, e2'⟩ := ih _ _ h2
    split at h1
    · have ⟨e1, e1'⟩ := updateReferenceCount_events _ _ _ _ _ _ h1
      subst e1' e2'
      simp [e1, e2]
    · simp only [run_pure_ok] at h1
      obtain ⟨rfl, rfl⟩ := h1
      subst e2'
      simp [e2]


/-- label events of generated code are the rendered skeleton events; the counter is the skeleton's -/
def EvSpec (ren : Nat → String) (m : GenM (List MockOp)) (sk : Nat → List (LEv Lbl) × Nat) : Prop :=
  ∀ c code c', m.run c = .ok (code, c') →
    events code = (sk c).1.map (LEv.map (Lbl.render ren)) ∧ c' = (sk c).2

mutual
theorem codeStatementR_events (hooks : Bool) (ren : Nat → String) (types : List TypeDecl) :
    ∀ (s : Stmt) (context : Ctx),
      EvSpec ren (codeStatementR mockSym hooks ren types s context) (stmtEvents s)
  | .subst rearrange next, context => by
    intro c code c' h
    simp only [codeStatementR, run_bind_ok, run_pure_ok] at h
    obtain ⟨c1, k1, h1, c2, k2, h2, c3, k3, h3, rfl, rfl⟩ := h
    obtain ⟨e1, rfl⟩ := codeWeakeningContraction_events _ _ _ _ _ h1
    obtain ⟨e2, rfl⟩ := codeExchange_events _ _ _ _ _ _ h2
    obtain ⟨e3, rfl⟩ := codeStatementR_events hooks ren types next _ _ _ _ h3
    simp [events_hookCode, MockOp.events, e1, e2, e3, stmtEvents]
  | .call label args, context => by
    intro c code c' h
    simp only [codeStatementR, run_pure_ok] at h
    obtain ⟨rfl, rfl⟩ := h
    simp [events_hookCode, MockOp.events, stmtEvents, LEv.map, Lbl.render]
  | .letS var ty tag args next fv, context => by
    intro c code c' h
    simp only [codeStatementR, run_bind_ok, run_pure_ok, lookupTypeDeclM_run_ok, xtorPositionM_run_ok,
      splitOffLast_run_ok, mockSym_store, mockSym_variableTemporary, vt_run_ok] at h
    obtain ⟨decl, k1, ⟨_, rfl⟩, pos, k2, ⟨_, rfl⟩, sp, k3, ⟨_, rfl, rfl⟩, c1, k4, ⟨rfl, rfl⟩, t, k5,
      ⟨p, _, _, rfl⟩, c3, k6, h3, rfl, rfl⟩ := h
    obtain ⟨e3, rfl⟩ := codeStatementR_events hooks ren types next _ _ _ _ h3
    simp [events_hookCode, MockOp.events, e3, stmtEvents]
  | .switch var ty clauses fv, context => by
    intro c code c' h
    simp only [codeStatementR, run_bind_ok, run_pure_ok, freshLabelStr_run_ok] at h
    obtain ⟨num, k1, ⟨rfl, rfl⟩, c1, k2, h1, c3, k3, h3, rfl, rfl⟩ := h
    obtain ⟨e3, rfl⟩ := codeClausesR_events hooks ren types _ (mangleTy ty) (c + 1) clauses _ _ _ h3
    simp only [stmtEvents]
    by_cases hn : clauses.length ≤ 1
    · simp only [hn, if_true, run_pure_ok] at h1
      obtain ⟨rfl, rfl⟩ := h1
      have hn' : ¬ clauses.length > 1 := by omega
      simp [events_hookCode, MockOp.events, e3, hn, hn', LEv.map, Lbl.render]
    · simp only [hn, if_false, run_bind_ok, run_pure_ok, mockSym_variableTemporary, vt_run_ok] at h1
      obtain ⟨t, k4, ⟨p, _, _, rfl⟩, rfl, rfl⟩ := h1
      have hn' : clauses.length > 1 := by omega
      simp [events_hookCode, MockOp.events, e3, hn, hn', LEv.map, Lbl.render, events_codeTable]
  | .create var ty env clauses next fv1 fv2, context => by
    intro c code c' h
    cases env with
    | none => simp [codeStatementR, run_throw_ok] at h
    | some envCtx =>
      simp only [codeStatementR, run_bind_ok, run_pure_ok, freshLabelStr_run_ok, splitOffLast_run_ok,
        mockSym_store, mockSym_variableTemporary, vt_run_ok] at h
      obtain ⟨sp, k1, ⟨_, rfl, rfl⟩, c1, k2, ⟨rfl, rfl⟩, num, k3, ⟨rfl, rfl⟩, t, k4, ⟨p, _, _, rfl⟩,
        c3, k5, h3, c5, k6, h5, rfl, rfl⟩ := h
      obtain ⟨e3, rfl⟩ := codeStatementR_events hooks ren types next _ _ _ _ h3
      obtain ⟨e5, rfl⟩ := codeMethodsR_events hooks ren types _ (mangleTy ty) (c + 1) clauses _ _ _ h5
      simp only [stmtEvents]
      by_cases hn : clauses.length > 1
      · simp [events_hookCode, MockOp.events, e3, e5, hn, LEv.map, Lbl.render, events_codeTable]
      · simp [events_hookCode, MockOp.events, e3, e5, hn, LEv.map, Lbl.render]
  | .invoke var tag ty args, context => by
    intro c code c' h
    simp only [codeStatementR, run_bind_ok, lookupTypeDeclM_run_ok, mockSym_variableTemporary,
      vt_run_ok] at h
    obtain ⟨t, k1, ⟨p, _, _, rfl⟩, decl, k2, ⟨_, rfl⟩, h2⟩ := h
    split at h2
    · simp only [run_pure_ok] at h2
      obtain ⟨rfl, rfl⟩ := h2
      simp [events_hookCode, MockOp.events, stmtEvents]
    · simp only [run_bind_ok, run_pure_ok, xtorPositionM_run_ok] at h2
      obtain ⟨pos, k3, ⟨_, rfl⟩, rfl, rfl⟩ := h2
      simp [events_hookCode, MockOp.events, stmtEvents]
  | .lit var n next fv, context => by
    intro c code c' h
    simp only [codeStatementR, run_bind_ok, run_pure_ok, mockSym_variableTemporary, vt_run_ok] at h
    obtain ⟨t, k1, ⟨p, _, _, rfl⟩, c2, k2, h2, rfl, rfl⟩ := h
    obtain ⟨e2, rfl⟩ := codeStatementR_events hooks ren types next _ _ _ _ h2
    simp [events_hookCode, MockOp.events, e2, stmtEvents]
  | .op var fst o snd next fv, context => by
    intro c code c' h
    simp only [codeStatementR, run_bind_ok, run_pure_ok, mockSym_variableTemporary, vt_run_ok] at h
    obtain ⟨t, k1, ⟨p, _, _, rfl⟩, s1, k2, ⟨p1, _, _, rfl⟩, s2, k3, ⟨p2, _, _, rfl⟩, c2, k4, h2, rfl,
      rfl⟩ := h
    obtain ⟨e2, rfl⟩ := codeStatementR_events hooks ren types next _ _ _ _ h2
    simp [events_hookCode, MockOp.events, e2, stmtEvents]
  | .print newline var next fv, context => by
    intro c code c' h
    simp only [codeStatementR, run_bind_ok, run_pure_ok, mockSym_variableTemporary, vt_run_ok,
      mockSym_printI64] at h
    obtain ⟨t, k1, ⟨p, _, _, rfl⟩, c1, k2, ⟨rfl, rfl⟩, c2, k3, h2, rfl, rfl⟩ := h
    obtain ⟨e2, rfl⟩ := codeStatementR_events hooks ren types next _ _ _ _ h2
    simp [events_hookCode, MockOp.events, e2, stmtEvents]
  | .ifc sort fst snd thenc elsec, context => by
    intro c code c' h
    simp only [codeStatementR, run_bind_ok, run_pure_ok, freshLabelStr_run_ok] at h
    obtain ⟨num, k1, ⟨rfl, rfl⟩, c1, k2, h1, c2, k3, h2, c3, k4, h3, rfl, rfl⟩ := h
    have hc1 : events c1 = [.ref (Lbl.render ren (.lab (c + 1)))] ∧ c + 1 = k2 := by
      cases snd with
      | none =>
        simp only [run_bind_ok, run_pure_ok, mockSym_variableTemporary, vt_run_ok] at h1
        obtain ⟨a, k5, ⟨p, _, _, rfl⟩, rfl, rfl⟩ := h1
        simp [MockOp.events, Lbl.render]
      | some snd =>
        simp only [run_bind_ok, run_pure_ok, mockSym_variableTemporary, vt_run_ok] at h1
        obtain ⟨a, k5, ⟨p, _, _, rfl⟩, b, k6, ⟨q, _, _, rfl⟩, rfl, rfl⟩ := h1
        simp [MockOp.events, Lbl.render]
    obtain ⟨ec1, rfl⟩ := hc1
    obtain ⟨e2, rfl⟩ := codeStatementR_events hooks ren types elsec _ _ _ _ h2
    obtain ⟨e3, rfl⟩ := codeStatementR_events hooks ren types thenc _ _ _ _ h3
    simp [events_hookCode, MockOp.events, ec1, e2, e3, stmtEvents, LEv.map, Lbl.render]
  | .exit var, context => by
    intro c code c' h
    simp only [codeStatementR, run_bind_ok, run_pure_ok, mockSym_variableTemporary, vt_run_ok] at h
    obtain ⟨t, k1, ⟨p, _, _, rfl⟩, rfl, rfl⟩ := h
    simp [events_hookCode, MockOp.events, stmtEvents, LEv.map, Lbl.render]
theorem codeClausesR_events (hooks : Bool) (ren : Nat → String) (types : List TypeDecl)
    (context : Ctx) (m : String) (n : Nat) :
    ∀ (cs : Clauses),
      EvSpec ren (codeClausesR mockSym hooks ren types context cs (m ++ "_" ++ ren n))
        (clausesEvents m n cs)
  | .nil => by
    intro c code c' h
    simp only [codeClausesR, run_pure_ok] at h
    obtain ⟨rfl, rfl⟩ := h
    simp [clausesEvents]
  | .cons xtor clauseCtx body rest => by
    intro c code c' h
    simp only [codeClausesR, run_bind_ok, run_pure_ok, mockSym_load] at h
    obtain ⟨c1, k1, ⟨rfl, rfl⟩, c2, k2, h2, c3, k3, h3, rfl, rfl⟩ := h
    obtain ⟨e2, rfl⟩ := codeStatementR_events hooks ren types body _ _ _ _ h2
    obtain ⟨e3, rfl⟩ := codeClausesR_events hooks ren types context m n rest _ _ _ h3
    simp [MockOp.events, e2, e3, clausesEvents, LEv.map, Lbl.render, clauseLabel]
theorem codeMethodsR_events (hooks : Bool) (ren : Nat → String) (types : List TypeDecl)
    (env : Ctx) (m : String) (n : Nat) :
    ∀ (cs : Clauses),
      EvSpec ren (codeMethodsR mockSym hooks ren types env cs (m ++ "_" ++ ren n))
        (clausesEvents m n cs)
  | .nil => by
    intro c code c' h
    simp only [codeMethodsR, run_pure_ok] at h
    obtain ⟨rfl, rfl⟩ := h
    simp [clausesEvents]
  | .cons xtor clauseCtx body rest => by
    intro c code c' h
    simp only [codeMethodsR, run_bind_ok, run_pure_ok, mockSym_load] at h
    obtain ⟨c1, k1, ⟨rfl, rfl⟩, c2, k2, h2, c3, k3, h3, rfl, rfl⟩ := h
    obtain ⟨e2, rfl⟩ := codeStatementR_events hooks ren types body _ _ _ _ h2
    obtain ⟨e3, rfl⟩ := codeMethodsR_events hooks ren types env m n rest _ _ _ h3
    simp [MockOp.events, e2, e3, clausesEvents, LEv.map, Lbl.render, clauseLabel]
end


/-! ## whole programs -/

/-- skeleton of `compile`: per definition its label, then the events of its body -/
def defsEvents : List Def → Nat → List (LEv Lbl) × Nat
  | [], c => ([], c)
  | d :: ds, c =>
    let r1 := stmtEvents d.body c
    let r2 := defsEvents ds r1.2
    (.dfn (.defn d.name.print) :: r1.1 ++ r2.1, r2.2)

theorem translateR_events (hooks : Bool) (ren : Nat → String) (types : List TypeDecl) :
    ∀ (defs : List Def) (c : Nat) (blocks : List (List MockOp)) (c' : Nat),
      (translateR mockSym hooks ren types defs).run c = .ok (blocks, c') →
      events (assemble mockSym blocks (defs.map (·.name))) =
        (defsEvents defs c).1.map (LEv.map (Lbl.render ren)) ∧ c' = (defsEvents defs c).2
  | [], c, blocks, c', h => by
    simp only [translateR, run_pure_ok] at h
    obtain ⟨rfl, rfl⟩ := h
    simp [assemble, defsEvents]
  | d :: ds, c, blocks, c', h => by
    simp only [translateR, run_bind_ok, run_pure_ok] at h
    obtain ⟨is, k1, h1, rest, k2, h2, rfl, rfl⟩ := h
    obtain ⟨e1, rfl⟩ := codeStatementR_events hooks ren types d.body _ _ _ _ h1
    obtain ⟨e2, rfl⟩ := translateR_events hooks ren types ds _ _ _ h2
    simp [assemble, defsEvents, e1, e2, MockOp.events, LEv.map, Lbl.render]

theorem compileR_events (hooks : Bool) (ren : Nat → String) (p : Prog) (c : Nat)
    (code : List MockOp) (nargs : Nat) (c' : Nat)
    (h : (compileR mockSym hooks ren p).run c = .ok ((code, nargs), c')) :
    events code = (defsEvents p.defs c).1.map (LEv.map (Lbl.render ren)) ∧
      c' = (defsEvents p.defs c).2 := by
  unfold compileR at h
  cases hd : p.defs with
  | nil => simp [hd, run_throw_ok] at h
  | cons d0 ds =>
    simp only [hd, run_bind_ok, run_pure_ok] at h
    obtain ⟨blocks, k, h1, h2, rfl⟩ := h
    cases h2
    have := translateR_events hooks ren p.types (d0 :: ds) c blocks k h1
    simpa using this

/-! ## definitions and references -/

def dfns {L : Type} : List (LEv L) → List L
  | [] => []
  | .dfn l :: rest => l :: dfns rest
  | .ref _ :: rest => dfns rest

def refs {L : Type} : List (LEv L) → List L
  | [] => []
  | .ref l :: rest => l :: refs rest
  | .dfn _ :: rest => refs rest

@[simp] theorem dfns_nil {L : Type} : dfns ([] : List (LEv L)) = [] := rfl
@[simp] theorem refs_nil {L : Type} : refs ([] : List (LEv L)) = [] := rfl
@[simp] theorem dfns_cons_dfn {L : Type} (l : L) (r : List (LEv L)) : dfns (.dfn l :: r) = l :: dfns r := rfl
@[simp] theorem dfns_cons_ref {L : Type} (l : L) (r : List (LEv L)) : dfns (.ref l :: r) = dfns r := rfl
@[simp] theorem refs_cons_ref {L : Type} (l : L) (r : List (LEv L)) : refs (.ref l :: r) = l :: refs r := rfl
@[simp] theorem refs_cons_dfn {L : Type} (l : L) (r : List (LEv L)) : refs (.dfn l :: r) = refs r := rfl

@[simp] theorem dfns_append {L : Type} (a b : List (LEv L)) : dfns (a ++ b) = dfns a ++ dfns b := by
  induction a with
  | nil => rfl
  | cons e r ih => cases e <;> simp [ih]

@[simp] theorem refs_append {L : Type} (a b : List (LEv L)) : refs (a ++ b) = refs a ++ refs b := by
  induction a with
  | nil => rfl
  | cons e r ih => cases e <;> simp [ih]

theorem dfns_map {L L' : Type} (f : L → L') (a : List (LEv L)) :
    dfns (a.map (LEv.map f)) = (dfns a).map f := by
  induction a with
  | nil => rfl
  | cons e r ih => cases e <;> simp [LEv.map, ih]

theorem refs_map {L L' : Type} (f : L → L') (a : List (LEv L)) :
    refs (a.map (LEv.map f)) = (refs a).map f := by
  induction a with
  | nil => rfl
  | cons e r ih => cases e <;> simp [LEv.map, ih]

/-- printed xtor names of a clause list -/
def xtorNames : Clauses → List String
  | .nil => []
  | .cons x _ _ rest => x.print :: xtorNames rest

mutual
  /-- printed names of the definitions called by a statement -/
  def stmtCalls : Stmt → List String
    | .subst _ next => stmtCalls next
    | .call f _ => [f.print]
    | .letS _ _ _ _ next _ => stmtCalls next
    | .switch _ _ cs _ => clausesCalls cs
    | .create _ _ _ cs next _ _ => stmtCalls next ++ clausesCalls cs
    | .invoke _ _ _ _ => []
    | .lit _ _ next _ => stmtCalls next
    | .op _ _ _ _ next _ => stmtCalls next
    | .print _ _ next _ => stmtCalls next
    | .ifc _ _ _ thenc elsec => stmtCalls elsec ++ stmtCalls thenc
    | .exit _ => []
  def clausesCalls : Clauses → List String
    | .nil => []
    | .cons _ _ body rest => stmtCalls body ++ clausesCalls rest
end

theorem dfns_tableEvents (m : String) (n : Nat) : ∀ cs, dfns (tableEvents m n cs) = []
  | .nil => rfl
  | .cons x c b rest => by simp [tableEvents, dfns_tableEvents m n rest]

theorem refs_tableEvents (m : String) (n : Nat) :
    ∀ cs, refs (tableEvents m n cs) = (xtorNames cs).map (Lbl.clause m n)
  | .nil => rfl
  | .cons x c b rest => by simp [tableEvents, xtorNames, refs_tableEvents m n rest]

/-- a reference is resolved inside the code, or is `cleanup`, or is the label of a called definition -/
def Resolved (evs : List (LEv Lbl)) (calls : List String) : Prop :=
  ∀ l ∈ refs evs, l ∈ dfns evs ∨ l = .cleanup ∨ ∃ f ∈ calls, l = .defn f

theorem clause_mem_dfns_clausesEvents (m : String) (n : Nat) :
    ∀ (cs : Clauses) (c : Nat) (x : String), x ∈ xtorNames cs →
      Lbl.clause m n x ∈ dfns (clausesEvents m n cs c).1
  | .nil, _, _, h => by simp [xtorNames] at h
  | .cons x' _ body rest, c, x, h => by
    simp only [xtorNames, List.mem_cons] at h
    simp only [clausesEvents, dfns_cons_dfn, dfns_append, List.mem_cons, List.mem_append]
    rcases h with rfl | h
    · simp
    · simp [clause_mem_dfns_clausesEvents m n rest _ x h]


mutual
theorem stmtEvents_resolved : ∀ (s : Stmt) (c : Nat), Resolved (stmtEvents s c).1 (stmtCalls s)
  | .subst _ next, c => by simpa [stmtEvents, stmtCalls] using stmtEvents_resolved next c
  | .call f _, c => by
    intro l hl
    simp [stmtEvents] at hl
    subst hl
    exact Or.inr (Or.inr ⟨f.print, by simp [stmtCalls], rfl⟩)
  | .letS _ _ _ _ next _, c => by simpa [stmtEvents, stmtCalls] using stmtEvents_resolved next c
  | .switch _ ty cs _, c => by
    intro l hl
    have ih := clausesEvents_resolved (mangleTy ty) (c + 1) cs (c + 1)
    simp only [stmtEvents, refs_append, refs_cons_dfn, List.mem_append] at hl
    simp only [stmtEvents, stmtCalls]
    rcases hl with (hl | hl) | hl
    · split at hl
      · simp at hl
      · simp at hl; subst hl; exact Or.inl (by simp)
    · split at hl
      · rw [refs_tableEvents] at hl
        obtain ⟨x, hx, rfl⟩ := List.mem_map.mp hl
        exact Or.inl (by simp [clause_mem_dfns_clausesEvents _ _ cs _ x hx])
      · simp at hl
    · rcases ih l hl with h | h | h
      · exact Or.inl (by simp [h])
      · exact Or.inr (Or.inl h)
      · exact Or.inr (Or.inr h)
  | .create _ ty _ cs next _ _, c => by
    intro l hl
    have ih1 := stmtEvents_resolved next (c + 1)
    have ih2 := clausesEvents_resolved (mangleTy ty) (c + 1) cs (stmtEvents next (c + 1)).2
    simp only [stmtEvents, refs_append, refs_cons_dfn, refs_cons_ref, List.mem_append, List.mem_cons] at hl
    simp only [stmtEvents, stmtCalls]
    rcases hl with ((hl | hl) | hl) | hl
    · subst hl; exact Or.inl (by simp)
    · rcases ih1 l hl with h | h | ⟨f, hf, h⟩
      · exact Or.inl (by simp [h])
      · exact Or.inr (Or.inl h)
      · exact Or.inr (Or.inr ⟨f, by simp [hf], h⟩)
    · split at hl
      · rw [refs_tableEvents] at hl
        obtain ⟨x, hx, rfl⟩ := List.mem_map.mp hl
        exact Or.inl (by simp [clause_mem_dfns_clausesEvents _ _ cs _ x hx])
      · simp at hl
    · rcases ih2 l hl with h | h | ⟨f, hf, h⟩
      · exact Or.inl (by simp [h])
      · exact Or.inr (Or.inl h)
      · exact Or.inr (Or.inr ⟨f, by simp [hf], h⟩)
  | .invoke _ _ _ _, c => by intro l hl; simp [stmtEvents] at hl
  | .lit _ _ next _, c => by simpa [stmtEvents, stmtCalls] using stmtEvents_resolved next c
  | .op _ _ _ _ next _, c => by simpa [stmtEvents, stmtCalls] using stmtEvents_resolved next c
  | .print _ _ next _, c => by simpa [stmtEvents, stmtCalls] using stmtEvents_resolved next c
  | .ifc _ _ _ thenc elsec, c => by
    intro l hl
    have ih1 := stmtEvents_resolved elsec (c + 1)
    have ih2 := stmtEvents_resolved thenc (stmtEvents elsec (c + 1)).2
    simp only [stmtEvents, refs_append, refs_cons_dfn, refs_cons_ref, List.mem_append, List.mem_cons] at hl
    simp only [stmtEvents, stmtCalls]
    rcases hl with (hl | hl) | hl
    · subst hl; exact Or.inl (by simp)
    · rcases ih1 l hl with h | h | ⟨f, hf, h⟩
      · exact Or.inl (by simp [h])
      · exact Or.inr (Or.inl h)
      · exact Or.inr (Or.inr ⟨f, by simp [hf], h⟩)
    · rcases ih2 l hl with h | h | ⟨f, hf, h⟩
      · exact Or.inl (by simp [h])
      · exact Or.inr (Or.inl h)
      · exact Or.inr (Or.inr ⟨f, by simp [hf], h⟩)
  | .exit _, c => by
    intro l hl
    simp [stmtEvents] at hl
    exact Or.inr (Or.inl hl)
theorem clausesEvents_resolved (m : String) (n : Nat) :
    ∀ (cs : Clauses) (c : Nat), Resolved (clausesEvents m n cs c).1 (clausesCalls cs)
  | .nil, c => by intro l hl; simp [clausesEvents] at hl
  | .cons x _ body rest, c => by
    intro l hl
    have ih1 := stmtEvents_resolved body c
    have ih2 := clausesEvents_resolved m n rest (stmtEvents body c).2
    simp only [clausesEvents, refs_append, refs_cons_dfn, List.mem_append] at hl
    simp only [clausesEvents, clausesCalls]
    rcases hl with hl | hl
    · rcases ih1 l hl with h | h | ⟨f, hf, h⟩
      · exact Or.inl (by simp [h])
      · exact Or.inr (Or.inl h)
      · exact Or.inr (Or.inr ⟨f, by simp [hf], h⟩)
    · rcases ih2 l hl with h | h | ⟨f, hf, h⟩
      · exact Or.inl (by simp [h])
      · exact Or.inr (Or.inl h)
      · exact Or.inr (Or.inr ⟨f, by simp [hf], h⟩)
end


/-! ## whole programs: every reference is resolved -/

def defsCalls : List Def → List String
  | [] => []
  | d :: ds => stmtCalls d.body ++ defsCalls ds

theorem defsEvents_resolved : ∀ (defs : List Def) (c : Nat),
    Resolved (defsEvents defs c).1 (defsCalls defs)
  | [], c => by intro l hl; simp [defsEvents] at hl
  | d :: ds, c => by
    intro l hl
    have ih1 := stmtEvents_resolved d.body c
    have ih2 := defsEvents_resolved ds (stmtEvents d.body c).2
    simp only [defsEvents, refs_append, refs_cons_dfn, List.mem_append] at hl
    simp only [defsEvents, defsCalls]
    rcases hl with hl | hl
    · rcases ih1 l hl with h | h | ⟨f, hf, h⟩
      · exact Or.inl (by simp [h])
      · exact Or.inr (Or.inl h)
      · exact Or.inr (Or.inr ⟨f, by simp [hf], h⟩)
    · rcases ih2 l hl with h | h | ⟨f, hf, h⟩
      · exact Or.inl (by simp [h])
      · exact Or.inr (Or.inl h)
      · exact Or.inr (Or.inr ⟨f, by simp [hf], h⟩)

theorem defn_mem_dfns_defsEvents : ∀ (defs : List Def) (c : Nat) (f : String),
    f ∈ defs.map (·.name.print) → Lbl.defn f ∈ dfns (defsEvents defs c).1
  | [], _, _, h => by simp at h
  | d :: ds, c, f, h => by
    simp only [List.map_cons, List.mem_cons] at h
    simp only [defsEvents, dfns_cons_dfn, dfns_append, List.mem_cons, List.mem_append]
    rcases h with rfl | h
    · simp
    · simp [defn_mem_dfns_defsEvents ds _ f h]

/-! ## the numbers of the generated labels -/

def Lbl.num : Lbl → Option Nat
  | .lab n => some n
  | .base _ n => some n
  | .clause _ n _ => some n
  | .defn _ => none
  | .cleanup => none

/-- `l` is a generated label with a number in `(lo, hi]` -/
def InRange (lo hi : Nat) (l : Lbl) : Prop := ∃ k, l.num = some k ∧ lo < k ∧ k ≤ hi

theorem InRange.mono {lo hi lo' hi' : Nat} {l : Lbl} (h : InRange lo hi l) (h1 : lo' ≤ lo) (h2 : hi ≤ hi') :
    InRange lo' hi' l := by
  obtain ⟨k, hk, a, b⟩ := h
  exact ⟨k, hk, by omega, by omega⟩

mutual
theorem stmtEvents_range : ∀ (s : Stmt) (c : Nat),
    c ≤ (stmtEvents s c).2 ∧ ∀ l ∈ dfns (stmtEvents s c).1, InRange c (stmtEvents s c).2 l
  | .subst _ next, c => by simpa [stmtEvents] using stmtEvents_range next c
  | .call _ _, c => by simp [stmtEvents]
  | .letS _ _ _ _ next _, c => by simpa [stmtEvents] using stmtEvents_range next c
  | .switch _ ty cs _, c => by
    obtain ⟨h1, h2⟩ := clausesEvents_range (mangleTy ty) (c + 1) cs (c + 1)
    simp only [stmtEvents]
    refine ⟨by omega, ?_⟩
    intro l hl
    simp only [dfns_append, dfns_cons_dfn, List.mem_append, List.mem_cons] at hl
    rcases hl with (hl | hl | hl) | hl
    · split at hl <;> simp at hl
    · subst hl; exact ⟨c + 1, rfl, by omega, h1⟩
    · split at hl
      · rw [dfns_tableEvents] at hl; simp at hl
      · simp at hl
    · rcases h2 l hl with ⟨x, _, rfl⟩ | h
      · exact ⟨c + 1, rfl, by omega, h1⟩
      · exact h.mono (by omega) (Nat.le_refl _)
  | .create _ ty _ cs next _ _, c => by
    obtain ⟨h1, h2⟩ := stmtEvents_range next (c + 1)
    obtain ⟨h3, h4⟩ := clausesEvents_range (mangleTy ty) (c + 1) cs (stmtEvents next (c + 1)).2
    simp only [stmtEvents]
    refine ⟨by omega, ?_⟩
    intro l hl
    simp only [dfns_append, dfns_cons_dfn, dfns_cons_ref, List.mem_append, List.mem_cons] at hl
    rcases hl with (hl | hl | hl) | hl
    · exact (h2 l hl).mono (by omega) h3
    · subst hl; exact ⟨c + 1, rfl, by omega, by omega⟩
    · split at hl
      · rw [dfns_tableEvents] at hl; simp at hl
      · simp at hl
    · rcases h4 l hl with ⟨x, _, rfl⟩ | h
      · exact ⟨c + 1, rfl, by omega, by omega⟩
      · exact h.mono (by omega) (Nat.le_refl _)
  | .invoke _ _ _ _, c => by simp [stmtEvents]
  | .lit _ _ next _, c => by simpa [stmtEvents] using stmtEvents_range next c
  | .op _ _ _ _ next _, c => by simpa [stmtEvents] using stmtEvents_range next c
  | .print _ _ next _, c => by simpa [stmtEvents] using stmtEvents_range next c
  | .ifc _ _ _ thenc elsec, c => by
    obtain ⟨h1, h2⟩ := stmtEvents_range elsec (c + 1)
    obtain ⟨h3, h4⟩ := stmtEvents_range thenc (stmtEvents elsec (c + 1)).2
    simp only [stmtEvents]
    refine ⟨by omega, ?_⟩
    intro l hl
    simp only [dfns_append, dfns_cons_dfn, dfns_cons_ref, List.mem_append, List.mem_cons] at hl
    rcases hl with hl | hl | hl
    · exact (h2 l hl).mono (by omega) h3
    · subst hl; exact ⟨c + 1, rfl, by omega, by omega⟩
    · exact (h4 l hl).mono (by omega) (Nat.le_refl _)
  | .exit _, c => by simp [stmtEvents]
theorem clausesEvents_range (m : String) (n : Nat) : ∀ (cs : Clauses) (c : Nat),
    c ≤ (clausesEvents m n cs c).2 ∧ ∀ l ∈ dfns (clausesEvents m n cs c).1,
      (∃ x ∈ xtorNames cs, l = Lbl.clause m n x) ∨ InRange c (clausesEvents m n cs c).2 l
  | .nil, c => by simp [clausesEvents]
  | .cons x _ body rest, c => by
    obtain ⟨h1, h2⟩ := stmtEvents_range body c
    obtain ⟨h3, h4⟩ := clausesEvents_range m n rest (stmtEvents body c).2
    simp only [clausesEvents]
    refine ⟨by omega, ?_⟩
    intro l hl
    simp only [dfns_append, dfns_cons_dfn, List.mem_append, List.mem_cons] at hl
    rcases hl with (hl | hl) | hl
    · subst hl; exact Or.inl ⟨x.print, by simp [xtorNames], rfl⟩
    · exact Or.inr ((h2 l hl).mono (Nat.le_refl _) h3)
    · rcases h4 l hl with ⟨x', hx', rfl⟩ | h
      · exact Or.inl ⟨x', by simp [xtorNames, hx'], rfl⟩
      · exact Or.inr (h.mono h1 (Nat.le_refl _))
end


/-! ## the defined labels are pairwise distinct as structured names -/

theorem InRange.disjoint {a b b' d : Nat} {l : Lbl} (h1 : InRange a b l) (h2 : InRange b' d l)
    (h : b ≤ b') : False := by
  obtain ⟨k, hk, _, _⟩ := h1
  obtain ⟨k', hk', _, _⟩ := h2
  rw [hk] at hk'; cases hk'; omega

theorem InRange.clause_false {a b n : Nat} {m x : String} (h : InRange a b (.clause m n x))
    (hn : n ≤ a) : False := by
  obtain ⟨k, hk, _, _⟩ := h
  cases hk; omega

theorem InRange.base_false {a b n : Nat} {m : String} (h : InRange a b (.base m n))
    (hn : n ≤ a) : False := by
  obtain ⟨k, hk, _, _⟩ := h
  cases hk; omega

theorem InRange.lab_false {a b n : Nat} (h : InRange a b (.lab n)) (hn : n ≤ a) : False := by
  obtain ⟨k, hk, _, _⟩ := h
  cases hk; omega

mutual
  /-- every clause list has pairwise distinct printed xtor names (decidable) -/
  def stmtXtorsDistinct : Stmt → Bool
    | .subst _ next => stmtXtorsDistinct next
    | .call _ _ => true
    | .letS _ _ _ _ next _ => stmtXtorsDistinct next
    | .switch _ _ cs _ => decide (xtorNames cs).Nodup && clausesXtorsDistinct cs
    | .create _ _ _ cs next _ _ =>
      stmtXtorsDistinct next && (decide (xtorNames cs).Nodup && clausesXtorsDistinct cs)
    | .invoke _ _ _ _ => true
    | .lit _ _ next _ => stmtXtorsDistinct next
    | .op _ _ _ _ next _ => stmtXtorsDistinct next
    | .print _ _ next _ => stmtXtorsDistinct next
    | .ifc _ _ _ thenc elsec => stmtXtorsDistinct elsec && stmtXtorsDistinct thenc
    | .exit _ => true
  def clausesXtorsDistinct : Clauses → Bool
    | .nil => true
    | .cons _ _ body rest => stmtXtorsDistinct body && clausesXtorsDistinct rest
end

mutual
theorem stmtEvents_nodup : ∀ (s : Stmt) (c : Nat), stmtXtorsDistinct s = true →
    (dfns (stmtEvents s c).1).Nodup
  | .subst _ next, c, h => by
    simp only [stmtXtorsDistinct, Bool.and_eq_true, decide_eq_true_eq] at h; simpa [stmtEvents] using stmtEvents_nodup next c h
  | .call _ _, c, _ => by simp [stmtEvents]
  | .letS _ _ _ _ next _, c, h => by
    simp only [stmtXtorsDistinct, Bool.and_eq_true, decide_eq_true_eq] at h; simpa [stmtEvents] using stmtEvents_nodup next c h
  | .switch v ty cs f1, c, h => by
    simp only [stmtXtorsDistinct, Bool.and_eq_true, decide_eq_true_eq] at h
    have hn := clausesEvents_nodup (mangleTy ty) (c + 1) cs (c + 1) h.1 h.2 (Nat.le_refl _)
    obtain ⟨_, hr⟩ := clausesEvents_range (mangleTy ty) (c + 1) cs (c + 1)
    have e : dfns (stmtEvents (.switch v ty cs f1) c).1 =
        Lbl.base (mangleTy ty) (c + 1) :: dfns (clausesEvents (mangleTy ty) (c + 1) cs (c + 1)).1 := by
      simp only [stmtEvents, dfns_append, dfns_cons_dfn]
      split <;> split <;> simp [dfns_tableEvents] <;> omega
    rw [e, List.nodup_cons]
    refine ⟨?_, hn⟩
    intro hm
    rcases hr _ hm with ⟨x, _, hx⟩ | h'
    · cases hx
    · exact h'.base_false (Nat.le_refl _)
  | .create v ty env cs next f1 f2, c, h => by
    simp only [stmtXtorsDistinct, Bool.and_eq_true, decide_eq_true_eq] at h
    have hn1 := stmtEvents_nodup next (c + 1) h.1
    obtain ⟨hle1, hr1⟩ := stmtEvents_range next (c + 1)
    have hn2 := clausesEvents_nodup (mangleTy ty) (c + 1) cs (stmtEvents next (c + 1)).2 h.2.1 h.2.2 hle1
    obtain ⟨_, hr2⟩ := clausesEvents_range (mangleTy ty) (c + 1) cs (stmtEvents next (c + 1)).2
    have e : dfns (stmtEvents (.create v ty env cs next f1 f2) c).1 =
        dfns (stmtEvents next (c + 1)).1 ++ Lbl.base (mangleTy ty) (c + 1) ::
          dfns (clausesEvents (mangleTy ty) (c + 1) cs (stmtEvents next (c + 1)).2).1 := by
      simp only [stmtEvents, dfns_append, dfns_cons_dfn, dfns_cons_ref]
      split <;> simp [dfns_tableEvents]
    rw [e, List.nodup_append, List.nodup_cons]
    refine ⟨hn1, ⟨?_, hn2⟩, ?_⟩
    · intro hm
      rcases hr2 _ hm with ⟨x, _, hx⟩ | h'
      · cases hx
      · exact h'.base_false (by omega)
    · intro a ha b hb hab
      subst hab
      have ra := hr1 a ha
      simp only [List.mem_cons] at hb
      rcases hb with rfl | hb
      · exact ra.base_false (Nat.le_refl _)
      · rcases hr2 _ hb with ⟨x, _, rfl⟩ | h'
        · exact ra.clause_false (Nat.le_refl _)
        · exact ra.disjoint h' (Nat.le_refl _)
  | .invoke _ _ _ _, c, _ => by simp [stmtEvents]
  | .lit _ _ next _, c, h => by
    simp only [stmtXtorsDistinct, Bool.and_eq_true, decide_eq_true_eq] at h; simpa [stmtEvents] using stmtEvents_nodup next c h
  | .op _ _ _ _ next _, c, h => by
    simp only [stmtXtorsDistinct, Bool.and_eq_true, decide_eq_true_eq] at h; simpa [stmtEvents] using stmtEvents_nodup next c h
  | .print _ _ next _, c, h => by
    simp only [stmtXtorsDistinct, Bool.and_eq_true, decide_eq_true_eq] at h; simpa [stmtEvents] using stmtEvents_nodup next c h
  | .ifc srt a b thenc elsec, c, h => by
    simp only [stmtXtorsDistinct, Bool.and_eq_true, decide_eq_true_eq] at h
    have hn1 := stmtEvents_nodup elsec (c + 1) h.1
    obtain ⟨hle1, hr1⟩ := stmtEvents_range elsec (c + 1)
    have hn2 := stmtEvents_nodup thenc (stmtEvents elsec (c + 1)).2 h.2
    obtain ⟨_, hr2⟩ := stmtEvents_range thenc (stmtEvents elsec (c + 1)).2
    have e : dfns (stmtEvents (.ifc srt a b thenc elsec) c).1 =
        dfns (stmtEvents elsec (c + 1)).1 ++ Lbl.lab (c + 1) ::
          dfns (stmtEvents thenc (stmtEvents elsec (c + 1)).2).1 := by
      simp only [stmtEvents, dfns_append, dfns_cons_dfn, dfns_cons_ref]
    rw [e, List.nodup_append, List.nodup_cons]
    refine ⟨hn1, ⟨?_, hn2⟩, ?_⟩
    · intro hm
      exact (hr2 _ hm).lab_false (by omega)
    · intro a ha b hb hab
      subst hab
      have ra := hr1 a ha
      simp only [List.mem_cons] at hb
      rcases hb with rfl | hb
      · exact ra.lab_false (Nat.le_refl _)
      · exact ra.disjoint (hr2 _ hb) (Nat.le_refl _)
  | .exit _, c, _ => by simp [stmtEvents]
theorem clausesEvents_nodup (m : String) (n : Nat) : ∀ (cs : Clauses) (c : Nat),
    (xtorNames cs).Nodup → clausesXtorsDistinct cs = true → n ≤ c →
    (dfns (clausesEvents m n cs c).1).Nodup
  | .nil, c, _, _, _ => by simp [clausesEvents]
  | .cons x cctx body rest, c, hx, h, hn => by
    simp only [clausesXtorsDistinct, Bool.and_eq_true] at h
    simp only [xtorNames, List.nodup_cons] at hx
    have hn1 := stmtEvents_nodup body c h.1
    obtain ⟨hle1, hr1⟩ := stmtEvents_range body c
    have hn2 := clausesEvents_nodup m n rest (stmtEvents body c).2 hx.2 h.2 (by omega)
    obtain ⟨_, hr2⟩ := clausesEvents_range m n rest (stmtEvents body c).2
    have e : dfns (clausesEvents m n (.cons x cctx body rest) c).1 =
        Lbl.clause m n x.print :: (dfns (stmtEvents body c).1 ++
          dfns (clausesEvents m n rest (stmtEvents body c).2).1) := by
      simp only [clausesEvents, dfns_append, dfns_cons_dfn, List.cons_append]
    rw [e, List.nodup_cons, List.nodup_append]
    refine ⟨?_, hn1, hn2, ?_⟩
    · intro hm
      simp only [List.mem_append] at hm
      rcases hm with hm | hm
      · exact (hr1 _ hm).clause_false hn
      · rcases hr2 _ hm with ⟨x', hx', e'⟩ | h'
        · cases e'; exact hx.1 hx'
        · exact h'.clause_false (by omega)
    · intro a ha b hb hab
      subst hab
      have ra := hr1 a ha
      rcases hr2 _ hb with ⟨x', _, rfl⟩ | h'
      · exact ra.clause_false hn
      · exact ra.disjoint h' (Nat.le_refl _)
end


theorem defsEvents_range : ∀ (defs : List Def) (c : Nat),
    c ≤ (defsEvents defs c).2 ∧ ∀ l ∈ dfns (defsEvents defs c).1,
      (∃ f ∈ defs.map (·.name.print), l = Lbl.defn f) ∨ InRange c (defsEvents defs c).2 l
  | [], c => by simp [defsEvents]
  | d :: ds, c => by
    obtain ⟨h1, h2⟩ := stmtEvents_range d.body c
    obtain ⟨h3, h4⟩ := defsEvents_range ds (stmtEvents d.body c).2
    simp only [defsEvents]
    refine ⟨by omega, ?_⟩
    intro l hl
    simp only [dfns_append, dfns_cons_dfn, List.mem_append, List.mem_cons] at hl
    rcases hl with (hl | hl) | hl
    · subst hl; exact Or.inl ⟨d.name.print, by simp, rfl⟩
    · exact Or.inr ((h2 l hl).mono (Nat.le_refl _) h3)
    · rcases h4 l hl with ⟨f, hf, rfl⟩ | h
      · exact Or.inl ⟨f, by simp only [List.map_cons, List.mem_cons]; exact Or.inr hf, rfl⟩
      · exact Or.inr (h.mono h1 (Nat.le_refl _))

theorem InRange.defn_false {a b : Nat} {f : String} (h : InRange a b (.defn f)) : False := by
  obtain ⟨k, hk, _, _⟩ := h
  cases hk

theorem defsEvents_nodup : ∀ (defs : List Def) (c : Nat),
    (defs.map (·.name.print)).Nodup → (∀ d ∈ defs, stmtXtorsDistinct d.body = true) →
    (dfns (defsEvents defs c).1).Nodup
  | [], c, _, _ => by simp [defsEvents]
  | d :: ds, c, hx, h => by
    simp only [List.map_cons, List.nodup_cons] at hx
    have hn1 := stmtEvents_nodup d.body c (h d (by simp))
    obtain ⟨hle1, hr1⟩ := stmtEvents_range d.body c
    have hn2 := defsEvents_nodup ds (stmtEvents d.body c).2 hx.2 (fun d' hd' => h d' (by simp [hd']))
    obtain ⟨_, hr2⟩ := defsEvents_range ds (stmtEvents d.body c).2
    have e : dfns (defsEvents (d :: ds) c).1 =
        Lbl.defn d.name.print :: (dfns (stmtEvents d.body c).1 ++
          dfns (defsEvents ds (stmtEvents d.body c).2).1) := by
      simp only [defsEvents, dfns_append, dfns_cons_dfn, List.cons_append]
    rw [e, List.nodup_cons, List.nodup_append]
    refine ⟨?_, hn1, hn2, ?_⟩
    · intro hm
      simp only [List.mem_append] at hm
      rcases hm with hm | hm
      · exact (hr1 _ hm).defn_false
      · rcases hr2 _ hm with ⟨f, hf, e'⟩ | h'
        · cases e'; exact hx.1 hf
        · exact h'.defn_false
    · intro a ha b hb hab
      subst hab
      have ra := hr1 a ha
      rcases hr2 _ hb with ⟨f, _, rfl⟩ | h'
      · exact ra.defn_false
      · exact ra.disjoint h' (Nat.le_refl _)


/-! ## the xtor names used by clause labels -/

mutual
  /-- printed xtor names of all clause lists of a statement -/
  def stmtXtorNames : Stmt → List String
    | .subst _ next => stmtXtorNames next
    | .call _ _ => []
    | .letS _ _ _ _ next _ => stmtXtorNames next
    | .switch _ _ cs _ => xtorNames cs ++ clausesXtorNames cs
    | .create _ _ _ cs next _ _ => stmtXtorNames next ++ (xtorNames cs ++ clausesXtorNames cs)
    | .invoke _ _ _ _ => []
    | .lit _ _ next _ => stmtXtorNames next
    | .op _ _ _ _ next _ => stmtXtorNames next
    | .print _ _ next _ => stmtXtorNames next
    | .ifc _ _ _ thenc elsec => stmtXtorNames elsec ++ stmtXtorNames thenc
    | .exit _ => []
  def clausesXtorNames : Clauses → List String
    | .nil => []
    | .cons _ _ body rest => stmtXtorNames body ++ clausesXtorNames rest
end

def defsXtorNames : List Def → List String
  | [] => []
  | d :: ds => stmtXtorNames d.body ++ defsXtorNames ds

/-- the xtor name of a clause label, if it is one -/
def Lbl.xtor? : Lbl → Option String
  | .clause _ _ x => some x
  | _ => none

mutual
theorem stmtEvents_xtors : ∀ (s : Stmt) (c : Nat) (l : Lbl), l ∈ dfns (stmtEvents s c).1 →
    ∀ x, l.xtor? = some x → x ∈ stmtXtorNames s
  | .subst _ next, c, l, hl => by
    simp only [stmtEvents] at hl; simpa [stmtXtorNames] using stmtEvents_xtors next c l hl
  | .call _ _, c, l, hl => by simp [stmtEvents] at hl
  | .letS _ _ _ _ next _, c, l, hl => by
    simp only [stmtEvents] at hl; simpa [stmtXtorNames] using stmtEvents_xtors next c l hl
  | .switch _ ty cs _, c, l, hl => by
    intro x hx
    simp only [stmtEvents, dfns_append, dfns_cons_dfn, List.mem_append, List.mem_cons] at hl
    simp only [stmtXtorNames, List.mem_append]
    rcases hl with (hl | hl | hl) | hl
    · split at hl <;> simp at hl
    · subst hl; cases hx
    · split at hl
      · rw [dfns_tableEvents] at hl; simp at hl
      · simp at hl
    · exact clausesEvents_xtors _ _ cs _ l hl x hx
  | .create _ ty _ cs next _ _, c, l, hl => by
    intro x hx
    simp only [stmtEvents, dfns_append, dfns_cons_dfn, dfns_cons_ref, List.mem_append,
      List.mem_cons] at hl
    simp only [stmtXtorNames, List.mem_append]
    rcases hl with (hl | hl | hl) | hl
    · exact Or.inl (stmtEvents_xtors next _ l hl x hx)
    · subst hl; cases hx
    · split at hl
      · rw [dfns_tableEvents] at hl; simp at hl
      · simp at hl
    · exact Or.inr (clausesEvents_xtors _ _ cs _ l hl x hx)
  | .invoke _ _ _ _, c, l, hl => by simp [stmtEvents] at hl
  | .lit _ _ next _, c, l, hl => by
    simp only [stmtEvents] at hl; simpa [stmtXtorNames] using stmtEvents_xtors next c l hl
  | .op _ _ _ _ next _, c, l, hl => by
    simp only [stmtEvents] at hl; simpa [stmtXtorNames] using stmtEvents_xtors next c l hl
  | .print _ _ next _, c, l, hl => by
    simp only [stmtEvents] at hl; simpa [stmtXtorNames] using stmtEvents_xtors next c l hl
  | .ifc _ _ _ thenc elsec, c, l, hl => by
    intro x hx
    simp only [stmtEvents, dfns_append, dfns_cons_dfn, dfns_cons_ref, List.mem_append,
      List.mem_cons] at hl
    simp only [stmtXtorNames, List.mem_append]
    rcases hl with hl | hl | hl
    · exact Or.inl (stmtEvents_xtors elsec _ l hl x hx)
    · subst hl; cases hx
    · exact Or.inr (stmtEvents_xtors thenc _ l hl x hx)
  | .exit _, c, l, hl => by simp [stmtEvents] at hl
theorem clausesEvents_xtors (m : String) (n : Nat) : ∀ (cs : Clauses) (c : Nat) (l : Lbl),
    l ∈ dfns (clausesEvents m n cs c).1 →
    ∀ x, l.xtor? = some x → x ∈ xtorNames cs ∨ x ∈ clausesXtorNames cs
  | .nil, c, l, hl => by simp [clausesEvents] at hl
  | .cons x' _ body rest, c, l, hl => by
    intro x hx
    simp only [clausesEvents, dfns_append, dfns_cons_dfn, List.mem_append, List.mem_cons] at hl
    simp only [xtorNames, clausesXtorNames, List.mem_cons, List.mem_append]
    rcases hl with (hl | hl) | hl
    · subst hl; cases hx; exact Or.inl (Or.inl rfl)
    · exact Or.inr (Or.inl (stmtEvents_xtors body _ l hl x hx))
    · rcases clausesEvents_xtors m n rest _ l hl x hx with h | h
      · exact Or.inl (Or.inr h)
      · exact Or.inr (Or.inr h)
end

theorem defsEvents_xtors : ∀ (defs : List Def) (c : Nat) (l : Lbl), l ∈ dfns (defsEvents defs c).1 →
    ∀ x, l.xtor? = some x → x ∈ defsXtorNames defs
  | [], c, l, hl => by simp [defsEvents] at hl
  | d :: ds, c, l, hl => by
    intro x hx
    simp only [defsEvents, dfns_append, dfns_cons_dfn, List.mem_append, List.mem_cons] at hl
    simp only [defsXtorNames, List.mem_append]
    rcases hl with (hl | hl) | hl
    · subst hl; cases hx
    · exact Or.inl (stmtEvents_xtors d.body _ l hl x hx)
    · exact Or.inr (defsEvents_xtors ds _ l hl x hx)

theorem nodup_map_of_inj_on {α β : Type} (f : α → β) :
    ∀ (l : List α), (∀ a ∈ l, ∀ b ∈ l, f a = f b → a = b) → l.Nodup → (l.map f).Nodup
  | [], _, _ => by simp
  | a :: l, hinj, hn => by
    simp only [List.nodup_cons] at hn
    simp only [List.map_cons, List.nodup_cons, List.mem_map, not_exists, not_and]
    refine ⟨?_, nodup_map_of_inj_on f l (fun x hx y hy => hinj x (by simp [hx]) y (by simp [hy])) hn.2⟩
    intro b hb e
    have := hinj b (by simp [hb]) a (by simp) e
    subst this
    exact hn.1 hb

end Scc.Backend
