/-
  Scc.Backend.SimDefs — SPEC definitions for Theorem A (C06–C08, generic simulation): how a state of
  the AxCut positional machine (Scc/AxCut/SemPos.lean) is REPRESENTED by a configuration of the
  abstract backend machine (Scc/Backend/AbstractMachine.lean) running the code that the generic code
  generator produces with the mock backend.

  * `CodeAt P pc ops`: the code list `ops` is laid out in the program `P` from address `pc` on
    (instructions at consecutive addresses; every label of `ops` resolves to its address).
  * `RepVal`: a value is represented by (pointer part, word part): an integer by its word; an object
    by (reference to a heap object holding representations of the fields | 0 if there is no field,
    tag = position of the xtor); a closure by (reference to the object holding the closure
    environment | 0, address of the table/method code).  Sharing: the heap is a DAG, the AxCut values
    are trees; an object with count n stands for n+1 copies — `HeapOK` is the counting invariant.
  * `Rel`: position i of the environment is represented by the temporaries `2i`, `2i+1`; the code of
    the current statement (in the current context) is at the program counter.
  Core imports only.
-/
import Scc.Backend.AbstractMachine
import Scc.AxCut.SemPos

namespace Scc.Backend.Sim

open Scc.AxCut Scc.AxCut.Pos Scc.Backend Scc.Backend.Abs

/-! ## code layout -/

/-- number of machine instructions of a code list (comments and labels occupy no space) -/
def instrCount : List MockOp → Nat
  | [] => 0
  | .comment _ :: r => instrCount r
  | .label _ :: r => instrCount r
  | _ :: r => instrCount r + 1

/-- `ops` is laid out in `P` from address `pc` on -/
def CodeAt (P : Program) : Nat → List MockOp → Prop
  | _, [] => True
  | pc, op :: r =>
    match op with
    | .comment _ => CodeAt P pc r
    | .label n => P.labelAddr n = some pc ∧ CodeAt P pc r
    | op => P.code[pc]? = some op ∧ CodeAt P (pc + 1) r

/-- exactly `k` machine steps lead from `c` to `c'` -/
def stepsTo (P : Program) : Nat → Config → Config → Prop
  | 0, c, c' => c = c'
  | k + 1, c, c' => ∃ c1, Abs.step P c = .next c1 ∧ stepsTo P k c1 c'

/-! ## representation of values -/

def isInt : Value → Bool
  | .int _ => true
  | _ => false

/-- the code of the methods of a closure (table, if any, and method bodies) is at address `a` -/
def MethodsAt (P : Program) (hooks : Bool) (types : List TypeDecl) (a : Nat) (envCtx : Ctx)
    (clauses : Clauses) : Prop :=
  ∃ (base : String) (c c' : Nat) (code : List MockOp),
    (codeMethodsR mockSym hooks natRen types envCtx clauses base).run c = .ok (code, c') ∧
    CodeAt P a (MockOp.label base ::
      ((if clauses.length > 1 then codeTable mockSym clauses base else []) ++ code))

mutual
  /-- `RepVal P hooks types h v ptr w`: value `v` is represented by pointer part `ptr` (if it has
      one) and word part `w` in heap `h` -/
  inductive RepVal (P : Program) (hooks : Bool) (types : List TypeDecl) (h : Heap) :
      Value → Option Word → Word → Prop where
    | int (n : Word) (p : Option Word) : RepVal P hooks types h (.int n) p n
    | obj (tag : Nat) (fields : List Value) (r : Word) :
      RepBlock P hooks types h fields r →
      RepVal P hooks types h (.obj tag fields) (some r) (BitVec.ofNat 64 tag)
    | clo (envCtx : Ctx) (env : List Value) (clauses : Clauses) (r : Word) (a : Nat) :
      RepBlock P hooks types h env r → MethodsAt P hooks types a envCtx clauses →
      RepVal P hooks types h (.clo envCtx env clauses) (some r) (BitVec.ofNat 64 a)
  /-- the values `vs` are the fields of the object referenced by `r` (no value: `r = 0`) -/
  inductive RepBlock (P : Program) (hooks : Bool) (types : List TypeDecl) (h : Heap) :
      List Value → Word → Prop where
    | empty : RepBlock P hooks types h [] 0
    | block (v : Value) (vs : List Value) (r : Word) (o : Obj) :
      r ≠ 0 → h.get r.toNat = some o → RepFields P hooks types h (v :: vs) o.fields →
      RepBlock P hooks types h (v :: vs) r
  inductive RepFields (P : Program) (hooks : Bool) (types : List TypeDecl) (h : Heap) :
      List Value → List Field → Prop where
    | nil : RepFields P hooks types h [] []
    | cons (v : Value) (vs : List Value) (f : Field) (fs : List Field) :
      RepVal P hooks types h v (if f.chi == .ext then none else some f.ptr) f.val →
      (f.chi == .ext) = isInt v →
      RepFields P hooks types h vs fs → RepFields P hooks types h (v :: vs) (f :: fs)
end

/-! ## the counting invariant -/

/-- non-null pointer parts of the non-`ext` positions of the context -/
def roots (Γ : Ctx) (σ : Temps) : List Nat :=
  let rec go : Ctx → Nat → List Nat
    | [], _ => []
    | b :: bs, i =>
      (if b.chi != .ext then
        match σ.get (2 * i) with
        | some p => if p != 0 then [p.toNat] else []
        | none => []
       else []) ++ go bs (i + 1)
  go Γ 0

/-- number of references to object `id`: from the roots and from the fields of heap objects -/
def refCount (h : Heap) (rs : List Nat) (id : Nat) : Nat :=
  rs.count id + (h.map fun e => e.2.children.count id).sum

/-- every object is referenced `count + 1` times; ids are unique, non-zero, below `next`;
    every reference points to an object -/
structure HeapOK (h : Heap) (rs : List Nat) (next : Nat) : Prop where
  pos : 0 < next
  nodup : (h.map (·.1)).Nodup
  ids : ∀ e ∈ h, 0 < e.1 ∧ e.1 < next ∧ e.1 < 2 ^ 64
  counts : ∀ e ∈ h, e.2.count + 1 = refCount h rs e.1
  live : ∀ id, 0 < refCount h rs id → (h.get id).isSome

/-! ## the simulation relation -/

/-- position `i` of the environment is represented by the temporaries `2i` (pointer part, only for
    non-`ext` positions) and `2i+1` (word part) -/
def ValsOK (P : Program) (hooks : Bool) (types : List TypeDecl) (h : Heap) (σ : Temps) (Γ : Ctx)
    (ρ : List Value) : Prop :=
  ∀ i (h1 : i < Γ.length) (h2 : i < ρ.length),
    RepVal P hooks types h ρ[i]
      (if Γ[i].chi == .ext then none else σ.get (2 * i))
      ((σ.get (2 * i + 1)).getD 0) ∧
    (σ.get (2 * i + 1)).isSome ∧
    ((Γ[i].chi == .ext) = isInt ρ[i]) ∧
    (Γ[i].chi != .ext → (σ.get (2 * i)).isSome)

structure Rel (P : Program) (hooks : Bool) (prog : Prog) (st : Pos.State) (cfg : Config) : Prop where
  len : st.env.length = st.ctx.length
  /-- capacity of the mock numbering: variable temporaries are below the special temporaries -/
  cap : 2 * st.ctx.length + 2 < Mock.T_TEMP
  vals : ValsOK P hooks prog.types cfg.heap cfg.temps st.ctx st.env
  heap : HeapOK cfg.heap (roots st.ctx cfg.temps) cfg.next
  code : ∃ c c' ops, (codeStatementR mockSym hooks natRen prog.types st.stmt st.ctx).run c = .ok (ops, c') ∧
    CodeAt P cfg.pc ops

/-- every definition's code is in the program, at its label -/
def DefsAt (P : Program) (hooks : Bool) (prog : Prog) : Prop :=
  ∀ d ∈ prog.defs, ∃ a c c' ops, P.labelAddr (d.name.print ++ "_") = some a ∧
    (codeStatementR mockSym hooks natRen prog.types d.body d.ctx).run c = .ok (ops, c') ∧ CodeAt P a ops

end Scc.Backend.Sim
