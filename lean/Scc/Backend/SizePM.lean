/-
  Scc.Backend.SizePM — C19 for the parallel moves of the generic code generator
  (parallel_moves.rs; Generic.lean `spanningForest` / `parallelMoves`), for an ARBITRARY backend record:

  if no temporary is the target of two moves (`(tgt pm).Nodup`: the flattened target lists are
  duplicate free) then the spanning forest has at most as many tree nodes + back edges as there are
  targets, hence (each tree node costs one `mov`, each back edge one `store_temporary`, each root at
  most one `restore_temporary`)

      |parallelMoves pm| ≤ 1 + c·|targets| + c·|sources|          (`parallelMoves_length`)

  where `c` bounds the length of `mov` / `store_temporary` / `restore_temporary` of the backend.
  Without the hypothesis the bound is false: `spanning_tree` unfolds the move graph into a tree, which
  is exponential on a DAG with in-degree 2 (never produced from a linearized program: the new names
  of a substitution are pairwise distinct, Scc/Backend/SizeConns.lean).

  Proof idea.  `IsST pm root n tr`: `tr` is the unfolding of the graph from `n`, stopping at `root`
  (what `spanningTree` returns for any sufficient fuel).  With in-degree ≤ 1: a node has one parent
  (`parent_unique`), a tree never contains its own root again (`IsST.acyclic`: the subtree at a second
  occurrence would be the tree itself by determinism), subtrees of distinct siblings are disjoint
  (`disj_tree`), so the nodes of the trees of one root are pairwise distinct (`AreSTs.nodup`).  The
  size of the trees is the total length of the target lists of these nodes (`AreSTs.sz`), all of which
  are deleted from the map before the next root is processed (`consume`).     Proof file.
-/
import Scc.Backend.Generic

set_option linter.unusedVariables false
set_option linter.unusedSimpArgs false

namespace Scc.Backend.SizePM

open Scc.AxCut Scc.Backend

section
variable {Code T : Type} (B : Backend Code T)

/-- `tempEq` decides equality -/
def LawfulEq : Prop := ∀ a b : T, B.tempEq a b = true ↔ a = b

/-- the targets of `n` (`[]` if `n` is not a key) -/
def targetsOf (pm : List (T × List T)) (n : T) : List T := (mapLookup B pm n).getD []

/-- all targets, with multiplicity -/
def tgt (pm : List (T × List T)) : List T := pm.flatMap (·.2)

mutual
  /-- number of tree nodes and back edges -/
  def treeSz : Tree T → Nat
    | .backEdge => 1
    | .node _ kids => 1 + treesSz kids
  def treesSz : List (Tree T) → Nat
    | [] => 0
    | k :: ks => treeSz k + treesSz ks
end

mutual
  /-- `tr` is the tree that `spanningTree pm root · n` builds (independently of the fuel) -/
  def IsST (pm : List (T × List T)) (root : T) : T → Tree T → Prop
    | n, .backEdge => n = root
    | n, .node t kids => n ≠ root ∧ t = n ∧ AreSTs pm root (targetsOf B pm n) kids
  def AreSTs (pm : List (T × List T)) (root : T) : List T → List (Tree T) → Prop
    | [], [] => True
    | t :: ts, k :: ks => IsST pm root t k ∧ AreSTs pm root ts ks
    | [], _ :: _ => False
    | _ :: _, [] => False
end

variable {B}

theorem mapExcept_ok_cons {α β : Type} {f : α → Except String β} {a : α} {as : List α} {r : List β}
    (h : mapExcept f (a :: as) = .ok r) :
    ∃ b bs, f a = .ok b ∧ mapExcept f as = .ok bs ∧ r = b :: bs := by
  simp only [mapExcept] at h
  split at h
  · cases h
  · next b hb =>
    split at h
    · cases h
    · next bs hbs => cases h; exact ⟨b, bs, hb, hbs, rfl⟩

theorem spanningTree_isST (heq : LawfulEq B) (pm : List (T × List T)) (root : T) :
    ∀ (fuel : Nat) (n : T) (tr : Tree T), spanningTree B pm root fuel n = .ok tr → IsST B pm root n tr := by
  intro fuel
  induction fuel with
  | zero => intro n tr h; simp [spanningTree] at h
  | succ fuel ih =>
    intro n tr h
    simp only [spanningTree] at h
    split at h
    · next hrn =>
      cases h
      exact ((heq _ _).1 hrn).symm
    · next hrn =>
      have hne : n ≠ root := fun e => hrn ((heq _ _).2 e.symm)
      have key : ∀ (ts : List T) (kids : List (Tree T)),
          mapExcept (spanningTree B pm root fuel) ts = .ok kids → AreSTs B pm root ts kids := by
        intro ts
        induction ts with
        | nil => intro kids hk; simp only [mapExcept] at hk; cases hk; trivial
        | cons t ts iht =>
          intro kids hk
          obtain ⟨y, ys, hy, hys, rfl⟩ := mapExcept_ok_cons hk
          exact ⟨ih t y hy, iht ys hys⟩
      split at h
      · next targets hl =>
        split at h
        · cases h
        · next kids hk =>
          cases h
          refine ⟨hne, rfl, ?_⟩
          simp only [targetsOf, hl, Option.getD_some]
          exact key _ _ hk
      · next hl =>
        cases h
        refine ⟨hne, rfl, ?_⟩
        simp only [targetsOf, hl, Option.getD_none]
        trivial

theorem mapExcept_areSTs (heq : LawfulEq B) (pm : List (T × List T)) (root : T) (fuel : Nat) :
    ∀ (ts : List T) (kids : List (Tree T)),
      mapExcept (spanningTree B pm root fuel) ts = .ok kids → AreSTs B pm root ts kids := by
  intro ts
  induction ts with
  | nil => intro kids hk; simp only [mapExcept] at hk; cases hk; trivial
  | cons t ts iht =>
    intro kids hk
    obtain ⟨y, ys, hy, hys, rfl⟩ := mapExcept_ok_cons hk
    exact ⟨spanningTree_isST heq pm root fuel t y hy, iht ys hys⟩

/-! ## facts about the unfolding trees -/

variable {pm : List (T × List T)} {root : T}

mutual
  theorem IsST.nodes_ne : ∀ (tr : Tree T) (n : T), IsST B pm root n tr →
      ∀ x ∈ Tree.nodes tr, x ≠ root
    | .backEdge, _, _, x, hx => by simp [Tree.nodes] at hx
    | .node t kids, n, h, x, hx => by
      obtain ⟨hne, rfl, hk⟩ := h
      simp only [Tree.nodes, List.mem_cons] at hx
      rcases hx with rfl | hx
      · exact hne
      · exact AreSTs.nodes_ne kids _ hk x hx
  theorem AreSTs.nodes_ne : ∀ (ks : List (Tree T)) (ts : List T), AreSTs B pm root ts ks →
      ∀ x ∈ Tree.nodesList ks, x ≠ root
    | [], _, _, x, hx => by simp [Tree.nodesList] at hx
    | k :: ks, [], h, _, _ => by simp [AreSTs] at h
    | k :: ks, t :: ts, h, x, hx => by
      simp only [Tree.nodesList, List.mem_append] at hx
      rcases hx with hx | hx
      · exact IsST.nodes_ne k t h.1 x hx
      · exact AreSTs.nodes_ne ks ts h.2 x hx
end

/-- total length of the target lists of the keys `P` -/
def degSum (B : Backend Code T) (pm : List (T × List T)) : List T → Nat
  | [] => 0
  | p :: ps => (targetsOf B pm p).length + degSum B pm ps

theorem degSum_append (P Q : List T) : degSum B pm (P ++ Q) = degSum B pm P + degSum B pm Q := by
  induction P with
  | nil => simp [degSum]
  | cons p ps ih => simp only [List.cons_append, degSum, ih]; omega

mutual
  /-- a tree has one node per … node, and one child per target of each of its nodes -/
  theorem IsST.sz : ∀ (tr : Tree T) (n : T), IsST B pm root n tr →
      treeSz tr = 1 + degSum B pm (Tree.nodes tr)
    | .backEdge, _, _ => by simp [treeSz, Tree.nodes, degSum]
    | .node t kids, n, h => by
      obtain ⟨hne, rfl, hk⟩ := h
      have := AreSTs.sz kids _ hk
      simp only [treeSz, Tree.nodes, degSum, this]
  theorem AreSTs.sz : ∀ (ks : List (Tree T)) (ts : List T), AreSTs B pm root ts ks →
      treesSz ks = ts.length + degSum B pm (Tree.nodesList ks)
    | [], [], _ => by simp [treesSz, Tree.nodesList, degSum]
    | [], _ :: _, h => by simp [AreSTs] at h
    | k :: ks, [], h => by simp [AreSTs] at h
    | k :: ks, t :: ts, h => by
      have h1 := IsST.sz k t h.1
      have h2 := AreSTs.sz ks ts h.2
      simp only [treesSz, Tree.nodesList, degSum_append, List.length_cons, h1, h2]; omega
end

mutual
  theorem IsST.det : ∀ (tr tr' : Tree T) (n : T), IsST B pm root n tr → IsST B pm root n tr' → tr = tr'
    | .backEdge, .backEdge, _, _, _ => rfl
    | .backEdge, .node _ _, _, h, h' => absurd h h'.1
    | .node _ _, .backEdge, _, h, h' => absurd h' h.1
    | .node t kids, .node t' kids', n, h, h' => by
      obtain ⟨_, rfl, hk⟩ := h
      obtain ⟨_, rfl, hk'⟩ := h'
      rw [AreSTs.det kids kids' _ hk hk']
  theorem AreSTs.det : ∀ (ks ks' : List (Tree T)) (ts : List T), AreSTs B pm root ts ks →
      AreSTs B pm root ts ks' → ks = ks'
    | [], [], _, _, _ => rfl
    | [], _ :: _, [], _, h' => by simp [AreSTs] at h'
    | [], _ :: _, _ :: _, h, _ => by simp [AreSTs] at h
    | _ :: _, [], [], h, _ => by simp [AreSTs] at h
    | _ :: _, [], _ :: _, _, h' => by simp [AreSTs] at h'
    | k :: ks, k' :: ks', [], h, _ => by simp [AreSTs] at h
    | k :: ks, k' :: ks', t :: ts, h, h' => by
      rw [IsST.det k k' t h.1 h'.1, AreSTs.det ks ks' ts h.2 h'.2]
end

mutual
  /-- at every node of a tree hangs the tree of that node -/
  theorem IsST.sub : ∀ (tr : Tree T) (n : T), IsST B pm root n tr → ∀ x ∈ Tree.nodes tr,
      ∃ sub, IsST B pm root x (.node x sub) ∧ treeSz (.node x sub) ≤ treeSz tr
    | .backEdge, _, _, x, hx => by simp [Tree.nodes] at hx
    | .node t kids, n, h, x, hx => by
      obtain ⟨hne, rfl, hk⟩ := h
      simp only [Tree.nodes, List.mem_cons] at hx
      rcases hx with rfl | hx
      · exact ⟨kids, ⟨hne, rfl, hk⟩, Nat.le_refl _⟩
      · obtain ⟨sub, h1, h2⟩ := AreSTs.sub kids _ hk x hx
        exact ⟨sub, h1, by simp only [treeSz] at h2 ⊢; omega⟩
  theorem AreSTs.sub : ∀ (ks : List (Tree T)) (ts : List T), AreSTs B pm root ts ks →
      ∀ x ∈ Tree.nodesList ks,
      ∃ sub, IsST B pm root x (.node x sub) ∧ treeSz (.node x sub) ≤ treesSz ks
    | [], _, _, x, hx => by simp [Tree.nodesList] at hx
    | k :: ks, [], h, _, _ => by simp [AreSTs] at h
    | k :: ks, t :: ts, h, x, hx => by
      simp only [Tree.nodesList, List.mem_append] at hx
      rcases hx with hx | hx
      · obtain ⟨sub, h1, h2⟩ := IsST.sub k t h.1 x hx
        exact ⟨sub, h1, by simp only [treesSz]; omega⟩
      · obtain ⟨sub, h1, h2⟩ := AreSTs.sub ks ts h.2 x hx
        exact ⟨sub, h1, by simp only [treesSz]; omega⟩
end

/-- a tree does not contain its own root label again -/
theorem IsST.acyclic {n : T} {kids : List (Tree T)} (h : IsST B pm root n (.node n kids)) :
    n ∉ Tree.nodesList kids := by
  intro hn
  obtain ⟨sub, h1, h2⟩ := AreSTs.sub kids _ h.2.2 n hn
  have e := IsST.det _ _ n h1 h
  rw [e] at h2
  simp only [treeSz] at h2
  omega

mutual
  theorem IsST.parent : ∀ (tr : Tree T) (n : T), IsST B pm root n tr → ∀ x ∈ Tree.nodes tr,
      x = n ∨ ∃ p ∈ Tree.nodes tr, x ∈ targetsOf B pm p
    | .backEdge, _, _, x, hx => by simp [Tree.nodes] at hx
    | .node t kids, n, h, x, hx => by
      obtain ⟨hne, rfl, hk⟩ := h
      simp only [Tree.nodes, List.mem_cons] at hx
      rcases hx with rfl | hx
      · exact Or.inl rfl
      · rcases AreSTs.parent kids _ hk x hx with h1 | ⟨p, hp, h1⟩
        · exact Or.inr ⟨t, by simp [Tree.nodes], h1⟩
        · exact Or.inr ⟨p, by simp [Tree.nodes, hp], h1⟩
  theorem AreSTs.parent : ∀ (ks : List (Tree T)) (ts : List T), AreSTs B pm root ts ks →
      ∀ x ∈ Tree.nodesList ks, x ∈ ts ∨ ∃ p ∈ Tree.nodesList ks, x ∈ targetsOf B pm p
    | [], _, _, x, hx => by simp [Tree.nodesList] at hx
    | k :: ks, [], h, _, _ => by simp [AreSTs] at h
    | k :: ks, t :: ts, h, x, hx => by
      simp only [Tree.nodesList, List.mem_append] at hx
      rcases hx with hx | hx
      · rcases IsST.parent k t h.1 x hx with rfl | ⟨p, hp, h1⟩
        · exact Or.inl (by simp)
        · exact Or.inr ⟨p, by simp [Tree.nodesList, hp], h1⟩
      · rcases AreSTs.parent ks ts h.2 x hx with h1 | ⟨p, hp, h1⟩
        · exact Or.inl (by simp [h1])
        · exact Or.inr ⟨p, by simp [Tree.nodesList, hp], h1⟩
end

/-! ## in-degree ≤ 1 -/

theorem mapLookup_some (heq : LawfulEq B) {k : T} {ts : List T} :
    ∀ {pm : List (T × List T)}, mapLookup B pm k = some ts → (k, ts) ∈ pm
  | [], h => by simp [mapLookup] at h
  | e :: rest, h => by
    simp only [mapLookup, List.find?_cons] at h
    cases hc : B.tempEq k e.1 with
    | true =>
      simp only [hc] at h
      cases h
      have := (heq _ _).1 hc
      simp [this]
    | false =>
      simp only [hc] at h
      have : mapLookup B rest k = some ts := by simpa [mapLookup] using h
      exact List.mem_cons_of_mem _ (mapLookup_some heq this)

theorem mem_targetsOf (heq : LawfulEq B) {p x : T} (h : x ∈ targetsOf B pm p) :
    ∃ ts, (p, ts) ∈ pm ∧ x ∈ ts ∧ targetsOf B pm p = ts := by
  unfold targetsOf at h ⊢
  cases hl : mapLookup B pm p with
  | none => simp [hl] at h
  | some ts =>
    simp only [hl, Option.getD_some] at h ⊢
    exact ⟨ts, mapLookup_some heq hl, h, rfl⟩

theorem nodup_flatMap_mem {α β : Type} {f : α → List β} : ∀ {l : List α}, (l.flatMap f).Nodup →
    ∀ {a b : α} {x : β}, a ∈ l → b ∈ l → x ∈ f a → x ∈ f b → a = b
  | [], _, _, _, _, ha, _, _, _ => by simp at ha
  | c :: r, hnd, a, b, x, ha, hb, hxa, hxb => by
    simp only [List.flatMap_cons, List.nodup_append] at hnd
    obtain ⟨h1, h2, h3⟩ := hnd
    simp only [List.mem_cons] at ha hb
    rcases ha with rfl | ha <;> rcases hb with rfl | hb
    · rfl
    · exact absurd rfl (h3 x hxa x (List.mem_flatMap.mpr ⟨b, hb, hxb⟩))
    · exact absurd rfl (h3 x hxb x (List.mem_flatMap.mpr ⟨a, ha, hxa⟩))
    · exact nodup_flatMap_mem h2 ha hb hxa hxb

theorem nodup_of_flatMap {α β : Type} {f : α → List β} : ∀ {l : List α}, (l.flatMap f).Nodup →
    ∀ {a : α}, a ∈ l → (f a).Nodup
  | [], _, _, ha => by simp at ha
  | c :: r, hnd, a, ha => by
    simp only [List.flatMap_cons, List.nodup_append] at hnd
    simp only [List.mem_cons] at ha
    rcases ha with rfl | ha
    · exact hnd.1
    · exact nodup_of_flatMap hnd.2.1 ha

/-- every temporary is the target of at most one source -/
theorem parent_unique (heq : LawfulEq B) (hnd : (tgt pm).Nodup) {x p q : T}
    (hp : x ∈ targetsOf B pm p) (hq : x ∈ targetsOf B pm q) : p = q := by
  obtain ⟨ts, h1, h2, _⟩ := mem_targetsOf heq hp
  obtain ⟨ts', h1', h2', _⟩ := mem_targetsOf heq hq
  have := nodup_flatMap_mem (f := fun e : T × List T => e.2) hnd h1 h1' h2 h2'
  exact congrArg Prod.fst this

theorem targetsOf_nodup (heq : LawfulEq B) (hnd : (tgt pm).Nodup) (p : T) : (targetsOf B pm p).Nodup := by
  unfold targetsOf
  cases hl : mapLookup B pm p with
  | none => simp
  | some ts =>
    simp only [Option.getD_some]
    exact nodup_of_flatMap (f := fun e : T × List T => e.2) hnd (mapLookup_some heq hl)

/-! ## the trees of distinct siblings are disjoint; the nodes of the trees of one root are distinct -/

mutual
  theorem disj_tree (heq : LawfulEq B) (hnd : (tgt pm).Nodup) (others : List (Tree T)) (tsO : List T)
      (hO : AreSTs B pm root tsO others) (x : T) (hx : ∀ t ∈ tsO, t ∈ targetsOf B pm x) :
      ∀ (tr : Tree T) (n : T), IsST B pm root n tr → n ∉ Tree.nodesList others → x ∉ Tree.nodes tr →
      ∀ y ∈ Tree.nodes tr, y ∉ Tree.nodesList others
    | .backEdge, _, _, _, _, y, hy => by simp [Tree.nodes] at hy
    | .node t kids, n, h, hn, hxn, y, hy => by
      obtain ⟨hne, rfl, hk⟩ := h
      simp only [Tree.nodes, List.mem_cons, not_or] at hy hxn
      rcases hy with rfl | hy
      · exact hn
      · refine disj_trees heq hnd others tsO hO x hx kids _ hk ?_ hxn.2 y hy
        intro c hc hco
        rcases AreSTs.parent others tsO hO c hco with h1 | ⟨p, hp, h1⟩
        · exact hxn.1 (parent_unique heq hnd (hx c h1) hc)
        · have := parent_unique heq hnd h1 hc
          subst this
          exact hn hp
  theorem disj_trees (heq : LawfulEq B) (hnd : (tgt pm).Nodup) (others : List (Tree T)) (tsO : List T)
      (hO : AreSTs B pm root tsO others) (x : T) (hx : ∀ t ∈ tsO, t ∈ targetsOf B pm x) :
      ∀ (ks : List (Tree T)) (ts : List T), AreSTs B pm root ts ks →
      (∀ t ∈ ts, t ∉ Tree.nodesList others) → x ∉ Tree.nodesList ks →
      ∀ y ∈ Tree.nodesList ks, y ∉ Tree.nodesList others
    | [], _, _, _, _, y, hy => by simp [Tree.nodesList] at hy
    | k :: ks, [], h, _, _, _, _ => by simp [AreSTs] at h
    | k :: ks, t :: ts, h, hts, hxn, y, hy => by
      simp only [Tree.nodesList, List.mem_append, not_or] at hy hxn
      rcases hy with hy | hy
      · exact disj_tree heq hnd others tsO hO x hx k t h.1 (hts t (by simp)) hxn.1 y hy
      · exact disj_trees heq hnd others tsO hO x hx ks ts h.2
          (fun t' ht' => hts t' (by simp [ht'])) hxn.2 y hy
end

mutual
  theorem IsST.nodup (heq : LawfulEq B) (hnd : (tgt pm).Nodup) : ∀ (tr : Tree T) (n : T),
      IsST B pm root n tr → (Tree.nodes tr).Nodup
    | .backEdge, _, _ => by simp [Tree.nodes]
    | .node t kids, n, h => by
      have hac := IsST.acyclic (by obtain ⟨a, rfl, c⟩ := h; exact ⟨a, rfl, c⟩ : IsST B pm root t (.node t kids))
      obtain ⟨hne, rfl, hk⟩ := h
      simp only [Tree.nodes, List.nodup_cons]
      exact ⟨hac, AreSTs.nodup heq hnd kids _ hk (targetsOf_nodup heq hnd t) t (fun _ h => h) hac⟩
  theorem AreSTs.nodup (heq : LawfulEq B) (hnd : (tgt pm).Nodup) : ∀ (ks : List (Tree T)) (ts : List T),
      AreSTs B pm root ts ks → ts.Nodup → ∀ x, (∀ t ∈ ts, t ∈ targetsOf B pm x) →
      x ∉ Tree.nodesList ks → (Tree.nodesList ks).Nodup
    | [], _, _, _, _, _, _ => by simp [Tree.nodesList]
    | k :: ks, [], h, _, _, _, _ => by simp [AreSTs] at h
    | k :: ks, t :: ts, h, htn, x, hx, hxn => by
      simp only [Tree.nodesList, List.mem_append, not_or] at hxn
      simp only [List.nodup_cons] at htn
      simp only [Tree.nodesList, List.nodup_append]
      refine ⟨IsST.nodup heq hnd k t h.1,
        AreSTs.nodup heq hnd ks ts h.2 htn.2 x (fun t' ht' => hx t' (by simp [ht'])) hxn.2, ?_⟩
      intro a ha b hb hab
      subst hab
      refine disj_tree heq hnd ks ts h.2 x (fun t' ht' => hx t' (by simp [ht'])) k t h.1 ?_ hxn.1 a ha hb
      intro htk
      rcases AreSTs.parent ks ts h.2 t htk with h1 | ⟨p, hp, h1⟩
      · exact htn.1 h1
      · have := parent_unique heq hnd h1 (hx t (by simp))
        subst this
        exact hxn.2 hp
end

/-! ## every target of a visited node is visited -/

mutual
  theorem IsST.label : ∀ (tr : Tree T) (n : T), IsST B pm root n tr →
      n ∈ Tree.nodes tr ∨ (n = root ∧ Tree.refersBack tr = true)
    | .backEdge, _, h => Or.inr ⟨h, by simp [Tree.refersBack]⟩
    | .node t kids, n, h => by
      obtain ⟨_, rfl, _⟩ := h
      exact Or.inl (by simp [Tree.nodes])
  theorem AreSTs.labels : ∀ (ks : List (Tree T)) (ts : List T), AreSTs B pm root ts ks →
      ∀ t ∈ ts, t ∈ Tree.nodesList ks ∨ (t = root ∧ Tree.anyRefersBack ks = true)
    | [], [], _, t, ht => by simp at ht
    | [], _ :: _, h, _, _ => by simp [AreSTs] at h
    | k :: ks, [], h, _, _ => by simp [AreSTs] at h
    | k :: ks, t :: ts, h, t', ht' => by
      simp only [List.mem_cons] at ht'
      rcases ht' with rfl | ht'
      · rcases IsST.label k _ h.1 with h1 | ⟨h1, h2⟩
        · exact Or.inl (by simp [Tree.nodesList, h1])
        · exact Or.inr ⟨h1, by simp [Tree.anyRefersBack, h2]⟩
      · rcases AreSTs.labels ks ts h.2 t' ht' with h1 | ⟨h1, h2⟩
        · exact Or.inl (by simp [Tree.nodesList, h1])
        · exact Or.inr ⟨h1, by simp [Tree.anyRefersBack, h2]⟩
end

mutual
  theorem IsST.closed : ∀ (tr : Tree T) (n : T), IsST B pm root n tr →
      ∀ p ∈ Tree.nodes tr, ∀ t ∈ targetsOf B pm p,
        t ∈ Tree.nodes tr ∨ (t = root ∧ Tree.refersBack tr = true)
    | .backEdge, _, _, p, hp, _, _ => by simp [Tree.nodes] at hp
    | .node t kids, n, h, p, hp, c, hc => by
      obtain ⟨hne, rfl, hk⟩ := h
      simp only [Tree.nodes, List.mem_cons] at hp
      rcases hp with rfl | hp
      · rcases AreSTs.labels kids _ hk c hc with h1 | ⟨h1, h2⟩
        · exact Or.inl (by simp [Tree.nodes, h1])
        · exact Or.inr ⟨h1, by simp [Tree.refersBack, h2]⟩
      · rcases AreSTs.closed kids _ hk p hp c hc with h1 | ⟨h1, h2⟩
        · exact Or.inl (by simp [Tree.nodes, h1])
        · exact Or.inr ⟨h1, by simp [Tree.refersBack, h2]⟩
  theorem AreSTs.closed : ∀ (ks : List (Tree T)) (ts : List T), AreSTs B pm root ts ks →
      ∀ p ∈ Tree.nodesList ks, ∀ t ∈ targetsOf B pm p,
        t ∈ Tree.nodesList ks ∨ (t = root ∧ Tree.anyRefersBack ks = true)
    | [], _, _, p, hp, _, _ => by simp [Tree.nodesList] at hp
    | k :: ks, [], h, _, _, _, _ => by simp [AreSTs] at h
    | k :: ks, t :: ts, h, p, hp, c, hc => by
      simp only [Tree.nodesList, List.mem_append] at hp
      rcases hp with hp | hp
      · rcases IsST.closed k t h.1 p hp c hc with h1 | ⟨h1, h2⟩
        · exact Or.inl (by simp [Tree.nodesList, h1])
        · exact Or.inr ⟨h1, by simp [Tree.anyRefersBack, h2]⟩
      · rcases AreSTs.closed ks ts h.2 p hp c hc with h1 | ⟨h1, h2⟩
        · exact Or.inl (by simp [Tree.nodesList, h1])
        · exact Or.inr ⟨h1, by simp [Tree.anyRefersBack, h2]⟩
end

/-! ## what `delete_targets` removes -/

attribute [local instance] Classical.propDecidable

/-- number of targets of `q` that are in `V` -/
noncomputable def cnt (B : Backend Code T) (V : List T) (pm : List (T × List T)) (q : T) : Nat :=
  ((targetsOf B pm q).filter (fun t => decide (t ∈ V))).length

noncomputable def sumCnt (B : Backend Code T) (V : List T) (pm : List (T × List T)) : List T → Nat
  | [] => 0
  | q :: qs => cnt B V pm q + sumCnt B V pm qs

/-- number of target occurrences that are in `V` -/
noncomputable def inV (V : List T) : List (T × List T) → Nat
  | [] => 0
  | e :: rest => (e.2.filter (fun t => decide (t ∈ V))).length + inV V rest

theorem memT_iff (heq : LawfulEq B) (t : T) (V : List T) : memT B t V = true ↔ t ∈ V := by
  simp only [memT, List.any_eq_true]
  constructor
  · rintro ⟨x, hx, h⟩; rw [(heq _ _).1 h]; exact hx
  · intro h; exact ⟨t, h, (heq _ _).2 rfl⟩

theorem filter_split {α : Type} (p : α → Bool) (l : List α) :
    (l.filter p).length + (l.filter (fun x => !p x)).length = l.length := by
  induction l with
  | nil => simp
  | cons a r ih =>
    simp only [List.filter_cons]
    cases p a <;> simp <;> omega

theorem inV_deleteTargets (heq : LawfulEq B) (V : List T) : ∀ (pm : List (T × List T)),
    inV V pm + (tgt (deleteTargets B V pm)).length = (tgt pm).length
  | [] => by simp [inV, tgt, deleteTargets]
  | e :: rest => by
    have ih := inV_deleteTargets heq V rest
    have h1 := filter_split (fun t => decide (t ∈ V)) e.2
    have e2 : (e.2.filter fun t => !memT B t V) = e.2.filter (fun t => !decide (t ∈ V)) := by
      apply List.filter_congr
      intro t _
      by_cases h : t ∈ V
      · simp [h, (memT_iff heq t V).2 h]
      · have : memT B t V = false := by
          cases hm : memT B t V
          · rfl
          · exact absurd ((memT_iff heq t V).1 hm) h
        simp [h, this]
    simp only [tgt, deleteTargets, List.map_cons, List.flatMap_cons, List.length_append, inV] at ih ⊢
    rw [e2]
    omega

theorem tgt_deleteTargets_nodup (V : List T) : ∀ (pm : List (T × List T)), (tgt pm).Nodup →
    (tgt (deleteTargets B V pm)).Nodup
  | [], _ => by simp [tgt, deleteTargets]
  | e :: rest, h => by
    simp only [tgt, List.flatMap_cons, List.nodup_append] at h
    have ih := tgt_deleteTargets_nodup V rest h.2.1
    simp only [tgt, deleteTargets, List.map_cons, List.flatMap_cons, List.nodup_append]
    refine ⟨h.1.filter _, ih, ?_⟩
    intro a ha b hb
    have ha' : a ∈ e.2 := (List.mem_filter.1 ha).1
    have hb' : b ∈ rest.flatMap (·.2) := by
      simp only [List.mem_flatMap, List.mem_map] at hb
      obtain ⟨e', ⟨e0, he0, rfl⟩, hb⟩ := hb
      exact List.mem_flatMap.mpr ⟨e0, he0, (List.mem_filter.1 hb).1⟩
    exact h.2.2 a ha' b hb'

theorem targetsOf_cons (heq : LawfulEq B) (k : T) (v : List T) (rest : List (T × List T)) (q : T) :
    targetsOf B ((k, v) :: rest) q = if q = k then v else targetsOf B rest q := by
  unfold targetsOf mapLookup
  simp only [List.find?_cons]
  by_cases h : q = k
  · simp [h, (heq k k).2 rfl]
  · have : B.tempEq q k = false := by
      cases hc : B.tempEq q k
      · rfl
      · exact absurd ((heq _ _).1 hc) h
    simp [h, this]

theorem sumCnt_cons (heq : LawfulEq B) (V : List T) (k : T) (v : List T) (rest : List (T × List T)) :
    ∀ (Q : List T), Q.Nodup →
      sumCnt B V ((k, v) :: rest) Q =
        (if k ∈ Q then (v.filter (fun t => decide (t ∈ V))).length else 0) +
          sumCnt B V rest (Q.filter (fun q => decide (q ≠ k)))
  | [], _ => by simp [sumCnt]
  | q :: Q, hq => by
    simp only [List.nodup_cons] at hq
    have ih := sumCnt_cons heq V k v rest Q hq.2
    by_cases h : q = k
    · subst h
      have hk : q ∉ Q := hq.1
      simp only [hk, if_false, Nat.zero_add] at ih
      simp only [sumCnt, cnt, targetsOf_cons heq, if_true, List.mem_cons, true_or, ih,
        List.filter_cons, ne_eq, not_true_eq_false, decide_false]
      simp
    · have hk : (k ∈ q :: Q) ↔ k ∈ Q := by
        simp only [List.mem_cons]
        constructor
        · rintro (h' | h')
          · exact absurd h'.symm h
          · exact h'
        · exact Or.inr
      simp only [sumCnt, cnt, targetsOf_cons heq, h, if_false, ih, hk, List.filter_cons, ne_eq,
        not_false_eq_true, decide_true, if_true]
      omega

/-- the targets counted at pairwise distinct keys sit in distinct entries of the map -/
theorem sumCnt_le_inV (heq : LawfulEq B) (V : List T) : ∀ (pm : List (T × List T)) (Q : List T),
    Q.Nodup → sumCnt B V pm Q ≤ inV V pm
  | [], Q, _ => by
    have : ∀ Q : List T, sumCnt B V [] Q = 0 := by
      intro Q; induction Q with
      | nil => rfl
      | cons q Q ih => simp [sumCnt, cnt, targetsOf, mapLookup, ih]
    simp [this, inV]
  | (k, v) :: rest, Q, hQ => by
    rw [sumCnt_cons heq V k v rest Q hQ]
    have ih := sumCnt_le_inV heq V rest (Q.filter (fun q => decide (q ≠ k))) (hQ.filter _)
    simp only [inV]
    split <;> omega

theorem filter_length_mono {α : Type} (p q : α → Bool) (l : List α) (h : ∀ x ∈ l, p x = true → q x = true) :
    (l.filter p).length ≤ (l.filter q).length := by
  induction l with
  | nil => simp
  | cons a r ih =>
    have ih' := ih (fun x hx => h x (by simp [hx]))
    simp only [List.filter_cons]
    cases hp : p a
    · cases q a <;> simp <;> omega
    · have := h a (by simp) hp
      simp [this]; omega

/-! ## the spanning forest has at most as many nodes and back edges as there are targets -/

def rootSz : Root T → Nat
  | .startNode _ kids => treesSz kids

def forestSz : List (Root T) → Nat
  | [] => 0
  | r :: rs => rootSz r + forestSz rs

theorem forest_sz (heq : LawfulEq B) (fuel : Nat) : ∀ (keys : List T) (pm : List (T × List T))
    (roots : List (Root T)), spanningForestLoop B fuel keys pm = .ok roots → (tgt pm).Nodup →
    forestSz roots ≤ (tgt pm).length ∧ roots.length = keys.length
  | [], pm, roots, h, _ => by
    simp only [spanningForestLoop] at h; cases h; simp [forestSz]
  | temporary :: keys, pm, roots, h, hnd => by
    simp only [spanningForestLoop] at h
    split at h
    · cases h
    · next targets0 hl =>
      split at h
      · cases h
      · next kids hk =>
        split at h
        · cases h
        · next rest hr =>
          cases h
          have hST := mapExcept_areSTs heq pm temporary fuel _ kids hk
          have hT0 : targetsOf B pm temporary = targets0 := by simp [targetsOf, hl]
          -- the visited set
          generalize hV : Root.visitedBy (Root.startNode temporary kids) = V at hr
          have hVn : ∀ x ∈ Tree.nodesList kids, x ∈ V := by
            intro x hx; rw [← hV]; simp [Root.visitedBy, hx]
          have hVr : Tree.anyRefersBack kids = true → temporary ∈ V := by
            intro hb; rw [← hV]; simp [Root.visitedBy, hb]
          obtain ⟨ih1, ih2⟩ := forest_sz heq fuel keys _ rest hr (tgt_deleteTargets_nodup V pm hnd)
          refine ⟨?_, by simp [ih2]⟩
          -- size of the trees of this root
          have hsz := AreSTs.sz kids _ hST
          have hne := AreSTs.nodes_ne kids _ hST
          have hTn : (targets0.filter fun t => !B.tempEq t temporary).Nodup := by
            rw [← hT0]; exact (targetsOf_nodup heq hnd temporary).filter _
          have hsub : ∀ t ∈ targets0.filter (fun t => !B.tempEq t temporary),
              t ∈ targetsOf B pm temporary := by
            intro t ht; rw [hT0]; exact (List.mem_filter.1 ht).1
          have hroot : temporary ∉ Tree.nodesList kids := fun hx => hne _ hx rfl
          have hnodes := AreSTs.nodup heq hnd kids _ hST hTn temporary hsub hroot
          have hQ : (temporary :: Tree.nodesList kids).Nodup := List.nodup_cons.2 ⟨hroot, hnodes⟩
          have hle := sumCnt_le_inV heq V pm _ hQ
          have hdel := inV_deleteTargets heq V pm
          -- every counted target is visited
          have hlab := AreSTs.labels kids _ hST
          have hclosed := AreSTs.closed kids _ hST
          have h1 : (targets0.filter fun t => !B.tempEq t temporary).length ≤ cnt B V pm temporary := by
            unfold cnt; rw [hT0]
            apply filter_length_mono
            intro t ht hp
            have : t ∈ targets0.filter (fun t => !B.tempEq t temporary) := List.mem_filter.2 ⟨ht, hp⟩
            rcases hlab t this with h' | ⟨h', hb⟩
            · simp [hVn t h']
            · simp [h', hVr hb]
          have h2 : ∀ (P : List T), (∀ p ∈ P, p ∈ Tree.nodesList kids) →
              degSum B pm P ≤ sumCnt B V pm P := by
            intro P
            induction P with
            | nil => intro _; simp [degSum, sumCnt]
            | cons p P ihP =>
              intro hP
              have ih' := ihP (fun q hq => hP q (by simp [hq]))
              have : (targetsOf B pm p).length ≤ cnt B V pm p := by
                unfold cnt
                have e : (targetsOf B pm p).filter (fun t => decide (t ∈ V)) = targetsOf B pm p := by
                  apply List.filter_eq_self.2
                  intro t ht
                  rcases hclosed p (hP p (by simp)) t ht with h' | ⟨h', hb⟩
                  · simp [hVn t h']
                  · simp [h', hVr hb]
                rw [e]; exact Nat.le_refl _
              simp only [degSum, sumCnt]; omega
          have h3 := h2 (Tree.nodesList kids) (fun _ h => h)
          simp only [sumCnt] at hle
          simp only [forestSz, rootSz]
          omega

/-! ## the emitted moves -/

/-- `c` bounds the code of one move / save / restore of the backend -/
structure MoveCost (B : Backend Code T) (c : Nat) : Prop where
  mov : ∀ a b, (B.mov a b).length ≤ c
  storeTemporary : ∀ t s, (B.storeTemporary t s).length ≤ c
  restoreTemporary : ∀ t s, (B.restoreTemporary t s).length ≤ c

mutual
  theorem treeMoves_length {c : Nat} (hc : MoveCost B c) (t : T) (sp : Bool) : ∀ (tr : Tree T),
      (treeMoves B t sp tr).length ≤ c * treeSz tr
    | .backEdge => by simp only [treeMoves, treeSz]; have := hc.storeTemporary t sp; omega
    | .node target kids => by
      have h1 := treeMovesList_length hc target sp kids
      have h2 := hc.mov target t
      simp only [treeMoves, treeSz, List.length_append, Nat.mul_add, Nat.mul_one]; omega
  theorem treeMovesList_length {c : Nat} (hc : MoveCost B c) (t : T) (sp : Bool) :
      ∀ (ks : List (Tree T)), (treeMovesList B t sp ks).length ≤ c * treesSz ks
    | [] => by simp [treeMovesList]
    | k :: ks => by
      have h1 := treeMoves_length hc t sp k
      have h2 := treeMovesList_length hc t sp ks
      simp only [treeMovesList, treesSz, List.length_append, Nat.mul_add]; omega
end

theorem rootMoves_length {c : Nat} (hc : MoveCost B c) : ∀ (r : Root T),
    (rootMoves B r).length ≤ c * rootSz r + c
  | .startNode t kids => by
    have h1 := treeMovesList_length hc t (B.containsSpillEdge (.startNode t kids)) kids
    have h2 := hc.restoreTemporary t (B.containsSpillEdge (.startNode t kids))
    simp only [rootMoves, rootSz, List.length_append]
    split <;> simp <;> omega

theorem forestMoves_length {c : Nat} (hc : MoveCost B c) : ∀ (forest : List (Root T)),
    ((forest.map (rootMoves B)).flatten).length ≤ c * forestSz forest + c * forest.length
  | [] => by simp [forestSz]
  | r :: rs => by
    have h1 := rootMoves_length hc r
    have h2 := forestMoves_length hc rs
    simp only [List.map_cons, List.flatten_cons, List.length_append, forestSz, List.length_cons,
      Nat.mul_add, Nat.mul_one]; omega

/-- C19 for `parallel_moves`: linear in the number of targets and sources -/
theorem parallelMoves_length {c : Nat} (heq : LawfulEq B) (hc : MoveCost B c) (pm : List (T × List T))
    (hnd : (tgt pm).Nodup) {code : List Code} (h : parallelMoves B pm = .ok code) :
    code.length ≤ 1 + c * (tgt pm).length + c * pm.length := by
  unfold parallelMoves spanningForest at h
  split at h
  · cases h
  · next forest hf =>
    cases h
    obtain ⟨h1, h2⟩ := forest_sz heq _ _ pm forest hf hnd
    have h3 := forestMoves_length hc forest
    have h4 : c * forestSz forest ≤ c * (tgt pm).length := Nat.mul_le_mul_left _ h1
    simp only [List.length_map] at h2
    simp only [List.length_append]
    rw [h2] at h3
    split
    · simp only [List.length_singleton]; omega
    · simp only [List.length_nil]; omega

end

end Scc.Backend.SizePM
