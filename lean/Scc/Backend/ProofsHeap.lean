/-
  Scc.Backend.ProofsHeap — Theorem A for the allocating statements `let` and `create`:
  `store` against the representation relation and the counting invariant `HeapOK`.
  Proof file.
-/
import Scc.Backend.ProofsSim

set_option linter.unusedSimpArgs false
set_option linter.unusedVariables false

namespace Scc.Backend.Sim

open Scc.AxCut Scc.AxCut.Pos Scc.Backend Scc.Backend.Abs

/-! ## the representation is stable under heap extension -/

/-- `h'` agrees with `h` on every object of `h` -/
def HeapExt (h h' : Heap) : Prop := ∀ id o, h.get id = some o → h'.get id = some o

mutual
theorem RepVal.ext {P : Program} {hooks : Bool} {types : List TypeDecl} {h h' : Heap}
    (he : HeapExt h h') : ∀ {v : Value} {p : Option Word} {w : Word},
    RepVal P hooks types h v p w → RepVal P hooks types h' v p w
  | _, _, _, .int n p => .int n p
  | _, _, _, .obj tag fields r hb => .obj tag fields r (RepBlock.ext he hb)
  | _, _, _, .clo envCtx env clauses r a hb hm => .clo envCtx env clauses r a (RepBlock.ext he hb) hm
theorem RepBlock.ext {P : Program} {hooks : Bool} {types : List TypeDecl} {h h' : Heap}
    (he : HeapExt h h') : ∀ {vs : List Value} {r : Word},
    RepBlock P hooks types h vs r → RepBlock P hooks types h' vs r
  | _, _, .empty => .empty
  | _, _, .block v vs r o hr hg hf => .block v vs r o hr (he _ _ hg) (RepFields.ext he hf)
theorem RepFields.ext {P : Program} {hooks : Bool} {types : List TypeDecl} {h h' : Heap}
    (he : HeapExt h h') : ∀ {vs : List Value} {fs : List Field},
    RepFields P hooks types h vs fs → RepFields P hooks types h' vs fs
  | _, _, .nil => .nil
  | _, _, .cons v vs f fs hv hk hr => .cons v vs f fs (RepVal.ext he hv) hk (RepFields.ext he hr)
end

theorem ValsOK.ext {P : Program} {hooks : Bool} {types : List TypeDecl} {h h' : Heap} {σ : Temps}
    {Γ : Ctx} {ρ : List Value} (V : ValsOK P hooks types h σ Γ ρ) (he : HeapExt h h') :
    ValsOK P hooks types h' σ Γ ρ := by
  intro i h1 h2
  obtain ⟨a, b, c, d⟩ := V i h1 h2
  exact ⟨RepVal.ext he a, b, c, d⟩

theorem heap_get_cons_ne {h : Heap} {id id' : Nat} {o : Obj} (hne : id' ≠ id) :
    Heap.get ((id, o) :: h) id' = h.get id' := by
  unfold Heap.get
  have : (id == id') = false := by simp [Ne.symm hne]
  simp [List.find?_cons, this]

theorem heap_get_cons_same {h : Heap} {id : Nat} {o : Obj} : Heap.get ((id, o) :: h) id = some o := by
  unfold Heap.get; simp

theorem heap_get_mem {h : Heap} {id : Nat} {o : Obj} (hg : h.get id = some o) : (id, o) ∈ h := by
  unfold Heap.get at hg
  cases hf : h.find? (fun e => e.1 == id) with
  | none => simp [hf] at hg
  | some e =>
    simp only [hf, Option.some.injEq] at hg
    have hm := List.mem_of_find?_eq_some hf
    have hp := List.find?_some hf
    simp only [beq_iff_eq] at hp
    obtain ⟨e1, e2⟩ := e
    simp only at hp hg
    subst hp hg
    exact hm

theorem heapExt_cons {h : Heap} {id : Nat} {o : Obj} (hfresh : ∀ e ∈ h, e.1 ≠ id) :
    HeapExt h ((id, o) :: h) := by
  intro id' o' hg
  have hm := heap_get_mem hg
  have hne : id' ≠ id := hfresh _ hm
  rw [heap_get_cons_ne hne]; exact hg


/-! ## what `store` reads -/

/-- the positions `k, k+1, …` represent the values `ρΔ` with the bindings `Δ` -/
def SliceOK (P : Program) (hooks : Bool) (types : List TypeDecl) (h : Heap) (σ : Temps) (Δ : Ctx)
    (ρΔ : List Value) (k : Nat) : Prop :=
  ∀ i (h1 : i < Δ.length) (h2 : i < ρΔ.length),
    RepVal P hooks types h ρΔ[i]
      (if Δ[i].chi == .ext then none else σ.get (2 * (k + i)))
      ((σ.get (2 * (k + i) + 1)).getD 0) ∧
    (σ.get (2 * (k + i) + 1)).isSome ∧
    ((Δ[i].chi == .ext) = isInt ρΔ[i]) ∧
    (Δ[i].chi != .ext → (σ.get (2 * (k + i))).isSome)

theorem ValsOK.slice {P : Program} {hooks : Bool} {types : List TypeDecl} {h : Heap} {σ : Temps}
    {Γ : Ctx} {ρ : List Value} (V : ValsOK P hooks types h σ Γ ρ) (n : Nat) :
    SliceOK P hooks types h σ (Γ.drop n) (ρ.drop n) n := by
  intro i h1 h2
  have h1' : n + i < Γ.length := by simp at h1; omega
  have h2' : n + i < ρ.length := by simp at h2; omega
  have g1 : (Γ.drop n)[i] = Γ[n + i] := by simp
  have g2 : (ρ.drop n)[i] = ρ[n + i] := by simp
  rw [g1, g2]
  exact V (n + i) h1' h2'

theorem SliceOK.tail {P : Program} {hooks : Bool} {types : List TypeDecl} {h : Heap} {σ : Temps}
    {b : Binding} {Δ : Ctx} {v : Value} {vs : List Value} {k : Nat}
    (S : SliceOK P hooks types h σ (b :: Δ) (v :: vs) k) : SliceOK P hooks types h σ Δ vs (k + 1) := by
  intro i h1 h2
  have := S (i + 1) (by simp; omega) (by simp; omega)
  simp only [List.getElem_cons_succ] at this
  rw [show k + (i + 1) = k + 1 + i by omega] at this
  exact this

theorem readFields_ok {P : Program} {hooks : Bool} {types : List TypeDecl} {h : Heap} {σ : Temps} :
    ∀ (Δ : Ctx) (ρΔ : List Value) (k : Nat), SliceOK P hooks types h σ Δ ρΔ k → ρΔ.length = Δ.length →
    ∃ fields, readFields σ (Mock.kindsOf Δ) k = some fields ∧ RepFields P hooks types h ρΔ fields ∧
      ∀ c, Obj.children ⟨c, fields⟩ = roots.go σ Δ k
  | [], ρΔ, k, _, hl => by
    have : ρΔ = [] := List.length_eq_zero_iff.mp (by simpa using hl)
    subst this
    exact ⟨[], rfl, .nil, fun _ => rfl⟩
  | b :: Δ, ρΔ, k, S, hl => by
    cases ρΔ with
    | nil => simp at hl
    | cons v vs =>
      obtain ⟨fs, hfs, hrep, hch⟩ := readFields_ok Δ vs (k + 1) S.tail (by simpa using hl)
      obtain ⟨hv, hsome, hkind, hptr⟩ := S 0 (by simp) (by simp)
      simp only [List.getElem_cons_zero, Nat.add_zero] at hv hsome hkind hptr
      cases hw : σ.get (2 * k + 1) with
      | none => simp [hw] at hsome
      | some w =>
        simp only [hw, Option.getD_some] at hv
        by_cases hext : (b.chi == .ext) = true
        · refine ⟨⟨b.chi, 0, w⟩ :: fs, ?_, ?_, ?_⟩
          · have hfs' : readFields σ (List.map (fun x => x.chi) Δ) (k + 1) = some fs := hfs
            simp [Mock.kindsOf, readFields, hw, hext, hfs']
          · refine .cons v vs _ fs ?_ ?_ hrep
            · simp only [hext, if_true] at hv ⊢; exact hv
            · simp only; exact hkind
          · intro c
            have hne : (b.chi != .ext) = false := by simp [bne, hext]
            simp only [Obj.children, List.filterMap_cons, roots.go, hne, Bool.false_and,
              Bool.false_eq_true, if_false, List.nil_append]
            exact hch c
        · have hne : (b.chi != .ext) = true := by simp [bne, hext]
          have hps := hptr hne
          cases hp : σ.get (2 * k) with
          | none => simp [hp] at hps
          | some p =>
            refine ⟨⟨b.chi, p, w⟩ :: fs, ?_, ?_, ?_⟩
            · have hext' : (b.chi == .ext) = false := by simpa using hext
              have hfs' : readFields σ (List.map (fun x => x.chi) Δ) (k + 1) = some fs := hfs
              simp [Mock.kindsOf, readFields, hw, hext', hp, hfs']
            · refine .cons v vs _ fs ?_ ?_ hrep
              · simp only [hext, hp] at hv ⊢
                simpa using hv
              · simp only; exact hkind
            · intro c
              simp only [Obj.children, List.filterMap_cons, roots.go, hne, Bool.true_and, hp,
                if_true]
              by_cases hp0 : (p != 0) = true
              · simp only [hp0, if_true, List.singleton_append, List.cons.injEq, true_and]
                exact hch c
              · simp only [hp0, Bool.false_eq_true, if_false, List.nil_append]
                exact hch c


/-! ## allocation preserves the counting invariant -/

theorem refCount_cons (h : Heap) (rs : List Nat) (id : Nat) (o : Obj) (x : Nat) :
    refCount ((id, o) :: h) rs x = rs.count x + (o.children.count x +
      (h.map fun e => e.2.children.count x).sum) := by
  simp [refCount]

theorem heap_get_isSome_mem {h : Heap} {id : Nat} (hs : (h.get id).isSome) : ∃ o, (id, o) ∈ h := by
  cases hg : h.get id with
  | none => simp [hg] at hs
  | some o => exact ⟨o, heap_get_mem hg⟩

theorem heapOK_alloc {h : Heap} {rsKeep rsDrop : List Nat} {next : Nat} {o : Obj}
    (H : HeapOK h (rsKeep ++ rsDrop) next) (hc : o.count = 0) (hch : o.children = rsDrop)
    (hn : next < 2 ^ 64) :
    HeapOK ((next, o) :: h) (rsKeep ++ [next]) (next + 1) := by
  have hfresh : ∀ e ∈ h, e.1 ≠ next := fun e he => Nat.ne_of_lt (H.ids e he).2.1
  have hzero : refCount h (rsKeep ++ rsDrop) next = 0 := by
    cases hr : refCount h (rsKeep ++ rsDrop) next with
    | zero => rfl
    | succ m =>
      have := H.live next (by omega)
      obtain ⟨o', ho'⟩ := heap_get_isSome_mem this
      exact absurd rfl (hfresh _ ho')
  have key : ∀ x, refCount ((next, o) :: h) (rsKeep ++ [next]) x =
      refCount h (rsKeep ++ rsDrop) x + (if x = next then 1 else 0) := by
    intro x
    rw [refCount_cons, hch]
    simp only [refCount, List.count_append, List.count_cons, List.count_nil]
    by_cases hx : next = x
    · subst hx; simp; omega
    · have : (next == x) = false := by simp [hx]
      have hx' : ¬ x = next := fun e => hx e.symm
      simp [this, hx']; omega
  exact {
    pos := by omega
    nodup := by
      simp only [List.map_cons, List.nodup_cons]
      refine ⟨?_, H.nodup⟩
      intro hm
      obtain ⟨e, he, he1⟩ := List.mem_map.mp hm
      exact hfresh e he he1
    ids := by
      intro e he
      simp only [List.mem_cons] at he
      rcases he with rfl | he
      · exact ⟨H.pos, by simp, hn⟩
      · obtain ⟨a, b, c⟩ := H.ids e he
        exact ⟨a, by omega, c⟩
    counts := by
      intro e he
      simp only [List.mem_cons] at he
      rcases he with rfl | he
      · rw [key]; simp [hc, hzero]
      · rw [key]
        have := hfresh e he
        simp [this, H.counts e he]
    live := by
      intro id hid
      rw [key] at hid
      by_cases hx : id = next
      · subst hx; simp [heap_get_cons_same]
      · simp only [hx, if_false, Nat.add_zero] at hid
        rw [heap_get_cons_ne hx]
        exact H.live id hid }


/-! ## the `store` instruction -/

theorem get_clearPositions (σ : Temps) (n cnt t : Nat) :
    (clearPositions σ n cnt).get t = if 2 * n ≤ t ∧ t < 2 * (n + cnt) then none else σ.get t := by
  unfold clearPositions Temps.get
  induction σ with
  | nil => simp
  | cons e σ ih =>
    by_cases h1 : 2 * n ≤ e.1 ∧ e.1 < 2 * (n + cnt)
    · have hb : (!(decide (2 * n ≤ e.1) && decide (e.1 < 2 * (n + cnt)))) = false := by simp [h1]
      simp only [List.filter_cons, hb, Bool.false_eq_true, if_false, List.find?_cons]
      by_cases h2 : e.1 = t
      · subst h2
        simp only [beq_self_eq_true, h1, and_self, if_true]
        rw [ih]; simp [h1]
      · have : (e.1 == t) = false := by simp [h2]
        simp only [this]
        exact ih
    · have hb : (!(decide (2 * n ≤ e.1) && decide (e.1 < 2 * (n + cnt)))) = true := by
        simp only [Bool.not_eq_true', Bool.and_eq_false_iff, decide_eq_false_iff_not]
        by_cases h3 : 2 * n ≤ e.1
        · exact Or.inr (fun h4 => h1 ⟨h3, h4⟩)
        · exact Or.inl h3
      simp only [List.filter_cons, hb, if_true, List.find?_cons]
      by_cases h2 : e.1 = t
      · subst h2; simp [h1]
      · have : (e.1 == t) = false := by simp [h2]
        simp only [this]
        exact ih

theorem step_store_empty (P : Program) (cfg : Config) (n : Nat)
    (hc : P.code[cfg.pc]? = some (.store [] n)) :
    Abs.step P cfg = .next { cfg with pc := cfg.pc + 1, temps := (clobberTemp cfg.temps).set (2 * n) 0 } := by
  simp [Abs.step, hc]

theorem step_store_cons (P : Program) (cfg : Config) (k : Chi) (ks : List Chi) (n : Nat)
    (fields : List Field)
    (hc : P.code[cfg.pc]? = some (.store (k :: ks) n))
    (hf : readFields cfg.temps (k :: ks) n = some fields) :
    Abs.step P cfg = .next { cfg with pc := cfg.pc + 1,
                                      temps := (clearPositions (clobberTemp cfg.temps) n (k :: ks).length).set
                                        (2 * n) (BitVec.ofNat 64 cfg.next),
                                      heap := (cfg.next, ⟨0, fields⟩) :: cfg.heap,
                                      next := cfg.next + 1 } := by
  simp [Abs.step, hc, hf]

theorem ofNat_toNat_lt {x : Nat} (h : x < 2 ^ 64) : (BitVec.ofNat 64 x).toNat = x := by
  simp [BitVec.toNat_ofNat, Nat.mod_eq_of_lt h]

theorem ofNat_ne_zero {x : Nat} (h0 : 0 < x) (h : x < 2 ^ 64) : BitVec.ofNat 64 x ≠ 0 := by
  intro e
  have := congrArg BitVec.toNat e
  rw [ofNat_toNat_lt h] at this
  simp at this
  omega

/-- the common part of `let` and `create`: the last `k` positions are stored into a fresh object
    (or nothing is allocated when `k = 0`); afterwards temporary `2n` references the block -/
theorem store_sim {P : Program} {hooks : Bool} {types : List TypeDecl} {Γ : Ctx} {ρ : List Value}
    {cfg : Config} (k : Nat)
    (V : ValsOK P hooks types cfg.heap cfg.temps Γ ρ) (hlen : ρ.length = Γ.length)
    (hcap : 2 * Γ.length + 2 < Mock.T_TEMP)
    (H : HeapOK cfg.heap (roots Γ cfg.temps) cfg.next) (hk : k ≤ Γ.length)
    (hnext : cfg.next < 2 ^ 64)
    (hc : P.code[cfg.pc]? = some (.store (Mock.kindsOf (Γ.drop (Γ.length - k)))
      (Γ.take (Γ.length - k)).length)) :
    ∃ cfg1 r, Abs.step P cfg = .next cfg1 ∧ cfg1.pc = cfg.pc + 1 ∧ cfg1.out = cfg.out ∧
      cfg1.temps.get (2 * (Γ.length - k)) = some r ∧
      RepBlock P hooks types cfg1.heap (ρ.drop (Γ.length - k)) r ∧
      (∀ t, t < 2 * (Γ.length - k) → cfg1.temps.get t = cfg.temps.get t) ∧
      HeapExt cfg.heap cfg1.heap ∧
      HeapOK cfg1.heap (roots (Γ.take (Γ.length - k)) cfg.temps ++ (if r != 0 then [r.toNat] else []))
        cfg1.next := by
  have hn : (Γ.take (Γ.length - k)).length = Γ.length - k := by simp
  rw [hn] at hc
  have hroots : roots Γ cfg.temps =
      roots (Γ.take (Γ.length - k)) cfg.temps ++
        roots.go cfg.temps (Γ.drop (Γ.length - k)) (Γ.length - k) := by
    unfold roots
    conv => lhs; rw [← List.take_append_drop (Γ.length - k) Γ]
    rw [roots_go_append, hn, Nat.zero_add]
  have hlow : ∀ (σ' : Temps) (t : Nat), t < 2 * (Γ.length - k) → t ≠ Mock.T_TEMP := by
    intro _ t ht; omega
  cases hΔ : Γ.drop (Γ.length - k) with
  | nil =>
    rw [hΔ] at hc
    have hρ : ρ.drop (Γ.length - k) = [] := by
      have h1 : (Γ.drop (Γ.length - k)).length = 0 := by rw [hΔ]; rfl
      apply List.eq_nil_of_length_eq_zero
      simp only [List.length_drop] at h1 ⊢
      omega
    refine ⟨_, 0, step_store_empty P cfg _ hc, rfl, rfl, get_set_same _ _ _, ?_, ?_, ?_, ?_⟩
    · rw [hρ]; exact .empty
    · intro t ht
      have h1 : t ≠ 2 * (Γ.length - k) := by omega
      have h2 : t ≠ Mock.T_TEMP := by omega
      rw [get_set_other _ _ h1, get_clobberTemp _ h2]
    · intro id o h; exact h
    · rw [hroots, hΔ] at H
      simpa [roots.go] using H
  | cons b Δ =>
    rw [hΔ] at hc
    have S := V.slice (Γ.length - k)
    rw [hΔ] at S
    have hlenΔ : (ρ.drop (Γ.length - k)).length = (b :: Δ).length := by
      rw [← hΔ]; simp [hlen]
    obtain ⟨fields, hf, hrep, hch⟩ := readFields_ok (b :: Δ) _ _ S hlenΔ
    have hfresh : ∀ e ∈ cfg.heap, e.1 ≠ cfg.next := fun e he => Nat.ne_of_lt (H.ids e he).2.1
    have hext : HeapExt cfg.heap ((cfg.next, ⟨0, fields⟩) :: cfg.heap) := heapExt_cons hfresh
    have hr0 : BitVec.ofNat 64 cfg.next ≠ 0 := ofNat_ne_zero H.pos hnext
    have hrt : (BitVec.ofNat 64 cfg.next).toNat = cfg.next := ofNat_toNat_lt hnext
    refine ⟨_, BitVec.ofNat 64 cfg.next, step_store_cons P cfg _ _ _ fields hc hf, rfl, rfl,
      get_set_same _ _ _, ?_, ?_, hext, ?_⟩
    · cases hρ : ρ.drop (Γ.length - k) with
      | nil => rw [hρ] at hlenΔ; simp at hlenΔ
      | cons v vs =>
        rw [hρ] at hrep
        refine .block v vs _ ⟨0, fields⟩ hr0 ?_ (RepFields.ext hext hrep)
        rw [hrt]; exact heap_get_cons_same
    · intro t ht
      have h1 : t ≠ 2 * (Γ.length - k) := by omega
      have h2 : t ≠ Mock.T_TEMP := by omega
      rw [get_set_other _ _ h1, get_clearPositions]
      rw [if_neg (by omega)]
      exact get_clobberTemp _ h2
    · have hb : (BitVec.ofNat 64 cfg.next != 0) = true := by rw [bne_iff_ne]; exact hr0
      simp only [hb, if_true, hrt]
      rw [hroots, hΔ] at H
      exact heapOK_alloc H rfl (hch 0) hnext


/-! ## simulation: `let` -/

theorem ValsOK.take {P : Program} {hooks : Bool} {types : List TypeDecl} {h : Heap} {σ : Temps}
    {Γ : Ctx} {ρ : List Value} (V : ValsOK P hooks types h σ Γ ρ) (n : Nat) :
    ValsOK P hooks types h σ (Γ.take n) (ρ.take n) := by
  intro i h1 h2
  have h1' : i < Γ.length := by simp at h1; omega
  have h2' : i < ρ.length := by simp at h2; omega
  have g1 : (Γ.take n)[i] = Γ[i] := by simp
  have g2 : (ρ.take n)[i] = ρ[i] := by simp
  rw [g1, g2]
  exact V i h1' h2'

theorem ValsOK_snoc {P : Program} {hooks : Bool} {types : List TypeDecl} {h : Heap} {σ σ' : Temps}
    {Γ : Ctx} {ρ : List Value} (V : ValsOK P hooks types h σ Γ ρ) (hlen : ρ.length = Γ.length)
    (hσ : ∀ t, t < 2 * Γ.length → σ'.get t = σ.get t) (b : Binding) (v : Value) (w : Word)
    (hw : σ'.get (2 * Γ.length + 1) = some w)
    (hv : RepVal P hooks types h v (if b.chi == .ext then none else σ'.get (2 * Γ.length)) w)
    (hkind : (b.chi == .ext) = isInt v)
    (hptr : b.chi != .ext → (σ'.get (2 * Γ.length)).isSome) :
    ValsOK P hooks types h σ' (Γ ++ [b]) (ρ ++ [v]) := by
  intro i h1 h2
  by_cases hi : i < Γ.length
  · have hi2 : i < ρ.length := by omega
    have e0 := hσ (2 * i) (by omega)
    have e1 := hσ (2 * i + 1) (by omega)
    rw [e0, e1]
    have g1 : (Γ ++ [b])[i] = Γ[i] := List.getElem_append_left hi
    have g2 : (ρ ++ [v])[i] = ρ[i] := List.getElem_append_left hi2
    rw [g1, g2]
    exact V i hi hi2
  · have hi' : i = Γ.length := by simp at h1; omega
    subst hi'
    have g1 : (Γ ++ [b])[Γ.length] = b := by simp
    have g2 : (ρ ++ [v])[Γ.length] = v := by
      rw [List.getElem_append_right (by omega)]; simp [hlen]
    rw [g1, g2, hw]
    exact ⟨by simpa using hv, rfl, hkind, hptr⟩

theorem tagPosition_ok {types : List TypeDecl} {ty : Ty} {tag : Ident} {pos : Nat}
    (h : Pos.tagPosition types ty tag = .ok pos) :
    ∃ d, lookupTypeDecl types ty = some d ∧ xtorPosition d tag = some pos := by
  unfold Pos.tagPosition at h
  cases hd : lookupTypeDecl types ty with
  | none => simp [hd] at h
  | some d =>
    simp only [hd] at h
    cases hx : xtorPosition d tag with
    | none => simp [hx] at h
    | some i =>
      simp only [hx, Except.ok.injEq] at h
      subst h
      exact ⟨d, rfl, hx⟩

theorem sim_let {P : Program} {hooks : Bool} {prog : Prog} {Γ : Ctx} {ρ : List Value} {x : Ident}
    {ty : Ty} {tag : Ident} {args : Ctx} {next : Stmt} {fv : FV} {cfg : Config} {pos : Nat}
    (R : Rel P hooks prog ⟨Γ, ρ, .letS x ty tag args next fv⟩ cfg)
    (hk : args.length ≤ Γ.length)
    (hfresh : ∀ b ∈ Γ.take (Γ.length - args.length), b.var.id ≠ x.id)
    (hpos : Pos.tagPosition prog.types ty tag = .ok pos)
    (hcap : 2 * (Γ.length - args.length + 1) + 2 < Mock.T_TEMP)
    (hnext : cfg.next < 2 ^ 64) :
    ∃ cfg', stepsTo P 2 cfg cfg' ∧ cfg'.out = cfg.out ∧
      Rel P hooks prog ⟨Γ.take (Γ.length - args.length) ++ [⟨x, .prd, ty⟩],
        ρ.take (Γ.length - args.length) ++ [.obj pos (ρ.drop (Γ.length - args.length))], next⟩ cfg' := by
  obtain ⟨c, c', ops, hrun, hat⟩ := R.code
  obtain ⟨d, hd, hx⟩ := tagPosition_ok hpos
  simp only [codeStatementR, run_bind_ok, run_pure_ok, lookupTypeDeclM_run_ok, xtorPositionM_run_ok,
    splitOffLast_run_ok, mockSym_store, mockSym_variableTemporary, vt_run_ok] at hrun
  obtain ⟨decl, k1, ⟨hd', rfl⟩, pos', k2, ⟨hx', rfl⟩, sp, k3, ⟨_, rfl, rfl⟩, c1, k4, ⟨rfl, rfl⟩, t, k5,
    ⟨p, hp, rfl, rfl⟩, c3, k6, h3, rfl, rfl⟩ := hrun
  rw [hd] at hd'; cases hd'
  rw [hx] at hx'; cases hx'
  have hn : (Γ.take (Γ.length - args.length)).length = Γ.length - args.length := by simp
  have hp' : p = Γ.length - args.length := by
    rw [ctxPosition_eq_posOf] at hp
    have := posOf_append_fresh (Γ.take (Γ.length - args.length)) ⟨x, .prd, ty⟩ hfresh
    simp only at hp
    rw [this, hn] at hp
    exact (Option.some.inj hp).symm
  subst hp'
  simp only [mockSym_comment, mockSym_loadImmediate, mockSym_jumpLength, List.append_assoc,
    CodeAt_hook] at hat
  simp only [List.cons_append, List.nil_append, CodeAt, TempNum.toNat] at hat
  obtain ⟨hstore, hli, hat3⟩ := hat
  obtain ⟨cfg1, r, hstep1, hpc1, hout1, hr, hblock, hlow, hext, hheap⟩ :=
    store_sim args.length R.vals R.len R.cap R.heap hk hnext hstore
  -- second instruction: the tag
  have hli' : P.code[cfg1.pc]? = some (.li (2 * (Γ.length - args.length) + 1) (pos : Int)) := by
    rw [hpc1]; exact hli
  have ht : 2 * (Γ.length - args.length) + 1 ≠ Mock.T_TEMP := by omega
  have hstep2 := step_li P cfg1 _ _ hli' ht
  refine ⟨_, ⟨cfg1, hstep1, stepsTo_one P _ _ hstep2⟩, by simpa using hout1, ?_⟩
  have hlenT : (ρ.take (Γ.length - args.length)).length = (Γ.take (Γ.length - args.length)).length := by
    simp [R.len]
  have hσ : ∀ t, t < 2 * (Γ.take (Γ.length - args.length)).length →
      ((clobberTemp cfg1.temps).set (2 * (Γ.length - args.length) + 1) (BitVec.ofInt 64 pos)).get t =
        cfg.temps.get t := by
    intro t ht'
    rw [hn] at ht'
    have h1 : t ≠ 2 * (Γ.length - args.length) + 1 := by omega
    have h2 : t ≠ Mock.T_TEMP := by omega
    rw [get_set_other _ _ h1, get_clobberTemp _ h2, hlow t ht']
  have hget2n : ((clobberTemp cfg1.temps).set (2 * (Γ.length - args.length) + 1)
      (BitVec.ofInt 64 pos)).get (2 * (Γ.length - args.length)) = some r := by
    have h1 : 2 * (Γ.length - args.length) ≠ 2 * (Γ.length - args.length) + 1 := by omega
    have h2 : 2 * (Γ.length - args.length) ≠ Mock.T_TEMP := by omega
    rw [get_set_other _ _ h1, get_clobberTemp _ h2, hr]
  have hprd : (Chi.prd == Chi.ext) = false := by decide
  exact {
    len := by simp [R.len]
    cap := by simpa using hcap
    vals := by
      have V0 := ((R.vals.take (Γ.length - args.length)).ext hext)
      apply ValsOK_snoc V0 hlenT hσ _ _ (BitVec.ofInt 64 pos)
      · rw [hn]; exact get_set_same _ _ _
      · rw [hn, hget2n]
        simp only [hprd, Bool.false_eq_true, if_false]
        have : BitVec.ofInt 64 (pos : Int) = BitVec.ofNat 64 pos := by simp
        rw [this]
        exact .obj pos _ r hblock
      · rfl
      · intro _; rw [hn, hget2n]; rfl
    heap := by
      apply HeapOK_congr hheap
      show roots (Γ.take (Γ.length - args.length) ++ [_]) _ = _
      unfold roots
      rw [roots_go_append, hn, Nat.zero_add]
      congr 1
      · exact roots_go_congr _ _ _ 0 (fun i hi => by
          rw [Nat.zero_add]; exact hσ (2 * i) (by omega))
      · simp only [roots.go, List.append_nil]
        have : (Chi.prd != Chi.ext) = true := by decide
        simp only [this, if_true, hget2n]
    code := ⟨_, _, c3, h3, by rw [hpc1]; exact hat3⟩ }


/-! ## simulation: `create` -/

theorem step_ll (P : Program) (cfg : Config) (t : Nat) (name : String) (a : Nat)
    (hc : P.code[cfg.pc]? = some (.ll t name)) (ht : t ≠ Mock.T_TEMP)
    (ha : P.labelAddr name = some a) :
    Abs.step P cfg = .next { cfg with pc := cfg.pc + 1,
                                      temps := (clobberTemp cfg.temps).set t (BitVec.ofNat 64 a) } := by
  have : (t == Abs.T_TEMP) = false := by simp [Abs.T_TEMP, ht]
  simp [Abs.step, hc, this, ha]

/-- `create` with the closure environment annotated as the context suffix it captures (what
    `linearize` produces) -/
theorem sim_create {P : Program} {hooks : Bool} {prog : Prog} {Γ : Ctx} {ρ : List Value} {x : Ident}
    {ty : Ty} {Γc : Ctx} {clauses : Clauses} {next : Stmt} {f1 f2 : FV} {cfg : Config}
    (R : Rel P hooks prog ⟨Γ, ρ, .create x ty (some Γc) clauses next f1 f2⟩ cfg)
    (hk : Γc.length ≤ Γ.length)
    (hΓc : Γc = Γ.drop (Γ.length - Γc.length))
    (hfresh : ∀ b ∈ Γ.take (Γ.length - Γc.length), b.var.id ≠ x.id)
    (hcap : 2 * (Γ.length - Γc.length + 1) + 2 < Mock.T_TEMP)
    (hnext : cfg.next < 2 ^ 64) :
    ∃ cfg', stepsTo P 2 cfg cfg' ∧ cfg'.out = cfg.out ∧
      Rel P hooks prog ⟨Γ.take (Γ.length - Γc.length) ++ [⟨x, .cns, ty⟩],
        ρ.take (Γ.length - Γc.length) ++ [.clo Γc (ρ.drop (Γ.length - Γc.length)) clauses], next⟩ cfg' := by
  obtain ⟨c, c', ops, hrun, hat⟩ := R.code
  simp only [codeStatementR, run_bind_ok, run_pure_ok, freshLabelStr_run_ok, splitOffLast_run_ok,
    mockSym_store, mockSym_variableTemporary, vt_run_ok] at hrun
  obtain ⟨sp, k1, ⟨_, rfl, rfl⟩, c1, k2, ⟨rfl, rfl⟩, num, k3, ⟨rfl, rfl⟩, t, k4, ⟨p, hp, rfl, rfl⟩,
    c3, k5, h3, c5, k6, h5, rfl, rfl⟩ := hrun
  have hn : (Γ.take (Γ.length - Γc.length)).length = Γ.length - Γc.length := by simp
  have hp' : p = Γ.length - Γc.length := by
    rw [ctxPosition_eq_posOf] at hp
    have := posOf_append_fresh (Γ.take (Γ.length - Γc.length)) ⟨x, .cns, ty⟩ hfresh
    simp only at hp
    rw [this, hn] at hp
    exact (Option.some.inj hp).symm
  subst hp'
  simp only [mockSym_comment, mockSym_loadLabel, mockSym_label, List.append_assoc, CodeAt_hook] at hat
  simp only [List.cons_append, List.nil_append, CodeAt, TempNum.toNat] at hat
  obtain ⟨hstore, hll, hat'⟩ := hat
  rw [CodeAt_append] at hat'
  obtain ⟨hat3, hat45⟩ := hat'
  simp only [CodeAt] at hat45
  obtain ⟨hlab, hat45'⟩ := hat45
  obtain ⟨cfg1, r, hstep1, hpc1, hout1, hr, hblock, hlow, hext, hheap⟩ :=
    store_sim Γc.length R.vals R.len R.cap R.heap hk hnext hstore
  have hll' : P.code[cfg1.pc]? = some (.ll (2 * (Γ.length - Γc.length) + 1)
      (mangleTy ty ++ "_" ++ natRen (c + 1))) := by
    rw [hpc1]; exact hll
  have ht : 2 * (Γ.length - Γc.length) + 1 ≠ Mock.T_TEMP := by omega
  have hstep2 := step_ll P cfg1 _ _ _ hll' ht hlab
  refine ⟨_, ⟨cfg1, hstep1, stepsTo_one P _ _ hstep2⟩, by simpa using hout1, ?_⟩
  have hlenT : (ρ.take (Γ.length - Γc.length)).length = (Γ.take (Γ.length - Γc.length)).length := by
    simp [R.len]
  have hσ : ∀ t, t < 2 * (Γ.take (Γ.length - Γc.length)).length →
      ((clobberTemp cfg1.temps).set (2 * (Γ.length - Γc.length) + 1)
        (BitVec.ofNat 64 (cfg.pc + 1 + 1 + instrCount c3))).get t = cfg.temps.get t := by
    intro t ht'
    rw [hn] at ht'
    have h1 : t ≠ 2 * (Γ.length - Γc.length) + 1 := by omega
    have h2 : t ≠ Mock.T_TEMP := by omega
    rw [get_set_other _ _ h1, get_clobberTemp _ h2, hlow t ht']
  have hget2n : ((clobberTemp cfg1.temps).set (2 * (Γ.length - Γc.length) + 1)
      (BitVec.ofNat 64 (cfg.pc + 1 + 1 + instrCount c3))).get (2 * (Γ.length - Γc.length)) = some r := by
    have h1 : 2 * (Γ.length - Γc.length) ≠ 2 * (Γ.length - Γc.length) + 1 := by omega
    have h2 : 2 * (Γ.length - Γc.length) ≠ Mock.T_TEMP := by omega
    rw [get_set_other _ _ h1, get_clobberTemp _ h2, hr]
  have hcns : (Chi.cns == Chi.ext) = false := by decide
  have hmeth : MethodsAt P hooks prog.types (cfg.pc + 1 + 1 + instrCount c3) Γc clauses := by
    refine ⟨mangleTy ty ++ "_" ++ natRen (c + 1), k5, k6, c5, ?_, ?_⟩
    · rw [hΓc]; simpa using h5
    · simp only [CodeAt]
      exact ⟨hlab, hat45'⟩
  exact {
    len := by simp [R.len]
    cap := by simpa using hcap
    vals := by
      have V0 := ((R.vals.take (Γ.length - Γc.length)).ext hext)
      apply ValsOK_snoc V0 hlenT hσ _ _ (BitVec.ofNat 64 (cfg.pc + 1 + 1 + instrCount c3))
      · rw [hn]; exact get_set_same _ _ _
      · rw [hn, hget2n]
        simp only [hcns, Bool.false_eq_true, if_false]
        exact .clo Γc _ clauses r _ hblock hmeth
      · rfl
      · intro _; rw [hn, hget2n]; rfl
    heap := by
      apply HeapOK_congr hheap
      show roots (Γ.take (Γ.length - Γc.length) ++ [_]) _ = _
      unfold roots
      rw [roots_go_append, hn, Nat.zero_add]
      congr 1
      · exact roots_go_congr _ _ _ 0 (fun i hi => by
          rw [Nat.zero_add]; exact hσ (2 * i) (by omega))
      · simp only [roots.go, List.append_nil]
        have : (Chi.cns != Chi.ext) = true := by decide
        simp only [this, if_true, hget2n]
    code := ⟨_, _, c3, h3, by rw [hpc1]; exact hat3⟩ }

end Scc.Backend.Sim
