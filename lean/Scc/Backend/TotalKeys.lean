/-
  Scc.Backend.TotalKeys — the ordered-linear typing `LinTyped` (Scc/AxCut/LinTyping.lean) does not
  depend on the NAMES of the variables in the context: `LinTyped.of_keys`
      Γ'.keys = Γ.keys → LinTyped T S Γ s → LinTyped T S Γ' s
  (`Ctx.keys`: ids, kinds, types).  Needed by the totality theorem of the code generator: create.rs
  generates the method bodies in the context suffix it splits off, which the typing relates to the
  ANNOTATED closure environment only up to names.
  Proof file, core imports only.
-/
import Scc.AxCut.LinTyping

set_option linter.unusedSimpArgs false
set_option linter.unusedVariables false

namespace Scc.Backend.Total

open Scc.AxCut

theorem keys_length {Γ Δ : Ctx} (h : Γ.keys = Δ.keys) : Γ.length = Δ.length := by
  have := congrArg List.length h
  simpa [Ctx.keys] using this

theorem keys_ids {Γ Δ : Ctx} (h : Γ.keys = Δ.keys) : Γ.ids = Δ.ids := by
  have := congrArg (List.map (fun k : Nat × Chi × Ty => k.1)) h
  simpa [Ctx.keys, Ctx.ids, Binding.key, Function.comp_def] using this

theorem keys_chiTys {Γ Δ : Ctx} (h : Γ.keys = Δ.keys) : Γ.chiTys = Δ.chiTys := by
  have := congrArg (List.map (fun k : Nat × Chi × Ty => k.2)) h
  simpa [Ctx.keys, Ctx.chiTys, Binding.key, Function.comp_def] using this

theorem keys_take {Γ Δ : Ctx} (h : Γ.keys = Δ.keys) (n : Nat) :
    Ctx.keys (Γ.take n) = Ctx.keys (Δ.take n) := by
  unfold Ctx.keys at *
  rw [List.map_take, List.map_take, h]

theorem keys_drop {Γ Δ : Ctx} (h : Γ.keys = Δ.keys) (n : Nat) :
    Ctx.keys (Γ.drop n) = Ctx.keys (Δ.drop n) := by
  unfold Ctx.keys at *
  rw [List.map_drop, List.map_drop, h]

theorem keys_append {Γ Γ' Δ Δ' : Ctx} (h1 : Γ.keys = Γ'.keys) (h2 : Δ.keys = Δ'.keys) :
    Ctx.keys (Γ ++ Δ) = Ctx.keys (Γ' ++ Δ') := by
  unfold Ctx.keys at *
  rw [List.map_append, List.map_append, h1, h2]

/-- a context with the keys of `Γ1 ++ Γ2` splits accordingly -/
theorem keys_split {Γ' Γ1 Γ2 : Ctx} (h : Γ'.keys = Ctx.keys (Γ1 ++ Γ2)) :
    Γ' = Γ'.take Γ1.length ++ Γ'.drop Γ1.length ∧
    Ctx.keys (Γ'.take Γ1.length) = Γ1.keys ∧ Ctx.keys (Γ'.drop Γ1.length) = Γ2.keys := by
  refine ⟨(List.take_append_drop _ _).symm, ?_, ?_⟩
  · rw [keys_take h]; simp
  · rw [keys_drop h]; simp

theorem keys_snoc {Γ' Γ1 : Ctx} {b : Binding} (h : Γ'.keys = Ctx.keys (Γ1 ++ [b])) :
    ∃ Γ1' b', Γ' = Γ1' ++ [b'] ∧ Ctx.keys Γ1' = Γ1.keys ∧ b'.key = b.key := by
  obtain ⟨h1, h2, h3⟩ := keys_split h
  have hl : (Γ'.drop Γ1.length).length = 1 := by
    have := keys_length h3
    simpa using this
  match hd : Γ'.drop Γ1.length, hl with
  | [b'], _ =>
    refine ⟨Γ'.take Γ1.length, b', by rw [← hd]; exact h1, h2, ?_⟩
    rw [hd] at h3
    simpa [Ctx.keys] using h3

theorem keys_getElem {Γ Δ : Ctx} (h : Γ.keys = Δ.keys) {i : Nat} (h1 : i < Γ.length)
    (h2 : i < Δ.length) : Γ[i].key = Δ[i].key := by
  have := congrArg (fun l => l[i]?) h
  simp only [Ctx.keys, List.getElem?_map, List.getElem?_eq_getElem h1, List.getElem?_eq_getElem h2,
    Option.map_some, Option.some.injEq] at this
  exact this

theorem nodup_keys {Γ Δ : Ctx} (h : Γ.keys = Δ.keys) (hn : NodupIds Δ) : NodupIds Γ := by
  unfold NodupIds at *; rw [keys_ids h]; exact hn

/-- a variable of `Δ` is a variable of `Γ` (same id, kind, type) -/
theorem hasVar_keys {Γ Δ : Ctx} (h : Γ.keys = Δ.keys) {x : Nat} {chi : Chi} {ty : Ty}
    (hv : HasVar Δ x chi ty) : HasVar Γ x chi ty := by
  obtain ⟨b, hb, h1, h2, h3⟩ := hv
  obtain ⟨i, hi, rfl⟩ := List.getElem_of_mem hb
  have hi' : i < Γ.length := by rw [keys_length h]; exact hi
  have hk := keys_getElem h hi' hi
  simp only [Binding.key, Prod.mk.injEq] at hk
  exact ⟨Γ[i], List.getElem_mem hi', by rw [hk.1]; exact h1, by rw [hk.2.1]; exact h2,
    by rw [hk.2.2]; exact h3⟩

theorem keys_refl_snoc {Γ Δ : Ctx} (h : Γ.keys = Δ.keys) (b : Binding) :
    Ctx.keys (Γ ++ [b]) = Ctx.keys (Δ ++ [b]) := keys_append h rfl

mutual
  /-- the typing of a statement depends on the context only through its keys -/
  theorem LinTyped.of_keys {T : List TypeDecl} {S : Sigs} :
      ∀ (s : Stmt) {Γ Γ' : Ctx}, Γ'.keys = Γ.keys → LinTyped T S Γ s → LinTyped T S Γ' s
    | .subst pairs next, Γ, Γ', hk, h => by
      cases h with
      | subst h1 h2 h3 h4 =>
        exact .subst (nodup_keys hk h1) (fun p hp => hasVar_keys hk (h2 p hp)) h3 h4
    | .call l args, Γ, Γ', hk, h => by
      cases h with
      | call h1 h2 h3 => exact .call (nodup_keys hk h1) h2 (by rw [keys_chiTys hk]; exact h3)
    | .letS x ty tag args next fv, Γ, Γ', hk, h => by
      cases h with
      | @letS _ Γ1 Γa _ _ _ _ sig _ _ h1 h2 h3 h4 h5 h6 h7 =>
        subst h2
        obtain ⟨e1, e2, e3⟩ := keys_split hk
        refine .letS (Γ' := Γ'.take Γ1.length) (Γa := Γ'.drop Γ1.length) (nodup_keys hk h1) e1
          (by rw [e3]; exact h3) h4 h5 (by rw [keys_ids e2]; exact h6) ?_
        exact LinTyped.of_keys next (keys_refl_snoc e2 _) h7
    | .switch x ty cs fv, Γ, Γ', hk, h => by
      cases h with
      | @switch _ Γ1 b _ _ _ _ d h1 h2 h3 h4 h5 h6 =>
        subst h2
        obtain ⟨Γ1', b', e1, e2, e3⟩ := keys_snoc hk
        exact .switch (nodup_keys hk h1) e1 (by rw [e3]; exact h3) h4 h5
          (LinTypedClauses.of_keys cs e2 rfl h6)
    | .create x ty env cs next fc fn, Γ, Γ', hk, h => by
      cases h with
      | @create _ Γn Γe Γc _ _ _ _ _ _ d h1 h2 h3 h4 h5 h6 h7 h8 =>
        subst h2
        obtain ⟨e1, e2, e3⟩ := keys_split hk
        refine .create (Γn := Γ'.take Γn.length) (Γe := Γ'.drop Γn.length) (nodup_keys hk h1) e1
          (by rw [e3]; exact h3) h4 h5 h6 (by rw [keys_ids e2]; exact h7) ?_
        exact LinTyped.of_keys next (keys_refl_snoc e2 _) h8
    | .invoke x tag ty args, Γ, Γ', hk, h => by
      cases h with
      | @invoke _ Γa b _ _ _ _ sig h1 h2 h3 h4 h5 =>
        subst h2
        obtain ⟨Γ1', b', e1, e2, e3⟩ := keys_snoc hk
        exact .invoke (nodup_keys hk h1) e1 (by rw [e3]; exact h3) h4
          (by rw [keys_chiTys e2]; exact h5)
    | .lit x n next fv, Γ, Γ', hk, h => by
      cases h with
      | lit h1 h2 h3 =>
        exact .lit (nodup_keys hk h1) (by rw [keys_ids hk]; exact h2)
          (LinTyped.of_keys next (keys_refl_snoc hk _) h3)
    | .op x a o b next fv, Γ, Γ', hk, h => by
      cases h with
      | op h1 h2 h3 h4 h5 =>
        exact .op (nodup_keys hk h1) (hasVar_keys hk h2) (hasVar_keys hk h3)
          (by rw [keys_ids hk]; exact h4) (LinTyped.of_keys next (keys_refl_snoc hk _) h5)
    | .print nl a next fv, Γ, Γ', hk, h => by
      cases h with
      | print h1 h2 h3 =>
        exact .print (nodup_keys hk h1) (hasVar_keys hk h2) (LinTyped.of_keys next hk h3)
    | .ifc s a b t e, Γ, Γ', hk, h => by
      cases h with
      | ifc h1 h2 h3 h4 h5 =>
        exact .ifc (nodup_keys hk h1) (hasVar_keys hk h2) (fun b' hb' => hasVar_keys hk (h3 b' hb'))
          (LinTyped.of_keys t hk h4) (LinTyped.of_keys e hk h5)
    | .exit x, Γ, Γ', hk, h => by
      cases h with
      | exit h1 h2 => exact .exit (nodup_keys hk h1) (hasVar_keys hk h2)
  theorem LinTypedClauses.of_keys {T : List TypeDecl} {S : Sigs} :
      ∀ (cs : Clauses) {pre pre' post post' : Ctx}, pre'.keys = pre.keys → post'.keys = post.keys →
        LinTypedClauses T S pre post cs → LinTypedClauses T S pre' post' cs
    | .nil, _, _, _, _, _, _, _ => .nil
    | .cons x ctx body rest, pre, pre', post, post', hk1, hk2, h => by
      cases h with
      | cons h1 h2 =>
        exact .cons (LinTyped.of_keys body (keys_append (keys_append hk1 rfl) hk2) h1)
          (LinTypedClauses.of_keys rest hk1 hk2 h2)
end

end Scc.Backend.Total
