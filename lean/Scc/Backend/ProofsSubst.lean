/-
  Scc.Backend.ProofsSubst — Theorem A for `subst` on contexts of integers (`ext` bindings only):
  the map built by `connections` is a well-formed parallel-move problem (keys and target lists duplicate
  free, every temporary the target of one source), its edges are exactly "word part of the old
  position → word part of the new position", and running the emitted moves on the abstract machine
  (ProofsPM.lean: the PMoves correctness theorem) yields a configuration representing the new
  environment.   Proof file.
-/
import Scc.Backend.ProofsPM

set_option linter.unusedSimpArgs false
set_option linter.unusedVariables false

namespace Scc.Backend.Subst

open Scc.AxCut Scc.AxCut.Pos Scc.Backend Scc.Backend.Abs Scc.Backend.Sim Scc.Backend.PM

/-! ## sorted maps and sets over `Nat` (the `BTreeMap`/`BTreeSet` of the mock temporaries) -/

abbrev cmpN := tempCmp mockSym

theorem cmpN_lt {a b : Nat} : cmpN a b = .lt ↔ a < b := by
  unfold cmpN tempCmp
  simp only [mockSym_tempLt, mockSym_tempEq, decide_eq_true_eq]
  by_cases h : a < b
  · simp [h]
  · by_cases h2 : a = b <;> simp [h, h2]

theorem cmpN_eq {a b : Nat} : cmpN a b = .eq ↔ a = b := by
  unfold cmpN tempCmp
  simp only [mockSym_tempLt, mockSym_tempEq, decide_eq_true_eq]
  by_cases h : a < b
  · simp [h]; omega
  · by_cases h2 : a = b <;> simp [h, h2]

theorem cmpN_gt {a b : Nat} : cmpN a b = .gt ↔ b < a := by
  unfold cmpN tempCmp
  simp only [mockSym_tempLt, mockSym_tempEq, decide_eq_true_eq]
  by_cases h : a < b
  · simp [h]; omega
  · by_cases h2 : a = b
    · simp [h, h2]
    · simp [h, h2]; omega

/-- strictly ascending -/
def Asc (l : List Nat) : Prop := l.Pairwise (· < ·)

theorem Asc.nodup {l : List Nat} (h : Asc l) : l.Nodup :=
  List.Pairwise.imp (fun hab => Nat.ne_of_lt hab) h

theorem setInsert_spec (t : Nat) : ∀ (l : List Nat), Asc l →
    Asc (setInsert mockSym t l) ∧ ∀ x, x ∈ setInsert mockSym t l ↔ x = t ∨ x ∈ l
  | [], _ => by simp [setInsert, Asc]
  | a :: rest, h => by
    have hr : Asc rest := (List.pairwise_cons.mp h).2
    have ha : ∀ y ∈ rest, a < y := (List.pairwise_cons.mp h).1
    simp only [setInsert]
    cases hc : tempCmp mockSym t a with
    | lt =>
      have hlt := cmpN_lt.mp hc
      simp only
      refine ⟨?_, by intro x; simp⟩
      apply List.pairwise_cons.mpr
      refine ⟨?_, h⟩
      intro y hy
      simp only [List.mem_cons] at hy
      rcases hy with rfl | hy
      · exact hlt
      · exact Nat.lt_trans hlt (ha y hy)
    | eq =>
      have heq := cmpN_eq.mp hc
      subst heq
      simp only
      exact ⟨h, by intro x; simp⟩
    | gt =>
      have hgt := cmpN_gt.mp hc
      simp only
      obtain ⟨ih1, ih2⟩ := setInsert_spec t rest hr
      refine ⟨?_, ?_⟩
      · apply List.pairwise_cons.mpr
        refine ⟨?_, ih1⟩
        intro y hy
        rcases (ih2 y).mp hy with rfl | hy
        · exact hgt
        · exact ha y hy
      · intro x
        simp only [List.mem_cons, ih2 x]
        constructor
        · rintro (h1 | h1 | h1)
          · exact Or.inr (Or.inl h1)
          · exact Or.inl h1
          · exact Or.inr (Or.inr h1)
        · rintro (h1 | h1 | h1)
          · exact Or.inr (Or.inl h1)
          · exact Or.inl h1
          · exact Or.inr (Or.inr h1)

theorem setOfList_spec (ts : List Nat) :
    Asc (setOfList mockSym ts) ∧ ∀ x, x ∈ setOfList mockSym ts ↔ x ∈ ts := by
  unfold setOfList
  have key : ∀ (ts acc : List Nat), Asc acc →
      Asc (ts.foldl (fun s t => setInsert mockSym t s) acc) ∧
      ∀ x, x ∈ ts.foldl (fun s t => setInsert mockSym t s) acc ↔ x ∈ ts ∨ x ∈ acc := by
    intro ts
    induction ts with
    | nil => intro acc h; simp [h]
    | cons t rest ih =>
      intro acc h
      obtain ⟨h1, h2⟩ := setInsert_spec t acc h
      obtain ⟨h3, h4⟩ := ih (setInsert mockSym t acc) h1
      simp only [List.foldl_cons]
      refine ⟨h3, ?_⟩
      intro x
      rw [h4, h2]
      simp only [List.mem_cons]
      constructor
      · rintro (h | h | h)
        · exact Or.inl (Or.inr h)
        · exact Or.inl (Or.inl h)
        · exact Or.inr h
      · rintro ((h | h) | h)
        · exact Or.inr (Or.inl h)
        · exact Or.inl h
        · exact Or.inr (Or.inr h)
  obtain ⟨h1, h2⟩ := key ts [] (by simp [Asc])
  exact ⟨h1, fun x => by rw [h2]; simp⟩

/-- keys strictly ascending -/
def KeysAsc (pm : List (Nat × List Nat)) : Prop := Asc (pm.map (·.1))

theorem mapInsert_spec (k : Nat) (v : List Nat) : ∀ (l : List (Nat × List Nat)), KeysAsc l →
    KeysAsc (mapInsert cmpN k v l) ∧
    ∀ e, e ∈ mapInsert cmpN k v l ↔ e = (k, v) ∨ (e ∈ l ∧ e.1 ≠ k)
  | [], _ => by simp [mapInsert, KeysAsc, Asc]
  | (k', v') :: rest, h => by
    have hr : KeysAsc rest := (List.pairwise_cons.mp h).2
    have ha : ∀ y ∈ rest.map (·.1), k' < y := (List.pairwise_cons.mp h).1
    simp only [mapInsert]
    cases hc : cmpN k k' with
    | lt =>
      have hlt := cmpN_lt.mp hc
      simp only
      constructor
      · apply List.pairwise_cons.mpr
        refine ⟨?_, h⟩
        intro y hy
        simp only [List.map_cons, List.mem_cons] at hy
        rcases hy with rfl | hy
        · exact hlt
        · exact Nat.lt_trans hlt (ha y hy)
      · intro e
        simp only [List.mem_cons]
        constructor
        · rintro (h1 | h1 | h1)
          · exact Or.inl h1
          · subst h1; exact Or.inr ⟨Or.inl rfl, by simp; omega⟩
          · refine Or.inr ⟨Or.inr h1, ?_⟩
            have := ha e.1 (List.mem_map.mpr ⟨e, h1, rfl⟩)
            omega
        · rintro (h1 | ⟨h1 | h1, _⟩)
          · exact Or.inl h1
          · exact Or.inr (Or.inl h1)
          · exact Or.inr (Or.inr h1)
    | eq =>
      have heq := cmpN_eq.mp hc
      subst heq
      simp only
      constructor
      · exact h
      · intro e
        simp only [List.mem_cons]
        constructor
        · rintro (h1 | h1)
          · exact Or.inl h1
          · refine Or.inr ⟨Or.inr h1, ?_⟩
            have := ha e.1 (List.mem_map.mpr ⟨e, h1, rfl⟩)
            omega
        · rintro (h1 | ⟨h1 | h1, h2⟩)
          · exact Or.inl h1
          · subst h1; exact absurd rfl h2
          · exact Or.inr h1
    | gt =>
      have hgt := cmpN_gt.mp hc
      simp only
      obtain ⟨ih1, ih2⟩ := mapInsert_spec k v rest hr
      constructor
      · apply List.pairwise_cons.mpr
        refine ⟨?_, ih1⟩
        intro y hy
        obtain ⟨e, he, rfl⟩ := List.mem_map.mp hy
        rcases (ih2 e).mp he with rfl | ⟨he', _⟩
        · exact hgt
        · exact ha e.1 (List.mem_map.mpr ⟨e, he', rfl⟩)
      · intro e
        simp only [List.mem_cons, ih2 e]
        constructor
        · rintro (h1 | h1 | ⟨h1, h2⟩)
          · subst h1; exact Or.inr ⟨Or.inl rfl, by simp; omega⟩
          · exact Or.inl h1
          · exact Or.inr ⟨Or.inr h1, h2⟩
        · rintro (h1 | ⟨h1 | h1, h2⟩)
          · exact Or.inr (Or.inl h1)
          · exact Or.inl h1
          · exact Or.inr (Or.inr ⟨h1, h2⟩)

/-- insert all entries `(key, targets)` in order -/
def insertAll (entries : List (Nat × List Nat)) (acc : List (Nat × List Nat)) : List (Nat × List Nat) :=
  entries.foldl (fun acc e => mapInsert cmpN e.1 (setOfList mockSym e.2) acc) acc

theorem insertAll_spec : ∀ (entries acc : List (Nat × List Nat)), KeysAsc acc →
    (entries.map (·.1)).Nodup → (∀ e ∈ entries, e.1 ∉ acc.map (·.1)) →
    KeysAsc (insertAll entries acc) ∧
    ∀ e, e ∈ insertAll entries acc ↔ e ∈ acc ∨ ∃ e0 ∈ entries, e = (e0.1, setOfList mockSym e0.2)
  | [], acc, h, _, _ => by simp [insertAll, h]
  | e1 :: rest, acc, h, hnd, hdis => by
    simp only [List.map_cons, List.nodup_cons] at hnd
    obtain ⟨h1, h2⟩ := mapInsert_spec e1.1 (setOfList mockSym e1.2) acc h
    have hdis' : ∀ e ∈ rest, e.1 ∉ (mapInsert cmpN e1.1 (setOfList mockSym e1.2) acc).map (·.1) := by
      intro e he hmem
      obtain ⟨x, hx, hx1⟩ := List.mem_map.mp hmem
      rcases (h2 x).mp hx with rfl | ⟨hx', _⟩
      · exact hnd.1 (List.mem_map.mpr ⟨e, he, hx1.symm⟩)
      · exact hdis e (by simp [he]) (List.mem_map.mpr ⟨x, hx', hx1⟩)
    obtain ⟨h3, h4⟩ := insertAll_spec rest _ h1 hnd.2 hdis'
    simp only [insertAll, List.foldl_cons] at h3 h4 ⊢
    refine ⟨h3, ?_⟩
    intro e
    rw [h4 e, h2 e]
    simp only [List.mem_cons]
    constructor
    · rintro ((h5 | ⟨h5, _⟩) | ⟨e0, he0, h5⟩)
      · exact Or.inr ⟨e1, Or.inl rfl, h5⟩
      · exact Or.inl h5
      · exact Or.inr ⟨e0, Or.inr he0, h5⟩
    · rintro (h5 | ⟨e0, he0 | he0, h5⟩)
      · refine Or.inl (Or.inr ⟨h5, ?_⟩)
        intro hk
        exact hdis e1 (by simp) (List.mem_map.mpr ⟨e, h5, hk⟩)
      · subst he0; exact Or.inl (Or.inl h5)
      · exact Or.inr ⟨e0, he0, h5⟩


/-! ## `transpose` on a context with pairwise distinct ids -/

theorem mapInsert_fresh {K V : Type} (cmp : K → K → Ordering) (k : K) (v : V) :
    ∀ (l : List (K × V)), (∀ e ∈ l, cmp k e.1 ≠ .eq) →
    ∀ e, e ∈ mapInsert cmp k v l ↔ e = (k, v) ∨ e ∈ l
  | [], _, e => by simp [mapInsert]
  | (k', v') :: rest, h, e => by
    simp only [mapInsert]
    cases hc : cmp k k' with
    | lt => simp
    | eq => exact absurd hc (h (k', v') (by simp))
    | gt =>
      simp only [List.mem_cons]
      rw [mapInsert_fresh cmp k v rest (fun e he => h e (by simp [he])) e]
      constructor
      · rintro (h1 | h1 | h1)
        · exact Or.inr (Or.inl h1)
        · exact Or.inl h1
        · exact Or.inr (Or.inr h1)
      · rintro (h1 | h1 | h1)
        · exact Or.inr (Or.inl h1)
        · exact Or.inl h1
        · exact Or.inr (Or.inr h1)

theorem bindingCmp_eq_id {a b : Binding} (h : bindingCmp a b = .eq) : a.var.id = b.var.id := by
  unfold bindingCmp at h
  have h1 : identCmp a.var b.var = .eq := by
    cases hc : identCmp a.var b.var <;> simp [hc, Ordering.then] at h ⊢
  unfold identCmp at h1
  have h2 : compare a.var.id b.var.id = .eq := by
    cases hc : strCmp a.var.name b.var.name <;> simp [hc, Ordering.then] at h1 ⊢
    exact h1
  exact Nat.compare_eq_eq.mp h2

/-- the targets `transpose` records for a binding -/
def targetsOf (rearrange : List (Binding × Ident)) (b : Binding) : List Nat :=
  (rearrange.filter fun (_, old) => b.var.id == old.id).map fun (new, _) => new.var.id

theorem transpose_spec (rearrange : List (Binding × Ident)) (Γ : Ctx) (hnd : (Γ.map (·.var.id)).Nodup) :
    ∀ e, e ∈ transpose rearrange Γ ↔ ∃ b ∈ Γ, e = (b, targetsOf rearrange b) := by
  unfold transpose
  have key : ∀ (Δ : Ctx) (acc : List (Binding × List Nat)),
      (Δ.map (·.var.id)).Nodup → (∀ b ∈ Δ, ∀ e ∈ acc, b.var.id ≠ e.1.var.id) →
      ∀ e, e ∈ Δ.foldl (fun tm b => mapInsert bindingCmp b (targetsOf rearrange b) tm) acc ↔
        e ∈ acc ∨ ∃ b ∈ Δ, e = (b, targetsOf rearrange b) := by
    intro Δ
    induction Δ with
    | nil => intro acc _ _ e; simp
    | cons b rest ih =>
      intro acc hnd hdis e
      simp only [List.map_cons, List.nodup_cons] at hnd
      simp only [List.foldl_cons]
      have hfresh : ∀ e ∈ acc, bindingCmp b e.1 ≠ .eq := by
        intro e he hc
        exact hdis b (by simp) e he (bindingCmp_eq_id hc)
      rw [ih _ hnd.2 ?_ e]
      · rw [mapInsert_fresh bindingCmp b _ acc hfresh e]
        simp only [List.mem_cons]
        constructor
        · rintro ((h1 | h1) | ⟨b', hb', h1⟩)
          · exact Or.inr ⟨b, Or.inl rfl, h1⟩
          · exact Or.inl h1
          · exact Or.inr ⟨b', Or.inr hb', h1⟩
        · rintro (h1 | ⟨b', rfl | hb', h1⟩)
          · exact Or.inl (Or.inr h1)
          · exact Or.inl (Or.inl h1)
          · exact Or.inr ⟨b', hb', h1⟩
      · intro b' hb' e' he'
        rcases (mapInsert_fresh bindingCmp b _ acc hfresh e').mp he' with rfl | he'
        · intro hc
          exact hnd.1 (List.mem_map.mpr ⟨b', hb', hc⟩)
        · exact hdis b' (by simp [hb']) e' he'
  intro e
  have := key Γ [] hnd (by simp) e
  simp only [List.not_mem_nil, false_or] at this
  exact this


/-! ## `connections` and `code_weakening_contraction` on `ext` bindings -/

/-- position of an id (0 if absent; only used where it is present) -/
def posIn (Γ : Ctx) (id : Nat) : Nat := (Mock.ctxPosition Γ id).getD 0

/-- the map entry `connections` inserts for an `ext` binding -/
def entryOf (Γ newΓ : Ctx) (e : Binding × List Nat) : Nat × List Nat :=
  (2 * posIn Γ e.1.var.id + 1, e.2.map fun id => 2 * posIn newΓ id + 1)

theorem mapMGen_vt_snd (newΓ : Ctx) : ∀ (ids : List Nat) (c : Nat) (ts : List Nat) (c' : Nat),
    (mapMGen (fun id => mockSym.variableTemporary .snd newΓ id) ids).run c = .ok (ts, c') →
    ts = ids.map (fun id => 2 * posIn newΓ id + 1) ∧ c = c' ∧
      ∀ id ∈ ids, (Mock.ctxPosition newΓ id).isSome
  | [], c, ts, c', h => by
    simp only [mapMGen, run_pure_ok] at h
    obtain ⟨rfl, rfl⟩ := h
    simp
  | id :: rest, c, ts, c', h => by
    simp only [mapMGen, run_bind_ok, run_pure_ok, mockSym_variableTemporary, vt_run_ok] at h
    obtain ⟨t, c1, ⟨pos, hpos, rfl, rfl⟩, bs, c2, h2, rfl, rfl⟩ := h
    obtain ⟨e1, e2, e3⟩ := mapMGen_vt_snd newΓ rest _ _ _ h2
    subst e1 e2
    refine ⟨?_, rfl, ?_⟩
    · simp [posIn, hpos, TempNum.toNat]
    · intro id' hid'
      simp only [List.mem_cons] at hid'
      rcases hid' with rfl | hid'
      · simp [hpos]
      · exact e3 id' hid'

theorem connections_go_ext (Γ newΓ : Ctx) : ∀ (tm : List (Binding × List Nat))
    (acc : List (Nat × List Nat)) (c : Nat) (r : List (Nat × List Nat)) (c' : Nat),
    (∀ e ∈ tm, e.1.chi = .ext) →
    (connections.go mockSym Γ newΓ tm acc).run c = .ok (r, c') →
    r = insertAll (tm.map (entryOf Γ newΓ)) acc ∧
    ∀ e ∈ tm, (Mock.ctxPosition Γ e.1.var.id).isSome ∧ ∀ id ∈ e.2, (Mock.ctxPosition newΓ id).isSome
  | [], acc, c, r, c', _, h => by
    simp only [connections.go, run_pure_ok] at h
    simp [insertAll, h.1]
  | (b, targets) :: rest, acc, c, r, c', hext, h => by
    have hb : b.chi = .ext := hext (b, targets) (by simp)
    have hbe : (b.chi == Chi.ext) = true := by rw [hb]; decide
    unfold connections.go at h
    simp only [hbe, if_true, run_bind_ok, mockSym_variableTemporary, vt_run_ok] at h
    obtain ⟨k, c1, ⟨pos, hpos, rfl, rfl⟩, ts, c2, h2, h3⟩ := h
    obtain ⟨e1, e2, e3⟩ := mapMGen_vt_snd newΓ targets _ _ _ h2
    subst e1 e2
    obtain ⟨ih1, ih2⟩ := connections_go_ext Γ newΓ rest _ _ _ _
      (fun e he => hext e (by simp [he])) h3
    refine ⟨?_, ?_⟩
    · rw [ih1]
      simp [insertAll, entryOf, posIn, hpos, TempNum.toNat]
    · intro e he
      simp only [List.mem_cons] at he
      rcases he with rfl | he
      · exact ⟨by simp [hpos], e3⟩
      · exact ih2 e he

theorem cwc_all_ext (Γ : Ctx) : ∀ (tm : List (Binding × List Nat)) (c : Nat) (code : List MockOp)
    (c' : Nat), (∀ e ∈ tm, e.1.chi = .ext) →
    (codeWeakeningContraction mockSym tm Γ).run c = .ok (code, c') → code = [] ∧ c = c'
  | [], c, code, c', _, h => by
    simp only [codeWeakeningContraction, run_pure_ok] at h
    exact ⟨h.1.symm, h.2⟩
  | (b, targets) :: rest, c, code, c', hext, h => by
    have hb : b.chi = .ext := hext (b, targets) (by simp)
    have hbe : (b.chi != Chi.ext) = false := by rw [hb]; decide
    unfold codeWeakeningContraction at h
    simp only [hbe, Bool.false_eq_true, if_false, run_bind_ok, run_pure_ok] at h
    obtain ⟨c0, k0, ⟨rfl, rfl⟩, c1, k1, h1, rfl, rfl⟩ := h
    obtain ⟨e1, e2⟩ := cwc_all_ext Γ rest _ _ _ (fun e he => hext e (by simp [he])) h1
    subst e1 e2
    simp


/-! ## permutation form of `transpose`; positions -/

theorem mapInsert_fresh_perm {K V : Type} (cmp : K → K → Ordering) (k : K) (v : V) :
    ∀ (l : List (K × V)), (∀ e ∈ l, cmp k e.1 ≠ .eq) → (mapInsert cmp k v l).Perm ((k, v) :: l)
  | [], _ => by simp [mapInsert]
  | (k', v') :: rest, h => by
    simp only [mapInsert]
    cases hc : cmp k k' with
    | lt => exact List.Perm.refl _
    | eq => exact absurd hc (h (k', v') (by simp))
    | gt =>
      simp only
      have ih := mapInsert_fresh_perm cmp k v rest (fun e he => h e (by simp [he]))
      exact (List.Perm.cons _ ih).trans (List.Perm.swap _ _ _)

theorem transpose_perm (rearrange : List (Binding × Ident)) (Γ : Ctx) (hnd : (Γ.map (·.var.id)).Nodup) :
    (transpose rearrange Γ).Perm (Γ.map fun b => (b, targetsOf rearrange b)) := by
  unfold transpose
  have key : ∀ (Δ : Ctx) (acc : List (Binding × List Nat)),
      (Δ.map (·.var.id)).Nodup → (∀ b ∈ Δ, ∀ e ∈ acc, b.var.id ≠ e.1.var.id) →
      (Δ.foldl (fun tm b => mapInsert bindingCmp b (targetsOf rearrange b) tm) acc).Perm
        (Δ.map (fun b => (b, targetsOf rearrange b)) ++ acc) := by
    intro Δ
    induction Δ with
    | nil => intro acc _ _; simp
    | cons b rest ih =>
      intro acc hnd hdis
      simp only [List.map_cons, List.nodup_cons] at hnd
      simp only [List.foldl_cons, List.map_cons, List.cons_append]
      have hfresh : ∀ e ∈ acc, bindingCmp b e.1 ≠ .eq := by
        intro e he hc
        exact hdis b (by simp) e he (bindingCmp_eq_id hc)
      have hp := mapInsert_fresh_perm bindingCmp b (targetsOf rearrange b) acc hfresh
      refine (ih _ hnd.2 ?_).trans ?_
      · intro b' hb' e' he'
        have h1 := (hp.mem_iff).mp he'
        simp only [List.mem_cons] at h1
        rcases h1 with rfl | h1
        · intro hc; exact hnd.1 (List.mem_map.mpr ⟨b', hb', hc⟩)
        · exact hdis b' (by simp [hb']) e' h1
      · exact (List.Perm.append_left _ hp).trans List.perm_middle
  have := key Γ [] hnd (by simp)
  simp only [List.append_nil] at this
  exact this

theorem posOf_getElem {Γ : Ctx} {id i : Nat} (h : posOf Γ id = some i) :
    ∃ hi : i < Γ.length, Γ[i].var.id = id := by
  unfold posOf at h
  obtain ⟨hi, hp, _⟩ := List.findIdx?_eq_some_iff_getElem.mp h
  exact ⟨hi, by simpa using hp⟩

theorem posOf_isSome_of_mem {Γ : Ctx} {b : Binding} (hb : b ∈ Γ) : (posOf Γ b.var.id).isSome := by
  unfold posOf
  rw [List.findIdx?_isSome]
  simp only [List.any_eq_true, beq_iff_eq]
  exact ⟨b, hb, rfl⟩

theorem posOf_nodup_idx {Γ : Ctx} (hnd : (Γ.map (·.var.id)).Nodup) {j : Nat} (hj : j < Γ.length) :
    posOf Γ Γ[j].var.id = some j := by
  have hs := posOf_isSome_of_mem (List.getElem_mem hj)
  cases hp : posOf Γ Γ[j].var.id with
  | none => simp [hp] at hs
  | some i =>
    obtain ⟨hi, hid⟩ := posOf_getElem hp
    have : (Γ.map (·.var.id))[i]'(by simpa using hi) = (Γ.map (·.var.id))[j]'(by simpa using hj) := by
      simpa using hid
    have := (List.getElem_inj hnd).mp this
    rw [this]

theorem posIn_eq {Γ : Ctx} {id i : Nat} (h : posOf Γ id = some i) : posIn Γ id = i := by
  unfold posIn; rw [ctxPosition_eq_posOf, h]; rfl


/-! ## the move problem of a substitution on integers is well formed -/

theorem mem_targetsOf {pairs : List (Binding × Ident)} {b : Binding} {id : Nat} :
    id ∈ targetsOf pairs b ↔ ∃ p ∈ pairs, b.var.id = p.2.id ∧ id = p.1.var.id := by
  unfold targetsOf
  simp only [List.mem_map, List.mem_filter, beq_iff_eq]
  constructor
  · rintro ⟨p, ⟨hp, hb⟩, rfl⟩; exact ⟨p, hp, hb, rfl⟩
  · rintro ⟨p, hp, hb, rfl⟩; exact ⟨p, ⟨hp, hb⟩, rfl⟩

theorem posIn_getElem {Γ : Ctx} (hnd : (Γ.map (·.var.id)).Nodup) {j : Nat} (hj : j < Γ.length) :
    posIn Γ Γ[j].var.id = j := posIn_eq (posOf_nodup_idx hnd hj)

theorem posIn_of_mem {Γ : Ctx} (hnd : (Γ.map (·.var.id)).Nodup) {b : Binding} (hb : b ∈ Γ) :
    ∃ i, ∃ hi : i < Γ.length, Γ[i] = b ∧ posIn Γ b.var.id = i := by
  obtain ⟨i, hi, rfl⟩ := List.getElem_of_mem hb
  exact ⟨i, hi, rfl, posIn_getElem hnd hi⟩

structure ConnsWF (Γ : Ctx) (pairs : List (Binding × Ident)) (pm : List (Nat × List Nat)) : Prop where
  keys : PMoves.KeysNodup pm
  targets : PMoves.TargetsNodup pm
  functional : PMoves.Functional pm
  edge : ∀ j (hj : j < pairs.length), PMoves.Edge pm (2 * posIn Γ pairs[j].2.id + 1) (2 * j + 1)
  range : ∀ x, x ∈ pm.map (·.1) ∨ x ∈ allTargets pm →
    ∃ i, x = 2 * i + 1 ∧ (i < Γ.length ∨ i < pairs.length)

theorem conns_wf (Γ : Ctx) (pairs : List (Binding × Ident)) (hΓ : (Γ.map (·.var.id)).Nodup)
    (hnew : (pairs.map (·.1.var.id)).Nodup) (hold : ∀ p ∈ pairs, ∃ b ∈ Γ, b.var.id = p.2.id) :
    ConnsWF Γ pairs
      (insertAll ((transpose pairs Γ).map (entryOf Γ (pairs.map (·.1)))) []) := by
  have hnewΓ : ((pairs.map (·.1)).map (·.var.id)).Nodup := by
    rw [List.map_map]; exact hnew
  have hperm := transpose_perm pairs Γ hΓ
  -- the keys of the entries are pairwise distinct
  have hΓnd : Γ.Nodup := by
    have : ∀ (l : Ctx), (l.map (·.var.id)).Nodup → l.Nodup := by
      intro l
      induction l with
      | nil => intro _; simp
      | cons a l ih =>
        intro h
        simp only [List.map_cons, List.nodup_cons] at h ⊢
        exact ⟨fun hm => h.1 (List.mem_map.mpr ⟨a, hm, rfl⟩), ih h.2⟩
    exact this Γ hΓ
  have hkeys : (((transpose pairs Γ).map (entryOf Γ (pairs.map (·.1)))).map (·.1)).Nodup := by
    have hp : (((transpose pairs Γ).map (entryOf Γ (pairs.map (·.1)))).map (·.1)).Perm
        (Γ.map fun b => 2 * posIn Γ b.var.id + 1) := by
      have := (hperm.map (entryOf Γ (pairs.map (·.1)))).map (·.1)
      have e : ((Γ.map fun b => (b, targetsOf pairs b)).map (entryOf Γ (pairs.map (·.1)))).map (·.1) =
          Γ.map fun b => 2 * posIn Γ b.var.id + 1 := by
        rw [List.map_map, List.map_map]; rfl
      rw [e] at this
      exact this
    rw [hp.nodup_iff]
    apply nodup_map_of_inj_on _ _ _ hΓnd
    intro a ha b hb hab
    obtain ⟨i, hi, rfl, ei⟩ := posIn_of_mem hΓ ha
    obtain ⟨j, hj, rfl, ej⟩ := posIn_of_mem hΓ hb
    rw [ei, ej] at hab
    have : i = j := by omega
    subst this; rfl
  obtain ⟨hasc, hmem⟩ := insertAll_spec _ [] (by simp [KeysAsc, Asc]) hkeys (by simp)
  -- membership in the entries
  have hentry : ∀ e0, e0 ∈ (transpose pairs Γ).map (entryOf Γ (pairs.map (·.1))) ↔
      ∃ b ∈ Γ, e0 = (2 * posIn Γ b.var.id + 1,
        (targetsOf pairs b).map fun id => 2 * posIn (pairs.map (·.1)) id + 1) := by
    intro e0
    rw [(hperm.map _).mem_iff]
    simp only [List.mem_map, entryOf]
    constructor
    · rintro ⟨e, ⟨b, hb, rfl⟩, rfl⟩; exact ⟨b, hb, rfl⟩
    · rintro ⟨b, hb, rfl⟩; exact ⟨_, ⟨b, hb, rfl⟩, rfl⟩
  -- characterization of the edges
  have hedge : ∀ s t, PMoves.Edge
      (insertAll ((transpose pairs Γ).map (entryOf Γ (pairs.map (·.1)))) []) s t ↔
      ∃ b ∈ Γ, s = 2 * posIn Γ b.var.id + 1 ∧ ∃ p ∈ pairs, b.var.id = p.2.id ∧
        t = 2 * posIn (pairs.map (·.1)) p.1.var.id + 1 := by
    intro s t
    unfold PMoves.Edge
    constructor
    · rintro ⟨ts, hin, ht⟩
      rcases (hmem (s, ts)).mp hin with h | ⟨e0, he0, h⟩
      · simp at h
      · obtain ⟨b, hb, rfl⟩ := (hentry e0).mp he0
        simp only [Prod.mk.injEq] at h
        obtain ⟨rfl, rfl⟩ := h
        rw [(setOfList_spec _).2] at ht
        obtain ⟨id, hid, rfl⟩ := List.mem_map.mp ht
        obtain ⟨p, hp, hbp, rfl⟩ := mem_targetsOf.mp hid
        exact ⟨b, hb, rfl, p, hp, hbp, rfl⟩
    · rintro ⟨b, hb, rfl, p, hp, hbp, rfl⟩
      refine ⟨_, (hmem _).mpr (Or.inr ⟨_, (hentry _).mpr ⟨b, hb, rfl⟩, rfl⟩), ?_⟩
      rw [(setOfList_spec _).2]
      exact List.mem_map.mpr ⟨p.1.var.id, mem_targetsOf.mpr ⟨p, hp, hbp, rfl⟩, rfl⟩
  -- position of a new variable
  have hposNew : ∀ p ∈ pairs, ∃ j, ∃ hj : j < pairs.length, pairs[j] = p ∧
      posIn (pairs.map (·.1)) p.1.var.id = j := by
    intro p hp
    obtain ⟨j, hj, rfl⟩ := List.getElem_of_mem hp
    refine ⟨j, hj, rfl, ?_⟩
    have hj' : j < (pairs.map (·.1)).length := by simpa using hj
    have := posIn_getElem hnewΓ hj'
    simpa using this
  exact {
    keys := Asc.nodup hasc
    targets := by
      intro kv hkv
      rcases (hmem kv).mp hkv with h | ⟨e0, _, rfl⟩
      · simp at h
      · exact Asc.nodup (setOfList_spec _).1
    functional := by
      intro s s' t h1 h2
      obtain ⟨b, hb, rfl, p, hp, hbp, rfl⟩ := (hedge s t).mp h1
      obtain ⟨b', hb', rfl, p', hp', hbp', ht⟩ := (hedge s' _).mp h2
      obtain ⟨j, hj, rfl, ej⟩ := hposNew p hp
      obtain ⟨j', hj', rfl, ej'⟩ := hposNew p' hp'
      rw [ej, ej'] at ht
      have : j = j' := by omega
      subst this
      rw [hbp, ← hbp']
    edge := by
      intro j hj
      obtain ⟨b, hb, hbid⟩ := hold pairs[j] (List.getElem_mem hj)
      obtain ⟨j', hj', e1, e2⟩ := hposNew pairs[j] (List.getElem_mem hj)
      have hjj : j' = j := by
        have hn : (pairs.map (·.1.var.id))[j']'(by simpa using hj') =
            (pairs.map (·.1.var.id))[j]'(by simpa using hj) := by simp [e1]
        exact (List.getElem_inj hnew).mp hn
      subst hjj
      rw [hedge]
      exact ⟨b, hb, by rw [hbid], pairs[j'], List.getElem_mem hj, hbid, by rw [e2]⟩
    range := by
      intro x hx
      rcases hx with hx | hx
      · obtain ⟨e, he, rfl⟩ := List.mem_map.mp hx
        rcases (hmem e).mp he with h | ⟨e0, he0, rfl⟩
        · simp at h
        · obtain ⟨b, hb, rfl⟩ := (hentry e0).mp he0
          obtain ⟨i, hi, _, ei⟩ := posIn_of_mem hΓ hb
          exact ⟨i, by simp [ei], Or.inl hi⟩
      · unfold allTargets at hx
        obtain ⟨e, he, hxe⟩ := List.mem_flatMap.mp hx
        have : PMoves.Edge _ e.1 x := ⟨e.2, he, hxe⟩
        obtain ⟨b, hb, _, p, hp, _, rfl⟩ := (hedge _ _).mp this
        obtain ⟨j, hj, _, ej⟩ := hposNew p hp
        exact ⟨j, by rw [ej], Or.inr hj⟩ }


/-! ## the positional machine's `subst` -/

theorem build_spec (Γ : Ctx) (ρ : List Value) : ∀ (pairs : List (Binding × Ident)) (vs : List Value),
    Pos.step.build Γ ρ pairs = .ok vs →
    vs.length = pairs.length ∧
    ∀ j (hj : j < pairs.length) (hv : j < vs.length),
      ∃ i, posOf Γ pairs[j].2.id = some i ∧ ρ[i]? = some vs[j]
  | [], vs, h => by
    simp only [Pos.step.build] at h
    cases h
    exact ⟨rfl, fun j hj => absurd hj (by simp)⟩
  | p :: ps, vs, h => by
    simp only [Pos.step.build] at h
    cases hr : readVar Γ ρ p.2 with
    | error e => simp [hr] at h
    | ok v =>
      simp only [hr] at h
      cases hb : Pos.step.build Γ ρ ps with
      | error e => simp [hb] at h
      | ok vs' =>
        simp only [hb, Except.ok.injEq] at h
        subst h
        obtain ⟨ih1, ih2⟩ := build_spec Γ ρ ps vs' hb
        refine ⟨by simp [ih1], ?_⟩
        intro j hj hv
        cases j with
        | zero =>
          unfold readVar at hr
          cases hp : posOf Γ p.2.id with
          | none => simp [hp] at hr
          | some i =>
            simp only [hp] at hr
            cases hg : ρ[i]? with
            | none => simp [hg] at hr
            | some w =>
              simp only [hg, Except.ok.injEq] at hr
              subst hr
              exact ⟨i, by simpa using hp, by simpa using hg⟩
        | succ j =>
          have := ih2 j (by simpa using hj) (by simpa using hv)
          simpa using this

/-! ## simulation: `subst` on a context of integers -/

theorem sim_subst {P : Program} {hooks : Bool} {prog : Prog} {Γ : Ctx} {ρ : List Value}
    {pairs : List (Binding × Ident)} {next : Stmt} {cfg : Config} {vs : List Value}
    (R : Rel P hooks prog ⟨Γ, ρ, .subst pairs next⟩ cfg)
    (hΓ : (Γ.map (·.var.id)).Nodup) (hext : ∀ b ∈ Γ, b.chi = .ext)
    (hnew : (pairs.map (·.1.var.id)).Nodup) (hnewext : ∀ p ∈ pairs, p.1.chi = .ext)
    (hold : ∀ p ∈ pairs, ∃ b ∈ Γ, b.var.id = p.2.id)
    (hcap : 2 * pairs.length + 2 < Mock.T_TEMP)
    (hvs : Pos.step.build Γ ρ pairs = .ok vs) :
    ∃ k cfg', stepsTo P k cfg cfg' ∧ cfg'.out = cfg.out ∧
      Rel P hooks prog ⟨pairs.map (·.1), vs, next⟩ cfg' := by
  obtain ⟨c, c', ops, hrun, hat⟩ := R.code
  simp only [codeStatementR, run_bind_ok, run_pure_ok] at hrun
  obtain ⟨c1, k1, h1, c2, k2, h2, c3, k3, h3, rfl, rfl⟩ := hrun
  -- the transposed map has `ext` bindings only
  have htm : ∀ e ∈ transpose pairs Γ, e.1.chi = .ext := by
    intro e he
    obtain ⟨b, hb, rfl⟩ := (transpose_spec pairs Γ hΓ e).mp he
    exact hext b hb
  obtain ⟨rfl, rfl⟩ := cwc_all_ext Γ _ _ _ _ htm h1
  -- the move problem
  unfold codeExchange connections at h2
  simp only [run_bind_ok] at h2
  obtain ⟨conns, k4, h4, h5⟩ := h2
  obtain ⟨rfl, _⟩ := connections_go_ext Γ (pairs.map (·.1)) _ _ _ _ _ htm h4
  have W := conns_wf Γ pairs hΓ hnew hold
  obtain ⟨aops, haops, hsem⟩ := PMoves.parallelMovesFuel_correct (V := Option Word)
    (insertAll ((transpose pairs Γ).map (entryOf Γ (pairs.map (·.1)))) []) W.keys W.targets
    W.functional (fun _ => false)
    (PMoves.fuelFor (insertAll ((transpose pairs Γ).map (entryOf Γ (pairs.map (·.1)))) []))
    (by unfold PMoves.fuelFor; omega)
  have hmine := parallelMoves_eq _ aops haops
  rw [hmine] at h5
  simp only [run_pure_ok] at h5
  obtain ⟨rfl, rfl⟩ := h5
  -- code layout
  simp only [mockSym_comment, List.append_assoc, CodeAt_hook, List.nil_append] at hat
  simp only [List.cons_append, List.nil_append, CodeAt] at hat
  rw [CodeAt_append] at hat
  obtain ⟨hat2, hat3⟩ := hat
  -- the moves do not touch TEMP
  have hne : ∀ x ∈ codeTemps (aops.map aopToMock), x ≠ Mock.T_TEMP := by
    intro x hx
    obtain ⟨i, rfl, hi⟩ := W.range x (parallelMoves_temps _ _ hmine x hx)
    have := R.cap
    simp only at this
    rcases hi with hi | hi <;> omega
  obtain ⟨cfg', hsteps, hpc, hheap, hnext, hout, hag, _⟩ :=
    run_moves P aops cfg (fun t => cfg.temps.get t) cfg.scratch hat2 hne (fun _ _ => rfl) rfl
  obtain ⟨hlen, hbuild⟩ := build_spec Γ ρ pairs vs hvs
  have hallext : ∀ b ∈ pairs.map (·.1), b.chi = .ext := by
    intro b hb
    obtain ⟨p, hp, rfl⟩ := List.mem_map.mp hb
    exact hnewext p hp
  refine ⟨_, cfg', hsteps, hout, ?_⟩
  exact {
    len := by simp [hlen]
    cap := by simpa using hcap
    vals := by
      intro j h1 h2
      have hj : j < pairs.length := by simpa using h1
      obtain ⟨i, hpos, hval⟩ := hbuild j hj h2
      have hi := posOf_lt hpos
      have hi2 : i < ρ.length := by rw [R.len]; exact hi
      -- the new word part is the old one
      have hget : cfg'.temps.get (2 * j + 1) = cfg.temps.get (2 * i + 1) := by
        rw [hag _ (by omega)]
        have := (hsem (fun t => cfg.temps.get t) cfg.scratch).1 _ _ (W.edge j hj)
        rw [posIn_eq hpos] at this
        exact this
      obtain ⟨hr, hsome, hint, _⟩ := R.vals i hi hi2
      have hci : (Γ[i]).chi = .ext := hext _ (List.getElem_mem hi)
      have hcj : ((List.map (fun p : Binding × Ident => p.1) pairs)[j]'h1).chi = Chi.ext :=
        hallext _ (List.getElem_mem h1)
      have hv : vs[j] = ρ[i] := by
        rw [List.getElem?_eq_getElem hi2] at hval
        exact (Option.some.inj hval).symm
      have hb : (Chi.ext == Chi.ext) = true := by decide
      simp only at hr hsome hint
      rw [hci] at hr hint
      simp only [hb, if_true] at hr
      rw [hcj, hget, hv, hheap]
      simp only [hb, if_true]
      refine ⟨hr, hsome, hint, ?_⟩
      intro hc; exact absurd hc (by decide)
    heap := by
      rw [hheap, hnext]
      apply HeapOK_congr R.heap
      show roots (pairs.map (·.1)) _ = roots Γ cfg.temps
      unfold roots
      rw [roots_go_all_ext _ _ _ hallext, roots_go_all_ext _ _ _ hext]
    code := ⟨_, _, c3, h3, by rw [hpc]; exact hat3⟩ }

end Scc.Backend.Subst
